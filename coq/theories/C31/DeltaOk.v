(* C31 — if no IPSetDeltaUpdate of the history adds and removes the same member, no delta message in any stream does. *)
From Coq Require Import List Arith Bool Permutation Lia.
From Verif.C31 Require Import Model Spec Lemmas Sync Trace Split SplitProofs Chunked.
Import ListNotations.

Definition gok (t : stream) : Prop := Forall (fun g : nat * list msg => Forall delta_ok (snd g)) t.

Definition extP (ei ei' : einfo) : Prop :=
  match e_out ei with
  | Some (j, s) => exists t, e_out ei' = Some (j, s ++ t) /\ gok t
  | None => e_out ei' = None
  end.

Lemma extP_refl : forall ei, extP ei ei.
Proof. intro ei. unfold extP. destruct (e_out ei) as [[j s]|]; [exists []; rewrite app_nil_r; split; [reflexivity|constructor]|reflexivity]. Qed.
Lemma extP_trans : forall a b d, extP a b -> extP b d -> extP a d.
Proof.
  intros a b d H1 H2. unfold extP in *. destruct (e_out a) as [[j s]|].
  - destruct H1 as (t & E & T). rewrite E in H2. destruct H2 as (t2 & E2 & T2). exists (t ++ t2).
    rewrite app_assoc. split; [exact E2|apply Forall_app; split; assumption].
  - rewrite H1 in H2. exact H2.
Qed.
Lemma extP_out : forall a b b', e_out b' = e_out b -> extP a b -> extP a b'.
Proof. intros a b b' E H. unfold extP in *. rewrite E. exact H. Qed.
Lemma extP_emit : forall c g ei, Forall delta_ok g -> extP ei (emit c g ei).
Proof.
  intros c g [o u up a b d] G. unfold extP, emit. simpl. destruct o as [[j s]|]; simpl; [|reflexivity].
  exists [(c, g)]. split; [reflexivity|repeat constructor; exact G].
Qed.
Lemma extP_emit_seq : forall c ms ei, Forall delta_ok ms -> extP ei (emit_seq c ms ei).
Proof.
  intros c ms. induction ms as [|m ms IH]; intros ei G; simpl; [apply extP_refl|]. inversion G; subst.
  eapply extP_trans; [apply (extP_emit c [m]); constructor; [assumption|constructor]|apply IH; assumption].
Qed.
Lemma extP_set_synced : forall ei a b d, extP ei (set_synced ei a b d).
Proof. intros. eapply extP_out; [|apply extP_refl]. reflexivity. Qed.

Lemma ok_map : forall A (f : A -> msg) l, (forall x, delta_ok (f x)) -> Forall delta_ok (map f l).
Proof. intros A f l H. apply Forall_forall. intros m Hm. apply in_map_iff in Hm. destruct Hm as (x & <- & _). apply H. Qed.
Lemma ipset_msgs_ok : forall st l x, ipset_msgs st l = Some x -> Forall delta_ok x.
Proof.
  intros st l. induction l as [|s l IH]; simpl; intros x H; [inversion H; constructor|].
  destruct (lookup s (ipsets st)); [|discriminate]. destruct (ipset_msgs st l); [|discriminate]. inversion H; subst.
  constructor; [exact I|apply IH; reflexivity].
Qed.
Lemma sync_added_ok : forall tbl mk ids synced ms sy, (forall i r, delta_ok (mk i r)) ->
  sync_added tbl mk ids synced = Some (ms, sy) -> Forall delta_ok ms.
Proof.
  intros tbl mk ids. induction ids as [|i ids IH]; simpl; intros synced ms sy HK H; [inversion H; constructor|].
  destruct (mem i synced); [eapply IH; eassumption|]. destruct (lookup i tbl); [|discriminate].
  destruct (sync_added tbl mk ids (i :: synced)) as [[ms0 sy0]|] eqn:E; [|discriminate]. inversion H; subst.
  constructor; [apply HK|eapply IH; eassumption].
Qed.

Lemma maybe_sync_extP : forall st w ei ei', maybe_sync st w ei = Some ei' -> extP ei ei'.
Proof.
  intros st w ei ei' H. unfold maybe_sync in H.
  destruct (e_upd ei) as [e|]; [|inversion H; apply extP_refl].
  destruct (e_out ei) as [o|] eqn:O; [|inversion H; apply extP_refl].
  destruct (needed_ips st ei) as [newS|]; [|discriminate].
  destruct (ipset_msgs st _) as [addm|] eqn:AM; [|discriminate].
  destruct (sync_added (pols st) MPolUpdate _ _) as [[pm spol1]|] eqn:SP; [|discriminate].
  destruct (sync_added (profs st) MProfUpdate _ _) as [[fm sprof1]|] eqn:SF; [|discriminate].
  destruct (has_dup (e_pols ei) || has_dup (e_profs ei)); [discriminate|]. inversion H; subst. clear H.
  eapply extP_out; [reflexivity|].
  eapply extP_trans; [|apply extP_emit, ok_map; intro; exact I].
  eapply extP_trans; [|apply extP_emit, ok_map; intro; exact I].
  eapply extP_trans; [|apply extP_emit, ok_map; intro; exact I].
  eapply extP_trans; [|apply extP_emit_seq].
  - apply extP_emit, (ipset_msgs_ok _ _ _ AM).
  - apply Forall_app. split; [eapply sync_added_ok; [|exact SP]; intros; exact I|].
    apply Forall_app. split; [eapply sync_added_ok; [|exact SF]; intros; exact I|repeat constructor].
Qed.

Lemma resync_one_extP : forall st m ei ei', delta_ok m -> resync_one st m ei = Some ei' -> extP ei ei'.
Proof.
  intros st m ei ei' M H. unfold resync_one in H.
  destruct (needed_ips st ei) as [newS|]; [|discriminate].
  destruct (ipset_msgs st _) as [addm|] eqn:AM; [|discriminate]. inversion H; subst. clear H.
  eapply extP_trans; [|apply extP_emit, ok_map; intro; exact I].
  eapply extP_trans; [|apply extP_emit; constructor; [exact M|constructor]].
  eapply extP_trans; [|apply extP_emit, (ipset_msgs_ok _ _ _ AM)]. apply extP_set_synced.
Qed.

Definition MsgInv (st : state) : Prop := forall j w cl s, In (j, (w, cl, s)) (channels st) -> gok s.

Lemma msginv_general : forall st st',
  (forall w ei', In (w, ei') (eps st') ->
      (exists ei, In (w, ei) (eps st) /\ extP ei ei') \/ e_out ei' = None \/ (exists j t, e_out ei' = Some (j, t) /\ gok t)) ->
  (forall j w c s', In (j, (w, c, s')) (closed st') ->
      In (j, (w, c, s')) (closed st) \/ (exists s t, s' = s ++ t /\ In (j, (w, None, s)) (channels st) /\ gok t)) ->
  MsgInv st -> MsgInv st'.
Proof.
  intros st st' H1 H2 MI j w cl' s' H. destruct cl' as [c|].
  - apply in_channels_closed in H. destruct (H2 _ _ _ _ H) as [X|(s & t & -> & X & T)].
    + apply (MI j w (Some c) s'). apply in_channels_closed. exact X.
    + apply Forall_app. split; [apply (MI _ _ _ _ X)|exact T].
  - apply in_channels_live in H. destruct H as (ei' & A & O). destruct (H1 _ _ A) as [(ei & B & E)|[E|(j0 & t & E & T)]].
    + unfold extP in E. destruct (e_out ei) as [[j1 s0]|] eqn:O0; [|congruence].
      destruct E as (t & E & T). rewrite O in E. inversion E; subst. apply Forall_app. split; [|exact T].
      apply (MI j1 w None s0). apply in_channels_live. exists ei. auto.
    + congruence.
    + rewrite O in E. inversion E; subst. exact T.
Qed.

Lemma msginv_ext : forall st st',
  (forall w ei', In (w, ei') (eps st') -> exists ei, In (w, ei) (eps st) /\ extP ei ei') -> closed st' = closed st ->
  MsgInv st -> MsgInv st'.
Proof.
  intros st st' H1 H2. apply msginv_general; [intros w ei' H; left; apply H1, H|intros j w c s' H; left; rewrite H2 in H; exact H].
Qed.
Lemma msginv_same : forall st st', eps st' = eps st -> closed st' = closed st -> MsgInv st -> MsgInv st'.
Proof. intros st st' H1 H2. apply msginv_ext; [|exact H2]. intros w ei' H. rewrite H1 in H. exists ei'. split; [exact H|apply extP_refl]. Qed.
Lemma msginv_broadcast : forall st st' m, delta_ok m -> eps st' = broadcast st m -> closed st' = closed st -> MsgInv st -> MsgInv st'.
Proof.
  intros st st' m M H1 H2. apply msginv_ext; [|exact H2]. intros w ei' H. rewrite H1 in H. unfold broadcast in H.
  apply in_map_snd in H. destruct H as (ei & A & ->). exists ei. split; [exact A|apply extP_emit; repeat constructor; exact M].
Qed.
Lemma msginv_mapeps : forall st st' F x, map_eps F (eps st) = Some x ->
  (forall w ei ei', F w ei = Some ei' -> extP ei ei') -> eps st' = x -> closed st' = closed st -> MsgInv st -> MsgInv st'.
Proof.
  intros st st' F x M HF H1 H2. apply msginv_ext; [|exact H2]. intros w ei' H. rewrite H1 in H.
  destruct (map_eps_in _ _ _ M _ _ H) as (ei & A & B). exists ei. split; [exact A|eapply HF; exact B].
Qed.

Lemma archive_ok : forall st w ei j w0 c s, In (w, ei) (eps st) \/ e_out ei = None -> In (j, (w0, c, s)) (archive st w ei) ->
  In (j, (w0, c, s)) (closed st) \/ (exists s1 t, s = s1 ++ t /\ In (j, (w0, None, s1)) (channels st) /\ gok t).
Proof.
  intros st w ei j w0 c s HI H. unfold archive in H. destruct (e_out ei) as [[j' s']|] eqn:O; [|left; exact H].
  destruct H as [H|H]; [|left; exact H]. inversion H; subst. right. eexists. exists []. rewrite app_nil_r. split; [reflexivity|]. split; [|constructor].
  apply in_channels_live. exists ei. destruct HI as [HI|HI]; [split; [exact HI|exact O]|congruence].
Qed.

Definition op_ok (o : op) : Prop := match o with OIPSetDelta _ a r => disjoint a r | _ => True end.

Lemma step_msginv : forall st o st', op_ok o -> step st o = Some st' -> MsgInv st -> MsgInv st'.
Proof.
  intros st o st' OK H. destruct o; cbn [step] in H.
  - unfold handle_join in H.
    set (ei := match lookup w (eps st) with Some ei => ei | None => mkE None 0 None [] [] [] end) in *.
    destruct (maybe_sync st w (mkE (Some (njoins st, [])) uid (e_upd ei) [] [] [])) as [ei2|] eqn:MS; [|discriminate].
    inversion H; subst st'. clear H.
    set (ei5 := if insync st then _ else _).
    assert (E5 : extP (mkE (Some (njoins st, [])) uid (e_upd ei) [] [] []) ei5).
    { unfold ei5. destruct (insync st).
      - eapply extP_trans; [|apply extP_emit; repeat constructor].
        eapply extP_trans; [|apply extP_emit, ok_map; intro; exact I].
        eapply extP_trans; [|apply extP_emit, ok_map; intro; exact I]. apply (maybe_sync_extP _ _ _ _ MS).
      - eapply extP_trans; [|apply extP_emit, ok_map; intro; exact I].
        eapply extP_trans; [|apply extP_emit, ok_map; intro; exact I]. apply (maybe_sync_extP _ _ _ _ MS). }
    apply msginv_general.
    + intros w0 ei' Hin. cbn [eps] in Hin. destruct Hin as [X|X].
      * inversion X; subst. right. right. unfold extP in E5. cbn [e_out] in E5. destruct E5 as (t & E & T). exists (njoins st), t. split; [exact E|exact T].
      * apply in_remove in X. left. exists ei'. split; [apply X|apply extP_refl].
    + intros j w0 c s' Hc. cbn [closed] in Hc. apply (archive_ok st w ei); [|exact Hc].
      unfold ei. destruct (lookup w (eps st)) eqn:L; [left; apply lookup_in; exact L|right; reflexivity].
  - unfold handle_leave in H. destruct (lookup w (eps st)) as [ei|] eqn:L; [|inversion H; subst; apply msginv_same; reflexivity].
    destruct (Nat.eqb (e_uid ei) uid).
    + destruct (e_out ei) as [o|] eqn:O; [|discriminate]. inversion H; subst st'. clear H. apply msginv_general.
      * intros w0 ei' Hin. cbn [eps] in Hin. destruct (e_upd ei).
        -- destruct Hin as [X|X]; [inversion X; subst; right; left; reflexivity|].
           apply in_remove in X. left. exists ei'. split; [apply X|apply extP_refl].
        -- apply in_remove in Hin. left. exists ei'. split; [apply Hin|apply extP_refl].
      * intros j w0 c s' Hc. cbn [closed] in Hc. apply (archive_ok st w ei); [left; apply lookup_in; exact L|exact Hc].
    + assert (X : st' = st \/ st' = set_eps st (remove w (eps st))).
      { destruct (e_out ei); [left; congruence|]. destruct (e_uid ei); [|left; congruence]. destruct (e_upd ei); [left; congruence|right; congruence]. }
      destruct X as [->| ->]; [apply msginv_same; reflexivity|].
      apply msginv_ext; [|reflexivity]. intros w0 ei' Hin. cbn [eps set_eps] in Hin. apply in_remove in Hin.
      exists ei'. split; [apply Hin|apply extP_refl].
  - destruct (insync st); inversion H; subst; [apply msginv_same; reflexivity|eapply msginv_broadcast; [|reflexivity|reflexivity]; exact I].
  - unfold handle_wep_update in H.
    destruct (maybe_sync st w _) as [ei'|] eqn:MS; [|discriminate]. inversion H; subst st'. clear H.
    apply maybe_sync_extP in MS. apply msginv_general.
    + intros w0 ei2 Hin. cbn [eps set_eps] in Hin. destruct Hin as [X|X].
      * inversion X; subst. destruct (lookup w0 (eps st)) as [ei|] eqn:L.
        -- left. exists ei. split; [apply lookup_in; exact L|]. eapply extP_trans; [|exact MS]. eapply extP_out; [|apply extP_refl]. reflexivity.
        -- right. left. unfold extP in MS. cbn [e_out] in MS. exact MS.
      * apply in_remove in X. left. exists ei2. split; [apply X|apply extP_refl].
    + intros j w0 c s' Hc. left. exact Hc.
  - unfold handle_wep_remove in H. destruct (lookup w (eps st)) as [ei|] eqn:L; [|discriminate]. inversion H; subst st'. clear H.
    apply msginv_general.
    + intros w0 ei' Hin. cbn [eps] in Hin. apply in_remove in Hin. left. exists ei'. split; [apply Hin|apply extP_refl].
    + intros j w0 c s' Hc. cbn [closed] in Hc. unfold archive, emit in Hc. destruct (e_out ei) as [[j' s0]|] eqn:O; [|left; rewrite O in Hc; exact Hc].
      cbn [e_out set_out] in Hc. destruct Hc as [Hc|Hc]; [|left; exact Hc]. inversion Hc; subst. right.
      exists s0, [(clk st, [MWepRemove w0])]. split; [reflexivity|]. split; [|repeat constructor].
      apply in_channels_live. exists ei. split; [apply lookup_in; exact L|exact O].
  - unfold handle_pol_update in H. destruct (map_eps _ (eps st)) as [x|] eqn:M; [|discriminate]. inversion H; subst st'. clear H.
    eapply (msginv_mapeps st _ _ x M); try reflexivity. intros w ei ei' HF.
    destruct (live ei && mem p (e_pols ei)); [|inversion HF; apply extP_refl].
    destruct (resync_one _ _ ei) as [e1|] eqn:R; [|discriminate]. inversion HF; subst.
    eapply extP_out; [|eapply resync_one_extP; [|exact R]; exact Logic.I]. reflexivity.
  - inversion H; subst. apply msginv_same; reflexivity.
  - unfold handle_prof_update in H. destruct (map_eps _ (eps st)) as [x|] eqn:M; [|discriminate]. inversion H; subst st'. clear H.
    eapply (msginv_mapeps st _ _ x M); try reflexivity. intros w ei ei' HF.
    destruct (live ei && mem p (e_profs ei)); [|inversion HF; apply extP_refl].
    destruct (resync_one _ _ ei) as [e1|] eqn:R; [|discriminate]. inversion HF; subst.
    eapply extP_out; [|eapply resync_one_extP; [|exact R]; exact Logic.I]. reflexivity.
  - inversion H; subst. apply msginv_same; reflexivity.
  - unfold handle_ipset_update in H. destruct (lookup s (ipsets st)); [|inversion H; subst; apply msginv_same; reflexivity].
    destruct (map_eps _ (eps st)) as [x|] eqn:M; [|discriminate]. inversion H; subst st'. clear H.
    eapply (msginv_mapeps st _ _ x M); try reflexivity. intros w ei ei' HF.
    destruct (live ei); [|inversion HF; apply extP_refl].
    destruct (references_ipset st ei s) as [[|]|]; [| |discriminate]; inversion HF; subst; [|apply extP_refl].
    eapply extP_trans; [apply extP_set_synced|apply extP_emit; repeat constructor].
  - unfold handle_ipset_delta in H.
    destruct (match lookup s (ipsets st) with Some _ => _ | None => _ end) as [ips1|]; [|discriminate].
    destruct (map_eps _ (eps st)) as [x|] eqn:M; [|discriminate]. inversion H; subst st'. clear H.
    eapply (msginv_mapeps st _ _ x M); try reflexivity. intros w ei ei' HF.
    destruct (live ei); [|inversion HF; apply extP_refl].
    destruct (references_ipset st ei s) as [[|]|]; [| |discriminate]; inversion HF; subst; [|apply extP_refl].
    apply extP_emit. repeat constructor. exact OK.
  - inversion H; subst. apply msginv_same; reflexivity.
  - inversion H; subst. eapply msginv_broadcast; [|reflexivity|reflexivity]; exact I.
  - inversion H; subst. eapply msginv_broadcast; [|reflexivity|reflexivity]; exact I.
  - inversion H; subst. eapply msginv_broadcast; [|reflexivity|reflexivity]; exact I.
  - inversion H; subst. eapply msginv_broadcast; [|reflexivity|reflexivity]; exact I.
Qed.

Lemma run_msginv : forall ops st st' r, Forall op_ok ops -> run_from st ops = (st', r) -> MsgInv st -> MsgInv st'.
Proof.
  induction ops as [|o ops IH]; simpl; intros st st' r F H MI; [inversion H; subst; exact MI|].
  inversion F; subst. destruct (step st o) as [st1|] eqn:S1; [|inversion H; subst; exact MI].
  apply (IH _ _ _ H3 H). intros j w cl s Hin. change (channels (tick st1)) with (channels st1) in Hin.
  eapply step_msginv; eassumption.
Qed.
