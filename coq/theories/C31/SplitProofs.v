(* C31 — the splitters lose nothing: for EVERY chunk size n >= 1 and every member list, applying the split messages
   in order gives the client the same set as the unsplit message, and every message fits. *)
From Coq Require Import List Arith Bool Lia.
From Verif.C31 Require Import Model Spec Lemmas Split.
Import ListNotations.

Lemma In_mins : forall x y l, In x (mins y l) <-> x = y \/ In x l.
Proof.
  intros x y l. induction l as [|z l IH]; simpl; [intuition congruence|].
  destruct (y <? z); simpl; [intuition congruence|]. destruct (Nat.eqb_spec y z) as [->|N]; simpl; [intuition congruence|]. rewrite IH. intuition congruence.
Qed.
Lemma In_fold_mins : forall x a m, In x (fold_right mins m a) <-> In x a \/ In x m.
Proof.
  intros x a m. induction a as [|y a IH]; simpl; [tauto|]. rewrite In_mins, IH. intuition congruence.
Qed.
Lemma In_canon : forall x l, In x (canon l) <-> In x l.
Proof. intros. unfold canon. rewrite In_fold_mins. simpl. tauto. Qed.
Lemma In_members_delta : forall x m a r, In x (members_delta m a r) <-> (In x m \/ In x a) /\ ~ In x r.
Proof.
  intros. unfold members_delta. rewrite filter_In, In_fold_mins, negb_true_iff, mem_false. tauto.
Qed.

(* ---- splitMembers ---- *)

Lemma chunks_spec : forall fuel n l, 1 <= n -> length l <= fuel ->
  concat (chunks fuel n l) = l /\ Forall (fun c => length c <= n) (chunks fuel n l).
Proof.
  induction fuel as [|f IH]; intros n l N L.
  - destruct l; [split; [reflexivity|constructor]|simpl in L; lia].
  - destruct l as [|x l]; [split; [reflexivity|constructor]|].
    cbn [chunks]. set (l0 := x :: l) in *.
    assert (LS : length (skipn n l0) <= f) by (rewrite skipn_length; unfold l0; cbn [length]; simpl in L; lia).
    destruct (IH n (skipn n l0) N LS) as [C F]. split.
    + cbn [concat]. rewrite C. apply firstn_skipn.
    + constructor; [rewrite firstn_length; lia|exact F].
Qed.

Lemma split_members_spec : forall n l, 1 <= n ->
  concat (split_members n l) = l /\ Forall (fun c => length c <= n) (split_members n l) /\ split_members n l <> [].
Proof.
  intros n l N. unfold split_members. destruct l as [|x l].
  - split; [reflexivity|]. split; [repeat constructor; simpl; lia|discriminate].
  - destruct (chunks_spec (length (x :: l)) n (x :: l) N (le_n _)) as [C F]. split; [exact C|]. split; [exact F|].
    simpl. discriminate.
Qed.

(* ---- splitIPSetUpdate ---- *)

Definition fits (n : nat) (m : msg) : Prop :=
  match m with MIPSetUpdate _ l => length l <= n | MIPSetDelta _ a r => length a + length r <= n | _ => False end.

Lemma fold_adds : forall s r m0, exists m', fold_left sapply (map (fun c => MIPSetDelta s c []) r) (Some m0) = Some m'
  /\ forall x, In x m' <-> In x m0 \/ In x (concat r).
Proof.
  intros s r. induction r as [|c r IH]; intro m0; simpl.
  - exists m0. split; [reflexivity|]. intro x. tauto.
  - destruct (IH (members_delta m0 c [])) as (m' & E & H). exists m'. split; [exact E|].
    intro x. rewrite H, In_members_delta, in_app_iff. simpl. tauto.
Qed.

Theorem split_update_complete : forall n s l cur, 1 <= n ->
  Forall (fits n) (split_update n s l) /\
  exists m', fold_left sapply (split_update n s l) cur = Some m' /\ forall x, In x m' <-> In x l.
Proof.
  intros n s l cur N. destruct (split_members_spec n l N) as (C & F & NE). unfold split_update.
  destruct (split_members n l) as [|c0 r]; [congruence|]. inversion F as [|? ? F0 FR]; subst. split.
  - constructor; [exact F0|]. apply Forall_forall. intros m Hm. apply in_map_iff in Hm. destruct Hm as (c & <- & Hc).
    simpl. rewrite Forall_forall in FR. specialize (FR c Hc). lia.
  - cbn [fold_left sapply]. destruct (fold_adds s r (canon c0)) as (m' & E & H). exists m'. split; [exact E|].
    intro x. rewrite H, In_canon. simpl. rewrite in_app_iff. tauto.
Qed.

(* ---- splitIPSetDeltaUpdate ---- *)

Lemma loop_spec : forall fuel n s adds rdels m0,
  length adds + length rdels <= fuel ->
  Forall (fun c => length c <= n) adds -> Forall (fun c => length c <= n) rdels ->
  (forall x, In x (concat adds) -> ~ In x (concat rdels)) ->
  Forall (fits n) (split_delta_loop fuel n s adds rdels) /\
  exists m', fold_left sapply (split_delta_loop fuel n s adds rdels) (Some m0) = Some m'
    /\ forall x, In x m' <-> (In x m0 \/ In x (concat adds)) /\ ~ In x (concat rdels).
Proof.
  induction fuel as [|f IH]; intros n s adds rdels m0 L FA FD DJ.
  - destruct adds; [|simpl in L; lia]. destruct rdels; [|simpl in L; lia]. simpl. split; [constructor|].
    exists m0. split; [reflexivity|]. intro x. tauto.
  - cbn [split_delta_loop]. destruct adds as [|a adds'], rdels as [|d rd].
    + split; [constructor|]. exists m0. split; [reflexivity|]. intro x. simpl. tauto.
    + (* only removals left *)
      inversion FD as [|? ? FD0 FDR]; subst. simpl length at 1.
      assert (T : 0 + length d <=? n = true) by (apply Nat.leb_le; lia). cbn [length]. rewrite T.
      destruct (IH n s [] rd (members_delta m0 [] d)) as (FI & m' & E & H); [simpl in *; lia|constructor|exact FDR| |].
      * intros x [].
      * split; [constructor; [simpl; lia|exact FI]|]. exists m'. cbn [fold_left sapply]. split; [exact E|].
        intro x. rewrite H, In_members_delta. simpl. rewrite in_app_iff. tauto.
    + (* only additions left *)
      inversion FA as [|? ? FA0 FAR]; subst.
      destruct (IH n s adds' [] (members_delta m0 a [])) as (FI & m' & E & H); [simpl in *; lia|exact FAR|constructor| |].
      * intros x _ [].
      * split; [constructor; [simpl; lia|exact FI]|]. exists m'. cbn [fold_left sapply]. split; [exact E|].
        intro x. rewrite H, In_members_delta. simpl. rewrite in_app_iff. tauto.
    + inversion FA as [|? ? FA0 FAR]; subst. inversion FD as [|? ? FD0 FDR]; subst.
      assert (DJ1 : forall x, In x a -> ~ In x d /\ ~ In x (concat rd)).
      { intros x Hx. specialize (DJ x). simpl in DJ. rewrite !in_app_iff in DJ. tauto. }
      assert (DJ2 : forall x, In x (concat adds') -> ~ In x d /\ ~ In x (concat rd)).
      { intros x Hx. specialize (DJ x). simpl in DJ. rewrite !in_app_iff in DJ. tauto. }
      destruct (length a + length d <=? n) eqn:T.
      * apply Nat.leb_le in T.
        destruct (IH n s adds' rd (members_delta m0 a d)) as (FI & m' & E & H); [simpl in *; lia|exact FAR|exact FDR| |].
        -- intros x Hx. apply (DJ2 x Hx).
        -- split; [constructor; [simpl; lia|exact FI]|]. exists m'. cbn [fold_left sapply]. split; [exact E|].
           intro x. rewrite H, In_members_delta. simpl. rewrite !in_app_iff.
           specialize (DJ1 x). specialize (DJ2 x). clear - DJ1 DJ2. tauto.
      * destruct (IH n s adds' (d :: rd) (members_delta m0 a [])) as (FI & m' & E & H); [simpl in *; lia|exact FAR|exact FD| |].
        -- intros x Hx. simpl. rewrite in_app_iff. specialize (DJ2 x Hx). tauto.
        -- split; [constructor; [simpl; lia|exact FI]|]. exists m'. cbn [fold_left sapply]. split; [exact E|].
           intro x. rewrite H, In_members_delta. simpl. rewrite !in_app_iff. clear. tauto.
Qed.

Lemma in_concat_rev : forall (l : list (list nat)) x, In x (concat (rev l)) <-> In x (concat l).
Proof.
  intros l x. rewrite !in_concat. split; intros (c & A & B); exists c; split; try exact B; [apply in_rev; exact A|apply -> in_rev; exact A].
Qed.

Theorem split_delta_complete : forall n s added removed m0, 1 <= n ->
  (forall x, In x added -> ~ In x removed) ->
  Forall (fits n) (split_delta n s added removed) /\
  exists m', fold_left sapply (split_delta n s added removed) (Some m0) = Some m'
    /\ forall x, In x m' <-> In x (members_delta m0 added removed).
Proof.
  intros n s added removed m0 N DJ. unfold split_delta.
  destruct (split_members_spec n added N) as (CA & FA & _). destruct (split_members_spec n removed N) as (CR & FR & _).
  destruct (loop_spec (length (split_members n added) + length (rev (split_members n removed))) n s
              (split_members n added) (rev (split_members n removed)) m0 (le_n _) FA) as (FI & m' & E & H).
  - apply Forall_rev. exact FR.
  - intros x Hx. rewrite in_concat_rev, CR. rewrite CA in Hx. apply DJ, Hx.
  - split; [exact FI|]. exists m'. split; [exact E|]. intro x. rewrite H, In_members_delta, in_concat_rev, CA, CR. tauto.
Qed.
