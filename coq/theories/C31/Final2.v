(* C31 — the property statements, proved from the invariant. *)
From Coq Require Import List Arith Bool Permutation Lia.
From Verif.C31 Require Import Model Spec Lemmas Views Groups GroupAdv Sync Inv Inv2 Inv3 Inv4 Inv5 Inv6 Inv7 Inv8 Inv9 Proofs Final.
Import ListNotations.

Lemma no_panic : forall ops, valid ops = true -> snd (run ops) = None.
Proof. intros ops V. destruct (valid_run ops V) as (st & R & _). rewrite R. reflexivity. Qed.

Lemma complete_latest : forall ops w j uid, valid ops = true ->
  lookup w (t_conn (truth_of ops)) = Some (j, uid) ->
  exists ei s, lookup w (eps (fst (run ops))) = Some ei /\ e_out ei = Some (j, s) /\
    forall ms, lin (groups s) ms -> expected (truth_of ops) w (client ms) = true.
Proof.
  intros ops w j uid V C. destruct (valid_run ops V) as (st & R & I). rewrite R. simpl.
  destruct (connected_channel _ _ _ _ _ I C) as (ei & s & IN & L & O & _).
  exists ei, s. split; [exact L|]. split; [exact O|]. apply (live_expected _ _ _ _ _ _ I IN O).
Qed.

Lemma refs_before_use : forall ops, valid ops = true ->
  forall j w c s, In (j, (w, c, s)) (channels (fst (run ops))) ->
  forall ms, lin (groups s) ms -> snd (apply_checked w cinit ms) = true.
Proof.
  intros ops V j w c s H. destruct (valid_run ops V) as (st & R & I). rewrite R in H. simpl in H.
  unfold channels in H. apply in_app_or in H. destruct H as [H|H].
  - apply in_flat_map in H. destruct H as ([w' ei] & IN & H). simpl in H.
    destruct (e_out ei) as [[j' s']|] eqn:O; [|destruct H]. destruct H as [H|[]]. inversion H; subst.
    apply (live_checked st w ei j s (i_live _ _ I _ _ IN) O).
  - apply in_map_iff in H. destruct H as ([j' [[w' c'] s']] & E & H). inversion E; subst.
    apply (i_closed _ _ I j w c' s H).
Qed.

Lemma exactly_minimal : forall V (eqb : V -> V -> bool) held tbl needed k,
  exactly eqb held tbl needed = true -> lookup k held <> None -> In k needed.
Proof.
  intros V eqb held tbl needed k E H. unfold exactly in E. rewrite forallb_forall in E.
  destruct (lookup k held) as [v|] eqn:L; [|congruence].
  assert (K : In k (keys held ++ needed)).
  { apply in_or_app. left. apply lookup_in in L. unfold keys. apply in_map_iff. exists (k, v). auto. }
  specialize (E k K). rewrite L in E. destruct (mem k needed) eqn:M; [apply mem_In; exact M|discriminate].
Qed.

Lemma only_own : forall ops w j uid, valid ops = true ->
  lookup w (t_conn (truth_of ops)) = Some (j, uid) ->
  exists ei s, lookup w (eps (fst (run ops))) = Some ei /\ e_out ei = Some (j, s) /\
    forall ms, lin (groups s) ms ->
      Forall (fun m => own w m = true) ms
      /\ (forall p, lookup p (c_pol (client ms)) <> None -> In p (t_needed_pols (truth_of ops) w))
      /\ (forall p, lookup p (c_prof (client ms)) <> None -> In p (t_needed_profs (truth_of ops) w))
      /\ (forall s', lookup s' (c_ips (client ms)) <> None -> In s' (t_needed_ips (truth_of ops) w)).
Proof.
  intros ops w j uid V C. destruct (complete_latest ops w j uid V C) as (ei & s & L & O & E).
  exists ei, s. split; [exact L|]. split; [exact O|]. intros ms Hl. split.
  - eapply checked_own. apply (refs_before_use ops V j w None s); [|exact Hl].
    unfold channels. apply in_or_app. left. apply in_flat_map. exists (w, ei). split; [apply lookup_in; exact L|].
    simpl. rewrite O. left. reflexivity.
  - specialize (E ms Hl). unfold expected in E.
    repeat (apply andb_true_iff in E; destruct E as [E ?]).
    split; [|split]; intros k Hk; eapply exactly_minimal; eassumption.
Qed.

(* ---- leave ---- *)

Lemma valid_from_app : forall a b T, valid_from T (a ++ b) = valid_from T a && valid_from (fold_left tstep a T) b.
Proof.
  induction a as [|o a IH]; simpl; intros b T; [reflexivity|]. rewrite IH, andb_assoc. reflexivity.
Qed.

Lemma valid_prefix : forall ops more, valid (ops ++ more) = true -> valid ops = true.
Proof. intros ops more V. unfold valid in *. rewrite valid_from_app in V. apply andb_true_iff in V. apply V. Qed.

Lemma after_leave : forall ops more w j uid, valid (ops ++ OLeave w uid :: more) = true ->
  lookup w (t_conn (truth_of ops)) = Some (j, uid) ->
  let st := fst (run (ops ++ [OLeave w uid])) in
  let st' := fst (run (ops ++ OLeave w uid :: more)) in
  (exists c s, In (j, (w, c, s)) (closed st) /\ In (j, (w, c, s)) (closed st'))
  /\ (forall ei, lookup w (eps st) = Some ei -> e_out ei = None).
Proof.
  intros ops more w j uid V C. unfold valid in V. rewrite valid_from_app in V. apply andb_true_iff in V. destruct V as [V1 V2].
  destruct (valid_run ops V1) as (st0 & R0 & I0). fold (truth_of ops) in V2.
  destruct (connected_channel _ _ _ _ _ I0 C) as (ei & s & IN & L & O & U).
  simpl in V2. apply andb_true_iff in V2. destruct V2 as [V2 V3].
  assert (S : step st0 (OLeave w uid) =
              Some (mkS (match e_upd ei with None => remove w (eps st0) | Some _ => insert w (mkE None 0 (e_upd ei) (e_spol ei) (e_sprof ei) (e_sips ei)) (eps st0) end)
                        (pols st0) (profs st0) (sas st0) (nss st0) (ipsets st0) (insync st0) (archive st0 w ei) (njoins st0) (clk st0))).
  { cbn [step]. unfold handle_leave. rewrite L, U, Nat.eqb_refl, O. reflexivity. }
  set (st1 := mkS (match e_upd ei with None => remove w (eps st0) | Some _ => insert w (mkE None 0 (e_upd ei) (e_spol ei) (e_sprof ei) (e_sips ei)) (eps st0) end)
                  (pols st0) (profs st0) (sas st0) (nss st0) (ipsets st0) (insync st0) (archive st0 w ei) (njoins st0) (clk st0)) in *.
  assert (R1 : run (ops ++ [OLeave w uid]) = (tick st1, None)).
  { unfold run. rewrite (run_from_app ops [OLeave w uid] init st0 R0). cbn [run_from]. rewrite S. reflexivity. }
  assert (CL : In (j, (w, clk st0, s)) (closed (tick st1))).
  { simpl. unfold archive. rewrite O. left. reflexivity. }
  intros st st'. subst st st'. rewrite R1. cbn [fst]. split.
  - exists (clk st0), s. split; [exact CL|].
    destruct (run (ops ++ OLeave w uid :: more)) as [st2 r2] eqn:R2. cbn [fst].
    change (OLeave w uid :: more) with ([OLeave w uid] ++ more) in R2. rewrite app_assoc in R2.
    unfold run in R2, R1. rewrite (run_from_app _ more init _ R1) in R2.
    apply (run_from_closed_mono _ _ _ _ R2 _ CL).
  - intros ei' L'. cbn [eps tick st1] in L'. destruct (e_upd ei).
    + rewrite lookup_insert, Nat.eqb_refl in L'. inversion L'; subst. reflexivity.
    + rewrite lookup_remove, Nat.eqb_refl in L'. discriminate.
Qed.
