(* C31 — generic lemmas: association lists, membership, linearisations. *)
From Coq Require Import List Arith Bool Permutation Lia.
From Verif.C31 Require Import Model Spec.
Import ListNotations.

Lemma lookup_remove : forall V k k' (l : list (id * V)),
  lookup k (remove k' l) = if Nat.eqb k k' then None else lookup k l.
Proof.
  intros V k k' l. induction l as [|[a v] l IH]; simpl.
  - destruct (Nat.eqb k k'); reflexivity.
  - destruct (Nat.eqb_spec k' a) as [E|E]; simpl.
    + subst a. destruct (Nat.eqb_spec k k') as [E2|E2]; [exact IH|]. exact IH.
    + destruct (Nat.eqb_spec k a) as [E2|E2].
      * subst a. destruct (Nat.eqb_spec k k') as [E3|E3]; [congruence|reflexivity].
      * exact IH.
Qed.

Lemma lookup_insert : forall V k k' (v : V) (l : list (id * V)),
  lookup k (insert k' v l) = if Nat.eqb k k' then Some v else lookup k (l).
Proof.
  intros. unfold insert. simpl. destruct (Nat.eqb_spec k k') as [E|E]; [reflexivity|].
  rewrite lookup_remove. destruct (Nat.eqb_spec k k'); [congruence|reflexivity].
Qed.

Lemma in_remove : forall V k k' (v : V) l, In (k, v) (remove k' l) -> In (k, v) l /\ k <> k'.
Proof.
  intros V k k' v l H. unfold remove in H. apply filter_In in H. destruct H as [H1 H2]. simpl in H2.
  split; [exact H1|]. destruct (Nat.eqb_spec k' k); [discriminate|congruence].
Qed.

(* entries agree with lookup *)
Definition fal {V} (l : list (id * V)) : Prop := forall k v, In (k, v) l -> lookup k l = Some v.

Lemma fal_nil : forall V, @fal V [].
Proof. intros V k v H. destruct H. Qed.
Lemma fal_remove : forall V k (l : list (id * V)), fal l -> fal (remove k l).
Proof.
  intros V k l F a v H. apply in_remove in H. destruct H as [H1 H2].
  rewrite lookup_remove. destruct (Nat.eqb_spec a k); [congruence|]. apply F; exact H1.
Qed.
Lemma fal_insert : forall V k (x : V) (l : list (id * V)), fal l -> fal (insert k x l).
Proof.
  intros V k x l F a v H. rewrite lookup_insert. destruct H as [H|H].
  - inversion H; subst. rewrite Nat.eqb_refl. reflexivity.
  - apply in_remove in H. destruct H as [H1 H2]. destruct (Nat.eqb_spec a k); [congruence|]. apply F; exact H1.
Qed.

Lemma lookup_in : forall V k (v : V) l, lookup k l = Some v -> In (k, v) l.
Proof.
  intros V k v l. induction l as [|[a x] l IH]; simpl; [discriminate|].
  destruct (Nat.eqb_spec k a); intro H.
  - inversion H; subst. left; reflexivity.
  - right; apply IH; exact H.
Qed.

Lemma mem_In : forall k l, mem k l = true <-> In k l.
Proof.
  intros k l. unfold mem. rewrite existsb_exists. split.
  - intros [x [H1 H2]]. apply Nat.eqb_eq in H2. subst; exact H1.
  - intro H. exists k. split; [exact H|apply Nat.eqb_refl].
Qed.
Lemma mem_false : forall k l, mem k l = false <-> ~ In k l.
Proof.
  intros k l. rewrite <- mem_In. destruct (mem k l); split; intro H; try congruence; try (exfalso; apply H; reflexivity).
Qed.
Lemma mem_app : forall k a b, mem k (a ++ b) = mem k a || mem k b.
Proof. intros. unfold mem. apply existsb_app. Qed.
Lemma mem_ext : forall a b, (forall k, In k a <-> In k b) -> forall k, mem k a = mem k b.
Proof.
  intros a b H k. destruct (mem k a) eqn:E1, (mem k b) eqn:E2; try reflexivity.
  - apply mem_In in E1. apply H in E1. apply mem_In in E1. congruence.
  - apply mem_In in E2. apply H in E2. apply mem_In in E2. congruence.
Qed.
Lemma mem_set_add : forall k x l, mem k (set_add x l) = Nat.eqb k x || mem k l.
Proof.
  intros. unfold set_add. destruct (mem x l) eqn:E; simpl; [|reflexivity].
  destruct (Nat.eqb_spec k x); [subst; rewrite E; reflexivity|reflexivity].
Qed.
Lemma In_dedup : forall k l, In k (dedup l) <-> In k l.
Proof.
  intros k l. induction l as [|x l IH]; simpl; [tauto|].
  destruct (mem x l) eqn:E.
  - rewrite IH. split; [tauto|]. intros [H|H]; [subst; apply mem_In; exact E|exact H].
  - simpl. rewrite IH. tauto.
Qed.
Lemma has_dup_false_NoDup : forall l, has_dup l = false -> NoDup l.
Proof.
  induction l as [|x l IH]; simpl; intro H; [constructor|].
  apply orb_false_iff in H. destruct H as [H1 H2]. constructor; [apply mem_false; exact H1|apply IH; exact H2].
Qed.

(* ---- linearisations ---- *)

Lemma lin_app_inv : forall g1 g2 ms, lin (g1 ++ g2) ms -> exists m1 m2, ms = m1 ++ m2 /\ lin g1 m1 /\ lin g2 m2.
Proof.
  induction g1 as [|g g1 IH]; simpl; intros g2 ms H.
  - exists [], ms. repeat split; [constructor|exact H].
  - inversion H; subst. destruct (IH _ _ H4) as [m1 [m2 [E [L1 L2]]]]. subst.
    exists (p ++ m1), m2. rewrite app_assoc. repeat split; [constructor; assumption|exact L2].
Qed.
Lemma lin_app : forall g1 g2 m1 m2, lin g1 m1 -> lin g2 m2 -> lin (g1 ++ g2) (m1 ++ m2).
Proof.
  intros g1 g2 m1 m2 H. induction H; simpl; intro L; [exact L|].
  rewrite <- app_assoc. constructor; [assumption|apply IHlin; exact L].
Qed.
Lemma lin_one_inv : forall g ms, lin [g] ms -> Permutation g ms.
Proof. intros g ms H. inversion H; subst. inversion H4; subst. rewrite app_nil_r. assumption. Qed.
Lemma lin_singletons_inv : forall l ms, lin (map (fun m => [m]) l) ms -> ms = l.
Proof.
  induction l as [|m l IH]; simpl; intros ms H; inversion H; subst; [reflexivity|].
  apply Permutation_length_1_inv in H2. subst. simpl. f_equal. apply IH; assumption.
Qed.
Lemma lin_id : forall gs, lin gs (concat gs).
Proof. induction gs; simpl; constructor; [apply Permutation_refl|assumption]. Qed.

Lemma groups_app : forall a b, groups (a ++ b) = groups a ++ groups b.
Proof. intros. unfold groups. apply map_app. Qed.
