(* C31 — the invariant tying the Processor model to the truth of the history, part 1: definitions, the
   contract keeps the truth well-formed, generic facts about handlers that map over all endpoints. *)
From Coq Require Import List Arith Bool Permutation Lia.
From Verif.C31 Require Import Model Spec Lemmas Views Groups GroupAdv Sync ListedOnce.
Import ListNotations.

(* the truth is well-formed: endpoints list stored policies/profiles once, stored rules mention stored IP sets *)
Definition WFT (T : truth) : Prop :=
  (forall w e, lookup w (t_eps T) = Some e ->
      (forall p, In p (ep_policies e) -> lookup p (t_pols T) <> None) /\
      (forall p, In p (ep_profiles e) -> lookup p (t_profs T) <> None) /\
      has_dup (ep_pols e) = false /\ has_dup (ep_profiles e) = false)
  /\ (forall k r, lookup k (t_pols T) = Some r -> forall s, In s (refs r) -> lookup s (t_ips T) <> None)
  /\ (forall k r, lookup k (t_profs T) = Some r -> forall s, In s (refs r) -> lookup s (t_ips T) <> None).

Lemma present_true : forall V (tbl : list (id * V)) k, present tbl k = true <-> lookup k tbl <> None.
Proof. intros. unfold present. destruct (lookup k tbl); split; congruence. Qed.

Lemma lookup_insert_ne : forall V k k' (v : V) l, lookup k l <> None -> lookup k (insert k' v l) <> None.
Proof. intros. rewrite lookup_insert. destruct (Nat.eqb k k'); congruence. Qed.

Ltac tsimpl := cbn [t_eps t_pols t_profs t_ips t_sas t_nss t_insync t_conn t_njoins] in *.

Lemma wft_step : forall T o, WFT T -> valid_op T o = true -> WFT (tstep T o).
Proof.
  intros T o (W1 & W2 & W3) V. unfold WFT. destruct o; cbn [tstep valid_op] in *; tsimpl; try (split; [|split]; assumption).
  - (* leave *) destruct (lookup w (t_conn T)) as [[j u]|]; [destruct (Nat.eqb u uid)|]; split; [|split| |split| |split]; assumption.
  - (* wep update *)
    apply andb_true_iff in V. destruct V as [V D2]. apply andb_true_iff in V. destruct V as [V D1].
    apply andb_true_iff in V. destruct V as [V1 V2]. rewrite forallb_forall in V1, V2.
    apply listed_once_nodup in D1. apply negb_true_iff in D2.
    split; [|split; assumption]. intros w0 e0 H. rewrite lookup_insert in H.
    destruct (Nat.eqb w0 w); [|apply W1 with w0; exact H]. inversion H; subst e0.
    split; [intros p Hp; apply present_true, V1, Hp|]. split; [intros p Hp; apply present_true, V2, Hp|]. split; assumption.
  - (* wep remove *)
    split; [|split; assumption]. intros w0 e0 H. rewrite lookup_remove in H.
    destruct (Nat.eqb w0 w); [discriminate|apply W1 with w0; exact H].
  - (* pol update *)
    rewrite forallb_forall in V. split; [|split]; tsimpl.
    + intros w e H. destruct (W1 _ _ H) as (A & B & C & D). split; [|split; [exact B|split; assumption]].
      intros q Hq. apply lookup_insert_ne, A, Hq.
    + intros k r0 H s Hs. rewrite lookup_insert in H. destruct (Nat.eqb k p); [inversion H; subst; apply present_true, V, Hs|eapply W2; eassumption].
    + exact W3.
  - (* pol remove *)
    apply negb_true_iff in V. split; [|split]; tsimpl.
    + intros w e H. destruct (W1 _ _ H) as (A & B & C & D). split; [|split; [exact B|split; assumption]].
      intros q Hq. rewrite lookup_remove. destruct (Nat.eqb_spec q p) as [->|N]; [|apply A, Hq].
      exfalso. assert (X : existsb (fun we : id * endpoint => mem p (ep_policies (snd we))) (t_eps T) = true); [|congruence].
      apply existsb_exists. exists (w, e). split; [apply lookup_in; exact H|apply mem_In; exact Hq].
    + intros k r H s Hs. rewrite lookup_remove in H. destruct (Nat.eqb k p); [discriminate|eapply W2; eassumption].
    + exact W3.
  - (* prof update *)
    rewrite forallb_forall in V. split; [|split]; tsimpl.
    + intros w e H. destruct (W1 _ _ H) as (A & B & C & D). split; [exact A|split; [|split; assumption]].
      intros q Hq. apply lookup_insert_ne, B, Hq.
    + exact W2.
    + intros k r0 H s Hs. rewrite lookup_insert in H. destruct (Nat.eqb k p); [inversion H; subst; apply present_true, V, Hs|eapply W3; eassumption].
  - (* prof remove *)
    apply negb_true_iff in V. split; [|split]; tsimpl.
    + intros w e H. destruct (W1 _ _ H) as (A & B & C & D). split; [exact A|split; [|split; assumption]].
      intros q Hq. rewrite lookup_remove. destruct (Nat.eqb_spec q p) as [->|N]; [|apply B, Hq].
      exfalso. assert (X : existsb (fun we : id * endpoint => mem p (ep_profiles (snd we))) (t_eps T) = true); [|congruence].
      apply existsb_exists. exists (w, e). split; [apply lookup_in; exact H|apply mem_In; exact Hq].
    + exact W2.
    + intros k r H s Hs. rewrite lookup_remove in H. destruct (Nat.eqb k p); [discriminate|eapply W3; eassumption].
  - (* ipset update *)
    split; [exact W1|split]; tsimpl; intros k r H t Ht; apply lookup_insert_ne; [eapply W2|eapply W3]; eassumption.
  - (* ipset delta *)
    destruct (lookup s (t_ips T)); [|split; [|split]; assumption].
    split; [exact W1|split]; tsimpl; intros k r H t Ht; apply lookup_insert_ne; [eapply W2|eapply W3]; eassumption.
  - (* ipset remove *)
    apply negb_true_iff in V.
    assert (X : forall k r, In (k, r) (t_pols T ++ t_profs T) -> ~ In s (refs r)).
    { intros k r H Hs. assert (Y : existsb (fun pr : id * rules => mem s (refs (snd pr))) (t_pols T ++ t_profs T) = true); [|congruence].
      apply existsb_exists. exists (k, r). split; [exact H|apply mem_In; exact Hs]. }
    split; [exact W1|split]; tsimpl; intros k r H t Ht; rewrite lookup_remove; destruct (Nat.eqb_spec t s) as [->|N].
    + exfalso. apply (X k r); [apply in_or_app; left; apply lookup_in; exact H|exact Ht].
    + eapply W2; eassumption.
    + exfalso. apply (X k r); [apply in_or_app; right; apply lookup_in; exact H|exact Ht].
    + eapply W3; eassumption.
Qed.


(* connection indices: below the join counter, one workload per index *)
Definition WFC (T : truth) : Prop :=
  (forall w j u, lookup w (t_conn T) = Some (j, u) -> j < t_njoins T) /\
  (forall w w' j u u', lookup w (t_conn T) = Some (j, u) -> lookup w' (t_conn T) = Some (j, u') -> w = w').
(* a channel index no workload is connected on *)
Definition cfree (T : truth) (j : nat) : Prop :=
  j < t_njoins T /\ forall w u, lookup w (t_conn T) <> Some (j, u).

Lemma wfc_conn_init : WFC tinit.
Proof. split; simpl; intros; discriminate. Qed.

Lemma wfc_step : forall T o, WFC T -> WFC (tstep T o).
Proof.
  intros T o [W1 W2]. destruct o; cbn [tstep]; try (split; assumption).
  - split; cbn [t_conn t_njoins].
    + intros w0 j u H. rewrite lookup_insert in H. destruct (Nat.eqb w0 w); [inversion H; subst; lia|apply W1 in H; lia].
    + intros w0 w' j u u' H H'. rewrite lookup_insert in H, H'.
      destruct (Nat.eqb_spec w0 w) as [->|N], (Nat.eqb_spec w' w) as [->|N']; try reflexivity.
      * inversion H; subst. apply W1 in H'. lia.
      * inversion H'; subst. apply W1 in H. lia.
      * eapply W2; eassumption.
  - destruct (lookup w (t_conn T)) as [[j0 u0]|]; [destruct (Nat.eqb u0 uid)|]; try (split; assumption).
    split; cbn [t_conn t_njoins].
    + intros w0 j u H. rewrite lookup_remove in H. destruct (Nat.eqb w0 w); [discriminate|eapply W1; eassumption].
    + intros w0 w' j u u' H H'. rewrite lookup_remove in H, H'.
      destruct (Nat.eqb w0 w); [discriminate|]. destruct (Nat.eqb w' w); [discriminate|]. eapply W2; eassumption.
  - split; cbn [t_conn t_njoins].
    + intros w0 j u H. rewrite lookup_remove in H. destruct (Nat.eqb w0 w); [discriminate|eapply W1; eassumption].
    + intros w0 w' j u u' H H'. rewrite lookup_remove in H, H'.
      destruct (Nat.eqb w0 w); [discriminate|]. destruct (Nat.eqb w' w); [discriminate|]. eapply W2; eassumption.
  - destruct (lookup s (t_ips T)); split; assumption.
Qed.

(* the index of a channel that is being closed is free afterwards *)
Lemma cfree_archived : forall T w j u0 nj' (conn' : list (id * (nat * nat))) X,
  WFC T -> lookup w (t_conn T) = Some (j, u0) -> t_njoins T <= nj' ->
  (forall w', lookup w' conn' = if Nat.eqb w' w then X else lookup w' (t_conn T)) ->
  (X = None \/ exists u, X = Some (t_njoins T, u)) ->
  j < nj' /\ forall w' u, lookup w' conn' <> Some (j, u).
Proof.
  intros T w j u0 nj' conn' X [W1 W2] L LE HC HX. assert (J := W1 _ _ _ L). split; [lia|].
  intros w' u H. rewrite HC in H. destruct (Nat.eqb_spec w' w) as [->|N].
  - destruct HX as [->|[u1 ->]]; [discriminate|]. inversion H; subst. lia.
  - apply N. eapply W2; eassumption.
Qed.

(* ---- map_eps ---- *)

Lemma map_eps_some : forall F l, (forall w ei, In (w, ei) l -> F w ei <> None) ->
  exists l', map_eps F l = Some l'
    /\ (forall w ei', In (w, ei') l' -> exists ei, In (w, ei) l /\ F w ei = Some ei')
    /\ (forall w, lookup w l' = match lookup w l with Some ei => F w ei | None => None end).
Proof.
  intros F l. induction l as [|[w ei] l IH]; intro H; simpl.
  - exists []. split; [reflexivity|]. split; [intros ? ? []|reflexivity].
  - destruct (F w ei) as [ei'|] eqn:E; [|exfalso; apply (H w ei); [left; reflexivity|exact E]].
    destruct IH as (l' & -> & I1 & I2); [intros; apply H; right; assumption|].
    exists ((w, ei') :: l'). split; [reflexivity|]. split.
    + intros w0 e0 [X|X]; [inversion X; subst; exists ei; split; [left; reflexivity|exact E]|].
      destruct (I1 _ _ X) as (e1 & A & B). exists e1. split; [right; exact A|exact B].
    + intro w0. simpl. destruct (Nat.eqb w0 w) eqn:Q; [apply Nat.eqb_eq in Q; subst; symmetry; exact E|apply I2].
Qed.

Lemma map_eps_fal : forall F l l', map_eps F l = Some l' -> fal l ->
  (forall w ei', In (w, ei') l' -> exists ei, In (w, ei) l /\ F w ei = Some ei') ->
  (forall w, lookup w l' = match lookup w l with Some ei => F w ei | None => None end) -> fal l'.
Proof.
  intros F l l' _ Fl I1 I2 w ei' H. destruct (I1 _ _ H) as (ei & A & B). rewrite I2, (Fl _ _ A). exact B.
Qed.
