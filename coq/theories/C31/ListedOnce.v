(* C31 — "an endpoint lists a policy once" (Spec.listed_once: disjoint tiers, no repeat in an ingress list) implies
   that iteratePolicies visits no policy twice, which is what keeps syncRemovedPolicies from panicking. *)
From Coq Require Import List Arith Bool Permutation Lia.
From Verif.C31 Require Import Model Spec Lemmas.
Import ListNotations.

Lemma NoDup_app_intro : forall (a b : list nat), NoDup a -> NoDup b -> (forall x, In x a -> ~ In x b) -> NoDup (a ++ b).
Proof.
  induction a as [|x a IH]; simpl; intros b Ha Hb H; [exact Hb|].
  inversion Ha; subst. constructor.
  - rewrite in_app_iff. intros [X|X]; [contradiction|]. apply (H x); [left; reflexivity|exact X].
  - apply IH; [assumption|assumption|]. intros y Hy. apply H. right; exact Hy.
Qed.

Lemma NoDup_has_dup : forall l, NoDup l -> has_dup l = false.
Proof.
  induction l as [|x l IH]; simpl; intro H; [reflexivity|]. inversion H; subst.
  rewrite IH by assumption. apply mem_false in H2. rewrite H2. reflexivity.
Qed.

Lemma iter_egress_nodup : forall eg seen v s', iter_egress seen eg = (v, s') ->
  NoDup v /\ (forall p, In p v -> In p eg /\ ~ In p seen).
Proof.
  induction eg as [|x eg IH]; simpl; intros seen v s' H.
  - inversion H; subst. split; [constructor|intros p []].
  - destruct (mem x seen) eqn:E.
    + destruct (IH _ _ _ H) as [A B]. split; [exact A|]. intros p Hp. destruct (B p Hp). auto.
    + destruct (iter_egress (x :: seen) eg) as [v0 s0] eqn:E2. inversion H; subst.
      destruct (IH _ _ _ E2) as [A B]. split.
      * constructor; [|exact A]. intro X. destruct (B x X) as [_ N]. apply N. left; reflexivity.
      * intros p [->|Hp]; [split; [left; reflexivity|apply mem_false; exact E]|].
        destruct (B p Hp) as [B1 B2]. split; [right; exact B1|]. intro X. apply B2. right; exact X.
Qed.

Lemma iter_tiers_nodup : forall ts seen,
  forallb (fun t => negb (has_dup (t_in t))) ts = true -> tiers_disjoint ts = true ->
  NoDup (iter_tiers seen ts) /\ (forall p, In p (iter_tiers seen ts) -> In p (flat_map tier_ids ts)).
Proof.
  induction ts as [|t ts IH]; simpl; intros seen H1 H2; [split; [constructor|intros p []]|].
  apply andb_true_iff in H1. destruct H1 as [H1 H1']. apply andb_true_iff in H2. destruct H2 as [H2 H2'].
  apply negb_true_iff, has_dup_false_NoDup in H1. rewrite forallb_forall in H2.
  destruct (iter_egress (rev (t_in t) ++ seen) (t_out t)) as [v s2] eqn:E.
  destruct (iter_egress_nodup _ _ _ _ E) as [NV BV]. destruct (IH s2 H1' H2') as [NR BR].
  assert (DIS : forall p, In p (tier_ids t) -> ~ In p (iter_tiers s2 ts)).
  { intros p Hp X. specialize (H2 p Hp). apply negb_true_iff, mem_false in H2. apply H2, BR, X. }
  split.
  - apply NoDup_app_intro; [exact H1| |].
    + apply NoDup_app_intro; [exact NV|exact NR|]. intros p Hp. apply DIS. unfold tier_ids. apply in_or_app. right. apply (BV p Hp).
    + intros p Hp X. apply in_app_or in X. destruct X as [X|X].
      * destruct (BV p X) as [_ N]. apply N. apply in_or_app. left. apply -> in_rev. exact Hp.
      * apply (DIS p); [unfold tier_ids; apply in_or_app; left; exact Hp|exact X].
  - intros p Hp. apply in_app_or in Hp. rewrite in_app_iff. unfold tier_ids at 1. rewrite in_app_iff. destruct Hp as [Hp|Hp]; [auto|].
    apply in_app_or in Hp. destruct Hp as [Hp|Hp]; [left; right; apply (BV p Hp)|right; apply BR, Hp].
Qed.

Lemma listed_once_nodup : forall e, listed_once e = true -> has_dup (ep_pols e) = false.
Proof.
  intros e H. unfold listed_once in H. apply andb_true_iff in H. destruct H as [H1 H2].
  apply NoDup_has_dup. apply (iter_tiers_nodup (ep_tiers e) [] H1 H2).
Qed.
