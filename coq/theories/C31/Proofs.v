(* C31 — proofs. *)
From Coq Require Import List Arith Bool Permutation Lia.
From Verif.C31 Require Import Model Spec.
Import ListNotations.

(* ---- a closed channel is never written again ------------------------------------------------------- *)

Lemma archive_incl : forall st w ei x, In x (closed st) -> In x (archive st w ei).
Proof. intros st w ei x H. unfold archive. destruct (e_out ei) as [[j s]|]; simpl; auto. Qed.

Lemma step_closed_mono : forall st o st', step st o = Some st' ->
  forall x, In x (closed st) -> In x (closed st').
Proof.
  intros st o st' H x Hx. destruct o; simpl in H.
  - unfold handle_join in H.
    destruct (maybe_sync _ _ _); inversion H; subst; simpl. apply archive_incl; exact Hx.
  - unfold handle_leave in H. destruct (lookup w (eps st)) as [ei|]; [|inversion H; subst; exact Hx].
    destruct (Nat.eqb (e_uid ei) uid).
    + destruct (e_out ei) eqn:E; inversion H; subst; simpl. apply archive_incl; exact Hx.
    + destruct (e_out ei); [inversion H; subst; exact Hx|].
      destruct (e_uid ei); [|inversion H; subst; exact Hx].
      destruct (e_upd ei); inversion H; subst; exact Hx.
  - destruct (insync st); inversion H; subst; exact Hx.
  - unfold handle_wep_update in H. destruct (maybe_sync _ _ _); inversion H; subst; exact Hx.
  - unfold handle_wep_remove in H. destruct (lookup w (eps st)); inversion H; subst; simpl.
    apply archive_incl; exact Hx.
  - unfold handle_pol_update in H. destruct (map_eps _ _); inversion H; subst; exact Hx.
  - inversion H; subst; exact Hx.
  - unfold handle_prof_update in H. destruct (map_eps _ _); inversion H; subst; exact Hx.
  - inversion H; subst; exact Hx.
  - unfold handle_ipset_update in H. destruct (lookup s (ipsets st)).
    + destruct (map_eps _ _); inversion H; subst; exact Hx.
    + inversion H; subst; exact Hx.
  - unfold handle_ipset_delta in H.
    destruct (match lookup s (ipsets st) with Some _ => _ | None => _ end); [|discriminate].
    destruct (map_eps _ _); inversion H; subst; exact Hx.
  - inversion H; subst; exact Hx.
  - inversion H; subst; exact Hx.
  - inversion H; subst; exact Hx.
  - inversion H; subst; exact Hx.
  - inversion H; subst; exact Hx.
Qed.
