(* C31 — splitting of IP set messages that exceed MaxMembersPerMessage (splitMembers, splitIPSetUpdate,
   splitIPSetDeltaUpdate in processor.go), modelled for an arbitrary chunk size [n], with the correspondence case for
   the real splitters.  (The Processor model in Model.v sends one message per IP set update: it assumes fewer than
   MaxMembersPerMessage members.  This file covers what happens above that size, function by function.) *)
From Coq Require Import List Arith Bool.
From Verif.C31 Require Import Model Spec.
Import ListNotations.

(* splitMembers: consecutive chunks of at most n members; one empty chunk for an empty list *)
Fixpoint chunks (fuel n : nat) (l : list nat) : list (list nat) :=
  match fuel with
  | 0 => []
  | S f => match l with [] => [] | _ => firstn n l :: chunks f n (skipn n l) end
  end.
Definition split_members (n : nat) (l : list nat) : list (list nat) :=
  match l with [] => [[]] | _ => chunks (length l) n l end.

(* splitIPSetUpdate: the first chunk as an IPSetUpdate, the others as IPSetDeltaUpdates that add *)
Definition split_update (n : nat) (s : id) (l : list nat) : list msg :=
  match split_members n l with
  | [] => []
  | c0 :: r => MIPSetUpdate s c0 :: map (fun c => MIPSetDelta s c []) r
  end.

(* splitIPSetDeltaUpdate: one message per chunk of additions; chunks of removals are taken from the END of their
   list and put on a message when they fit beside its additions.  [rdels] is the list of removal chunks reversed. *)
Fixpoint split_delta_loop (fuel n : nat) (s : id) (adds rdels : list (list nat)) : list msg :=
  match fuel with
  | 0 => []
  | S f =>
      match adds, rdels with
      | [], [] => []
      | _, _ =>
          let a := match adds with [] => [] | x :: _ => x end in
          let adds' := match adds with [] => [] | _ :: r => r end in
          match rdels with
          | d :: rd => if length a + length d <=? n
                       then MIPSetDelta s a d :: split_delta_loop f n s adds' rd
                       else MIPSetDelta s a [] :: split_delta_loop f n s adds' rdels
          | [] => MIPSetDelta s a [] :: split_delta_loop f n s adds' []
          end
      end
  end.
Definition split_delta (n : nat) (s : id) (added removed : list nat) : list msg :=
  let adds := split_members n added in
  let rdels := rev (split_members n removed) in
  split_delta_loop (length adds + length rdels) n s adds rdels.

(* ---- correspondence case for the real splitters ---- *)

(* member lists are written run-length encoded: (value, count) *)
Definition expand (rle : list (nat * nat)) : list nat := flat_map (fun vc => repeat (fst vc) (snd vc)) rle.

Record splitcase := mkSplit {
  sp_max : nat;                                   (* policysync.MaxMembersPerMessage *)
  sp_upd : bool;                                  (* true: splitIPSetUpdate; false: splitIPSetDeltaUpdate *)
  sp_add : list (nat * nat);                      (* members / added members *)
  sp_rem : list (nat * nat);                      (* removed members (delta only) *)
  sp_obs : list (bool * (list (nat * nat) * list (nat * nat))) }.   (* messages returned: is-update, members/added, removed *)

Definition obs_msgs (sc : splitcase) : list msg :=
  map (fun o : bool * (list (nat * nat) * list (nat * nat)) => if fst o then MIPSetUpdate 0 (expand (fst (snd o))) else MIPSetDelta 0 (expand (fst (snd o))) (expand (snd (snd o))))
      (sp_obs sc).

(* what the client held before a delta *)
Definition held0 : list nat := [0; 5; 11].

(* specification: the unsplit message's effect *)
Definition split_expected (sc : splitcase) : list nat :=
  if sp_upd sc then canon (expand (sp_add sc)) else members_delta held0 (expand (sp_add sc)) (expand (sp_rem sc)).

(* the members of the set at the client, as a canonical list *)
Definition sapply (cur : option (list nat)) (m : msg) : option (list nat) :=
  match m with
  | MIPSetUpdate _ l => Some (canon l)
  | MIPSetDelta _ a r => match cur with Some c => Some (members_delta c a r) | None => None end
  | _ => cur
  end.

Definition check_split (sc : splitcase) : bool * bool :=
  let model := if sp_upd sc then split_update (sp_max sc) 0 (expand (sp_add sc))
               else split_delta (sp_max sc) 0 (expand (sp_add sc)) (expand (sp_rem sc)) in
  let start := if sp_upd sc then None else Some held0 in
  let final := fold_left sapply (obs_msgs sc) start in
  (list_eqb msg_eqb model (obs_msgs sc),
   (* every message fits, and applying them in order gives what the unsplit message would give *)
   forallb (fun m => match m with
                     | MIPSetUpdate _ l => length l <=? sp_max sc
                     | MIPSetDelta _ a r => length a + length r <=? sp_max sc
                     | _ => false end) (obs_msgs sc)
   && match final with Some m => ids_eqb m (split_expected sc) | None => false end).

Inductive anycase := CHist (c : case) | CSplit (sc : splitcase).
Definition check_any (a : anycase) : bool * bool :=
  match a with CHist c => check_case c | CSplit sc => check_split sc end.
