(* C31 — all histories: the invariant along [run], and the property statements derived from it. *)
From Coq Require Import List Arith Bool Permutation Lia.
From Verif.C31 Require Import Model Spec Lemmas Views Groups GroupAdv Sync Inv Inv2 Inv3 Inv4 Inv5 Inv6 Inv7 Inv8 Inv9 Proofs.
Import ListNotations.

Lemma inv_init : Inv tinit init.
Proof.
  constructor; try reflexivity; try (intro; reflexivity); try (intros ? ? ? ? []); try (intros ? ? []); try apply wfc_conn_init.
  repeat split; simpl; intros; discriminate.
Qed.

Lemma inv_tick : forall T st, Inv T st -> Inv T (tick st).
Proof. intros T st I. destruct I. constructor; assumption. Qed.

Lemma run_inv : forall ops T st, Inv T st -> valid_from T ops = true ->
  exists st', run_from st ops = (st', None) /\ Inv (fold_left tstep ops T) st'.
Proof.
  induction ops as [|o ops IH]; intros T st I V; simpl in *.
  - exists st. split; [reflexivity|exact I].
  - apply andb_true_iff in V. destruct V as [V1 V2].
    destruct (step_inv T st o I V1) as (st' & S & I'). rewrite S. apply IH; [apply inv_tick; exact I'|exact V2].
Qed.

Theorem valid_run : forall ops, valid ops = true ->
  exists st, run ops = (st, None) /\ Inv (truth_of ops) st.
Proof. intros ops V. apply (run_inv ops tinit init inv_init V). Qed.

(* ---- boolean equalities are reflexive ---- *)

Lemma list_eqb_refl : forall A (eqb : A -> A -> bool), (forall x, eqb x x = true) -> forall l, list_eqb eqb l l = true.
Proof. intros A eqb H. induction l; simpl; [reflexivity|rewrite H, IHl; reflexivity]. Qed.
Lemma ids_eqb_refl : forall l, ids_eqb l l = true.
Proof. apply list_eqb_refl. apply Nat.eqb_refl. Qed.
Lemma rule_eqb_refl : forall r, rule_eqb r r = true.
Proof. apply list_eqb_refl. apply ids_eqb_refl. Qed.
Lemma rules_eqb_refl : forall r, rules_eqb r r = true.
Proof. intro r. unfold rules_eqb. rewrite Nat.eqb_refl, !(list_eqb_refl _ _ rule_eqb_refl). reflexivity. Qed.
Lemma tier_eqb_refl : forall t, tier_eqb t t = true.
Proof. intro t. unfold tier_eqb. rewrite !ids_eqb_refl. reflexivity. Qed.
Lemma endpoint_eqb_refl : forall e, endpoint_eqb e e = true.
Proof. intro e. unfold endpoint_eqb. rewrite Nat.eqb_refl, (list_eqb_refl _ _ tier_eqb_refl), ids_eqb_refl. reflexivity. Qed.
Lemma opt_eqb_refl : forall A (eqb : A -> A -> bool), (forall x, eqb x x = true) -> forall o, opt_eqb eqb o o = true.
Proof. intros A eqb H [x|]; simpl; auto. Qed.

Lemma exactly_of : forall V (eqb : V -> V -> bool) held tbl needed, (forall x, eqb x x = true) ->
  (forall k, lookup k held = if mem k needed then lookup k tbl else None) -> exactly eqb held tbl needed = true.
Proof.
  intros V eqb held tbl needed R H. unfold exactly. apply forallb_forall. intros k _. rewrite H. apply opt_eqb_refl, R.
Qed.
Lemma same_map_of : forall V (eqb : V -> V -> bool) a b, (forall x, eqb x x = true) ->
  (forall k, lookup k a = lookup k b) -> same_map eqb a b = true.
Proof.
  intros V eqb a b R H. unfold same_map. apply forallb_forall. intros k _. rewrite H. apply opt_eqb_refl, R.
Qed.

Lemma in_all_refs : forall tbl ids s, In s (all_refs tbl ids) <-> exists i r, In i ids /\ lookup i tbl = Some r /\ In s (refs r).
Proof.
  intros tbl ids s. unfold all_refs. rewrite in_flat_map. split.
  - intros (i & Hi & Hs). destruct (lookup i tbl) as [r|] eqn:L; [exists i, r; auto|destruct Hs].
  - intros (i & r & Hi & L & Hs). exists i. rewrite L. auto.
Qed.

Lemma and7 : forall a b c d e f g : bool, a = true -> b = true -> c = true -> d = true -> e = true -> f = true -> g = true ->
  a && b && c && d && e && f && g = true.
Proof. intros; subst; reflexivity. Qed.

(* a connected workload's client, after any admissible order of its stream, is what the spec expects *)
Lemma live_expected : forall T st w ei j s, Inv T st -> In (w, ei) (eps st) -> e_out ei = Some (j, s) ->
  forall ms, lin (groups s) ms -> expected T w (client ms) = true.
Proof.
  intros T st w ei j s I H O ms Hl. assert (L := i_live _ _ I _ _ H). unfold live_ok in L. rewrite O in L.
  destruct L as (_ & (AD & _) & SY). destruct (AD cinit wfc_init holds_init ms Hl) as [_ HO].
  change (fold_left apply ms cinit) with (client ms) in HO. destruct HO as (H1 & H2 & H3 & H4 & H5 & H6 & H7).
  unfold ep_target, tgt, stv in *. simpl in H1, H2, H3, H4, H5, H6, H7.
  assert (ET := entry_truth T st w ei I H).
  unfold expected. rewrite H1, ET. unfold t_needed_ips, t_needed_pols, t_needed_profs. rewrite ET.
  rewrite <- (i_pols _ _ I), <- (i_profs _ _ I), <- (i_ips _ _ I), <- (i_sas _ _ I), <- (i_nss _ _ I), <- (i_sync _ _ I).
  unfold sync_ok in SY. unfold epo_of. destruct (e_upd ei) as [e|] eqn:UP.
  - destruct SY as (S1 & S2 & S3).
    destruct (inv_ep_facts T st w ei e I H UP) as (F1 & F2 & _ & _).
    assert (F1' : forall p, In p (ep_pols e) -> lookup p (pols st) <> None) by (intros p Hp; apply F1, ep_pols_spec, Hp).
    destruct (refs_of_all_some (profs st) (ep_profiles e) F2) as (xa & Ea & Xa).
    destruct (refs_of_all_some (pols st) (ep_pols e) F1') as (xb & Eb & Xb).
    unfold needed_ips, e_profs, e_pols in S3. rewrite UP, Ea, Eb in S3. inversion S3 as [S3'].
    apply and7.
    + apply opt_eqb_refl. intros [a b]. cbn [fst snd]. rewrite Nat.eqb_refl, endpoint_eqb_refl. reflexivity.
    + apply exactly_of; [apply rules_eqb_refl|]. intro k. rewrite H2, S1, (mem_ext _ _ (ep_pols_spec e) k). reflexivity.
    + apply exactly_of; [apply rules_eqb_refl|]. intro k. rewrite H3, S2. reflexivity.
    + apply exactly_of; [apply ids_eqb_refl|]. intro k. rewrite H4.
      replace (mem k (e_sips ei)) with (mem k (all_refs (pols st) (ep_policies e) ++ all_refs (profs st) (ep_profiles e))); [reflexivity|].
      apply mem_ext. intro x. rewrite <- S3', In_dedup, !in_app_iff, Xa, Xb, !in_all_refs.
      split; intros [(i & r & A & B & C)|(i & r & A & B & C)]; [right|left|right|left]; exists i, r; repeat split; try assumption;
        try (apply ep_pols_spec; assumption).
    + apply same_map_of; [apply Nat.eqb_refl|exact H5].
    + apply same_map_of; [apply Nat.eqb_refl|exact H6].
    + rewrite H7. apply Bool.eqb_reflx.
  - destruct SY as (S1 & S2 & S3).
    apply and7.
    + reflexivity.
    + apply exactly_of; [apply rules_eqb_refl|]. intro k. rewrite H2, S1. reflexivity.
    + apply exactly_of; [apply rules_eqb_refl|]. intro k. rewrite H3, S2. reflexivity.
    + apply exactly_of; [apply ids_eqb_refl|]. intro k. rewrite H4, S3. reflexivity.
    + apply same_map_of; [apply Nat.eqb_refl|exact H5].
    + apply same_map_of; [apply Nat.eqb_refl|exact H6].
    + rewrite H7. apply Bool.eqb_reflx.
Qed.

(* the channel of a connected workload *)
Lemma connected_channel : forall T st w j uid, Inv T st -> lookup w (t_conn T) = Some (j, uid) ->
  exists ei s, In (w, ei) (eps st) /\ lookup w (eps st) = Some ei /\ e_out ei = Some (j, s) /\ e_uid ei = uid.
Proof.
  intros T st w j uid I C. assert (A := i_abs _ _ I w). unfold absw in A. rewrite C in A.
  destruct (lookup w (eps st)) as [ei|] eqn:L; [|inversion A]. inversion A as [[A1 A2]].
  destruct (e_out ei) as [[j' s]|] eqn:O; [|discriminate]. inversion A2; subst.
  exists ei, s. split; [apply lookup_in; exact L|]. split; [reflexivity|]. split; [assumption|reflexivity].
Qed.

Lemma checked_own : forall w ms cs, snd (apply_checked w cs ms) = true -> Forall (fun m => own w m = true) ms.
Proof.
  induction ms as [|m ms IH]; intros cs H; [constructor|].
  rewrite apply_checked_cons in H. apply andb_true_iff in H. destruct H as [H H2]. apply andb_true_iff in H. destruct H as [H1 _].
  constructor; [exact H1|eapply IH; exact H2].
Qed.

(* ---- closed channels stay as they are ---- *)

Lemma run_from_closed_mono : forall ops st st' r, run_from st ops = (st', r) -> forall x, In x (closed st) -> In x (closed st').
Proof.
  induction ops as [|o ops IH]; simpl; intros st st' r H x Hx.
  - inversion H; subst. exact Hx.
  - destruct (step st o) as [st1|] eqn:S; [|inversion H; subst; exact Hx].
    apply (IH _ _ _ H). simpl. eapply step_closed_mono; eassumption.
Qed.

Lemma run_from_app : forall a b st st1, run_from st a = (st1, None) -> run_from st (a ++ b) = run_from st1 b.
Proof.
  induction a as [|o a IH]; simpl; intros b st st1 H.
  - inversion H; subst. reflexivity.
  - destruct (step st o) as [st2|]; [|discriminate]. apply IH. exact H.
Qed.
