(* C31 — maybeSyncEndpoint and the policy/profile update closure, as advances between target views. *)
From Coq Require Import List Arith Bool Permutation Lia.
From Verif.C31 Require Import Model Spec Lemmas Views Groups GroupAdv.
Import ListNotations.

Definition getm (st : state) (s : id) : list nat := match lookup s (ipsets st) with Some m => m | None => [] end.
Definition getr (tbl : list (id * rules)) (i : id) : rules := match lookup i tbl with Some r => r | None => mkRules 0 [] [] end.

(* what a client of an endpoint holds: the tables restricted to the synced sets; service accounts, namespaces and
   the in-sync flag as in [X] *)
Definition tgt (X : view) (st : state) (epo : option (id * endpoint)) (sp sf si : list id) : view :=
  mkV epo (fun k => if mem k sp then lookup k (pols st) else None)
          (fun k => if mem k sf then lookup k (profs st) else None)
          (fun k => if mem k si then lookup k (ipsets st) else None)
          (v_sa X) (v_ns X) (v_sync X).
(* service accounts, namespaces, in-sync flag of the processor *)
Definition stv (st : state) : view :=
  mkV None (fun _ => None) (fun _ => None) (fun _ => None) (fun k => lookup k (sas st)) (fun k => lookup k (nss st)) (insync st).

(* every stored policy/profile mentions only stored IP sets *)
Definition WFb (st : state) : Prop :=
  (forall k r, lookup k (pols st) = Some r -> forall s, In s (refs r) -> lookup s (ipsets st) <> None) /\
  (forall k r, lookup k (profs st) = Some r -> forall s, In s (refs r) -> lookup s (ipsets st) <> None).

(* ---- iteratePolicies visits exactly the listed policies ---- *)

Lemma iter_egress_spec : forall eg seen v s',
  iter_egress seen eg = (v, s') ->
  (forall p, In p v \/ In p seen <-> In p eg \/ In p seen) /\ (forall p, In p s' <-> In p v \/ In p seen).
Proof.
  induction eg as [|x eg IH]; simpl; intros seen v s' H.
  - inversion H; subst. split; intro p; simpl; tauto.
  - destruct (mem x seen) eqn:E.
    + destruct (IH _ _ _ H) as [I1 I2]. apply mem_In in E. split; intro p; [|apply I2].
      rewrite I1. split; [tauto|]. intros [[->|Hp]|Hp]; tauto.
    + destruct (iter_egress (x :: seen) eg) as [v0 s0] eqn:E2. inversion H; subst.
      destruct (IH _ _ _ E2) as [I1 I2]. split; intro p.
      * specialize (I1 p). clear - I1. simpl in *. destruct I1 as [Ia Ib]. split.
        -- intros [[H|H]|H]; [auto| |auto]. destruct (Ia (or_introl H)) as [X|[X|X]]; auto.
        -- intros [[H|H]|H]; [auto| |auto]. destruct (Ib (or_introl H)) as [X|[X|X]]; auto.
      * specialize (I2 p). clear - I2. simpl in *. destruct I2 as [Ia Ib]. split.
        -- intro H. destruct (Ia H) as [X|[X|X]]; auto.
        -- intros [[H|H]|H]; apply Ib; auto.
Qed.

Lemma iter_tiers_spec : forall ts seen p,
  In p (iter_tiers seen ts) \/ In p seen <-> In p (flat_map (fun t => t_in t ++ t_out t) ts) \/ In p seen.
Proof.
  induction ts as [|t ts IH]; simpl; intros seen p; [tauto|].
  destruct (iter_egress (rev (t_in t) ++ seen) (t_out t)) as [v s2] eqn:E.
  destruct (iter_egress_spec _ _ _ _ E) as [I1 I2]. specialize (I1 p). specialize (IH s2 p).
  rewrite I2 in IH. rewrite !in_app_iff in *. rewrite <- in_rev in *.
  destruct I1 as [I1a I1b]. destruct IH as [IHa IHb]. split.
  - intros [[H|[H|H]]|H].
    + clear - H; tauto.
    + destruct (I1a (or_introl H)) as [X|[X|X]]; clear - X; tauto.
    + destruct (IHa (or_introl H)) as [X|[X|[X|X]]]; [clear - X; tauto| |clear - X; tauto|clear - X; tauto].
      destruct (I1a (or_introl X)) as [Y|[Y|Y]]; clear - Y; tauto.
    + clear - H; tauto.
  - intros [[[H|H]|H]|H].
    + clear - H; tauto.
    + destruct (I1b (or_introl H)) as [X|[X|X]]; clear - X; tauto.
    + destruct (IHb (or_introl H)) as [X|[X|[X|X]]]; clear - X; tauto.
    + clear - H; tauto.
Qed.

Lemma ep_pols_spec : forall e p, In p (ep_pols e) <-> In p (ep_policies e).
Proof.
  intros e p. unfold ep_pols, ep_policies. pose proof (iter_tiers_spec (ep_tiers e) [] p) as H. simpl in H. tauto.
Qed.

(* ---- the helper functions succeed when the tables hold what is asked for ---- *)

Lemma refs_of_all_some : forall tbl ids, (forall i, In i ids -> lookup i tbl <> None) ->
  exists x, refs_of_all tbl ids = Some x /\
            forall s, In s x <-> exists i r, In i ids /\ lookup i tbl = Some r /\ In s (refs r).
Proof.
  intros tbl ids. induction ids as [|i ids IH]; intro H; simpl.
  - exists []. split; [reflexivity|]. intro s. split; [intros []|intros (i & r & [] & _)].
  - destruct (lookup i tbl) as [pl|] eqn:E; [|exfalso; apply (H i); [left; reflexivity|exact E]].
    destruct IH as (x & -> & Hx); [intros; apply H; right; assumption|].
    exists (refs pl ++ x). split; [reflexivity|]. intro s. rewrite in_app_iff, Hx. split.
    + intros [Hs|(i0 & r & Hi & Hl & Hs)]; [exists i, pl; simpl; auto|exists i0, r; simpl; auto].
    + intros (i0 & r & [->|Hi] & Hl & Hs); [left; congruence|right; exists i0, r; auto].
Qed.

Lemma ipset_msgs_some : forall st l, (forall s, In s l -> lookup s (ipsets st) <> None) ->
  ipset_msgs st l = Some (map (fun s => MIPSetUpdate s (getm st s)) l).
Proof.
  intros st l. induction l as [|s l IH]; intro H; simpl; [reflexivity|].
  unfold getm at 1. destruct (lookup s (ipsets st)) eqn:E; [|exfalso; apply (H s); [left; reflexivity|exact E]].
  rewrite IH; [reflexivity|]. intros; apply H; right; assumption.
Qed.

Lemma sync_added_some : forall tbl mk ids synced, (forall i, In i ids -> lookup i tbl <> None) ->
  exists l' sy, sync_added tbl mk ids synced = Some (map (fun i => mk i (getr tbl i)) l', sy)
    /\ (forall k, mem k l' = mem k ids && negb (mem k synced))
    /\ (forall k, mem k sy = mem k synced || mem k ids).
Proof.
  intros tbl mk ids. induction ids as [|i ids IH]; intros synced H; simpl.
  - exists [], synced. split; [reflexivity|]. split; intro k; simpl; [reflexivity|rewrite orb_false_r; reflexivity].
  - assert (H' : forall i0, In i0 ids -> lookup i0 tbl <> None) by (intros; apply H; right; assumption).
    destruct (mem i synced) eqn:E.
    + destruct (IH synced H') as (l' & sy & -> & M1 & M2). exists l', sy. split; [reflexivity|].
      split; intro k; [rewrite M1|rewrite M2]; destruct (Nat.eqb_spec k i) as [->|N]; simpl; try reflexivity.
      * rewrite E. simpl. rewrite andb_false_r. reflexivity.
      * rewrite E. reflexivity.
    + destruct (lookup i tbl) as [pl|] eqn:L; [|exfalso; apply (H i); [left; reflexivity|exact L]].
      destruct (IH (i :: synced) H') as (l' & sy & -> & M1 & M2). exists (i :: l'), sy. split.
      * simpl. replace (getr tbl i) with pl by (unfold getr; rewrite L; reflexivity). reflexivity.
      * split; intro k; simpl; [rewrite M1|rewrite M2]; simpl; destruct (Nat.eqb_spec k i) as [->|N]; simpl.
        -- rewrite E. reflexivity.
        -- reflexivity.
        -- rewrite orb_true_r. reflexivity.
        -- reflexivity.
Qed.

Lemma mem_filter : forall f l k, mem k (filter f l) = mem k l && f k.
Proof.
  intros f l k. unfold mem. induction l as [|x l IH]; simpl; [reflexivity|].
  destruct (Nat.eqb_spec k x) as [->|N].
  - destruct (f x) eqn:E; simpl.
    + rewrite Nat.eqb_refl. reflexivity.
    + rewrite IH, !andb_false_r. reflexivity.
  - destruct (f x); simpl; [destruct (Nat.eqb_spec k x); [contradiction|]|]; exact IH.
Qed.

Lemma emit_rec : forall c g j s u up a b d,
  emit c g (mkE (Some (j, s)) u up a b d) = mkE (Some (j, s ++ [(c, g)])) u up a b d.
Proof. reflexivity. Qed.
Lemma emit_seq_rec : forall c ms j s u up a b d,
  emit_seq c ms (mkE (Some (j, s)) u up a b d) = mkE (Some (j, s ++ map (fun m => (c, [m])) ms)) u up a b d.
Proof.
  intros c ms. induction ms as [|m ms IH]; intros; simpl.
  - rewrite app_nil_r. reflexivity.
  - rewrite emit_rec, IH, <- app_assoc. reflexivity.
Qed.

Lemma mem_true_In : forall k l, mem k l = true -> In k l.
Proof. intros; apply mem_In; assumption. Qed.

(* ---- maybeSyncEndpoint ---- *)

Lemma maybe_sync_adv : forall X st w o_uid e j s0 sp sf si epo,
  WFb st ->
  (forall p, In p (ep_policies e) -> lookup p (pols st) <> None) ->
  (forall p, In p (ep_profiles e) -> lookup p (profs st) <> None) ->
  has_dup (ep_pols e) = false -> has_dup (ep_profiles e) = false ->
  RIv (tgt X st epo sp sf si) ->
  let ei := mkE (Some (j, s0)) o_uid (Some e) sp sf si in
  exists newS t,
    needed_ips st ei = Some newS /\
    maybe_sync st w ei = Some (mkE (Some (j, s0 ++ t)) o_uid (Some e) (ep_pols e) (ep_profiles e) newS) /\
    advR w (tgt X st epo sp sf si) (groups t) (tgt X st (Some (w, e)) (ep_pols e) (ep_profiles e) newS).
Proof.
  intros X st w o_uid e j s0 sp sf si epo [WP WF] HP HF DP DF R0 ei. subst ei.
  assert (HP' : forall p, In p (ep_pols e) -> lookup p (pols st) <> None) by (intros p Hp; apply HP, ep_pols_spec, Hp).
  destruct (refs_of_all_some (profs st) (ep_profiles e) HF) as (xa & Ea & Xa).
  destruct (refs_of_all_some (pols st) (ep_pols e) HP') as (xb & Eb & Xb).
  set (newS := dedup (xa ++ xb)).
  assert (N : needed_ips st (mkE (Some (j, s0)) o_uid (Some e) sp sf si) = Some newS) by (unfold needed_ips, e_profs, e_pols; cbn [e_upd]; rewrite Ea, Eb; reflexivity).
  assert (NS : forall s, In s newS <->
             (exists i r, In i (ep_profiles e) /\ lookup i (profs st) = Some r /\ In s (refs r)) \/
             (exists i r, In i (ep_pols e) /\ lookup i (pols st) = Some r /\ In s (refs r))).
  { intro s. unfold newS. rewrite In_dedup, in_app_iff, Xa, Xb. tauto. }
  assert (NSpres : forall s, In s newS -> lookup s (ipsets st) <> None).
  { intros s Hs. apply NS in Hs. destruct Hs as [(i & r & _ & L & Hr)|(i & r & _ & L & Hr)]; [eapply WF|eapply WP]; eassumption. }
  set (toAdd := filter (fun s => negb (mem s si)) newS).
  set (toDel := filter (fun s => negb (mem s newS)) si).
  assert (TA : forall k, mem k toAdd = mem k newS && negb (mem k si)) by (intro; apply mem_filter).
  assert (TD : forall k, mem k toDel = mem k si && negb (mem k newS)) by (intro; apply mem_filter).
  assert (AM : ipset_msgs st toAdd = Some (map (fun s => MIPSetUpdate s (getm st s)) toAdd)).
  { apply ipset_msgs_some. intros s Hs. apply NSpres. apply mem_In in Hs. rewrite TA in Hs.
    apply andb_true_iff in Hs. apply mem_In. tauto. }
  destruct (sync_added_some (pols st) MPolUpdate (ep_pols e) sp HP') as (lp & spol1 & SP & LP & SP1).
  destruct (sync_added_some (profs st) MProfUpdate (ep_profiles e) sf HF) as (lf & sprof1 & SF & LF & SF1).
  set (polrem := filter (fun p => negb (mem p (ep_pols e))) spol1).
  set (profrem := filter (fun p => negb (mem p (ep_profiles e))) sprof1).
  assert (PR : forall k, mem k polrem = mem k spol1 && negb (mem k (ep_pols e))) by (intro; apply mem_filter).
  assert (FR : forall k, mem k profrem = mem k sprof1 && negb (mem k (ep_profiles e))) by (intro; apply mem_filter).
  set (c := clk st).
  set (pm := map (fun i => MPolUpdate i (getr (pols st) i)) lp) in *.
  set (fm := map (fun i => MProfUpdate i (getr (profs st) i)) lf) in *.
  exists newS.
  exists ([(c, map (fun s => MIPSetUpdate s (getm st s)) toAdd)] ++ map (fun m => (c, [m])) (pm ++ fm ++ [MWepUpdate w e])
          ++ [(c, map MPolRemove polrem)] ++ [(c, map MProfRemove profrem)] ++ [(c, map MIPSetRemove toDel)]).
  split; [exact N|]. split.
  - unfold maybe_sync. cbn [e_upd e_out]. rewrite N. cbn [e_sips]. fold toAdd toDel. rewrite AM.
    unfold e_pols, e_profs. cbn [e_upd e_spol e_sprof]. rewrite SP, SF, DP, DF. cbn [orb].
    fold polrem profrem c. rewrite emit_rec, emit_seq_rec, !emit_rec. unfold set_synced. cbn [e_out e_uid e_upd].
    rewrite <- !app_assoc. reflexivity.
  - (* the advance, group by group *)
    assert (G : groups ([(c, map (fun s => MIPSetUpdate s (getm st s)) toAdd)] ++ map (fun m => (c, [m])) (pm ++ fm ++ [MWepUpdate w e])
          ++ [(c, map MPolRemove polrem)] ++ [(c, map MProfRemove profrem)] ++ [(c, map MIPSetRemove toDel)])
        = [map (fun s => MIPSetUpdate s (getm st s)) toAdd] ++ map (fun m => [m]) pm ++ map (fun m => [m]) fm
          ++ [[MWepUpdate w e]] ++ [map MPolRemove polrem] ++ [map MProfRemove profrem] ++ [map MIPSetRemove toDel]).
    { unfold groups. rewrite !map_app, !map_map. simpl. rewrite <- ?app_assoc. reflexivity. }
    rewrite G. clear G.
    set (A1 := tgt X st epo sp sf (toAdd ++ si)).
    set (A2 := tgt X st epo (lp ++ sp) sf (toAdd ++ si)).
    set (A3 := tgt X st epo (lp ++ sp) (lf ++ sf) (toAdd ++ si)).
    set (A4 := tgt X st (Some (w, e)) (lp ++ sp) (lf ++ sf) (toAdd ++ si)).
    set (A5 := tgt X st (Some (w, e)) (ep_pols e) (lf ++ sf) (toAdd ++ si)).
    set (A6 := tgt X st (Some (w, e)) (ep_pols e) (ep_profiles e) (toAdd ++ si)).
    assert (INS : forall s, mem s newS = true -> mem s (toAdd ++ si) = true).
    { intros s H. rewrite mem_app, TA, H. simpl. destruct (mem s si); reflexivity. }
    assert (G1 : advR w (tgt X st epo sp sf si) [map (fun s => MIPSetUpdate s (getm st s)) toAdd] A1).
    { apply adv_ips_add; [exact R0|]. unfold veq, set_ips, A1, tgt; simpl. repeat split; intro k.
      rewrite mem_app. destruct (mem k toAdd) eqn:E; simpl; [|reflexivity].
      rewrite TA in E. apply andb_true_iff in E. destruct E as [E _]. apply mem_In, NSpres in E.
      unfold getm. destruct (lookup k (ipsets st)); congruence. }
    assert (G2 : advR w A1 (map (fun m => [m]) pm) A2).
    { apply adv_pol_add; [apply G1| |].
      - intros i Hi s Hs. unfold A1, tgt; simpl.
        apply mem_In in Hi. rewrite LP in Hi. apply andb_true_iff in Hi. destruct Hi as [Hi _]. apply mem_In in Hi.
        specialize (HP' i Hi). unfold getr in Hs. destruct (lookup i (pols st)) as [r|] eqn:L; [|congruence].
        assert (In s newS) by (apply NS; right; exists i, r; auto).
        rewrite INS; [apply NSpres; assumption|apply mem_In; assumption].
      - unfold veq, set_pol, A1, A2, tgt; simpl. repeat split; intro k.
        rewrite mem_app. destruct (mem k lp) eqn:E; simpl; [|reflexivity].
        rewrite LP in E. apply andb_true_iff in E. destruct E as [E _]. apply mem_In, HP' in E.
        unfold getr. destruct (lookup k (pols st)); congruence. }
    assert (G3 : advR w A2 (map (fun m => [m]) fm) A3).
    { apply adv_prof_add; [apply G2| |].
      - intros i Hi s Hs. unfold A2, tgt; simpl.
        apply mem_In in Hi. rewrite LF in Hi. apply andb_true_iff in Hi. destruct Hi as [Hi _]. apply mem_In in Hi.
        specialize (HF i Hi). unfold getr in Hs. destruct (lookup i (profs st)) as [r|] eqn:L; [|congruence].
        assert (In s newS) by (apply NS; left; exists i, r; auto).
        rewrite INS; [apply NSpres; assumption|apply mem_In; assumption].
      - unfold veq, set_prof, A2, A3, tgt; simpl. repeat split; intro k.
        rewrite mem_app. destruct (mem k lf) eqn:E; simpl; [|reflexivity].
        rewrite LF in E. apply andb_true_iff in E. destruct E as [E _]. apply mem_In, HF in E.
        unfold getr. destruct (lookup k (profs st)); congruence. }
    assert (G4 : advR w A3 [[MWepUpdate w e]] A4).
    { apply adv_one; [apply G3|simpl; apply Nat.eqb_refl| |unfold A3, A4, tgt; simpl; apply veq_refl].
      apply RIv_set_ep; [apply G3| |]; intros p Hp; unfold A3, tgt; simpl.
      - assert (Hp' : In p (ep_pols e)) by (apply ep_pols_spec; exact Hp).
        apply mem_In in Hp'. rewrite mem_app, LP, Hp'. simpl. destruct (mem p sp); simpl; apply HP; exact Hp.
      - assert (Hp' := Hp). apply mem_In in Hp'. rewrite mem_app, LF, Hp'. simpl. destruct (mem p sf); simpl; apply HF; exact Hp. }
    assert (G5 : advR w A4 [map MPolRemove polrem] A5).
    { apply adv_pol_rm; [apply G4| |].
      - intros i Hi w0 e0 H0. unfold A4, tgt in H0; simpl in H0. inversion H0; subst e0.
        apply mem_In in Hi. rewrite PR in Hi. apply andb_true_iff in Hi. destruct Hi as [_ Hi].
        apply negb_true_iff, mem_false in Hi. intro XX. apply Hi, ep_pols_spec, XX.
      - unfold veq, set_pol, A4, A5, tgt; simpl. repeat split; intro k.
        rewrite PR, SP1, mem_app, LP. destruct (mem k (ep_pols e)), (mem k sp); reflexivity. }
    assert (G6 : advR w A5 [map MProfRemove profrem] A6).
    { apply adv_prof_rm; [apply G5| |].
      - intros i Hi w0 e0 H0. unfold A5, tgt in H0; simpl in H0. inversion H0; subst e0.
        apply mem_In in Hi. rewrite FR in Hi. apply andb_true_iff in Hi. destruct Hi as [_ Hi].
        apply negb_true_iff, mem_false in Hi. exact Hi.
      - unfold veq, set_prof, A5, A6, tgt; simpl. repeat split; intro k.
        rewrite FR, SF1, mem_app, LF. destruct (mem k (ep_profiles e)), (mem k sf); reflexivity. }
    assert (G7 : advR w A6 [map MIPSetRemove toDel] (tgt X st (Some (w, e)) (ep_pols e) (ep_profiles e) newS)).
    { apply adv_ips_rm; [apply G6| | |].
      - intros s Hs k r H. unfold A6, tgt in H; simpl in H. destruct (mem k (ep_pols e)) eqn:E; [|discriminate].
        apply mem_In in Hs. rewrite TD in Hs. apply andb_true_iff in Hs. destruct Hs as [_ Hs].
        apply negb_true_iff, mem_false in Hs. intro XX. apply Hs, NS. right. exists k, r. apply mem_In in E. auto.
      - intros s Hs k r H. unfold A6, tgt in H; simpl in H. destruct (mem k (ep_profiles e)) eqn:E; [|discriminate].
        apply mem_In in Hs. rewrite TD in Hs. apply andb_true_iff in Hs. destruct Hs as [_ Hs].
        apply negb_true_iff, mem_false in Hs. intro XX. apply Hs, NS. left. exists k, r. apply mem_In in E. auto.
      - unfold veq, set_ips, A6, tgt; simpl. repeat split; intro k.
        rewrite TD, mem_app, TA. destruct (mem k newS), (mem k si); reflexivity. }
    eapply advR_seq; [exact G1|]. eapply advR_seq; [exact G2|]. eapply advR_seq; [exact G3|].
    eapply advR_seq; [exact G4|]. eapply advR_seq; [exact G5|]. eapply advR_seq; [exact G6|exact G7].
Qed.

(* ---- the closure of handleActivePolicyUpdate / handleActiveProfileUpdate ---- *)

Lemma resync_pol_adv : forall X st st1 w p r o_uid e j s0 si epo,
  pols st1 = insert p r (pols st) -> profs st1 = profs st -> ipsets st1 = ipsets st -> clk st1 = clk st ->
  WFb st1 ->
  (forall q, In q (ep_policies e) -> lookup q (pols st1) <> None) ->
  (forall q, In q (ep_profiles e) -> lookup q (profs st1) <> None) ->
  In p (ep_pols e) ->
  RIv (tgt X st epo (ep_pols e) (ep_profiles e) si) ->
  let ei := mkE (Some (j, s0)) o_uid (Some e) (ep_pols e) (ep_profiles e) si in
  exists newS t,
    needed_ips st1 ei = Some newS /\
    resync_one st1 (MPolUpdate p r) ei = Some (mkE (Some (j, s0 ++ t)) o_uid (Some e) (ep_pols e) (ep_profiles e) newS) /\
    advR w (tgt X st epo (ep_pols e) (ep_profiles e) si) (groups t) (tgt X st1 epo (ep_pols e) (ep_profiles e) newS).
Proof.
  intros X st st1 w p r o_uid e j s0 si epo HT HO HI HC [WP WF] HP HF Hp R0 ei. subst ei.
  assert (HP' : forall q, In q (ep_pols e) -> lookup q (pols st1) <> None) by (intros q Hq; apply HP, ep_pols_spec, Hq).
  destruct (refs_of_all_some (profs st1) (ep_profiles e) HF) as (xa & Ea & Xa).
  destruct (refs_of_all_some (pols st1) (ep_pols e) HP') as (xb & Eb & Xb).
  set (newS := dedup (xa ++ xb)).
  assert (N : needed_ips st1 (mkE (Some (j, s0)) o_uid (Some e) (ep_pols e) (ep_profiles e) si) = Some newS)
    by (unfold needed_ips, e_profs, e_pols; cbn [e_upd]; rewrite Ea, Eb; reflexivity).
  assert (NS : forall s, In s newS <->
             (exists i r, In i (ep_profiles e) /\ lookup i (profs st1) = Some r /\ In s (refs r)) \/
             (exists i r, In i (ep_pols e) /\ lookup i (pols st1) = Some r /\ In s (refs r))).
  { intro s. unfold newS. rewrite In_dedup, in_app_iff, Xa, Xb. tauto. }
  assert (NSpres : forall s, In s newS -> lookup s (ipsets st) <> None).
  { intros s Hs. rewrite <- HI. apply NS in Hs. destruct Hs as [(i & r0 & _ & L & Hr)|(i & r0 & _ & L & Hr)]; [eapply WF|eapply WP]; eassumption. }
  set (toAdd := filter (fun s => negb (mem s si)) newS).
  set (toDel := filter (fun s => negb (mem s newS)) si).
  assert (TA : forall k, mem k toAdd = mem k newS && negb (mem k si)) by (intro; apply mem_filter).
  assert (TD : forall k, mem k toDel = mem k si && negb (mem k newS)) by (intro; apply mem_filter).
  assert (GM : forall s, getm st1 s = getm st s) by (intro; unfold getm; rewrite HI; reflexivity).
  assert (AM : ipset_msgs st1 toAdd = Some (map (fun s => MIPSetUpdate s (getm st s)) toAdd)).
  { rewrite ipset_msgs_some.
    - f_equal. apply map_ext. intro a. rewrite GM. reflexivity.
    - intros s Hs. rewrite HI. apply NSpres. apply mem_In in Hs. rewrite TA in Hs.
      apply andb_true_iff in Hs. apply mem_In. tauto. }
  set (c := clk st1).
  exists newS.
  exists ([(c, map (fun s => MIPSetUpdate s (getm st s)) toAdd)] ++ [(c, [MPolUpdate p r])] ++ [(c, map MIPSetRemove toDel)]).
  split; [exact N|]. split.
  - unfold resync_one. rewrite N. cbn [e_sips]. fold toAdd toDel. rewrite AM.
    unfold set_synced. cbn [e_out e_uid e_upd e_spol e_sprof]. rewrite !emit_rec. fold c. rewrite <- !app_assoc. reflexivity.
  - change (groups ([(c, map (fun s => MIPSetUpdate s (getm st s)) toAdd)] ++ [(c, [MPolUpdate p r])] ++ [(c, map MIPSetRemove toDel)]))
      with ([map (fun s => MIPSetUpdate s (getm st s)) toAdd] ++ [[MPolUpdate p r]] ++ [map MIPSetRemove toDel]).
    set (A1 := tgt X st epo (ep_pols e) (ep_profiles e) (toAdd ++ si)).
    set (A2 := tgt X st1 epo (ep_pols e) (ep_profiles e) (toAdd ++ si)).
    assert (INS : forall s, mem s newS = true -> mem s (toAdd ++ si) = true).
    { intros s H. rewrite mem_app, TA, H. simpl. destruct (mem s si); reflexivity. }
    assert (LPR : lookup p (pols st1) = Some r) by (rewrite HT, lookup_insert, Nat.eqb_refl; reflexivity).
    assert (G1 : advR w (tgt X st epo (ep_pols e) (ep_profiles e) si) [map (fun s => MIPSetUpdate s (getm st s)) toAdd] A1).
    { apply adv_ips_add; [exact R0|]. unfold veq, set_ips, A1, tgt; simpl. repeat split; intro k.
      rewrite mem_app. destruct (mem k toAdd) eqn:E; simpl; [|reflexivity].
      rewrite TA in E. apply andb_true_iff in E. destruct E as [E _]. apply mem_In, NSpres in E.
      unfold getm. destruct (lookup k (ipsets st)); congruence. }
    assert (G2 : advR w A1 [[MPolUpdate p r]] A2).
    { apply adv_one; [apply G1|reflexivity| |].
      - apply RIv_add_pol; [apply G1|]. intros s Hs. unfold A1, tgt; simpl.
        assert (In s newS) by (apply NS; right; exists p, r; auto).
        rewrite INS; [apply NSpres; assumption|apply mem_In; assumption].
      - unfold veq, A1, A2, tgt; simpl. rewrite HT, HO, HI. repeat split; intro k. unfold upd. rewrite lookup_insert.
        destruct (Nat.eqb_spec k p) as [->|NE]; [|reflexivity].
        apply mem_In in Hp. rewrite Hp. reflexivity. }
    assert (G3 : advR w A2 [map MIPSetRemove toDel] (tgt X st1 epo (ep_pols e) (ep_profiles e) newS)).
    { apply adv_ips_rm; [apply G2| | |].
      - intros s Hs k r0 H. unfold A2, tgt in H; simpl in H. destruct (mem k (ep_pols e)) eqn:E; [|discriminate].
        apply mem_In in Hs. rewrite TD in Hs. apply andb_true_iff in Hs. destruct Hs as [_ Hs].
        apply negb_true_iff, mem_false in Hs. intro XX. apply Hs, NS. right. exists k, r0. apply mem_In in E. auto.
      - intros s Hs k r0 H. unfold A2, tgt in H; simpl in H. destruct (mem k (ep_profiles e)) eqn:E; [|discriminate].
        apply mem_In in Hs. rewrite TD in Hs. apply andb_true_iff in Hs. destruct Hs as [_ Hs].
        apply negb_true_iff, mem_false in Hs. intro XX. apply Hs, NS. left. exists k, r0. apply mem_In in E. auto.
      - unfold veq, set_ips, A2, tgt; simpl. rewrite HI. repeat split; intro k.
        rewrite TD, mem_app, TA. destruct (mem k newS), (mem k si); reflexivity. }
    eapply advR_seq; [exact G1|]. eapply advR_seq; [exact G2|exact G3].
Qed.

Lemma resync_prof_adv : forall X st st1 w p r o_uid e j s0 si epo,
  profs st1 = insert p r (profs st) -> pols st1 = pols st -> ipsets st1 = ipsets st -> clk st1 = clk st ->
  WFb st1 ->
  (forall q, In q (ep_policies e) -> lookup q (pols st1) <> None) ->
  (forall q, In q (ep_profiles e) -> lookup q (profs st1) <> None) ->
  In p (ep_profiles e) ->
  RIv (tgt X st epo (ep_pols e) (ep_profiles e) si) ->
  let ei := mkE (Some (j, s0)) o_uid (Some e) (ep_pols e) (ep_profiles e) si in
  exists newS t,
    needed_ips st1 ei = Some newS /\
    resync_one st1 (MProfUpdate p r) ei = Some (mkE (Some (j, s0 ++ t)) o_uid (Some e) (ep_pols e) (ep_profiles e) newS) /\
    advR w (tgt X st epo (ep_pols e) (ep_profiles e) si) (groups t) (tgt X st1 epo (ep_pols e) (ep_profiles e) newS).
Proof.
  intros X st st1 w p r o_uid e j s0 si epo HT HO HI HC [WP WF] HP HF Hp R0 ei. subst ei.
  assert (HP' : forall q, In q (ep_pols e) -> lookup q (pols st1) <> None) by (intros q Hq; apply HP, ep_pols_spec, Hq).
  destruct (refs_of_all_some (profs st1) (ep_profiles e) HF) as (xa & Ea & Xa).
  destruct (refs_of_all_some (pols st1) (ep_pols e) HP') as (xb & Eb & Xb).
  set (newS := dedup (xa ++ xb)).
  assert (N : needed_ips st1 (mkE (Some (j, s0)) o_uid (Some e) (ep_pols e) (ep_profiles e) si) = Some newS)
    by (unfold needed_ips, e_profs, e_pols; cbn [e_upd]; rewrite Ea, Eb; reflexivity).
  assert (NS : forall s, In s newS <->
             (exists i r, In i (ep_profiles e) /\ lookup i (profs st1) = Some r /\ In s (refs r)) \/
             (exists i r, In i (ep_pols e) /\ lookup i (pols st1) = Some r /\ In s (refs r))).
  { intro s. unfold newS. rewrite In_dedup, in_app_iff, Xa, Xb. tauto. }
  assert (NSpres : forall s, In s newS -> lookup s (ipsets st) <> None).
  { intros s Hs. rewrite <- HI. apply NS in Hs. destruct Hs as [(i & r0 & _ & L & Hr)|(i & r0 & _ & L & Hr)]; [eapply WF|eapply WP]; eassumption. }
  set (toAdd := filter (fun s => negb (mem s si)) newS).
  set (toDel := filter (fun s => negb (mem s newS)) si).
  assert (TA : forall k, mem k toAdd = mem k newS && negb (mem k si)) by (intro; apply mem_filter).
  assert (TD : forall k, mem k toDel = mem k si && negb (mem k newS)) by (intro; apply mem_filter).
  assert (GM : forall s, getm st1 s = getm st s) by (intro; unfold getm; rewrite HI; reflexivity).
  assert (AM : ipset_msgs st1 toAdd = Some (map (fun s => MIPSetUpdate s (getm st s)) toAdd)).
  { rewrite ipset_msgs_some.
    - f_equal. apply map_ext. intro a. rewrite GM. reflexivity.
    - intros s Hs. rewrite HI. apply NSpres. apply mem_In in Hs. rewrite TA in Hs.
      apply andb_true_iff in Hs. apply mem_In. tauto. }
  set (c := clk st1).
  exists newS.
  exists ([(c, map (fun s => MIPSetUpdate s (getm st s)) toAdd)] ++ [(c, [MProfUpdate p r])] ++ [(c, map MIPSetRemove toDel)]).
  split; [exact N|]. split.
  - unfold resync_one. rewrite N. cbn [e_sips]. fold toAdd toDel. rewrite AM.
    unfold set_synced. cbn [e_out e_uid e_upd e_spol e_sprof]. rewrite !emit_rec. fold c. rewrite <- !app_assoc. reflexivity.
  - change (groups ([(c, map (fun s => MIPSetUpdate s (getm st s)) toAdd)] ++ [(c, [MProfUpdate p r])] ++ [(c, map MIPSetRemove toDel)]))
      with ([map (fun s => MIPSetUpdate s (getm st s)) toAdd] ++ [[MProfUpdate p r]] ++ [map MIPSetRemove toDel]).
    set (A1 := tgt X st epo (ep_pols e) (ep_profiles e) (toAdd ++ si)).
    set (A2 := tgt X st1 epo (ep_pols e) (ep_profiles e) (toAdd ++ si)).
    assert (INS : forall s, mem s newS = true -> mem s (toAdd ++ si) = true).
    { intros s H. rewrite mem_app, TA, H. simpl. destruct (mem s si); reflexivity. }
    assert (LPR : lookup p (profs st1) = Some r) by (rewrite HT, lookup_insert, Nat.eqb_refl; reflexivity).
    assert (G1 : advR w (tgt X st epo (ep_pols e) (ep_profiles e) si) [map (fun s => MIPSetUpdate s (getm st s)) toAdd] A1).
    { apply adv_ips_add; [exact R0|]. unfold veq, set_ips, A1, tgt; simpl. repeat split; intro k.
      rewrite mem_app. destruct (mem k toAdd) eqn:E; simpl; [|reflexivity].
      rewrite TA in E. apply andb_true_iff in E. destruct E as [E _]. apply mem_In, NSpres in E.
      unfold getm. destruct (lookup k (ipsets st)); congruence. }
    assert (G2 : advR w A1 [[MProfUpdate p r]] A2).
    { apply adv_one; [apply G1|reflexivity| |].
      - apply RIv_add_prof; [apply G1|]. intros s Hs. unfold A1, tgt; simpl.
        assert (In s newS) by (apply NS; left; exists p, r; auto).
        rewrite INS; [apply NSpres; assumption|apply mem_In; assumption].
      - unfold veq, A1, A2, tgt; simpl. rewrite HT, HO, HI. repeat split; intro k. unfold upd. rewrite lookup_insert.
        destruct (Nat.eqb_spec k p) as [->|NE]; [|reflexivity].
        apply mem_In in Hp. rewrite Hp. reflexivity. }
    assert (G3 : advR w A2 [map MIPSetRemove toDel] (tgt X st1 epo (ep_pols e) (ep_profiles e) newS)).
    { apply adv_ips_rm; [apply G2| | |].
      - intros s Hs k r0 H. unfold A2, tgt in H; simpl in H. destruct (mem k (ep_pols e)) eqn:E; [|discriminate].
        apply mem_In in Hs. rewrite TD in Hs. apply andb_true_iff in Hs. destruct Hs as [_ Hs].
        apply negb_true_iff, mem_false in Hs. intro XX. apply Hs, NS. right. exists k, r0. apply mem_In in E. auto.
      - intros s Hs k r0 H. unfold A2, tgt in H; simpl in H. destruct (mem k (ep_profiles e)) eqn:E; [|discriminate].
        apply mem_In in Hs. rewrite TD in Hs. apply andb_true_iff in Hs. destruct Hs as [_ Hs].
        apply negb_true_iff, mem_false in Hs. intro XX. apply Hs, NS. left. exists k, r0. apply mem_In in E. auto.
      - unfold veq, set_ips, A2, tgt; simpl. rewrite HI. repeat split; intro k.
        rewrite TD, mem_app, TA. destruct (mem k newS), (mem k si); reflexivity. }
    eapply advR_seq; [exact G1|]. eapply advR_seq; [exact G2|exact G3].
Qed.
