(* C31 — what the property says, independent of how the Processor is written.

   * [client]: what a policy-sync client holds after applying a stream of messages in order.
   * [truth]: the latest version of everything, a plain fold over the history (no processor logic).
   * [expected]: what a joined workload must hold: its own endpoint, exactly the policies/profiles that endpoint
     lists, exactly the IP sets those reference, every service account and namespace, the in-sync flag.
   * [ri]: a client state never references something it does not hold.
   * [valid]: the contract the calculation graph keeps towards the Processor (stated in its comments).
   * [ok_case]: the boolean oracle applied to the implementation's own output. *)
From Coq Require Import List Arith Bool Permutation.
From Verif.C31 Require Import Model.
Import ListNotations.

(* ---- boolean equalities ------------------------------------------------------------------------------ *)

Fixpoint list_eqb {A} (eqb : A -> A -> bool) (a b : list A) : bool :=
  match a, b with
  | [], [] => true
  | x :: a', y :: b' => eqb x y && list_eqb eqb a' b'
  | _, _ => false
  end.
Definition ids_eqb := list_eqb Nat.eqb.
Definition rule_eqb : rule -> rule -> bool := list_eqb ids_eqb.
Definition rules_eqb (a b : rules) : bool :=
  Nat.eqb (rl_ver a) (rl_ver b) && list_eqb rule_eqb (rl_in a) (rl_in b) && list_eqb rule_eqb (rl_out a) (rl_out b).
Definition tier_eqb (a b : tier) : bool := ids_eqb (t_in a) (t_in b) && ids_eqb (t_out a) (t_out b).
Definition endpoint_eqb (a b : endpoint) : bool :=
  Nat.eqb (ep_ver a) (ep_ver b) && list_eqb tier_eqb (ep_tiers a) (ep_tiers b) && ids_eqb (ep_profiles a) (ep_profiles b).
Definition opt_eqb {A} (eqb : A -> A -> bool) (a b : option A) : bool :=
  match a, b with Some x, Some y => eqb x y | None, None => true | _, _ => false end.

Definition msg_eqb (a b : msg) : bool :=
  match a, b with
  | MInSync, MInSync => true
  | MWepUpdate w e, MWepUpdate w' e' => Nat.eqb w w' && endpoint_eqb e e'
  | MWepRemove w, MWepRemove w' => Nat.eqb w w'
  | MPolUpdate p r, MPolUpdate p' r' => Nat.eqb p p' && rules_eqb r r'
  | MPolRemove p, MPolRemove p' => Nat.eqb p p'
  | MProfUpdate p r, MProfUpdate p' r' => Nat.eqb p p' && rules_eqb r r'
  | MProfRemove p, MProfRemove p' => Nat.eqb p p'
  | MIPSetUpdate s m, MIPSetUpdate s' m' => Nat.eqb s s' && ids_eqb m m'
  | MIPSetDelta s a r, MIPSetDelta s' a' r' => Nat.eqb s s' && ids_eqb a a' && ids_eqb r r'
  | MIPSetRemove s, MIPSetRemove s' => Nat.eqb s s'
  | MSAUpdate a v, MSAUpdate a' v' => Nat.eqb a a' && Nat.eqb v v'
  | MSARemove a, MSARemove a' => Nat.eqb a a'
  | MNSUpdate a v, MNSUpdate a' v' => Nat.eqb a a' && Nat.eqb v v'
  | MNSRemove a, MNSRemove a' => Nat.eqb a a'
  | _, _ => false
  end.

(* ---- the client ------------------------------------------------------------------------------------------ *)

Record cstate := mkC {
  c_ep : option (id * endpoint);
  c_pol : list (id * rules);
  c_prof : list (id * rules);
  c_ips : list (id * list nat);
  c_sa : list (id * nat);
  c_ns : list (id * nat);
  c_insync : bool }.

Definition cinit : cstate := mkC None [] [] [] [] [] false.

Definition apply (cs : cstate) (m : msg) : cstate :=
  match m with
  | MInSync => mkC (c_ep cs) (c_pol cs) (c_prof cs) (c_ips cs) (c_sa cs) (c_ns cs) true
  | MWepUpdate w e => mkC (Some (w, e)) (c_pol cs) (c_prof cs) (c_ips cs) (c_sa cs) (c_ns cs) (c_insync cs)
  | MWepRemove w => mkC None (c_pol cs) (c_prof cs) (c_ips cs) (c_sa cs) (c_ns cs) (c_insync cs)
  | MPolUpdate p r => mkC (c_ep cs) (insert p r (c_pol cs)) (c_prof cs) (c_ips cs) (c_sa cs) (c_ns cs) (c_insync cs)
  | MPolRemove p => mkC (c_ep cs) (remove p (c_pol cs)) (c_prof cs) (c_ips cs) (c_sa cs) (c_ns cs) (c_insync cs)
  | MProfUpdate p r => mkC (c_ep cs) (c_pol cs) (insert p r (c_prof cs)) (c_ips cs) (c_sa cs) (c_ns cs) (c_insync cs)
  | MProfRemove p => mkC (c_ep cs) (c_pol cs) (remove p (c_prof cs)) (c_ips cs) (c_sa cs) (c_ns cs) (c_insync cs)
  | MIPSetUpdate s m => mkC (c_ep cs) (c_pol cs) (c_prof cs) (insert s m (c_ips cs)) (c_sa cs) (c_ns cs) (c_insync cs)
  | MIPSetDelta s a r =>
      match lookup s (c_ips cs) with
      | Some m => mkC (c_ep cs) (c_pol cs) (c_prof cs) (insert s (members_delta m a r) (c_ips cs)) (c_sa cs) (c_ns cs) (c_insync cs)
      | None => cs
      end
  | MIPSetRemove s => mkC (c_ep cs) (c_pol cs) (c_prof cs) (remove s (c_ips cs)) (c_sa cs) (c_ns cs) (c_insync cs)
  | MSAUpdate a v => mkC (c_ep cs) (c_pol cs) (c_prof cs) (c_ips cs) (insert a v (c_sa cs)) (c_ns cs) (c_insync cs)
  | MSARemove a => mkC (c_ep cs) (c_pol cs) (c_prof cs) (c_ips cs) (remove a (c_sa cs)) (c_ns cs) (c_insync cs)
  | MNSUpdate a v => mkC (c_ep cs) (c_pol cs) (c_prof cs) (c_ips cs) (c_sa cs) (insert a v (c_ns cs)) (c_insync cs)
  | MNSRemove a => mkC (c_ep cs) (c_pol cs) (c_prof cs) (c_ips cs) (c_sa cs) (remove a (c_ns cs)) (c_insync cs)
  end.
Definition client (ms : list msg) : cstate := fold_left apply ms cinit.

(* ---- what an endpoint needs ------------------------------------------------------------------------------- *)

(* the policies an endpoint lists (as a set): every ingress and egress policy of every tier *)
Definition ep_policies (e : endpoint) : list id := flat_map (fun t => t_in t ++ t_out t) (ep_tiers e).

Definition keys {V} (l : list (id * V)) : list id := map fst l.
Definition all_refs (tbl : list (id * rules)) (ids : list id) : list id :=
  flat_map (fun i => match lookup i tbl with Some r => refs r | None => [] end) ids.

(* referential integrity of a client state: everything its endpoint lists is held, every IP set a held
   policy/profile mentions is held *)
Definition ri (cs : cstate) : bool :=
  match c_ep cs with
  | Some (_, e) =>
      forallb (fun p => match lookup p (c_pol cs) with Some _ => true | None => false end) (ep_policies e)
      && forallb (fun p => match lookup p (c_prof cs) with Some _ => true | None => false end) (ep_profiles e)
  | None => true
  end
  && forallb (fun pr => forallb (fun s => match lookup s (c_ips cs) with Some _ => true | None => false end) (refs (snd pr)))
             (c_pol cs ++ c_prof cs).

(* an endpoint message carries the id [w] *)
Definition own (w : id) (m : msg) : bool :=
  match m with MWepUpdate w' _ | MWepRemove w' => Nat.eqb w w' | _ => true end.

(* apply a stream, checking [ri] and [own] after every message *)
Fixpoint apply_checked (w : id) (cs : cstate) (ms : list msg) : cstate * bool :=
  match ms with
  | [] => (cs, true)
  | m :: r => let cs' := apply cs m in
              let '(cs'', ok) := apply_checked w cs' r in
              (cs'', own w m && ri cs' && ok)
  end.

(* ---- the truth: latest versions, who is connected --------------------------------------------------------- *)

Record truth := mkT {
  t_eps : list (id * endpoint);
  t_pols : list (id * rules);
  t_profs : list (id * rules);
  t_ips : list (id * list nat);
  t_sas : list (id * nat);
  t_nss : list (id * nat);
  t_insync : bool;
  t_conn : list (id * (nat * nat));     (* workload -> (index of its current join, join uid) *)
  t_njoins : nat }.

Definition tinit : truth := mkT [] [] [] [] [] [] false [] 0.

Definition tstep (t : truth) (o : op) : truth :=
  match o with
  | OJoin w uid => mkT (t_eps t) (t_pols t) (t_profs t) (t_ips t) (t_sas t) (t_nss t) (t_insync t)
                       (insert w (t_njoins t, uid) (t_conn t)) (S (t_njoins t))
  | OLeave w uid =>
      match lookup w (t_conn t) with
      | Some (_, u) => if Nat.eqb u uid
                       then mkT (t_eps t) (t_pols t) (t_profs t) (t_ips t) (t_sas t) (t_nss t) (t_insync t)
                                (remove w (t_conn t)) (t_njoins t)
                       else t
      | None => t
      end
  | OInSync => mkT (t_eps t) (t_pols t) (t_profs t) (t_ips t) (t_sas t) (t_nss t) true (t_conn t) (t_njoins t)
  | OWepUpdate w e => mkT (insert w e (t_eps t)) (t_pols t) (t_profs t) (t_ips t) (t_sas t) (t_nss t) (t_insync t) (t_conn t) (t_njoins t)
  | OWepRemove w => mkT (remove w (t_eps t)) (t_pols t) (t_profs t) (t_ips t) (t_sas t) (t_nss t) (t_insync t)
                        (remove w (t_conn t)) (t_njoins t)      (* the processor closes the stream of a removed endpoint *)
  | OPolUpdate p r => mkT (t_eps t) (insert p r (t_pols t)) (t_profs t) (t_ips t) (t_sas t) (t_nss t) (t_insync t) (t_conn t) (t_njoins t)
  | OPolRemove p => mkT (t_eps t) (remove p (t_pols t)) (t_profs t) (t_ips t) (t_sas t) (t_nss t) (t_insync t) (t_conn t) (t_njoins t)
  | OProfUpdate p r => mkT (t_eps t) (t_pols t) (insert p r (t_profs t)) (t_ips t) (t_sas t) (t_nss t) (t_insync t) (t_conn t) (t_njoins t)
  | OProfRemove p => mkT (t_eps t) (t_pols t) (remove p (t_profs t)) (t_ips t) (t_sas t) (t_nss t) (t_insync t) (t_conn t) (t_njoins t)
  | OIPSetUpdate s m => mkT (t_eps t) (t_pols t) (t_profs t) (insert s (canon m) (t_ips t)) (t_sas t) (t_nss t) (t_insync t) (t_conn t) (t_njoins t)
  | OIPSetDelta s a r =>
      match lookup s (t_ips t) with
      | Some m => mkT (t_eps t) (t_pols t) (t_profs t) (insert s (members_delta m a r) (t_ips t)) (t_sas t) (t_nss t) (t_insync t) (t_conn t) (t_njoins t)
      | None => t
      end
  | OIPSetRemove s => mkT (t_eps t) (t_pols t) (t_profs t) (remove s (t_ips t)) (t_sas t) (t_nss t) (t_insync t) (t_conn t) (t_njoins t)
  | OSAUpdate a v => mkT (t_eps t) (t_pols t) (t_profs t) (t_ips t) (insert a v (t_sas t)) (t_nss t) (t_insync t) (t_conn t) (t_njoins t)
  | OSARemove a => mkT (t_eps t) (t_pols t) (t_profs t) (t_ips t) (remove a (t_sas t)) (t_nss t) (t_insync t) (t_conn t) (t_njoins t)
  | ONSUpdate a v => mkT (t_eps t) (t_pols t) (t_profs t) (t_ips t) (t_sas t) (insert a v (t_nss t)) (t_insync t) (t_conn t) (t_njoins t)
  | ONSRemove a => mkT (t_eps t) (t_pols t) (t_profs t) (t_ips t) (t_sas t) (remove a (t_nss t)) (t_insync t) (t_conn t) (t_njoins t)
  end.
Definition truth_of (ops : list op) : truth := fold_left tstep ops tinit.

(* ---- the contract of the calculation graph ------------------------------------------------------------------ *)

Definition present {V} (tbl : list (id * V)) (k : id) : bool :=
  match lookup k tbl with Some _ => true | None => false end.

(* the policies of one tier *)
Definition tier_ids (t : tier) : list id := t_in t ++ t_out t.
(* a policy belongs to one tier: the tiers' policy sets are pairwise disjoint *)
Fixpoint tiers_disjoint (ts : list tier) : bool :=
  match ts with
  | [] => true
  | t :: r => forallb (fun p => negb (mem p (flat_map tier_ids r))) (tier_ids t) && tiers_disjoint r
  end.
(* an endpoint lists a policy once: tiers are disjoint and no tier lists a policy twice in its ingress list
   (the calculation graph also never repeats a policy in an egress list; the Processor tolerates that) *)
Definition listed_once (e : endpoint) : bool :=
  forallb (fun t => negb (has_dup (t_in t))) (ep_tiers e) && tiers_disjoint (ep_tiers e).

Definition valid_op (t : truth) (o : op) : bool :=
  match o with
  | OJoin _ uid => negb (Nat.eqb uid 0)                    (* UIDAllocator never hands out 0 *)
  | OLeave _ uid => negb (Nat.eqb uid 0)
  | OWepUpdate _ e =>
      (* policies/profiles are sent before the endpoints that use them; a policy is listed once *)
      forallb (present (t_pols t)) (ep_policies e) && forallb (present (t_profs t)) (ep_profiles e)
      && listed_once e && negb (has_dup (ep_profiles e))
  | OWepRemove w => present (t_eps t) w
  | OPolUpdate _ r | OProfUpdate _ r => forallb (present (t_ips t)) (refs r)      (* IP sets before their users *)
  | OPolRemove p => negb (existsb (fun we => mem p (ep_policies (snd we))) (t_eps t))   (* removed only when unused *)
  | OProfRemove p => negb (existsb (fun we => mem p (ep_profiles (snd we))) (t_eps t))
  | OIPSetDelta s _ _ => present (t_ips t) s
  | OIPSetRemove s => negb (existsb (fun pr => mem s (refs (snd pr))) (t_pols t ++ t_profs t))
  | _ => true
  end.

Fixpoint valid_from (t : truth) (ops : list op) : bool :=
  match ops with
  | [] => true
  | o :: r => valid_op t o && valid_from (tstep t o) r
  end.
Definition valid (ops : list op) : bool := valid_from tinit ops.

(* ---- expected content of a connected workload's client --------------------------------------------------------- *)

Definition t_needed_pols (t : truth) (w : id) : list id :=
  match lookup w (t_eps t) with Some e => ep_policies e | None => [] end.
Definition t_needed_profs (t : truth) (w : id) : list id :=
  match lookup w (t_eps t) with Some e => ep_profiles e | None => [] end.
Definition t_needed_ips (t : truth) (w : id) : list id :=
  all_refs (t_pols t) (t_needed_pols t w) ++ all_refs (t_profs t) (t_needed_profs t w).

(* [held] restricted to exactly [needed], each at the version of [tbl]; compared on all keys in sight *)
Definition exactly {V} (eqb : V -> V -> bool) (held tbl : list (id * V)) (needed : list id) : bool :=
  forallb (fun k => opt_eqb eqb (lookup k held) (if mem k needed then lookup k tbl else None))
          (keys held ++ needed).

Definition same_map {V} (eqb : V -> V -> bool) (a b : list (id * V)) : bool :=
  forallb (fun k => opt_eqb eqb (lookup k a) (lookup k b)) (keys a ++ keys b).

Definition expected (t : truth) (w : id) (cs : cstate) : bool :=
  opt_eqb (fun a b => Nat.eqb (fst a) (fst b) && endpoint_eqb (snd a) (snd b))
          (c_ep cs) (match lookup w (t_eps t) with Some e => Some (w, e) | None => None end)
  && exactly rules_eqb (c_pol cs) (t_pols t) (t_needed_pols t w)
  && exactly rules_eqb (c_prof cs) (t_profs t) (t_needed_profs t w)
  && exactly ids_eqb (c_ips cs) (t_ips t) (t_needed_ips t w)
  && same_map Nat.eqb (c_sa cs) (t_sas t)
  && same_map Nat.eqb (c_ns cs) (t_nss t)
  && Bool.eqb (c_insync cs) (t_insync t).

(* ---- linearisations of a model stream ---------------------------------------------------------------------------- *)

(* [lin gs ms]: [ms] sends the groups in order, the messages of each group in some order *)
Inductive lin : list (list msg) -> list msg -> Prop :=
| lin_nil : lin [] []
| lin_cons g gs p ms : Permutation g p -> lin gs ms -> lin (g :: gs) (p ++ ms).

Definition groups (s : stream) : list (list msg) := map snd s.

(* ---- observations of the implementation --------------------------------------------------------------------------- *)

(* one channel handed to the real Processor: the join (operation index, workload) that created it, the operation
   during which the Processor closed it, and the messages read from it after each operation *)
Record chan_obs := mkCh {
  ch_step : nat;
  ch_w : id;
  ch_closed : option nat;
  ch_msgs : list (nat * list msg) }.

Definition msgs_at (k : nat) (d : list (nat * list msg)) : list msg :=
  flat_map (fun x => if Nat.eqb (fst x) k then snd x else []) d.

(* the oracle for one channel (join index j) *)
Fixpoint ok_chan_from (j : nat) (ch : chan_obs) (truths : list truth) (k : nat) (cs : cstate) : bool :=
  match truths with
  | [] => true
  | t :: rest =>
      let ms := msgs_at k (ch_msgs ch) in
      let '(cs', okm) := apply_checked (ch_w ch) cs ms in
      let connected := match lookup (ch_w ch) (t_conn t) with Some (j', _) => Nat.eqb j j' | None => false end in
      let closed_by := match ch_closed ch with Some c => c <=? k | None => false end in
      let after_close := match ch_closed ch with Some c => c <? k | None => false end in
      okm
      && Bool.eqb closed_by (negb connected)                (* closed exactly when the workload left / re-joined / was removed *)
      && (if after_close then match ms with [] => true | _ => false end else true)   (* nothing after the close *)
      && (if connected then expected t (ch_w ch) cs' else true)
      && ok_chan_from j ch rest (S k) cs'
  end.

Fixpoint truths_from (t : truth) (ops : list op) : list truth :=
  match ops with [] => [] | o :: r => let t' := tstep t o in t' :: truths_from t' r end.

Definition joins_of (ops : list op) : list (nat * id) :=
  flat_map (fun ko => match snd ko with OJoin w _ => [(fst ko, w)] | _ => [] end)
           (combine (seq 0 (length ops)) ops).

Record case := mkCase {
  c_ops : list op;
  c_panic : option nat;                 (* index of the operation during which the real Processor panicked *)
  c_chans : list chan_obs }.            (* in join order *)

(* the operations that were completely processed *)
Definition done_ops (c : case) : list op :=
  match c_panic c with Some k => firstn k (c_ops c) | None => c_ops c end.

Definition ok_case (c : case) : bool :=
  if valid (c_ops c) then
    match c_panic c with Some _ => false | None => true end
    && list_eqb (fun a b => Nat.eqb (fst a) (fst b) && Nat.eqb (snd a) (snd b))
                (joins_of (c_ops c)) (map (fun ch => (ch_step ch, ch_w ch)) (c_chans c))
    && forallb (fun jc => let ch := snd jc in
                          ok_chan_from (fst jc) ch (skipn (ch_step ch) (truths_from tinit (c_ops c))) (ch_step ch) cinit)
               (combine (seq 0 (length (c_chans c))) (c_chans c))
  else true.      (* the property speaks about histories the calculation graph can produce *)

(* ---- model = implementation ------------------------------------------------------------------------------------------ *)

Fixpoint remove_first (m : msg) (l : list msg) : option (list msg) :=
  match l with
  | [] => None
  | x :: r => if msg_eqb m x then Some r
              else match remove_first m r with Some r' => Some (x :: r') | None => None end
  end.
Fixpoint is_perm (a b : list msg) : bool :=
  match a with
  | [] => match b with [] => true | _ => false end
  | m :: r => match remove_first m b with Some b' => is_perm r b' | None => false end
  end.
(* the messages read are the groups in order, each in some order *)
Fixpoint match_groups (gs : list (list msg)) (ms : list msg) : bool :=
  match gs with
  | [] => match ms with [] => true | _ => false end
  | g :: r => is_perm g (firstn (length g) ms) && match_groups r (skipn (length g) ms)
  end.

Definition groups_at (k : nat) (s : stream) : list (list msg) :=
  flat_map (fun x => if Nat.eqb (fst x) k then [snd x] else []) s.

Definition chan_agrees (nops : nat) (model : option (id * option nat * stream)) (ch : chan_obs) : bool :=
  match model with
  | None => false
  | Some (w, cl, s) =>
      Nat.eqb w (ch_w ch) && opt_eqb Nat.eqb cl (ch_closed ch)
      && forallb (fun k => match_groups (groups_at k s) (msgs_at k (ch_msgs ch))) (seq 0 nops)
  end.

Definition agrees (c : case) : bool :=
  let '(st, pk) := run (c_ops c) in
  opt_eqb Nat.eqb pk (c_panic c)
  && Nat.eqb (njoins st) (length (c_chans c))
  && list_eqb (fun a b => Nat.eqb (fst a) (fst b) && Nat.eqb (snd a) (snd b))
              (joins_of (done_ops c)) (map (fun ch => (ch_step ch, ch_w ch)) (c_chans c))   (* channels in join order *)
  && forallb (fun jc => chan_agrees (length (c_ops c)) (lookup (fst jc) (channels st)) (snd jc))
             (combine (seq 0 (length (c_chans c))) (c_chans c)).

Definition check_case (c : case) : bool * bool := (agrees c, ok_case c).
