(* C31 — [adv] for each kind of group the Processor sends. *)
From Coq Require Import List Arith Bool Permutation Lia.
From Verif.C31 Require Import Model Spec Lemmas Views Groups.
Import ListNotations.

Definition set_ep (A : view) (x : option (id * endpoint)) := mkV x (v_pol A) (v_prof A) (v_ips A) (v_sa A) (v_ns A) (v_sync A).
Definition set_pol (A : view) f := mkV (v_ep A) f (v_prof A) (v_ips A) (v_sa A) (v_ns A) (v_sync A).
Definition set_prof (A : view) f := mkV (v_ep A) (v_pol A) f (v_ips A) (v_sa A) (v_ns A) (v_sync A).
Definition set_ips (A : view) f := mkV (v_ep A) (v_pol A) (v_prof A) f (v_sa A) (v_ns A) (v_sync A).
Definition set_sa (A : view) f := mkV (v_ep A) (v_pol A) (v_prof A) (v_ips A) f (v_ns A) (v_sync A).
Definition set_ns (A : view) f := mkV (v_ep A) (v_pol A) (v_prof A) (v_ips A) (v_sa A) f (v_sync A).

Lemma mem_perm : forall l l', Permutation l l' -> forall k, mem k l = mem k l'.
Proof.
  intros l l' P. apply mem_ext. intro k. split; intro H; eapply Permutation_in; try eassumption. apply Permutation_sym; assumption.
Qed.

Lemma adv_ips_add : forall w A G l B, RIv A ->
  veq (set_ips A (fun k => if mem k l then Some (G k) else v_ips A k)) B ->
  advR w A [map (fun s => MIPSetUpdate s (G s)) l] B.
Proof.
  intros w A G l B R E. apply adv_group; [exact R|]. intros p P.
  apply Permutation_sym, Permutation_map_inv in P. destruct P as (l3 & -> & P).
  split; [apply steps_ips_add; exact R|].
  destruct (vfold_ips_add G l3 A) as (a & b & c & d & e & f & g).
  destruct E as (E1 & E2 & E3 & E4 & E5 & E6 & E7). simpl in E1, E2, E3, E4, E5, E6, E7. unfold veq.
  repeat split; intros; rewrite ?a, ?b, ?c, ?d, ?e, ?f, ?g; try rewrite <- (mem_perm _ _ P); auto.
Qed.

Lemma adv_ips_rm : forall w A l B, RIv A ->
  (forall s, In s l -> forall k r, v_pol A k = Some r -> ~ In s (refs r)) ->
  (forall s, In s l -> forall k r, v_prof A k = Some r -> ~ In s (refs r)) ->
  veq (set_ips A (fun k => if mem k l then None else v_ips A k)) B ->
  advR w A [map MIPSetRemove l] B.
Proof.
  intros w A l B R H1 H2 E. apply adv_group; [exact R|]. intros p P.
  apply Permutation_sym, Permutation_map_inv in P. destruct P as (l3 & -> & P).
  split.
  - apply steps_ips_rm; [exact R| |]; intros s Hs; [apply H1|apply H2]; (eapply Permutation_in; [apply Permutation_sym; eassumption|exact Hs]).
  - destruct (vfold_ips_rm l3 A) as (a & b & c & d & e & f & g).
    destruct E as (E1 & E2 & E3 & E4 & E5 & E6 & E7). simpl in E1, E2, E3, E4, E5, E6, E7. unfold veq.
    repeat split; intros; rewrite ?a, ?b, ?c, ?d, ?e, ?f, ?g; try rewrite <- (mem_perm _ _ P); auto.
Qed.

Lemma adv_pol_rm : forall w A l B, RIv A ->
  (forall i, In i l -> forall w e, v_ep A = Some (w, e) -> ~ In i (ep_policies e)) ->
  veq (set_pol A (fun k => if mem k l then None else v_pol A k)) B ->
  advR w A [map MPolRemove l] B.
Proof.
  intros w A l B R H1 E. apply adv_group; [exact R|]. intros p P.
  apply Permutation_sym, Permutation_map_inv in P. destruct P as (l3 & -> & P).
  split.
  - apply steps_pol_rm; [exact R|]; intros s Hs; apply H1; (eapply Permutation_in; [apply Permutation_sym; eassumption|exact Hs]).
  - destruct (vfold_pol_rm l3 A) as (a & b & c & d & e & f & g).
    destruct E as (E1 & E2 & E3 & E4 & E5 & E6 & E7). simpl in E1, E2, E3, E4, E5, E6, E7. unfold veq.
    repeat split; intros; rewrite ?a, ?b, ?c, ?d, ?e, ?f, ?g; try rewrite <- (mem_perm _ _ P); auto.
Qed.

Lemma adv_prof_rm : forall w A l B, RIv A ->
  (forall i, In i l -> forall w e, v_ep A = Some (w, e) -> ~ In i (ep_profiles e)) ->
  veq (set_prof A (fun k => if mem k l then None else v_prof A k)) B ->
  advR w A [map MProfRemove l] B.
Proof.
  intros w A l B R H1 E. apply adv_group; [exact R|]. intros p P.
  apply Permutation_sym, Permutation_map_inv in P. destruct P as (l3 & -> & P).
  split.
  - apply steps_prof_rm; [exact R|]; intros s Hs; apply H1; (eapply Permutation_in; [apply Permutation_sym; eassumption|exact Hs]).
  - destruct (vfold_prof_rm l3 A) as (a & b & c & d & e & f & g).
    destruct E as (E1 & E2 & E3 & E4 & E5 & E6 & E7). simpl in E1, E2, E3, E4, E5, E6, E7. unfold veq.
    repeat split; intros; rewrite ?a, ?b, ?c, ?d, ?e, ?f, ?g; try rewrite <- (mem_perm _ _ P); auto.
Qed.

(* ordered additions of policies / profiles *)
Lemma adv_pol_add : forall w A G l B, RIv A ->
  (forall i, In i l -> forall s, In s (refs (G i)) -> v_ips A s <> None) ->
  veq (set_pol A (fun k => if mem k l then Some (G k) else v_pol A k)) B ->
  advR w A (map (fun m => [m]) (map (fun i => MPolUpdate i (G i)) l)) B.
Proof.
  intros w A G l B R H E. apply adv_list; [exact R|apply steps_pol_add; assumption|].
  destruct (vfold_pol_add G l A) as (a & b & c & d & e & f & g).
  destruct E as (E1 & E2 & E3 & E4 & E5 & E6 & E7). simpl in E1, E2, E3, E4, E5, E6, E7. unfold veq.
  repeat split; intros; rewrite ?a, ?b, ?c, ?d, ?e, ?f, ?g; auto.
Qed.
Lemma adv_prof_add : forall w A G l B, RIv A ->
  (forall i, In i l -> forall s, In s (refs (G i)) -> v_ips A s <> None) ->
  veq (set_prof A (fun k => if mem k l then Some (G k) else v_prof A k)) B ->
  advR w A (map (fun m => [m]) (map (fun i => MProfUpdate i (G i)) l)) B.
Proof.
  intros w A G l B R H E. apply adv_list; [exact R|apply steps_prof_add; assumption|].
  destruct (vfold_prof_add G l A) as (a & b & c & d & e & f & g).
  destruct E as (E1 & E2 & E3 & E4 & E5 & E6 & E7). simpl in E1, E2, E3, E4, E5, E6, E7. unfold veq.
  repeat split; intros; rewrite ?a, ?b, ?c, ?d, ?e, ?f, ?g; auto.
Qed.

(* all service accounts / namespaces of a table whose entries agree with its lookup *)
Lemma adv_sa_all : forall w A (tbl : list (id * nat)) B, RIv A -> fal tbl ->
  veq (set_sa A (fun k => match lookup k tbl with Some x => Some x | None => v_sa A k end)) B ->
  advR w A [map (fun av => MSAUpdate (fst av) (snd av)) tbl] B.
Proof.
  intros w A tbl B R F E. apply adv_group; [exact R|]. intros p P.
  apply Permutation_sym, Permutation_map_inv in P. destruct P as (l3 & -> & P).
  split.
  - apply steps_neutral; [|exact R]. apply Forall_forall. intros m Hm. apply in_map_iff in Hm. destruct Hm as [x [<- _]]. exact I.
  - assert (HG : forall k v, In (k, v) l3 -> lookup k tbl = Some v).
    { intros k v H. apply F. eapply Permutation_in; [apply Permutation_sym; eassumption|exact H]. }
    destruct (vfold_sa_add (fun k => lookup k tbl) l3 A HG) as (a & b & c & d & e & f & g).
    destruct E as (E1 & E2 & E3 & E4 & E5 & E6 & E7). simpl in E1, E2, E3, E4, E5, E6, E7. unfold veq.
    repeat split; intros; rewrite ?a, ?b, ?c, ?d, ?e, ?f, ?g; auto.
    rewrite <- (haskey_perm _ _ _ _ P), haskey_lookup, <- E5. destruct (lookup k tbl); reflexivity.
Qed.
Lemma adv_ns_all : forall w A (tbl : list (id * nat)) B, RIv A -> fal tbl ->
  veq (set_ns A (fun k => match lookup k tbl with Some x => Some x | None => v_ns A k end)) B ->
  advR w A [map (fun av => MNSUpdate (fst av) (snd av)) tbl] B.
Proof.
  intros w A tbl B R F E. apply adv_group; [exact R|]. intros p P.
  apply Permutation_sym, Permutation_map_inv in P. destruct P as (l3 & -> & P).
  split.
  - apply steps_neutral; [|exact R]. apply Forall_forall. intros m Hm. apply in_map_iff in Hm. destruct Hm as [x [<- _]]. exact I.
  - assert (HG : forall k v, In (k, v) l3 -> lookup k tbl = Some v).
    { intros k v H. apply F. eapply Permutation_in; [apply Permutation_sym; eassumption|exact H]. }
    destruct (vfold_ns_add (fun k => lookup k tbl) l3 A HG) as (a & b & c & d & e & f & g).
    destruct E as (E1 & E2 & E3 & E4 & E5 & E6 & E7). simpl in E1, E2, E3, E4, E5, E6, E7. unfold veq.
    repeat split; intros; rewrite ?a, ?b, ?c, ?d, ?e, ?f, ?g; auto.
    rewrite <- (haskey_perm _ _ _ _ P), haskey_lookup, <- E6. destruct (lookup k tbl); reflexivity.
Qed.
