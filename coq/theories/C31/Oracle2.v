(* C31 — the boolean oracle accepts every observation of a model run on a valid history: part 2. *)
From Coq Require Import List Arith Bool Permutation Lia.
From Verif.C31 Require Import Model Spec Lemmas Views Groups GroupAdv Sync Inv Inv2 Inv3 Inv4 Inv5 Inv6 Inv7 Inv8 Inv9 Proofs Final Final2 Trace Oracle.
Import ListNotations.

Definition tags_lt (n : nat) (s : stream) : Prop := Forall (fun g : nat * list msg => fst g < n) s.

Definition TagInv (st : state) : Prop :=
  forall j w cl s, In (j, (w, cl, s)) (channels st) ->
    j < njoins st /\ tags_lt (clk st) s /\ (forall c, cl = Some c -> c < clk st /\ Forall (fun g : nat * list msg => fst g <= c) s).

Lemma taginv_init : TagInv init.
Proof. intros j w cl s []. Qed.

Lemma taginv_step : forall st o st1, TagInv st -> step st o = Some st1 -> TagInv (tick st1).
Proof.
  intros st o st1 TI S j w cl' s' H. change (channels (tick st1)) with (channels st1) in H.
  destruct (step_counters _ _ _ S) as [CK NJ]. cbn [njoins clk tick]. rewrite CK.
  destruct (step_evolves _ _ _ S j w cl' s' H) as [(cl & s & t & IN & -> & TE & CL & TN)|(NW & -> & -> & TE)].
  - destruct (TI _ _ _ _ IN) as (J & TL & TC). split; [rewrite NJ; destruct o; lia|]. split.
    + apply Forall_app. split; [eapply Forall_impl; [|exact TL]; simpl; intros; lia|eapply Forall_impl; [|exact TE]; simpl; intros; lia].
    + intros c E. destruct CL as [->|[-> ->]].
      * subst cl. destruct (TC c eq_refl) as [C1 C2]. rewrite (TN ltac:(congruence)), app_nil_r. split; [lia|exact C2].
      * inversion E; subst. split; [lia|]. apply Forall_app. split; [eapply Forall_impl; [|exact TL]; simpl; intros; lia|eapply Forall_impl; [|exact TE]; simpl; intros; lia].
  - destruct o; try discriminate. rewrite NJ. split; [lia|]. split; [eapply Forall_impl; [|exact TE]; simpl; intros; lia|intros c E; discriminate].
Qed.

(* ---- groups of one operation ---- *)

Lemma groups_at_app : forall k a b, groups_at k (a ++ b) = groups_at k a ++ groups_at k b.
Proof. intros. unfold groups_at. apply flat_map_app. Qed.
Lemma groups_at_none : forall k (s : stream), Forall (fun g => fst g <> k) s -> groups_at k s = [].
Proof.
  intros k s H. induction H as [|g s H1 H2 IH]; [reflexivity|]. unfold groups_at in *. simpl.
  destruct (Nat.eqb_spec (fst g) k); [contradiction|exact IH].
Qed.
Lemma groups_at_all : forall k (s : stream), tags_eq k s -> groups_at k s = groups s.
Proof.
  intros k s H. induction H as [|g s H1 H2 IH]; [reflexivity|]. unfold groups_at, groups in *. simpl.
  rewrite H1, Nat.eqb_refl. simpl. f_equal. exact IH.
Qed.

Lemma chan_checked : forall T st j w cl s, Inv T st -> In (j, (w, cl, s)) (channels st) ->
  forall ms, lin (groups s) ms -> snd (apply_checked w cinit ms) = true.
Proof.
  intros T st j w cl s I H. destruct cl as [c|].
  - apply in_channels_closed in H. apply (i_closed _ _ I j w c s H).
  - apply in_channels_live in H. destruct H as (ei & A & O). apply (live_checked st w ei j s (i_live _ _ I _ _ A) O).
Qed.

Definition compat (cl chcl : option nat) (m : nat) : Prop :=
  match cl with Some c => chcl = Some c | None => chcl = None \/ exists c, chcl = Some c /\ m <= c end.
Definition matches (s : stream) (ch : chan_obs) (m : nat) : Prop :=
  forall k, k < m -> lin (groups_at k s) (msgs_at k (ch_msgs ch)).

Lemma and4 : forall a b c d : bool, a = true -> b = true -> c = true -> d = true -> a && b && c && d = true.
Proof. intros; subst; reflexivity. Qed.

(* the oracle's check for operation m, on the state reached after operation m *)
Lemma step_check : forall T st j w cl s' s t ch m pv,
  Inv T st -> clk st = S m -> TagInv st ->
  In (j, (w, cl, s')) (channels st) -> s' = s ++ t -> tags_eq m t -> tags_lt m s ->
  lin (groups s) pv -> ch_w ch = w -> compat cl (ch_closed ch) (S m) ->
  lin (groups_at m s') (msgs_at m (ch_msgs ch)) ->
  step_ok1 j ch T m (fold_left apply pv cinit) = true /\ lin (groups s') (pv ++ msgs_at m (ch_msgs ch)).
Proof.
  intros T st j w cl s' s t ch m pv I CK TI IN E TE TL LP CW CP LM.
  set (ms := msgs_at m (ch_msgs ch)) in *.
  assert (GA : groups_at m s' = groups t).
  { rewrite E, groups_at_app, (groups_at_all _ _ TE), groups_at_none; [reflexivity|].
    eapply Forall_impl; [|exact TL]. simpl. intros; lia. }
  assert (L2 : lin (groups s') (pv ++ ms)).
  { rewrite E, groups_app. apply lin_app; [exact LP|]. rewrite <- GA. exact LM. }
  split; [|exact L2].
  assert (CH := chan_checked T st j w cl s' I IN _ L2). rewrite apply_checked_app in CH. apply andb_true_iff in CH. destruct CH as [_ CH].
  unfold step_ok1. rewrite CW. fold ms. destruct cl as [c|].
  - (* closed *)
    simpl in CP. rewrite CP. destruct (TI _ _ _ _ IN) as (_ & _ & TC). destruct (TC c eq_refl) as [C1 C2]. rewrite CK in C1.
    apply in_channels_closed in IN. destruct (i_cidx _ _ I _ _ _ _ IN) as [_ CF].
    assert (CN : match lookup w (t_conn T) with Some (j', _) => j =? j' | None => false end = false).
    { destruct (lookup w (t_conn T)) as [[j' u]|] eqn:L; [|reflexivity]. destruct (Nat.eqb_spec j j') as [->|N]; [|reflexivity].
      exfalso. apply (CF _ _ L). }
    rewrite CN. apply and4; [exact CH| | |reflexivity].
    + assert (X : c <=? m = true) by (apply Nat.leb_le; lia). rewrite X. reflexivity.
    + destruct (c <? m) eqn:X; [|reflexivity]. apply Nat.ltb_lt in X.
      assert (G0 : groups_at m s' = []).
      { apply groups_at_none. eapply Forall_impl; [|exact C2]. simpl. intros; lia. }
      rewrite G0 in LM. inversion LM. reflexivity.
  - (* open *)
    apply in_channels_live in IN. destruct IN as (ei & A & O).
    assert (L := i_fal _ _ I _ _ A). assert (AB := i_abs _ _ I w). unfold absw in AB. rewrite L, O in AB. inversion AB as [[A1 A2]].
    try rewrite <- A2. rewrite Nat.eqb_refl.
    assert (EX := live_expected T st w ei j s' I A O _ L2). unfold client in EX. rewrite fold_left_app in EX.
    simpl in CP. apply and4; [exact CH| | |exact EX].
    + destruct CP as [->|(c & -> & LE)]; [reflexivity|]. assert (X : c <=? m = false) by (apply Nat.leb_gt; lia). rewrite X. reflexivity.
    + destruct CP as [->|(c & -> & LE)]; [reflexivity|]. assert (X : c <? m = false) by (apply Nat.ltb_ge; lia). rewrite X. reflexivity.
Qed.

(* ---- histories, one operation longer ---- *)

Lemma truths_from_snoc : forall a t o, truths_from t (a ++ [o]) = truths_from t a ++ [tstep (fold_left tstep a t) o].
Proof. induction a as [|x a IH]; intros t o; simpl; [reflexivity|]. rewrite IH. reflexivity. Qed.
Lemma truths_from_length : forall a t, length (truths_from t a) = length a.
Proof. induction a as [|x a IH]; intro t; simpl; [reflexivity|]. rewrite IH. reflexivity. Qed.
Lemma truth_of_snoc : forall a o, truth_of (a ++ [o]) = tstep (truth_of a) o.
Proof. intros. unfold truth_of. rewrite fold_left_app. reflexivity. Qed.

Lemma combine_app_eq : forall A B (a a' : list A) (b b' : list B), length a = length b ->
  combine (a ++ a') (b ++ b') = combine a b ++ combine a' b'.
Proof.
  induction a as [|x a IH]; intros a' b b' H; destruct b as [|y b]; simpl in *; try discriminate; [reflexivity|].
  rewrite IH by lia. reflexivity.
Qed.
Lemma joins_of_snoc : forall a o,
  joins_of (a ++ [o]) = joins_of a ++ match o with OJoin w _ => [(length a, w)] | _ => [] end.
Proof.
  intros a o. unfold joins_of. rewrite app_length. simpl length. rewrite seq_app. simpl seq.
  rewrite combine_app_eq by (rewrite seq_length; reflexivity). rewrite flat_map_app. simpl. destruct o; rewrite ?app_nil_r; reflexivity.
Qed.
Lemma tstep_njoins : forall T o, t_njoins (tstep T o) = match o with OJoin _ _ => S (t_njoins T) | _ => t_njoins T end.
Proof.
  intros T o. destruct o; try reflexivity.
  - simpl. destruct (lookup w (t_conn T)) as [[j u]|]; [destruct (Nat.eqb u uid)|]; reflexivity.
  - simpl. destruct (lookup s (t_ips T)); reflexivity.
Qed.
Lemma joins_of_length : forall ops, length (joins_of ops) = t_njoins (truth_of ops).
Proof.
  intro ops. induction ops as [|o ops IH] using rev_ind; [reflexivity|].
  rewrite joins_of_snoc, truth_of_snoc, tstep_njoins, app_length, IH. destruct o; simpl; lia.
Qed.

Lemma nth_error_app1_some : forall A (l l' : list A) n x, nth_error l n = Some x -> nth_error (l ++ l') n = Some x.
Proof.
  intros A l l' n x H. rewrite nth_error_app1; [exact H|]. apply nth_error_Some. congruence.
Qed.

(* ---- the oracle holds for every channel, by induction on the history ---- *)

Definition ChanOK (ops : list op) (st : state) : Prop :=
  forall j w cl s, In (j, (w, cl, s)) (channels st) ->
    exists k0, nth_error (joins_of ops) j = Some (k0, w) /\ k0 <= length ops /\
      forall ch, ch_w ch = w -> compat cl (ch_closed ch) (length ops) -> matches s ch (length ops) ->
        ok_chan_from j ch (skipn k0 (truths_from tinit ops)) k0 cinit = true
        /\ lin (groups s) (prev ch k0 (length ops - k0)).

Lemma chanok_step : forall ops st o st1,
  Inv (truth_of ops) st -> clk st = length ops -> TagInv st -> ChanOK ops st ->
  step st o = Some st1 -> Inv (truth_of (ops ++ [o])) (tick st1) -> TagInv (tick st1) ->
  ChanOK (ops ++ [o]) (tick st1).
Proof.
  intros ops st o st1 I CK TI CO HS I' TI' j w cl' s' H.
  change (channels (tick st1)) with (channels st1) in H.
  set (m := length ops) in *.
  assert (LEN : length (ops ++ [o]) = S m) by (rewrite app_length; simpl; unfold m; lia).
  assert (CK' : clk (tick st1) = S m) by (destruct (step_counters _ _ _ HS) as [C _]; cbn [clk tick]; rewrite C, CK; reflexivity).
  assert (H' : In (j, (w, cl', s')) (channels (tick st1))) by exact H.
  rewrite LEN, truths_from_snoc. fold (truth_of ops). rewrite <- truth_of_snoc.
  destruct (step_evolves _ _ _ HS j w cl' s' H) as [(cl & s & t & IN & E & TE & CL & TN)|(NW & J & -> & TE)].
  - (* an older channel *)
    rewrite CK in TE. destruct (CO _ _ _ _ IN) as (k0 & NE & K0 & IH).
    destruct (TI _ _ _ _ IN) as (_ & TL & _). rewrite CK in TL.
    exists k0. split; [rewrite joins_of_snoc; apply nth_error_app1_some; exact NE|]. split; [lia|].
    intros ch CW CP MA.
    assert (CP0 : compat cl (ch_closed ch) m).
    { destruct CL as [EQ|[EQ1 EQ2]].
      - rewrite EQ in CP. destruct cl as [c|]; simpl in *; [exact CP|destruct CP as [X|(c & X & LE)]; [left; exact X|right; exists c; split; [exact X|lia]]].
      - rewrite EQ2 in CP. rewrite EQ1. simpl in *. right. exists (clk st). split; [exact CP|lia]. }
    assert (MA0 : matches s ch m).
    { intros k Hk. specialize (MA k ltac:(lia)). rewrite E, groups_at_app in MA.
      rewrite (groups_at_none k t), app_nil_r in MA; [exact MA|]. eapply Forall_impl; [|exact TE]. simpl. intros; lia. }
    destruct (IH ch CW CP0 MA0) as [OK LP].
    assert (SK : skipn k0 (truths_from tinit ops ++ [truth_of (ops ++ [o])]) = skipn k0 (truths_from tinit ops) ++ [truth_of (ops ++ [o])]).
    { rewrite skipn_app, truths_from_length. fold m. replace (k0 - m) with 0 by lia. reflexivity. }
    rewrite SK, ok_chan_snoc, OK, skipn_length, truths_from_length. fold m.
    replace (k0 + (m - k0)) with m by lia. replace (S m - k0) with (S (m - k0)) by lia.
    rewrite prev_snoc. replace (k0 + (m - k0)) with m by lia.
    destruct (step_check _ _ j w cl' s' s t ch m (prev ch k0 (m - k0)) I' CK' TI' H' E TE TL LP CW CP (MA m ltac:(lia))) as [SC L2].
    rewrite SC. split; [reflexivity|exact L2].
  - (* the channel this join brought *)
    rewrite CK in TE. destruct o; try discriminate. inversion NW; subst w0.
    assert (JL : j = length (joins_of ops)) by (rewrite J, joins_of_length; apply (i_nj _ _ I)).
    exists m. split; [rewrite joins_of_snoc, JL, nth_error_app2, Nat.sub_diag by lia; reflexivity|]. split; [lia|].
    intros ch CW CP MA.
    assert (SK : skipn m (truths_from tinit ops ++ [truth_of (ops ++ [OJoin w uid])]) = [truth_of (ops ++ [OJoin w uid])]).
    { rewrite skipn_app, truths_from_length. fold m. rewrite Nat.sub_diag. rewrite skipn_all2 by (rewrite truths_from_length; fold m; lia). reflexivity. }
    rewrite SK. replace (S m - m) with 1 by lia. cbn [prev]. rewrite app_nil_r.
    destruct (step_check _ _ j w None s' [] s' ch m [] I' CK' TI' H' eq_refl TE (Forall_nil _) lin_nil CW CP (MA m ltac:(lia))) as [SC L2].
    rewrite ok_chan_cons. simpl fold_left in SC. rewrite SC. split; [reflexivity|exact L2].
Qed.

Theorem run_oracle_inv : forall ops, valid ops = true ->
  exists st, run ops = (st, None) /\ Inv (truth_of ops) st /\ clk st = length ops /\ TagInv st /\ ChanOK ops st.
Proof.
  intro ops. induction ops as [|o ops IH] using rev_ind; intro V.
  - exists init. split; [reflexivity|]. split; [apply inv_init|]. split; [reflexivity|]. split; [apply taginv_init|]. intros j w cl s [].
  - unfold valid in V. rewrite valid_from_app in V. apply andb_true_iff in V. destruct V as [V1 V2].
    destruct (IH V1) as (st & R & I & CK & TI & CO). fold (truth_of ops) in V2. simpl in V2. rewrite andb_true_r in V2.
    destruct (step_inv _ st o I V2) as (st1 & HS & I1).
    assert (I' : Inv (truth_of (ops ++ [o])) (tick st1)) by (rewrite truth_of_snoc; apply inv_tick; exact I1).
    assert (TI' := taginv_step _ _ _ TI HS).
    exists (tick st1). split; [unfold run in *; rewrite (run_from_app ops [o] init st R); simpl; rewrite HS; reflexivity|].
    split; [exact I'|]. split; [destruct (step_counters _ _ _ HS) as [C _]; cbn [clk tick]; rewrite C, CK, app_length; simpl; lia|].
    split; [exact TI'|]. eapply chanok_step; eassumption.
Qed.

(* ---- the oracle accepts whatever agrees with the model ---- *)

Lemma in_combine_seq : forall A (l : list A) a j x, In (j, x) (combine (seq a (length l)) l) -> a <= j /\ nth_error l (j - a) = Some x.
Proof.
  intros A l. induction l as [|y l IH]; simpl; intros a j x H; [destruct H|].
  destruct H as [H|H].
  - inversion H; subst. split; [lia|]. rewrite Nat.sub_diag. reflexivity.
  - destruct (IH _ _ _ H) as [LE NE]. split; [lia|]. replace (j - a) with (S (j - S a)) by lia. exact NE.
Qed.

Lemma and3 : forall a b c : bool, a = true -> b = true -> c = true -> a && b && c = true.
Proof. intros; subst; reflexivity. Qed.

Theorem model_meets_spec : forall c, valid (c_ops c) = true -> agrees c = true -> ok_case c = true.
Proof.
  intros c V A. destruct (run_oracle_inv _ V) as (st & R & I & CK & TI & CO).
  unfold agrees in A. rewrite R in A.
  apply andb_true_iff in A. destruct A as [A A4]. apply andb_true_iff in A. destruct A as [A A3].
  apply andb_true_iff in A. destruct A as [A1 A2].
  assert (PN : c_panic c = None) by (destruct (c_panic c); simpl in A1; [discriminate|reflexivity]).
  unfold done_ops in A3. rewrite PN in A3.
  unfold ok_case. rewrite V, PN. apply and3; [reflexivity|exact A3|].
  assert (JE : joins_of (c_ops c) = map (fun ch => (ch_step ch, ch_w ch)) (c_chans c)).
  { eapply list_eqb_sound; [|exact A3]. intros [a1 a2] [b1 b2] H. simpl in H. apply andb_true_iff in H. destruct H as [H1 H2].
    apply Nat.eqb_eq in H1. apply Nat.eqb_eq in H2. congruence. }
  rewrite forallb_forall in A4. apply forallb_forall. intros [j ch] Hin. specialize (A4 _ Hin). cbn [fst snd] in *.
  destruct (in_combine_seq _ _ _ _ _ Hin) as [_ NC]. rewrite Nat.sub_0_r in NC.
  unfold chan_agrees in A4. destruct (lookup j (channels st)) as [[[w cl] s]|] eqn:L; [|discriminate].
  apply andb_true_iff in A4. destruct A4 as [A4 M]. apply andb_true_iff in A4. destruct A4 as [EW EC].
  apply Nat.eqb_eq in EW. apply lookup_in in L.
  destruct (CO _ _ _ _ L) as (k0 & NE & K0 & IHc).
  rewrite JE in NE. rewrite (map_nth_error _ _ _ NC) in NE. inversion NE as [[E1 E2]].
  destruct (IHc ch (eq_sym EW)) as [OK _].
  - destruct cl as [c0|], (ch_closed ch) as [c1|]; simpl in EC; try discriminate; simpl; [apply Nat.eqb_eq in EC; congruence|left; reflexivity].
  - intros k Hk. rewrite forallb_forall in M. apply match_groups_sound, M, in_seq. lia.
  - rewrite E1. exact OK.
Qed.
