(* C31 — the invariant, part 7: operations that change one endpoint entry (leave, endpoint remove). *)
From Coq Require Import List Arith Bool Permutation Lia.
From Verif.C31 Require Import Model Spec Lemmas Views Groups GroupAdv Sync Inv Inv2 Inv3 Inv4 Inv5.
Import ListNotations.

Lemma live_ok_same_tables : forall st st' w ei,
  pols st' = pols st -> profs st' = profs st -> ipsets st' = ipsets st -> sas st' = sas st -> nss st' = nss st -> insync st' = insync st ->
  live_ok st w ei -> live_ok st' w ei.
Proof.
  intros st st' w ei H1 H2 H3 H4 H5 H6 L. apply (live_ok_tables_frame st st' w ei L); try assumption; intros; rewrite ?H1, ?H2, ?H3; reflexivity.
Qed.

Lemma live_checked : forall st w ei j s, live_ok st w ei -> e_out ei = Some (j, s) ->
  forall ms, lin (groups s) ms -> snd (apply_checked w cinit ms) = true.
Proof.
  intros st w ei j s L O ms Hl. unfold live_ok in L. rewrite O in L. destruct L as (_ & (A & _) & _).
  apply (A cinit wfc_init holds_init ms Hl).
Qed.

Definition entry_abs (o : option einfo) : option endpoint * option (nat * nat) :=
  match o with Some ei => (e_upd ei, conn_of ei) | None => (None, None) end.

Lemma single_inv : forall T T' st st' w (new : option einfo),
  Inv T st ->
  eps st' = match new with Some ei' => insert w ei' (eps st) | None => remove w (eps st) end ->
  (forall ei', new = Some ei' -> live_ok st w ei') ->
  pols st' = pols st -> profs st' = profs st -> ipsets st' = ipsets st -> sas st' = sas st -> nss st' = nss st -> insync st' = insync st ->
  t_pols T' = t_pols T -> t_profs T' = t_profs T -> t_ips T' = t_ips T -> t_sas T' = t_sas T -> t_nss T' = t_nss T -> t_insync T' = t_insync T ->
  njoins st' = t_njoins T' ->
  (forall w0, w0 <> w -> lookup w0 (t_eps T') = lookup w0 (t_eps T) /\ lookup w0 (t_conn T') = lookup w0 (t_conn T)) ->
  entry_abs new = (lookup w (t_eps T'), lookup w (t_conn T')) ->
  (forall j w0 c s, In (j, (w0, c, s)) (closed st') -> In (j, (w0, c, s)) (closed st) \/
       ((forall ms, lin (groups s) ms -> snd (apply_checked w0 cinit ms) = true) /\ cfree T' j)) ->
  WFT T' -> WFC T' -> t_njoins T <= t_njoins T' ->
  (lookup w (t_conn T') = lookup w (t_conn T) \/ lookup w (t_conn T') = None \/ exists u, lookup w (t_conn T') = Some (t_njoins T, u)) ->
  Inv T' st'.
Proof.
  intros T T' st st' w new I HE HL P1 P2 P3 P4 P5 P6 Q1 Q2 Q3 Q4 Q5 Q6 NJ HT HW HC W WC NJ2 HWc.
  constructor; try assumption; try (rewrite ?P1, ?P2, ?P3, ?P4, ?P5, ?P6, ?Q1, ?Q2, ?Q3, ?Q4, ?Q5, ?Q6; apply I).
  - intro w0. unfold absw. rewrite HE. destruct (Nat.eqb_spec w0 w) as [->|N].
    + rewrite <- HW. destruct new as [ei'|]; [rewrite lookup_insert|rewrite lookup_remove]; rewrite Nat.eqb_refl; reflexivity.
    + destruct (HT w0 N) as [A B]. rewrite A, B, <- (i_abs _ _ I w0). unfold absw.
      destruct new as [ei'|]; [rewrite lookup_insert|rewrite lookup_remove]; destruct (Nat.eqb_spec w0 w); try congruence; reflexivity.
  - rewrite HE. destruct new; [apply fal_insert|apply fal_remove]; apply (i_fal _ _ I).
  - intros w0 ei H. rewrite HE in H.
    assert (X : (exists ei', new = Some ei' /\ w0 = w /\ ei = ei') \/ In (w0, ei) (eps st)).
    { destruct new as [ei'|]; [destruct H as [H|H]; [inversion H; subst; left; exists ei; auto|]|]; right; apply in_remove in H; apply H. }
    destruct X as [(ei' & A & -> & ->)|X]; apply (live_ok_same_tables st st'); try assumption; [apply HL; exact A|apply (i_live _ _ I _ _ X)].
  - intros j w0 c s H. destruct (HC j w0 c s H) as [X|X]; [apply (i_closed _ _ I j w0 c s X)|apply X].
  - intros j w0 c s H. destruct (HC j w0 c s H) as [X|X]; [|apply X].
    destruct (i_cidx _ _ I j w0 c s X) as [C1 C2]. split; [lia|]. intros w' u L.
    destruct (Nat.eqb_spec w' w) as [->|N].
    + destruct HWc as [E|[E|[u1 E]]]; rewrite E in L; [apply (C2 _ _ L)|discriminate|inversion L; lia].
    + destruct (HT w' N) as [_ B]. rewrite B in L. apply (C2 _ _ L).
Qed.

Lemma abs_lookup : forall T st w, Inv T st -> entry_abs (lookup w (eps st)) = (lookup w (t_eps T), lookup w (t_conn T)).
Proof. intros T st w I. rewrite <- (i_abs _ _ I w). unfold absw, entry_abs, conn_of. destruct (lookup w (eps st)); reflexivity. Qed.

Lemma archive_in : forall st w ei j w0 c s, In (j, (w0, c, s)) (archive st w ei) ->
  In (j, (w0, c, s)) (closed st) \/ (w0 = w /\ e_out ei = Some (j, s)).
Proof.
  intros st w ei j w0 c s H. unfold archive in H. destruct (e_out ei) as [[j' s']|]; [|left; exact H].
  destruct H as [H|H]; [inversion H; subst; right; auto|left; exact H].
Qed.

Lemma step_leave : forall T st w uid, Inv T st -> valid_op T (OLeave w uid) = true -> step_ok T st (OLeave w uid).
Proof.
  intros T st w uid I V. unfold step_ok. assert (W := wft_step T _ (i_wft _ _ I) V).
  assert (WC := wfc_step T (OLeave w uid) (i_wfc _ _ I)).
  cbn [valid_op] in V. apply negb_true_iff, Nat.eqb_neq in V.
  assert (A := abs_lookup T st w I). cbn [step]. unfold handle_leave. cbn [tstep] in *.
  destruct (lookup w (eps st)) as [ei|] eqn:LW; cbn [entry_abs] in A.
  - assert (H := lookup_in _ _ _ _ LW). assert (L := i_live _ _ I _ _ H). inversion A as [[A1 A2]]. clear A.
    destruct (Nat.eqb_spec (e_uid ei) uid) as [EU|EU].
    + unfold live_ok in L. unfold conn_of in *. destruct (e_out ei) as [[j s]|] eqn:O; [|congruence].
      rewrite <- A2 in *. cbv beta iota in W, WC |- *. rewrite EU in *. rewrite Nat.eqb_refl in *.
      eexists. split; [reflexivity|].
      eapply (single_inv T _ st _ w (match e_upd ei with None => None | Some _ => Some (mkE None 0 (e_upd ei) (e_spol ei) (e_sprof ei) (e_sips ei)) end) I);
        try reflexivity; try (tbl I); try exact W.
      * cbn [eps]. destruct (e_upd ei); reflexivity.
      * intros ei' E. destruct (e_upd ei); inversion E; subst. reflexivity.
      * intros w0 N. cbn [t_eps t_conn]. rewrite lookup_remove. destruct (Nat.eqb_spec w0 w); [congruence|split; reflexivity].
      * cbn [t_eps t_conn]. rewrite lookup_remove, Nat.eqb_refl, <- A1. destruct (e_upd ei); reflexivity.
      * intros j0 w0 c s0 Hc. cbn [closed] in Hc. apply archive_in in Hc. destruct Hc as [Hc|[-> Hc]]; [left; exact Hc|right].
        rewrite O in Hc. inversion Hc; subst. split; [apply (live_checked st w ei j0 s0); [unfold live_ok; rewrite O; exact L|exact O]|].
        eapply (cfree_archived T w j0 _ (t_njoins T) (remove w (t_conn T)) None (i_wfc _ _ I)); [symmetry; exact A2|apply le_n| |left; reflexivity].
        intro w'. rewrite lookup_remove. reflexivity.
      * exact WC.
      * right. left. cbn [t_conn]. rewrite lookup_remove, Nat.eqb_refl. reflexivity.
    + assert (TT : (match conn_of ei with
                    | Some (_, u) => if u =? uid then mkT (t_eps T) (t_pols T) (t_profs T) (t_ips T) (t_sas T) (t_nss T) (t_insync T) (remove w (t_conn T)) (t_njoins T) else T
                    | None => T end) = T).
      { unfold conn_of. destruct (e_out ei) as [[j s]|]; [|reflexivity]. destruct (Nat.eqb_spec (e_uid ei) uid); [congruence|reflexivity]. }
      rewrite TT in *.
      destruct (e_out ei) as [[j s]|] eqn:O; [eexists; split; [reflexivity|exact I]|].
      destruct (e_uid ei) eqn:U; [|eexists; split; [reflexivity|exact I]].
      destruct (e_upd ei) eqn:UP; [eexists; split; [reflexivity|exact I]|].
      eexists. split; [reflexivity|].
      eapply (single_inv T T st _ w None I); try reflexivity; try (tbl I); try exact W.
      * intros; discriminate.
      * intros; split; reflexivity.
      * cbn [entry_abs]. rewrite <- A1, <- A2. unfold conn_of. rewrite O. reflexivity.
      * intros j0 w0 c s0 Hc. left. exact Hc.
      * apply (i_wft _ _ I).
      * apply (i_wfc _ _ I).
      * left. reflexivity.
  - inversion A as [[A1 A2]]. rewrite <- A2 in *. eexists. split; [reflexivity|exact I].
Qed.
