(* C31 — how the channel table changes in one step: every channel of the new state is a channel of the old state
   extended by groups tagged with the current operation index (possibly closed at this operation), or the channel
   the current join brought.  Purely structural (no contract needed). *)
From Coq Require Import List Arith Bool Permutation Lia.
From Verif.C31 Require Import Model Spec Lemmas Sync.
Import ListNotations.

Definition tags_eq (n : nat) (s : stream) : Prop := Forall (fun g => fst g = n) s.

Definition ext (c : nat) (ei ei' : einfo) : Prop :=
  match e_out ei with
  | Some (j, s) => exists t, e_out ei' = Some (j, s ++ t) /\ tags_eq c t
  | None => e_out ei' = None
  end.

Lemma ext_refl : forall c ei, ext c ei ei.
Proof. intros c ei. unfold ext. destruct (e_out ei) as [[j s]|]; [exists []; rewrite app_nil_r; split; [reflexivity|constructor]|reflexivity]. Qed.
Lemma ext_trans : forall c a b d, ext c a b -> ext c b d -> ext c a d.
Proof.
  intros c a b d H1 H2. unfold ext in *. destruct (e_out a) as [[j s]|].
  - destruct H1 as (t & E & T). rewrite E in H2. destruct H2 as (t2 & E2 & T2). exists (t ++ t2).
    rewrite app_assoc. split; [exact E2|apply Forall_app; split; assumption].
  - rewrite H1 in H2. exact H2.
Qed.
Lemma ext_out : forall c a b b', e_out b' = e_out b -> ext c a b -> ext c a b'.
Proof. intros c a b b' E H. unfold ext in *. rewrite E. exact H. Qed.
Lemma ext_emit : forall c g ei, ext c ei (emit c g ei).
Proof.
  intros c g [o u up a b d]. unfold ext, emit. simpl. destruct o as [[j s]|]; simpl; [|reflexivity].
  exists [(c, g)]. split; [reflexivity|repeat constructor].
Qed.
Lemma ext_emit_seq : forall c ms ei, ext c ei (emit_seq c ms ei).
Proof.
  intros c ms. induction ms as [|m ms IH]; intro ei; simpl; [apply ext_refl|].
  eapply ext_trans; [apply ext_emit|apply IH].
Qed.
Lemma ext_set_synced : forall c ei a b d, ext c ei (set_synced ei a b d).
Proof. intros. eapply ext_out; [|apply ext_refl]. reflexivity. Qed.

Lemma maybe_sync_ext : forall st w ei ei', maybe_sync st w ei = Some ei' -> ext (clk st) ei ei'.
Proof.
  intros st w ei ei' H. unfold maybe_sync in H.
  destruct (e_upd ei) as [e|]; [|inversion H; apply ext_refl].
  destruct (e_out ei) as [o|] eqn:O; [|inversion H; apply ext_refl].
  destruct (needed_ips st ei) as [newS|]; [|discriminate].
  destruct (ipset_msgs st _) as [addm|]; [|discriminate].
  destruct (sync_added (pols st) MPolUpdate _ _) as [[pm spol1]|]; [|discriminate].
  destruct (sync_added (profs st) MProfUpdate _ _) as [[fm sprof1]|]; [|discriminate].
  destruct (has_dup (e_pols ei) || has_dup (e_profs ei)); [discriminate|]. inversion H; subst. clear H.
  eapply ext_out; [reflexivity|].
  eapply ext_trans; [apply ext_emit|]. eapply ext_trans; [apply ext_emit_seq|].
  eapply ext_trans; [apply ext_emit|]. eapply ext_trans; [apply ext_emit|]. apply ext_emit.
Qed.

Lemma resync_one_ext : forall st m ei ei', resync_one st m ei = Some ei' -> ext (clk st) ei ei'.
Proof.
  intros st m ei ei' H. unfold resync_one in H.
  destruct (needed_ips st ei) as [newS|]; [|discriminate].
  destruct (ipset_msgs st _) as [addm|]; [|discriminate]. inversion H; subst. clear H.
  eapply ext_trans; [apply ext_set_synced|].
  eapply ext_trans; [apply ext_emit|]. eapply ext_trans; [apply ext_emit|]. apply ext_emit.
Qed.

Lemma map_eps_in : forall F l l', map_eps F l = Some l' ->
  forall w ei', In (w, ei') l' -> exists ei, In (w, ei) l /\ F w ei = Some ei'.
Proof.
  intros F l. induction l as [|[w0 ei0] l IH]; simpl; intros l' H w ei' Hin.
  - inversion H; subst. destruct Hin.
  - destruct (F w0 ei0) as [e1|] eqn:E; [|discriminate]. destruct (map_eps F l) as [r|]; [|discriminate].
    inversion H; subst. destruct Hin as [X|X].
    + inversion X; subst. exists ei0. split; [left; reflexivity|exact E].
    + destruct (IH _ eq_refl _ _ X) as (ei & A & B). exists ei. split; [right; exact A|exact B].
Qed.

(* ---- the evolution of the channel table ---- *)

Definition evolves (st st' : state) (neww : option id) : Prop :=
  forall j w cl' s', In (j, (w, cl', s')) (channels st') ->
    (exists cl s t, In (j, (w, cl, s)) (channels st) /\ s' = s ++ t /\ tags_eq (clk st) t
                    /\ (cl' = cl \/ (cl = None /\ cl' = Some (clk st))) /\ (cl <> None -> t = []))
    \/ (neww = Some w /\ j = njoins st /\ cl' = None /\ tags_eq (clk st) s').

Lemma in_channels_live : forall st j w s, In (j, (w, None, s)) (channels st) <-> exists ei, In (w, ei) (eps st) /\ e_out ei = Some (j, s).
Proof.
  intros st j w s. unfold channels. rewrite in_app_iff, in_flat_map. split.
  - intros [([w' ei] & H1 & H2)|H].
    + simpl in H2. destruct (e_out ei) as [[j' s']|] eqn:O; [|destruct H2]. destruct H2 as [H2|[]]. inversion H2; subst. exists ei. auto.
    + apply in_map_iff in H. destruct H as ([j' [[w' c'] s']] & E & _). inversion E.
  - intros (ei & H1 & H2). left. exists (w, ei). split; [exact H1|]. simpl. rewrite H2. left. reflexivity.
Qed.
Lemma in_channels_closed : forall st j w c s, In (j, (w, Some c, s)) (channels st) <-> In (j, (w, c, s)) (closed st).
Proof.
  intros st j w c s. unfold channels. rewrite in_app_iff, in_flat_map, in_map_iff. split.
  - intros [([w' ei] & H1 & H2)|([j' [[w' c'] s']] & E & H)].
    + simpl in H2. destruct (e_out ei) as [[j' s']|]; [|destruct H2]. destruct H2 as [H2|[]]. inversion H2.
    + inversion E; subst. exact H.
  - intro H. right. exists (j, (w, c, s)). split; [reflexivity|exact H].
Qed.

(* general shape of a step *)
Lemma evolves_general : forall st st' neww,
  (forall w ei', In (w, ei') (eps st') ->
      (exists ei, In (w, ei) (eps st) /\ ext (clk st) ei ei') \/ e_out ei' = None
      \/ (neww = Some w /\ exists t, e_out ei' = Some (njoins st, t) /\ tags_eq (clk st) t)) ->
  (forall j w c s', In (j, (w, c, s')) (closed st') ->
      In (j, (w, c, s')) (closed st)
      \/ (c = clk st /\ exists s t, s' = s ++ t /\ In (j, (w, None, s)) (channels st) /\ tags_eq (clk st) t)) ->
  evolves st st' neww.
Proof.
  intros st st' neww H1 H2 j w cl' s' H. destruct cl' as [c|].
  - apply in_channels_closed in H. destruct (H2 _ _ _ _ H) as [X|(-> & s & t & -> & X & T)].
    + left. exists (Some c), s', []. rewrite app_nil_r. split; [apply in_channels_closed; exact X|]. split; [reflexivity|].
      split; [constructor|]. split; [left; reflexivity|reflexivity].
    + left. exists None, s, t. split; [exact X|]. split; [reflexivity|]. split; [exact T|]. split; [right; auto|congruence].
  - apply in_channels_live in H. destruct H as (ei' & A & O). destruct (H1 _ _ A) as [(ei & B & E)|[E|(N & t & E & T)]].
    + unfold ext in E. destruct (e_out ei) as [[j0 s0]|] eqn:O0; [|congruence].
      destruct E as (t & E & T). rewrite O in E. inversion E; subst. left. exists None, s0, t.
      split; [apply in_channels_live; exists ei; auto|]. split; [reflexivity|]. split; [exact T|]. split; [left; reflexivity|congruence].
    + congruence.
    + rewrite O in E. inversion E; subst. right. auto.
Qed.

(* closed unchanged, every endpoint entry extended *)
Lemma evolves_ext : forall st st',
  (forall w ei', In (w, ei') (eps st') -> exists ei, In (w, ei) (eps st) /\ ext (clk st) ei ei') ->
  closed st' = closed st -> evolves st st' None.
Proof.
  intros st st' H1 H2. apply evolves_general.
  - intros w ei' H. left. apply H1, H.
  - intros j w c s' H. left. rewrite H2 in H. exact H.
Qed.

Lemma in_map_snd : forall (G : einfo -> einfo) l w ei', In (w, ei') (map (fun we : id * einfo => (fst we, G (snd we))) l) ->
  exists ei, In (w, ei) l /\ ei' = G ei.
Proof.
  intros G l w ei' H. apply in_map_iff in H. destruct H as ([a x] & E & H). simpl in E. inversion E; subst. exists x. auto.
Qed.

Lemma archive_cases : forall st w ei j w0 c s, In (w, ei) (eps st) \/ e_out ei = None -> In (j, (w0, c, s)) (archive st w ei) ->
  In (j, (w0, c, s)) (closed st) \/ (c = clk st /\ exists s1 t, s = s1 ++ t /\ In (j, (w0, None, s1)) (channels st) /\ tags_eq (clk st) t).
Proof.
  intros st w ei j w0 c s HI H. unfold archive in H. destruct (e_out ei) as [[j' s']|] eqn:O; [|left; exact H].
  destruct H as [H|H]; [|left; exact H]. inversion H; subst. right. split; [reflexivity|].
  exists s, []. rewrite app_nil_r. split; [reflexivity|]. split; [|constructor].
  apply in_channels_live. exists ei. destruct HI as [HI|HI]; [auto|congruence].
Qed.

Lemma evolves_same : forall st st', eps st' = eps st -> closed st' = closed st -> evolves st st' None.
Proof.
  intros st st' H1 H2. apply evolves_ext; [|exact H2]. intros w ei' H. rewrite H1 in H. exists ei'. split; [exact H|apply ext_refl].
Qed.
Lemma evolves_broadcast : forall st st' m, eps st' = broadcast st m -> closed st' = closed st -> evolves st st' None.
Proof.
  intros st st' m H1 H2. apply evolves_ext; [|exact H2]. intros w ei' H. rewrite H1 in H. unfold broadcast in H.
  apply in_map_snd in H. destruct H as (ei & A & ->). exists ei. split; [exact A|apply ext_emit].
Qed.
Lemma evolves_mapeps : forall st st' F x, map_eps F (eps st) = Some x ->
  (forall w ei ei', F w ei = Some ei' -> ext (clk st) ei ei') -> eps st' = x -> closed st' = closed st -> evolves st st' None.
Proof.
  intros st st' F x M HF H1 H2. apply evolves_ext; [|exact H2]. intros w ei' H. rewrite H1 in H.
  destruct (map_eps_in _ _ _ M _ _ H) as (ei & A & B). exists ei. split; [exact A|eapply HF; exact B].
Qed.

Lemma step_evolves : forall st o st', step st o = Some st' ->
  evolves st st' (match o with OJoin w _ => Some w | _ => None end).
Proof.
  intros st o st' H. destruct o; cbn [step] in H.
  - (* join *)
    unfold handle_join in H.
    set (ei := match lookup w (eps st) with Some ei => ei | None => mkE None 0 None [] [] [] end) in *.
    destruct (maybe_sync st w (mkE (Some (njoins st, [])) uid (e_upd ei) [] [] [])) as [ei2|] eqn:MS; [|discriminate].
    inversion H; subst st'. clear H.
    set (ei5 := if insync st then _ else _).
    assert (E5 : ext (clk st) (mkE (Some (njoins st, [])) uid (e_upd ei) [] [] []) ei5).
    { eapply ext_trans; [apply (maybe_sync_ext _ _ _ _ MS)|]. unfold ei5.
      destruct (insync st); [eapply ext_trans; [apply ext_emit|]; eapply ext_trans; [apply ext_emit|]; apply ext_emit
                            |eapply ext_trans; [apply ext_emit|]; apply ext_emit]. }
    apply evolves_general.
    + intros w0 ei' Hin. cbn [eps] in Hin. destruct Hin as [X|X].
      * inversion X; subst. right. right. split; [reflexivity|]. unfold ext in E5. cbn [e_out] in E5.
        destruct E5 as (t & E & T). exists t. split; [exact E|exact T].
      * apply in_remove in X. left. exists ei'. split; [apply X|apply ext_refl].
    + intros j w0 c s' Hc. cbn [closed] in Hc. apply (archive_cases st w ei); [|exact Hc].
      unfold ei. destruct (lookup w (eps st)) eqn:L; [left; apply lookup_in; exact L|right; reflexivity].
  - (* leave *)
    unfold handle_leave in H. destruct (lookup w (eps st)) as [ei|] eqn:L; [|inversion H; subst; apply evolves_same; reflexivity].
    destruct (Nat.eqb (e_uid ei) uid).
    + destruct (e_out ei) as [o|] eqn:O; [|discriminate]. inversion H; subst st'. clear H. apply evolves_general.
      * intros w0 ei' Hin. cbn [eps] in Hin. destruct (e_upd ei).
        -- destruct Hin as [X|X]; [inversion X; subst; right; left; reflexivity|].
           apply in_remove in X. left. exists ei'. split; [apply X|apply ext_refl].
        -- apply in_remove in Hin. left. exists ei'. split; [apply Hin|apply ext_refl].
      * intros j w0 c s' Hc. cbn [closed] in Hc. apply (archive_cases st w ei); [left; apply lookup_in; exact L|exact Hc].
    + assert (X : st' = st \/ st' = set_eps st (remove w (eps st))).
      { destruct (e_out ei); [left; congruence|]. destruct (e_uid ei); [|left; congruence]. destruct (e_upd ei); [left; congruence|right; congruence]. }
      destruct X as [->| ->]; [apply evolves_same; reflexivity|].
      apply evolves_ext; [|reflexivity]. intros w0 ei' Hin. cbn [eps set_eps] in Hin. apply in_remove in Hin.
      exists ei'. split; [apply Hin|apply ext_refl].
  - (* in sync *)
    destruct (insync st); inversion H; subst; [apply evolves_same; reflexivity|eapply evolves_broadcast; reflexivity].
  - (* endpoint update *)
    unfold handle_wep_update in H.
    destruct (maybe_sync st w _) as [ei'|] eqn:MS; [|discriminate]. inversion H; subst st'. clear H.
    apply maybe_sync_ext in MS. apply evolves_general.
    + intros w0 ei2 Hin. cbn [eps set_eps] in Hin. destruct Hin as [X|X].
      * inversion X; subst. destruct (lookup w0 (eps st)) as [ei|] eqn:L.
        -- left. exists ei. split; [apply lookup_in; exact L|]. eapply ext_trans; [|exact MS]. eapply ext_out; [|apply ext_refl]. reflexivity.
        -- right. left. unfold ext in MS. cbn [e_out] in MS. exact MS.
      * apply in_remove in X. left. exists ei2. split; [apply X|apply ext_refl].
    + intros j w0 c s' Hc. left. exact Hc.
  - (* endpoint remove *)
    unfold handle_wep_remove in H. destruct (lookup w (eps st)) as [ei|] eqn:L; [|discriminate]. inversion H; subst st'. clear H.
    apply evolves_general.
    + intros w0 ei' Hin. cbn [eps] in Hin. apply in_remove in Hin. left. exists ei'. split; [apply Hin|apply ext_refl].
    + intros j w0 c s' Hc. cbn [closed] in Hc. unfold archive, emit in Hc. destruct (e_out ei) as [[j' s0]|] eqn:O; [|left; rewrite O in Hc; exact Hc].
      cbn [e_out set_out] in Hc. destruct Hc as [Hc|Hc]; [|left; exact Hc]. inversion Hc; subst. right. split; [reflexivity|].
      exists s0, [(clk st, [MWepRemove w0])]. split; [reflexivity|]. split; [|repeat constructor].
      apply in_channels_live. exists ei. split; [apply lookup_in; exact L|exact O].
  - (* policy update *)
    unfold handle_pol_update in H. destruct (map_eps _ (eps st)) as [x|] eqn:M; [|discriminate]. inversion H; subst st'. clear H.
    eapply (evolves_mapeps st _ _ x M); try reflexivity. intros w ei ei' HF.
    destruct (live ei && mem p (e_pols ei)); [|inversion HF; apply ext_refl].
    destruct (resync_one _ _ ei) as [e1|] eqn:R; [|discriminate]. inversion HF; subst.
    eapply ext_out; [|apply (resync_one_ext _ _ _ _ R)]. reflexivity.
  - inversion H; subst. apply evolves_same; reflexivity.
  - (* profile update *)
    unfold handle_prof_update in H. destruct (map_eps _ (eps st)) as [x|] eqn:M; [|discriminate]. inversion H; subst st'. clear H.
    eapply (evolves_mapeps st _ _ x M); try reflexivity. intros w ei ei' HF.
    destruct (live ei && mem p (e_profs ei)); [|inversion HF; apply ext_refl].
    destruct (resync_one _ _ ei) as [e1|] eqn:R; [|discriminate]. inversion HF; subst.
    eapply ext_out; [|apply (resync_one_ext _ _ _ _ R)]. reflexivity.
  - inversion H; subst. apply evolves_same; reflexivity.
  - (* ipset update *)
    unfold handle_ipset_update in H. destruct (lookup s (ipsets st)); [|inversion H; subst; apply evolves_same; reflexivity].
    destruct (map_eps _ (eps st)) as [x|] eqn:M; [|discriminate]. inversion H; subst st'. clear H.
    eapply (evolves_mapeps st _ _ x M); try reflexivity. intros w ei ei' HF.
    destruct (live ei); [|inversion HF; apply ext_refl].
    destruct (references_ipset st ei s) as [[|]|]; [| |discriminate]; inversion HF; subst; [|apply ext_refl].
    eapply ext_trans; [apply ext_set_synced|apply ext_emit].
  - (* ipset delta *)
    unfold handle_ipset_delta in H.
    destruct (match lookup s (ipsets st) with Some _ => _ | None => _ end) as [ips1|]; [|discriminate].
    destruct (map_eps _ (eps st)) as [x|] eqn:M; [|discriminate]. inversion H; subst st'. clear H.
    eapply (evolves_mapeps st _ _ x M); try reflexivity. intros w ei ei' HF.
    destruct (live ei); [|inversion HF; apply ext_refl].
    destruct (references_ipset st ei s) as [[|]|]; [| |discriminate]; inversion HF; subst; [apply ext_emit|apply ext_refl].
  - inversion H; subst. apply evolves_same; reflexivity.
  - inversion H; subst. eapply evolves_broadcast; reflexivity.
  - inversion H; subst. eapply evolves_broadcast; reflexivity.
  - inversion H; subst. eapply evolves_broadcast; reflexivity.
  - inversion H; subst. eapply evolves_broadcast; reflexivity.
Qed.

Lemma step_counters : forall st o st', step st o = Some st' ->
  clk st' = clk st /\ njoins st' = match o with OJoin _ _ => S (njoins st) | _ => njoins st end.
Proof.
  intros st o st' H. destruct o; cbn [step] in H.
  - unfold handle_join in H. destruct (maybe_sync _ _ _); inversion H; subst; split; reflexivity.
  - unfold handle_leave in H. destruct (lookup w (eps st)) as [ei|]; [|inversion H; subst; split; reflexivity].
    destruct (Nat.eqb (e_uid ei) uid).
    + destruct (e_out ei); inversion H; subst; split; reflexivity.
    + destruct (e_out ei); [inversion H; subst; split; reflexivity|]. destruct (e_uid ei); [|inversion H; subst; split; reflexivity].
      destruct (e_upd ei); inversion H; subst; split; reflexivity.
  - destruct (insync st); inversion H; subst; split; reflexivity.
  - unfold handle_wep_update in H. destruct (maybe_sync _ _ _); inversion H; subst; split; reflexivity.
  - unfold handle_wep_remove in H. destruct (lookup w (eps st)); inversion H; subst; split; reflexivity.
  - unfold handle_pol_update in H. destruct (map_eps _ _); inversion H; subst; split; reflexivity.
  - inversion H; subst; split; reflexivity.
  - unfold handle_prof_update in H. destruct (map_eps _ _); inversion H; subst; split; reflexivity.
  - inversion H; subst; split; reflexivity.
  - unfold handle_ipset_update in H. destruct (lookup s (ipsets st)); [destruct (map_eps _ _)|]; inversion H; subst; split; reflexivity.
  - unfold handle_ipset_delta in H. destruct (match lookup s (ipsets st) with Some _ => _ | None => _ end); [|discriminate].
    destruct (map_eps _ _); inversion H; subst; split; reflexivity.
  - inversion H; subst; split; reflexivity.
  - inversion H; subst; split; reflexivity.
  - inversion H; subst; split; reflexivity.
  - inversion H; subst; split; reflexivity.
  - inversion H; subst; split; reflexivity.
Qed.
