(* C31 — property theorems only.  [run] is the model of the Processor (Model.v); [truth_of] the latest version of
   everything and who is connected (Spec.v); [valid] the calculation graph's contract; [lin (groups s) ms] says that
   [ms] is one of the orders in which the Go code may put the stream [s] on the channel (map iterations are free);
   [client ms] is what a policy-sync client holds after applying [ms] in order. *)
From Coq Require Import List Arith Bool Permutation.
From Verif.C31 Require Import Model Spec ListedOnce Proofs Final Final2 Oracle2 Split SplitProofs Chunked DeltaOk ChunkedFinal.
Import ListNotations.

(* The Processor never panics on a history the calculation graph can produce. *)
Theorem c31_valid_no_panic : forall ops, valid ops = true -> snd (run ops) = None.
Proof. exact no_panic. Qed.
Print Assumptions c31_valid_no_panic.

(* After ANY valid history, for EVERY connected workload and EVERY admissible order of its stream: the client holds
   exactly its own endpoint at its latest version, exactly the policies and profiles that endpoint lists, exactly the
   IP sets those mention, all at their latest versions, every service account and namespace at its latest version, and
   the in-sync flag ([expected], Spec.v: complete AND minimal). *)
Theorem c31_complete_latest : forall ops w j uid, valid ops = true ->
  lookup w (t_conn (truth_of ops)) = Some (j, uid) ->
  exists ei s, lookup w (eps (fst (run ops))) = Some ei /\ e_out ei = Some (j, s) /\
    forall ms, lin (groups s) ms -> expected (truth_of ops) w (client ms) = true.
Proof. exact complete_latest. Qed.
Print Assumptions c31_complete_latest.

(* For every channel ever handed to the Processor (open or closed) and every admissible order: after EVERY single
   message the client is referentially closed ([ri]): the policies/profiles its endpoint lists are held, the IP sets
   the held policies/profiles mention are held - so IP sets come before their users, policies/profiles before the
   endpoint, and removals only once nothing held refers to the removed thing; endpoint messages carry the own id. *)
Theorem c31_refs_before_use : forall ops, valid ops = true ->
  forall j w c s, In (j, (w, c, s)) (channels (fst (run ops))) ->
  forall ms, lin (groups s) ms -> snd (apply_checked w cinit ms) = true.
Proof. exact refs_before_use. Qed.
Print Assumptions c31_refs_before_use.

(* A leave with the current join UID closes the workload's channel at that operation; the closed channel keeps exactly
   that content whatever follows, and right after the leave the workload has no open channel.  (A later join gets a
   new channel index, and c31_complete_latest says that new stream alone is complete.) *)
Theorem c31_nothing_after_leave : forall ops more w j uid, valid (ops ++ OLeave w uid :: more) = true ->
  lookup w (t_conn (truth_of ops)) = Some (j, uid) ->
  let st := fst (run (ops ++ [OLeave w uid])) in
  let st' := fst (run (ops ++ OLeave w uid :: more)) in
  (exists c s, In (j, (w, c, s)) (closed st) /\ In (j, (w, c, s)) (closed st'))
  /\ (forall ei, lookup w (eps st) = Some ei -> e_out ei = None).
Proof. exact after_leave. Qed.
Print Assumptions c31_nothing_after_leave.

(* Whatever the Processor closed (leave, re-join over a live connection, endpoint removed) is never written again. *)
Theorem c31_closed_channel_frozen : forall st o st', step st o = Some st' ->
  forall x, In x (closed st) -> In x (closed st').
Proof. exact step_closed_mono. Qed.
Print Assumptions c31_closed_channel_frozen.

(* A workload only ever receives endpoint messages for itself, and holds no policy, profile or IP set beyond what
   its endpoint needs ("minimal" exactly as the code achieves it: the needed set is that of the CURRENT endpoint). *)
Theorem c31_only_own_endpoint : forall ops w j uid, valid ops = true ->
  lookup w (t_conn (truth_of ops)) = Some (j, uid) ->
  exists ei s, lookup w (eps (fst (run ops))) = Some ei /\ e_out ei = Some (j, s) /\
    forall ms, lin (groups s) ms ->
      Forall (fun m => own w m = true) ms
      /\ (forall p, lookup p (c_pol (client ms)) <> None -> In p (t_needed_pols (truth_of ops) w))
      /\ (forall p, lookup p (c_prof (client ms)) <> None -> In p (t_needed_profs (truth_of ops) w))
      /\ (forall s', lookup s' (c_ips (client ms)) <> None -> In s' (t_needed_ips (truth_of ops) w)).
Proof. exact only_own. Qed.
Print Assumptions c31_only_own_endpoint.

(* The statements above hold at every moment of a history, not only at its end: every prefix of a valid history is valid. *)
Theorem c31_every_prefix : forall ops more, valid (ops ++ more) = true -> valid ops = true.
Proof. exact valid_prefix. Qed.
Print Assumptions c31_every_prefix.

(* The specification oracle the correspondence run applies to the real Processor's output (Spec.ok_case: at every
   operation, for every channel: referential integrity after every message, closed exactly when the workload left /
   re-joined / was removed, nothing after the close, client = expected while connected) accepts EVERY observation that
   agrees with the model on a valid history - for every admissible order inside the groups ([agrees] compares group
   by group up to order). *)
Theorem c31_model_meets_spec : forall c, valid (c_ops c) = true -> agrees c = true -> ok_case c = true.
Proof. exact model_meets_spec. Qed.
Print Assumptions c31_model_meets_spec.

(* The contract's "an endpoint lists a policy once" is the readable condition Spec.listed_once (the tiers' policy sets
   are pairwise disjoint and no tier repeats a policy in its ingress list - what the calculation graph guarantees, see
   c03_grouped_by_tier); it implies that iteratePolicies visits no policy twice, which is what the Processor needs. *)
Theorem c31_listed_once_visits_once : forall e, listed_once e = true -> has_dup (ep_pols e) = false.
Proof. exact listed_once_nodup. Qed.
Print Assumptions c31_listed_once_visits_once.

(* IP set messages above MaxMembersPerMessage (splitMembers / splitIPSetUpdate / splitIPSetDeltaUpdate, Split.v; tied to
   the real functions by the correspondence run on lists around 82200 members).  For EVERY chunk size n >= 1: applying
   the split messages in order gives the client exactly the set the unsplit message would give, and every message fits.
   The delta theorem needs: no member is both added and removed by one delta (the calculation graph coalesces deltas
   that way); without it a removal chunk sent before a later addition chunk would be overridden. *)
Theorem c31_split_update_complete : forall n s l cur, 1 <= n ->
  Forall (fits n) (split_update n s l) /\
  exists m', fold_left sapply (split_update n s l) cur = Some m' /\ forall x, In x m' <-> In x l.
Proof. exact split_update_complete. Qed.
Print Assumptions c31_split_update_complete.

Theorem c31_split_delta_complete : forall n s added removed m0, 1 <= n ->
  (forall x, In x added -> ~ In x removed) ->
  Forall (fits n) (split_delta n s added removed) /\
  exists m', fold_left sapply (split_delta n s added removed) (Some m0) = Some m'
    /\ forall x, In x m' <-> In x (members_delta m0 added removed).
Proof. exact split_delta_complete. Qed.
Print Assumptions c31_split_delta_complete.

(* Chunked IP set messages INSIDE the stream theorems.  A chunked stream ([linb n], Chunked.v) is a model stream in
   which every IPSetUpdate is replaced by the chunks splitIPSetUpdate makes of its members listed in ANY order (the
   Processor lists them in Go map order) and every IPSetDeltaUpdate by the chunks of splitIPSetDeltaUpdate; inside an
   unordered group whole blocks may be permuted, chunks of a block stay together and in order.  For every chunk size
   n >= 1 (so also n = 82200), on histories whose deltas never add and remove the same member ([op_ok]):
   referential integrity and own-endpoint hold after EVERY SINGLE CHUNK, and a connected workload's client is what the
   specification expects, the member lists being equal as sets ([ceq]). *)
Theorem c31_chunked_refs_before_use : forall ops n, valid ops = true -> Forall op_ok ops -> 1 <= n ->
  forall j w c s, In (j, (w, c, s)) (channels (fst (run ops))) ->
  forall msb, linb n (groups s) msb -> snd (apply_checked w cinit msb) = true.
Proof. exact chunked_refs_before_use. Qed.
Print Assumptions c31_chunked_refs_before_use.

Theorem c31_chunked_complete_latest : forall ops w j uid, valid ops = true -> Forall op_ok ops ->
  lookup w (t_conn (truth_of ops)) = Some (j, uid) ->
  exists ei s, lookup w (eps (fst (run ops))) = Some ei /\ e_out ei = Some (j, s) /\
    forall n msb, 1 <= n -> linb n (groups s) msb ->
      exists cs0, expected (truth_of ops) w cs0 = true /\ ceq (client msb) cs0.
Proof. exact chunked_complete_latest. Qed.
Print Assumptions c31_chunked_complete_latest.

(* Non-vacuity: a valid history with IP sets, a policy, a profile, two workloads, a re-join and a leave; workload 0
   is connected on its second channel, whose stream has unordered groups with more than one message. *)
Definition ex_rules (v : nat) (a b : list id) : rules := mkRules v [[a; []; []; []; []; []; []; []; b]] [].
Definition ex_ops : list op :=
  [ OIPSetUpdate 0 [3; 1]; OIPSetUpdate 1 [2]; OIPSetUpdate 2 [5];
    OPolUpdate 0 (ex_rules 1 [0] [1]); OProfUpdate 0 (ex_rules 2 [2] []);
    OSAUpdate 0 3; ONSUpdate 0 4; OJoin 0 1;
    OWepUpdate 0 (mkEp 5 [mkTier [0] [0]] [0]); OWepUpdate 1 (mkEp 6 [] [0]);
    OJoin 1 2; OInSync; OJoin 0 3; OPolUpdate 0 (ex_rules 7 [1] []); OIPSetDelta 1 [4] [2];
    OLeave 1 2; OWepUpdate 0 (mkEp 8 [] []) ].
Example c31_example :
  valid ex_ops = true
  /\ lookup 0 (t_conn (truth_of ex_ops)) = Some (2, 3)
  /\ snd (run ex_ops) = None
  /\ existsb (fun jc => existsb (fun g => Nat.ltb 1 (length (snd g))) (snd (snd jc))) (channels (fst (run ex_ops))) = true
  /\ length (channels (fst (run ex_ops))) = 3.
Proof. vm_compute. repeat split. Qed.

(* Non-vacuity of c31_model_meets_spec: the observation that sends every group in the model's own order agrees. *)
Definition canon_case (ops : list op) : case :=
  let st := fst (run ops) in
  mkCase ops (snd (run ops))
    (map (fun jw => match lookup (fst jw) (channels st) with
                    | Some (_, cl, s) => mkCh (fst (snd jw)) (snd (snd jw)) cl
                                              (map (fun k => (k, concat (groups_at k s))) (seq 0 (length ops)))
                    | None => mkCh (fst (snd jw)) (snd (snd jw)) None []
                    end)
         (combine (seq 0 (length (joins_of ops))) (joins_of ops))).
Example c31_example_agrees : check_case (canon_case ex_ops) = (true, true).
Proof. vm_compute. reflexivity. Qed.

(* Non-vacuity of the split theorems: chunk size 2. *)
Example c31_example_split :
  split_update 2 0 [1; 2; 3; 4; 5] = [MIPSetUpdate 0 [1; 2]; MIPSetDelta 0 [3; 4] []; MIPSetDelta 0 [5] []]
  /\ split_delta 2 0 [1; 2; 3] [7; 8; 9] = [MIPSetDelta 0 [1; 2] []; MIPSetDelta 0 [3] [9]; MIPSetDelta 0 [] [7; 8]].
Proof. vm_compute. split; reflexivity. Qed.

(* Non-vacuity of the chunked theorems: with chunk size 2 the update of a three-member set (members listed in another
   order) is a block of two messages. *)
Example c31_example_chunked :
  linb 2 [[MIPSetUpdate 0 [1; 2; 3]]] [MIPSetUpdate 0 [3; 1]; MIPSetDelta 0 [2] []].
Proof.
  assert (SE : seteq [3; 1; 2] [1; 2; 3]) by (intro x; simpl; tauto).
  exact (linb_cons 2 _ _ [split_update 2 0 [3; 1; 2]] _ [] (Forall2_cons _ _ (blk_upd 2 0 _ _ SE) (Forall2_nil _)) (Permutation_refl _) (linb_nil 2)).
Qed.

(* Minimality with a policy listed in BOTH directions: endpoint 0 first lists policy 0 (ingress and egress) and
   policy 1, then only policy 0 (still both directions); the history is valid, policy 1 is removed from the stream,
   policy 0 is not, and the client holds exactly policy 0 (c31_complete_latest / c31_only_own_endpoint apply). *)
Definition canon_chan (ops : list op) (j : nat) : nat * (id * option nat * stream) :=
  match lookup j (channels (fst (run ops))) with Some x => (j, x) | None => (j, (0, None, [])) end.
Definition ex_both : list op :=
  [ OPolUpdate 0 (mkRules 1 [] []); OPolUpdate 1 (mkRules 2 [] []);
    OWepUpdate 0 (mkEp 3 [mkTier [0; 1] [0]] []); OJoin 0 1; OWepUpdate 0 (mkEp 4 [mkTier [0] [0]] []) ].
Example c31_example_both_directions :
  valid ex_both = true
  /\ listed_once (mkEp 3 [mkTier [0; 1] [0]] []) = true
  /\ map (fun kv => fst kv) (c_pol (client (concat (groups (snd (snd (canon_chan ex_both 0))))))) = [0].
Proof. vm_compute. repeat split. Qed.
