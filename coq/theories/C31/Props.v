(* C31 — property theorems only. *)
From Coq Require Import List Arith Bool Permutation.
From Verif.C31 Require Import Model Spec Proofs.
Import ListNotations.

(* Once the Processor has closed a channel (leave, re-join, endpoint removed), its content never changes. *)
Theorem c31_closed_channel_frozen : forall st o st', step st o = Some st' ->
  forall x, In x (closed st) -> In x (closed st').
Proof. exact step_closed_mono. Qed.
Print Assumptions c31_closed_channel_frozen.
