(* C31 — the stream theorems for chunked IP set messages (any chunk size n >= 1). *)
From Coq Require Import List Arith Bool Permutation Lia.
From Verif.C31 Require Import Model Spec Lemmas Views Sync Inv Inv2 Proofs Final Final2 Trace Split SplitProofs Chunked DeltaOk.
Import ListNotations.

Lemma stream_delta_ok : forall ops, Forall op_ok ops ->
  forall j w cl s, In (j, (w, cl, s)) (channels (fst (run ops))) -> Forall (Forall delta_ok) (groups s).
Proof.
  intros ops F j w cl s H. unfold run in H. destruct (run_from init ops) as [st r] eqn:R. simpl in H.
  assert (MI : MsgInv st) by (eapply run_msginv; [exact F|exact R|intros ? ? ? ? []]).
  specialize (MI _ _ _ _ H). unfold groups. apply Forall_forall. intros g Hg. apply in_map_iff in Hg. destruct Hg as (x & <- & Hx).
  unfold gok in MI. rewrite Forall_forall in MI. apply MI, Hx.
Qed.

Theorem chunked_refs_before_use : forall ops n, valid ops = true -> Forall op_ok ops -> 1 <= n ->
  forall j w c s, In (j, (w, c, s)) (channels (fst (run ops))) ->
  forall msb, linb n (groups s) msb -> snd (apply_checked w cinit msb) = true.
Proof.
  intros ops n V F N j w c s H msb L.
  destruct (chunked_sim n w _ _ N L (stream_delta_ok ops F j w c s H)) as (ms & LM & SIM).
  apply (SIM cinit cinit (ceq_refl cinit)). apply (refs_before_use ops V j w c s H ms LM).
Qed.

Theorem chunked_complete_latest : forall ops w j uid, valid ops = true -> Forall op_ok ops ->
  lookup w (t_conn (truth_of ops)) = Some (j, uid) ->
  exists ei s, lookup w (eps (fst (run ops))) = Some ei /\ e_out ei = Some (j, s) /\
    forall n msb, 1 <= n -> linb n (groups s) msb ->
      exists cs0, expected (truth_of ops) w cs0 = true /\ ceq (client msb) cs0.
Proof.
  intros ops w j uid V F C. destruct (complete_latest ops w j uid V C) as (ei & s & L & O & E).
  exists ei, s. split; [exact L|]. split; [exact O|]. intros n msb N LB.
  assert (IN : In (j, (w, None, s)) (channels (fst (run ops)))).
  { apply in_channels_live. exists ei. split; [apply lookup_in; exact L|exact O]. }
  destruct (chunked_sim n w _ _ N LB (stream_delta_ok ops F j w None s IN)) as (ms & LM & SIM).
  exists (client ms). split; [apply E, LM|].
  apply (SIM cinit cinit (ceq_refl cinit)). apply (refs_before_use ops V j w None s IN ms LM).
Qed.
