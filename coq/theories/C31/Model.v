(* C31 — executable model of felix/policysync/processor.go (Processor) with the helper types of
   policy.go / profile.go / ipset.go.  Definitions only.

   Go maps are association lists read only through [lookup]; the per-join output channel is the list of
   message GROUPS sent so far.  A group is a set of messages whose relative order is decided by a Go map
   iteration (`for ipset := range newS`, `for polID := range oldSyncedPolicies`, `for _, update := range
   p.serviceAccountByID`): the model fixes no order inside a group, every statement about a stream
   quantifies over all linearisations (Spec.lin).  Messages sent one by one are singleton groups.
   The order in which `updateableEndpoints()` lists the endpoints only interleaves different streams; each
   handler below treats the endpoints independently, so it does not appear.

   A Go panic (nil map entry dereferenced, the explicit Panic calls, close of a nil channel) is [None].

   Not modelled: splitting of IP set messages with more than MaxMembersPerMessage = 82200 members (all
   members lists are assumed shorter, so splitIPSetUpdate/splitIPSetDeltaUpdate return one message);
   IP set types other than the three known ones (newIPSet panics); log output. *)
From Coq Require Import List Arith Bool.
Import ListNotations.

Definition id := nat.

(* ---- payloads ---------------------------------------------------------------------------------- *)

(* proto.Rule restricted to the nine IP-set-id fields, in the order AddIPSetsRule reads them:
   SrcIpSetIds, DstIpSetIds, DstIpPortSetIds, SrcNamedPortIpSetIds, DstNamedPortIpSetIds,
   NotSrcIpSetIds, NotDstIpSetIds, NotSrcNamedPortIpSetIds, NotDstNamedPortIpSetIds *)
Definition rule := list (list id).
Definition rule_refs (r : rule) : list id := concat r.

(* proto.Policy / proto.Profile: a version tag + inbound and outbound rules *)
Record rules := mkRules { rl_ver : nat; rl_in : list rule; rl_out : list rule }.
(* policyInfo.computeRefs / profileInfo.computeRefs = addIPSetsRuleList *)
Definition refs (r : rules) : list id := flat_map rule_refs (rl_in r) ++ flat_map rule_refs (rl_out r).

Record tier := mkTier { t_in : list id; t_out : list id }.
Record endpoint := mkEp { ep_ver : nat; ep_tiers : list tier; ep_profiles : list id }.

Inductive msg :=
| MInSync
| MWepUpdate (w : id) (e : endpoint)
| MWepRemove (w : id)
| MPolUpdate (p : id) (r : rules)
| MPolRemove (p : id)
| MProfUpdate (p : id) (r : rules)
| MProfRemove (p : id)
| MIPSetUpdate (s : id) (members : list nat)      (* members as a set: strictly ascending *)
| MIPSetDelta (s : id) (add rem : list nat)
| MIPSetRemove (s : id)
| MSAUpdate (a : id) (ver : nat)
| MSARemove (a : id)
| MNSUpdate (n : id) (ver : nat)
| MNSRemove (n : id).

Inductive op :=
| OJoin (w uid : nat)
| OLeave (w uid : nat)
| OInSync
| OWepUpdate (w : id) (e : endpoint)
| OWepRemove (w : id)
| OPolUpdate (p : id) (r : rules)
| OPolRemove (p : id)
| OProfUpdate (p : id) (r : rules)
| OProfRemove (p : id)
| OIPSetUpdate (s : id) (members : list nat)
| OIPSetDelta (s : id) (add rem : list nat)
| OIPSetRemove (s : id)
| OSAUpdate (a : id) (ver : nat)
| OSARemove (a : id)
| ONSUpdate (n : id) (ver : nat)
| ONSRemove (n : id).

(* ---- finite maps and sets ------------------------------------------------------------------------ *)

Fixpoint lookup {V} (k : id) (l : list (id * V)) : option V :=
  match l with
  | [] => None
  | (k', v) :: r => if Nat.eqb k k' then Some v else lookup k r
  end.
Definition remove {V} (k : id) (l : list (id * V)) : list (id * V) :=
  filter (fun kv => negb (Nat.eqb k (fst kv))) l.
Definition insert {V} (k : id) (v : V) (l : list (id * V)) : list (id * V) := (k, v) :: remove k l.

Definition mem (k : nat) (l : list nat) : bool := existsb (Nat.eqb k) l.
Definition set_add (k : nat) (l : list nat) : list nat := if mem k l then l else k :: l.
Fixpoint dedup (l : list nat) : list nat :=
  match l with [] => [] | x :: r => if mem x r then dedup r else x :: dedup r end.
Fixpoint has_dup (l : list nat) : bool :=
  match l with [] => false | x :: r => mem x r || has_dup r end.

(* IP set members: strictly ascending lists *)
Fixpoint mins (x : nat) (l : list nat) : list nat :=
  match l with
  | [] => [x]
  | y :: r => if x <? y then x :: l else if x =? y then l else y :: mins x r
  end.
Definition canon (l : list nat) : list nat := fold_right mins [] l.
Definition members_delta (m add rem : list nat) : list nat :=
  filter (fun x => negb (mem x rem)) (fold_right mins m add).

(* ---- EndpointInfo.iteratePolicies / iterateProfiles ------------------------------------------- *)

(* egress loop of one tier: visit the ids not yet seen *)
Fixpoint iter_egress (seen : list id) (eg : list id) : list id * list id :=
  match eg with
  | [] => ([], seen)
  | p :: r => if mem p seen then iter_egress seen r
              else let '(v, s') := iter_egress (p :: seen) r in (p :: v, s')
  end.
(* ingress ids are visited without looking at [seen] ("we trust Calc graph to only list a policy once per tier") *)
Fixpoint iter_tiers (seen : list id) (ts : list tier) : list id :=
  match ts with
  | [] => []
  | t :: r => let '(v, seen2) := iter_egress (rev (t_in t) ++ seen) (t_out t) in
              t_in t ++ v ++ iter_tiers seen2 r
  end.
Definition ep_pols (e : endpoint) : list id := iter_tiers [] (ep_tiers e).

(* ---- state ---------------------------------------------------------------------------------------- *)

(* a stream: groups tagged with the index of the operation that sent them *)
Definition stream := list (nat * list msg).

Record einfo := mkE {
  e_out : option (nat * stream);     (* output channel: index of the join that brought it + what was sent *)
  e_uid : nat;                       (* currentJoinUID *)
  e_upd : option endpoint;           (* endpointUpd *)
  e_spol : list id;                  (* syncedPolicies *)
  e_sprof : list id;                 (* syncedProfiles *)
  e_sips : list id }.                (* syncedIPSets *)

Record state := mkS {
  eps : list (id * einfo);           (* endpointsByID *)
  pols : list (id * rules);          (* policyByID (refs are recomputed from the payload) *)
  profs : list (id * rules);         (* profileByID *)
  sas : list (id * nat);             (* serviceAccountByID *)
  nss : list (id * nat);             (* namespaceByID *)
  ipsets : list (id * list nat);     (* ipSetsByID: canonical members *)
  insync : bool;                     (* receivedInSync *)
  closed : list (nat * (id * nat * stream));  (* channels the processor closed: join index, (workload, closing op, content) *)
  njoins : nat;
  clk : nat }.                       (* index of the operation being processed *)

Definition init : state := mkS [] [] [] [] [] [] false [] 0 0.

Definition e_pols (ei : einfo) : list id := match e_upd ei with Some e => ep_pols e | None => [] end.
Definition e_profs (ei : einfo) : list id := match e_upd ei with Some e => ep_profiles e | None => [] end.

Definition set_out (ei : einfo) (o : option (nat * stream)) : einfo :=
  mkE o (e_uid ei) (e_upd ei) (e_spol ei) (e_sprof ei) (e_sips ei).
Definition set_synced (ei : einfo) (sp sf si : list id) : einfo :=
  mkE (e_out ei) (e_uid ei) (e_upd ei) sp sf si.

(* ei.output <- each message of the group, in some order *)
Definition emit (c : nat) (g : list msg) (ei : einfo) : einfo :=
  match e_out ei with
  | Some (j, s) => set_out ei (Some (j, s ++ [(c, g)]))
  | None => ei
  end.
(* messages sent one after the other *)
Fixpoint emit_seq (c : nat) (ms : list msg) (ei : einfo) : einfo :=
  match ms with [] => ei | m :: r => emit_seq c r (emit c [m] ei) end.

Definition live (ei : einfo) : bool := match e_out ei with Some _ => true | None => false end.

(* ---- reference computation ----------------------------------------------------------------------- *)

(* union of the refs of the listed policies/profiles; None = a listed id is not in the table (nil deref) *)
Fixpoint refs_of_all (tbl : list (id * rules)) (ids : list id) : option (list id) :=
  match ids with
  | [] => Some []
  | i :: r => match lookup i tbl with
              | None => None
              | Some pl => match refs_of_all tbl r with None => None | Some x => Some (refs pl ++ x) end
              end
  end.

(* first half of getIPSetsSync: the set newS *)
Definition needed_ips (st : state) (ei : einfo) : option (list id) :=
  match refs_of_all (profs st) (e_profs ei), refs_of_all (pols st) (e_pols ei) with
  | Some a, Some b => Some (dedup (a ++ b))
  | _, _ => None
  end.

(* sendIPSetUpdate for each id *)
Fixpoint ipset_msgs (st : state) (ids : list id) : option (list msg) :=
  match ids with
  | [] => Some []
  | s :: r => match lookup s (ipsets st) with
              | None => None
              | Some m => match ipset_msgs st r with None => None | Some x => Some (MIPSetUpdate s m :: x) end
              end
  end.

(* referencesIPSet on a list of ids with early exit; None = nil deref before a hit *)
Fixpoint refs_any (tbl : list (id * rules)) (ids : list id) (s : id) : option bool :=
  match ids with
  | [] => Some false
  | i :: r => match lookup i tbl with
              | None => None
              | Some pl => if mem s (refs pl) then Some true else refs_any tbl r s
              end
  end.
Definition references_ipset (st : state) (ei : einfo) (s : id) : option bool :=
  match refs_any (profs st) (e_profs ei) s with
  | None => None
  | Some true => Some true
  | Some false => refs_any (pols st) (e_pols ei) s
  end.

(* syncAddedPolicies / syncAddedProfiles: messages to send, new synced set *)
Fixpoint sync_added (tbl : list (id * rules)) (mk : id -> rules -> msg) (ids synced : list id)
  : option (list msg * list id) :=
  match ids with
  | [] => Some ([], synced)
  | i :: r => if mem i synced then sync_added tbl mk r synced
              else match lookup i tbl with
                   | None => None
                   | Some pl => match sync_added tbl mk r (i :: synced) with
                                | None => None
                                | Some (ms, sy) => Some (mk i pl :: ms, sy)
                                end
                   end
  end.

(* ---- maybeSyncEndpoint ---------------------------------------------------------------------------- *)

Definition maybe_sync (st : state) (w : id) (ei : einfo) : option einfo :=
  match e_upd ei, e_out ei with
  | Some e, Some _ =>
      let c := clk st in
      match needed_ips st ei with None => None | Some newS =>
      let toAdd := filter (fun s => negb (mem s (e_sips ei))) newS in
      let toDel := filter (fun s => negb (mem s newS)) (e_sips ei) in
      match ipset_msgs st toAdd with None => None | Some addm =>
      match sync_added (pols st) MPolUpdate (e_pols ei) (e_spol ei) with None => None | Some (pm, spol1) =>
      match sync_added (profs st) MProfUpdate (e_profs ei) (e_sprof ei) with None => None | Some (fm, sprof1) =>
      (* syncRemovedPolicies / syncRemovedProfiles panic when an id is visited twice *)
      if has_dup (e_pols ei) || has_dup (e_profs ei) then None else
      let polrem := filter (fun p => negb (mem p (e_pols ei))) spol1 in
      let profrem := filter (fun p => negb (mem p (e_profs ei))) sprof1 in
      let ei1 := emit c addm ei in
      let ei2 := emit_seq c (pm ++ fm ++ [MWepUpdate w e]) ei1 in
      let ei3 := emit c (map MPolRemove polrem) ei2 in
      let ei4 := emit c (map MProfRemove profrem) ei3 in
      let ei5 := emit c (map MIPSetRemove toDel) ei4 in
      Some (set_synced ei5 (e_pols ei) (e_profs ei) newS)
      end end end end
  | _, _ => Some ei
  end.

(* body of the `action` closure of handleActivePolicyUpdate / handleActiveProfileUpdate *)
Definition resync_one (st : state) (m : msg) (ei : einfo) : option einfo :=
  let c := clk st in
  match needed_ips st ei with None => None | Some newS =>
  let toAdd := filter (fun s => negb (mem s (e_sips ei))) newS in
  let toDel := filter (fun s => negb (mem s newS)) (e_sips ei) in
  match ipset_msgs st toAdd with None => None | Some addm =>
  Some (emit c (map MIPSetRemove toDel) (emit c [m] (emit c addm (set_synced ei (e_spol ei) (e_sprof ei) newS))))
  end end.

Fixpoint map_eps (f : id -> einfo -> option einfo) (l : list (id * einfo)) : option (list (id * einfo)) :=
  match l with
  | [] => Some []
  | (w, ei) :: r => match f w ei with
                    | None => None
                    | Some ei' => match map_eps f r with None => None | Some r' => Some ((w, ei') :: r') end
                    end
  end.

Definition set_eps (st : state) (x : list (id * einfo)) : state :=
  mkS x (pols st) (profs st) (sas st) (nss st) (ipsets st) (insync st) (closed st) (njoins st) (clk st).

(* send one message to every updateable endpoint *)
Definition broadcast (st : state) (m : msg) : list (id * einfo) :=
  map (fun we => (fst we, emit (clk st) [m] (snd we))) (eps st).

(* close(ei.output): the channel content moves to the archive *)
Definition archive (st : state) (w : id) (ei : einfo) : list (nat * (id * nat * stream)) :=
  match e_out ei with
  | Some (j, s) => (j, (w, clk st, s)) :: closed st
  | None => closed st
  end.

(* ---- handlers ----------------------------------------------------------------------------------------- *)

Definition handle_join (st : state) (w uid : nat) : option state :=
  let ei := match lookup w (eps st) with
            | Some ei => ei
            | None => mkE None 0 None [] [] []
            end in
  let cl := archive st w ei in
  let ei1 := mkE (Some (njoins st, [])) uid (e_upd ei) [] [] [] in
  match maybe_sync st w ei1 with None => None | Some ei2 =>
  let ei3 := emit (clk st) (map (fun av => MSAUpdate (fst av) (snd av)) (sas st)) ei2 in
  let ei4 := emit (clk st) (map (fun nv => MNSUpdate (fst nv) (snd nv)) (nss st)) ei3 in
  let ei5 := if insync st then emit (clk st) [MInSync] ei4 else ei4 in
  Some (mkS (insert w ei5 (eps st)) (pols st) (profs st) (sas st) (nss st) (ipsets st) (insync st)
            cl (S (njoins st)) (clk st))
  end.

Definition handle_leave (st : state) (w uid : nat) : option state :=
  match lookup w (eps st) with
  | None => Some st
  | Some ei =>
      if Nat.eqb (e_uid ei) uid then
        match e_out ei with
        | None => None                           (* close of a nil channel *)
        | Some _ =>
            let ei' := mkE None 0 (e_upd ei) (e_spol ei) (e_sprof ei) (e_sips ei) in
            let eps' := match e_upd ei with None => remove w (eps st) | Some _ => insert w ei' (eps st) end in
            Some (mkS eps' (pols st) (profs st) (sas st) (nss st) (ipsets st) (insync st)
                      (archive st w ei) (njoins st) (clk st))
        end
      else
        (* deferred clean-up also runs on the mismatch path *)
        match e_out ei, e_uid ei, e_upd ei with
        | None, 0, None => Some (set_eps st (remove w (eps st)))
        | _, _, _ => Some st
        end
  end.

Definition handle_wep_update (st : state) (w : id) (e : endpoint) : option state :=
  let ei := match lookup w (eps st) with
            | Some ei => mkE (e_out ei) (e_uid ei) (Some e) (e_spol ei) (e_sprof ei) (e_sips ei)
            | None => mkE None 0 (Some e) [] [] []
            end in
  match maybe_sync st w ei with
  | None => None
  | Some ei' => Some (set_eps st (insert w ei' (eps st)))
  end.

Definition handle_wep_remove (st : state) (w : id) : option state :=
  match lookup w (eps st) with
  | None => None                                 (* nil EndpointInfo dereferenced *)
  | Some ei =>
      let ei' := emit (clk st) [MWepRemove w] ei in
      Some (mkS (remove w (eps st)) (pols st) (profs st) (sas st) (nss st) (ipsets st) (insync st)
                (archive st w ei') (njoins st) (clk st))
  end.

Definition handle_pol_update (st : state) (p : id) (r : rules) : option state :=
  let st1 := mkS (eps st) (insert p r (pols st)) (profs st) (sas st) (nss st) (ipsets st) (insync st)
                 (closed st) (njoins st) (clk st) in
  match map_eps (fun _ ei =>
                   if live ei && mem p (e_pols ei)
                   then match resync_one st1 (MPolUpdate p r) ei with
                        | None => None
                        | Some ei' => Some (set_synced ei' (set_add p (e_spol ei')) (e_sprof ei') (e_sips ei'))
                        end
                   else Some ei) (eps st) with
  | None => None
  | Some x => Some (set_eps st1 x)
  end.

Definition handle_prof_update (st : state) (p : id) (r : rules) : option state :=
  let st1 := mkS (eps st) (pols st) (insert p r (profs st)) (sas st) (nss st) (ipsets st) (insync st)
                 (closed st) (njoins st) (clk st) in
  match map_eps (fun _ ei =>
                   if live ei && mem p (e_profs ei)
                   then match resync_one st1 (MProfUpdate p r) ei with
                        | None => None
                        | Some ei' => Some (set_synced ei' (e_spol ei') (set_add p (e_sprof ei')) (e_sips ei'))
                        end
                   else Some ei) (eps st) with
  | None => None
  | Some x => Some (set_eps st1 x)
  end.

Definition handle_ipset_update (st : state) (s : id) (m : list nat) : option state :=
  let st1 := mkS (eps st) (pols st) (profs st) (sas st) (nss st) (insert s (canon m) (ipsets st)) (insync st)
                 (closed st) (njoins st) (clk st) in
  match lookup s (ipsets st) with
  | None => Some st1
  | Some _ =>
      match map_eps (fun _ ei =>
                       if live ei then
                         match references_ipset st ei s with
                         | None => None
                         | Some true => Some (emit (clk st) [MIPSetUpdate s (canon m)]
                                                (set_synced ei (e_spol ei) (e_sprof ei) (set_add s (e_sips ei))))
                         | Some false => Some ei
                         end
                       else Some ei) (eps st) with
      | None => None
      | Some x => Some (set_eps st1 x)
      end
  end.

Definition handle_ipset_delta (st : state) (s : id) (add rem : list nat) : option state :=
  match (match lookup s (ipsets st), add, rem with
         | Some m, _, _ => Some (insert s (members_delta m add rem) (ipsets st))
         | None, [], [] => Some (ipsets st)      (* nil ipSetInfo, but its members are never touched *)
         | None, _, _ => None                    (* nil ipSetInfo dereferenced *)
         end) with
  | None => None
  | Some ips1 =>
      let st1 := mkS (eps st) (pols st) (profs st) (sas st) (nss st) ips1 (insync st)
                     (closed st) (njoins st) (clk st) in
      match map_eps (fun _ ei =>
                       if live ei then
                         match references_ipset st ei s with
                         | None => None
                         | Some true => Some (emit (clk st) [MIPSetDelta s add rem] ei)
                         | Some false => Some ei
                         end
                       else Some ei) (eps st) with
      | None => None
      | Some x => Some (set_eps st1 x)
      end
  end.

Definition step (st : state) (o : op) : option state :=
  match o with
  | OJoin w uid => handle_join st w uid
  | OLeave w uid => handle_leave st w uid
  | OInSync =>
      if insync st then Some st
      else Some (mkS (broadcast st MInSync) (pols st) (profs st) (sas st) (nss st) (ipsets st) true
                     (closed st) (njoins st) (clk st))
  | OWepUpdate w e => handle_wep_update st w e
  | OWepRemove w => handle_wep_remove st w
  | OPolUpdate p r => handle_pol_update st p r
  | OPolRemove p =>
      Some (mkS (eps st) (remove p (pols st)) (profs st) (sas st) (nss st) (ipsets st) (insync st)
                (closed st) (njoins st) (clk st))
  | OProfUpdate p r => handle_prof_update st p r
  | OProfRemove p =>
      Some (mkS (eps st) (pols st) (remove p (profs st)) (sas st) (nss st) (ipsets st) (insync st)
                (closed st) (njoins st) (clk st))
  | OIPSetUpdate s m => handle_ipset_update st s m
  | OIPSetDelta s a r => handle_ipset_delta st s a r
  | OIPSetRemove s =>
      Some (mkS (eps st) (pols st) (profs st) (sas st) (nss st) (remove s (ipsets st)) (insync st)
                (closed st) (njoins st) (clk st))
  | OSAUpdate a v =>
      Some (mkS (broadcast st (MSAUpdate a v)) (pols st) (profs st) (insert a v (sas st)) (nss st) (ipsets st)
                (insync st) (closed st) (njoins st) (clk st))
  | OSARemove a =>
      Some (mkS (broadcast st (MSARemove a)) (pols st) (profs st) (remove a (sas st)) (nss st) (ipsets st)
                (insync st) (closed st) (njoins st) (clk st))
  | ONSUpdate n v =>
      Some (mkS (broadcast st (MNSUpdate n v)) (pols st) (profs st) (sas st) (insert n v (nss st)) (ipsets st)
                (insync st) (closed st) (njoins st) (clk st))
  | ONSRemove n =>
      Some (mkS (broadcast st (MNSRemove n)) (pols st) (profs st) (sas st) (remove n (nss st)) (ipsets st)
                (insync st) (closed st) (njoins st) (clk st))
  end.

Definition tick (st : state) : state :=
  mkS (eps st) (pols st) (profs st) (sas st) (nss st) (ipsets st) (insync st) (closed st) (njoins st) (S (clk st)).

(* run the operations; on a panic return the state before the panicking operation and its index *)
Fixpoint run_from (st : state) (ops : list op) : state * option nat :=
  match ops with
  | [] => (st, None)
  | o :: r => match step st o with
              | None => (st, Some (clk st))
              | Some st' => run_from (tick st') r
              end
  end.
Definition run (ops : list op) : state * option nat := run_from init ops.

(* ---- observables: every channel ever handed to the processor ------------------------------------------ *)

(* join index -> (workload, closing op if closed, content) *)
Definition channels (st : state) : list (nat * (id * option nat * stream)) :=
  flat_map (fun we => match e_out (snd we) with Some (j, s) => [(j, (fst we, None, s))] | None => [] end) (eps st)
  ++ map (fun x => match x with (j, (w, c, s)) => (j, (w, Some c, s)) end) (closed st).
