(* C31 — IP set messages above MaxMembersPerMessage inside the stream theorems.

   The Processor sends every IPSetUpdate through splitIPSetUpdate and every IPSetDeltaUpdate through
   splitIPSetDeltaUpdate (sendIPSetUpdate, handleIPSetUpdate, handleIPSetDeltaUpdate).  A CHUNKED stream is a model
   stream (Model.v) in which every IP set message is replaced by its block of chunk messages ([blk]); inside an
   unordered group the blocks may come in any order but a block is never interleaved or reordered ([linb]).
   This file shows that every chunked linearisation is simulated by a linearisation of the model stream: same client
   up to the member LISTS being equal as sets, referential integrity after every single chunk.  *)
From Coq Require Import List Arith Bool Permutation Lia.
From Verif.C31 Require Import Model Spec Lemmas Views Split SplitProofs.
Import ListNotations.

Definition seteq (a b : list nat) : Prop := forall x, In x a <-> In x b.
Definition oseteq (a b : option (list nat)) : Prop :=
  match a, b with Some x, Some y => seteq x y | None, None => True | _, _ => False end.

Lemma oseteq_refl : forall a, oseteq a a.
Proof. intros [a|]; simpl; [intro x; tauto|exact I]. Qed.
Lemma oseteq_trans : forall a b c, oseteq a b -> oseteq b c -> oseteq a c.
Proof.
  intros [a|] [b|] [c|]; simpl; try tauto. intros H1 H2 x. rewrite (H1 x). apply H2.
Qed.
Lemma oseteq_sym : forall a b, oseteq a b -> oseteq b a.
Proof. intros [a|] [b|]; simpl; try tauto. intros H x. symmetry. apply H. Qed.

(* client states equal up to the member lists being equal as sets / up to which sets are held *)
Definition same_rest (a b : cstate) : Prop :=
  c_ep a = c_ep b /\ c_pol a = c_pol b /\ c_prof a = c_prof b /\ c_sa a = c_sa b /\ c_ns a = c_ns b /\ c_insync a = c_insync b.
Definition ceq (a b : cstate) : Prop := same_rest a b /\ forall k, oseteq (lookup k (c_ips a)) (lookup k (c_ips b)).
Definition peq (a b : cstate) : Prop :=
  same_rest a b /\ forall k, lookup k (c_ips a) = None <-> lookup k (c_ips b) = None.

Lemma ceq_peq : forall a b, ceq a b -> peq a b.
Proof.
  intros a b [R H]. split; [exact R|]. intro k. specialize (H k).
  destruct (lookup k (c_ips a)), (lookup k (c_ips b)); simpl in H; try tauto; split; congruence.
Qed.
Lemma ceq_refl : forall a, ceq a a.
Proof. intro a. split; [repeat split|intro; apply oseteq_refl]. Qed.

Lemma forallb_eq : forall A (f g : A -> bool) l, (forall x, f x = g x) -> forallb f l = forallb g l.
Proof. intros A f g l H. induction l; simpl; [reflexivity|rewrite H, IHl; reflexivity]. Qed.

Lemma ri_peq : forall a b, peq a b -> ri a = ri b.
Proof.
  intros a b [(E1 & E2 & E3 & _) H]. unfold ri. rewrite E1, E2, E3. f_equal.
  apply forallb_eq. intro pr. apply forallb_eq. intro s. specialize (H s).
  destruct (lookup s (c_ips a)), (lookup s (c_ips b)); try reflexivity; exfalso; destruct H as [H1 H2];
    [specialize (H2 eq_refl)|specialize (H1 eq_refl)]; discriminate.
Qed.

Lemma seteq_delta : forall m m' a r, seteq m m' -> seteq (members_delta m a r) (members_delta m' a r).
Proof. intros m m' a r H x. rewrite !In_members_delta, (H x). tauto. Qed.

Ltac csimpl := cbn [apply c_ep c_pol c_prof c_ips c_sa c_ns c_insync] in *.

(* the same message on both sides *)
Lemma ceq_apply : forall a b m, ceq a b -> ceq (apply a m) (apply b m).
Proof.
  intros a b m [(E1 & E2 & E3 & E4 & E5 & E6) H].
  destruct m; csimpl; try (split; [repeat split; csimpl; congruence|exact H]).
  - split; [repeat split; csimpl; congruence|]. intro k. csimpl. rewrite !lookup_insert. destruct (Nat.eqb k s); [simpl; intro; tauto|apply H].
  - assert (Hs := H s). destruct (lookup s (c_ips a)) as [x|], (lookup s (c_ips b)) as [y|]; simpl in Hs; try tauto.
    + split; [repeat split; csimpl; congruence|]. intro k. csimpl. rewrite !lookup_insert.
      destruct (Nat.eqb k s); [simpl; apply seteq_delta; exact Hs|apply H].
    + split; [repeat split; assumption|exact H].
  - split; [repeat split; csimpl; congruence|]. intro k. csimpl. rewrite !lookup_remove. destruct (Nat.eqb k s); [exact I|apply H].
Qed.

(* ---- blocks ---- *)

Definition on_set (s : id) (m : msg) : Prop :=
  match m with MIPSetUpdate s' _ | MIPSetDelta s' _ _ => s' = s | _ => False end.

Lemma sapply_oseteq : forall c c' m, oseteq c c' -> oseteq (sapply c m) (sapply c' m).
Proof.
  intros c c' m H. destruct m; simpl; try exact H.
  - intro x. tauto.
  - destruct c, c'; simpl in *; try tauto. apply seteq_delta; exact H.
Qed.
Lemma fold_sapply_oseteq : forall b c c', oseteq c c' -> oseteq (fold_left sapply b c) (fold_left sapply b c').
Proof. induction b as [|m b IH]; simpl; intros c c' H; [exact H|]. apply IH, sapply_oseteq, H. Qed.

(* messages about one set: only that set's entry changes, and it changes as [sapply] says (as a set) *)
Lemma fold_on_set : forall s b a, Forall (on_set s) b ->
  same_rest (fold_left apply b a) a
  /\ (forall k, k <> s -> lookup k (c_ips (fold_left apply b a)) = lookup k (c_ips a))
  /\ oseteq (lookup s (c_ips (fold_left apply b a))) (fold_left sapply b (lookup s (c_ips a))).
Proof.
  intros s b. induction b as [|m b IH]; intros a F; simpl.
  - split; [repeat split|]. split; [reflexivity|apply oseteq_refl].
  - inversion F as [|? ? F1 F2]; subst. destruct (IH (apply a m) F2) as (R & K & S).
    assert (X : same_rest (apply a m) a /\ (forall k, k <> s -> lookup k (c_ips (apply a m)) = lookup k (c_ips a))
                /\ oseteq (lookup s (c_ips (apply a m))) (sapply (lookup s (c_ips a)) m)).
    { destruct m; simpl in F1; try contradiction; subst s0; csimpl.
      - split; [repeat split|]. split; [intros k N; rewrite lookup_insert; destruct (Nat.eqb_spec k s); [contradiction|reflexivity]|].
        rewrite lookup_insert, Nat.eqb_refl. simpl. intro x. rewrite In_canon. tauto.
      - destruct (lookup s (c_ips a)) as [c|] eqn:L; csimpl.
        + split; [repeat split|]. split; [intros k N; rewrite lookup_insert; destruct (Nat.eqb_spec k s); [contradiction|reflexivity]|].
          rewrite lookup_insert, Nat.eqb_refl. simpl. intro x. tauto.
        + split; [repeat split|]. split; [reflexivity|]. rewrite L. exact I. }
    destruct X as (R1 & K1 & S1). split; [|split].
    + destruct R as (A1 & A2 & A3 & A4 & A5 & A6). destruct R1 as (B1 & B2 & B3 & B4 & B5 & B6). repeat split; congruence.
    + intros k N. rewrite (K k N). apply K1, N.
    + eapply oseteq_trans; [exact S|]. apply fold_sapply_oseteq, S1.
Qed.

Lemma loop_deltas : forall fuel n s adds rdels, Forall (fun m => exists a r, m = MIPSetDelta s a r) (split_delta_loop fuel n s adds rdels).
Proof.
  induction fuel as [|f IH]; intros n s adds rdels; cbn [split_delta_loop]; [constructor|].
  destruct adds as [|a adds'], rdels as [|d rd].
  - constructor.
  - destruct (_ <=? _); (constructor; [eexists; eexists; reflexivity|apply IH]).
  - constructor; [eexists; eexists; reflexivity|apply IH].
  - destruct (_ <=? _); (constructor; [eexists; eexists; reflexivity|apply IH]).
Qed.

Definition disjoint (a r : list nat) : Prop := forall x, In x a -> ~ In x r.

(* the block of chunk messages that stands for one model message (chunk size n) *)
Inductive blk (n : nat) : msg -> list msg -> Prop :=
| blk_upd : forall s l l', seteq l' l -> blk n (MIPSetUpdate s l) (split_update n s l')     (* members in any order *)
| blk_delta : forall s a r, blk n (MIPSetDelta s a r) (split_delta n s a r)
| blk_other : forall m, match m with MIPSetUpdate _ _ | MIPSetDelta _ _ _ => False | _ => True end -> blk n m [m].

Definition delta_ok (m : msg) : Prop := match m with MIPSetDelta _ a r => disjoint a r | _ => True end.

Lemma peq_refl : forall a, peq a a.
Proof. intro a. split; [repeat split|intro; tauto]. Qed.
Lemma peq_sym : forall a b, peq a b -> peq b a.
Proof. intros a b [(A1 & A2 & A3 & A4 & A5 & A6) H]. split; [repeat split; congruence|intro k; symmetry; apply H]. Qed.
Lemma peq_trans : forall a b c, peq a b -> peq b c -> peq a c.
Proof.
  intros a b c [(A1 & A2 & A3 & A4 & A5 & A6) H] [(B1 & B2 & B3 & B4 & B5 & B6) H'].
  split; [repeat split; congruence|intro k; rewrite (H k); apply H'].
Qed.
Lemma delta_peq_self : forall x s a r, peq (apply x (MIPSetDelta s a r)) x.
Proof.
  intros x s a r. csimpl. destruct (lookup s (c_ips x)) as [m|] eqn:L; [|apply peq_refl].
  split; [repeat split|]. intro k. csimpl. rewrite lookup_insert. destruct (Nat.eqb_spec k s) as [->|N]; [rewrite L; split; discriminate|tauto].
Qed.

Fixpoint inter (a : cstate) (b : list msg) (t : cstate) : Prop :=
  match b with [] => True | m :: r => peq (apply a m) t /\ inter (apply a m) r t end.

Lemma inter_deltas : forall s b x t, Forall (fun m => exists a r, m = MIPSetDelta s a r) b -> peq x t -> inter x b t.
Proof.
  intros s b. induction b as [|m b IH]; intros x t F P; simpl; [exact I|]. inversion F as [|? ? (a & r & ->) F2]; subst.
  assert (P' : peq (apply x (MIPSetDelta s a r)) t) by (eapply peq_trans; [apply delta_peq_self|exact P]).
  split; [exact P'|apply IH; assumption].
Qed.

Lemma checked_block : forall w b a t, Forall (fun m => own w m = true) b -> ri t = true -> inter a b t ->
  snd (apply_checked w a b) = true.
Proof.
  intros w b. induction b as [|m b IH]; intros a t F R H; [reflexivity|].
  inversion F; subst. destruct H as [P H]. rewrite apply_checked_cons, (ri_peq _ _ P), R, (IH _ t); auto. rewrite H2. reflexivity.
Qed.

Lemma fold_sapply_none_deltas : forall s b, Forall (fun m => exists a r, m = MIPSetDelta s a r) b -> fold_left sapply b None = None.
Proof. intros s b. induction b as [|m b IH]; intro F; simpl; [reflexivity|]. inversion F as [|? ? (a & r & ->) F2]; subst. simpl. apply IH, F2. Qed.

Lemma deltas_on_set : forall s b, Forall (fun m => exists a r, m = MIPSetDelta s a r) b -> Forall (on_set s) b /\ forall w, Forall (fun m => own w m = true) b.
Proof.
  intros s b F. split; [|intro w]; eapply Forall_impl; try exact F; intros m (a & r & ->); reflexivity.
Qed.

(* one block against its model message *)
Lemma block_sim : forall n w m b a b0, 1 <= n -> blk n m b -> delta_ok m -> ceq a b0 -> own w m = true -> ri (apply b0 m) = true ->
  snd (apply_checked w a b) = true /\ ceq (fold_left apply b a) (apply b0 m).
Proof.
  intros n w m b a b0 N B D C O R. destruct B as [s l l' SE|s ad rm|m OT].
  - (* IPSetUpdate *)
    destruct (split_update_complete n s l' (lookup s (c_ips a)) N) as (_ & m' & E & H).
    destruct (split_members_spec n l' N) as (_ & _ & NEM).
    unfold split_update in *. destruct (split_members n l') as [|c0 r]; [exfalso; apply NEM; reflexivity|].
    set (ds := map (fun c => MIPSetDelta s c []) r) in *.
    assert (FD : Forall (fun m => exists a r, m = MIPSetDelta s a r) ds).
    { apply Forall_forall. intros x Hx. apply in_map_iff in Hx. destruct Hx as (c & <- & _). eexists; eexists; reflexivity. }
    destruct (deltas_on_set s ds FD) as [OS OW].
    assert (P1 : peq (apply a (MIPSetUpdate s c0)) (apply b0 (MIPSetUpdate s l))).
    { destruct (ceq_peq _ _ C) as [(E1 & E2 & E3 & E4 & E5 & E6) HP]. split; [repeat split; csimpl; congruence|].
      intro k. csimpl. rewrite !lookup_insert. destruct (Nat.eqb k s); [split; discriminate|apply HP]. }
    split.
    + apply (checked_block w _ a (apply b0 (MIPSetUpdate s l))); [constructor; [reflexivity|apply OW]|exact R|].
      simpl. split; [exact P1|]. eapply inter_deltas; eassumption.
    + assert (OS' : Forall (on_set s) (MIPSetUpdate s c0 :: ds)) by (constructor; [reflexivity|exact OS]).
      destruct (fold_on_set s (MIPSetUpdate s c0 :: ds) a OS') as (RS & K & S).
      destruct C as [(E1 & E2 & E3 & E4 & E5 & E6) HC]. destruct RS as (A1 & A2 & A3 & A4 & A5 & A6).
      split; [repeat split; csimpl; congruence|]. intro k. csimpl. rewrite lookup_insert. destruct (Nat.eqb_spec k s) as [->|NE].
      * eapply oseteq_trans; [exact S|]. rewrite E. simpl. intro x. rewrite (H x). apply SE.
      * rewrite (K k NE). apply HC.
  - (* IPSetDeltaUpdate *)
    simpl in D. assert (FD := loop_deltas (length (split_members n ad) + length (rev (split_members n rm))) n s (split_members n ad) (rev (split_members n rm))).
    fold (split_delta n s ad rm) in FD. destruct (deltas_on_set s _ FD) as [OS OW]. split.
    + apply (checked_block w _ a (apply b0 (MIPSetDelta s ad rm))); [apply OW|exact R|].
      eapply inter_deltas; [exact FD|]. eapply peq_trans; [apply ceq_peq, C|apply peq_sym, delta_peq_self].
    + destruct (fold_on_set s _ a OS) as (RS & K & S).
      destruct C as [(E1 & E2 & E3 & E4 & E5 & E6) HC]. destruct RS as (A1 & A2 & A3 & A4 & A5 & A6).
      assert (HS := HC s). csimpl. destruct (lookup s (c_ips b0)) as [y|] eqn:LB.
      * destruct (lookup s (c_ips a)) as [x|] eqn:LA; simpl in HS; [|contradiction].
        destruct (split_delta_complete n s ad rm x N D) as (_ & m' & E & H).
        split; [repeat split; csimpl; congruence|]. intro k. csimpl. rewrite lookup_insert. destruct (Nat.eqb_spec k s) as [->|NE].
        -- eapply oseteq_trans; [exact S|]. rewrite E. simpl. intro z. rewrite (H z). apply seteq_delta, HS.
        -- rewrite (K k NE). apply HC.
      * destruct (lookup s (c_ips a)) as [x|] eqn:LA; simpl in HS; [contradiction|].
        split; [repeat split; congruence|]. intro k. destruct (Nat.eqb_spec k s) as [->|NE].
        -- eapply oseteq_trans; [exact S|]. rewrite (fold_sapply_none_deltas s _ FD), LB. exact I.
        -- rewrite (K k NE). apply HC.
  - (* any other message *)
    assert (C' := ceq_apply _ _ m C). split; [|exact C'].
    rewrite apply_checked_cons, O, (ri_peq _ _ (ceq_peq _ _ C')), R. reflexivity.
Qed.

(* ---- groups and streams ---- *)

Lemma Forall2_perm : forall A B (R : A -> B -> Prop) bs p, Permutation bs p ->
  forall g, Forall2 R g bs -> exists g', Permutation g g' /\ Forall2 R g' p.
Proof.
  intros A B R bs p P. induction P as [|x l l' P IH|x y l|l l' l'' P1 IH1 P2 IH2]; intros g F.
  - inversion F; subst. exists []. split; constructor.
  - inversion F as [|a ? g0 ? Ra F0]; subst. destruct (IH _ F0) as (g' & PG & FG). exists (a :: g'). split; [constructor; exact PG|constructor; assumption].
  - inversion F as [|a ? g1 ? Ra F1]; subst. inversion F1 as [|b ? g0 ? Rb F0]; subst.
    exists (b :: a :: g0). split; [apply perm_swap|repeat constructor; assumption].
  - destruct (IH1 _ F) as (g1 & PG1 & FG1). destruct (IH2 _ FG1) as (g2 & PG2 & FG2). exists g2. split; [eapply Permutation_trans; eassumption|exact FG2].
Qed.

Lemma blocks_sim : forall n w g' p, 1 <= n -> Forall2 (blk n) g' p -> Forall delta_ok g' ->
  forall a b0, ceq a b0 -> snd (apply_checked w b0 g') = true ->
  snd (apply_checked w a (concat p)) = true /\ ceq (fold_left apply (concat p) a) (fold_left apply g' b0).
Proof.
  intros n w g' p N F. induction F as [|m b g0 p0 B F IH]; intros D a b0 C K.
  - split; [reflexivity|exact C].
  - inversion D as [|? ? D1 D2]; subst. rewrite apply_checked_cons in K.
    apply andb_true_iff in K. destruct K as [K K3]. apply andb_true_iff in K. destruct K as [K1 K2].
    destruct (block_sim n w m b a b0 N B D1 C K1 K2) as [S1 C1].
    destruct (IH D2 _ _ C1 K3) as [S2 C2]. simpl concat. rewrite apply_checked_app, fold_left_app, S1, S2. split; [reflexivity|exact C2].
Qed.

(* chunked linearisations: the blocks of a group in any order, each block in its own order *)
Inductive linb (n : nat) : list (list msg) -> list msg -> Prop :=
| linb_nil : linb n [] []
| linb_cons : forall g gs bs p ms, Forall2 (blk n) g bs -> Permutation bs p -> linb n gs ms -> linb n (g :: gs) (concat p ++ ms).

Theorem chunked_sim : forall n w gs msb, 1 <= n -> linb n gs msb -> Forall (Forall delta_ok) gs ->
  exists ms, lin gs ms /\ forall a b0, ceq a b0 -> snd (apply_checked w b0 ms) = true ->
    snd (apply_checked w a msb) = true /\ ceq (fold_left apply msb a) (fold_left apply ms b0).
Proof.
  intros n w gs msb N L. induction L as [|g gs bs p ms F P L IH]; intro D.
  - exists []. split; [constructor|]. intros a b0 C _. split; [reflexivity|exact C].
  - inversion D as [|? ? D1 D2]; subst. destruct (IH D2) as (ms0 & L0 & H0).
    destruct (Forall2_perm _ _ _ _ _ P _ F) as (g' & PG & FG).
    exists (g' ++ ms0). split; [constructor; assumption|]. intros a b0 C K.
    rewrite apply_checked_app in K. apply andb_true_iff in K. destruct K as [K1 K2].
    assert (D' : Forall delta_ok g').
    { apply Forall_forall. intros m Hm. rewrite Forall_forall in D1. apply D1. eapply Permutation_in; [apply Permutation_sym; exact PG|exact Hm]. }
    destruct (blocks_sim n w g' p N FG D' a b0 C K1) as [S1 C1].
    destruct (H0 _ _ C1 K2) as [S2 C2]. rewrite apply_checked_app, !fold_left_app, S1, S2. split; [reflexivity|exact C2].
Qed.
