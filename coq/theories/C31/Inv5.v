(* C31 — the invariant, part 5: handlers that run a per-endpoint closure (IP set update/delta, policy/profile update). *)
From Coq Require Import List Arith Bool Permutation Lia.
From Verif.C31 Require Import Model Spec Lemmas Views Groups GroupAdv Sync Inv Inv2 Inv3 Inv4.
Import ListNotations.

Definition conn_of (ei : einfo) : option (nat * nat) :=
  match e_out ei with Some (j, _) => Some (j, e_uid ei) | None => None end.
Definition shape (ei ei' : einfo) : Prop := e_upd ei' = e_upd ei /\ conn_of ei' = conn_of ei.

Lemma shape_refl : forall ei, shape ei ei.
Proof. split; reflexivity. Qed.

Lemma mapeps_inv : forall T T' st st1 F,
  Inv T st ->
  (forall w ei, In (w, ei) (eps st) -> exists ei', F w ei = Some ei' /\ shape ei ei' /\ live_ok st1 w ei') ->
  closed st1 = closed st ->
  pols st1 = t_pols T' -> profs st1 = t_profs T' -> ipsets st1 = t_ips T' -> sas st1 = t_sas T' -> nss st1 = t_nss T' ->
  insync st1 = t_insync T' -> njoins st1 = t_njoins T' -> t_eps T' = t_eps T -> t_conn T' = t_conn T -> t_njoins T' = t_njoins T ->
  fal (sas st1) -> fal (nss st1) -> WFT T' ->
  exists x, map_eps F (eps st) = Some x /\ Inv T' (set_eps st1 x).
Proof.
  intros T T' st st1 F I HF HC E1 E2 E3 E4 E5 E6 E7 E8 E9 E10 FA FN W.
  destruct (map_eps_some F (eps st)) as (x & M & X1 & X2).
  { intros w ei H. destruct (HF w ei H) as (ei' & A & _). congruence. }
  exists x. split; [exact M|]. constructor; try assumption.
  - intro w. rewrite E8, E9, <- (i_abs _ _ I w). unfold absw. cbn [eps set_eps]. rewrite X2.
    destruct (lookup w (eps st)) as [ei|] eqn:L; [|reflexivity].
    destruct (HF w ei (lookup_in _ _ _ _ L)) as (ei' & A & (S1 & S2) & _). rewrite A. unfold conn_of in S2. rewrite S1, S2. reflexivity.
  - cbn [eps set_eps]. eapply map_eps_fal; [exact M|apply (i_fal _ _ I)|exact X1|exact X2].
  - intros w ei' H. cbn [eps set_eps] in H. destruct (X1 _ _ H) as (ei & A & B).
    destruct (HF w ei A) as (ei2 & A2 & _ & L). rewrite B in A2. inversion A2; subst. exact L.
  - intros j w c s H. cbn [closed set_eps] in H. rewrite HC in H. apply (i_closed _ _ I j w c s H).
  - unfold WFC. rewrite E9, E10. apply (i_wfc _ _ I).
  - intros j w c s H. cbn [closed set_eps] in H. rewrite HC in H. unfold cfree. rewrite E9, E10. apply (i_cidx _ _ I j w c s H).
Qed.

(* ---- referencesIPSet ---- *)

Lemma refs_any_spec : forall tbl ids s x, refs_of_all tbl ids = Some x -> refs_any tbl ids s = Some (mem s x).
Proof.
  intros tbl ids s. induction ids as [|i ids IH]; simpl; intros x H.
  - inversion H; subst. reflexivity.
  - destruct (lookup i tbl) as [pl|]; [|discriminate]. destruct (refs_of_all tbl ids) as [y|]; [|discriminate].
    inversion H; subst. rewrite mem_app. destruct (mem s (refs pl)); [reflexivity|]. simpl. apply IH. reflexivity.
Qed.

Lemma references_ipset_spec : forall st ei s l, needed_ips st ei = Some l -> references_ipset st ei s = Some (mem s l).
Proof.
  intros st ei s l H. unfold needed_ips in H. unfold references_ipset.
  destruct (refs_of_all (profs st) (e_profs ei)) as [a|] eqn:A; [|discriminate].
  destruct (refs_of_all (pols st) (e_pols ei)) as [b|] eqn:B; [|discriminate].
  inversion H; subst. rewrite (refs_any_spec _ _ s _ A), (refs_any_spec _ _ s _ B).
  assert (M : mem s (dedup (a ++ b)) = mem s a || mem s b).
  { rewrite <- mem_app. apply mem_ext. intro k. apply In_dedup. }
  rewrite M. destruct (mem s a); reflexivity.
Qed.

Lemma live_needed : forall st w ei j s0, live_ok st w ei -> e_out ei = Some (j, s0) -> needed_ips st ei = Some (e_sips ei).
Proof.
  intros st w ei j s0 L O. unfold live_ok in L. rewrite O in L. destruct L as (_ & _ & S). unfold sync_ok in S.
  destruct (e_upd ei) eqn:U; [apply S|]. destruct S as (_ & _ & S). rewrite S. unfold needed_ips, e_profs, e_pols. rewrite U. reflexivity.
Qed.

(* ---- IP set update / delta reaching a connected endpoint that references the set ---- *)

Lemma ipset_msg_entry : forall st st1 w ei j s0 s m x,
  live_ok st w ei -> e_out ei = Some (j, s0) -> mem s (e_sips ei) = true ->
  pols st1 = pols st -> profs st1 = profs st -> ipsets st1 = insert s x (ipsets st) ->
  sas st1 = sas st -> nss st1 = nss st -> insync st1 = insync st ->
  (forall A, v_ips A s = lookup s (ipsets st) -> RIv A -> RIv (vapply A m) /\ own w m = true /\
        v_ep (vapply A m) = v_ep A /\ (forall k, v_pol (vapply A m) k = v_pol A k) /\ (forall k, v_prof (vapply A m) k = v_prof A k) /\
        (forall k, v_sa (vapply A m) k = v_sa A k) /\ (forall k, v_ns (vapply A m) k = v_ns A k) /\ v_sync (vapply A m) = v_sync A /\
        (forall k, v_ips (vapply A m) k = if Nat.eqb k s then Some x else v_ips A k)) ->
  live_ok st1 w (emit (clk st) [m] ei).
Proof.
  intros st st1 w ei j s0 s m x L O M HP HF HI HA HN HS HM.
  assert (O' : e_out (emit (clk st) [m] ei) = Some (j, s0 ++ [(clk st, [m])])) by (unfold emit; rewrite O; reflexivity).
  assert (RA : RIv (ep_target st w ei)) by (unfold live_ok in L; rewrite O in L; apply L).
  assert (VS : v_ips (ep_target st w ei) s = lookup s (ipsets st)) by (unfold ep_target, tgt; simpl; rewrite M; reflexivity).
  destruct (HM _ VS RA) as (R' & OW & V1 & V2 & V3 & V4 & V5 & V6 & V7).
  eapply (live_ok_extend st st1 w ei _ j s0 [(clk st, [m])] L O O'); [unfold emit; rewrite O; reflexivity| |].
  - change (groups [(clk st, [m])]) with [[m]]. apply adv_one; [exact RA|exact OW|exact R'|].
    unfold veq. rewrite V1, V6. repeat split; try (intro k; rewrite ?V2, ?V3, ?V4, ?V5, ?V7);
      unfold ep_target, tgt, stv, epo_of, emit; rewrite O; simpl; rewrite ?HP, ?HF, ?HI, ?HA, ?HN, ?HS; try reflexivity.
    rewrite lookup_insert. destruct (Nat.eqb_spec k s) as [->|NE]; [rewrite M|]; reflexivity.
  - unfold live_ok in L. rewrite O in L. destruct L as (_ & _ & S). apply (sync_ok_tables st st1 _ HP HF).
    unfold sync_ok, emit in *. rewrite O. exact S.
Qed.

Lemma live_ok_tables_frame : forall st st1 w ei,
  live_ok st w ei ->
  (forall k, mem k (e_spol ei) = true -> lookup k (pols st1) = lookup k (pols st)) ->
  (forall k, mem k (e_sprof ei) = true -> lookup k (profs st1) = lookup k (profs st)) ->
  (forall k, mem k (e_sips ei) = true -> lookup k (ipsets st1) = lookup k (ipsets st)) ->
  sas st1 = sas st -> nss st1 = nss st -> insync st1 = insync st ->
  live_ok st1 w ei.
Proof.
  intros st st1 w ei L H1 H2 H3 HA HN HS.
  destruct (e_out ei) as [[j s]|] eqn:O; [|unfold live_ok in *; rewrite O in *; exact L].
  apply (live_ok_frame st st1 w ei L); [apply veq_target_tables; assumption|].
  apply sync_ok_ext.
  - intros i Hi. apply H1. unfold live_ok in L. rewrite O in L. destruct L as (_ & _ & S). unfold sync_ok in S.
    unfold e_pols in Hi. destruct (e_upd ei); [|destruct Hi]. destruct S as (S & _). rewrite S. apply mem_In, Hi.
  - intros i Hi. apply H2. unfold live_ok in L. rewrite O in L. destruct L as (_ & _ & S). unfold sync_ok in S.
    unfold e_profs in Hi. destruct (e_upd ei); [|destruct Hi]. destruct S as (_ & S & _). rewrite S. apply mem_In, Hi.
Qed.

Lemma set_synced_id : forall ei, set_synced ei (e_spol ei) (e_sprof ei) (e_sips ei) = ei.
Proof. destruct ei; reflexivity. Qed.
Lemma shape_emit : forall c g ei, shape ei (emit c g ei).
Proof. intros c g [o u up a b d]. destruct o as [[j s]|]; split; reflexivity. Qed.

Lemma step_ipset_update : forall T st s m, Inv T st -> step_ok T st (OIPSetUpdate s m).
Proof.
  intros T st s m I. unfold step_ok. assert (W := wft_step T (OIPSetUpdate s m) (i_wft _ _ I) eq_refl).
  cbn [step]. unfold handle_ipset_update. destruct (lookup s (ipsets st)) as [m0|] eqn:LS.
  - set (st1 := mkS (eps st) (pols st) (profs st) (sas st) (nss st) (insert s (canon m) (ipsets st)) (insync st) (closed st) (njoins st) (clk st)).
    destruct (mapeps_inv T (tstep T (OIPSetUpdate s m)) st st1
               (fun _ ei => if live ei then match references_ipset st ei s with
                                            | None => None
                                            | Some true => Some (emit (clk st) [MIPSetUpdate s (canon m)] (set_synced ei (e_spol ei) (e_sprof ei) (set_add s (e_sips ei))))
                                            | Some false => Some ei end else Some ei) I) as (x & M & I');
      try reflexivity; try (tbl I); try exact W; try apply (i_fsa _ _ I); try apply (i_fns _ _ I).
    + intros w ei H. assert (L := i_live _ _ I _ _ H). unfold live. destruct (e_out ei) as [[j s0]|] eqn:O.
      * rewrite (references_ipset_spec st ei s _ (live_needed st w ei j s0 L O)).
        destruct (mem s (e_sips ei)) eqn:MS.
        -- eexists. split; [reflexivity|]. unfold set_add. rewrite MS, set_synced_id. split; [apply shape_emit|].
           eapply (ipset_msg_entry st st1 w ei j s0 s _ (canon m) L O MS); try reflexivity.
           intros A VA RA. split; [apply RIv_add_ips; exact RA|]. simpl. repeat split; intros; unfold upd; reflexivity.
        -- exists ei. split; [reflexivity|]. split; [apply shape_refl|].
           apply (live_ok_tables_frame st st1 w ei L); try reflexivity; try (intros; reflexivity).
           intros k Mk. cbn [ipsets st1]. rewrite lookup_insert. destruct (Nat.eqb_spec k s) as [->|N]; [congruence|reflexivity].
      * exists ei. split; [reflexivity|]. split; [apply shape_refl|]. unfold live_ok in *. rewrite O in *. exact L.
    + rewrite M. eexists. split; [reflexivity|exact I'].
  - eexists. split; [reflexivity|]. eapply (tables_inv T _ st _ I); try reflexivity; try (tbl I); try exact W.
    intros w ei H O. split; [intros; reflexivity|split; [intros; reflexivity|]]. intros k Mk. cbn [ipsets]. rewrite lookup_insert.
    destruct (Nat.eqb_spec k s) as [->|N]; [|reflexivity]. exfalso.
    destruct (inv_wfb _ _ I) as [WP WF].
    destruct (sips_referenced st w ei s (i_live _ _ I _ _ H) O Mk) as [(k & r & A & B)|(k & r & A & B)].
    + apply (WF k r A s B). exact LS.
    + apply (WP k r A s B). exact LS.
Qed.

Lemma step_ipset_delta : forall T st s a r, Inv T st -> valid_op T (OIPSetDelta s a r) = true -> step_ok T st (OIPSetDelta s a r).
Proof.
  intros T st s a r I V. unfold step_ok. assert (W := wft_step T _ (i_wft _ _ I) V).
  cbn [valid_op] in V. apply present_true in V. rewrite <- (i_ips _ _ I) in V.
  cbn [step]. unfold handle_ipset_delta. cbn [tstep] in *. rewrite <- (i_ips _ _ I) in *.
  destruct (lookup s (ipsets st)) as [m0|] eqn:LS; [|congruence].
  set (st1 := mkS (eps st) (pols st) (profs st) (sas st) (nss st) (insert s (members_delta m0 a r) (ipsets st)) (insync st) (closed st) (njoins st) (clk st)).
  destruct (mapeps_inv T (mkT (t_eps T) (t_pols T) (t_profs T) (insert s (members_delta m0 a r) (ipsets st)) (t_sas T) (t_nss T) (t_insync T) (t_conn T) (t_njoins T)) st st1
             (fun _ ei => if live ei then match references_ipset st ei s with
                                          | None => None
                                          | Some true => Some (emit (clk st) [MIPSetDelta s a r] ei)
                                          | Some false => Some ei end else Some ei) I) as (x & M & I');
    try reflexivity; try (tbl I); try exact W; try apply (i_fsa _ _ I); try apply (i_fns _ _ I).
  - intros w ei H. assert (L := i_live _ _ I _ _ H). unfold live. destruct (e_out ei) as [[j s0]|] eqn:O.
    + rewrite (references_ipset_spec st ei s _ (live_needed st w ei j s0 L O)).
      destruct (mem s (e_sips ei)) eqn:MS.
      * eexists. split; [reflexivity|]. split; [apply shape_emit|].
        eapply (ipset_msg_entry st st1 w ei j s0 s _ (members_delta m0 a r) L O MS); try reflexivity.
        intros A VA RA. split; [apply RIv_delta; exact RA|]. simpl. rewrite VA, LS. simpl. repeat split; intros; unfold upd; reflexivity.
      * exists ei. split; [reflexivity|]. split; [apply shape_refl|].
        apply (live_ok_tables_frame st st1 w ei L); try reflexivity; try (intros; reflexivity).
        intros k Mk. cbn [ipsets st1]. rewrite lookup_insert. destruct (Nat.eqb_spec k s) as [->|N]; [congruence|reflexivity].
    + exists ei. split; [reflexivity|]. split; [apply shape_refl|]. unfold live_ok in *. rewrite O in *. exact L.
  - rewrite M. eexists. split; [reflexivity|exact I'].
Qed.
