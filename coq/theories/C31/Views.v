(* C31 — the client seen through its lookups ("views"), referential integrity on views, and the
   advance judgement [adv]: a list of groups, sent in any admissible order, takes every client that holds
   view A to a client that holds view B, with [ri] and [own] true after every single message. *)
From Coq Require Import List Arith Bool Permutation Lia.
From Verif.C31 Require Import Model Spec Lemmas.
Import ListNotations.

Record view := mkV {
  v_ep : option (id * endpoint);
  v_pol : id -> option rules;
  v_prof : id -> option rules;
  v_ips : id -> option (list nat);
  v_sa : id -> option nat;
  v_ns : id -> option nat;
  v_sync : bool }.

Definition upd {V} (f : id -> option V) (k : id) (x : option V) : id -> option V :=
  fun k' => if Nat.eqb k' k then x else f k'.

Definition vapply (v : view) (m : msg) : view :=
  match m with
  | MInSync => mkV (v_ep v) (v_pol v) (v_prof v) (v_ips v) (v_sa v) (v_ns v) true
  | MWepUpdate w e => mkV (Some (w, e)) (v_pol v) (v_prof v) (v_ips v) (v_sa v) (v_ns v) (v_sync v)
  | MWepRemove w => mkV None (v_pol v) (v_prof v) (v_ips v) (v_sa v) (v_ns v) (v_sync v)
  | MPolUpdate p r => mkV (v_ep v) (upd (v_pol v) p (Some r)) (v_prof v) (v_ips v) (v_sa v) (v_ns v) (v_sync v)
  | MPolRemove p => mkV (v_ep v) (upd (v_pol v) p None) (v_prof v) (v_ips v) (v_sa v) (v_ns v) (v_sync v)
  | MProfUpdate p r => mkV (v_ep v) (v_pol v) (upd (v_prof v) p (Some r)) (v_ips v) (v_sa v) (v_ns v) (v_sync v)
  | MProfRemove p => mkV (v_ep v) (v_pol v) (upd (v_prof v) p None) (v_ips v) (v_sa v) (v_ns v) (v_sync v)
  | MIPSetUpdate s m => mkV (v_ep v) (v_pol v) (v_prof v) (upd (v_ips v) s (Some m)) (v_sa v) (v_ns v) (v_sync v)
  | MIPSetDelta s a r =>
      match v_ips v s with
      | Some m => mkV (v_ep v) (v_pol v) (v_prof v) (upd (v_ips v) s (Some (members_delta m a r))) (v_sa v) (v_ns v) (v_sync v)
      | None => v
      end
  | MIPSetRemove s => mkV (v_ep v) (v_pol v) (v_prof v) (upd (v_ips v) s None) (v_sa v) (v_ns v) (v_sync v)
  | MSAUpdate a x => mkV (v_ep v) (v_pol v) (v_prof v) (v_ips v) (upd (v_sa v) a (Some x)) (v_ns v) (v_sync v)
  | MSARemove a => mkV (v_ep v) (v_pol v) (v_prof v) (v_ips v) (upd (v_sa v) a None) (v_ns v) (v_sync v)
  | MNSUpdate a x => mkV (v_ep v) (v_pol v) (v_prof v) (v_ips v) (v_sa v) (upd (v_ns v) a (Some x)) (v_sync v)
  | MNSRemove a => mkV (v_ep v) (v_pol v) (v_prof v) (v_ips v) (v_sa v) (upd (v_ns v) a None) (v_sync v)
  end.

Definition vfold (v : view) (ms : list msg) : view := fold_left vapply ms v.
Definition vinit : view := mkV None (fun _ => None) (fun _ => None) (fun _ => None) (fun _ => None) (fun _ => None) false.

Definition veq (a b : view) : Prop :=
  v_ep a = v_ep b /\ (forall k, v_pol a k = v_pol b k) /\ (forall k, v_prof a k = v_prof b k)
  /\ (forall k, v_ips a k = v_ips b k) /\ (forall k, v_sa a k = v_sa b k) /\ (forall k, v_ns a k = v_ns b k)
  /\ v_sync a = v_sync b.

Definition holds (v : view) (cs : cstate) : Prop :=
  c_ep cs = v_ep v /\ (forall k, lookup k (c_pol cs) = v_pol v k) /\ (forall k, lookup k (c_prof cs) = v_prof v k)
  /\ (forall k, lookup k (c_ips cs) = v_ips v k) /\ (forall k, lookup k (c_sa cs) = v_sa v k)
  /\ (forall k, lookup k (c_ns cs) = v_ns v k) /\ c_insync cs = v_sync v.

Definition wfc (cs : cstate) : Prop := fal (c_pol cs) /\ fal (c_prof cs).

Lemma holds_init : holds vinit cinit.
Proof. repeat split. Qed.
Lemma wfc_init : wfc cinit.
Proof. split; apply fal_nil. Qed.

Lemma holds_veq : forall a b cs, holds a cs -> veq a b -> holds b cs.
Proof.
  intros a b cs (H1 & H2 & H3 & H4 & H5 & H6 & H7) (E1 & E2 & E3 & E4 & E5 & E6 & E7).
  repeat split; intros; congruence.
Qed.

Lemma wfc_apply : forall cs m, wfc cs -> wfc (apply cs m).
Proof.
  intros cs m [F1 F2]. destruct m; simpl; try (split; assumption);
    try (split; [apply fal_insert || apply fal_remove|]; assumption);
    try (split; [|apply fal_insert || apply fal_remove]; assumption).
  destruct (lookup s (c_ips cs)); split; assumption.
Qed.
Lemma wfc_fold : forall ms cs, wfc cs -> wfc (fold_left apply ms cs).
Proof. induction ms; simpl; intros; [assumption|apply IHms, wfc_apply; assumption]. Qed.

Lemma holds_apply : forall v cs m, holds v cs -> holds (vapply v m) (apply cs m).
Proof.
  intros v cs m (H1 & H2 & H3 & H4 & H5 & H6 & H7).
  destruct m; simpl;
    try (repeat split; simpl; intros; auto; unfold upd;
         try rewrite lookup_insert; try rewrite lookup_remove;
         match goal with |- context [Nat.eqb ?a ?b] => destruct (Nat.eqb a b) | _ => idtac end; auto; fail).
  rewrite H4. destruct (v_ips v s); [|repeat split; assumption].
  repeat split; simpl; intros; auto; unfold upd; try rewrite lookup_insert; try rewrite lookup_remove;
    match goal with |- context [Nat.eqb ?a ?b] => destruct (Nat.eqb a b) | _ => idtac end; auto.
Qed.

(* ---- referential integrity on views ---- *)

Definition RIv (v : view) : Prop :=
  (forall w e, v_ep v = Some (w, e) ->
     (forall p, In p (ep_policies e) -> v_pol v p <> None) /\ (forall p, In p (ep_profiles e) -> v_prof v p <> None))
  /\ (forall k r, v_pol v k = Some r -> forall s, In s (refs r) -> v_ips v s <> None)
  /\ (forall k r, v_prof v k = Some r -> forall s, In s (refs r) -> v_ips v s <> None).

Lemma ri_of : forall v cs, holds v cs -> wfc cs -> RIv v -> ri cs = true.
Proof.
  intros v cs (H1 & H2 & H3 & H4 & _) [F1 F2] (R1 & R2 & R3). unfold ri. apply andb_true_iff. split.
  - destruct (c_ep cs) as [[w e]|] eqn:E; [|reflexivity]. symmetry in H1. destruct (R1 _ _ H1) as [Ra Rb].
    apply andb_true_iff. split; apply forallb_forall; intros p Hp.
    + rewrite H2. specialize (Ra p Hp). destruct (v_pol v p); congruence.
    + rewrite H3. specialize (Rb p Hp). destruct (v_prof v p); congruence.
  - apply forallb_forall. intros [k r] Hin. apply forallb_forall. intros s Hs. simpl in Hs. rewrite H4.
    apply in_app_or in Hin. destruct Hin as [Hin|Hin].
    + apply F1 in Hin. rewrite H2 in Hin. specialize (R2 _ _ Hin s Hs). destruct (v_ips v s); congruence.
    + apply F2 in Hin. rewrite H3 in Hin. specialize (R3 _ _ Hin s Hs). destruct (v_ips v s); congruence.
Qed.

Lemma RIv_veq : forall a b, veq a b -> RIv a -> RIv b.
Proof.
  intros a b (E1 & E2 & E3 & E4 & _) (R1 & R2 & R3). split; [|split].
  - intros w e H. rewrite <- E1 in H. destruct (R1 _ _ H) as [Ra Rb].
    split; intros p Hp; [rewrite <- E2; apply Ra|rewrite <- E3; apply Rb]; exact Hp.
  - intros k r H s Hs. rewrite <- E2 in H. rewrite <- E4. eapply R2; eassumption.
  - intros k r H s Hs. rewrite <- E3 in H. rewrite <- E4. eapply R3; eassumption.
Qed.

Lemma RIv_init : RIv vinit.
Proof. split; [|split]; simpl; intros; discriminate. Qed.

Ltac upd_cases := unfold upd in *; repeat match goal with
  | H : context [Nat.eqb ?a ?b] |- _ => destruct (Nat.eqb_spec a b); subst
  | |- context [Nat.eqb ?a ?b] => destruct (Nat.eqb_spec a b); subst end.

Lemma RIv_add_ips : forall v s x, RIv v -> RIv (vapply v (MIPSetUpdate s x)).
Proof.
  intros v s x (R1 & R2 & R3). split; [|split]; simpl.
  - exact R1.
  - intros k r H t Ht. specialize (R2 _ _ H t Ht). upd_cases; congruence.
  - intros k r H t Ht. specialize (R3 _ _ H t Ht). upd_cases; congruence.
Qed.
Lemma RIv_delta : forall v s a r, RIv v -> RIv (vapply v (MIPSetDelta s a r)).
Proof.
  intros v s a r (R1 & R2 & R3). simpl. destruct (v_ips v s) eqn:E; [|split; [|split]; assumption].
  split; [|split]; simpl.
  - exact R1.
  - intros k r0 H t Ht. specialize (R2 _ _ H t Ht). upd_cases; congruence.
  - intros k r0 H t Ht. specialize (R3 _ _ H t Ht). upd_cases; congruence.
Qed.
Lemma RIv_add_pol : forall v i r, RIv v -> (forall s, In s (refs r) -> v_ips v s <> None) -> RIv (vapply v (MPolUpdate i r)).
Proof.
  intros v i r (R1 & R2 & R3) Hr. split; [|split]; simpl.
  - intros w e H. destruct (R1 _ _ H) as [Ra Rb]. split; [|exact Rb].
    intros p Hp. specialize (Ra p Hp). upd_cases; congruence.
  - intros k r0 H t Ht. upd_cases; [inversion H; subst; apply Hr; exact Ht|eapply R2; eassumption].
  - exact R3.
Qed.
Lemma RIv_add_prof : forall v i r, RIv v -> (forall s, In s (refs r) -> v_ips v s <> None) -> RIv (vapply v (MProfUpdate i r)).
Proof.
  intros v i r (R1 & R2 & R3) Hr. split; [|split]; simpl.
  - intros w e H. destruct (R1 _ _ H) as [Ra Rb]. split; [exact Ra|].
    intros p Hp. specialize (Rb p Hp). upd_cases; congruence.
  - exact R2.
  - intros k r0 H t Ht. upd_cases; [inversion H; subst; apply Hr; exact Ht|eapply R3; eassumption].
Qed.
Lemma RIv_set_ep : forall v w e, RIv v -> (forall p, In p (ep_policies e) -> v_pol v p <> None) ->
  (forall p, In p (ep_profiles e) -> v_prof v p <> None) -> RIv (vapply v (MWepUpdate w e)).
Proof.
  intros v w e (R1 & R2 & R3) Ha Hb. split; [|split]; simpl; [|exact R2|exact R3].
  intros w0 e0 H. inversion H; subst. split; assumption.
Qed.
Lemma RIv_rm_ep : forall v w, RIv v -> RIv (vapply v (MWepRemove w)).
Proof. intros v w (R1 & R2 & R3). split; [|split]; simpl; [intros; discriminate|exact R2|exact R3]. Qed.
Lemma RIv_rm_pol : forall v i, RIv v -> (forall w e, v_ep v = Some (w, e) -> ~ In i (ep_policies e)) -> RIv (vapply v (MPolRemove i)).
Proof.
  intros v i (R1 & R2 & R3) Hn. split; [|split]; simpl.
  - intros w e H. destruct (R1 _ _ H) as [Ra Rb]. split; [|exact Rb].
    intros p Hp. specialize (Ra p Hp). specialize (Hn _ _ H). upd_cases; congruence.
  - intros k r H t Ht. upd_cases; [discriminate|eapply R2; eassumption].
  - exact R3.
Qed.
Lemma RIv_rm_prof : forall v i, RIv v -> (forall w e, v_ep v = Some (w, e) -> ~ In i (ep_profiles e)) -> RIv (vapply v (MProfRemove i)).
Proof.
  intros v i (R1 & R2 & R3) Hn. split; [|split]; simpl.
  - intros w e H. destruct (R1 _ _ H) as [Ra Rb]. split; [exact Ra|].
    intros p Hp. specialize (Rb p Hp). specialize (Hn _ _ H). upd_cases; congruence.
  - exact R2.
  - intros k r H t Ht. upd_cases; [discriminate|eapply R3; eassumption].
Qed.
Lemma RIv_rm_ips : forall v s, RIv v -> (forall k r, v_pol v k = Some r -> ~ In s (refs r)) ->
  (forall k r, v_prof v k = Some r -> ~ In s (refs r)) -> RIv (vapply v (MIPSetRemove s)).
Proof.
  intros v s (R1 & R2 & R3) Ha Hb. split; [|split]; simpl.
  - exact R1.
  - intros k r H t Ht. specialize (R2 _ _ H t Ht). specialize (Ha _ _ H). upd_cases; congruence.
  - intros k r H t Ht. specialize (R3 _ _ H t Ht). specialize (Hb _ _ H). upd_cases; congruence.
Qed.
(* messages that touch neither endpoint, policies, profiles nor IP sets *)
Definition neutral (m : msg) : Prop :=
  match m with MInSync | MSAUpdate _ _ | MSARemove _ | MNSUpdate _ _ | MNSRemove _ => True | _ => False end.
Lemma RIv_neutral : forall v m, neutral m -> RIv v -> RIv (vapply v m).
Proof. intros v m N (R1 & R2 & R3). destruct m; simpl in N; try contradiction; (split; [|split]); simpl; assumption. Qed.

(* ---- apply_checked ---- *)

Lemma apply_checked_fst : forall w ms cs, fst (apply_checked w cs ms) = fold_left apply ms cs.
Proof.
  induction ms as [|m ms IH]; simpl; intro cs; [reflexivity|].
  specialize (IH (apply cs m)). destruct (apply_checked w (apply cs m) ms). simpl in *. exact IH.
Qed.
Lemma apply_checked_cons : forall w m ms cs,
  snd (apply_checked w cs (m :: ms)) = own w m && ri (apply cs m) && snd (apply_checked w (apply cs m) ms).
Proof. intros. simpl. destruct (apply_checked w (apply cs m) ms). reflexivity. Qed.
Lemma apply_checked_app : forall w m1 m2 cs,
  snd (apply_checked w cs (m1 ++ m2)) = snd (apply_checked w cs m1) && snd (apply_checked w (fold_left apply m1 cs) m2).
Proof.
  induction m1 as [|m m1 IH]; intros m2 cs.
  - reflexivity.
  - rewrite <- app_comm_cons. rewrite !apply_checked_cons. rewrite IH. simpl. rewrite !andb_assoc. reflexivity.
Qed.

(* ---- steps on views ---- *)

Fixpoint steps_ok (w : id) (v : view) (ms : list msg) : Prop :=
  match ms with
  | [] => True
  | m :: r => own w m = true /\ RIv (vapply v m) /\ steps_ok w (vapply v m) r
  end.

Lemma steps_sound : forall w ms v cs, wfc cs -> holds v cs -> steps_ok w v ms ->
  snd (apply_checked w cs ms) = true /\ holds (vfold v ms) (fold_left apply ms cs).
Proof.
  induction ms as [|m ms IH]; intros v cs W H S.
  - split; [reflexivity|exact H].
  - destruct S as (O & R & S). rewrite apply_checked_cons.
    assert (H' := holds_apply _ _ m H). assert (W' := wfc_apply _ m W).
    destruct (IH _ _ W' H' S) as [I1 I2]. split; [|exact I2].
    rewrite O, I1, (ri_of _ _ H' W' R). reflexivity.
Qed.

Lemma steps_app : forall w a b v, steps_ok w v a -> steps_ok w (vfold v a) b -> steps_ok w v (a ++ b).
Proof.
  induction a as [|m a IH]; simpl; intros b v Ha Hb; [exact Hb|].
  destruct Ha as (O & R & S). split; [exact O|split; [exact R|apply IH; assumption]].
Qed.

(* ---- the advance judgement ---- *)

Definition adv (w : id) (A : view) (gs : list (list msg)) (B : view) : Prop :=
  forall cs, wfc cs -> holds A cs -> forall ms, lin gs ms ->
    snd (apply_checked w cs ms) = true /\ holds B (fold_left apply ms cs).

Lemma adv_nil : forall w A, adv w A [] A.
Proof. intros w A cs W H ms L. inversion L; subst. split; [reflexivity|exact H]. Qed.

Lemma adv_seq : forall w A B C g1 g2, adv w A g1 B -> adv w B g2 C -> adv w A (g1 ++ g2) C.
Proof.
  intros w A B C g1 g2 H1 H2 cs W H ms L.
  apply lin_app_inv in L. destruct L as (m1 & m2 & E & L1 & L2). subst.
  destruct (H1 cs W H m1 L1) as [S1 B1].
  destruct (H2 _ (wfc_fold m1 cs W) B1 m2 L2) as [S2 B2].
  rewrite apply_checked_app, fold_left_app, S1, S2. split; [reflexivity|exact B2].
Qed.

Lemma adv_conseq : forall w A g B B', adv w A g B -> veq B B' -> adv w A g B'.
Proof.
  intros w A g B B' H E cs W Hc ms L. destruct (H cs W Hc ms L) as [S Hb]. split; [exact S|].
  eapply holds_veq; eassumption.
Qed.
Lemma adv_pre : forall w A A' g B, adv w A g B -> veq A' A -> adv w A' g B.
Proof.
  intros w A A' g B H E cs W Hc ms L. apply (H cs W); [eapply holds_veq; eassumption|exact L].
Qed.

Lemma steps_RIv : forall w ms v, RIv v -> steps_ok w v ms -> RIv (vfold v ms).
Proof.
  induction ms as [|m ms IH]; simpl; intros v R S; [exact R|]. destruct S as (_ & R' & S). apply IH; assumption.
Qed.

(* [adv] together with the integrity of the view reached *)
Definition advR (w : id) (A : view) (gs : list (list msg)) (B : view) : Prop := adv w A gs B /\ RIv B.

Lemma advR_nil : forall w A, RIv A -> advR w A [] A.
Proof. intros. split; [apply adv_nil|assumption]. Qed.
Lemma advR_seq : forall w A B C g1 g2, advR w A g1 B -> advR w B g2 C -> advR w A (g1 ++ g2) C.
Proof. intros w A B C g1 g2 [H1 _] [H2 R]. split; [eapply adv_seq; eassumption|exact R]. Qed.
Lemma advR_conseq : forall w A g B B', advR w A g B -> veq B B' -> advR w A g B'.
Proof. intros w A g B B' [H R] E. split; [eapply adv_conseq; eassumption|eapply RIv_veq; eassumption]. Qed.

(* an unordered group *)
Lemma adv_group : forall w A g B, RIv A ->
  (forall p, Permutation g p -> steps_ok w A p /\ veq (vfold A p) B) -> advR w A [g] B.
Proof.
  intros w A g B RA Hp. split.
  - intros cs W H ms L. apply lin_one_inv in L. destruct (Hp ms L) as [S E].
    destruct (steps_sound w ms A cs W H S) as [S1 S2]. split; [exact S1|]. eapply holds_veq; eassumption.
  - destruct (Hp g (Permutation_refl g)) as [S E]. eapply RIv_veq; [exact E|]. eapply steps_RIv; eassumption.
Qed.
(* messages sent one by one *)
Lemma adv_list : forall w A ms B, RIv A -> steps_ok w A ms -> veq (vfold A ms) B -> advR w A (map (fun m => [m]) ms) B.
Proof.
  intros w A ms B RA S E. split.
  - intros cs W H ms' L. apply lin_singletons_inv in L. subst ms'.
    destruct (steps_sound w ms A cs W H S) as [S1 S2]. split; [exact S1|]. eapply holds_veq; eassumption.
  - eapply RIv_veq; [exact E|]. eapply steps_RIv; eassumption.
Qed.
Lemma adv_one : forall w A m B, RIv A -> own w m = true -> RIv (vapply A m) -> veq (vapply A m) B -> advR w A [[m]] B.
Proof.
  intros w A m B RA O R E. apply (adv_list w A [m] B); [exact RA|simpl; split; [exact O|split; [exact R|exact I]]|exact E].
Qed.

Lemma veq_refl : forall a, veq a a.
Proof. intro a. repeat split. Qed.
