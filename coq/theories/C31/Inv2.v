(* C31 — the invariant, part 2: definition and the handlers that touch every endpoint the same way. *)
From Coq Require Import List Arith Bool Permutation Lia.
From Verif.C31 Require Import Model Spec Lemmas Views Groups GroupAdv Sync Inv.
Import ListNotations.

Definition epo_of (w : id) (ei : einfo) : option (id * endpoint) :=
  match e_upd ei with Some e => Some (w, e) | None => None end.
Definition ep_target (st : state) (w : id) (ei : einfo) : view :=
  tgt (stv st) st (epo_of w ei) (e_spol ei) (e_sprof ei) (e_sips ei).

Definition sync_ok (st : state) (ei : einfo) : Prop :=
  match e_upd ei with
  | Some e => e_spol ei = ep_pols e /\ e_sprof ei = ep_profiles e /\ needed_ips st ei = Some (e_sips ei)
  | None => e_spol ei = [] /\ e_sprof ei = [] /\ e_sips ei = []
  end.

Definition live_ok (st : state) (w : id) (ei : einfo) : Prop :=
  match e_out ei with
  | None => e_uid ei = 0
  | Some (j, s) => e_uid ei <> 0 /\ advR w vinit (groups s) (ep_target st w ei) /\ sync_ok st ei
  end.

Definition absw (st : state) (w : id) : option endpoint * option (nat * nat) :=
  match lookup w (eps st) with
  | Some ei => (e_upd ei, match e_out ei with Some (j, _) => Some (j, e_uid ei) | None => None end)
  | None => (None, None)
  end.

Record Inv (T : truth) (st : state) : Prop := mkInv {
  i_pols : pols st = t_pols T; i_profs : profs st = t_profs T; i_ips : ipsets st = t_ips T;
  i_sas : sas st = t_sas T; i_nss : nss st = t_nss T; i_sync : insync st = t_insync T; i_nj : njoins st = t_njoins T;
  i_abs : forall w, absw st w = (lookup w (t_eps T), lookup w (t_conn T));
  i_fal : fal (eps st); i_fsa : fal (sas st); i_fns : fal (nss st);
  i_wft : WFT T;
  i_live : forall w ei, In (w, ei) (eps st) -> live_ok st w ei;
  i_closed : forall j w c s, In (j, (w, c, s)) (closed st) ->
             forall ms, lin (groups s) ms -> snd (apply_checked w cinit ms) = true;
  i_wfc : WFC T;
  i_cidx : forall j w c s, In (j, (w, c, s)) (closed st) -> cfree T j }.

Lemma inv_wfb : forall T st, Inv T st -> WFb st.
Proof.
  intros T st I. destruct (i_wft _ _ I) as (_ & W2 & W3). unfold WFb.
  rewrite (i_pols _ _ I), (i_profs _ _ I), (i_ips _ _ I). split; assumption.
Qed.

Lemma inv_ep_facts : forall T st w ei e, Inv T st -> In (w, ei) (eps st) -> e_upd ei = Some e ->
  (forall p, In p (ep_policies e) -> lookup p (pols st) <> None) /\
  (forall p, In p (ep_profiles e) -> lookup p (profs st) <> None) /\
  has_dup (ep_pols e) = false /\ has_dup (ep_profiles e) = false.
Proof.
  intros T st w ei e I H U. assert (L := i_fal _ _ I _ _ H). assert (A := i_abs _ _ I w). unfold absw in A. rewrite L, U in A.
  inversion A as [[A1 A2]]. destruct (i_wft _ _ I) as (W1 & _). rewrite (i_pols _ _ I), (i_profs _ _ I). apply (W1 w e). auto.
Qed.

(* ---- targets and table changes ---- *)

Lemma tgt_tables : forall X st st' epo sp sf si,
  pols st' = pols st -> profs st' = profs st -> ipsets st' = ipsets st ->
  tgt X st' epo sp sf si = tgt X st epo sp sf si.
Proof. intros. unfold tgt. rewrite H, H0, H1. reflexivity. Qed.

Lemma tgt_X : forall X X' st epo sp sf si,
  (forall k, v_sa X k = v_sa X' k) -> (forall k, v_ns X k = v_ns X' k) -> v_sync X = v_sync X' ->
  veq (tgt X st epo sp sf si) (tgt X' st epo sp sf si).
Proof. intros. unfold veq, tgt; simpl. repeat split; auto. Qed.

Lemma vapply_tgt_neutral : forall m X st epo sp sf si, neutral m ->
  vapply (tgt X st epo sp sf si) m = tgt (vapply X m) st epo sp sf si.
Proof. intros m X st epo sp sf si N. destruct m; simpl in N; try contradiction; reflexivity. Qed.

Lemma needed_ips_tables : forall st st' ei, pols st' = pols st -> profs st' = profs st -> needed_ips st' ei = needed_ips st ei.
Proof. intros. unfold needed_ips. rewrite H, H0. reflexivity. Qed.

Lemma sync_ok_tables : forall st st' ei, pols st' = pols st -> profs st' = profs st -> sync_ok st ei -> sync_ok st' ei.
Proof.
  intros st st' ei H1 H2 S. unfold sync_ok in *. destruct (e_upd ei); [|exact S].
  destruct S as (A & B & C). rewrite (needed_ips_tables _ _ _ H1 H2). auto.
Qed.

(* a live endpoint that receives the groups [t] *)
Lemma live_ok_extend : forall st st' w ei ei' j s t,
  live_ok st w ei -> e_out ei = Some (j, s) -> e_out ei' = Some (j, s ++ t) -> e_uid ei' = e_uid ei ->
  advR w (ep_target st w ei) (groups t) (ep_target st' w ei') -> sync_ok st' ei' -> live_ok st' w ei'.
Proof.
  intros st st' w ei ei' j s t L O O' U A S. unfold live_ok in *. rewrite O in L. rewrite O'.
  destruct L as (L1 & L2 & _). split; [congruence|]. split; [|exact S].
  rewrite groups_app. eapply advR_seq; eassumption.
Qed.

(* ---- handlers that send one neutral message to every connected endpoint ---- *)

Lemma lookup_map_snd : forall (G : einfo -> einfo) l w,
  lookup w (map (fun we : id * einfo => (fst we, G (snd we))) l) = option_map G (lookup w l).
Proof.
  intros G l w. induction l as [|[a x] l IH]; simpl; [reflexivity|]. destruct (Nat.eqb w a); [reflexivity|exact IH].
Qed.
Lemma fal_map_snd : forall (G : einfo -> einfo) l, fal l -> fal (map (fun we : id * einfo => (fst we, G (snd we))) l).
Proof.
  intros G l F w x H. apply in_map_iff in H. destruct H as ([a y] & E & H). simpl in E. inversion E; subst.
  rewrite lookup_map_snd, (F _ _ H). reflexivity.
Qed.

Lemma broadcast_inv : forall T T' st st' m,
  Inv T st -> neutral m ->
  eps st' = broadcast st m -> pols st' = pols st -> profs st' = profs st -> ipsets st' = ipsets st ->
  closed st' = closed st ->
  (forall k, v_sa (vapply (stv st) m) k = v_sa (stv st') k) ->
  (forall k, v_ns (vapply (stv st) m) k = v_ns (stv st') k) ->
  v_sync (vapply (stv st) m) = v_sync (stv st') ->
  pols st' = t_pols T' -> profs st' = t_profs T' -> ipsets st' = t_ips T' -> sas st' = t_sas T' -> nss st' = t_nss T' ->
  insync st' = t_insync T' -> njoins st' = t_njoins T' -> t_eps T' = t_eps T -> t_conn T' = t_conn T -> t_njoins T' = t_njoins T ->
  fal (sas st') -> fal (nss st') -> WFT T' -> Inv T' st'.
Proof.
  intros T T' st st' m I N HE HP HF HI HC XA XN XS E1 E2 E3 E4 E5 E6 E7 E8 E9 E10 FA FN W.
  constructor; try assumption.
  - intro w. rewrite E8, E9, <- (i_abs _ _ I w). unfold absw. rewrite HE. unfold broadcast. rewrite lookup_map_snd.
    destruct (lookup w (eps st)) as [ei|]; simpl; [|reflexivity].
    destruct ei as [o u up a b d]. destruct o as [[j s]|]; reflexivity.
  - rewrite HE. apply fal_map_snd. apply (i_fal _ _ I).
  - intros w ei' H. rewrite HE in H. unfold broadcast in H. apply in_map_iff in H. destruct H as ([a ei] & E & H).
    simpl in E. inversion E; subst a ei'. clear E. assert (L := i_live _ _ I _ _ H).
    destruct (e_out ei) as [[j s]|] eqn:O.
    + assert (O' : e_out (emit (clk st) [m] ei) = Some (j, s ++ [(clk st, [m])])) by (unfold emit; rewrite O; reflexivity).
      assert (SY : sync_ok st' (emit (clk st) [m] ei)).
      { unfold live_ok in L. rewrite O in L. destruct L as (_ & _ & S). apply (sync_ok_tables st st' _ HP HF).
        unfold sync_ok, emit in *. rewrite O. exact S. }
      eapply (live_ok_extend st st' w ei _ j s [(clk st, [m])] L O O'); [unfold emit; rewrite O; reflexivity| |exact SY].
      assert (RA : RIv (ep_target st w ei)) by (unfold live_ok in L; rewrite O in L; apply L).
      change (groups [(clk st, [m])]) with [[m]]. apply adv_one; [exact RA|destruct m; simpl in N; try contradiction; reflexivity| |].
      * apply RIv_neutral; assumption.
      * unfold ep_target. rewrite vapply_tgt_neutral by exact N. rewrite (tgt_tables _ st st') by assumption.
        unfold emit; rewrite O; unfold epo_of; simpl. apply tgt_X; assumption.
    + unfold live_ok in L. rewrite O in L. unfold live_ok, emit. rewrite O. rewrite ?O. exact L.
  - intros j w c s H. rewrite HC in H. apply (i_closed _ _ I j w c s H).
  - unfold WFC. rewrite E9, E10. apply (i_wfc _ _ I).
  - intros j w c s H. rewrite HC in H. unfold cfree. rewrite E9, E10. apply (i_cidx _ _ I j w c s H).
Qed.
