(* C31 — the invariant, part 4: in-sync, service accounts, namespaces, removals of policies/profiles/IP sets. *)
From Coq Require Import List Arith Bool Permutation Lia.
From Verif.C31 Require Import Model Spec Lemmas Views Groups GroupAdv Sync Inv Inv2 Inv3.
Import ListNotations.

Ltac tbl I := simpl; rewrite ?(i_pols _ _ I), ?(i_profs _ _ I), ?(i_ips _ _ I), ?(i_sas _ _ I), ?(i_nss _ _ I),
                     ?(i_sync _ _ I), ?(i_nj _ _ I); reflexivity.

Definition step_ok (T : truth) (st : state) (o : op) : Prop :=
  exists st', step st o = Some st' /\ Inv (tstep T o) st'.

Lemma step_insync : forall T st, Inv T st -> step_ok T st OInSync.
Proof.
  intros T st I. unfold step_ok. simpl. assert (W := wft_step T OInSync (i_wft _ _ I) eq_refl).
  destruct (insync st) eqn:S.
  - exists st. split; [reflexivity|]. eapply (tables_inv T _ st st I); try reflexivity; try (tbl I); try exact W.
    + intros; repeat split; reflexivity.
    + simpl. exact S.
  - eexists. split; [reflexivity|]. eapply (broadcast_inv T _ st _ MInSync I); try reflexivity; try (tbl I); try exact W; try exact I.
    + apply (i_fsa _ _ I).
    + apply (i_fns _ _ I).
Qed.

Lemma step_sa_update : forall T st a v, Inv T st -> step_ok T st (OSAUpdate a v).
Proof.
  intros T st a v I. unfold step_ok. simpl. assert (W := wft_step T (OSAUpdate a v) (i_wft _ _ I) eq_refl).
  eexists. split; [reflexivity|]. eapply (broadcast_inv T _ st _ (MSAUpdate a v) I); try reflexivity; try (tbl I); try exact W; try exact I.
  - intro k. cbn [v_sa v_ns stv vapply sas nss]. unfold upd. rewrite lookup_insert. reflexivity.
  - simpl. apply fal_insert, (i_fsa _ _ I).
  - apply (i_fns _ _ I).
Qed.
Lemma step_sa_remove : forall T st a, Inv T st -> step_ok T st (OSARemove a).
Proof.
  intros T st a I. unfold step_ok. simpl. assert (W := wft_step T (OSARemove a) (i_wft _ _ I) eq_refl).
  eexists. split; [reflexivity|]. eapply (broadcast_inv T _ st _ (MSARemove a) I); try reflexivity; try (tbl I); try exact W; try exact I.
  - intro k. cbn [v_sa v_ns stv vapply sas nss]. unfold upd. rewrite lookup_remove. reflexivity.
  - simpl. apply fal_remove, (i_fsa _ _ I).
  - apply (i_fns _ _ I).
Qed.
Lemma step_ns_update : forall T st a v, Inv T st -> step_ok T st (ONSUpdate a v).
Proof.
  intros T st a v I. unfold step_ok. simpl. assert (W := wft_step T (ONSUpdate a v) (i_wft _ _ I) eq_refl).
  eexists. split; [reflexivity|]. eapply (broadcast_inv T _ st _ (MNSUpdate a v) I); try reflexivity; try (tbl I); try exact W; try exact I.
  - intro k. cbn [v_sa v_ns stv vapply sas nss]. unfold upd. rewrite lookup_insert. reflexivity.
  - apply (i_fsa _ _ I).
  - simpl. apply fal_insert, (i_fns _ _ I).
Qed.
Lemma step_ns_remove : forall T st a, Inv T st -> step_ok T st (ONSRemove a).
Proof.
  intros T st a I. unfold step_ok. simpl. assert (W := wft_step T (ONSRemove a) (i_wft _ _ I) eq_refl).
  eexists. split; [reflexivity|]. eapply (broadcast_inv T _ st _ (MNSRemove a) I); try reflexivity; try (tbl I); try exact W; try exact I.
  - intro k. cbn [v_sa v_ns stv vapply sas nss]. unfold upd. rewrite lookup_remove. reflexivity.
  - apply (i_fsa _ _ I).
  - simpl. apply fal_remove, (i_fns _ _ I).
Qed.

Lemma step_pol_remove : forall T st p, Inv T st -> valid_op T (OPolRemove p) = true -> step_ok T st (OPolRemove p).
Proof.
  intros T st p I V. unfold step_ok. assert (W := wft_step T _ (i_wft _ _ I) V). simpl in V. apply negb_true_iff in V.
  eexists. split; [reflexivity|]. eapply (tables_inv T _ st _ I); try reflexivity; try (tbl I); try exact W.
  intros w ei H O. split; [|split; intros; reflexivity]. intros k M. cbn [pols profs ipsets]. rewrite lookup_remove.
  destruct (Nat.eqb_spec k p) as [->|N]; [|reflexivity]. exfalso.
  destruct (spol_listed st w ei p (i_live _ _ I _ _ H) O M) as (e & U & Hp).
  assert (X : existsb (fun we : id * endpoint => mem p (ep_policies (snd we))) (t_eps T) = true); [|congruence].
  apply existsb_exists. exists (w, e). split; [apply lookup_in; rewrite (entry_truth T st w ei I H); exact U|apply mem_In; exact Hp].
Qed.
Lemma step_prof_remove : forall T st p, Inv T st -> valid_op T (OProfRemove p) = true -> step_ok T st (OProfRemove p).
Proof.
  intros T st p I V. unfold step_ok. assert (W := wft_step T _ (i_wft _ _ I) V). simpl in V. apply negb_true_iff in V.
  eexists. split; [reflexivity|]. eapply (tables_inv T _ st _ I); try reflexivity; try (tbl I); try exact W.
  intros w ei H O. split; [intros; reflexivity|split; [|intros; reflexivity]]. intros k M. cbn [pols profs ipsets]. rewrite lookup_remove.
  destruct (Nat.eqb_spec k p) as [->|N]; [|reflexivity]. exfalso.
  destruct (sprof_listed st w ei p (i_live _ _ I _ _ H) O M) as (e & U & Hp).
  assert (X : existsb (fun we : id * endpoint => mem p (ep_profiles (snd we))) (t_eps T) = true); [|congruence].
  apply existsb_exists. exists (w, e). split; [apply lookup_in; rewrite (entry_truth T st w ei I H); exact U|apply mem_In; exact Hp].
Qed.

Lemma not_referenced : forall T st s, Inv T st ->
  existsb (fun pr : id * rules => mem s (refs (snd pr))) (t_pols T ++ t_profs T) = false ->
  forall w ei, In (w, ei) (eps st) -> e_out ei <> None -> mem s (e_sips ei) = true -> False.
Proof.
  intros T st s I V w ei H O M.
  assert (X : existsb (fun pr : id * rules => mem s (refs (snd pr))) (t_pols T ++ t_profs T) = true); [|congruence].
  apply existsb_exists.
  destruct (sips_referenced st w ei s (i_live _ _ I _ _ H) O M) as [(k & r & A & B)|(k & r & A & B)]; exists (k, r); (split; [|apply mem_In; exact B]); apply in_or_app.
  - right. apply lookup_in. rewrite <- (i_profs _ _ I). exact A.
  - left. apply lookup_in. rewrite <- (i_pols _ _ I). exact A.
Qed.

Lemma step_ipset_remove : forall T st s, Inv T st -> valid_op T (OIPSetRemove s) = true -> step_ok T st (OIPSetRemove s).
Proof.
  intros T st s I V. unfold step_ok. assert (W := wft_step T _ (i_wft _ _ I) V). simpl in V. apply negb_true_iff in V.
  eexists. split; [reflexivity|]. eapply (tables_inv T _ st _ I); try reflexivity; try (tbl I); try exact W.
  intros w ei H O. split; [intros; reflexivity|split; [intros; reflexivity|]]. intros k M. cbn [pols profs ipsets]. rewrite lookup_remove.
  destruct (Nat.eqb_spec k s) as [->|N]; [|reflexivity]. exfalso. eapply not_referenced; eassumption.
Qed.
