(* C31 — effect of homogeneous message lists on views, and their step-by-step integrity. *)
From Coq Require Import List Arith Bool Permutation Lia.
From Verif.C31 Require Import Model Spec Lemmas Views.
Import ListNotations.

Ltac frame_tac IH :=
  let a := fresh in let b := fresh in let c := fresh in let d := fresh in let e := fresh in let f := fresh in let g := fresh in
  destruct IH as (a & b & c & d & e & f & g); simpl in *;
  repeat split; intros; try congruence; try (rewrite b || rewrite c || rewrite d || rewrite e || rewrite f); try reflexivity.

(* ---- additions ---- *)

Lemma vfold_ips_add : forall G l V,
  let V' := vfold V (map (fun s => MIPSetUpdate s (G s)) l) in
  v_ep V' = v_ep V /\ (forall k, v_pol V' k = v_pol V k) /\ (forall k, v_prof V' k = v_prof V k)
  /\ (forall k, v_sa V' k = v_sa V k) /\ (forall k, v_ns V' k = v_ns V k) /\ v_sync V' = v_sync V
  /\ (forall k, v_ips V' k = if mem k l then Some (G k) else v_ips V k).
Proof.
  intros G l. unfold vfold. induction l as [|s l IH]; intro V; simpl.
  - repeat split.
  - specialize (IH (vapply V (MIPSetUpdate s (G s)))). simpl in IH.
    destruct IH as (a & b & c & d & e & f & g). repeat split; try assumption; intro k.
    rewrite g. simpl. unfold upd. destruct (Nat.eqb_spec k s) as [E|E]; simpl; [rewrite E; destruct (mem s l); reflexivity|destruct (mem k l); reflexivity].
Qed.

Lemma vfold_pol_add : forall G l V,
  let V' := vfold V (map (fun s => MPolUpdate s (G s)) l) in
  v_ep V' = v_ep V /\ (forall k, v_ips V' k = v_ips V k) /\ (forall k, v_prof V' k = v_prof V k)
  /\ (forall k, v_sa V' k = v_sa V k) /\ (forall k, v_ns V' k = v_ns V k) /\ v_sync V' = v_sync V
  /\ (forall k, v_pol V' k = if mem k l then Some (G k) else v_pol V k).
Proof.
  intros G l. unfold vfold. induction l as [|s l IH]; intro V; simpl.
  - repeat split.
  - specialize (IH (vapply V (MPolUpdate s (G s)))). simpl in IH.
    destruct IH as (a & b & c & d & e & f & g). repeat split; try assumption; intro k.
    rewrite g. simpl. unfold upd. destruct (Nat.eqb_spec k s) as [E|E]; simpl; [rewrite E; destruct (mem s l); reflexivity|destruct (mem k l); reflexivity].
Qed.

Lemma vfold_prof_add : forall G l V,
  let V' := vfold V (map (fun s => MProfUpdate s (G s)) l) in
  v_ep V' = v_ep V /\ (forall k, v_ips V' k = v_ips V k) /\ (forall k, v_pol V' k = v_pol V k)
  /\ (forall k, v_sa V' k = v_sa V k) /\ (forall k, v_ns V' k = v_ns V k) /\ v_sync V' = v_sync V
  /\ (forall k, v_prof V' k = if mem k l then Some (G k) else v_prof V k).
Proof.
  intros G l. unfold vfold. induction l as [|s l IH]; intro V; simpl.
  - repeat split.
  - specialize (IH (vapply V (MProfUpdate s (G s)))). simpl in IH.
    destruct IH as (a & b & c & d & e & f & g). repeat split; try assumption; intro k.
    rewrite g. simpl. unfold upd. destruct (Nat.eqb_spec k s) as [E|E]; simpl; [rewrite E; destruct (mem s l); reflexivity|destruct (mem k l); reflexivity].
Qed.

(* ---- removals ---- *)

Lemma vfold_ips_rm : forall l V,
  let V' := vfold V (map MIPSetRemove l) in
  v_ep V' = v_ep V /\ (forall k, v_pol V' k = v_pol V k) /\ (forall k, v_prof V' k = v_prof V k)
  /\ (forall k, v_sa V' k = v_sa V k) /\ (forall k, v_ns V' k = v_ns V k) /\ v_sync V' = v_sync V
  /\ (forall k, v_ips V' k = if mem k l then None else v_ips V k).
Proof.
  unfold vfold. induction l as [|s l IH]; intro V; simpl.
  - repeat split.
  - specialize (IH (vapply V (MIPSetRemove s))). simpl in IH.
    destruct IH as (a & b & c & d & e & f & g). repeat split; try assumption; intro k.
    rewrite g. simpl. unfold upd. destruct (Nat.eqb_spec k s) as [E|E]; simpl; [rewrite E; destruct (mem s l); reflexivity|destruct (mem k l); reflexivity].
Qed.
Lemma vfold_pol_rm : forall l V,
  let V' := vfold V (map MPolRemove l) in
  v_ep V' = v_ep V /\ (forall k, v_ips V' k = v_ips V k) /\ (forall k, v_prof V' k = v_prof V k)
  /\ (forall k, v_sa V' k = v_sa V k) /\ (forall k, v_ns V' k = v_ns V k) /\ v_sync V' = v_sync V
  /\ (forall k, v_pol V' k = if mem k l then None else v_pol V k).
Proof.
  unfold vfold. induction l as [|s l IH]; intro V; simpl.
  - repeat split.
  - specialize (IH (vapply V (MPolRemove s))). simpl in IH.
    destruct IH as (a & b & c & d & e & f & g). repeat split; try assumption; intro k.
    rewrite g. simpl. unfold upd. destruct (Nat.eqb_spec k s) as [E|E]; simpl; [rewrite E; destruct (mem s l); reflexivity|destruct (mem k l); reflexivity].
Qed.
Lemma vfold_prof_rm : forall l V,
  let V' := vfold V (map MProfRemove l) in
  v_ep V' = v_ep V /\ (forall k, v_ips V' k = v_ips V k) /\ (forall k, v_pol V' k = v_pol V k)
  /\ (forall k, v_sa V' k = v_sa V k) /\ (forall k, v_ns V' k = v_ns V k) /\ v_sync V' = v_sync V
  /\ (forall k, v_prof V' k = if mem k l then None else v_prof V k).
Proof.
  unfold vfold. induction l as [|s l IH]; intro V; simpl.
  - repeat split.
  - specialize (IH (vapply V (MProfRemove s))). simpl in IH.
    destruct IH as (a & b & c & d & e & f & g). repeat split; try assumption; intro k.
    rewrite g. simpl. unfold upd. destruct (Nat.eqb_spec k s) as [E|E]; simpl; [rewrite E; destruct (mem s l); reflexivity|destruct (mem k l); reflexivity].
Qed.

(* ---- service accounts / namespaces: all entries of a table ---- *)

Definition haskey {V} (k : id) (l : list (id * V)) : bool := existsb (fun av => Nat.eqb k (fst av)) l.

Lemma vfold_sa_add : forall G l V, (forall k v, In (k, v) l -> G k = Some v) ->
  let V' := vfold V (map (fun av => MSAUpdate (fst av) (snd av)) l) in
  v_ep V' = v_ep V /\ (forall k, v_pol V' k = v_pol V k) /\ (forall k, v_prof V' k = v_prof V k)
  /\ (forall k, v_ips V' k = v_ips V k) /\ (forall k, v_ns V' k = v_ns V k) /\ v_sync V' = v_sync V
  /\ (forall k, v_sa V' k = if haskey k l then G k else v_sa V k).
Proof.
  intros G l. unfold vfold. induction l as [|[a x] l IH]; intros V HG; simpl.
  - repeat split.
  - assert (HG' : forall k v, In (k, v) l -> G k = Some v) by (intros; apply HG; right; assumption).
    specialize (IH (vapply V (MSAUpdate a x)) HG'). simpl in IH.
    destruct IH as (b & c & d & e & f & g & h). repeat split; try assumption; intro k.
    rewrite h. simpl. unfold upd. destruct (Nat.eqb_spec k a) as [E|E]; simpl; [|reflexivity]. rewrite E.
    destruct (haskey a l); [reflexivity|]. symmetry. apply HG. left; reflexivity.
Qed.
Lemma vfold_ns_add : forall G l V, (forall k v, In (k, v) l -> G k = Some v) ->
  let V' := vfold V (map (fun av => MNSUpdate (fst av) (snd av)) l) in
  v_ep V' = v_ep V /\ (forall k, v_pol V' k = v_pol V k) /\ (forall k, v_prof V' k = v_prof V k)
  /\ (forall k, v_ips V' k = v_ips V k) /\ (forall k, v_sa V' k = v_sa V k) /\ v_sync V' = v_sync V
  /\ (forall k, v_ns V' k = if haskey k l then G k else v_ns V k).
Proof.
  intros G l. unfold vfold. induction l as [|[a x] l IH]; intros V HG; simpl.
  - repeat split.
  - assert (HG' : forall k v, In (k, v) l -> G k = Some v) by (intros; apply HG; right; assumption).
    specialize (IH (vapply V (MNSUpdate a x)) HG'). simpl in IH.
    destruct IH as (b & c & d & e & f & g & h). repeat split; try assumption; intro k.
    rewrite h. simpl. unfold upd. destruct (Nat.eqb_spec k a) as [E|E]; simpl; [|reflexivity]. rewrite E.
    destruct (haskey a l); [reflexivity|]. symmetry. apply HG. left; reflexivity.
Qed.

Lemma haskey_lookup : forall V k (l : list (id * V)), haskey k l = match lookup k l with Some _ => true | None => false end.
Proof.
  intros V k l. induction l as [|[a x] l IH]; simpl; [reflexivity|].
  destruct (Nat.eqb k a); simpl; [reflexivity|exact IH].
Qed.
Lemma haskey_true : forall V k (l : list (id * V)), haskey k l = true <-> exists v, In (k, v) l.
Proof.
  intros V k l. unfold haskey. rewrite existsb_exists. split.
  - intros [[a v] [H1 H2]]. simpl in H2. apply Nat.eqb_eq in H2. subst. exists v; exact H1.
  - intros [v H]. exists (k, v). split; [exact H|apply Nat.eqb_refl].
Qed.
Lemma haskey_perm : forall V k (l l' : list (id * V)), Permutation l l' -> haskey k l = haskey k l'.
Proof.
  intros V k l l' P. destruct (haskey k l) eqn:E1, (haskey k l') eqn:E2; try reflexivity.
  - apply haskey_true in E1. destruct E1 as [v H].
    assert (haskey k l' = true) by (apply haskey_true; exists v; eapply Permutation_in; eassumption). congruence.
  - apply haskey_true in E2. destruct E2 as [v H].
    assert (haskey k l = true) by (apply haskey_true; exists v; eapply Permutation_in; [apply Permutation_sym|]; eassumption). congruence.
Qed.

(* ---- integrity step by step ---- *)

Lemma steps_ips_add : forall w G l V, RIv V -> steps_ok w V (map (fun s => MIPSetUpdate s (G s)) l).
Proof.
  intros w G l. induction l as [|s l IH]; intros V R; simpl; [exact I|].
  assert (R' := RIv_add_ips V s (G s) R). split; [reflexivity|split; [exact R'|apply IH; exact R']].
Qed.
Lemma steps_pol_add : forall w G l V, RIv V -> (forall i, In i l -> forall s, In s (refs (G i)) -> v_ips V s <> None) ->
  steps_ok w V (map (fun s => MPolUpdate s (G s)) l).
Proof.
  intros w G l. induction l as [|i l IH]; intros V R H; simpl; [exact I|].
  assert (R' : RIv (vapply V (MPolUpdate i (G i)))) by (apply RIv_add_pol; [exact R|apply H; left; reflexivity]).
  split; [reflexivity|split; [exact R'|apply IH; [exact R'|]]]. simpl. intros; eapply H; [right|]; eassumption.
Qed.
Lemma steps_prof_add : forall w G l V, RIv V -> (forall i, In i l -> forall s, In s (refs (G i)) -> v_ips V s <> None) ->
  steps_ok w V (map (fun s => MProfUpdate s (G s)) l).
Proof.
  intros w G l. induction l as [|i l IH]; intros V R H; simpl; [exact I|].
  assert (R' : RIv (vapply V (MProfUpdate i (G i)))) by (apply RIv_add_prof; [exact R|apply H; left; reflexivity]).
  split; [reflexivity|split; [exact R'|apply IH; [exact R'|]]]. simpl. intros; eapply H; [right|]; eassumption.
Qed.
Lemma steps_pol_rm : forall w l V, RIv V -> (forall i, In i l -> forall w e, v_ep V = Some (w, e) -> ~ In i (ep_policies e)) ->
  steps_ok w V (map MPolRemove l).
Proof.
  intros w l. induction l as [|i l IH]; intros V R H; simpl; [exact I|].
  assert (R' : RIv (vapply V (MPolRemove i))) by (apply RIv_rm_pol; [exact R|apply H; left; reflexivity]).
  split; [reflexivity|split; [exact R'|apply IH; [exact R'|]]]. simpl. intros; eapply H; [right|]; eassumption.
Qed.
Lemma steps_prof_rm : forall w l V, RIv V -> (forall i, In i l -> forall w e, v_ep V = Some (w, e) -> ~ In i (ep_profiles e)) ->
  steps_ok w V (map MProfRemove l).
Proof.
  intros w l. induction l as [|i l IH]; intros V R H; simpl; [exact I|].
  assert (R' : RIv (vapply V (MProfRemove i))) by (apply RIv_rm_prof; [exact R|apply H; left; reflexivity]).
  split; [reflexivity|split; [exact R'|apply IH; [exact R'|]]]. simpl. intros; eapply H; [right|]; eassumption.
Qed.
Lemma steps_ips_rm : forall w l V, RIv V ->
  (forall s, In s l -> forall k r, v_pol V k = Some r -> ~ In s (refs r)) ->
  (forall s, In s l -> forall k r, v_prof V k = Some r -> ~ In s (refs r)) ->
  steps_ok w V (map MIPSetRemove l).
Proof.
  intros w l. induction l as [|i l IH]; intros V R H1 H2; simpl; [exact I|].
  assert (R' : RIv (vapply V (MIPSetRemove i))) by (apply RIv_rm_ips; [exact R|apply H1; left; reflexivity|apply H2; left; reflexivity]).
  split; [reflexivity|split; [exact R'|apply IH; [exact R'| |]]]; simpl; intros.
  - eapply H1; [right|]; eassumption.
  - eapply H2; [right|]; eassumption.
Qed.
Lemma steps_neutral : forall w l V, Forall neutral l -> RIv V -> steps_ok w V l.
Proof.
  intros w l. induction l as [|m l IH]; intros V F R; simpl; [exact I|].
  inversion F; subst. assert (R' := RIv_neutral V m H1 R).
  split; [destruct m; simpl in H1; try contradiction; reflexivity|split; [exact R'|apply IH; assumption]].
Qed.
