(* C31 — the invariant, part 6: policy / profile updates. *)
From Coq Require Import List Arith Bool Permutation Lia.
From Verif.C31 Require Import Model Spec Lemmas Views Groups GroupAdv Sync Inv Inv2 Inv3 Inv4 Inv5.
Import ListNotations.

Lemma step_pol_update : forall T st p r, Inv T st -> valid_op T (OPolUpdate p r) = true -> step_ok T st (OPolUpdate p r).
Proof.
  intros T st p r I V. unfold step_ok. assert (W := wft_step T _ (i_wft _ _ I) V).
  cbn [step]. unfold handle_pol_update.
  set (st1 := mkS (eps st) (insert p r (pols st)) (profs st) (sas st) (nss st) (ipsets st) (insync st) (closed st) (njoins st) (clk st)).
  assert (WB : WFb st1).
  { destruct W as (_ & W2 & W3). unfold WFb. cbn [tstep t_pols t_profs t_ips] in W2, W3.
    cbn [pols profs ipsets st1]. rewrite (i_pols _ _ I), (i_profs _ _ I), (i_ips _ _ I). split; assumption. }
  destruct (mapeps_inv T (tstep T (OPolUpdate p r)) st st1
             (fun _ ei => if live ei && mem p (e_pols ei)
                          then match resync_one st1 (MPolUpdate p r) ei with
                               | None => None
                               | Some ei' => Some (set_synced ei' (set_add p (e_spol ei')) (e_sprof ei') (e_sips ei'))
                               end
                          else Some ei) I) as (x & M & I');
    try reflexivity; try (tbl I); try exact W; try apply (i_fsa _ _ I); try apply (i_fns _ _ I).
  - intros w ei H. assert (L := i_live _ _ I _ _ H). unfold live. destruct (e_out ei) as [[j s0]|] eqn:O.
    + cbn [andb]. destruct (mem p (e_pols ei)) eqn:MP.
      * destruct ei as [o u up sp sf si]. cbn [e_out] in O. subst o.
        unfold e_pols in MP. cbn [e_upd] in MP. destruct up as [e|]; [|discriminate].
        destruct (inv_ep_facts T st w _ e I H eq_refl) as (F1 & F2 & F3 & F4).
        unfold live_ok in L. cbn [e_out e_uid] in L. destruct L as (U & A & S). unfold sync_ok in S. cbn [e_upd e_spol e_sprof e_sips] in S.
        destruct S as (S1 & S2 & S3). subst sp sf.
        destruct (resync_pol_adv (stv st) st st1 w p r u e j s0 si (Some (w, e))) as (newS & t & N & RS & AD);
          try reflexivity; try exact WB.
        -- intros q Hq. cbn [pols st1]. apply lookup_insert_ne, F1, Hq.
        -- intros q Hq. cbn [profs st1]. apply F2, Hq.
        -- apply mem_In. exact MP.
        -- apply A.
        -- rewrite RS. eexists. split; [reflexivity|]. cbn [e_spol e_sprof e_sips]. unfold set_add. rewrite MP. unfold set_synced. cbn [e_out e_uid e_upd].
           split; [split; reflexivity|].
           unfold live_ok. cbn [e_out e_uid]. split; [exact U|]. split.
           ++ rewrite groups_app. eapply advR_seq; [exact A|exact AD].
           ++ unfold sync_ok. cbn [e_upd e_spol e_sprof e_sips]. split; [reflexivity|]. split; [reflexivity|exact N].
      * exists ei. split; [reflexivity|]. split; [apply shape_refl|].
        apply (live_ok_tables_frame st st1 w ei L); try reflexivity; try (intros; reflexivity).
        intros k Mk. cbn [pols st1]. rewrite lookup_insert. destruct (Nat.eqb_spec k p) as [->|NE]; [|reflexivity]. exfalso.
        unfold live_ok in L. rewrite O in L. destruct L as (_ & _ & S). unfold sync_ok in S. unfold e_pols in MP.
        destruct (e_upd ei); [destruct S as (S1 & S2 & _); rewrite S1 in Mk; congruence|destruct S as (S1 & S2 & _); rewrite S1 in Mk; discriminate].
    + exists ei. split; [reflexivity|]. split; [apply shape_refl|]. unfold live_ok in *. rewrite O in *. exact L.
  - rewrite M. eexists. split; [reflexivity|exact I'].
Qed.

Lemma step_prof_update : forall T st p r, Inv T st -> valid_op T (OProfUpdate p r) = true -> step_ok T st (OProfUpdate p r).
Proof.
  intros T st p r I V. unfold step_ok. assert (W := wft_step T _ (i_wft _ _ I) V).
  cbn [step]. unfold handle_prof_update.
  set (st1 := mkS (eps st) (pols st) (insert p r (profs st)) (sas st) (nss st) (ipsets st) (insync st) (closed st) (njoins st) (clk st)).
  assert (WB : WFb st1).
  { destruct W as (_ & W2 & W3). unfold WFb. cbn [tstep t_pols t_profs t_ips] in W2, W3.
    cbn [pols profs ipsets st1]. rewrite (i_pols _ _ I), (i_profs _ _ I), (i_ips _ _ I). split; assumption. }
  destruct (mapeps_inv T (tstep T (OProfUpdate p r)) st st1
             (fun _ ei => if live ei && mem p (e_profs ei)
                          then match resync_one st1 (MProfUpdate p r) ei with
                               | None => None
                               | Some ei' => Some (set_synced ei' (e_spol ei') (set_add p (e_sprof ei')) (e_sips ei'))
                               end
                          else Some ei) I) as (x & M & I');
    try reflexivity; try (tbl I); try exact W; try apply (i_fsa _ _ I); try apply (i_fns _ _ I).
  - intros w ei H. assert (L := i_live _ _ I _ _ H). unfold live. destruct (e_out ei) as [[j s0]|] eqn:O.
    + cbn [andb]. destruct (mem p (e_profs ei)) eqn:MP.
      * destruct ei as [o u up sp sf si]. cbn [e_out] in O. subst o.
        unfold e_profs in MP. cbn [e_upd] in MP. destruct up as [e|]; [|discriminate].
        destruct (inv_ep_facts T st w _ e I H eq_refl) as (F1 & F2 & F3 & F4).
        unfold live_ok in L. cbn [e_out e_uid] in L. destruct L as (U & A & S). unfold sync_ok in S. cbn [e_upd e_spol e_sprof e_sips] in S.
        destruct S as (S1 & S2 & S3). subst sp sf.
        destruct (resync_prof_adv (stv st) st st1 w p r u e j s0 si (Some (w, e))) as (newS & t & N & RS & AD);
          try reflexivity; try exact WB.
        -- intros q Hq. cbn [pols st1]. apply F1, Hq.
        -- intros q Hq. cbn [profs st1]. apply lookup_insert_ne, F2, Hq.
        -- apply mem_In. exact MP.
        -- apply A.
        -- rewrite RS. eexists. split; [reflexivity|]. cbn [e_spol e_sprof e_sips]. unfold set_add. rewrite MP. unfold set_synced. cbn [e_out e_uid e_upd].
           split; [split; reflexivity|].
           unfold live_ok. cbn [e_out e_uid]. split; [exact U|]. split.
           ++ rewrite groups_app. eapply advR_seq; [exact A|exact AD].
           ++ unfold sync_ok. cbn [e_upd e_spol e_sprof e_sips]. split; [reflexivity|]. split; [reflexivity|exact N].
      * exists ei. split; [reflexivity|]. split; [apply shape_refl|].
        apply (live_ok_tables_frame st st1 w ei L); try reflexivity; try (intros; reflexivity).
        intros k Mk. cbn [profs st1]. rewrite lookup_insert. destruct (Nat.eqb_spec k p) as [->|NE]; [|reflexivity]. exfalso.
        unfold live_ok in L. rewrite O in L. destruct L as (_ & _ & S). unfold sync_ok in S. unfold e_profs in MP.
        destruct (e_upd ei); [destruct S as (S1 & S2 & _); rewrite S2 in Mk; congruence|destruct S as (S1 & S2 & _); rewrite S2 in Mk; discriminate].
    + exists ei. split; [reflexivity|]. split; [apply shape_refl|]. unfold live_ok in *. rewrite O in *. exact L.
  - rewrite M. eexists. split; [reflexivity|exact I'].
Qed.
