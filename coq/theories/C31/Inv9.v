(* C31 — the invariant, part 9: join; the step theorem; all histories. *)
From Coq Require Import List Arith Bool Permutation Lia.
From Verif.C31 Require Import Model Spec Lemmas Views Groups GroupAdv Sync Inv Inv2 Inv3 Inv4 Inv5 Inv6 Inv7 Inv8.
Import ListNotations.

Lemma step_join : forall T st w uid, Inv T st -> valid_op T (OJoin w uid) = true -> step_ok T st (OJoin w uid).
Proof.
  intros T st w uid I V. unfold step_ok. assert (W := wft_step T _ (i_wft _ _ I) V).
  assert (WC := wfc_step T (OJoin w uid) (i_wfc _ _ I)).
  cbn [valid_op] in V. apply negb_true_iff, Nat.eqb_neq in V.
  assert (A := abs_lookup T st w I). cbn [step]. unfold handle_join. cbn [tstep] in *.
  set (ei := match lookup w (eps st) with Some ei => ei | None => mkE None 0 None [] [] [] end).
  assert (EU : e_upd ei = lookup w (t_eps T)).
  { unfold ei. destruct (lookup w (eps st)); cbn [entry_abs] in A; inversion A; reflexivity. }
  assert (EC : conn_of ei = lookup w (t_conn T)).
  { unfold ei. destruct (lookup w (eps st)); cbn [entry_abs] in A; inversion A; reflexivity. }
  assert (LV : forall j s, e_out ei = Some (j, s) -> In (w, ei) (eps st)).
  { unfold ei. intros j s. destruct (lookup w (eps st)) eqn:LW; [intros _; apply lookup_in; exact LW|simpl; discriminate]. }
  set (nj := njoins st). set (c := clk st).
  (* maybeSyncEndpoint on the fresh connection *)
  assert (MS : exists t sp sf si,
             maybe_sync st w (mkE (Some (nj, [])) uid (e_upd ei) [] [] []) = Some (mkE (Some (nj, t)) uid (e_upd ei) sp sf si)
             /\ advR w (tgt vinit st None [] [] []) (groups t) (tgt vinit st (epo_of w ei) sp sf si)
             /\ sync_ok st (mkE (Some (nj, t)) uid (e_upd ei) sp sf si)).
  { destruct (e_upd ei) as [e|] eqn:UP.
    - assert (IN : In (w, ei) (eps st)).
      { unfold ei in *. destruct (lookup w (eps st)) eqn:LW; [apply lookup_in; exact LW|simpl in UP; discriminate]. }
      destruct (inv_ep_facts T st w ei e I IN UP) as (F1 & F2 & F3 & F4).
      destruct (maybe_sync_adv vinit st w uid e nj [] [] [] [] None (inv_wfb _ _ I) F1 F2 F3 F4 (RIv_empty_tgt st)) as (newS & t & N & M & AD).
      exists t, (ep_pols e), (ep_profiles e), newS. split; [exact M|]. split.
      + unfold epo_of. rewrite UP. exact AD.
      + unfold sync_ok. cbn [e_upd e_spol e_sprof e_sips]. split; [reflexivity|]. split; [reflexivity|exact N].
    - exists [], [], [], []. split; [reflexivity|]. split.
      + unfold epo_of. rewrite UP. apply advR_nil, RIv_empty_tgt.
      + unfold sync_ok. cbn [e_upd]. auto. }
  destruct MS as (t & sp & sf & si & MS & AD & SY). rewrite MS.
  set (SAs := map (fun av : id * nat => MSAUpdate (fst av) (snd av)) (sas st)).
  set (NSs := map (fun nv : id * nat => MNSUpdate (fst nv) (snd nv)) (nss st)).
  set (X1 := mkV None (fun _ => None) (fun _ => None) (fun _ => None) (fun k => lookup k (sas st)) (fun _ : id => @None nat) false).
  set (X2 := mkV None (fun _ => None) (fun _ => None) (fun _ => None) (fun k => lookup k (sas st)) (fun k => lookup k (nss st)) false).
  set (epo := epo_of w ei).
  assert (B0 : advR w vinit [] (tgt vinit st None [] [] [])).
  { eapply advR_conseq; [apply advR_nil, RIv_init|]. unfold veq, tgt, vinit; simpl. repeat split. }
  assert (B2 : advR w (tgt vinit st epo sp sf si) [SAs] (tgt X1 st epo sp sf si)).
  { apply adv_sa_all; [apply AD|apply (i_fsa _ _ I)|]. unfold veq, set_sa, tgt, X1, vinit; simpl. repeat split. intro k. destruct (lookup k (sas st)); reflexivity. }
  assert (B3 : advR w (tgt X1 st epo sp sf si) [NSs] (tgt X2 st epo sp sf si)).
  { apply adv_ns_all; [apply B2|apply (i_fns _ _ I)|]. unfold veq, set_ns, tgt, X1, X2; simpl. repeat split. intro k. destruct (lookup k (nss st)); reflexivity. }
  assert (B4 : advR w (tgt X2 st epo sp sf si) (if insync st then [[MInSync]] else []) (tgt (stv st) st epo sp sf si)).
  { destruct (insync st) eqn:SN.
    - apply adv_one; [apply B3|reflexivity|apply RIv_neutral; [exact Logic.I|apply B3]|].
      rewrite vapply_tgt_neutral by exact Logic.I. apply tgt_X; try (intro; reflexivity). simpl. symmetry. exact SN.
    - eapply advR_conseq; [apply advR_nil, B3|]. apply tgt_X; try (intro; reflexivity). simpl. symmetry. exact SN. }
  assert (ALL : advR w vinit (groups t ++ [SAs] ++ [NSs] ++ (if insync st then [[MInSync]] else [])) (tgt (stv st) st epo sp sf si)).
  { change (groups t ++ [SAs] ++ [NSs] ++ (if insync st then [[MInSync]] else []))
      with ([] ++ groups t ++ [SAs] ++ [NSs] ++ (if insync st then [[MInSync]] else [])).
    eapply advR_seq; [exact B0|]. eapply advR_seq; [exact AD|]. eapply advR_seq; [exact B2|]. eapply advR_seq; [exact B3|exact B4]. }
  rewrite !emit_rec. fold SAs NSs c.
  set (strm := (t ++ [(c, SAs)]) ++ [(c, NSs)]).
  assert (FIN : exists s5, (if insync st then mkE (Some (nj, strm ++ [(c, [MInSync])])) uid (e_upd ei) sp sf si else mkE (Some (nj, strm)) uid (e_upd ei) sp sf si)
                           = mkE (Some (nj, s5)) uid (e_upd ei) sp sf si
                           /\ groups s5 = groups t ++ [SAs] ++ [NSs] ++ (if insync st then [[MInSync]] else [])).
  { destruct (insync st).
    - eexists. split; [reflexivity|]. unfold strm. rewrite !groups_app. simpl. rewrite <- ?app_assoc. reflexivity.
    - eexists. split; [reflexivity|]. unfold strm. rewrite !groups_app. simpl. rewrite <- ?app_assoc. reflexivity. }
  destruct FIN as (s5 & -> & GS).
  eexists. split; [reflexivity|].
  eapply (single_inv T _ st _ w (Some _) I); try reflexivity; try (tbl I); try exact W.
  - intros ei' E. inversion E; subst ei'. unfold live_ok. cbn [e_out e_uid]. split; [exact V|]. split.
    + rewrite GS. exact ALL.
    + exact SY.
  - cbn [njoins t_njoins]. unfold nj. rewrite (i_nj _ _ I). reflexivity.
  - intros w0 N. cbn [t_eps t_conn]. rewrite lookup_insert. destruct (Nat.eqb_spec w0 w); [congruence|split; reflexivity].
  - cbn [entry_abs e_upd t_eps t_conn]. unfold conn_of. cbn [e_out e_uid]. rewrite lookup_insert, Nat.eqb_refl, EU. unfold nj. rewrite (i_nj _ _ I). reflexivity.
  - intros j0 w0 c0 s0 Hc. cbn [closed] in Hc. apply archive_in in Hc. destruct Hc as [Hc|[-> Hc]]; [left; exact Hc|right].
    split; [apply (live_checked st w ei j0 s0); [apply (i_live _ _ I), (LV _ _ Hc)|exact Hc]|].
    unfold conn_of in EC. rewrite Hc in EC.
    eapply (cfree_archived T w j0 _ (S (t_njoins T)) (insert w (t_njoins T, uid) (t_conn T)) (Some (t_njoins T, uid)) (i_wfc _ _ I));
      [symmetry; exact EC|apply le_S, le_n| |right; exists uid; reflexivity].
    intro w'. rewrite lookup_insert. reflexivity.
  - exact WC.
  - cbn [t_njoins]. apply le_S, le_n.
  - right. right. exists uid. cbn [t_conn]. rewrite lookup_insert, Nat.eqb_refl. reflexivity.
Qed.

(* ---- every valid operation keeps the invariant and does not panic ---- *)

Theorem step_inv : forall T st o, Inv T st -> valid_op T o = true -> exists st', step st o = Some st' /\ Inv (tstep T o) st'.
Proof.
  intros T st o I V. destruct o.
  - apply step_join; assumption.
  - apply step_leave; assumption.
  - apply step_insync; assumption.
  - apply step_wep_update; assumption.
  - apply step_wep_remove; assumption.
  - apply step_pol_update; assumption.
  - apply step_pol_remove; assumption.
  - apply step_prof_update; assumption.
  - apply step_prof_remove; assumption.
  - apply step_ipset_update; assumption.
  - apply step_ipset_delta; assumption.
  - apply step_ipset_remove; assumption.
  - apply step_sa_update; assumption.
  - apply step_sa_remove; assumption.
  - apply step_ns_update; assumption.
  - apply step_ns_remove; assumption.
Qed.
