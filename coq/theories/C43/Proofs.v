(* C43 — proofs. *)
From Coq Require Import List NArith Arith Bool Lia.
From Verif.Common Require Import Prefix.
From Verif.C43 Require Import Model Spec.
Import ListNotations.
Open Scope N_scope.

(* ------------------------------------------------------------------ route manager: target selection *)

(* A kept route is programmed direct exactly when the manager is the no-encap one or the route is flagged
   SameSubnet, and the owner's address is known. *)
Lemma mgr_target_direct : forall T peers c r k,
  In k (mgr_target T peers c r) ->
  k_class k = 1 <-> ((T = 1 \/ r_same r = true) /\ exists g, r_ip r = Some g /\ k = mkK T 1 1 c (Some g)).
Proof.
  intros T peers c r k H. unfold mgr_target in H.
  destruct (N.eqb T 1 || r_same r) eqn:E.
  - destruct (r_ip r) as [g|] eqn:Eg.
    + destruct H as [<-|[]]. simpl. split; [intros _|reflexivity].
      split; [|eauto]. apply orb_true_iff in E. destruct E as [E|E]; [left; now apply N.eqb_eq|right; exact E].
    + split.
      * intros Hc. exfalso.
        destruct (N.eqb T 2).
        { destruct (r_node r) as [n|]; [|destruct H]. destruct (N.eqb n me); [destruct H|].
          destruct (aget N.eqb peers n); [|destruct H]. destruct H as [<-|[]]. discriminate. }
        destruct (N.eqb T 3); [|destruct H].
        destruct (peer_addr peers (r_node r)); [|destruct H]. destruct H as [<-|[]]. discriminate.
      * intros (_ & g & Hg & _). discriminate.
  - apply orb_false_iff in E. destruct E as [E1 E2].
    split.
    + intros Hc. exfalso.
      destruct (N.eqb T 2).
      { destruct (r_node r) as [n|]; [|destruct H]. destruct (N.eqb n me); [destruct H|].
        destruct (aget N.eqb peers n); [|destruct H]. destruct H as [<-|[]]. discriminate. }
      destruct (N.eqb T 3); [|destruct H].
      destruct (peer_addr peers (r_node r)); [|destruct H]. destruct H as [<-|[]]. discriminate.
    + intros ([->|Hs] & _); [discriminate|congruence].
Qed.
