(* C43 — chaining the re-flagging completeness theorems: along ANY history of node and pool updates (in any
   order, with reverts and deletions) a sent remote route stays exactly what flush() computes from the current
   trie and node table (repaired variant). *)
From Coq Require Import List NArith Arith Bool Lia Permutation.
From Verif.Common Require Import Prefix.
From Verif.C43 Require Import Model MgrProofs FlushPerm Spec Final FinalProofs Reflag Peer PoolUpd.
Import ListNotations.
Open Scope N_scope.

Definition good (s : st) (k : prefix) (n : N) : Prop :=
  s_dirty s = [] /\ (exists po, tget (s_trie s) k = mkRI po (Some n) [] 0 true)
  /\ (exists c : nat, In ((n, k), c) (s_nr s))
  /\ aget prefix_eqb (s_out s) k = Some (compute (s_trie s) (s_nodes s) k).

(* node and pool updates; a node never takes the pod address k as its own address *)
Definition op_ok (k : prefix) (o : op) : Prop :=
  match o with
  | OpNode _ (Some (Some (a, _))) => host32 a <> k
  | OpNode _ _ => True
  | OpPool _ _ => True
  | _ => False
  end.

Lemma update_cidr_tget_same : forall s c f k,
  (prefix_eqb c k = true -> f (tget (s_trie s) c) = tget (s_trie s) c) ->
  tget (s_trie (fst (update_cidr s c f))) k = tget (s_trie s) k.
Proof.
  intros s c f k H. unfold update_cidr. destruct (rinfo_eqb _ _); simpl; [reflexivity|].
  rewrite mark_dirty_trie. simpl. rewrite tget_aset. destruct (prefix_eqb c k) eqn:E; [|reflexivity].
  pose proof (H eq_refl) as X. apply prefix_eqb_eq in E. subst k. exact X.
Qed.

Lemma st4_trie : forall s n, s_trie (st4 s n) = s_trie s.
Proof.
  intros. unfold st4. apply (fold_inv (fun x => s_trie x = s_trie s)); [|reflexivity].
  intros s0 x H. destruct (N.eqb _ _); [now rewrite mark_dirty_trie|exact H].
Qed.
Lemma st4_nr : forall s n, s_nr (st4 s n) = s_nr s.
Proof.
  intros. unfold st4. apply (fold_inv (fun x => s_nr x = s_nr s)); [|reflexivity].
  intros s0 x H. destruct (N.eqb _ _); [now rewrite mark_dirty_nr|exact H].
Qed.
Lemma st1_nr : forall f s n old new, s_nr (st1 f s n old new) = s_nr s.
Proof.
  intros. unfold st1. destruct (N.eqb n me); [|reflexivity]. cbv zeta. destruct (prefix_eqb _ _); [reflexivity|].
  unfold reflag. apply (fold_inv (fun x => s_nr x = s_nr s)); [|reflexivity].
  intros s0 x H. destruct (visit_node _); [|exact H]. destruct (N.eqb n0 me); [exact H|].
  destruct (aget N.eqb (s_nodes s0) n0); [|exact H]. destruct (Bool.eqb _ _); [exact H|now rewrite mark_dirty_nr].
Qed.

Lemma on_node_nr : forall f s m v, s_nr (on_node f s m v) = s_nr s.
Proof.
  intros. rewrite on_node_eq. cbv zeta. destruct (opt_eqb _ _ _); [reflexivity|].
  now rewrite st4_nr, st3_nr, st2_nr, st1_nr.
Qed.

Lemma on_node_tget : forall f s m v k,
  (forall a c, v = Some (Some (a, c)) -> host32 a <> k) -> ri_hosts (tget (s_trie s) k) = [] ->
  tget (s_trie (on_node f s m v)) k = tget (s_trie s) k.
Proof.
  intros f s m v k HV HH. rewrite on_node_eq. cbv zeta. destruct (opt_eqb _ _ _); [reflexivity|].
  rewrite st4_trie.
  set (old := aget N.eqb (s_nodes s) m). set (new := option_map ninfo_of v).
  destruct (st1_inv f s m old new) as [T1 _].
  assert (T2 : tget (s_trie (st2 (st1 f s m old new) m old)) k = tget (s_trie s) k).
  { unfold st2. destruct old as [i|]; [|now rewrite T1]. cbv zeta. destruct (N.eqb (ni_addr i) 0); [simpl; now rewrite T1|].
    rewrite update_cidr_tget_same; [simpl; now rewrite T1|].
    intros E. apply prefix_eqb_eq in E. simpl. rewrite T1, E. rewrite HH. simpl.
    destruct (tget (s_trie s) k); simpl in *. now subst. }
  unfold st3. destruct new as [i|] eqn:N; [|exact T2]. cbv zeta. destruct (N.eqb (ni_addr i) 0) eqn:Z; [simpl; exact T2|].
  rewrite update_cidr_tget_same; [simpl; exact T2|].
  intros E. exfalso. apply prefix_eqb_eq in E. unfold new in N. destruct v as [[[a c]|]|]; simpl in N; inversion N; subst i; simpl in *.
  - exact (HV a c eq_refl E).
  - discriminate.
Qed.

Lemma with_pool_self : forall r, with_pool r (ri_pool r) = r.
Proof. intros []; reflexivity. Qed.

Lemma pool_upd_tget : forall s c p k, exists p', tget (s_trie (pool_upd s c p)) k = with_pool (tget (s_trie s) k) p'.
Proof.
  intros s c p k. unfold pool_upd, update_cidr. destruct (rinfo_eqb _ _).
  - exists (ri_pool (tget (s_trie s) k)). now rewrite with_pool_self.
  - destruct (mark_children_inv (mark_dirty (set_trie s (aset prefix_eqb (s_trie s) c (with_pool (tget (s_trie s) c) p))) c) c) as (MT & _).
    rewrite MT, mark_dirty_trie. simpl. rewrite tget_aset. destruct (prefix_eqb c k) eqn:E.
    + apply prefix_eqb_eq in E. subst k. now exists p.
    + exists (ri_pool (tget (s_trie s) k)). now rewrite with_pool_self.
Qed.
Lemma on_pool_tget : forall s c v k, exists p', tget (s_trie (on_pool s c v)) k = with_pool (tget (s_trie s) k) p'.
Proof.
  intros s c v k. rewrite on_pool_eq. destruct v as [pv|].
  { destruct (pool_upd_tget (set_pools s (aset prefix_eqb (s_pools s) c (mkPI (pool_type pv) (pool_cross pv)))) c
                (Some (mkPI (pool_type pv) (pool_cross pv))) k) as (p' & E). exists p'. exact E. }
  destruct (aget prefix_eqb (s_pools s) c).
  { destruct (pool_upd_tget (set_pools s (aremove prefix_eqb (s_pools s) c)) c None k) as (p' & E). exists p'. exact E. }
  exists (ri_pool (tget (s_trie s) k)). now rewrite with_pool_self.
Qed.
Lemma pool_upd_nr : forall s c p, s_nr (pool_upd s c p) = s_nr s.
Proof.
  intros s c p. unfold pool_upd. destruct (update_cidr s c (fun r => with_pool r p)) as [s1 ch] eqn:U.
  assert (N1 : s_nr s1 = s_nr s) by (pose proof (update_cidr_nr s c (fun r => with_pool r p)) as X; now rewrite U in X).
  destruct ch; [|exact N1]. rewrite mark_children_fold.
  apply (fold_inv (fun x => s_nr x = s_nr s)); [|exact N1].
  intros s0 x H. unfold mark_child. destruct (contains _ _ _); [now rewrite mark_dirty_nr|exact H].
Qed.
Lemma on_pool_nr : forall s c v, s_nr (on_pool s c v) = s_nr s.
Proof.
  intros s c v. rewrite on_pool_eq. destruct v as [pv|]; [rewrite pool_upd_nr; reflexivity|].
  destruct (aget prefix_eqb (s_pools s) c); [rewrite pool_upd_nr; reflexivity|reflexivity].
Qed.

Lemma flush_one_nr : forall s c, s_nr (flush_one s c) = s_nr s.
Proof.
  intros s c. unfold flush_one. destruct (ri_is_zero _); [reflexivity|]. destruct (_ && _); [reflexivity|].
  destruct (prefix_eqb c (host32 0)); reflexivity.
Qed.
Lemma flush_nr : forall s, s_nr (flush s) = s_nr s.
Proof.
  intros s. unfold flush. simpl. apply (fold_inv (fun x => s_nr x = s_nr s)); [|reflexivity].
  intros s0 x H. now rewrite flush_one_nr.
Qed.

Lemma flush_tget : forall x k po n, NoDup (s_dirty x) -> k <> host32 0 ->
  tget (s_trie x) k = mkRI po (Some n) [] 0 true -> tget (s_trie (flush x)) k = mkRI po (Some n) [] 0 true.
Proof.
  intros x k po n ND NZ T. unfold flush. simpl.
  assert (F0 : flushed x [] x) by (split; [reflexivity|intros y; split; [intros []|intros _; split; reflexivity]]).
  pose proof (fold_flushed x (s_dirty x) [] x ND (fun _ _ X => X) F0) as [_ H]. rewrite app_nil_r in H.
  apply prefix_eqb_neq in NZ.
  destruct (in_dec prefix_eq_dec k (rev (s_dirty x))) as [I|I].
  - destruct (proj1 (H k) I) as [-> _]. unfold trie_after. rewrite T. unfold ri_is_zero, ri_valid. simpl.
    destruct po; simpl; now rewrite NZ.
  - destruct (proj2 (H k) I) as [-> _]. exact T.
Qed.

Lemma good_step : forall s k n o, wfp 32 k -> k <> host32 0 -> n <> me ->
  good s k n -> op_ok k o -> good (apply_op true s o) k n.
Proof.
  intros s k n o W NZ Hn (HD & (po & T) & (c & HC) & FR) OK.
  destruct o as [pc pv|bc bv|m v|wid cs]; simpl in OK; try contradiction.
  - (* pool *)
    destruct (on_pool_tget s pc pv k) as (p' & TP). rewrite T in TP. simpl in TP.
    assert (ND : NoDup (s_dirty (on_pool s pc pv))) by (apply (pf_nodup _ _ _ (on_pool_facts s pc pv)); rewrite HD; constructor).
    repeat split.
    + exists p'. unfold apply_op. exact (flush_tget _ k p' n ND NZ TP).
    + exists c. unfold apply_op. now rewrite flush_nr, on_pool_nr.
    + exact (pool_update_complete true s pc pv k po n HD W NZ T FR).
  - (* node *)
    assert (HV : forall a c0, v = Some (Some (a, c0)) -> host32 a <> k).
    { intros a c0 ->. exact OK. }
    assert (TN : tget (s_trie (on_node true s m v)) k = mkRI po (Some n) [] 0 true).
    { rewrite on_node_tget; [exact T|exact HV|now rewrite T]. }
    assert (ND : NoDup (s_dirty (on_node true s m v))).
    { rewrite on_node_eq. cbv zeta. destruct (opt_eqb _ _ _); [rewrite HD; constructor|].
      match goal with |- NoDup (s_dirty ?x) => assert (SG : stage s x) end.
      { eapply stage_trans; [apply st1_stage|]. eapply stage_trans; [apply st2_stage|].
        eapply stage_trans; [apply st3_stage|apply st4_stage]. }
      apply (sg_nodup _ _ SG). rewrite HD. constructor. }
    repeat split.
    + exists po. unfold apply_op. exact (flush_tget _ k po n ND NZ TN).
    + exists c. unfold apply_op. now rewrite flush_nr, on_node_nr.
    + destruct (N.eq_dec m me) as [->|Hm].
      * exact (reflag_complete s v k po n HD W NZ T Hn FR).
      * exact (peer_update_complete true s m v k po n HD W NZ Hm T Hn (fun _ => ex_intro _ c HC) FR).
Qed.

Theorem node_pool_history_keeps_fresh : forall ops s k n, wfp 32 k -> k <> host32 0 -> n <> me ->
  good s k n -> Forall (op_ok k) ops -> good (fold_left (apply_op true) ops s) k n.
Proof.
  induction ops as [|o ops IH]; intros s k n W NZ Hn G F; simpl; [exact G|].
  inversion F; subst. apply IH; auto. now apply good_step.
Qed.
