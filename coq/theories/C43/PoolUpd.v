(* C43 — re-flagging completeness for IP pool updates (markChildrenDirty): a remote route that was up to date
   before any pool update / deletion is up to date after it. *)
From Coq Require Import List NArith Arith Bool Lia Permutation.
From Verif.Common Require Import Prefix.
From Verif.C43 Require Import Model MgrProofs FlushPerm Spec Final FinalProofs Reflag.
Import ListNotations.
Open Scope N_scope.

Definition pool_upd (s : st) (c : prefix) (p : option pinfo) : st :=
  let '(s1, ch) := update_cidr s c (fun r => with_pool r p) in if ch then mark_children s1 c else s1.

Lemma on_pool_eq : forall s c v,
  on_pool s c v =
  match v with
  | Some pv => pool_upd (set_pools s (aset prefix_eqb (s_pools s) c (mkPI (pool_type pv) (pool_cross pv)))) c
                        (Some (mkPI (pool_type pv) (pool_cross pv)))
  | None => match aget prefix_eqb (s_pools s) c with
            | Some _ => pool_upd (set_pools s (aremove prefix_eqb (s_pools s) c)) c None
            | None => s end
  end.
Proof. intros s c v. destruct v; reflexivity. Qed.

Definition mark_child (c : prefix) (s : st) (k : prefix) : st := if contains 32 c (paddr k) then mark_dirty s k else s.
Lemma mark_child_stage : forall c s k, stage s (mark_child c s k).
Proof. intros. unfold mark_child. destruct (contains _ _ _); [apply stage_mark|apply stage_refl]. Qed.
Lemma mark_children_fold : forall s c, mark_children s c = fold_left (mark_child c) (stored s) s.
Proof. reflexivity. Qed.
Lemma mark_child_marks : forall c k l s, In k l -> contains 32 c (paddr k) = true -> In k (s_dirty (fold_left (mark_child c) l s)).
Proof.
  intros c k. induction l as [|x l IH]; intros s H HC; [destruct H|]. simpl. destruct H as [->|H]; [|now apply IH].
  apply (sg_mono _ _ (stage_fold (mark_child c) l (mark_child_stage c) _)).
  unfold mark_child. rewrite HC. apply mark_dirty_in.
Qed.
Lemma mark_children_inv : forall s c, s_trie (mark_children s c) = s_trie s /\ s_nodes (mark_children s c) = s_nodes s /\ s_out (mark_children s c) = s_out s.
Proof.
  intros s c. rewrite mark_children_fold.
  apply (fold_inv (fun x => s_trie x = s_trie s /\ s_nodes x = s_nodes s /\ s_out x = s_out s)); [|auto].
  intros s0 x (A & B & C). unfold mark_child. destruct (contains _ _ _); [|auto].
  now rewrite mark_dirty_trie, mark_dirty_nodes, mark_dirty_out.
Qed.

Record pool_facts (c : prefix) (s mid : st) : Prop := mkPF {
  pf_out : s_out mid = s_out s;
  pf_nodes : s_nodes mid = s_nodes s;
  pf_other : forall k, prefix_eqb c k = false -> tget (s_trie mid) k = tget (s_trie s) k;
  pf_fields : forall k, ri_block (tget (s_trie mid) k) = ri_block (tget (s_trie s) k)
                        /\ ri_sent (tget (s_trie mid) k) = ri_sent (tget (s_trie s) k);
  pf_rel : forall k, tget (s_trie mid) k = tget (s_trie s) k \/ In k (s_dirty mid);
  pf_children : tget (s_trie mid) c = tget (s_trie s) c \/
                forall k, ri_is_zero (tget (s_trie mid) k) = false -> contains 32 c (paddr k) = true -> In k (s_dirty mid);
  pf_nodup : NoDup (s_dirty s) -> NoDup (s_dirty mid) }.

Lemma pool_upd_facts : forall s c p, pool_facts c s (pool_upd s c p).
Proof.
  intros s c p. unfold pool_upd, update_cidr.
  destruct (rinfo_eqb (tget (s_trie s) c) (with_pool (tget (s_trie s) c) p)) eqn:E.
  - constructor; auto.
  - set (ri' := with_pool (tget (s_trie s) c) p).
    set (s1 := mark_dirty (set_trie s (aset prefix_eqb (s_trie s) c ri')) c).
    destruct (mark_children_inv s1 c) as (MT & MN & MO).
    assert (T1 : forall k, tget (s_trie s1) k = if prefix_eqb c k then ri' else tget (s_trie s) k).
    { intros k. unfold s1. rewrite mark_dirty_trie. simpl. apply tget_aset. }
    assert (SG : stage s1 (mark_children s1 c)) by (rewrite mark_children_fold; apply stage_fold, mark_child_stage).
    constructor.
    + rewrite MO. unfold s1. now rewrite mark_dirty_out.
    + rewrite MN. unfold s1. now rewrite mark_dirty_nodes.
    + intros k Hk. rewrite MT, T1, Hk. reflexivity.
    + intros k. rewrite MT, T1. destruct (prefix_eqb c k) eqn:Hk; [|split; reflexivity].
      apply prefix_eqb_eq in Hk. subst k. unfold ri'. destruct (tget (s_trie s) c); split; reflexivity.
    + intros k. rewrite MT, T1. destruct (prefix_eqb c k) eqn:Hk; [|now left].
      apply prefix_eqb_eq in Hk. subst k. right. apply (sg_mono _ _ SG). unfold s1. apply mark_dirty_in.
    + right. intros k Z HC. rewrite mark_children_fold. apply mark_child_marks; [|exact HC].
      apply stored_in. now rewrite <- MT.
    + intros ND. apply (sg_nodup _ _ SG). unfold s1. apply mark_dirty_nodup. exact ND.
Qed.

Lemma pool_facts_set_pools : forall c s x mid, pool_facts c (set_pools s x) mid -> pool_facts c s mid.
Proof. intros c s x mid [A B C D E F G]. constructor; auto. Qed.

Lemma on_pool_facts : forall s c v, pool_facts c s (on_pool s c v).
Proof.
  intros s c v. rewrite on_pool_eq. destruct v as [pv|].
  - eapply pool_facts_set_pools. apply pool_upd_facts.
  - destruct (aget prefix_eqb (s_pools s) c); [eapply pool_facts_set_pools; apply pool_upd_facts|].
    constructor; auto.
Qed.

Theorem pool_update_complete : forall f s c v k po n,
  s_dirty s = [] -> wfp 32 k -> k <> host32 0 ->
  tget (s_trie s) k = mkRI po (Some n) [] 0 true ->
  aget prefix_eqb (s_out s) k = Some (compute (s_trie s) (s_nodes s) k) ->
  let s' := apply_op f s (OpPool c v) in
  aget prefix_eqb (s_out s') k = Some (compute (s_trie s') (s_nodes s') k).
Proof.
  intros f s c v k po n HD W NZ T FR s'. unfold s', apply_op.
  set (mid := on_pool s c v). pose proof (on_pool_facts s c v) as PF. fold mid in PF.
  assert (ND : NoDup (s_dirty mid)) by (apply (pf_nodup _ _ _ PF); rewrite HD; constructor).
  assert (F0 : flushed mid [] mid) by (split; [reflexivity|intros x; split; [intros []|intros _; split; reflexivity]]).
  pose proof (fold_flushed mid (s_dirty mid) [] mid ND (fun _ _ X => X) F0) as FL. rewrite app_nil_r in FL.
  pose proof (flushed_same_but_sent _ _ _ FL) as SB. destruct FL as [NN H].
  unfold flush. simpl.
  rewrite (compute_sent_irrel _ _ _ k SB), NN.
  destruct (pf_fields _ _ _ PF k) as [B S]. rewrite T in B, S. simpl in B, S.
  apply prefix_eqb_neq in NZ.
  destruct (in_dec prefix_eq_dec k (s_dirty mid)) as [I|I].
  - destruct (proj1 (H k) (proj1 (in_rev _ _) I)) as [_ O]. rewrite O. unfold out_after.
    rewrite (valid_of_block _ _ B). unfold ri_is_zero. rewrite (valid_of_block _ _ B). simpl. rewrite !andb_false_r, NZ. reflexivity.
  - assert (I' : ~ In k (rev (s_dirty mid))) by (intros X; apply I; now apply in_rev).
    destruct (proj2 (H k) I') as [_ O]. rewrite O, (pf_out _ _ _ PF), FR. f_equal.
    unfold compute. rewrite (pf_nodes _ _ _ PF). f_equal. symmetry.
    apply walk_ext. intros l Hl.
    destruct (prefix_eqb c (anc k l)) eqn:E; [|exact (pf_other _ _ _ PF _ E)].
    apply prefix_eqb_eq in E. rewrite <- E.
    destruct (pf_children _ _ _ PF) as [X|X]; [exact X|]. exfalso. apply I. apply X.
    + unfold ri_is_zero. rewrite S. reflexivity.
    + pose proof (anc_covers k l Hl W) as C. rewrite <- E in C. unfold covers in C. apply andb_true_iff in C. apply C.
Qed.
