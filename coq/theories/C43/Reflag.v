(* C43 — re-flagging completeness when the LOCAL node changes (repaired variant, fixed = true): a remote
   block / borrowed-address route that was up to date before an update of the local node is up to date after it. *)
From Coq Require Import List NArith Arith Bool Lia Permutation.
From Verif.Common Require Import Prefix.
From Verif.C43 Require Import Model MgrProofs FlushPerm.
Import ListNotations.
Open Scope N_scope.

(* ---------------------------------------------------------------- small map facts (N keys) *)
Lemma agetN_aset : forall {V} (m : list (N * V)) k v k',
  aget N.eqb (aset N.eqb m k v) k' = if N.eqb k k' then Some v else aget N.eqb m k'.
Proof.
  induction m as [|[k0 v0] m IH]; intros k v k'; simpl; [reflexivity|].
  destruct (N.eqb k0 k) eqn:E; simpl.
  - apply N.eqb_eq in E. subst k0. destruct (N.eqb k k'); reflexivity.
  - rewrite IH. destruct (N.eqb k0 k') eqn:E2; [|reflexivity].
    apply N.eqb_eq in E2. subst k0. rewrite N.eqb_sym in E. now rewrite E.
Qed.
Lemma agetN_aremove : forall {V} (m : list (N * V)) k k',
  aget N.eqb (aremove N.eqb m k) k' = if N.eqb k k' then None else aget N.eqb m k'.
Proof.
  induction m as [|[k0 v0] m IH]; intros k k'; simpl; [now destruct (N.eqb k k')|].
  destruct (N.eqb k0 k) eqn:E; simpl.
  - apply N.eqb_eq in E. subst k0. rewrite IH. destruct (N.eqb k k'); reflexivity.
  - rewrite IH. destruct (N.eqb k0 k') eqn:E2; [|reflexivity].
    apply N.eqb_eq in E2. subst k0. rewrite N.eqb_sym in E. now rewrite E.
Qed.

(* ---------------------------------------------------------------- mark_dirty / update_cidr *)
Lemma mark_dirty_trie : forall s c, s_trie (mark_dirty s c) = s_trie s.
Proof. intros s c. unfold mark_dirty. now destruct (existsb _ _). Qed.
Lemma mark_dirty_nodes : forall s c, s_nodes (mark_dirty s c) = s_nodes s.
Proof. intros s c. unfold mark_dirty. now destruct (existsb _ _). Qed.
Lemma mark_dirty_out : forall s c, s_out (mark_dirty s c) = s_out s.
Proof. intros s c. unfold mark_dirty. now destruct (existsb _ _). Qed.
Lemma mark_dirty_in : forall s c, In c (s_dirty (mark_dirty s c)).
Proof.
  intros s c. unfold mark_dirty. destruct (existsb (prefix_eqb c) (s_dirty s)) eqn:E; [|now left].
  apply existsb_exists in E. destruct E as (x & Hx & E). apply prefix_eqb_eq in E. now subst x.
Qed.
Lemma mark_dirty_mono : forall s c k, In k (s_dirty s) -> In k (s_dirty (mark_dirty s c)).
Proof. intros s c k H. unfold mark_dirty. destruct (existsb _ _); [exact H|now right]. Qed.
Lemma mark_dirty_nodup : forall s c, NoDup (s_dirty s) -> NoDup (s_dirty (mark_dirty s c)).
Proof.
  intros s c H. unfold mark_dirty. destruct (existsb (prefix_eqb c) (s_dirty s)) eqn:E; [exact H|].
  simpl. constructor; [|exact H]. intros I.
  assert (X : existsb (prefix_eqb c) (s_dirty s) = true) by (apply existsb_exists; exists c; split; [exact I|apply prefix_eqb_refl]).
  congruence.
Qed.

(* what a stage of on_node may do, relative to the state s0 it started from *)
Record stage (s0 s : st) : Prop := mkStage {
  sg_out : s_out s = s_out s0;
  sg_short : forall k, plen k <> 32%nat -> tget (s_trie s) k = tget (s_trie s0) k;
  sg_rel : forall k, tget (s_trie s) k = tget (s_trie s0) k \/ In k (s_dirty s);
  sg_block : forall k, ri_block (tget (s_trie s) k) = ri_block (tget (s_trie s0) k);
  sg_mono : forall k, In k (s_dirty s0) -> In k (s_dirty s);
  sg_nodup : NoDup (s_dirty s0) -> NoDup (s_dirty s) }.

Lemma stage_refl : forall s, stage s s.
Proof. intros s. constructor; auto. Qed.
Lemma stage_trans : forall s0 s1 s2, stage s0 s1 -> stage s1 s2 -> stage s0 s2.
Proof.
  intros s0 s1 s2 A B. constructor.
  - now rewrite (sg_out _ _ B), (sg_out _ _ A).
  - intros k H. now rewrite (sg_short _ _ B k H), (sg_short _ _ A k H).
  - intros k. destruct (sg_rel _ _ B k) as [E|I]; [|now right]. rewrite E.
    destruct (sg_rel _ _ A k) as [E1|I1]; [now left|right; now apply (sg_mono _ _ B)].
  - intros k. now rewrite (sg_block _ _ B k), (sg_block _ _ A k).
  - intros k H. apply (sg_mono _ _ B), (sg_mono _ _ A), H.
  - intros H. apply (sg_nodup _ _ B), (sg_nodup _ _ A), H.
Qed.
Lemma stage_mark : forall s c, stage s (mark_dirty s c).
Proof.
  intros s c. constructor.
  - apply mark_dirty_out.
  - intros k _. now rewrite mark_dirty_trie.
  - intros k. left. now rewrite mark_dirty_trie.
  - intros k. now rewrite mark_dirty_trie.
  - intros k. apply mark_dirty_mono.
  - apply mark_dirty_nodup.
Qed.
Lemma stage_set_nodes : forall s x, stage s (set_nodes s x).
Proof. intros s x. constructor; simpl; auto. Qed.

Lemma stage_update_hosts : forall s a g, stage s (fst (update_cidr s (host32 a) (fun r => with_hosts r (g (ri_hosts r))))).
Proof.
  intros s a g. unfold update_cidr.
  destruct (rinfo_eqb _ _); simpl; [apply stage_refl|].
  set (s1 := set_trie s _).
  assert (T : forall k, tget (s_trie (mark_dirty s1 (host32 a))) k
              = if prefix_eqb (host32 a) k then with_hosts (tget (s_trie s) (host32 a)) (g (ri_hosts (tget (s_trie s) (host32 a)))) else tget (s_trie s) k).
  { intros k. rewrite mark_dirty_trie. unfold s1. simpl. apply tget_aset. }
  constructor.
  - rewrite mark_dirty_out. reflexivity.
  - intros k Hk. rewrite T. destruct (prefix_eqb (host32 a) k) eqn:E; [|reflexivity].
    apply prefix_eqb_eq in E. subst k. simpl in Hk. contradiction.
  - intros k. rewrite T. destruct (prefix_eqb (host32 a) k) eqn:E; [|now left].
    apply prefix_eqb_eq in E. subst k. right. apply mark_dirty_in.
  - intros k. rewrite T. destruct (prefix_eqb (host32 a) k) eqn:E; [|reflexivity].
    apply prefix_eqb_eq in E. subst k. reflexivity.
  - intros k H. apply mark_dirty_mono. exact H.
  - intros H. apply mark_dirty_nodup. exact H.
Qed.

Lemma stage_fold : forall {A} (g : st -> A -> st) l, (forall s x, stage s (g s x)) -> forall s, stage s (fold_left g l s).
Proof.
  intros A g l H. induction l as [|x l IH]; intros s; simpl; [apply stage_refl|].
  eapply stage_trans; [apply H|apply IH].
Qed.

(* ---------------------------------------------------------------- on_node in stages *)
Definition st1 (f : bool) (s : st) (n : N) (old new : option ninfo) : st :=
  if N.eqb n me then
    let oldc := match old with Some i => ni_cidr i | None => zero_cidr end in
    let newc := match new with Some i => ni_cidr i | None => zero_cidr end in
    if prefix_eqb oldc newc then s
    else reflag f s (match old with Some _ => true | None => false end) oldc
                    (match new with Some _ => true | None => false end) newc
  else s.
Definition st2 (s : st) (n : N) (old : option ninfo) : st :=
  match old with
  | Some i =>
      let s := set_nodes s (aremove N.eqb (s_nodes s) n) in
      if N.eqb (ni_addr i) 0 then s
      else fst (update_cidr s (host32 (ni_addr i)) (fun r => with_hosts r (filter (fun x => negb (N.eqb x n)) (ri_hosts r))))
  | None => s end.
Definition st3 (s : st) (n : N) (new : option ninfo) : st :=
  match new with
  | Some i =>
      let s := set_nodes s (aset N.eqb (s_nodes s) n i) in
      if N.eqb (ni_addr i) 0 then s
      else fst (update_cidr s (host32 (ni_addr i)) (fun r => with_hosts r (insert_sorted n (ri_hosts r))))
  | None => s end.
Definition st4 (s : st) (n : N) : st :=
  fold_left (fun s e => if N.eqb (fst (fst e)) n then mark_dirty s (snd (fst e)) else s) (s_nr s) s.

Lemma on_node_forced_eq : forall f s n v,
  on_node_forced f s n v =
  let old := aget N.eqb (s_nodes s) n in
  let new := option_map ninfo_of v in
  st4 (st3 (st2 (st1 f s n old new) n old) n new) n.
Proof. reflexivity. Qed.
Lemma on_node_eq : forall f s n v,
  on_node f s n v =
  let old := aget N.eqb (s_nodes s) n in
  let new := option_map ninfo_of v in
  if opt_eqb ninfo_eqb old new then s else st4 (st3 (st2 (st1 f s n old new) n old) n new) n.
Proof. reflexivity. Qed.

Lemma fold_inv : forall {A} (P : st -> Prop) (g : st -> A -> st) l, (forall s x, P s -> P (g s x)) -> forall s, P s -> P (fold_left g l s).
Proof. intros A P g l H. induction l as [|x l IH]; intros s Hs; simpl; [exact Hs|]. apply IH, H, Hs. Qed.

Lemma update_cidr_nodes : forall s c f, s_nodes (fst (update_cidr s c f)) = s_nodes s.
Proof. intros s c f. unfold update_cidr. destruct (rinfo_eqb _ _); simpl; [reflexivity|]. now rewrite mark_dirty_nodes. Qed.

Definition G (ex : bool) (oldc : prefix) (kn : bool) (newc : prefix) (s : st) (k : prefix) : st :=
  match visit_node (tget (s_trie s) k) with
  | Some n =>
      if N.eqb n me then s else
      match aget N.eqb (s_nodes s) n with
      | Some i =>
          if Bool.eqb (subnet_has true ex oldc (ni_addr i)) (subnet_has true kn newc (ni_addr i)) then s
          else mark_dirty s k
      | None => s
      end
  | None => s
  end.
Lemma reflag_G : forall s ex oldc kn newc, reflag true s ex oldc kn newc = fold_left (G ex oldc kn newc) (stored s) s.
Proof. reflexivity. Qed.

Lemma G_stage : forall ex oldc kn newc s k, stage s (G ex oldc kn newc s k).
Proof.
  intros. unfold G. destruct (visit_node _); [|apply stage_refl]. destruct (N.eqb n me); [apply stage_refl|].
  destruct (aget N.eqb (s_nodes s) n); [|apply stage_refl]. destruct (Bool.eqb _ _); [apply stage_refl|apply stage_mark].
Qed.
Lemma G_inv : forall ex oldc kn newc s k, s_trie (G ex oldc kn newc s k) = s_trie s /\ s_nodes (G ex oldc kn newc s k) = s_nodes s.
Proof.
  intros. unfold G. destruct (visit_node _); [|now split]. destruct (N.eqb n me); [now split|].
  destruct (aget N.eqb (s_nodes s) n); [|now split]. destruct (Bool.eqb _ _); [now split|].
  now rewrite mark_dirty_trie, mark_dirty_nodes.
Qed.

Lemma reflag_marks : forall ex oldc kn newc k n i l s,
  In k l -> visit_node (tget (s_trie s) k) = Some n -> N.eqb n me = false -> aget N.eqb (s_nodes s) n = Some i ->
  Bool.eqb (subnet_has true ex oldc (ni_addr i)) (subnet_has true kn newc (ni_addr i)) = false ->
  In k (s_dirty (fold_left (G ex oldc kn newc) l s)).
Proof.
  intros ex oldc kn newc k n i. induction l as [|x l IH]; intros s Hin HV HN HA HF; [destruct Hin|]. simpl.
  destruct Hin as [->|Hin].
  - apply (sg_mono _ _ (stage_fold (G ex oldc kn newc) l (G_stage ex oldc kn newc) _)).
    unfold G. rewrite HV, HN, HA, HF. apply mark_dirty_in.
  - destruct (G_inv ex oldc kn newc s x) as [T Nn]. apply IH; auto; [now rewrite T|now rewrite Nn].
Qed.

Lemma st1_stage : forall f s n old new, stage s (st1 f s n old new).
Proof.
  intros. unfold st1. destruct (N.eqb n me); [|apply stage_refl]. cbv zeta. destruct (prefix_eqb _ _); [apply stage_refl|].
  unfold reflag. apply stage_fold. intros s0 x. destruct (visit_node _); [|apply stage_refl].
  destruct (N.eqb n0 me); [apply stage_refl|]. destruct (aget N.eqb (s_nodes s0) n0); [|apply stage_refl].
  destruct (Bool.eqb _ _); [apply stage_refl|apply stage_mark].
Qed.
Lemma st1_inv : forall f s n old new, s_trie (st1 f s n old new) = s_trie s /\ s_nodes (st1 f s n old new) = s_nodes s.
Proof.
  intros. unfold st1. destruct (N.eqb n me); [|now split]. cbv zeta. destruct (prefix_eqb _ _); [now split|].
  unfold reflag. apply (fold_inv (fun x => s_trie x = s_trie s /\ s_nodes x = s_nodes s)); [|now split].
  intros s0 x [A B]. destruct (visit_node _); [|now split]. destruct (N.eqb n0 me); [now split|].
  destruct (aget N.eqb (s_nodes s0) n0); [|now split]. destruct (Bool.eqb _ _); [now split|].
  now rewrite mark_dirty_trie, mark_dirty_nodes.
Qed.
Lemma st2_stage : forall s n old, stage s (st2 s n old).
Proof.
  intros. unfold st2. destruct old as [i|]; [|apply stage_refl]. cbv zeta.
  destruct (N.eqb (ni_addr i) 0); [apply stage_set_nodes|].
  eapply stage_trans; [apply stage_set_nodes|]. apply (stage_update_hosts _ _ (fun h => filter (fun x => negb (N.eqb x n)) h)).
Qed.
Lemma st3_stage : forall s n new, stage s (st3 s n new).
Proof.
  intros. unfold st3. destruct new as [i|]; [|apply stage_refl]. cbv zeta.
  destruct (N.eqb (ni_addr i) 0); [apply stage_set_nodes|].
  eapply stage_trans; [apply stage_set_nodes|]. apply (stage_update_hosts _ _ (fun h => insert_sorted n h)).
Qed.
Lemma st4_stage : forall s n, stage s (st4 s n).
Proof. intros. unfold st4. apply stage_fold. intros s0 x. destruct (N.eqb _ _); [apply stage_mark|apply stage_refl]. Qed.
Lemma st4_nodes : forall s n, s_nodes (st4 s n) = s_nodes s.
Proof.
  intros. unfold st4. apply (fold_inv (fun x => s_nodes x = s_nodes s)); [|reflexivity].
  intros s0 x H. destruct (N.eqb _ _); [now rewrite mark_dirty_nodes|exact H].
Qed.
Lemma st2_nodes : forall s n old, s_nodes (st2 s n old) = match old with Some _ => aremove N.eqb (s_nodes s) n | None => s_nodes s end.
Proof.
  intros. unfold st2. destruct old as [i|]; [|reflexivity]. cbv zeta. destruct (N.eqb (ni_addr i) 0); [reflexivity|].
  now rewrite update_cidr_nodes.
Qed.
Lemma st3_nodes : forall s n new, s_nodes (st3 s n new) = match new with Some i => aset N.eqb (s_nodes s) n i | None => s_nodes s end.
Proof.
  intros. unfold st3. destruct new as [i|]; [|reflexivity]. cbv zeta. destruct (N.eqb (ni_addr i) 0); [reflexivity|].
  now rewrite update_cidr_nodes.
Qed.

(* the node table after the four stages *)
Lemma mid_nodes : forall f s n new m,
  let old := aget N.eqb (s_nodes s) n in
  aget N.eqb (s_nodes (st4 (st3 (st2 (st1 f s n old new) n old) n new) n)) m = if N.eqb n m then new else aget N.eqb (s_nodes s) m.
Proof.
  intros f s n new m old. rewrite st4_nodes, st3_nodes, st2_nodes. destruct (st1_inv f s n old new) as [_ ->].
  destruct (N.eqb n m) eqn:E.
  - destruct new as [i|]; [now rewrite agetN_aset, E|].
    destruct old as [o|] eqn:O; [now rewrite agetN_aremove, E|].
    apply N.eqb_eq in E. subst m. exact O.
  - destruct new as [i|]; [rewrite agetN_aset, E|]; (destruct old as [o|]; [now rewrite agetN_aremove, E|reflexivity]).
Qed.

(* ---------------------------------------------------------------- the walk *)
From Verif.C43 Require Import Spec Final FinalProofs.

Lemma prefix_eq_dec : forall a b : prefix, {a = b} + {a <> b}.
Proof. decide equality; [apply Nat.eq_dec|apply N.eq_dec]. Qed.

Lemma walk_ext : forall t1 t2 c, (forall l, (l <= plen c)%nat -> tget t1 (anc c l) = tget t2 (anc c l)) -> walk t1 c = walk t2 c.
Proof.
  intros t1 t2 c H. unfold walk.
  assert (H' : forall l, In l (seq 0 (S (plen c))) -> tget t1 (anc c l) = tget t2 (anc c l)).
  { intros l Hl. apply in_seq in Hl. apply H. lia. }
  revert H'. generalize acc0. generalize (seq 0 (S (plen c))).
  induction l as [|x xs IH]; intros a H'; simpl; [reflexivity|].
  rewrite (H' x) by now left. apply IH. intros y Hy. apply H'. now right.
Qed.

Lemma walk_last : forall t c, anc c (plen c) = c ->
  walk t c = step true (fold_left (fun a l => step (Nat.eqb l (plen c)) a (tget t (anc c l))) (seq 0 (plen c)) acc0) (tget t c).
Proof.
  intros t c E. unfold walk. rewrite seq_S, fold_left_app. simpl. now rewrite Nat.eqb_refl, E.
Qed.

Lemma walk_node : forall t c po n sn, anc c (plen c) = c -> tget t c = mkRI po (Some n) [] 0 sn -> n <> me ->
  a_node (walk t c) = Some n.
Proof.
  intros t c po n sn E T Hn. rewrite (walk_last t c E), T, step_sent_irrel. simpl with_sent.
  exact (proj1 (step_block_last _ po n Hn)).
Qed.

Lemma valid_of_block : forall r n, ri_block r = Some n -> ri_valid r = true.
Proof. intros r n H. unfold ri_valid. rewrite H. destruct (ri_pool r); reflexivity. Qed.

Lemma stored_in : forall s k, ri_is_zero (tget (s_trie s) k) = false -> In k (stored s).
Proof.
  intros s k H. unfold stored. unfold tget in H. destruct (aget prefix_eqb (s_trie s) k) as [r|] eqn:A; [|discriminate].
  apply aget_In in A. apply in_map_iff. exists (k, r). split; [reflexivity|]. apply filter_In. split; [exact A|]. simpl. now rewrite H.
Qed.

Definition is_some {A} (o : option A) : bool := match o with Some _ => true | None => false end.
Definition cidr_of (o : option ninfo) : prefix := match o with Some i => ni_cidr i | None => zero_cidr end.

Lemma nios_subnet_has : forall nodes n i, aget N.eqb nodes n = Some i ->
  node_in_our_subnet nodes (Some n) = subnet_has true (is_some (aget N.eqb nodes me)) (cidr_of (aget N.eqb nodes me)) (ni_addr i).
Proof.
  intros nodes n i H. unfold node_in_our_subnet, subnet_has. destruct (aget N.eqb nodes me) as [l|]; simpl; [|reflexivity].
  now rewrite H.
Qed.
Lemma nios_unknown : forall nodes n, aget N.eqb nodes n = None -> node_in_our_subnet nodes (Some n) = false.
Proof. intros nodes n H. unfold node_in_our_subnet. destruct (aget N.eqb nodes me); [now rewrite H|reflexivity]. Qed.

Lemma subnet_has_same_cidr : forall (old new : option ninfo) a, prefix_eqb (cidr_of old) (cidr_of new) = true ->
  subnet_has true (is_some old) (cidr_of old) a = subnet_has true (is_some new) (cidr_of new) a.
Proof.
  intros old new a E. apply prefix_eqb_eq in E. unfold subnet_has.
  destruct old as [o|], new as [w|]; simpl in *.
  - now rewrite E.
  - rewrite E. reflexivity.
  - rewrite <- E. reflexivity.
  - reflexivity.
Qed.

Lemma finish_ext : forall n1 n2 a n, a_node a = Some n -> aget N.eqb n1 n = aget N.eqb n2 n ->
  node_in_our_subnet n1 (Some n) = node_in_our_subnet n2 (Some n) -> finish n1 a = finish n2 a.
Proof. intros n1 n2 a n HA HG HS. unfold finish. rewrite HA, HG, HS. reflexivity. Qed.

(* ---------------------------------------------------------------- the theorem *)
Theorem reflag_complete : forall s v k po n,
  s_dirty s = [] -> wfp 32 k -> k <> host32 0 ->
  tget (s_trie s) k = mkRI po (Some n) [] 0 true -> n <> me ->
  aget prefix_eqb (s_out s) k = Some (compute (s_trie s) (s_nodes s) k) ->
  let s' := apply_op true s (OpNode me v) in
  aget prefix_eqb (s_out s') k = Some (compute (s_trie s') (s_nodes s') k).
Proof.
  intros s v k po n HD W NZ T Hn FR s'. unfold s', apply_op. rewrite on_node_eq. cbv zeta.
  set (old := aget N.eqb (s_nodes s) me). set (new := option_map ninfo_of v).
  destruct (opt_eqb ninfo_eqb old new) eqn:U.
  { unfold flush. rewrite HD. simpl. exact FR. }
  set (s1 := st1 true s me old new). set (s2 := st2 s1 me old). set (s3 := st3 s2 me new). set (mid := st4 s3 me).
  assert (SG1 : stage s s1) by apply st1_stage.
  assert (SG12 : stage s1 mid).
  { eapply stage_trans; [apply st2_stage|]. eapply stage_trans; [apply st3_stage|apply st4_stage]. }
  assert (SG : stage s mid) by (eapply stage_trans; eassumption).
  assert (MN : forall m, aget N.eqb (s_nodes mid) m = if N.eqb me m then new else aget N.eqb (s_nodes s) m).
  { intros m. unfold mid, s3, s2, s1, old. apply mid_nodes. }
  assert (ND : NoDup (s_dirty mid)) by (apply (sg_nodup _ _ SG); rewrite HD; constructor).
  assert (F0 : flushed mid [] mid) by (split; [reflexivity|intros x; split; [intros []|intros _; split; reflexivity]]).
  pose proof (fold_flushed mid (s_dirty mid) [] mid ND (fun _ _ X => X) F0) as FL. rewrite app_nil_r in FL.
  pose proof (flushed_same_but_sent _ _ _ FL) as SB. destruct FL as [NN H].
  unfold flush. simpl.
  rewrite (compute_sent_irrel _ _ _ k SB), NN.
  assert (B : ri_block (tget (s_trie mid) k) = Some n) by (rewrite (sg_block _ _ SG k), T; reflexivity).
  assert (E32 : anc k (plen k) = k) by (apply anc_self; exact W).
  apply prefix_eqb_neq in NZ.
  destruct (in_dec prefix_eq_dec k (s_dirty mid)) as [I|I].
  - (* re-flagged: flushed from the new state *)
    destruct (proj1 (H k) (proj1 (in_rev _ _) I)) as [_ O]. rewrite O. unfold out_after.
    rewrite (valid_of_block _ _ B). unfold ri_is_zero. rewrite (valid_of_block _ _ B). simpl. rewrite !andb_false_r, NZ. reflexivity.
  - (* not re-flagged: nothing it depends on changed *)
    assert (I' : ~ In k (rev (s_dirty mid))) by (intros X; apply I; now apply in_rev).
    destruct (proj2 (H k) I') as [_ O]. rewrite O, (sg_out _ _ SG), FR. f_equal.
    unfold compute.
    assert (WK : walk (s_trie mid) k = walk (s_trie s) k).
    { apply walk_ext. intros l Hl. destruct (Nat.eq_dec l (plen k)) as [->|NE].
      - rewrite E32. destruct (sg_rel _ _ SG k) as [X|X]; [exact X|contradiction].
      - apply (sg_short _ _ SG). simpl. destruct W as [L32 _]. lia. }
    rewrite WK. symmetry.
    assert (NE : N.eqb me n = false) by (apply N.eqb_neq; intros X; apply Hn; now symmetry).
    apply (finish_ext _ _ _ n (walk_node _ k po n true E32 T Hn)).
    + symmetry. rewrite MN, NE. reflexivity.
    + destruct (aget N.eqb (s_nodes s) n) as [i|] eqn:An.
      * assert (An' : aget N.eqb (s_nodes mid) n = Some i) by (rewrite MN, NE; exact An).
        rewrite (nios_subnet_has _ _ _ An), (nios_subnet_has _ _ _ An'). rewrite MN, N.eqb_refl. fold old.
        destruct (Bool.eqb (subnet_has true (is_some old) (cidr_of old) (ni_addr i))
                           (subnet_has true (is_some new) (cidr_of new) (ni_addr i))) eqn:FE; [symmetry; now apply eqb_prop|].
        exfalso. destruct (prefix_eqb (cidr_of old) (cidr_of new)) eqn:CE.
        { rewrite (subnet_has_same_cidr old new _ CE), eqb_reflx in FE. discriminate. }
        apply I. apply (sg_mono _ _ SG12). unfold s1, st1. rewrite N.eqb_refl. cbv zeta.
        change (match old with Some i0 => ni_cidr i0 | None => zero_cidr end) with (cidr_of old).
        change (match new with Some i0 => ni_cidr i0 | None => zero_cidr end) with (cidr_of new).
        rewrite CE, reflag_G.
        apply (reflag_marks (is_some old) (cidr_of old) (is_some new) (cidr_of new) k n i (stored s) s);
          [apply stored_in; rewrite T; reflexivity | rewrite T; reflexivity | now apply N.eqb_neq | exact An | exact FE].
      * rewrite (nios_unknown _ _ An). apply nios_unknown. rewrite MN, NE. exact An.
Qed.
