(* C43 — block routes of the trie as a function of the datastore's blocks. *)
From Coq Require Import List NArith Arith Bool Lia Permutation.
From Verif.Common Require Import Prefix.
From Verif.C43 Require Import Model MgrProofs FlushPerm Spec Final FinalProofs Reflag Peer PoolUpd Chain Fresh FreshOps NR Inv.
From Verif.C43 Require Import Link Link2 Link3 Link4.
Import ListNotations.
Open Scope N_scope.

(* every block route of the trie is cached under some block key *)
Definition cc' (s : st) : Prop := forall k n, ri_block (tget (s_trie s) k) = Some n ->
  exists key l, aget prefix_eqb (s_cache s) key = Some l /\ In (n, k) l.

(* blockToRoutes holds the routes of the datastore's blocks *)
Definition lc (s : st) (d : dstate) : Prop := forall c,
  match aget prefix_eqb (s_cache s) c, aget prefix_eqb (d_blocks d) c with
  | Some l, Some b => forall r, In r l <-> In r (routes_from_block c b)
  | None, None => True
  | _, _ => False
  end.

Lemma cc'_frame : forall s0 s, frame s0 s -> cc' s0 -> cc' s.
Proof.
  intros s0 s F H k n B. rewrite (proj1 (fr_bw _ _ F k)) in B. destruct (H k n B) as (key & l & A & I).
  exists key, l. rewrite (fr_cache _ _ F). split; assumption.
Qed.

Lemma keep_adds_new : forall (new cached : list nroute) r,
  In r (filter (fun r => existsb (nroute_eqb r) new) cached ++
        filter (fun r => negb (existsb (nroute_eqb r) (filter (fun r0 => existsb (nroute_eqb r0) new) cached))) new)
  <-> In r new.
Proof.
  intros new cached r. rewrite in_app_iff, !filter_In, negb_true_iff.
  rewrite (in_existsb_nroute r new). rewrite (notin_existsb_nroute r). rewrite filter_In, (in_existsb_nroute r new).
  split; [tauto|]. intros H. destruct (in_dec (fun a b => match nroute_eqb a b as x return nroute_eqb a b = x -> {a = b} + {a <> b} with
                                   | true => fun E => left (proj1 (nroute_eqb_eq a b) E)
                                   | false => fun E => right (fun X => eq_ind (nroute_eqb a b) (fun v => v = false -> False)
                                                (fun Y => ltac:(rewrite (proj2 (nroute_eqb_eq a b) X) in Y; discriminate)) _ eq_refl E) end eq_refl) r cached); tauto.
Qed.

Lemma has_dst_in : forall k l n, In (n, k) l -> has_dst k l = true.
Proof. intros k l n H. unfold has_dst. apply existsb_exists. exists (n, k). split; [exact H|apply prefix_eqb_refl]. Qed.

Section Sep.
  Variable BK : prefix -> Prop.
  Hypothesis sep : forall a b x, BK a -> BK b -> covers 32 a x = true -> covers 32 b x = true -> a = b.

  Lemma cc'_on_block_some : forall s c b, BK c -> blk_ok c b -> cc BK s -> nrb s -> cc' s -> cc' (on_block true s c (Some b)).
  Proof.
    intros s c b HBK OKB CC NRB H'.
    pose proof (proj1 (on_block_some_inv BK sep s c b HBK OKB CC NRB)) as CCA.
    rewrite on_block_eq in *. cbv zeta in *.
    set (new := routes_from_block c b) in *.
    set (cached := match aget prefix_eqb (s_cache s) c with Some l => l | None => [] end) in *.
    set (keep := filter (fun r => existsb (nroute_eqb r) new) cached) in *.
    set (dels := filter (fun r => negb (existsb (nroute_eqb r) new)) cached) in *.
    set (adds := filter (fun r => negb (existsb (nroute_eqb r) keep)) new) in *.
    set (s0 := set_cache s (aset prefix_eqb (s_cache s) c (keep ++ adds))) in *.
    assert (CA : forall key, aget prefix_eqb (s_cache (fold_left (blk_add true) adds (fold_left (blk_del true) dels s0))) key
                 = if prefix_eqb c key then Some (keep ++ adds) else aget prefix_eqb (s_cache s) key).
    { intros key. rewrite (fold_cache true _ (or_intror (or_introl eq_refl))), (fold_cache true _ (or_introl eq_refl)).
      unfold s0. cbn [s_cache set_cache]. apply aget_aset. }
    assert (KA : forall r, In r (keep ++ adds) <-> In r new) by (intros r; apply keep_adds_new).
    intros k n F.
    destruct (has_dst k new) eqn:HN.
    - apply has_dst_true in HN. destruct HN as (n' & Hn').
      assert (A : aget prefix_eqb (s_cache (fold_left (blk_add true) adds (fold_left (blk_del true) dels s0))) c = Some (keep ++ adds))
        by (rewrite CA, prefix_eqb_refl; reflexivity).
      destruct (CCA c _ A) as (_ & _ & Hl). destruct (Hl (n', k) (proj2 (KA _) Hn')) as [_ Fd]. simpl in Fd.
      rewrite Fd in F. inversion F; subst n'. exists c, (keep ++ adds). split; [exact A|now apply KA].
    - assert (HA : has_dst k adds = false).
      { destruct (has_dst k adds) eqn:X; [|reflexivity]. apply has_dst_true in X. destruct X as (n' & Hn').
        unfold adds in Hn'. apply filter_In in Hn'. rewrite (has_dst_in k new n' (proj1 Hn')) in HN. discriminate. }
      rewrite (fold_blk_add_other true adds _ k HA), fold_blk_del_tget in F.
      destruct (has_dst k dels) eqn:HD; [destruct (tget (s_trie s0) k); discriminate|].
      change (tget (s_trie s0) k) with (tget (s_trie s) k) in F.
      destruct (H' k n F) as (key & l & A & I).
      destruct (prefix_eqb c key) eqn:X.
      + apply prefix_eqb_eq in X. subst key. exfalso.
        assert (IC : In (n, k) cached) by (unfold cached; now rewrite A).
        assert (ID : In (n, k) dels).
        { unfold dels. apply filter_In. split; [exact IC|]. apply negb_true_iff, notin_existsb_nroute. intros Y.
          rewrite (has_dst_in k new n Y) in HN. discriminate. }
        rewrite (has_dst_in k dels n ID) in HD. discriminate.
      + exists key, l. rewrite CA, X. split; assumption.
  Qed.

  Lemma cc'_on_block_none : forall s c, cc' s -> cc' (on_block true s c None).
  Proof.
    intros s c H'. rewrite on_block_eq. cbv zeta.
    set (cached := match aget prefix_eqb (s_cache s) c with Some l => l | None => [] end).
    intros k n F. cbn [s_trie set_cache] in F. rewrite fold_blk_clr_tget in F.
    destruct (has_dst k cached) eqn:HD; [destruct (tget (s_trie s) k); discriminate|].
    destruct (H' k n F) as (key & l & A & I).
    destruct (prefix_eqb c key) eqn:X.
    - apply prefix_eqb_eq in X. subst key. exfalso.
      assert (IC : In (n, k) cached) by (unfold cached; now rewrite A). rewrite (has_dst_in k cached n IC) in HD. discriminate.
    - exists key, l. cbn [s_cache set_cache]. rewrite aget_aremove, X, (fold_cache true _ (or_intror (or_intror eq_refl))). split; assumption.
  Qed.

  Lemma cc'_step : forall s o, inv BK s -> hop_ok BK o -> cc' s -> cc' (apply_op true s o).
  Proof.
    intros s o I OK H'. unfold apply_op. destruct o as [c v|c v|n v|id cs].
    - eapply cc'_frame; [exact (frame_trans _ _ _ (frame_on_pool s c v) (frame_flush _))|exact H'].
    - eapply cc'_frame; [apply frame_flush|]. destruct v as [b|].
      + destruct OK as [K1 K2]. apply cc'_on_block_some; auto; apply I.
      + now apply cc'_on_block_none.
    - eapply cc'_frame; [exact (frame_trans _ _ _ (frame_on_node true s n v) (frame_flush _))|exact H'].
    - eapply cc'_frame; [apply frame_flush|]. intros k n F.
      assert (B : ri_block (tget (s_trie (on_wep s id cs)) k) = ri_block (tget (s_trie s) k))
        by (apply (@keepf_on_wep _ _ ri_block s_cache); auto).
      rewrite B in F. destruct (H' k n F) as (key & l & A & In'). exists key, l. split; [|exact In'].
      assert (C : s_cache (on_wep s id cs) = s_cache s) by (apply (@keepf_on_wep _ _ ri_block s_cache); auto).
      now rewrite C.
  Qed.

  Lemma cc'_fstep : forall s x, inv BK s -> fhop_ok BK x -> cc' s -> cc' (apply_fop true s x).
  Proof.
    intros s [force o] I OK H'. simpl in OK. destruct force; [|now apply cc'_step].
    destruct o as [c v|c v|n v|id cs]; cbn [apply_fop]; try (now apply cc'_step).
    - eapply cc'_frame; [exact (frame_trans _ _ _ (frame_on_node_forced true s n v) (frame_flush _))|exact H'].
    - eapply cc'_frame; [apply frame_flush|]. intros k n F.
      assert (B : ri_block (tget (s_trie (on_wep_forced s id cs)) k) = ri_block (tget (s_trie s) k))
        by (apply (@keepf_on_wep_forced _ _ ri_block s_cache); auto).
      rewrite B in F. destruct (H' k n F) as (key & l & A & In'). exists key, l. split; [|exact In'].
      assert (C : s_cache (on_wep_forced s id cs) = s_cache s) by (apply (@keepf_on_wep_forced _ _ ri_block s_cache); auto).
      now rewrite C.
  Qed.
End Sep.

(* ---------------------------------------------------------------- generic key-uniqueness facts *)
Section GenKeys.
  Context {K V : Type} (e : K -> K -> bool) (E : forall a b, e a b = true <-> a = b).
  Lemma g_in_aset : forall (m : list (K * V)) c b x, In x (aset e m c b) -> x = (c, b) \/ In x m.
  Proof.
    induction m as [|[k0 v0] m IH]; intros c b x H; simpl in *; [destruct H as [H|[]]; now left|].
    destruct (e k0 c); simpl in H; destruct H as [H|H]; auto. destruct (IH c b x H); auto.
  Qed.
  Lemma g_in_aremove : forall (m : list (K * V)) c x, In x (aremove e m c) -> In x m.
  Proof.
    induction m as [|[k0 v0] m IH]; intros c x H; simpl in *; [exact H|].
    destruct (e k0 c); [right; eapply IH; exact H|]. simpl in H. destruct H as [H|H]; [now left|right; eapply IH; exact H].
  Qed.
  Lemma g_nodup_aset : forall (m : list (K * V)) c b, NoDup (map fst m) -> NoDup (map fst (aset e m c b)).
  Proof.
    induction m as [|[k0 v0] m IH]; intros c b H; simpl in *; [constructor; [intros []|constructor]|].
    inversion H as [|? ? NI ND]; subst. destruct (e k0 c) eqn:X; simpl.
    - apply E in X. subst. constructor; assumption.
    - constructor; [|now apply IH]. intros Y. apply in_map_iff in Y. destruct Y as ([k1 v1] & E1 & I1). simpl in E1. subst k1.
      apply g_in_aset in I1. destruct I1 as [I1|I1].
      + inversion I1; subst. rewrite (proj2 (E c c) eq_refl) in X. discriminate.
      + apply NI. change k0 with (fst (k0, v1)). now apply in_map.
  Qed.
  Lemma g_nodup_aremove : forall (m : list (K * V)) c, NoDup (map fst m) -> NoDup (map fst (aremove e m c)).
  Proof.
    induction m as [|[k0 v0] m IH]; intros c H; simpl in *; [constructor|].
    inversion H as [|? ? NI ND]; subst. destruct (e k0 c); [now apply IH|]. simpl. constructor; [|now apply IH].
    intros Y. apply NI. apply in_map_iff in Y. destruct Y as ([k1 v1] & E1 & I1). simpl in E1. subst k1.
    apply g_in_aremove in I1. change k0 with (fst (k0, v1)). now apply in_map.
  Qed.
  Lemma g_aget_of_in : forall (m : list (K * V)) k v, NoDup (map fst m) -> In (k, v) m -> aget e m k = Some v.
  Proof.
    induction m as [|[k0 v0] m IH]; intros k v ND H; simpl in *; [destruct H|]. inversion ND as [|? ? NI ND']; subst.
    destruct H as [H|H].
    - inversion H; subst. now rewrite (proj2 (E k k) eq_refl).
    - destruct (e k0 k) eqn:X; [|now apply IH]. apply E in X. subst k0. exfalso. apply NI.
      change k with (fst (k, v)). now apply in_map.
  Qed.
End GenKeys.

(* ---------------------------------------------------------------- blocks *)
Definition dsts_ok (c : prefix) (b : blockv) : Prop := NoDup (map fst (block_dsts c b)).

Lemma rfb_dsts : forall c b n k, dsts_ok c b -> (In (n, k) (routes_from_block c b) <-> In (k, n) (block_dsts c b)).
Proof.
  intros c b n k OK. unfold dsts_ok, block_dsts, routes_from_block in *.
  set (aR := flat_map (fun ah => match snd ah with Some h => if opt_eqb N.eqb (bv_aff b) (Some h) then [] else [(h, host32 (fst ah))] | None => [] end) (bv_allocs b)) in *.
  set (aD := flat_map (fun ah => match snd ah with Some h => if opt_eqb N.eqb (bv_aff b) (Some h) then [] else [(host32 (fst ah), h)] | None => [] end) (bv_allocs b)) in *.
  assert (EQ : forall n k, In (n, k) aR <-> In (k, n) aD).
  { intros n0 k0. unfold aR, aD. rewrite !in_flat_map. split; intros (ah & I & X); exists ah; (split; [exact I|]);
      (destruct (snd ah) as [h|]; [|destruct X]); (destruct (opt_eqb N.eqb (bv_aff b) (Some h)); [destruct X|]);
      destruct X as [X|[]]; inversion X; subst; left; reflexivity. }
  destruct (bv_aff b) as [h|].
  - simpl in OK. inversion OK as [|? ? NI ND]; subst. rewrite in_app_iff, filter_In. simpl. rewrite negb_true_iff, prefix_eqb_neq. split.
    + intros [[I X]|[I|[]]]; [right; now apply EQ|left; inversion I; reflexivity].
    + intros [I|I]; [right; left; inversion I; reflexivity|left]. split; [now apply EQ|]. simpl. intros ->. apply NI.
      change c with (fst (c, n)). now apply in_map.
  - simpl. apply EQ.
Qed.

Definition ds (d : dstate) : Prop :=
  NoDup (map fst (d_blocks d)) /\ NoDup (map fst (d_nodes d)) /\ forall c b, In (c, b) (d_blocks d) -> dsts_ok c b.
Definition dop_ok (o : op) : Prop := match o with OpBlock c (Some b) => dsts_ok c b | _ => True end.

Lemma ds_step : forall d o, ds d -> dop_ok o -> ds (dstep d o).
Proof.
  intros d o (A & B & C) OK. destruct o as [c v|c v|n v|id cs]; cbn [dstep]; unfold ds; cbn [d_blocks d_nodes]; try (split; [exact A|split; [exact B|exact C]]).
  - unfold upd. destruct v as [b|].
    + split; [apply (g_nodup_aset prefix_eqb prefix_eqb_eq); exact A|]. split; [exact B|].
      intros c0 b0 I. apply g_in_aset in I. destruct I as [I|I]; [inversion I; subst; exact OK|now apply C].
    + split; [apply (g_nodup_aremove prefix_eqb); exact A|]. split; [exact B|].
      intros c0 b0 I. apply g_in_aremove in I. now apply C.
  - unfold upd. split; [exact A|]. split; [|exact C].
    destruct v; [apply (g_nodup_aset N.eqb N.eqb_eq)|apply (g_nodup_aremove N.eqb)]; exact B.
Qed.
