(* C43 — executable model of felix/calc/l3_route_resolver.go (L3RouteResolver, IPv4 side) and of the
   kernel-route selection of felix/dataplane/linux/route_mgr.go as instantiated by vxlan_mgr.go,
   ipip_mgr.go and noencap_mgr.go.  Definitions only.

   What is modelled
   * the resolver's state: nodeNameToNodeInfo, allPools, blockToRoutes, nodeRoutes (reference counts),
     workloadIDToCIDRs, the route trie (one RouteInfo per CIDR: pool, block owner, host names, local
     workload reference count, WasSent) and the dirty set; OnPoolUpdate / OnBlockUpdate /
     OnResourceUpdate(node) / OnWorkloadUpdate each followed by flush(), with exactly the dirty marking
     of the Go code (updateCIDR marks the CIDR itself, markChildrenDirty, markAllNodeRoutesDirty, the
     re-flagging walk when the local node's subnet changes);
   * flush(): the walk over the lookup path (every stored prefix covering the CIDR, shortest first),
     SameSubnet = poolAllowsCrossSubnet && nodeInOurSubnet, RouteUpdate / RouteRemove applied to the
     accumulated route set;
   * routeManager: which RouteUpdates are kept (routesByDest, localIPAMBlocks) and which kernel
     target each gets (noEncapRoute, else the manager's tunnelRouteFn; blackholeRoutes).

   The CIDR trie is represented by the finite map of its stored prefixes (C36 proves the Go trie is
   that map and LookupPath = the stored prefixes covering the query, shortest first).
   Go map / set iteration orders: every loop over a map or set in this code performs per-element effects
   on distinct CIDRs, so the model iterates in list order (an assumption listed in props/C43.py; it is not
   proved here, the correspondence run exercises Go's randomised map order on every case).

   Not modelled: IPv6 routes, tunnel addresses of nodes (IPIP / VXLAN / Wireguard refs), remote
   workload endpoints (routeSource WorkloadIPs), NAT-outgoing (held constant by the driver).

   [fixed] selects the tree: false = the originally pinned code (in the re-flagging walk an absent IPv4 subnet
   is the zero value 0.0.0.0/0 and "contains" every address; a changed block route does not re-flag the routes
   it contains), true = the current tree (b294575 = fixes/C43-*.patch and aac8598 =
   fixes/C01-block-update-reflags-contained-routes.patch). *)
From Coq Require Import List NArith Arith Bool.
From Verif.Common Require Import Prefix.
Import ListNotations.
Open Scope N_scope.

(* ------------------------------------------------------------------ inputs *)

Inductive mode := Never | Always | Cross.
Record poolv := mkPool { pv_ipip : mode; pv_vxlan : mode; pv_lb : bool }.
(* affinity host, and (address, recorded node) of every allocated ordinal, in ordinal order *)
Record blockv := mkBlock { bv_aff : option N; bv_allocs : list (N * option N) }.
(* a node that is known: Some (address, subnet) or None when it has no IPv4 address *)
Definition nodev := option (N * prefix).

Inductive op :=
| OpPool (c : prefix) (v : option poolv)
| OpBlock (c : prefix) (v : option blockv)
| OpNode (n : N) (v : option nodev)
| OpWep (id : N) (cs : list prefix).

Definition me : N := 0.

Definition mode_eqb (a b : mode) : bool :=
  match a, b with Never, Never | Always, Always | Cross, Cross => true | _, _ => false end.

(* proto.IPPoolType: 0 NONE, 1 NO_ENCAP, 2 VXLAN, 3 IPIP  (poolTypeForPool) *)
Definition pool_type (p : poolv) : N :=
  if pv_lb p then 0
  else if negb (mode_eqb (pv_vxlan p) Never) then 2
  else if negb (mode_eqb (pv_ipip p) Never) then 3
  else 1.
Definition pool_cross (p : poolv) : bool :=
  mode_eqb (pv_ipip p) Cross || mode_eqb (pv_vxlan p) Cross.

(* ------------------------------------------------------------------ small finite maps *)

Section Assoc.
  Context {K V : Type} (keqb : K -> K -> bool).
  Fixpoint aget (m : list (K * V)) (k : K) : option V :=
    match m with
    | [] => None
    | (k', v) :: m' => if keqb k' k then Some v else aget m' k
    end.
  Fixpoint aremove (m : list (K * V)) (k : K) : list (K * V) :=
    match m with
    | [] => []
    | (k', v) :: m' => if keqb k' k then aremove m' k else (k', v) :: aremove m' k
    end.
  Fixpoint aset (m : list (K * V)) (k : K) (v : V) : list (K * V) :=
    match m with
    | [] => [(k, v)]
    | (k', v') :: m' => if keqb k' k then (k, v) :: m' else (k', v') :: aset m' k v
    end.
End Assoc.

Definition opt_eqb {A} (e : A -> A -> bool) (a b : option A) : bool :=
  match a, b with Some x, Some y => e x y | None, None => true | _, _ => false end.
Fixpoint list_eqb {A} (e : A -> A -> bool) (a b : list A) : bool :=
  match a, b with
  | [], [] => true
  | x :: a', y :: b' => e x y && list_eqb e a' b'
  | _, _ => false
  end.

(* ------------------------------------------------------------------ resolver state *)

Record pinfo := mkPI { pi_type : N; pi_cross : bool }.
Definition pinfo_eqb (a b : pinfo) := N.eqb (pi_type a) (pi_type b) && Bool.eqb (pi_cross a) (pi_cross b).

(* RouteInfo *)
Record rinfo := mkRI { ri_pool : option pinfo; ri_block : option N; ri_hosts : list N; ri_wep : nat; ri_sent : bool }.
Definition ri_zero : rinfo := mkRI None None [] 0 false.
Definition rinfo_eqb (a b : rinfo) : bool :=
  opt_eqb pinfo_eqb (ri_pool a) (ri_pool b) && opt_eqb N.eqb (ri_block a) (ri_block b)
  && list_eqb N.eqb (ri_hosts a) (ri_hosts b) && Nat.eqb (ri_wep a) (ri_wep b) && Bool.eqb (ri_sent a) (ri_sent b).
(* IsValidRoute *)
Definition ri_valid (r : rinfo) : bool :=
  match ri_pool r, ri_block r, ri_hosts r, ri_wep r with
  | None, None, [], O => false
  | _, _, _, _ => true
  end.
(* IsZero: the CIDR is not stored in the trie *)
Definition ri_is_zero (r : rinfo) : bool := negb (ri_sent r) && negb (ri_valid r).

(* l3rrNodeInfo (IPv4 part): the zero values stand for "no IPv4 address" *)
Record ninfo := mkNI { ni_addr : N; ni_cidr : prefix }.
Definition zero_cidr : prefix := mkP 0 0.
Definition ninfo_of (v : nodev) : ninfo :=
  match v with Some (a, c) => mkNI a c | None => mkNI 0 zero_cidr end.
Definition ninfo_eqb (a b : ninfo) := N.eqb (ni_addr a) (ni_addr b) && prefix_eqb (ni_cidr a) (ni_cidr b).

Definition nroute := (N * prefix)%type.   (* nodenameRoute *)
Definition nroute_eqb (a b : nroute) := N.eqb (fst a) (fst b) && prefix_eqb (snd a) (snd b).

(* proto.RouteUpdate, the fields the route managers read *)
Record route := mkRoute { r_types : N; r_pool : N; r_node : option N; r_ip : option N;
                          r_same : bool; r_borrowed : bool; r_localw : bool }.
Definition route_eqb (a b : route) : bool :=
  N.eqb (r_types a) (r_types b) && N.eqb (r_pool a) (r_pool b) && opt_eqb N.eqb (r_node a) (r_node b)
  && opt_eqb N.eqb (r_ip a) (r_ip b) && Bool.eqb (r_same a) (r_same b) && Bool.eqb (r_borrowed a) (r_borrowed b)
  && Bool.eqb (r_localw a) (r_localw b).

Record st := mkSt {
  s_trie : list (prefix * rinfo);
  s_nodes : list (N * ninfo);
  s_pools : list (prefix * pinfo);
  s_cache : list (prefix * list nroute);    (* blockToRoutes *)
  s_nr : list (nroute * nat);               (* nodeRoutes reference counts *)
  s_weps : list (N * list prefix);
  s_dirty : list prefix;
  s_out : list (prefix * route)             (* accumulated RouteUpdate / RouteRemove stream *)
}.
Definition st0 : st := mkSt [] [] [] [] [] [] [] [].

Definition tget (t : list (prefix * rinfo)) (c : prefix) : rinfo :=
  match aget prefix_eqb t c with Some r => r | None => ri_zero end.

Definition set_trie s t := mkSt t (s_nodes s) (s_pools s) (s_cache s) (s_nr s) (s_weps s) (s_dirty s) (s_out s).
Definition set_nodes s x := mkSt (s_trie s) x (s_pools s) (s_cache s) (s_nr s) (s_weps s) (s_dirty s) (s_out s).
Definition set_pools s x := mkSt (s_trie s) (s_nodes s) x (s_cache s) (s_nr s) (s_weps s) (s_dirty s) (s_out s).
Definition set_cache s x := mkSt (s_trie s) (s_nodes s) (s_pools s) x (s_nr s) (s_weps s) (s_dirty s) (s_out s).
Definition set_nr s x := mkSt (s_trie s) (s_nodes s) (s_pools s) (s_cache s) x (s_weps s) (s_dirty s) (s_out s).
Definition set_weps s x := mkSt (s_trie s) (s_nodes s) (s_pools s) (s_cache s) (s_nr s) x (s_dirty s) (s_out s).
Definition set_dirty s x := mkSt (s_trie s) (s_nodes s) (s_pools s) (s_cache s) (s_nr s) (s_weps s) x (s_out s).
Definition set_out s x := mkSt (s_trie s) (s_nodes s) (s_pools s) (s_cache s) (s_nr s) (s_weps s) (s_dirty s) x.

Definition mark_dirty (s : st) (c : prefix) : st :=
  if existsb (prefix_eqb c) (s_dirty s) then s else set_dirty s (c :: s_dirty s).

(* RouteTrie.updateCIDR: apply f to the RouteInfo of c; a real change marks c dirty.  Returns "changed". *)
Definition update_cidr (s : st) (c : prefix) (f : rinfo -> rinfo) : st * bool :=
  let ri := tget (s_trie s) c in
  let ri' := f ri in
  if rinfo_eqb ri ri' then (s, false)
  else (mark_dirty (set_trie s (aset prefix_eqb (s_trie s) c ri')) c, true).

Definition with_pool r p := mkRI p (ri_block r) (ri_hosts r) (ri_wep r) (ri_sent r).
Definition with_block r b := mkRI (ri_pool r) b (ri_hosts r) (ri_wep r) (ri_sent r).
Definition with_hosts r h := mkRI (ri_pool r) (ri_block r) h (ri_wep r) (ri_sent r).
Definition with_wep r w := mkRI (ri_pool r) (ri_block r) (ri_hosts r) w (ri_sent r).
Definition with_sent r b := mkRI (ri_pool r) (ri_block r) (ri_hosts r) (ri_wep r) b.

(* the CIDRs stored in the trie (Visit) *)
Definition stored (s : st) : list prefix :=
  map fst (filter (fun e => negb (ri_is_zero (snd e))) (s_trie s)).

(* markChildrenDirty: every stored CIDR whose base address lies in c *)
Definition mark_children (s : st) (c : prefix) : st :=
  fold_left (fun s k => if contains 32 c (paddr k) then mark_dirty s k else s) (stored s) s.

(* nodeRoutes.Add / Remove *)
Definition nr_add (s : st) (r : nroute) : st :=
  let n := match aget nroute_eqb (s_nr s) r with Some k => k | None => O end in
  set_nr s (aset nroute_eqb (s_nr s) r (S n)).
Definition nr_remove (s : st) (r : nroute) : st :=
  match aget nroute_eqb (s_nr s) r with
  | Some (S (S k)) => set_nr s (aset nroute_eqb (s_nr s) r (S k))
  | _ => set_nr s (aremove nroute_eqb (s_nr s) r)
  end.

(* ------------------------------------------------------------------ flush *)

Definition host32 (a : N) : prefix := mkP a 32.
(* the prefix of length l covering c *)
Definition anc (c : prefix) (l : nat) : prefix := mkP (mask 32 l (paddr c)) l.

Record acc := mkAcc {
  a_ptype : N; a_cross : bool; a_bseen : bool; a_bnode : N; a_btypes : N; a_bmatch : bool;
  a_hashost : bool; a_node : option N; a_borrowed : bool; a_types : N; a_localw : bool }.
Definition acc0 : acc := mkAcc 0 false false 0 0 false false None false 0 false.

Definition T_REMOTE_WORKLOAD : N := 1.
Definition T_REMOTE_HOST : N := 2.
Definition T_LOCAL_WORKLOAD : N := 4.
Definition T_LOCAL_HOST : N := 8.

(* one entry of the lookup path (body of the loop `for _, entry := range buf`) *)
Definition step (last : bool) (a : acc) (ri : rinfo) : acc :=
  let a := match ri_pool ri with
           | Some p => mkAcc (if N.eqb (pi_type p) 0 then a_ptype a else pi_type p) (a_cross a || pi_cross p)
                             (a_bseen a) (a_bnode a) (a_btypes a) (a_bmatch a) (a_hashost a) (a_node a)
                             (a_borrowed a) (a_types a) (a_localw a)
           | None => a end in
  let a := match ri_block ri with
           | Some n =>
               let differs := a_bseen a && negb (N.eqb (a_bnode a) n) in
               mkAcc (a_ptype a) (a_cross a) true (if differs then a_bnode a else n)
                     (N.lor (a_btypes a) (if N.eqb n me then T_LOCAL_WORKLOAD else T_REMOTE_WORKLOAD))
                     (a_bmatch a || last) (a_hashost a) (Some n) (a_borrowed a || differs) (a_types a) (a_localw a)
           | None => a end in
  let a := match ri_hosts ri with
           | h :: _ => mkAcc (a_ptype a) (a_cross a) (a_bseen a) (a_bnode a) (a_btypes a) (a_bmatch a) true (Some h)
                             (a_borrowed a) (N.lor (a_types a) (if N.eqb h me then T_LOCAL_HOST else T_REMOTE_HOST)) (a_localw a)
           | [] => a end in
  match ri_wep ri with
  | S _ => mkAcc (a_ptype a) (a_cross a) (a_bseen a) (a_bnode a) (a_btypes a) (a_bmatch a) (a_hashost a) (Some me)
                 (a_borrowed a || (a_bseen a && negb (N.eqb (a_bnode a) me))) (N.lor (a_types a) T_LOCAL_WORKLOAD) true
  | O => a end.

Definition walk (t : list (prefix * rinfo)) (c : prefix) : acc :=
  fold_left (fun a l => step (Nat.eqb l (plen c)) a (tget t (anc c l))) (seq 0 (S (plen c))) acc0.

(* nodeInOurSubnet; [zero_cidr] is "no IPv4 subnet" *)
Definition node_in_our_subnet (nodes : list (N * ninfo)) (n : option N) : bool :=
  match aget N.eqb nodes me, n with
  | Some l, Some n => match aget N.eqb nodes n with
                      | Some i => negb (prefix_eqb (ni_cidr l) zero_cidr) && contains 32 (ni_cidr l) (ni_addr i)
                      | None => false end
  | _, _ => false
  end.

Definition finish (nodes : list (N * ninfo)) (a : acc) : route :=
  let types := if a_bseen a && negb (a_hashost a) then N.lor (a_types a) (a_btypes a) else a_types a in
  let ipaddr := match a_node a with
                | Some n => match aget N.eqb nodes n with
                            | Some i => if N.eqb (ni_addr i) 0 then None else Some (ni_addr i)
                            | None => None end
                | None => None end in
  mkRoute types (a_ptype a) (a_node a) ipaddr (a_cross a && node_in_our_subnet nodes (a_node a)) (a_borrowed a) (a_localw a).

(* the RouteUpdate flush() computes for a stored CIDR *)
Definition compute (t : list (prefix * rinfo)) (nodes : list (N * ninfo)) (c : prefix) : route :=
  finish nodes (walk t c).

Definition flush_one (s : st) (c : prefix) : st :=
  let ri := tget (s_trie s) c in
  if ri_is_zero ri then s
  else if ri_sent ri && negb (ri_valid ri) then
    set_out (set_trie s (aset prefix_eqb (s_trie s) c (with_sent ri false))) (aremove prefix_eqb (s_out s) c)
  else if prefix_eqb c (host32 0) then s
  else set_out (set_trie s (aset prefix_eqb (s_trie s) c (with_sent ri true)))
               (aset prefix_eqb (s_out s) c (compute (s_trie s) (s_nodes s) c)).

Definition flush (s : st) : st := set_dirty (fold_left flush_one (s_dirty s) s) [].

(* ------------------------------------------------------------------ updates *)

Definition on_pool (s : st) (c : prefix) (v : option poolv) : st :=
  match v with
  | Some pv =>
      let p := mkPI (pool_type pv) (pool_cross pv) in
      let s := set_pools s (aset prefix_eqb (s_pools s) c p) in
      let '(s, ch) := update_cidr s c (fun r => with_pool r (Some p)) in
      if ch then mark_children s c else s
  | None =>
      match aget prefix_eqb (s_pools s) c with
      | Some _ =>
          let s := set_pools s (aremove prefix_eqb (s_pools s) c) in
          let '(s, ch) := update_cidr s c (fun r => with_pool r None) in
          if ch then mark_children s c else s
      | None => s
      end
  end.

(* routesFromBlock *)
Definition routes_from_block (c : prefix) (b : blockv) : list nroute :=
  let allocs := flat_map (fun ah => match snd ah with
                                    | Some h => if opt_eqb N.eqb (bv_aff b) (Some h) then [] else [(h, host32 (fst ah))]
                                    | None => [] end) (bv_allocs b) in
  match bv_aff b with
  | Some h => filter (fun r => negb (prefix_eqb (snd r) c)) allocs ++ [(h, c)]
  | None => allocs
  end.

(* RouteTrie.UpdateBlockRoute / RemoveBlockRoute.  With aac8598 (fixed = true) a changed block route that is
   not a single address re-flags the routes it contains (markBlockChildrenDirty). *)
Definition block_upd (fixed : bool) (s : st) (c : prefix) (b : option N) : st :=
  let '(s1, ch) := update_cidr s c (fun ri => with_block ri b) in
  if fixed && ch && negb (Nat.eqb (plen c) 32) then mark_children s1 c else s1.

Definition on_block (fixed : bool) (s : st) (c : prefix) (v : option blockv) : st :=
  match v with
  | Some b =>
      let new := routes_from_block c b in
      let cached := match aget prefix_eqb (s_cache s) c with Some l => l | None => [] end in
      let keep := filter (fun r => existsb (nroute_eqb r) new) cached in
      let dels := filter (fun r => negb (existsb (nroute_eqb r) new)) cached in
      let adds := filter (fun r => negb (existsb (nroute_eqb r) keep)) new in
      let s := set_cache s (aset prefix_eqb (s_cache s) c (keep ++ adds)) in
      let s := fold_left (fun s r => nr_remove (block_upd fixed s (snd r) None) r) dels s in
      fold_left (fun s r => nr_add (block_upd fixed s (snd r) (Some (fst r))) r) adds s
  | None =>
      let cached := match aget prefix_eqb (s_cache s) c with Some l => l | None => [] end in
      let s := fold_left (fun s r => block_upd fixed s (snd r) None) cached s in
      set_cache s (aremove prefix_eqb (s_cache s) c)
  end.

Fixpoint insert_sorted (n : N) (l : list N) : list N :=
  match l with
  | [] => [n]
  | x :: l' => if N.ltb n x then n :: l else x :: insert_sorted n l'
  end.

(* the node a stored CIDR is attributed to by visitAllRoutes *)
Definition visit_node (ri : rinfo) : option N :=
  match ri_wep ri with
  | S _ => Some me
  | O => ri_block ri
  end.

Definition subnet_has (fixed : bool) (known : bool) (c : prefix) (a : N) : bool :=
  known && (if fixed then negb (prefix_eqb c zero_cidr) else true) && contains 32 c a.

Definition reflag (fixed : bool) (s : st) (existed : bool) (oldc : prefix) (known : bool) (newc : prefix) : st :=
  fold_left (fun s k =>
    match visit_node (tget (s_trie s) k) with
    | Some n =>
        if N.eqb n me then s else
        match aget N.eqb (s_nodes s) n with
        | Some i =>
            if Bool.eqb (subnet_has fixed existed oldc (ni_addr i)) (subnet_has fixed known newc (ni_addr i)) then s
            else mark_dirty s k
        | None => s
        end
    | None => s
    end) (stored s) s.

(* onNodeUpdate past its "no change" test *)
Definition on_node_forced (fixed : bool) (s : st) (n : N) (v : option nodev) : st :=
  let old := aget N.eqb (s_nodes s) n in
  let new := option_map ninfo_of v in
  let s := if N.eqb n me then
             let oldc := match old with Some i => ni_cidr i | None => zero_cidr end in
             let newc := match new with Some i => ni_cidr i | None => zero_cidr end in
             if prefix_eqb oldc newc then s
             else reflag fixed s (match old with Some _ => true | None => false end) oldc
                                 (match new with Some _ => true | None => false end) newc
           else s in
  let s := match old with
           | Some i =>
               let s := set_nodes s (aremove N.eqb (s_nodes s) n) in
               if N.eqb (ni_addr i) 0 then s
               else fst (update_cidr s (host32 (ni_addr i)) (fun r => with_hosts r (filter (fun x => negb (N.eqb x n)) (ri_hosts r))))
           | None => s end in
  let s := match new with
           | Some i =>
               let s := set_nodes s (aset N.eqb (s_nodes s) n i) in
               if N.eqb (ni_addr i) 0 then s
               else fst (update_cidr s (host32 (ni_addr i)) (fun r => with_hosts r (insert_sorted n (ri_hosts r))))
           | None => s end in
  (* markAllNodeRoutesDirty *)
  fold_left (fun s e => if N.eqb (fst (fst e)) n then mark_dirty s (snd (fst e)) else s) (s_nr s) s.

Definition node_unchanged (s : st) (n : N) (v : option nodev) : bool :=
  opt_eqb ninfo_eqb (aget N.eqb (s_nodes s) n) (option_map ninfo_of v).

Definition on_node (fixed : bool) (s : st) (n : N) (v : option nodev) : st :=
  if node_unchanged s n v then s else on_node_forced fixed s n v.

(* OnWorkloadUpdate past its "no change" test *)
Definition on_wep_forced (s : st) (id : N) (cs : list prefix) : st :=
  let old := match aget N.eqb (s_weps s) id with Some l => l | None => [] end in
  let s := fold_left (fun s c => nr_add (fst (update_cidr s c (fun r => with_wep r (S (ri_wep r))))) (me, c)) cs s in
  let s := fold_left (fun s c => nr_remove (fst (update_cidr s c (fun r => with_wep r (pred (ri_wep r))))) (me, c)) old s in
  match cs with
  | [] => set_weps s (aremove N.eqb (s_weps s) id)
  | _ => set_weps s (aset N.eqb (s_weps s) id cs)
  end.

Definition wep_unchanged (s : st) (id : N) (cs : list prefix) : bool :=
  list_eqb prefix_eqb (match aget N.eqb (s_weps s) id with Some l => l | None => [] end) cs.

Definition on_wep (s : st) (id : N) (cs : list prefix) : st :=
  if wep_unchanged s id cs then s else on_wep_forced s id cs.

Definition apply_op (fixed : bool) (s : st) (o : op) : st :=
  flush (match o with
         | OpPool c v => on_pool s c v
         | OpBlock c v => on_block fixed s c v
         | OpNode n v => on_node fixed s n v
         | OpWep id cs => on_wep s id cs
         end).

Definition run (fixed : bool) (ops : list op) : st := fold_left (apply_op fixed) ops st0.

(* ------------------------------------------------------------------ dual stack
   The resolver keeps one trie per IP family; pools, blocks and workload addresses belong to one family, a node
   carries an address + subnet of each family and a workload endpoint a list of each.  The two families share the
   "no change" tests of onNodeUpdate (l3rrNodeInfo.Equal over both families) and OnWorkloadUpdate (DeepEqual of the
   concatenated lists): when either family's part changed, BOTH parts are processed.  So the dual-stack resolver is
   the pair of two single-family instances in which a node / workload update is forced through whenever the other
   family's part changed.  (IPv6 prefixes are modelled by their last 32 bits under a fixed /96: the driver's IPv6
   universe lives inside one /96, where the trie, Contains and LookupPath act exactly as on 32-bit prefixes.) *)
Inductive op2 :=
| P2 (v6 : bool) (c : prefix) (v : option poolv)
| B2 (v6 : bool) (c : prefix) (v : option blockv)
| N2 (n : N) (v : option (nodev * nodev))        (* known node: (IPv4 part, IPv6 part) *)
| W2 (id : N) (cs4 cs6 : list prefix).

(* an update of one family, possibly forced past the "no change" test *)
Inductive fop := FOp (force : bool) (o : op).
Definition apply_fop (fixed : bool) (s : st) (x : fop) : st :=
  match x with
  | FOp true (OpNode n v) => flush (on_node_forced fixed s n v)
  | FOp true (OpWep id cs) => flush (on_wep_forced s id cs)
  | FOp _ o => apply_op fixed s o
  end.
Definition runf (fixed : bool) (xs : list fop) : st := fold_left (apply_fop fixed) xs st0.

(* the two single-family updates a dual-stack update amounts to, given the current states *)
Definition split2 (s4 s6 : st) (o : op2) : option fop * option fop :=
  match o with
  | P2 false c v => (Some (FOp false (OpPool c v)), None)
  | P2 true c v => (None, Some (FOp false (OpPool c v)))
  | B2 false c v => (Some (FOp false (OpBlock c v)), None)
  | B2 true c v => (None, Some (FOp false (OpBlock c v)))
  | N2 n v =>
      let v4 := option_map fst v in let v6 := option_map snd v in
      let force := negb (node_unchanged s4 n v4 && node_unchanged s6 n v6) in
      (Some (FOp force (OpNode n v4)), Some (FOp force (OpNode n v6)))
  | W2 id cs4 cs6 =>
      let force := negb (wep_unchanged s4 id cs4 && wep_unchanged s6 id cs6) in
      (Some (FOp force (OpWep id cs4)), Some (FOp force (OpWep id cs6)))
  end.
Definition apply2 (fixed : bool) (ss : st * st) (o : op2) : st * st :=
  let '(x4, x6) := split2 (fst ss) (snd ss) o in
  (match x4 with Some x => apply_fop fixed (fst ss) x | None => fst ss end,
   match x6 with Some x => apply_fop fixed (snd ss) x | None => snd ss end).
Definition run2 (fixed : bool) (ops : list op2) : st * st := fold_left (apply2 fixed) ops (st0, st0).


(* ------------------------------------------------------------------ route managers *)

(* kernel route asked of the route table: manager (its pool type), class (0 tunnel device, 1 parent
   device, 2 blackhole), target type (0 plain, 1 noencap, 2 vxlan, 3 onlink, 4 blackhole), dst, gateway *)
Record kroute := mkK { k_mgr : N; k_class : N; k_ttype : N; k_dst : prefix; k_gw : option N }.
Definition kroute_eqb (a b : kroute) : bool :=
  N.eqb (k_mgr a) (k_mgr b) && N.eqb (k_class a) (k_class b) && N.eqb (k_ttype a) (k_ttype b)
  && prefix_eqb (k_dst a) (k_dst b) && opt_eqb N.eqb (k_gw a) (k_gw b).

Definition has_type (r : route) (t : N) : bool := N.eqb (N.land (r_types r) t) t.
Definition vtep_addr (n : N) : N := 3232300800 + n.     (* 192.168.255.n, the driver's VTEP addresses *)

(* what the manager knows about peers: host metadata (IPIP) / VTEPs (VXLAN) of the nodes with an address *)
Definition peer_addr (peers : list (N * N)) (n : option N) : option N :=
  match n with Some n => aget N.eqb peers n | None => None end.

(* routeManager.OnUpdate keeps the route in routesByDest *)
Definition mgr_keeps (T : N) (r : route) : bool := has_type r T_REMOTE_WORKLOAD && N.eqb (r_pool r) T.
(* routeIsLocalBlock *)
Definition mgr_local_block (T : N) (c : prefix) (r : route) : bool :=
  has_type r T_LOCAL_WORKLOAD && N.eqb (r_pool r) T && negb (r_localw r) && negb (Nat.eqb (plen c) 32).

(* updateRoutes: noEncapRoute, else tunnelRouteFn (parent device known) *)
Definition mgr_target (T : N) (peers : list (N * N)) (c : prefix) (r : route) : list kroute :=
  match (if N.eqb T 1 || r_same r then r_ip r else None) with
  | Some g => [mkK T 1 1 c (Some g)]
  | None =>
      if N.eqb T 2 then
        match r_node r with
        | Some n => if N.eqb n me then [] else
                    match aget N.eqb peers n with Some _ => [mkK 2 0 2 c (Some (vtep_addr n))] | None => [] end
        | None => []
        end
      else if N.eqb T 3 then
        match peer_addr peers (r_node r) with Some a => [mkK 3 0 3 c (Some a)] | None => [] end
      else []
  end.

Definition mgr_routes (T : N) (peers : list (N * N)) (routes : list (prefix * route)) : list kroute :=
  flat_map (fun e => if mgr_keeps T (snd e) then mgr_target T peers (fst e) (snd e) else []) routes
  ++ flat_map (fun e => if mgr_local_block T (fst e) (snd e) then [mkK T 2 4 (fst e) None] else []) routes.

Definition kernel (peers : list (N * N)) (routes : list (prefix * route)) : list kroute :=
  mgr_routes 1 peers routes ++ mgr_routes 2 peers routes ++ mgr_routes 3 peers routes.

(* ------------------------------------------------------------------ routeManager, message by message *)

(* the stream the resolver's callbacks produce *)
Inductive msg := MUpd (c : prefix) (r : route) | MRem (c : prefix).
(* routesByDest, localIPAMBlocks *)
Record mst := mkM { m_rbd : list (prefix * route); m_lb : list (prefix * route) }.

(* routeManager.OnUpdate: deleteRoute(dst), then keep the update where it applies *)
Definition mgr_on_update (T : N) (m : mst) (x : msg) : mst :=
  match x with
  | MUpd c r =>
      let rbd := aremove prefix_eqb (m_rbd m) c in
      let lb := aremove prefix_eqb (m_lb m) c in
      mkM (if mgr_keeps T r then aset prefix_eqb rbd c r else rbd)
          (if mgr_local_block T c r then aset prefix_eqb lb c r else lb)
  | MRem c => mkM (aremove prefix_eqb (m_rbd m) c) (aremove prefix_eqb (m_lb m) c)
  end.

(* the route set the stream amounts to *)
Definition acc_msg (out : list (prefix * route)) (x : msg) : list (prefix * route) :=
  match x with MUpd c r => aset prefix_eqb out c r | MRem c => aremove prefix_eqb out c end.
