(* C43 — "no stale routes": every update kind (pool, block, node, local workload) followed by flush() leaves
   every workload / block route equal to what flush() computes from the current trie and node table.
   Current tree (fixed = true). *)
From Coq Require Import List NArith Arith Bool Lia Permutation.
From Verif.Common Require Import Prefix.
From Verif.C43 Require Import Model MgrProofs FlushPerm Spec Final FinalProofs Reflag Peer PoolUpd.
Import ListNotations.
Open Scope N_scope.

Definition stored_k (s : st) (k : prefix) : Prop := ri_is_zero (tget (s_trie s) k) = false.

(* what an update (before the flush) may do to the state it started from *)
Record rel (s0 s : st) : Prop := mkRel {
  r_out : s_out s = s_out s0;
  r_chg : forall k, tget (s_trie s) k = tget (s_trie s0) k \/ In k (s_dirty s);
  r_sent : forall k, ri_sent (tget (s_trie s) k) = ri_sent (tget (s_trie s0) k);
  r_mono : forall k, In k (s_dirty s0) -> In k (s_dirty s);
  r_nodup : NoDup (s_dirty s0) -> NoDup (s_dirty s);
  r_path : forall k, wfp 32 k -> ~ In k (s_dirty s) -> stored_k s k ->
           forall l, (l <= plen k)%nat -> tget (s_trie s) (anc k l) = tget (s_trie s0) (anc k l) }.

Lemma rel_refl : forall s, rel s s.
Proof. intros s. constructor; auto. Qed.

Lemma rel_trans : forall s0 s1 s2, rel s0 s1 -> rel s1 s2 -> rel s0 s2.
Proof.
  intros s0 s1 s2 A B. constructor.
  - now rewrite (r_out _ _ B), (r_out _ _ A).
  - intros k. destruct (r_chg _ _ B k) as [E|I]; [|now right]. rewrite E.
    destruct (r_chg _ _ A k) as [E1|I1]; [now left|right; now apply (r_mono _ _ B)].
  - intros k. now rewrite (r_sent _ _ B), (r_sent _ _ A).
  - intros k H. apply (r_mono _ _ B), (r_mono _ _ A), H.
  - intros H. apply (r_nodup _ _ B), (r_nodup _ _ A), H.
  - intros k W ND ST l Hl.
    pose proof (r_path _ _ B k W ND ST) as P2. rewrite (P2 l Hl).
    apply (r_path _ _ A k W); [intros X; apply ND; now apply (r_mono _ _ B)| |exact Hl].
    pose proof (P2 (plen k) (le_n _)) as X. rewrite (anc_self k W) in X. unfold stored_k in *. rewrite <- X. exact ST.
Qed.

Lemma rel_mark : forall s c, rel s (mark_dirty s c).
Proof.
  intros s c. constructor.
  - apply mark_dirty_out.
  - intros k. left. now rewrite mark_dirty_trie.
  - intros k. now rewrite mark_dirty_trie.
  - intros k. apply mark_dirty_mono.
  - apply mark_dirty_nodup.
  - intros k _ _ _ l _. now rewrite mark_dirty_trie.
Qed.

Lemma rel_fold : forall {A} (g : st -> A -> st) l, (forall s x, rel s (g s x)) -> forall s, rel s (fold_left g l s).
Proof.
  intros A g l H. induction l as [|x l IH]; intros s; simpl; [apply rel_refl|].
  eapply rel_trans; [apply H|apply IH].
Qed.

Definition keeps_sent (f : rinfo -> rinfo) : Prop := forall r, ri_sent (f r) = ri_sent r.

(* updateCIDR on a /32: nothing but the CIDR itself depends on it *)
Lemma rel_upd_leaf : forall s c f, plen c = 32%nat -> keeps_sent f -> rel s (fst (update_cidr s c f)).
Proof.
  intros s c f L KS. unfold update_cidr.
  destruct (rinfo_eqb _ _); simpl; [apply rel_refl|].
  set (ri' := f (tget (s_trie s) c)). set (s1 := set_trie s (aset prefix_eqb (s_trie s) c ri')).
  assert (T : forall k, tget (s_trie (mark_dirty s1 c)) k = if prefix_eqb c k then ri' else tget (s_trie s) k).
  { intros k. rewrite mark_dirty_trie. unfold s1. simpl. apply tget_aset. }
  constructor.
  - now rewrite mark_dirty_out.
  - intros k. rewrite T. destruct (prefix_eqb c k) eqn:E; [|now left].
    apply prefix_eqb_eq in E. subst k. right. apply mark_dirty_in.
  - intros k. rewrite T. destruct (prefix_eqb c k) eqn:E; [|reflexivity].
    apply prefix_eqb_eq in E. subst k. apply KS.
  - intros k H. apply mark_dirty_mono. exact H.
  - intros H. apply mark_dirty_nodup. exact H.
  - intros k W ND ST l Hl. rewrite T. destruct (prefix_eqb c (anc k l)) eqn:E; [|reflexivity].
    exfalso. apply prefix_eqb_eq in E. apply ND.
    assert (l = 32)%nat by (rewrite E in L; exact L).
    assert (plen k = 32)%nat by (destruct W; lia).
    assert (anc k l = k) by (replace l with (plen k) by lia; now apply anc_self).
    replace k with c by congruence. apply mark_dirty_in.
Qed.

(* updateCIDR followed, when something changed, by markChildrenDirty *)
Definition upd_children (s : st) (c : prefix) (f : rinfo -> rinfo) : st :=
  let '(s1, ch) := update_cidr s c f in if ch then mark_children s1 c else s1.

Lemma rel_upd_children : forall s c f, keeps_sent f -> rel s (upd_children s c f).
Proof.
  intros s c f KS. unfold upd_children, update_cidr.
  destruct (rinfo_eqb (tget (s_trie s) c) (f (tget (s_trie s) c))) eqn:E; [apply rel_refl|].
  set (ri' := f (tget (s_trie s) c)).
  set (s1 := mark_dirty (set_trie s (aset prefix_eqb (s_trie s) c ri')) c).
  destruct (mark_children_inv s1 c) as (MT & MN & MO).
  assert (T1 : forall k, tget (s_trie s1) k = if prefix_eqb c k then ri' else tget (s_trie s) k).
  { intros k. unfold s1. rewrite mark_dirty_trie. simpl. apply tget_aset. }
  assert (SG : stage s1 (mark_children s1 c)) by (rewrite mark_children_fold; apply stage_fold, mark_child_stage).
  constructor.
  - rewrite MO. unfold s1. now rewrite mark_dirty_out.
  - intros k. rewrite MT, T1. destruct (prefix_eqb c k) eqn:Hk; [|now left].
    apply prefix_eqb_eq in Hk. subst k. right. apply (sg_mono _ _ SG). unfold s1. apply mark_dirty_in.
  - intros k. rewrite MT, T1. destruct (prefix_eqb c k) eqn:Hk; [|reflexivity].
    apply prefix_eqb_eq in Hk. subst k. apply KS.
  - intros k H. apply (sg_mono _ _ SG). unfold s1. apply mark_dirty_mono. exact H.
  - intros ND. apply (sg_nodup _ _ SG). unfold s1. apply mark_dirty_nodup. exact ND.
  - intros k W ND ST l Hl. rewrite MT, T1. destruct (prefix_eqb c (anc k l)) eqn:Hk; [|reflexivity].
    exfalso. apply prefix_eqb_eq in Hk. apply ND. rewrite mark_children_fold. apply mark_child_marks.
    + apply stored_in. unfold stored_k in ST. now rewrite <- MT.
    + pose proof (anc_covers k l Hl W) as C. rewrite <- Hk in C. unfold covers in C. apply andb_true_iff in C. apply C.
Qed.

Lemma keeps_sent_pool : forall p, keeps_sent (fun r => with_pool r p).
Proof. intros p []; reflexivity. Qed.
Lemma keeps_sent_block : forall b, keeps_sent (fun r => with_block r b).
Proof. intros b []; reflexivity. Qed.
Lemma keeps_sent_hosts : forall g, keeps_sent (fun r => with_hosts r (g (ri_hosts r))).
Proof. intros g []; reflexivity. Qed.
Lemma keeps_sent_wep : forall g, keeps_sent (fun r => with_wep r (g (ri_wep r))).
Proof. intros g []; reflexivity. Qed.

Lemma rel_set_nodes : forall s x, rel s (set_nodes s x).
Proof. intros s x. constructor; simpl; auto. Qed.
Lemma rel_set_pools : forall s x, rel s (set_pools s x).
Proof. intros s x. constructor; simpl; auto. Qed.
Lemma rel_set_cache : forall s x, rel s (set_cache s x).
Proof. intros s x. constructor; simpl; auto. Qed.
Lemma rel_set_nr : forall s x, rel s (set_nr s x).
Proof. intros s x. constructor; simpl; auto. Qed.
Lemma rel_set_weps : forall s x, rel s (set_weps s x).
Proof. intros s x. constructor; simpl; auto. Qed.

Lemma rel_nr_add : forall s r, rel s (nr_add s r).
Proof. intros s r. unfold nr_add. apply rel_set_nr. Qed.
Lemma rel_nr_remove : forall s r, rel s (nr_remove s r).
Proof. intros s r. unfold nr_remove. destruct (aget _ _ _) as [[|[|n]]|]; apply rel_set_nr. Qed.

(* block routes: a /32 is a leaf, anything shorter re-flags what it contains *)
Lemma block_upd_cases : forall s c b,
  block_upd true s c b = if Nat.eqb (plen c) 32 then fst (update_cidr s c (fun ri => with_block ri b))
                         else upd_children s c (fun ri => with_block ri b).
Proof.
  intros s c b. unfold block_upd, upd_children. destruct (update_cidr s c (fun ri => with_block ri b)) as [s1 ch].
  simpl. destruct ch, (Nat.eqb (plen c) 32); reflexivity.
Qed.
Lemma rel_block_upd : forall s c b, rel s (block_upd true s c b).
Proof.
  intros s c b. rewrite block_upd_cases. destruct (Nat.eqb (plen c) 32) eqn:E.
  - apply rel_upd_leaf; [now apply Nat.eqb_eq|apply keeps_sent_block].
  - apply rel_upd_children, keeps_sent_block.
Qed.

Lemma rel_on_block : forall s c v, rel s (on_block true s c v).
Proof.
  intros s c v. unfold on_block. destruct v as [b|].
  - cbv zeta. eapply rel_trans; [apply rel_set_cache|].
    eapply rel_trans; [|apply rel_fold; intros s0 x; eapply rel_trans; [apply rel_block_upd|apply rel_nr_add]].
    apply rel_fold; intros s0 x; eapply rel_trans; [apply rel_block_upd|apply rel_nr_remove].
  - cbv zeta. eapply rel_trans; [|apply rel_set_cache].
    apply rel_fold; intros s0 x; apply rel_block_upd.
Qed.

Lemma rel_on_pool : forall s c v, rel s (on_pool s c v).
Proof.
  intros s c v. rewrite on_pool_eq.
  assert (P : forall s0 p, rel s0 (pool_upd s0 c p)) by (intros s0 p; apply (rel_upd_children s0 c (fun r => with_pool r p)), keeps_sent_pool).
  destruct v as [pv|].
  - eapply rel_trans; [apply rel_set_pools|apply P].
  - destruct (aget prefix_eqb (s_pools s) c); [|apply rel_refl].
    eapply rel_trans; [apply rel_set_pools|apply P].
Qed.

Lemma rel_fold_in : forall {A} (g : st -> A -> st) l, (forall s x, In x l -> rel s (g s x)) -> forall s, rel s (fold_left g l s).
Proof.
  intros A g l. induction l as [|x l IH]; intros H s; simpl; [apply rel_refl|].
  eapply rel_trans; [apply H; now left|apply IH]. intros s0 y Hy. apply H. now right.
Qed.

Lemma rel_st1 : forall f s n old new, rel s (st1 f s n old new).
Proof.
  intros. unfold st1. destruct (N.eqb n me); [|apply rel_refl]. cbv zeta. destruct (prefix_eqb _ _); [apply rel_refl|].
  unfold reflag. apply rel_fold. intros s0 x. destruct (visit_node _); [|apply rel_refl].
  destruct (N.eqb n0 me); [apply rel_refl|]. destruct (aget N.eqb (s_nodes s0) n0); [|apply rel_refl].
  destruct (Bool.eqb _ _); [apply rel_refl|apply rel_mark].
Qed.
Lemma rel_st2 : forall s n old, rel s (st2 s n old).
Proof.
  intros. unfold st2. destruct old as [i|]; [|apply rel_refl]. cbv zeta.
  destruct (N.eqb (ni_addr i) 0); [apply rel_set_nodes|]. eapply rel_trans; [apply rel_set_nodes|].
  apply (rel_upd_leaf _ _ (fun r => with_hosts r (filter (fun x => negb (N.eqb x n)) (ri_hosts r)))); [reflexivity|].
  apply (keeps_sent_hosts (filter (fun x => negb (N.eqb x n)))).
Qed.
Lemma rel_st3 : forall s n new, rel s (st3 s n new).
Proof.
  intros. unfold st3. destruct new as [i|]; [|apply rel_refl]. cbv zeta.
  destruct (N.eqb (ni_addr i) 0); [apply rel_set_nodes|]. eapply rel_trans; [apply rel_set_nodes|].
  apply (rel_upd_leaf _ _ (fun r => with_hosts r (insert_sorted n (ri_hosts r)))); [reflexivity|].
  apply (keeps_sent_hosts (insert_sorted n)).
Qed.
Lemma rel_st4 : forall s n, rel s (st4 s n).
Proof. intros. unfold st4. apply rel_fold. intros s0 x. destruct (N.eqb _ _); [apply rel_mark|apply rel_refl]. Qed.

Lemma rel_on_node_forced : forall f s n v, rel s (on_node_forced f s n v).
Proof.
  intros f s n v. rewrite on_node_forced_eq. cbv zeta.
  eapply rel_trans; [apply rel_st1|]. eapply rel_trans; [apply rel_st2|]. eapply rel_trans; [apply rel_st3|apply rel_st4].
Qed.
Lemma rel_on_node : forall f s n v, rel s (on_node f s n v).
Proof. intros f s n v. unfold on_node. destruct (node_unchanged s n v); [apply rel_refl|apply rel_on_node_forced]. Qed.

Definition weps32 (s : st) : Prop := forall id l c, aget N.eqb (s_weps s) id = Some l -> In c l -> plen c = 32%nat.

Lemma rel_on_wep_forced : forall s id cs, (forall c, In c cs -> plen c = 32%nat) -> weps32 s -> rel s (on_wep_forced s id cs).
Proof.
  intros s id cs H32 W32. unfold on_wep_forced. cbv zeta.
  set (old := match aget N.eqb (s_weps s) id with Some l => l | None => [] end).
  assert (O32 : forall c, In c old -> plen c = 32%nat).
  { intros c Hc. unfold old in Hc. destruct (aget N.eqb (s_weps s) id) as [l|] eqn:A; [exact (W32 id l c A Hc)|destruct Hc]. }
  assert (R : rel s (fold_left (fun s c => nr_remove (fst (update_cidr s c (fun r => with_wep r (pred (ri_wep r))))) (me, c)) old
                      (fold_left (fun s c => nr_add (fst (update_cidr s c (fun r => with_wep r (S (ri_wep r))))) (me, c)) cs s))).
  { eapply rel_trans.
    2:{ apply rel_fold_in. intros s0 x Hx. eapply rel_trans; [|apply rel_nr_remove].
        apply (rel_upd_leaf _ _ (fun r => with_wep r (pred (ri_wep r)))); [exact (O32 x Hx)|apply (keeps_sent_wep pred)]. }
    apply rel_fold_in. intros s0 x Hx. eapply rel_trans; [|apply rel_nr_add].
    apply (rel_upd_leaf _ _ (fun r => with_wep r (S (ri_wep r)))); [now apply H32|apply (keeps_sent_wep S)]. }
  destruct cs; (eapply rel_trans; [exact R|apply rel_set_weps]).
Qed.
Lemma rel_on_wep : forall s id cs, (forall c, In c cs -> plen c = 32%nat) -> weps32 s -> rel s (on_wep s id cs).
Proof. intros s id cs H W. unfold on_wep. destruct (wep_unchanged s id cs); [apply rel_refl|now apply rel_on_wep_forced]. Qed.

(* ---------------------------------------------------------------- the routes held downstream are up to date *)

(* workload and block routes (not a host's own address): the routes the route managers consume *)
Definition fset (t : list (prefix * rinfo)) (k : prefix) : Prop :=
  ri_hosts (tget t k) = [] /\ (ri_wep (tget t k) <> O \/ ri_block (tget t k) <> None).

Definition out_ok (s : st) : Prop := forall k, wfp 32 k ->
  let e := tget (s_trie s) k in
  (ri_valid e = false -> ri_sent e = false /\ aget prefix_eqb (s_out s) k = None)
  /\ (k = host32 0 -> ri_sent e = false /\ aget prefix_eqb (s_out s) k = None)
  /\ (ri_valid e = true -> k <> host32 0 ->
      ri_sent e = true /\ (fset (s_trie s) k -> aget prefix_eqb (s_out s) k = Some (compute (s_trie s) (s_nodes s) k))).

Lemma same_but_sent_fset : forall t1 t2 k, same_but_sent t1 t2 -> fset t1 k -> fset t2 k.
Proof.
  intros t1 t2 k H [A B]. unfold fset. specialize (H k).
  destruct (tget t1 k) as [p1 b1 h1 w1 s1], (tget t2 k) as [p2 b2 h2 w2 s2]. simpl in *.
  unfold with_sent in H. simpl in H. inversion H. subst. split; [reflexivity|assumption].
Qed.

Lemma valid_with_sent : forall e b, ri_valid (with_sent e b) = ri_valid e.
Proof. intros [] b; reflexivity. Qed.
Lemma sent_with_sent : forall e b, ri_sent (with_sent e b) = b.
Proof. intros [] b; reflexivity. Qed.

Lemma flush_out_ok : forall s mid, s_dirty s = [] -> out_ok s -> rel s mid ->
  (forall k, wfp 32 k -> fset (s_trie mid) k -> ~ In k (s_dirty mid) ->
     finish (s_nodes mid) (walk (s_trie s) k) = finish (s_nodes s) (walk (s_trie s) k)) ->
  out_ok (flush mid).
Proof.
  intros s mid HD OK R M5 k W.
  assert (ND : NoDup (s_dirty mid)) by (apply (r_nodup _ _ R); rewrite HD; constructor).
  assert (F0 : flushed mid [] mid) by (split; [reflexivity|intros x; split; [intros []|intros _; split; reflexivity]]).
  pose proof (fold_flushed mid (s_dirty mid) [] mid ND (fun _ _ X => X) F0) as FL. rewrite app_nil_r in FL.
  pose proof (flushed_same_but_sent _ _ _ FL) as SB. destruct FL as [NN H].
  unfold flush. simpl.
  destruct (OK k W) as (O1 & O2 & O3).
  pose proof (r_sent _ _ R k) as RS.
  destruct (in_dec prefix_eq_dec k (s_dirty mid)) as [I|I].
  - destruct (proj1 (H k) (proj1 (in_rev _ _) I)) as [TA OA]. rewrite TA, OA. unfold trie_after, out_after.
    set (e := tget (s_trie mid) k) in *.
    destruct (ri_is_zero e) eqn:Z.
    + unfold ri_is_zero in Z. apply andb_true_iff in Z. destruct Z as [Z1 Z2]. apply negb_true_iff in Z1, Z2.
      assert (OS : aget prefix_eqb (s_out mid) k = None).
      { rewrite (r_out _ _ R). rewrite RS in Z1.
        destruct (ri_valid (tget (s_trie s) k)) eqn:V; [|exact (proj2 (O1 eq_refl))].
        destruct (prefix_eq_dec k (host32 0)) as [E|NE]; [exact (proj2 (O2 E))|].
        destruct (O3 eq_refl NE) as [X _]. congruence. }
      split; [intros _; split; assumption|]. split; [intros _; split; assumption|]. intros V. congruence.
    + destruct (ri_sent e && negb (ri_valid e)) eqn:SV.
      * apply andb_true_iff in SV. destruct SV as [S1 S2]. apply negb_true_iff in S2.
        rewrite valid_with_sent, sent_with_sent.
        split; [intros _; split; reflexivity|]. split; [intros _; split; reflexivity|]. intros V. congruence.
      * assert (V : ri_valid e = true).
        { destruct (ri_valid e) eqn:V; [reflexivity|]. unfold ri_is_zero in Z. rewrite V in Z.
          destruct (ri_sent e); simpl in *; congruence. }
        destruct (prefix_eqb k (host32 0)) eqn:E0.
        { apply prefix_eqb_eq in E0. destruct (O2 E0) as [X Y]. rewrite <- RS in X. fold e in X.
          rewrite (r_out _ _ R), Y.
          split; [intros _; split; [exact X|reflexivity]|]. split; [intros _; split; [exact X|reflexivity]|].
          intros _ NE. contradiction. }
        rewrite valid_with_sent, sent_with_sent. apply prefix_eqb_neq in E0.
        split; [intros V'; congruence|]. split; [intros E; contradiction|]. intros _ _. split; [reflexivity|].
        intros _. rewrite (compute_sent_irrel _ _ _ k SB), NN. reflexivity.
  - assert (I' : ~ In k (rev (s_dirty mid))) by (intros X; apply I; now apply in_rev).
    destruct (proj2 (H k) I') as [TA OA]. rewrite TA, OA, (r_out _ _ R).
    destruct (r_chg _ _ R k) as [EQ|X]; [|contradiction]. rewrite EQ.
    split; [exact O1|]. split; [exact O2|]. intros V NE. destruct (O3 V NE) as [S1 FR]. split; [exact S1|].
    intros FS. rewrite (compute_sent_irrel _ _ _ k SB), NN.
    assert (FSm : fset (s_trie mid) k) by (eapply same_but_sent_fset; [exact SB|exact FS]).
    assert (FSs : fset (s_trie s) k) by (unfold fset in *; rewrite <- EQ; exact FSm).
    rewrite (FR FSs). f_equal. unfold compute.
    assert (WK : walk (s_trie mid) k = walk (s_trie s) k).
    { apply walk_ext. apply (r_path _ _ R k W I). unfold stored_k, ri_is_zero. rewrite EQ, V. now rewrite andb_false_r. }
    rewrite WK. symmetry. apply M5; assumption.
Qed.

