(* C43 — the resolver's output as a FUNCTION OF THE DATASTORE STATE, and the proof that, composed with the
   route managers' target selection, it meets the demands of Spec.v on every state the datastore admits. *)
From Coq Require Import List NArith Arith Bool Lia.
From Verif.Common Require Import Prefix.
From Verif.C43 Require Import Model Spec.
Import ListNotations.
Open Scope N_scope.

(* ------------------------------------------------------------------ the trie entry of a CIDR, from the state *)

Definition pinfo_of (pv : poolv) : pinfo := mkPI (pool_type pv) (pool_cross pv).
Definition pool_at (d : dstate) (k : prefix) : option pinfo := option_map pinfo_of (aget prefix_eqb (d_pools d) k).
Definition block_at (d : dstate) (k : prefix) : option N :=
  match filter (fun e => prefix_eqb (fst e) k) (all_dsts d) with e :: _ => Some (snd e) | [] => None end.
Definition hosts_at (d : dstate) (k : prefix) : list N :=
  fold_right insert_sorted []
    (flat_map (fun e => match snd e with
                        | Some (a, _) => if negb (N.eqb a 0) && prefix_eqb (host32 a) k then [fst e] else []
                        | None => [] end) (d_nodes d)).
Definition wep_at (d : dstate) (k : prefix) : nat := length (filter (prefix_eqb k) (wep_addrs d)).
Definition entry (d : dstate) (k : prefix) : rinfo := mkRI (pool_at d k) (block_at d k) (hosts_at d k) (wep_at d k) false.

Definition dnodes (d : dstate) : list (N * ninfo) := map (fun e => (fst e, ninfo_of (snd e))) (d_nodes d).

Definition dwalk (d : dstate) (c : prefix) : acc :=
  fold_left (fun a l => step (Nat.eqb l (plen c)) a (entry d (anc c l))) (seq 0 (S (plen c))) acc0.

(* the RouteUpdate the dataplane holds for c in state d (None: no route) *)
Definition desired (d : dstate) (c : prefix) : option route :=
  if ri_valid (entry d c) && negb (prefix_eqb c (host32 0)) then Some (finish (dnodes d) (dwalk d c)) else None.

(* every CIDR that can carry a route *)
Definition candidates (d : dstate) : list prefix :=
  map fst (d_pools d) ++ map fst (all_dsts d)
  ++ flat_map (fun e => match snd e with Some (a, _) => [host32 a] | None => [] end) (d_nodes d) ++ wep_addrs d.
Fixpoint dedup (l : list prefix) : list prefix :=
  match l with [] => [] | x :: l' => if existsb (prefix_eqb x) l' then dedup l' else x :: dedup l' end.
Definition resolve (d : dstate) : list (prefix * route) :=
  flat_map (fun c => match desired d c with Some r => [(c, r)] | None => [] end) (dedup (candidates d)).

(* ------------------------------------------------------------------ generic list / map facts *)

Lemma aget_In : forall {V} (m : list (prefix * V)) k v, aget prefix_eqb m k = Some v -> In (k, v) m.
Proof.
  induction m as [|[k' v'] m IH]; simpl; intros k v H; [discriminate|].
  destruct (prefix_eqb k' k) eqn:E.
  - apply prefix_eqb_eq in E. inversion H; subst. now left.
  - right. now apply IH.
Qed.
Lemma agetN_In : forall {V} (m : list (N * V)) k v, aget N.eqb m k = Some v -> In (k, v) m.
Proof.
  induction m as [|[k' v'] m IH]; simpl; intros k v H; [discriminate|].
  destruct (N.eqb k' k) eqn:E.
  - apply N.eqb_eq in E. inversion H; subst. now left.
  - right. now apply IH.
Qed.
Lemma agetN_map : forall {V W} (f : V -> W) (m : list (N * V)) k,
  aget N.eqb (map (fun e => (fst e, f (snd e))) m) k = option_map f (aget N.eqb m k).
Proof.
  induction m as [|[k' v'] m IH]; simpl; intros k; [reflexivity|].
  destruct (N.eqb k' k); [reflexivity|apply IH].
Qed.

Lemma pairwise_unique : forall {A} (R : A -> A -> bool) (l : list A) x y,
  pairwise R l = true -> In x l -> In y l -> R x y = false -> R y x = false -> x = y.
Proof.
  induction l as [|a l IH]; simpl; intros x y P Hx Hy R1 R2; [destruct Hx|].
  apply andb_true_iff in P. destruct P as [F P]. rewrite forallb_forall in F.
  destruct Hx as [->|Hx], Hy as [->|Hy]; auto.
  - rewrite (F _ Hy) in R1. discriminate.
  - rewrite (F _ Hx) in R2. discriminate.
Qed.

Lemma filter_nil_In : forall {A} (f : A -> bool) l x, filter f l = [] -> In x l -> f x = false.
Proof.
  induction l as [|a l IH]; simpl; intros x H Hx; [destruct Hx|].
  destruct (f a) eqn:E; [discriminate|]. destruct Hx as [->|Hx]; auto.
Qed.
Lemma filter_head_In : forall {A} (f : A -> bool) l x r, filter f l = x :: r -> In x l /\ f x = true.
Proof.
  intros A f l x r H. assert (I : In x (filter f l)) by (rewrite H; now left).
  apply filter_In in I. exact I.
Qed.
Lemma flat_map_nil : forall {A B} (f : A -> list B) l, (forall x, In x l -> f x = []) -> flat_map f l = [].
Proof.
  induction l as [|a l IH]; simpl; intros H; [reflexivity|].
  rewrite (H a) by now left. simpl. apply IH. intros x Hx. apply H. now right.
Qed.

(* ------------------------------------------------------------------ ancestors *)

Lemma anc_wf : forall c l, (l <= 32)%nat -> wfp 32 c -> wfp 32 (anc c l).
Proof.
  intros c l L (_ & Ha & _). unfold anc, wfp; simpl. repeat split; [exact L| |apply mask_mask].
  apply mask_lt. exact Ha.
Qed.
Lemma anc_covers : forall c l, (l <= plen c)%nat -> wfp 32 c -> covers 32 (anc c l) c = true.
Proof.
  intros c l L W. assert (L32 : (l <= 32)%nat) by (destruct W; lia).
  apply covers_spec; [apply anc_wf; auto|exact W|]. simpl. split; [exact L|]. apply top_mask.
Qed.
Lemma anc_self : forall c, wfp 32 c -> anc c (plen c) = c.
Proof. intros [a l] (_ & _ & M); simpl in *. unfold anc; simpl. now rewrite M. Qed.
Lemma covers_anc : forall p c, wfp 32 p -> wfp 32 c -> covers 32 p c = true -> anc c (plen p) = p.
Proof.
  intros p c Wp Wc H. assert (L := covers_len 32 _ _ H).
  assert (L32 : (plen p <= 32)%nat) by (destruct Wp; lia).
  assert (Wa : wfp 32 (anc c (plen p))) by (apply anc_wf; auto).
  assert (C : covers 32 p (anc c (plen p)) = true).
  { apply (covers_chain 32 p (anc c (plen p)) c Wp Wa Wc H (anc_covers c (plen p) L Wc)). simpl. lia. }
  symmetry. exact (covers_same_len 32 _ _ Wp Wa C eq_refl).
Qed.

(* ------------------------------------------------------------------ the walk, field by field *)

Definition ri_has_pool (r : rinfo) : bool := match ri_pool r with Some _ => true | None => false end.
Definition ri_has_host (r : rinfo) : bool := match ri_hosts r with [] => false | _ => true end.

Lemma step_ptype : forall l a r,
  a_ptype (step l a r) = match ri_pool r with Some p => if N.eqb (pi_type p) 0 then a_ptype a else pi_type p | None => a_ptype a end.
Proof. intros l a [[p|] [b|] [|h hs] [|w] s]; unfold step; simpl; reflexivity. Qed.
Lemma step_cross : forall l a r,
  a_cross (step l a r) = a_cross a || match ri_pool r with Some p => pi_cross p | None => false end.
Proof. intros l a [[p|] [b|] [|h hs] [|w] s]; unfold step; simpl; destruct (a_cross a); try destruct (pi_cross p); reflexivity. Qed.
Lemma step_hashost : forall l a r, a_hashost (step l a r) = a_hashost a || ri_has_host r.
Proof. intros l a [[p|] [b|] [|h hs] [|w] s]; unfold step; simpl; destruct (a_hashost a); reflexivity. Qed.
Lemma step_localw : forall l a r, a_localw (step l a r) = a_localw a || negb (Nat.eqb (ri_wep r) 0).
Proof. intros l a [[p|] [b|] [|h hs] [|w] s]; unfold step; simpl; destruct (a_localw a); reflexivity. Qed.

Definition wfold (ents : list (bool * rinfo)) (a : acc) : acc := fold_left (fun a e => step (fst e) a (snd e)) ents a.

Lemma wfold_ptype_cross : forall pi ents a,
  (forall e, In e ents -> ri_pool (snd e) = None \/ ri_pool (snd e) = Some pi) ->
  a_ptype (wfold ents a) = (if existsb (fun e => ri_has_pool (snd e)) ents && negb (N.eqb (pi_type pi) 0) then pi_type pi else a_ptype a)
  /\ a_cross (wfold ents a) = a_cross a || (existsb (fun e => ri_has_pool (snd e)) ents && pi_cross pi).
Proof.
  intros pi. induction ents as [|e ents IH]; intros a H; simpl.
  - split; [reflexivity|now rewrite orb_false_r].
  - destruct (IH (step (fst e) a (snd e))) as [I1 I2]; [intros x Hx; apply H; now right|].
    unfold wfold in *. rewrite I1, I2, step_ptype, step_cross. clear I1 I2 IH.
    set (X := existsb (fun e0 => ri_has_pool (snd e0)) ents).
    destruct (H e (or_introl eq_refl)) as [E|E].
    + assert (HP : ri_has_pool (snd e) = false) by (unfold ri_has_pool; now rewrite E).
      rewrite HP, E. simpl. split; [reflexivity|now rewrite orb_false_r].
    + assert (HP : ri_has_pool (snd e) = true) by (unfold ri_has_pool; now rewrite E).
      rewrite HP, E. simpl. split.
      * destruct (N.eqb (pi_type pi) 0) eqn:Z; simpl; [now rewrite andb_false_r|].
        now destruct X.
      * destruct (a_cross a), (pi_cross pi), X; reflexivity.
Qed.

Lemma wfold_hashost : forall ents a, a_hashost (wfold ents a) = a_hashost a || existsb (fun e => ri_has_host (snd e)) ents.
Proof.
  induction ents as [|e ents IH]; intros a; simpl; [now rewrite orb_false_r|].
  unfold wfold in *. rewrite IH, step_hashost. now rewrite orb_assoc.
Qed.
Lemma wfold_localw : forall ents a, a_localw (wfold ents a) = a_localw a || existsb (fun e => negb (Nat.eqb (ri_wep (snd e)) 0)) ents.
Proof.
  induction ents as [|e ents IH]; intros a; simpl; [now rewrite orb_false_r|].
  unfold wfold in *. rewrite IH, step_localw. now rewrite orb_assoc.
Qed.

Definition path_ents (d : dstate) (c : prefix) (ls : list nat) : list (bool * rinfo) :=
  map (fun l => (Nat.eqb l (plen c), entry d (anc c l))) ls.

Lemma dwalk_wfold : forall d c, dwalk d c = wfold (path_ents d c (seq 0 (S (plen c)))) acc0.
Proof.
  intros d c. unfold dwalk, wfold, path_ents. generalize acc0. generalize (seq 0 (S (plen c))).
  induction l as [|x l IH]; intros a; simpl; [reflexivity|apply IH].
Qed.
Lemma dwalk_last : forall d c, wfp 32 c ->
  dwalk d c = step true (wfold (path_ents d c (seq 0 (plen c))) acc0) (entry d c).
Proof.
  intros d c W. rewrite dwalk_wfold. rewrite seq_S. unfold path_ents, wfold. rewrite map_app, fold_left_app. simpl.
  rewrite Nat.eqb_refl, anc_self by exact W. reflexivity.
Qed.
