(* C43 — the invariant of the resolver along ANY history, and "no stale routes". *)
From Coq Require Import List NArith Arith Bool Lia Permutation.
From Verif.Common Require Import Prefix.
From Verif.C43 Require Import Model MgrProofs FlushPerm Spec Final FinalProofs Reflag Peer PoolUpd Chain Fresh FreshOps.
From Verif.C43 Require Import NR.
Import ListNotations.
Open Scope N_scope.

(* ---------------------------------------------------------------- updates that leave the block / workload bookkeeping alone *)
Record frame (s0 s : st) : Prop := mkFrame {
  fr_bw : forall k, ri_block (tget (s_trie s) k) = ri_block (tget (s_trie s0) k) /\ ri_wep (tget (s_trie s) k) = ri_wep (tget (s_trie s0) k);
  fr_nr : s_nr s = s_nr s0;
  fr_cache : s_cache s = s_cache s0;
  fr_weps : s_weps s = s_weps s0 }.

Lemma frame_refl : forall s, frame s s.
Proof. intros s. constructor; auto. Qed.
Lemma frame_trans : forall a b c, frame a b -> frame b c -> frame a c.
Proof.
  intros a b c [A1 A2 A3 A4] [B1 B2 B3 B4]. constructor; try congruence.
  intros k. destruct (A1 k), (B1 k). split; congruence.
Qed.
Lemma frame_fold : forall {A} (g : st -> A -> st) l, (forall s x, frame s (g s x)) -> forall s, frame s (fold_left g l s).
Proof. intros A g l H. induction l as [|x l IH]; intros s; [apply frame_refl|]. cbn [fold_left]. eapply frame_trans; [apply H|apply IH]. Qed.
Lemma frame_mark : forall s c, frame s (mark_dirty s c).
Proof. intros s c. unfold mark_dirty. destruct (existsb _ _); [apply frame_refl|]. constructor; auto. Qed.
Lemma frame_upd : forall s c f, (forall r, ri_block (f r) = ri_block r /\ ri_wep (f r) = ri_wep r) -> frame s (fst (update_cidr s c f)).
Proof.
  intros s c f Hf. constructor.
  - intros k. rewrite update_cidr_tget. destruct (prefix_eqb c k) eqn:X; [|auto]. apply prefix_eqb_eq in X. subst k. apply Hf.
  - apply update_cidr_nr.
  - unfold update_cidr. destruct (rinfo_eqb _ _); [reflexivity|]. simpl. unfold mark_dirty. destruct (existsb _ _); reflexivity.
  - unfold update_cidr. destruct (rinfo_eqb _ _); [reflexivity|]. simpl. unfold mark_dirty. destruct (existsb _ _); reflexivity.
Qed.
Lemma frame_set_nodes : forall s x, frame s (set_nodes s x).
Proof. intros s x. constructor; auto. Qed.
Lemma frame_set_pools : forall s x, frame s (set_pools s x).
Proof. intros s x. constructor; auto. Qed.

Lemma frame_on_pool : forall s c v, frame s (on_pool s c v).
Proof.
  intros s c v. rewrite on_pool_eq.
  assert (P : forall s0 p, frame s0 (pool_upd s0 c p)).
  { intros s0 p. unfold pool_upd. pose proof (frame_upd s0 c (fun r => with_pool r p)) as X.
    destruct (update_cidr s0 c (fun r => with_pool r p)) as [s1 ch]. simpl in X.
    assert (F1 : frame s0 s1) by (apply X; intros []; split; reflexivity).
    destruct ch; [|exact F1]. eapply frame_trans; [exact F1|]. rewrite mark_children_fold. apply frame_fold.
    intros s2 x. unfold mark_child. destruct (contains _ _ _); [apply frame_mark|apply frame_refl]. }
  destruct v as [pv|]; [eapply frame_trans; [apply frame_set_pools|apply P]|].
  destruct (aget prefix_eqb (s_pools s) c); [eapply frame_trans; [apply frame_set_pools|apply P]|apply frame_refl].
Qed.

Lemma frame_on_node_forced : forall f s n v, frame s (on_node_forced f s n v).
Proof.
  intros f s n v. rewrite on_node_forced_eq. cbv zeta.
  eapply frame_trans; [|unfold st4; apply frame_fold; intros s0 x; destruct (N.eqb _ _); [apply frame_mark|apply frame_refl]].
  set (old := aget N.eqb (s_nodes s) n). set (new := option_map ninfo_of v).
  assert (F1 : frame s (st1 f s n old new)).
  { unfold st1. destruct (N.eqb n me); [|apply frame_refl]. cbv zeta. destruct (prefix_eqb _ _); [apply frame_refl|].
    unfold reflag. apply frame_fold. intros s0 x. destruct (visit_node _); [|apply frame_refl].
    destruct (N.eqb n0 me); [apply frame_refl|]. destruct (aget N.eqb (s_nodes s0) n0); [|apply frame_refl].
    destruct (Bool.eqb _ _); [apply frame_refl|apply frame_mark]. }
  assert (F2 : forall s0, frame s0 (st2 s0 n old)).
  { intros s0. unfold st2. destruct old as [i|]; [|apply frame_refl]. cbv zeta.
    destruct (N.eqb (ni_addr i) 0); [apply frame_set_nodes|]. eapply frame_trans; [apply frame_set_nodes|].
    apply frame_upd. intros []; split; reflexivity. }
  assert (F3 : forall s0, frame s0 (st3 s0 n new)).
  { intros s0. unfold st3. destruct new as [i|]; [|apply frame_refl]. cbv zeta.
    destruct (N.eqb (ni_addr i) 0); [apply frame_set_nodes|]. eapply frame_trans; [apply frame_set_nodes|].
    apply frame_upd. intros []; split; reflexivity. }
  eapply frame_trans; [exact F1|]. eapply frame_trans; [apply F2|apply F3].
Qed.

Lemma frame_on_node : forall f s n v, frame s (on_node f s n v).
Proof. intros f s n v. unfold on_node. destruct (node_unchanged s n v); [apply frame_refl|apply frame_on_node_forced]. Qed.

Lemma frame_flush : forall s, frame s (flush s).
Proof.
  intros s. unfold flush. eapply frame_trans; [|constructor; cbn; auto].
  apply frame_fold. intros s0 c. unfold flush_one. destruct (ri_is_zero _); [apply frame_refl|].
  destruct (_ && _).
  - constructor; cbn; auto. intros k. rewrite tget_aset. destruct (prefix_eqb c k) eqn:X; [|auto].
    apply prefix_eqb_eq in X. subst k. destruct (tget (s_trie s0) c); split; reflexivity.
  - destruct (prefix_eqb c (host32 0)); [apply frame_refl|]. constructor; cbn; auto.
    intros k. rewrite tget_aset. destruct (prefix_eqb c k) eqn:X; [|auto].
    apply prefix_eqb_eq in X. subst k. destruct (tget (s_trie s0) c); split; reflexivity.
Qed.

(* ---------------------------------------------------------------- workload reference counts *)
Definition cocc (k : prefix) (l : list prefix) : nat := length (filter (prefix_eqb k) l).
Definition wwi (s : st) : Prop := forall k, (cocc k (flat_map snd (s_weps s)) <= ri_wep (tget (s_trie s) k))%nat.

Lemma cocc_app : forall k a b, cocc k (a ++ b) = (cocc k a + cocc k b)%nat.
Proof. intros k a b. unfold cocc. now rewrite filter_app, app_length. Qed.
Lemma cocc_cons : forall k x l, cocc k (x :: l) = ((if prefix_eqb k x then 1 else 0) + cocc k l)%nat.
Proof. intros k x l. unfold cocc. simpl. destruct (prefix_eqb k x); reflexivity. Qed.

Lemma cocc_in_weps : forall (m : list (N * list prefix)) id l k, aget N.eqb m id = Some l -> (cocc k l <= cocc k (flat_map snd m))%nat.
Proof.
  induction m as [|[i0 l0] m IH]; intros id l k H; simpl in H; [discriminate|]. simpl. rewrite cocc_app.
  destruct (N.eqb i0 id); [inversion H; subst; lia|]. pose proof (IH id l k H). lia.
Qed.
Lemma cocc_aset : forall (m : list (N * list prefix)) id cs k,
  (cocc k (flat_map snd (aset N.eqb m id cs)) + cocc k (match aget N.eqb m id with Some l => l | None => [] end)
   = cocc k (flat_map snd m) + cocc k cs)%nat.
Proof.
  induction m as [|[i0 l0] m IH]; intros id cs k; simpl.
  - rewrite app_nil_r. unfold cocc at 2. simpl. lia.
  - destruct (N.eqb i0 id); simpl; rewrite !cocc_app; [lia|]. pose proof (IH id cs k). lia.
Qed.
Lemma cocc_aremove : forall (m : list (N * list prefix)) id k,
  (cocc k (flat_map snd (aremove N.eqb m id)) + cocc k (match aget N.eqb m id with Some l => l | None => [] end)
   <= cocc k (flat_map snd m))%nat.
Proof.
  induction m as [|[i0 l0] m IH]; intros id k; simpl; [unfold cocc; simpl; lia|].
  destruct (N.eqb i0 id); simpl; rewrite !cocc_app.
  - pose proof (IH id k). lia.
  - pose proof (IH id k). lia.
Qed.

Lemma fold_wep_add_tget : forall l s k,
  ri_wep (tget (s_trie (fold_left wep_add l s)) k) = (ri_wep (tget (s_trie s) k) + cocc k l)%nat
  /\ ri_block (tget (s_trie (fold_left wep_add l s)) k) = ri_block (tget (s_trie s) k).
Proof.
  induction l as [|x l IH]; intros s k; [unfold cocc; simpl; split; [lia|reflexivity]|]. cbn [fold_left].
  destruct (IH (wep_add s x) k) as [A B]. rewrite A, B. unfold wep_add. rewrite nr_add_trie, update_cidr_tget, cocc_cons.
  rewrite (prefix_eqb_sym k x). destruct (prefix_eqb x k) eqn:X.
  - apply prefix_eqb_eq in X. subst x. destruct (tget (s_trie s) k); simpl; split; [lia|reflexivity].
  - split; [lia|reflexivity].
Qed.

Lemma fold_wep_rem : forall l s, (forall k, (cocc k l <= ri_wep (tget (s_trie s) k))%nat) -> nrb s ->
  nrb (fold_left wep_rem l s)
  /\ forall k, ri_wep (tget (s_trie (fold_left wep_rem l s)) k) = (ri_wep (tget (s_trie s) k) - cocc k l)%nat
               /\ ri_block (tget (s_trie (fold_left wep_rem l s)) k) = ri_block (tget (s_trie s) k).
Proof.
  induction l as [|x l IH]; intros s H NRB; [split; [exact NRB|intros k; unfold cocc; simpl; split; [lia|reflexivity]]|].
  cbn [fold_left].
  assert (T : forall k, ri_wep (tget (s_trie (wep_rem s x)) k) = (ri_wep (tget (s_trie s) k) - (if prefix_eqb k x then 1 else 0))%nat
                        /\ ri_block (tget (s_trie (wep_rem s x)) k) = ri_block (tget (s_trie s) k)).
  { intros k. unfold wep_rem. rewrite nr_remove_trie, update_cidr_tget. rewrite (prefix_eqb_sym k x). destruct (prefix_eqb x k) eqn:X.
    - apply prefix_eqb_eq in X. subst x. destruct (tget (s_trie s) k) as [p b h w sn]; simpl; split; [lia|reflexivity].
    - split; [lia|reflexivity]. }
  assert (P1 : ri_wep (tget (s_trie s) x) <> O).
  { pose proof (H x) as Hx. rewrite cocc_cons, prefix_eqb_refl in Hx. lia. }
  destruct (IH (wep_rem s x)) as [N2 T2].
  - intros k. destruct (T k) as [A _]. rewrite A. pose proof (H k) as Hk. rewrite cocc_cons in Hk. destruct (prefix_eqb k x); lia.
  - now apply nrb_wep_rem.
  - split; [exact N2|]. intros k. destruct (T2 k) as [A B], (T k) as [C D]. rewrite A, B, C, D, cocc_cons. split; [lia|reflexivity].
Qed.

(* ---------------------------------------------------------------- the invariant *)
Section Sep.
  Variable BK : prefix -> Prop.
  Hypothesis sep : forall a b x, BK a -> BK b -> covers 32 a x = true -> covers 32 b x = true -> a = b.

  Record inv (s : st) : Prop := mkInv {
    i_dirty : s_dirty s = [];
    i_out : out_ok s;
    i_nrb : nrb s;
    i_cc : cc BK s;
    i_wwi : wwi s;
    i_w32 : weps32 s }.

  (* what a history may contain *)
  Definition hop_ok (o : op) : Prop :=
    match o with
    | OpBlock c (Some b) => BK c /\ blk_ok c b
    | OpWep _ cs => forall c, In c cs -> plen c = 32%nat
    | _ => True
    end.

  Lemma nrb_frame : forall s0 s, frame s0 s -> nrb s0 -> nrb s.
  Proof.
    intros s0 s F H n k. specialize (H n k). unfold bb, ww, cnt in *. destruct (fr_bw _ _ F k) as [A B].
    now rewrite A, B, (fr_nr _ _ F).
  Qed.
  Lemma cc_frame : forall s0 s, frame s0 s -> cc BK s0 -> cc BK s.
  Proof.
    intros s0 s F H key l A. rewrite (fr_cache _ _ F) in A. destruct (H key l A) as (B & N & Hl).
    split; [exact B|]. split; [exact N|]. intros r Hr. destruct (Hl r Hr) as [C D]. split; [exact C|].
    now rewrite (proj1 (fr_bw _ _ F (snd r))).
  Qed.
  Lemma wwi_frame : forall s0 s, frame s0 s -> wwi s0 -> wwi s.
  Proof. intros s0 s F H k. specialize (H k). now rewrite (fr_weps _ _ F), (proj2 (fr_bw _ _ F k)). Qed.
  Lemma w32_frame : forall s0 s, frame s0 s -> weps32 s0 -> weps32 s.
  Proof. intros s0 s F H id l c A. rewrite (fr_weps _ _ F) in A. exact (H id l c A). Qed.

  Lemma flush_dirty : forall s, s_dirty (flush s) = [].
  Proof. reflexivity. Qed.

  Lemma frame_block : forall s c v,
    (forall k, ri_wep (tget (s_trie (on_block true s c v)) k) = ri_wep (tget (s_trie s) k)) /\ s_weps (on_block true s c v) = s_weps s.
  Proof.
    intros s c v. rewrite on_block_eq.
    assert (P : forall g, (g = blk_del true \/ g = blk_add true \/ g = blk_clr true) -> forall l s0,
              (forall k, ri_wep (tget (s_trie (fold_left g l s0)) k) = ri_wep (tget (s_trie s0) k)) /\ s_weps (fold_left g l s0) = s_weps s0).
    { intros g Hg. induction l as [|x l IH]; intros s0; [split; reflexivity|]. cbn [fold_left]. destruct (IH (g s0 x)) as [A B].
      assert (Q : (forall k, ri_wep (tget (s_trie (g s0 x)) k) = ri_wep (tget (s_trie s0) k)) /\ s_weps (g s0 x) = s_weps s0).
      { assert (W : forall b, s_weps (block_upd true s0 (snd x) b) = s_weps s0).
        { intros b. unfold block_upd, update_cidr. destruct (rinfo_eqb _ _); simpl; [reflexivity|].
          destruct (negb (Nat.eqb (plen (snd x)) 32)); simpl.
          - rewrite mark_children_fold. apply (fold_inv (fun y => s_weps y = s_weps s0)).
            + intros s1 y H. unfold mark_child. destruct (contains _ _ _); [|exact H]. unfold mark_dirty. destruct (existsb _ _); exact H.
            + unfold mark_dirty. destruct (existsb _ _); reflexivity.
          - unfold mark_dirty. destruct (existsb _ _); reflexivity. }
        destruct Hg as [-> | [-> | ->]]; unfold blk_del, blk_add, blk_clr; (split; [intros k|]).
        - rewrite nr_remove_trie, block_upd_tget. destruct (prefix_eqb (snd x) k) eqn:X; [|reflexivity].
          apply prefix_eqb_eq in X. rewrite X. destruct (tget (s_trie s0) k); reflexivity.
        - unfold nr_remove. destruct (aget _ _ _) as [[|[|n]]|]; apply W.
        - rewrite nr_add_trie, block_upd_tget. destruct (prefix_eqb (snd x) k) eqn:X; [|reflexivity].
          apply prefix_eqb_eq in X. rewrite X. destruct (tget (s_trie s0) k); reflexivity.
        - apply W.
        - rewrite block_upd_tget. destruct (prefix_eqb (snd x) k) eqn:X; [|reflexivity].
          apply prefix_eqb_eq in X. rewrite X. destruct (tget (s_trie s0) k); reflexivity.
        - apply W. }
      destruct Q as [Q1 Q2]. split; [intros k; now rewrite A, Q1|now rewrite B, Q2]. }
    destruct v as [b|]; cbv zeta.
    - destruct (P _ (or_intror (or_introl eq_refl)) (filter (fun r => negb (existsb (nroute_eqb r) (filter (fun r0 => existsb (nroute_eqb r0) (routes_from_block c b)) match aget prefix_eqb (s_cache s) c with Some l => l | None => [] end))) (routes_from_block c b))
                  (fold_left (blk_del true) (filter (fun r => negb (existsb (nroute_eqb r) (routes_from_block c b))) match aget prefix_eqb (s_cache s) c with Some l => l | None => [] end)
                     (set_cache s (aset prefix_eqb (s_cache s) c (filter (fun r => existsb (nroute_eqb r) (routes_from_block c b)) match aget prefix_eqb (s_cache s) c with Some l => l | None => [] end ++ filter (fun r => negb (existsb (nroute_eqb r) (filter (fun r0 => existsb (nroute_eqb r0) (routes_from_block c b)) match aget prefix_eqb (s_cache s) c with Some l => l | None => [] end))) (routes_from_block c b)))))) as [A1 A2].
      destruct (P _ (or_introl eq_refl) (filter (fun r => negb (existsb (nroute_eqb r) (routes_from_block c b))) match aget prefix_eqb (s_cache s) c with Some l => l | None => [] end)
                  (set_cache s (aset prefix_eqb (s_cache s) c (filter (fun r => existsb (nroute_eqb r) (routes_from_block c b)) match aget prefix_eqb (s_cache s) c with Some l => l | None => [] end ++ filter (fun r => negb (existsb (nroute_eqb r) (filter (fun r0 => existsb (nroute_eqb r0) (routes_from_block c b)) match aget prefix_eqb (s_cache s) c with Some l => l | None => [] end))) (routes_from_block c b))))) as [B1 B2].
      split; [intros k; rewrite A1, B1; reflexivity|rewrite A2, B2; reflexivity].
    - destruct (P _ (or_intror (or_intror eq_refl)) match aget prefix_eqb (s_cache s) c with Some l => l | None => [] end s) as [A1 A2].
      split; [intros k; cbn [s_trie set_cache]; apply A1|cbn [s_weps set_cache]; exact A2].
  Qed.

  Lemma fold_wep_misc : forall g, (g = wep_add \/ g = wep_rem) -> forall l s,
    s_cache (fold_left g l s) = s_cache s /\ s_weps (fold_left g l s) = s_weps s.
  Proof.
    intros g Hg. induction l as [|x l IH]; intros s; [split; reflexivity|]. cbn [fold_left]. destruct (IH (g s x)) as [A B]. rewrite A, B.
    assert (U : forall f, s_cache (fst (update_cidr s x f)) = s_cache s /\ s_weps (fst (update_cidr s x f)) = s_weps s).
    { intros f. unfold update_cidr. destruct (rinfo_eqb _ _); [split; reflexivity|]. simpl. unfold mark_dirty. destruct (existsb _ _); split; reflexivity. }
    destruct Hg as [-> | ->]; unfold wep_add, wep_rem.
    - apply U.
    - unfold nr_remove. destruct (aget _ _ _) as [[|[|n]]|]; apply U.
  Qed.

  Lemma on_wep_forced_inv : forall s id cs, (forall c, In c cs -> plen c = 32%nat) ->
    nrb s -> cc BK s -> wwi s -> weps32 s ->
    nrb (on_wep_forced s id cs) /\ cc BK (on_wep_forced s id cs) /\ wwi (on_wep_forced s id cs) /\ weps32 (on_wep_forced s id cs).
  Proof.
    intros s id cs H32 NRB CC WW W32. rewrite on_wep_forced_eq. cbv zeta.
    set (old := match aget N.eqb (s_weps s) id with Some l => l | None => [] end).
    set (s1 := fold_left wep_add cs s).
    assert (NRB1 : nrb s1).
    { unfold s1. clear - NRB. revert s NRB. induction cs as [|x l IH]; intros s NRB; [exact NRB|]. cbn [fold_left]. apply IH. now apply nrb_wep_add. }
    assert (OLD : forall k, (cocc k old <= cocc k (flat_map snd (s_weps s)))%nat).
    { intros k. unfold old. destruct (aget N.eqb (s_weps s) id) as [l|] eqn:A; [exact (cocc_in_weps _ _ _ k A)|unfold cocc; simpl; lia]. }
    assert (PRE : forall k, (cocc k old <= ri_wep (tget (s_trie s1) k))%nat).
    { intros k. unfold s1. rewrite (proj1 (fold_wep_add_tget cs s k)). pose proof (OLD k). pose proof (WW k). lia. }
    destruct (fold_wep_rem old s1 PRE NRB1) as [NRB2 T2].
    set (s2 := fold_left wep_rem old s1) in *.
    assert (WEP2 : forall k, ri_wep (tget (s_trie s2) k) = (ri_wep (tget (s_trie s) k) + cocc k cs - cocc k old)%nat).
    { intros k. rewrite (proj1 (T2 k)). unfold s1. now rewrite (proj1 (fold_wep_add_tget cs s k)). }
    assert (BLK2 : forall k, ri_block (tget (s_trie s2) k) = ri_block (tget (s_trie s) k)).
    { intros k. rewrite (proj2 (T2 k)). unfold s1. now rewrite (proj2 (fold_wep_add_tget cs s k)). }
    assert (MISC : s_cache s2 = s_cache s /\ s_weps s2 = s_weps s).
    { unfold s2, s1. destruct (fold_wep_misc wep_rem (or_intror eq_refl) old (fold_left wep_add cs s)) as [A B].
      destruct (fold_wep_misc wep_add (or_introl eq_refl) cs s) as [C D]. split; congruence. }
    destruct MISC as [CA WE].
    assert (CC2 : cc BK s2).
    { intros key l A. rewrite CA in A. destruct (CC key l A) as (B & N & Hl). split; [exact B|]. split; [exact N|].
      intros r Hr. destruct (Hl r Hr) as [C D]. split; [exact C|]. now rewrite BLK2. }
    assert (G : forall x, nrb (set_weps s2 x) /\ cc BK (set_weps s2 x)) by (intros x; split; [exact NRB2|exact CC2]).
    destruct cs as [|c0 cs'].
    - split; [apply G|]. split; [apply G|]. split.
      + intros k. cbn [s_weps s_trie set_weps]. rewrite WEP2, WE. pose proof (cocc_aremove (s_weps s) id k) as X. fold old in X.
        pose proof (WW k). pose proof (OLD k). unfold cocc at 2. simpl. lia.
      + intros id' l c A. cbn [s_weps set_weps] in A. rewrite WE, agetN_aremove in A. destruct (N.eqb id id'); [discriminate|]. exact (W32 id' l c A).
    - split; [apply G|]. split; [apply G|]. split.
      + intros k. cbn [s_weps s_trie set_weps]. rewrite WEP2, WE. pose proof (cocc_aset (s_weps s) id (c0 :: cs') k) as X. fold old in X.
        pose proof (WW k). pose proof (OLD k). lia.
      + intros id' l c A. cbn [s_weps set_weps] in A. rewrite WE, agetN_aset in A. destruct (N.eqb id id').
        * inversion A; subst l. apply H32.
        * exact (W32 id' l c A).
  Qed.

  Lemma on_wep_inv : forall s id cs, (forall c, In c cs -> plen c = 32%nat) ->
    nrb s -> cc BK s -> wwi s -> weps32 s ->
    nrb (on_wep s id cs) /\ cc BK (on_wep s id cs) /\ wwi (on_wep s id cs) /\ weps32 (on_wep s id cs).
  Proof.
    intros s id cs H32 NRB CC WW W32. unfold on_wep. destruct (wep_unchanged s id cs); [auto|now apply on_wep_forced_inv].
  Qed.

  (* ---------------------------------------------------------------- one step, any history *)
  Lemma inv_step : forall s o, inv s -> hop_ok o -> inv (apply_op true s o).
  Proof.
    intros s o [ID IO INR ICC IWW IW32] OK.
    assert (OWF : op_wf o) by (destruct o; simpl in *; auto).
    assert (OUT : out_ok (apply_op true s o)) by (apply op_keeps_out_ok; auto; now apply nrb_cov).
    destruct o as [c v|c v|m v|id cs]; unfold apply_op in *.
    - pose proof (frame_trans _ _ _ (frame_on_pool s c v) (frame_flush _)) as F.
      constructor; [reflexivity|exact OUT|eapply nrb_frame|eapply cc_frame|eapply wwi_frame|eapply w32_frame]; eassumption.
    - assert (B : nrb (on_block true s c v) /\ cc BK (on_block true s c v)).
      { destruct v as [b|]; [destruct OK as [K1 K2]; destruct (on_block_some_inv BK sep s c b K1 K2 ICC INR); auto|].
        destruct (on_block_none_inv BK sep s c ICC INR); auto. }
      destruct (frame_block s c v) as [FW FS].
      pose proof (frame_flush (on_block true s c v)) as F.
      constructor; [reflexivity|exact OUT|eapply nrb_frame; [exact F|apply B]|eapply cc_frame; [exact F|apply B]| |].
      + eapply wwi_frame; [exact F|]. intros k. rewrite FS, FW. apply IWW.
      + eapply w32_frame; [exact F|]. intros id l c0 A. rewrite FS in A. exact (IW32 id l c0 A).
    - pose proof (frame_trans _ _ _ (frame_on_node true s m v) (frame_flush _)) as F.
      constructor; [reflexivity|exact OUT|eapply nrb_frame|eapply cc_frame|eapply wwi_frame|eapply w32_frame]; eassumption.
    - destruct (on_wep_inv s id cs OK INR ICC IWW IW32) as (A & B & C & D).
      pose proof (frame_flush (on_wep s id cs)) as F.
      constructor; [reflexivity|exact OUT|eapply nrb_frame|eapply cc_frame|eapply wwi_frame|eapply w32_frame]; eassumption.
  Qed.

  Definition fhop_ok (x : fop) : Prop := match x with FOp _ o => hop_ok o end.

  Lemma inv_fstep : forall s x, inv s -> fhop_ok x -> inv (apply_fop true s x).
  Proof.
    intros s [force o] I OK. simpl in OK. destruct force; [|now apply inv_step].
    destruct o as [c v|c v|m v|id cs]; cbn [apply_fop]; try (now apply inv_step).
    - destruct I as [ID IO INR ICC IWW IW32].
      assert (OUT : out_ok (apply_fop true s (FOp true (OpNode m v)))) by (apply fop_keeps_out_ok; simpl; auto; now apply nrb_cov).
      pose proof (frame_trans _ _ _ (frame_on_node_forced true s m v) (frame_flush _)) as F.
      constructor; [reflexivity|exact OUT|eapply nrb_frame|eapply cc_frame|eapply wwi_frame|eapply w32_frame]; eassumption.
    - destruct I as [ID IO INR ICC IWW IW32].
      assert (OUT : out_ok (apply_fop true s (FOp true (OpWep id cs)))) by (apply fop_keeps_out_ok; simpl; auto; now apply nrb_cov).
      destruct (on_wep_forced_inv s id cs OK INR ICC IWW IW32) as (A & B & C & D).
      pose proof (frame_flush (on_wep_forced s id cs)) as F.
      constructor; [reflexivity|exact OUT|eapply nrb_frame|eapply cc_frame|eapply wwi_frame|eapply w32_frame]; eassumption.
  Qed.

  Lemma inv_init : inv st0.
  Proof.
    constructor.
    - reflexivity.
    - intros k _. cbn. split; [intros _; split; reflexivity|]. split; [intros _; split; reflexivity|]. intros X. discriminate.
    - intros n k. unfold bb, ww, cnt. cbn. destruct (N.eqb n me); lia.
    - intros key l A. discriminate.
    - intros k. unfold cocc. cbn. lia.
    - intros id l c A. discriminate.
  Qed.

  Theorem inv_history : forall ops, Forall hop_ok ops -> inv (run true ops).
  Proof.
    intros ops H. unfold run. generalize inv_init. generalize st0. induction H as [|o ops Ho Hops IH]; intros s I; [exact I|].
    cbn [fold_left]. apply IH. now apply inv_step.
  Qed.
End Sep.
