(* C43 — dual stack: the resolver with one trie per IP family (Model.run2) after ANY history of dual-stack
   updates holds, for each family, the function of that family's final datastore state. *)
From Coq Require Import List NArith Arith Bool Lia Permutation.
From Verif.Common Require Import Prefix.
From Verif.C43 Require Import Model MgrProofs FlushPerm Spec Final FinalProofs Reflag Peer PoolUpd Chain Fresh FreshOps NR Inv Link Link2 Link3 Link4 Link5 Link6.
Import ListNotations.
Open Scope N_scope.

Lemma runf_snoc : forall xs x, runf true (xs ++ [x]) = apply_fop true (runf true xs) x.
Proof. intros xs x. unfold runf. now rewrite fold_left_app. Qed.

Lemma split2_ops : forall s4 s6 o,
  option_map fop_op (fst (split2 s4 s6 o)) = proj4 o /\ option_map fop_op (snd (split2 s4 s6 o)) = proj6 o.
Proof. intros s4 s6 [[] c v|[] c v|n v|id a b]; split; reflexivity. Qed.

Lemma run2_decomp_gen : forall ops xs4 xs6,
  exists ys4 ys6,
    fold_left (apply2 true) ops (runf true xs4, runf true xs6) = (runf true ys4, runf true ys6)
    /\ map fop_op ys4 = map fop_op xs4 ++ ops_of proj4 ops
    /\ map fop_op ys6 = map fop_op xs6 ++ ops_of proj6 ops.
Proof.
  induction ops as [|o ops IH]; intros xs4 xs6.
  - exists xs4, xs6. simpl. now rewrite !app_nil_r.
  - cbn [fold_left]. unfold apply2 at 2. cbn [fst snd].
    destruct (split2_ops (runf true xs4) (runf true xs6) o) as [E4 E6].
    destruct (split2 (runf true xs4) (runf true xs6) o) as [x4 x6]. cbn [fst snd] in *.
    set (zs4 := match x4 with Some x => xs4 ++ [x] | None => xs4 end).
    set (zs6 := match x6 with Some x => xs6 ++ [x] | None => xs6 end).
    assert (R4 : match x4 with Some x => apply_fop true (runf true xs4) x | None => runf true xs4 end = runf true zs4)
      by (unfold zs4; destruct x4; [now rewrite runf_snoc|reflexivity]).
    assert (R6 : match x6 with Some x => apply_fop true (runf true xs6) x | None => runf true xs6 end = runf true zs6)
      by (unfold zs6; destruct x6; [now rewrite runf_snoc|reflexivity]).
    rewrite R4, R6. destruct (IH zs4 zs6) as (ys4 & ys6 & A & B & C). exists ys4, ys6. split; [exact A|].
    unfold ops_of in *. cbn [flat_map]. rewrite B, C. unfold zs4, zs6. rewrite <- E4, <- E6.
    split; [destruct x4|destruct x6]; simpl; rewrite ?map_app, <- ?app_assoc; reflexivity.
Qed.

Lemma run2_decomp : forall ops, exists ys4 ys6,
  run2 true ops = (runf true ys4, runf true ys6) /\ map fop_op ys4 = ops_of proj4 ops /\ map fop_op ys6 = ops_of proj6 ops.
Proof. intros ops. exact (run2_decomp_gen ops [] []). Qed.

Definition family_ok (BK : prefix -> Prop) (ops : list op) : Prop := Forall (hop_ok BK) ops /\ Forall dop_ok ops.

Lemma family_ok_f : forall BK xs, family_ok BK (map fop_op xs) -> Forall (fhop_ok BK) xs /\ Forall (fun x => dop_ok (fop_op x)) xs.
Proof.
  intros BK xs [A B]. rewrite Forall_map in A, B. split; [|exact B].
  eapply Forall_impl; [|exact A]. intros [f o] H. exact H.
Qed.

Definition is_function_of_state (s : st) (d : dstate) : Prop := forall k, wfp 32 k ->
  (ri_valid (entry d k) = false -> aget prefix_eqb (s_out s) k = None)
  /\ (hosts_at d k = [] -> (block_at d k <> None \/ wep_at d k <> O) -> aget prefix_eqb (s_out s) k = desired d k).

Theorem order_independent_dual : forall (BK4 BK6 : prefix -> Prop),
  (forall a b x, BK4 a -> BK4 b -> covers 32 a x = true -> covers 32 b x = true -> a = b) ->
  (forall a b x, BK6 a -> BK6 b -> covers 32 a x = true -> covers 32 b x = true -> a = b) ->
  forall ops, family_ok BK4 (ops_of proj4 ops) -> family_ok BK6 (ops_of proj6 ops) ->
  is_function_of_state (fst (run2 true ops)) (state_of (ops_of proj4 ops))
  /\ is_function_of_state (snd (run2 true ops)) (state_of (ops_of proj6 ops)).
Proof.
  intros BK4 BK6 S4 S6 ops F4 F6. destruct (run2_decomp ops) as (ys4 & ys6 & R & E4 & E6). rewrite R. cbn [fst snd].
  rewrite <- E4 in F4 |- *. rewrite <- E6 in F6 |- *.
  destruct (family_ok_f _ _ F4) as [A4 B4]. destruct (family_ok_f _ _ F6) as [A6 B6].
  split; intros k W; [exact (order_independent_f BK4 S4 ys4 A4 B4 k W)|exact (order_independent_f BK6 S6 ys6 A6 B6 k W)].
Qed.
