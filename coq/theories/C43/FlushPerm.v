(* C43 — flush() ranges over the Go set dirtyCIDRs in an unspecified order.  The result (trie, accumulated
   route set) is the same for every order: each dirty CIDR's outcome is determined by the state before the flush. *)
From Coq Require Import List NArith Arith Bool Permutation.
From Verif.Common Require Import Prefix.
From Verif.C43 Require Import Model MgrProofs.
Import ListNotations.
Open Scope N_scope.

Lemma tget_aset : forall t c v k, tget (aset prefix_eqb t c v) k = if prefix_eqb c k then v else tget t k.
Proof. intros t c v k. unfold tget. rewrite aget_aset. now destruct (prefix_eqb c k). Qed.

Lemma step_sent_irrel : forall l a r, step l a r = step l a (with_sent r false).
Proof. intros l a [p b h w s]. reflexivity. Qed.

Definition same_but_sent (t1 t2 : list (prefix * rinfo)) : Prop :=
  forall k, with_sent (tget t1 k) false = with_sent (tget t2 k) false.

Lemma compute_sent_irrel : forall t1 t2 nodes c, same_but_sent t1 t2 -> compute t1 nodes c = compute t2 nodes c.
Proof.
  intros t1 t2 nodes c H. unfold compute, walk. f_equal.
  generalize acc0. generalize (seq 0 (S (plen c))).
  induction l as [|x l IH]; intros a; simpl; [reflexivity|].
  rewrite (step_sent_irrel _ a (tget t1 (anc c x))), (step_sent_irrel _ a (tget t2 (anc c x))), (H (anc c x)). apply IH.
Qed.

(* the outcome for one dirty CIDR, from the state before the flush *)
Definition trie_after (s0 : st) (k : prefix) : rinfo :=
  let ri := tget (s_trie s0) k in
  if ri_is_zero ri then ri
  else if ri_sent ri && negb (ri_valid ri) then with_sent ri false
  else if prefix_eqb k (host32 0) then ri
  else with_sent ri true.
Definition out_after (s0 : st) (k : prefix) : option route :=
  let ri := tget (s_trie s0) k in
  if ri_is_zero ri then aget prefix_eqb (s_out s0) k
  else if ri_sent ri && negb (ri_valid ri) then None
  else if prefix_eqb k (host32 0) then aget prefix_eqb (s_out s0) k
  else Some (compute (s_trie s0) (s_nodes s0) k).

Lemma trie_after_sent : forall s0 k, with_sent (trie_after s0 k) false = with_sent (tget (s_trie s0) k) false.
Proof.
  intros s0 k. unfold trie_after. destruct (tget (s_trie s0) k) as [p b h w s]; simpl.
  destruct (ri_is_zero _); [reflexivity|]. destruct (_ && _); [reflexivity|]. destruct (prefix_eqb k (host32 0)); reflexivity.
Qed.

Definition flushed (s0 : st) (done : list prefix) (s : st) : Prop :=
  s_nodes s = s_nodes s0 /\
  forall k, (In k done -> tget (s_trie s) k = trie_after s0 k /\ aget prefix_eqb (s_out s) k = out_after s0 k)
         /\ (~ In k done -> tget (s_trie s) k = tget (s_trie s0) k /\ aget prefix_eqb (s_out s) k = aget prefix_eqb (s_out s0) k).

Lemma flushed_same_but_sent : forall s0 done s, flushed s0 done s -> same_but_sent (s_trie s) (s_trie s0).
Proof.
  intros s0 done s [_ H] k. destruct (in_dec (fun a b => match prefix_eqb a b as x return prefix_eqb a b = x -> _ with
                                           | true => fun E => left (proj1 (prefix_eqb_eq a b) E)
                                           | false => fun E => right (proj1 (prefix_eqb_neq a b) E) end eq_refl) k done) as [I|I].
  - destruct (proj1 (H k) I) as [-> _]. apply trie_after_sent.
  - destruct (proj2 (H k) I) as [-> _]. reflexivity.
Qed.

Lemma flush_one_flushed : forall s0 done s c, flushed s0 done s -> ~ In c done -> flushed s0 (c :: done) (flush_one s c).
Proof.
  intros s0 done s c FL NI. pose proof (flushed_same_but_sent _ _ _ FL) as SB. destruct FL as [HN H].
  destruct (proj2 (H c) NI) as [Tc Oc].
  assert (CE : compute (s_trie s) (s_nodes s) c = compute (s_trie s0) (s_nodes s0) c) by (rewrite HN; now apply compute_sent_irrel).
  unfold flush_one. rewrite Tc.
  assert (K : forall k, prefix_eqb c k = false -> (In k (c :: done) <-> In k done)).
  { intros k E. apply prefix_eqb_neq in E. simpl. split; [intros [X|X]; [contradiction|exact X]|auto]. }
  destruct (ri_is_zero (tget (s_trie s0) c)) eqn:Z; [|destruct (ri_sent (tget (s_trie s0) c) && negb (ri_valid (tget (s_trie s0) c))) eqn:R;
    [|destruct (prefix_eqb c (host32 0)) eqn:E0]].
  - (* not stored *)
    split; [exact HN|]. intros k. split.
    + intros [<-|I]; [|exact (proj1 (H k) I)]. unfold trie_after, out_after. rewrite Z. split; assumption.
    + intros X. apply (proj2 (H k)). intros I. apply X. now right.
  - (* remove *)
    split; [exact HN|]. intros k. simpl. rewrite tget_aset, aget_aremove. destruct (prefix_eqb c k) eqn:E.
    + apply prefix_eqb_eq in E. subst k. split; [intros _|intros X; exfalso; apply X; now left].
      unfold trie_after, out_after. rewrite Z, R. split; reflexivity.
    + split; [intros I; apply (proj1 (H k)); now apply (K k E)|intros X; apply (proj2 (H k)); intros I; apply X; now apply (K k E)].
  - (* the empty CIDR is never sent *)
    split; [exact HN|]. intros k. split.
    + intros [<-|I]; [|exact (proj1 (H k) I)]. unfold trie_after, out_after. rewrite Z, R, E0. split; assumption.
    + intros X. apply (proj2 (H k)). intros I. apply X. now right.
  - (* update *)
    split; [exact HN|]. intros k. simpl. rewrite tget_aset, aget_aset. destruct (prefix_eqb c k) eqn:E.
    + apply prefix_eqb_eq in E. subst k. split; [intros _|intros X; exfalso; apply X; now left].
      unfold trie_after, out_after. rewrite Z, R, E0, CE. split; reflexivity.
    + split; [intros I; apply (proj1 (H k)); now apply (K k E)|intros X; apply (proj2 (H k)); intros I; apply X; now apply (K k E)].
Qed.

Lemma fold_flushed : forall s0 l done s, NoDup l -> (forall c, In c l -> ~ In c done) -> flushed s0 done s ->
  flushed s0 (rev l ++ done) (fold_left flush_one l s).
Proof.
  induction l as [|c l IH]; intros done s ND DJ FL; simpl; [exact FL|].
  inversion ND; subst. rewrite <- app_assoc. simpl. apply IH; [assumption| |].
  - intros x Hx [<-|I]; [contradiction|]. apply (DJ x); [now right|exact I].
  - apply flush_one_flushed; [exact FL|]. apply DJ. now left.
Qed.

Theorem flush_order_independent : forall s l1 l2, NoDup l1 -> Permutation l1 l2 ->
  let s1 := fold_left flush_one l1 s in
  let s2 := fold_left flush_one l2 s in
  s_nodes s1 = s_nodes s2
  /\ (forall k, tget (s_trie s1) k = tget (s_trie s2) k)
  /\ (forall k, aget prefix_eqb (s_out s1) k = aget prefix_eqb (s_out s2) k).
Proof.
  intros s l1 l2 ND P s1 s2.
  assert (F0 : flushed s [] s) by (split; [reflexivity|intros k; split; [intros []|intros _; split; reflexivity]]).
  assert (ND2 : NoDup l2) by (eapply Permutation_NoDup; eassumption).
  pose proof (fold_flushed s l1 [] s ND (fun _ _ X => X) F0) as [N1 H1].
  pose proof (fold_flushed s l2 [] s ND2 (fun _ _ X => X) F0) as [N2 H2].
  fold s1 in N1, H1. fold s2 in N2, H2. rewrite app_nil_r in *.
  split; [congruence|].
  assert (Q : forall k, In k (rev l1) <-> In k (rev l2)).
  { intros k. rewrite <- !in_rev. split; intros X; [eapply Permutation_in; eassumption|eapply Permutation_in; [apply Permutation_sym|]; eassumption]. }
  split; intros k;
    (destruct (in_dec (fun a b => match prefix_eqb a b as x return prefix_eqb a b = x -> _ with
                                  | true => fun E => left (proj1 (prefix_eqb_eq a b) E)
                                  | false => fun E => right (proj1 (prefix_eqb_neq a b) E) end eq_refl) k (rev l1)) as [I|I];
     [destruct (proj1 (H1 k) I) as [A B]; destruct (proj1 (H2 k) (proj1 (Q k) I)) as [A' B']; congruence
     |destruct (proj2 (H1 k) I) as [A B]; destruct (proj2 (H2 k) (fun X => I (proj2 (Q k) X))) as [A' B']; congruence]).
Qed.
