(* C43 — the trie and the node table as functions of the datastore state, piece by piece. *)
From Coq Require Import List NArith Arith Bool Lia Permutation.
From Verif.Common Require Import Prefix.
From Verif.C43 Require Import Model MgrProofs FlushPerm Spec Final FinalProofs Reflag Peer PoolUpd Chain Fresh FreshOps NR Inv.
From Verif.C43 Require Import Link.
Import ListNotations.
Open Scope N_scope.

(* ---------------------------------------------------------------- a projection of every trie entry, and a field of the state, are kept *)
Section Keep.
  Context {A B : Type} (proj : rinfo -> A) (fld : st -> B).
  Hypothesis fld_trie : forall s t, fld (set_trie s t) = fld s.
  Hypothesis fld_dirty : forall s x, fld (set_dirty s x) = fld s.
  Hypothesis fld_nr : forall s x, fld (set_nr s x) = fld s.
  Hypothesis fld_cache : forall s x, fld (set_cache s x) = fld s.
  Hypothesis fld_out : forall s x, fld (set_out s x) = fld s.

  Definition keepf (s0 s : st) : Prop := (forall k, proj (tget (s_trie s) k) = proj (tget (s_trie s0) k)) /\ fld s = fld s0.

  Lemma keepf_refl : forall s, keepf s s. Proof. intros s. split; auto. Qed.
  Lemma keepf_trans : forall a b c, keepf a b -> keepf b c -> keepf a c.
  Proof. intros a b c [A1 A2] [B1 B2]. split; [intros k; now rewrite B1, A1|congruence]. Qed.
  Lemma keepf_fold : forall {X} (g : st -> X -> st) l, (forall s x, keepf s (g s x)) -> forall s, keepf s (fold_left g l s).
  Proof. intros X g l H. induction l as [|x l IH]; intros s; [apply keepf_refl|]. cbn [fold_left]. eapply keepf_trans; [apply H|apply IH]. Qed.
  Lemma keepf_mark : forall s c, keepf s (mark_dirty s c).
  Proof. intros s c. unfold mark_dirty. destruct (existsb _ _); [apply keepf_refl|]. split; [auto|apply fld_dirty]. Qed.
  Lemma keepf_children : forall s c, keepf s (mark_children s c).
  Proof. intros s c. rewrite mark_children_fold. apply keepf_fold. intros s0 x. unfold mark_child. destruct (contains _ _ _); [apply keepf_mark|apply keepf_refl]. Qed.
  Lemma keepf_upd : forall s c f, (forall r, proj (f r) = proj r) -> keepf s (fst (update_cidr s c f)).
  Proof.
    intros s c f Hf. split.
    - intros k. rewrite update_cidr_tget. destruct (prefix_eqb c k) eqn:X; [|reflexivity]. apply prefix_eqb_eq in X. subst k. apply Hf.
    - unfold update_cidr. destruct (rinfo_eqb _ _); [reflexivity|]. simpl.
      destruct (keepf_mark (set_trie s (aset prefix_eqb (s_trie s) c (f (tget (s_trie s) c)))) c) as [_ X]. rewrite X. apply fld_trie.
  Qed.
  Lemma keepf_nr_add : forall s r, keepf s (nr_add s r).
  Proof. intros s r. split; [auto|apply fld_nr]. Qed.
  Lemma keepf_nr_remove : forall s r, keepf s (nr_remove s r).
  Proof. intros s r. unfold nr_remove. destruct (aget _ _ _) as [[|[|n]]|]; (split; [auto|apply fld_nr]). Qed.

  Lemma keepf_block_upd : forall f s c b, (forall r, proj (with_block r b) = proj r) -> keepf s (block_upd f s c b).
  Proof.
    intros f s c b Hf. pose proof (keepf_upd s c (fun ri => with_block ri b) Hf) as X.
    unfold block_upd. destruct (update_cidr s c (fun ri => with_block ri b)) as [s1 ch]. simpl in X.
    destruct (f && ch && negb (Nat.eqb (plen c) 32)); [|exact X]. eapply keepf_trans; [exact X|apply keepf_children].
  Qed.

  Lemma keepf_on_block : forall f s c v, (forall r b, proj (with_block r b) = proj r) -> keepf s (on_block f s c v).
  Proof.
    intros f s c v Hf. rewrite on_block_eq. destruct v as [b|]; cbv zeta.
    - match goal with |- keepf s (fold_left _ ?adds (fold_left _ ?dels ?s0)) =>
        apply (keepf_trans _ (fold_left (blk_del f) dels s0));
          [apply (keepf_trans _ s0); [split; [auto|apply fld_cache]|]|] end.
      + apply keepf_fold; intros s0 x; unfold blk_del; eapply keepf_trans; [(apply keepf_block_upd; intros r0; apply Hf)|apply keepf_nr_remove].
      + apply keepf_fold; intros s0 x; unfold blk_add; eapply keepf_trans; [(apply keepf_block_upd; intros r0; apply Hf)|apply keepf_nr_add].
    - set (cached := match aget prefix_eqb (s_cache s) c with Some l => l | None => [] end).
      apply (keepf_trans _ (fold_left (blk_clr f) cached s)); [|split; [auto|apply fld_cache]].
      apply keepf_fold; intros s0 x; unfold blk_clr; (apply keepf_block_upd; intros r0; apply Hf).
  Qed.

  Lemma keepf_flush : forall s, (forall r b, proj (with_sent r b) = proj r) -> keepf s (flush s).
  Proof.
    intros s Hf. unfold flush. apply (keepf_trans _ (fold_left flush_one (s_dirty s) s)); [|split; [auto|apply fld_dirty]].
    apply keepf_fold. intros s0 c. unfold flush_one. destruct (ri_is_zero _); [apply keepf_refl|].
    assert (Q : forall b o, keepf s0 (set_out (set_trie s0 (aset prefix_eqb (s_trie s0) c (with_sent (tget (s_trie s0) c) b))) o)).
    { intros b o. split; [|now rewrite fld_out, fld_trie]. intros k. cbn [s_trie set_out set_trie]. rewrite tget_aset.
      destruct (prefix_eqb c k) eqn:X; [|reflexivity]. apply prefix_eqb_eq in X. subst k. apply Hf. }
    destruct (_ && _); [apply Q|]. destruct (prefix_eqb c (host32 0)); [apply keepf_refl|apply Q].
  Qed.

  Lemma keepf_on_wep_forced : forall s id cs, (forall s x, fld (set_weps s x) = fld s) -> (forall r w, proj (with_wep r w) = proj r) ->
    keepf s (on_wep_forced s id cs).
  Proof.
    intros s id cs FW Hf. rewrite on_wep_forced_eq. cbv zeta.
    set (old := match aget N.eqb (s_weps s) id with Some l => l | None => [] end).
    assert (R : keepf s (fold_left wep_rem old (fold_left wep_add cs s))).
    { apply (keepf_trans _ (fold_left wep_add cs s)).
      - apply keepf_fold. intros s0 x. unfold wep_add. eapply keepf_trans; [apply keepf_upd; intros r; apply Hf|apply keepf_nr_add].
      - apply keepf_fold. intros s0 x. unfold wep_rem. eapply keepf_trans; [apply keepf_upd; intros r; apply Hf|apply keepf_nr_remove]. }
    destruct cs; (eapply keepf_trans; [exact R|split; [auto|apply FW]]).
  Qed.

  Lemma keepf_on_wep : forall s id cs, (forall s x, fld (set_weps s x) = fld s) -> (forall r w, proj (with_wep r w) = proj r) ->
    keepf s (on_wep s id cs).
  Proof.
    intros s id cs FW Hf. rewrite on_wep_eq. cbv zeta. destruct (list_eqb _ _ _); [apply keepf_refl|].
    set (old := match aget N.eqb (s_weps s) id with Some l => l | None => [] end).
    assert (R : keepf s (fold_left wep_rem old (fold_left wep_add cs s))).
    { apply (keepf_trans _ (fold_left wep_add cs s)).
      - apply keepf_fold. intros s0 x. unfold wep_add. eapply keepf_trans; [apply keepf_upd; intros r; apply Hf|apply keepf_nr_add].
      - apply keepf_fold. intros s0 x. unfold wep_rem. eapply keepf_trans; [apply keepf_upd; intros r; apply Hf|apply keepf_nr_remove]. }
    destruct cs; (eapply keepf_trans; [exact R|split; [auto|apply FW]]).
  Qed.

  Lemma keepf_set_nodes : (forall s x, fld (set_nodes s x) = fld s) -> forall s x, keepf s (set_nodes s x).
  Proof. intros FN s x. split; [auto|apply FN]. Qed.
  Lemma keepf_set_pools : (forall s x, fld (set_pools s x) = fld s) -> forall s x, keepf s (set_pools s x).
  Proof. intros FN s x. split; [auto|apply FN]. Qed.

  Lemma keepf_on_node_forced : forall f s n v, (forall s x, fld (set_nodes s x) = fld s) -> (forall r h, proj (with_hosts r h) = proj r) ->
    keepf s (on_node_forced f s n v).
  Proof.
    intros f s n v FN Hf. rewrite on_node_forced_eq. cbv zeta.
    set (old := aget N.eqb (s_nodes s) n). set (new := option_map ninfo_of v).
    assert (F1 : keepf s (st1 f s n old new)).
    { unfold st1. destruct (N.eqb n me); [|apply keepf_refl]. cbv zeta. destruct (prefix_eqb _ _); [apply keepf_refl|].
      unfold reflag. apply keepf_fold. intros s0 x. destruct (visit_node _); [|apply keepf_refl].
      destruct (N.eqb n0 me); [apply keepf_refl|]. destruct (aget N.eqb (s_nodes s0) n0); [|apply keepf_refl].
      destruct (Bool.eqb _ _); [apply keepf_refl|apply keepf_mark]. }
    assert (F2 : forall s0, keepf s0 (st2 s0 n old)).
    { intros s0. unfold st2. destruct old as [i|]; [|apply keepf_refl]. cbv zeta.
      destruct (N.eqb (ni_addr i) 0); [apply (keepf_set_nodes FN)|]. eapply keepf_trans; [apply (keepf_set_nodes FN)|].
      apply keepf_upd. intros r. apply Hf. }
    assert (F3 : forall s0, keepf s0 (st3 s0 n new)).
    { intros s0. unfold st3. destruct new as [i|]; [|apply keepf_refl]. cbv zeta.
      destruct (N.eqb (ni_addr i) 0); [apply (keepf_set_nodes FN)|]. eapply keepf_trans; [apply (keepf_set_nodes FN)|].
      apply keepf_upd. intros r. apply Hf. }
    assert (F4 : forall s0, keepf s0 (st4 s0 n)).
    { intros s0. unfold st4. apply keepf_fold. intros s1 x. destruct (N.eqb _ _); [apply keepf_mark|apply keepf_refl]. }
    eapply keepf_trans; [exact F1|]. eapply keepf_trans; [apply F2|]. eapply keepf_trans; [apply F3|apply F4].
  Qed.

  Lemma keepf_on_node : forall f s n v, (forall s x, fld (set_nodes s x) = fld s) -> (forall r h, proj (with_hosts r h) = proj r) ->
    keepf s (on_node f s n v).
  Proof.
    intros f s n v FN Hf. rewrite on_node_eq. cbv zeta. destruct (opt_eqb _ _ _); [apply keepf_refl|].
    set (old := aget N.eqb (s_nodes s) n). set (new := option_map ninfo_of v).
    assert (F1 : keepf s (st1 f s n old new)).
    { unfold st1. destruct (N.eqb n me); [|apply keepf_refl]. cbv zeta. destruct (prefix_eqb _ _); [apply keepf_refl|].
      unfold reflag. apply keepf_fold. intros s0 x. destruct (visit_node _); [|apply keepf_refl].
      destruct (N.eqb n0 me); [apply keepf_refl|]. destruct (aget N.eqb (s_nodes s0) n0); [|apply keepf_refl].
      destruct (Bool.eqb _ _); [apply keepf_refl|apply keepf_mark]. }
    assert (F2 : forall s0, keepf s0 (st2 s0 n old)).
    { intros s0. unfold st2. destruct old as [i|]; [|apply keepf_refl]. cbv zeta.
      destruct (N.eqb (ni_addr i) 0); [apply (keepf_set_nodes FN)|]. eapply keepf_trans; [apply (keepf_set_nodes FN)|].
      apply keepf_upd. intros r. apply Hf. }
    assert (F3 : forall s0, keepf s0 (st3 s0 n new)).
    { intros s0. unfold st3. destruct new as [i|]; [|apply keepf_refl]. cbv zeta.
      destruct (N.eqb (ni_addr i) 0); [apply (keepf_set_nodes FN)|]. eapply keepf_trans; [apply (keepf_set_nodes FN)|].
      apply keepf_upd. intros r. apply Hf. }
    assert (F4 : forall s0, keepf s0 (st4 s0 n)).
    { intros s0. unfold st4. apply keepf_fold. intros s1 x. destruct (N.eqb _ _); [apply keepf_mark|apply keepf_refl]. }
    eapply keepf_trans; [exact F1|]. eapply keepf_trans; [apply F2|]. eapply keepf_trans; [apply F3|apply F4].
  Qed.

  Lemma keepf_on_pool : forall s c v, (forall s x, fld (set_pools s x) = fld s) -> (forall r p, proj (with_pool r p) = proj r) ->
    keepf s (on_pool s c v).
  Proof.
    intros s c v FP Hf. rewrite on_pool_eq.
    assert (P : forall s0 p, keepf s0 (pool_upd s0 c p)).
    { intros s0 p. unfold pool_upd. pose proof (keepf_upd s0 c (fun r => with_pool r p) (fun r => Hf r p)) as X.
      destruct (update_cidr s0 c (fun r => with_pool r p)) as [s1 ch]. simpl in X.
      destruct ch; [|exact X]. eapply keepf_trans; [exact X|apply keepf_children]. }
    destruct v as [pv|]; [eapply keepf_trans; [apply (keepf_set_pools FP)|apply P]|].
    destruct (aget prefix_eqb (s_pools s) c); [eapply keepf_trans; [apply (keepf_set_pools FP)|apply P]|apply keepf_refl].
  Qed.
End Keep.

(* ---------------------------------------------------------------- the node table *)
Definition lk_n (s : st) (d : dstate) : Prop := forall n, aget N.eqb (s_nodes s) n = aget N.eqb (dnodes d) n.

Lemma ninfo_eqb_eq : forall a b, ninfo_eqb a b = true -> a = b.
Proof.
  intros [a1 c1] [a2 c2] H. unfold ninfo_eqb in H. simpl in H. apply andb_true_iff in H. destruct H as [H1 H2].
  apply N.eqb_eq in H1. apply prefix_eqb_eq in H2. now subst.
Qed.

Lemma dnodes_aget : forall d n, aget N.eqb (dnodes d) n = option_map ninfo_of (aget N.eqb (d_nodes d) n).
Proof. intros d n. unfold dnodes. apply agetN_map. Qed.

Lemma nodes_kept : forall s s', @keepf unit _ (fun _ => tt) s_nodes s s' -> s_nodes s' = s_nodes s.
Proof. intros s s' [_ H]. exact H. Qed.

Lemma lk_n_step : forall s d o, lk_n s d -> lk_n (apply_op true s o) (dstep d o).
Proof.
  intros s d o L m. unfold apply_op.
  assert (FL : forall x, s_nodes (flush x) = s_nodes x).
  { intros x. apply nodes_kept. apply keepf_flush; auto. }
  rewrite FL. destruct o as [c v|c v|n v|id cs]; cbn [dstep].
  - rewrite (pf_nodes _ _ _ (on_pool_facts s c v)). rewrite dnodes_aget. cbn [d_nodes]. rewrite <- dnodes_aget. apply L.
  - rewrite on_block_nodes. rewrite dnodes_aget. cbn [d_nodes]. rewrite <- dnodes_aget. apply L.
  - rewrite dnodes_aget. cbn [d_nodes]. unfold upd.
    assert (D : option_map ninfo_of (aget N.eqb (match v with Some x => aset N.eqb (d_nodes d) n x | None => aremove N.eqb (d_nodes d) n end) m)
                = if N.eqb n m then option_map ninfo_of v else aget N.eqb (s_nodes s) m).
    { rewrite (L m), dnodes_aget. destruct v as [x|]; [rewrite agetN_aset|rewrite agetN_aremove]; destruct (N.eqb n m); reflexivity. }
    rewrite D. rewrite on_node_eq. cbv zeta.
    destruct (opt_eqb ninfo_eqb (aget N.eqb (s_nodes s) n) (option_map ninfo_of v)) eqn:U.
    + destruct (N.eqb n m) eqn:E; [|reflexivity]. apply N.eqb_eq in E. subst m.
      destruct (aget N.eqb (s_nodes s) n) as [a|], (option_map ninfo_of v) as [b|]; simpl in U; try discriminate; [|reflexivity].
      apply ninfo_eqb_eq in U. now subst.
    + apply mid_nodes.
  - rewrite on_wep_nodes. rewrite dnodes_aget. cbn [d_nodes]. rewrite <- dnodes_aget. apply L.
Qed.


Lemma lk_n_fstep : forall s d x, lk_n s d -> lk_n (apply_fop true s x) (dstep d (match x with FOp _ o => o end)).
Proof.
  intros s d [force o] L. destruct force; [|now apply lk_n_step].
  destruct o as [c v|c v|n v|id cs]; cbn [apply_fop]; try (now apply lk_n_step).
  - intros m.
    assert (FL : forall y, s_nodes (flush y) = s_nodes y) by (intros y; apply nodes_kept; apply keepf_flush; auto).
    rewrite FL, dnodes_aget. cbn [dstep d_nodes]. unfold upd.
    assert (D : option_map ninfo_of (aget N.eqb (match v with Some y => aset N.eqb (d_nodes d) n y | None => aremove N.eqb (d_nodes d) n end) m)
                = if N.eqb n m then option_map ninfo_of v else aget N.eqb (s_nodes s) m).
    { rewrite (L m), dnodes_aget. destruct v as [y|]; [rewrite agetN_aset|rewrite agetN_aremove]; destruct (N.eqb n m); reflexivity. }
    rewrite D, on_node_forced_eq. cbv zeta. apply mid_nodes.
  - intros m.
    assert (FL : forall y, s_nodes (flush y) = s_nodes y) by (intros y; apply nodes_kept; apply keepf_flush; auto).
    rewrite FL, on_wep_forced_nodes, dnodes_aget. cbn [dstep d_nodes]. rewrite <- dnodes_aget. apply L.
Qed.
