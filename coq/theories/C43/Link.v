(* C43 — from "no stale routes" to "the route set is the function of the datastore state". *)
From Coq Require Import List NArith Arith Bool Lia Permutation.
From Verif.Common Require Import Prefix.
From Verif.C43 Require Import Model MgrProofs FlushPerm Spec Final FinalProofs Reflag Peer PoolUpd Chain Fresh FreshOps NR Inv.
Import ListNotations.
Open Scope N_scope.

(* the resolver's trie and node table hold exactly the datastore state d *)
Record link (s : st) (d : dstate) : Prop := mkLink {
  lk_pool : forall k, ri_pool (tget (s_trie s) k) = pool_at d k;
  lk_block : forall k, ri_block (tget (s_trie s) k) = block_at d k;
  lk_wep : forall k, ri_wep (tget (s_trie s) k) = wep_at d k;
  lk_hosts : forall k, ri_hosts (tget (s_trie s) k) = [] <-> hosts_at d k = [];
  lk_hosts32 : forall k, ri_hosts (tget (s_trie s) k) <> [] -> plen k = 32%nat;
  lk_nodes : forall n, aget N.eqb (s_nodes s) n = aget N.eqb (dnodes d) n }.

Lemma step_ext : forall b a e1 e2, ri_pool e1 = ri_pool e2 -> ri_block e1 = ri_block e2 -> ri_wep e1 = ri_wep e2 ->
  ri_hosts e1 = [] -> ri_hosts e2 = [] -> step b a e1 = step b a e2.
Proof.
  intros b a [p1 b1 h1 w1 s1] [p2 b2 h2 w2 s2]. cbn [ri_pool ri_block ri_wep ri_hosts]. intros -> -> -> -> ->. reflexivity.
Qed.

Lemma hosts_at_short' : forall d k, plen k <> 32%nat -> hosts_at d k = [].
Proof. intros d k H. exact (hosts_at_short d k H). Qed.

Lemma walk_link : forall s d k, link s d -> wfp 32 k -> hosts_at d k = [] -> walk (s_trie s) k = dwalk d k.
Proof.
  intros s d k L W HK. unfold walk, dwalk.
  assert (E : forall l, In l (seq 0 (S (plen k))) -> forall a,
              step (Nat.eqb l (plen k)) a (tget (s_trie s) (anc k l)) = step (Nat.eqb l (plen k)) a (entry d (anc k l))).
  { intros l Hl a. apply in_seq in Hl. unfold entry. apply step_ext; cbn [ri_pool ri_block ri_wep ri_hosts].
    - apply (lk_pool _ _ L).
    - apply (lk_block _ _ L).
    - apply (lk_wep _ _ L).
    - destruct (Nat.eq_dec l (plen k)) as [->|NE].
      + rewrite (anc_self k W). now apply (lk_hosts _ _ L).
      + destruct (ri_hosts (tget (s_trie s) (anc k l))) eqn:X; [reflexivity|]. exfalso.
        assert (P : plen (anc k l) = 32%nat) by (apply (lk_hosts32 _ _ L); rewrite X; discriminate).
        simpl in P. destruct W as [L32 _]. lia.
    - destruct (Nat.eq_dec l (plen k)) as [->|NE]; [now rewrite (anc_self k W)|].
      apply hosts_at_short'. simpl. destruct W as [L32 _]. lia. }
  revert E. generalize acc0. generalize (seq 0 (S (plen k))).
  induction l as [|x xs IH]; intros a E; [reflexivity|]. cbn [fold_left]. rewrite (E x (or_introl eq_refl)).
  apply IH. intros y Hy. apply E. now right.
Qed.

Lemma finish_link : forall s d a, link s d -> finish (s_nodes s) a = finish (dnodes d) a.
Proof.
  intros s d a L. unfold finish, node_in_our_subnet. rewrite !(lk_nodes _ _ L).
  destruct (a_node a) as [n|]; [now rewrite (lk_nodes _ _ L)|reflexivity].
Qed.

(* the function of the datastore state *)
Theorem out_is_desired : forall s d, link s d -> out_ok s -> forall k, wfp 32 k ->
  (ri_valid (entry d k) = false -> aget prefix_eqb (s_out s) k = None)
  /\ (hosts_at d k = [] -> (block_at d k <> None \/ wep_at d k <> O) -> aget prefix_eqb (s_out s) k = desired d k).
Proof.
  intros s d L OK k W. destruct (OK k W) as (O1 & O2 & O3). split.
  - intros V. apply O1. unfold ri_valid in *. cbn [entry ri_pool ri_block ri_hosts ri_wep] in V.
    rewrite (lk_pool _ _ L), (lk_block _ _ L), (lk_wep _ _ L).
    destruct (pool_at d k); [discriminate|]. destruct (block_at d k); [discriminate|].
    destruct (hosts_at d k) eqn:H; [|discriminate]. rewrite (proj2 (lk_hosts _ _ L k) H).
    destruct (wep_at d k); [reflexivity|discriminate].
  - intros HK BW. unfold desired.
    assert (V : ri_valid (entry d k) = true).
    { unfold ri_valid. cbn [entry ri_pool ri_block ri_hosts ri_wep]. rewrite HK.
      destruct (pool_at d k); [reflexivity|]. destruct (block_at d k); [reflexivity|]. destruct (wep_at d k); [|reflexivity].
      destruct BW as [X|X]; contradiction. }
    rewrite V. destruct (prefix_eqb k (host32 0)) eqn:E0; simpl.
    + apply prefix_eqb_eq in E0. exact (proj2 (O2 E0)).
    + apply prefix_eqb_neq in E0.
      assert (Vs : ri_valid (tget (s_trie s) k) = true).
      { unfold ri_valid. rewrite (lk_block _ _ L), (lk_wep _ _ L).
        destruct (ri_pool (tget (s_trie s) k)); [reflexivity|]. destruct (block_at d k); [reflexivity|].
        destruct (ri_hosts (tget (s_trie s) k)); [|reflexivity]. destruct (wep_at d k); [|reflexivity]. destruct BW as [X|X]; contradiction. }
      destruct (O3 Vs E0) as [_ FR]. rewrite FR.
      * f_equal. unfold compute. rewrite (walk_link s d k L W HK). apply finish_link. exact L.
      * split; [now apply (lk_hosts _ _ L)|]. rewrite (lk_block _ _ L), (lk_wep _ _ L). destruct BW; [right|left]; assumption.
Qed.
