(* C43 — c43_order_independent: after ANY history the downstream route set is the function of the datastore state. *)
From Coq Require Import List NArith Arith Bool Lia Permutation.
From Verif.Common Require Import Prefix.
From Verif.C43 Require Import Model MgrProofs FlushPerm Spec Final FinalProofs Reflag Peer PoolUpd Chain Fresh FreshOps NR Inv.
From Verif.C43 Require Import Link Link2 Link3 Link4 Link5.
Import ListNotations.
Open Scope N_scope.

Lemma cache_kept_nonblock : forall s o, (match o with OpBlock _ _ => False | _ => True end) -> s_cache (apply_op true s o) = s_cache s.
Proof.
  intros s o H. unfold apply_op. rewrite (fr_cache _ _ (frame_flush _)). destruct o as [c v|c v|n v|id cs]; try contradiction.
  - apply (fr_cache _ _ (frame_on_pool s c v)).
  - apply (fr_cache _ _ (frame_on_node true s n v)).
  - apply (@keepf_on_wep _ _ ri_block s_cache); auto.
Qed.

Lemma lc_step : forall s d o, lc s d -> lc (apply_op true s o) (dstep d o).
Proof.
  intros s d o L. destruct o as [c v|c v|n v|id cs];
    try (intros key; rewrite cache_kept_nonblock by exact I; cbn [dstep d_blocks]; apply L).
  intros key. unfold apply_op. rewrite (fr_cache _ _ (frame_flush _)). rewrite on_block_eq. cbn [dstep d_blocks]. unfold upd.
  destruct v as [b|]; cbv zeta.
  - rewrite (fold_cache true _ (or_intror (or_introl eq_refl))), (fold_cache true _ (or_introl eq_refl)). cbn [s_cache set_cache].
    rewrite !aget_aset. destruct (prefix_eqb c key) eqn:X; [|apply L].
    apply prefix_eqb_eq in X. subst key. intros r. apply keep_adds_new.
  - cbn [s_cache set_cache]. rewrite (fold_cache true _ (or_intror (or_intror eq_refl))), !aget_aremove.
    destruct (prefix_eqb c key); [exact I|apply L].
Qed.

Definition fop_op (x : fop) : op := match x with FOp _ o => o end.

Lemma lc_fstep : forall s d x, lc s d -> lc (apply_fop true s x) (dstep d (fop_op x)).
Proof.
  intros s d [force o] L. destruct force; [|now apply lc_step].
  destruct o as [c v|c v|n v|id cs]; cbn [apply_fop fop_op]; try (now apply lc_step); intros key; cbn [dstep d_blocks];
    rewrite (fr_cache _ _ (frame_flush _)).
  - rewrite (fr_cache _ _ (frame_on_node_forced true s n v)). apply L.
  - assert (C : s_cache (on_wep_forced s id cs) = s_cache s) by (apply (@keepf_on_wep_forced _ _ ri_block s_cache); auto).
    rewrite C. apply L.
Qed.

Lemma block_link : forall BK s d, cc BK s -> cc' s -> lc s d -> ds d -> forall k, ri_block (tget (s_trie s) k) = block_at d k.
Proof.
  intros BK s d CC H' L (NDB & _ & OKB) k.
  assert (D1 : forall n, In (k, n) (all_dsts d) -> ri_block (tget (s_trie s) k) = Some n).
  { intros n I. unfold all_dsts in I. apply in_flat_map in I. destruct I as ([c b] & Ic & Id). simpl in Id.
    apply (rfb_dsts c b n k (OKB c b Ic)) in Id.
    pose proof (g_aget_of_in prefix_eqb prefix_eqb_eq _ _ _ NDB Ic) as A. pose proof (L c) as Lc. rewrite A in Lc.
    destruct (aget prefix_eqb (s_cache s) c) as [l|] eqn:Ac; [|contradiction].
    destruct (CC c l Ac) as (_ & _ & Hl). exact (proj2 (Hl (n, k) (proj2 (Lc _) Id))). }
  assert (D2 : forall n, ri_block (tget (s_trie s) k) = Some n -> In (k, n) (all_dsts d)).
  { intros n F. destruct (H' k n F) as (key & l & A & I). pose proof (L key) as Lk. rewrite A in Lk.
    destruct (aget prefix_eqb (d_blocks d) key) as [b|] eqn:Ab; [|contradiction]. apply aget_In in Ab.
    unfold all_dsts. apply in_flat_map. exists (key, b). split; [exact Ab|]. simpl. apply (rfb_dsts key b n k (OKB key b Ab)). now apply Lk. }
  unfold block_at. destruct (filter (fun e => prefix_eqb (fst e) k) (all_dsts d)) as [|[k' n] r] eqn:FE.
  - destruct (ri_block (tget (s_trie s) k)) as [n|] eqn:F; [|reflexivity]. exfalso.
    pose proof (filter_nil_In _ _ _ FE (D2 n eq_refl)) as X. simpl in X. now rewrite prefix_eqb_refl in X.
  - destruct (filter_head_In _ _ _ _ FE) as [I P]. simpl in P. apply prefix_eqb_eq in P. subst k'. simpl. now apply D1.
Qed.

Section Sep.
  Variable BK : prefix -> Prop.
  Hypothesis sep : forall a b x, BK a -> BK b -> covers 32 a x = true -> covers 32 b x = true -> a = b.

  Record joint (s : st) (d : dstate) : Prop := mkJoint {
    j_inv : inv BK s; j_cc' : cc' s; j_hs : hs s; j_n : lk_n s d; j_p : lk_p s d; j_w : lk_w s d; j_c : lc s d; j_ds : ds d }.

  Lemma joint_step : forall s d o, joint s d -> hop_ok BK o -> dop_ok o -> joint (apply_op true s o) (dstep d o).
  Proof.
    intros s d o [I C H N P W L D] OK DOK. constructor.
    - now apply inv_step.
    - now apply (cc'_step BK sep).
    - now apply hs_step.
    - now apply lk_n_step.
    - now apply lk_p_step.
    - apply lk_w_step; [apply I|exact W].
    - now apply lc_step.
    - now apply ds_step.
  Qed.

  Lemma joint_init : joint st0 d0.
  Proof.
    constructor.
    - apply inv_init.
    - intros k n F. discriminate.
    - intros k n. cbn. split; [intros []|intros (i & A & _); discriminate].
    - intros n. reflexivity.
    - split; intros; reflexivity.
    - split; [reflexivity|]. split; [constructor|]. split; [intros id X; discriminate|]. intros k. reflexivity.
    - intros c. exact I.
    - split; [constructor|]. split; [constructor|]. intros c b [].
  Qed.

  Lemma joint_history : forall ops, Forall (hop_ok BK) ops -> Forall dop_ok ops -> joint (run true ops) (state_of ops).
  Proof.
    intros ops H1 H2. unfold run, state_of. generalize joint_init. generalize st0 d0. revert H2.
    induction H1 as [|o ops Ho Hops IH]; intros H2 s d J; [exact J|]. inversion H2; subst. cbn [fold_left].
    apply IH; [assumption|]. now apply joint_step.
  Qed.

  Lemma joint_link : forall s d, joint s d -> link s d.
  Proof.
    intros s d [I C H N P W L D]. destruct (hosts_link s d H N (proj1 (proj2 D))) as [HL H32]. constructor.
    - apply P.
    - apply (block_link BK s d (i_cc _ _ I) C L D).
    - intros k. destruct W as (W1 & _ & _ & W4). rewrite W4, W1. reflexivity.
    - exact HL.
    - exact H32.
    - exact N.
  Qed.

  Lemma joint_fstep : forall s d x, joint s d -> fhop_ok BK x -> dop_ok (fop_op x) -> joint (apply_fop true s x) (dstep d (fop_op x)).
  Proof.
    intros s d x [I C H N P W L D] OK DOK. constructor.
    - now apply inv_fstep.
    - now apply (cc'_fstep BK sep).
    - now apply hs_fstep.
    - destruct x; now apply lk_n_fstep.
    - destruct x; now apply lk_p_fstep.
    - destruct x; apply lk_w_fstep; [apply I|exact W].
    - now apply lc_fstep.
    - now apply ds_step.
  Qed.

  Lemma joint_fhistory : forall xs, Forall (fhop_ok BK) xs -> Forall (fun x => dop_ok (fop_op x)) xs ->
    joint (runf true xs) (state_of (map fop_op xs)).
  Proof.
    intros xs H1 H2. unfold runf, state_of. generalize joint_init. generalize st0 d0. revert H2.
    induction H1 as [|x xs Hx Hxs IH]; intros H2 s d J; [exact J|]. inversion H2; subst. cbn [fold_left map].
    apply IH; [assumption|]. now apply joint_fstep.
  Qed.

  (* the same with updates forced past the "no change" tests (dual-stack instances) *)
  Theorem order_independent_f : forall xs, Forall (fhop_ok BK) xs -> Forall (fun x => dop_ok (fop_op x)) xs ->
    forall k, wfp 32 k ->
      let d := state_of (map fop_op xs) in
      (ri_valid (entry d k) = false -> aget prefix_eqb (s_out (runf true xs)) k = None)
      /\ (hosts_at d k = [] -> (block_at d k <> None \/ wep_at d k <> O) ->
          aget prefix_eqb (s_out (runf true xs)) k = desired d k).
  Proof.
    intros xs H1 H2 k W d. pose proof (joint_fhistory xs H1 H2) as J.
    exact (out_is_desired _ _ (joint_link _ _ J) (i_out _ _ (j_inv _ _ J)) k W).
  Qed.

  (* c43_order_independent *)
  Theorem order_independent : forall ops, Forall (hop_ok BK) ops -> Forall dop_ok ops ->
    forall k, wfp 32 k ->
      (ri_valid (entry (state_of ops) k) = false -> aget prefix_eqb (s_out (run true ops)) k = None)
      /\ (hosts_at (state_of ops) k = [] -> (block_at (state_of ops) k <> None \/ wep_at (state_of ops) k <> O) ->
          aget prefix_eqb (s_out (run true ops)) k = desired (state_of ops) k).
  Proof.
    intros ops H1 H2 k W. pose proof (joint_history ops H1 H2) as J.
    exact (out_is_desired _ _ (joint_link _ _ J) (i_out _ _ (j_inv _ _ J)) k W).
  Qed.
End Sep.
