(* C43 — pools and workload endpoints: trie fields as functions of the datastore state. *)
From Coq Require Import List NArith Arith Bool Lia Permutation.
From Verif.Common Require Import Prefix.
From Verif.C43 Require Import Model MgrProofs FlushPerm Spec Final FinalProofs Reflag Peer PoolUpd Chain Fresh FreshOps NR Inv.
From Verif.C43 Require Import Link Link2.
Import ListNotations.
Open Scope N_scope.

(* ---------------------------------------------------------------- pools *)
Definition lk_p (s : st) (d : dstate) : Prop :=
  (forall c, aget prefix_eqb (s_pools s) c = option_map pinfo_of (aget prefix_eqb (d_pools d) c))
  /\ forall k, ri_pool (tget (s_trie s) k) = pool_at d k.

Lemma mark_dirty_pools : forall s c, s_pools (mark_dirty s c) = s_pools s.
Proof. intros s c. unfold mark_dirty. destruct (existsb _ _); reflexivity. Qed.

Lemma pool_upd_exact : forall s c p k,
  tget (s_trie (pool_upd s c p)) k = (if prefix_eqb c k then with_pool (tget (s_trie s) c) p else tget (s_trie s) k)
  /\ s_pools (pool_upd s c p) = s_pools s.
Proof.
  intros s c p k. unfold pool_upd. pose proof (update_cidr_tget s c (fun r => with_pool r p) k) as X.
  assert (Y : s_pools (fst (update_cidr s c (fun r => with_pool r p))) = s_pools s).
  { unfold update_cidr. destruct (rinfo_eqb _ _); [reflexivity|]. simpl. now rewrite mark_dirty_pools. }
  destruct (update_cidr s c (fun r => with_pool r p)) as [s1 ch]. simpl in X, Y. destruct ch; [|split; assumption].
  destruct (mark_children_inv s1 c) as (MT & _). split; [rewrite MT; exact X|].
  rewrite mark_children_fold.
  assert (G : forall l s0, s_pools s0 = s_pools s -> s_pools (fold_left (mark_child c) l s0) = s_pools s).
  { induction l as [|x l IH]; intros s0 H; [exact H|]. cbn [fold_left]. apply IH.
    unfold mark_child. destruct (contains _ _ _); rewrite ?mark_dirty_pools; exact H. }
  apply G. exact Y.
Qed.

Lemma lk_p_step : forall s d o, lk_p s d -> lk_p (apply_op true s o) (dstep d o).
Proof.
  intros s d o [L1 L2]. unfold apply_op.
  assert (FL : forall x, @keepf _ _ ri_pool s_pools x (flush x)).
  { intros x. apply keepf_flush; auto. }
  assert (K : forall mid, @keepf _ _ ri_pool s_pools s mid -> d_pools (dstep d o) = d_pools d -> lk_p (flush mid) (dstep d o)).
  { intros mid [K1 K2] D. destruct (FL mid) as [F1 F2]. split.
    - intros c. rewrite F2, K2, D. apply L1.
    - intros k. rewrite F1, K1. unfold pool_at. rewrite D. apply L2. }
  destruct o as [c v|c v|n v|id cs].
  - (* pool *)
    destruct (FL (on_pool s c v)) as [F1 F2]. rewrite on_pool_eq in *. unfold lk_p. cbn [dstep d_pools]. unfold pool_at. cbn [d_pools]. unfold upd.
    destruct v as [pv|].
    + split.
      * intros k. rewrite F2, (proj2 (pool_upd_exact _ c _ k)). cbn [s_pools set_pools]. rewrite !aget_aset.
        destruct (prefix_eqb c k); [reflexivity|apply L1].
      * intros k. rewrite F1, (proj1 (pool_upd_exact _ c _ k)). cbn [s_trie set_pools]. rewrite aget_aset.
        destruct (prefix_eqb c k) eqn:X; [destruct (tget (s_trie s) c); reflexivity|apply L2].
    + destruct (aget prefix_eqb (s_pools s) c) as [p0|] eqn:A.
      * split.
        -- intros k. rewrite F2, (proj2 (pool_upd_exact _ c _ k)). cbn [s_pools set_pools]. rewrite !aget_aremove.
           destruct (prefix_eqb c k); [reflexivity|apply L1].
        -- intros k. rewrite F1, (proj1 (pool_upd_exact _ c _ k)). cbn [s_trie set_pools]. rewrite aget_aremove.
           destruct (prefix_eqb c k) eqn:X; [destruct (tget (s_trie s) c); reflexivity|apply L2].
      * assert (DN : aget prefix_eqb (d_pools d) c = None).
        { pose proof (L1 c) as X. rewrite A in X. destruct (aget prefix_eqb (d_pools d) c); [discriminate|reflexivity]. }
        split.
        -- intros k. rewrite F2, aget_aremove. destruct (prefix_eqb c k) eqn:X; [|apply L1].
           apply prefix_eqb_eq in X. subst k. now rewrite A.
        -- intros k. rewrite F1, aget_aremove. destruct (prefix_eqb c k) eqn:X; [|apply L2].
           apply prefix_eqb_eq in X. subst k. rewrite L2. unfold pool_at. now rewrite DN.
  - apply K; [|reflexivity]. apply keepf_on_block; auto.
  - apply K; [|reflexivity]. apply keepf_on_node; auto.
  - apply K; [|reflexivity]. apply keepf_on_wep; auto.
Qed.

(* ---------------------------------------------------------------- local workload endpoints *)
Definition lk_w (s : st) (d : dstate) : Prop :=
  s_weps s = d_weps d /\ NoDup (map fst (s_weps s)) /\ (forall id, aget N.eqb (s_weps s) id <> Some [])
  /\ forall k, ri_wep (tget (s_trie s) k) = cocc k (flat_map snd (s_weps s)).

Lemma aset_same : forall {V} (m : list (N * V)) k v, aget N.eqb m k = Some v -> aset N.eqb m k v = m.
Proof.
  induction m as [|[k0 v0] m IH]; intros k v H; simpl in *; [discriminate|].
  destruct (N.eqb k0 k) eqn:E; [apply N.eqb_eq in E; inversion H; now subst|]. f_equal. now apply IH.
Qed.
Lemma aremove_absent : forall {V} (m : list (N * V)) k, aget N.eqb m k = None -> aremove N.eqb m k = m.
Proof.
  induction m as [|[k0 v0] m IH]; intros k H; simpl in *; [reflexivity|].
  destruct (N.eqb k0 k); [discriminate|]. f_equal. now apply IH.
Qed.
Lemma aget_none_notin : forall {V} (m : list (N * V)) k, aget N.eqb m k = None <-> ~ In k (map fst m).
Proof.
  induction m as [|[k0 v0] m IH]; intros k; simpl; [tauto|].
  destruct (N.eqb k0 k) eqn:E.
  - apply N.eqb_eq in E. subst. split; [discriminate|intros X; exfalso; apply X; now left].
  - apply N.eqb_neq in E. rewrite IH. tauto.
Qed.
Lemma in_aset_keys : forall {V} (m : list (N * V)) k v x, In x (map fst (aset N.eqb m k v)) -> x = k \/ In x (map fst m).
Proof.
  induction m as [|[k0 v0] m IH]; intros k v x H; simpl in *.
  - destruct H as [H|[]]. now left.
  - destruct (N.eqb k0 k) eqn:E; simpl in H.
    + apply N.eqb_eq in E. subst k0. destruct H as [H|H]; [left; now symmetry|right; now right].
    + destruct H as [H|H]; [right; now left|]. destruct (IH k v x H) as [X|X]; [now left|right; now right].
Qed.
Lemma nodup_aset : forall {V} (m : list (N * V)) k v, NoDup (map fst m) -> NoDup (map fst (aset N.eqb m k v)).
Proof.
  induction m as [|[k0 v0] m IH]; intros k v H; simpl in *; [constructor; [intros []|constructor]|].
  inversion H as [|? ? NI ND]; subst. destruct (N.eqb k0 k) eqn:E; simpl.
  - apply N.eqb_eq in E. subst. constructor; assumption.
  - constructor; [|now apply IH]. intros X. apply in_aset_keys in X. destruct X as [X|X]; [|contradiction].
    apply N.eqb_neq in E. congruence.
Qed.
Lemma in_aremove_keys : forall {V} (m : list (N * V)) k x, In x (map fst (aremove N.eqb m k)) -> In x (map fst m).
Proof.
  induction m as [|[k0 v0] m IH]; intros k x H; simpl in *; [exact H|].
  destruct (N.eqb k0 k); [right; eapply IH; exact H|]. simpl in H. destruct H as [H|H]; [now left|right; eapply IH; exact H].
Qed.
Lemma nodup_aremove : forall {V} (m : list (N * V)) k, NoDup (map fst m) -> NoDup (map fst (aremove N.eqb m k)).
Proof.
  induction m as [|[k0 v0] m IH]; intros k H; simpl in *; [constructor|].
  inversion H as [|? ? NI ND]; subst. destruct (N.eqb k0 k); [now apply IH|]. simpl. constructor; [|now apply IH].
  intros X. apply NI. eapply in_aremove_keys. exact X.
Qed.
Lemma cocc_aremove_eq : forall (m : list (N * list prefix)) id k, NoDup (map fst m) ->
  (cocc k (flat_map snd (aremove N.eqb m id)) + cocc k (match aget N.eqb m id with Some l => l | None => [] end)
   = cocc k (flat_map snd m))%nat.
Proof.
  induction m as [|[i0 l0] m IH]; intros id k ND; simpl; [unfold cocc; simpl; lia|].
  simpl in ND. inversion ND as [|? ? NI ND']; subst. destruct (N.eqb i0 id) eqn:E; simpl; rewrite !cocc_app.
  - apply N.eqb_eq in E. subst i0. rewrite aremove_absent by (now apply aget_none_notin). lia.
  - pose proof (IH id k ND'). lia.
Qed.

Lemma lk_w_wep_forced : forall s d id cs, nrb s -> lk_w s d -> lk_w (flush (on_wep_forced s id cs)) (dstep d (OpWep id cs)).
Proof.
  intros s d id cs NRB (L1 & L2 & L3 & L4).
  assert (FL : forall x, @keepf _ _ ri_wep s_weps x (flush x)) by (intros x; apply keepf_flush; auto).
  rewrite on_wep_forced_eq. cbv zeta.
  set (old := match aget N.eqb (s_weps s) id with Some l => l | None => [] end).
  set (s1 := fold_left wep_add cs s).
  assert (NRB1 : nrb s1).
  { unfold s1. clear - NRB. revert s NRB. induction cs as [|x l IH]; intros s NRB; [exact NRB|]. cbn [fold_left]. apply IH. now apply nrb_wep_add. }
  assert (OLD : forall k, (cocc k old <= cocc k (flat_map snd (s_weps s)))%nat).
  { intros k. unfold old. destruct (aget N.eqb (s_weps s) id) as [l|] eqn:A; [exact (cocc_in_weps _ _ _ k A)|unfold cocc; simpl; lia]. }
  assert (PRE : forall k, (cocc k old <= ri_wep (tget (s_trie s1) k))%nat).
  { intros k. unfold s1. rewrite (proj1 (fold_wep_add_tget cs s k)), L4. pose proof (OLD k). lia. }
  destruct (fold_wep_rem old s1 PRE NRB1) as [_ T2].
  set (s2 := fold_left wep_rem old s1) in *.
  assert (WEP2 : forall k, ri_wep (tget (s_trie s2) k) = (cocc k (flat_map snd (s_weps s)) + cocc k cs - cocc k old)%nat).
  { intros k. rewrite (proj1 (T2 k)). unfold s1. now rewrite (proj1 (fold_wep_add_tget cs s k)), L4. }
  assert (WE : s_weps s2 = s_weps s).
  { unfold s2, s1. rewrite (proj2 (fold_wep_misc wep_rem (or_intror eq_refl) old _)). apply (proj2 (fold_wep_misc wep_add (or_introl eq_refl) cs s)). }
  assert (G : forall m', (forall k, (cocc k (flat_map snd m') + cocc k old = cocc k (flat_map snd (s_weps s)) + cocc k cs)%nat) ->
              m' = d_weps (dstep d (OpWep id cs)) -> NoDup (map fst m') -> (forall i, aget N.eqb m' i <> Some []) ->
              lk_w (flush (set_weps s2 m')) (dstep d (OpWep id cs))).
  { intros m' HC HD HN HE. destruct (FL (set_weps s2 m')) as [F1 F2]. unfold lk_w. rewrite F2. cbn [s_weps set_weps].
    split; [exact HD|]. split; [exact HN|]. split; [exact HE|]. intros k. rewrite F1. cbn [s_trie set_weps]. rewrite WEP2.
    pose proof (HC k). pose proof (OLD k). lia. }
  destruct cs as [|c0 cs']; rewrite WE.
  * apply G.
    -- intros k. pose proof (cocc_aremove_eq (s_weps s) id k L2) as X. fold old in X. unfold cocc at 4. simpl. lia.
    -- cbn [dstep d_weps]. unfold upd. now rewrite L1.
    -- now apply nodup_aremove.
    -- intros i. rewrite agetN_aremove. destruct (N.eqb id i); [discriminate|apply L3].
  * apply G.
    -- intros k. pose proof (cocc_aset (s_weps s) id (c0 :: cs') k) as X. fold old in X. exact X.
    -- cbn [dstep d_weps]. unfold upd. now rewrite L1.
    -- now apply nodup_aset.
    -- intros i. rewrite agetN_aset. destruct (N.eqb id i); [discriminate|apply L3].
Qed.

Lemma lk_w_step : forall s d o, nrb s -> lk_w s d -> lk_w (apply_op true s o) (dstep d o).
Proof.
  intros s d o NRB (L1 & L2 & L3 & L4). unfold apply_op.
  assert (FL : forall x, @keepf _ _ ri_wep s_weps x (flush x)) by (intros x; apply keepf_flush; auto).
  assert (K : forall mid, @keepf _ _ ri_wep s_weps s mid -> d_weps (dstep d o) = d_weps d -> lk_w (flush mid) (dstep d o)).
  { intros mid [K1 K2] D. destruct (FL mid) as [F1 F2]. unfold lk_w. rewrite F2, K2, D.
    split; [exact L1|]. split; [exact L2|]. split; [exact L3|]. intros k. rewrite F1, K1. apply L4. }
  destruct o as [c v|c v|n v|id cs].
  - apply K; [|reflexivity]. apply keepf_on_pool; auto.
  - apply K; [|reflexivity]. apply keepf_on_block; auto.
  - apply K; [|reflexivity]. apply keepf_on_node; auto.
  - unfold on_wep, wep_unchanged.
    set (old := match aget N.eqb (s_weps s) id with Some l => l | None => [] end).
    destruct (list_eqb prefix_eqb old cs) eqn:LE.
    + apply (list_eqb_eq prefix_eqb) in LE; [|intros a b X; now apply prefix_eqb_eq].
      apply K; [apply keepf_refl|]. cbn [dstep d_weps]. unfold upd. rewrite <- L1. unfold old in LE.
      destruct cs as [|c0 cs'].
      * destruct (aget N.eqb (s_weps s) id) as [l|] eqn:A; [subst l; exfalso; exact (L3 id A)|]. now apply aremove_absent.
      * destruct (aget N.eqb (s_weps s) id) as [l|] eqn:A; [|discriminate]. subst l. now apply aset_same.
    + apply lk_w_wep_forced; [exact NRB|]. repeat split; assumption.
Qed.

Lemma lk_p_fstep : forall s d x, lk_p s d -> lk_p (apply_fop true s x) (dstep d (match x with FOp _ o => o end)).
Proof.
  intros s d [force o] L. destruct force; [|now apply lk_p_step].
  destruct o as [c v|c v|n v|id cs]; cbn [apply_fop]; try (now apply lk_p_step); destruct L as [L1 L2];
    assert (FL : forall x, @keepf _ _ ri_pool s_pools x (flush x)) by (intros x; apply keepf_flush; auto).
  - assert (K : @keepf _ _ ri_pool s_pools s (on_node_forced true s n v)) by (apply keepf_on_node_forced; auto).
    destruct K as [K1 K2]. destruct (FL (on_node_forced true s n v)) as [F1 F2]. split.
    + intros c. rewrite F2, K2. apply L1.
    + intros k. rewrite F1, K1. apply L2.
  - assert (K : @keepf _ _ ri_pool s_pools s (on_wep_forced s id cs)) by (apply keepf_on_wep_forced; auto).
    destruct K as [K1 K2]. destruct (FL (on_wep_forced s id cs)) as [F1 F2]. split.
    + intros c. rewrite F2, K2. apply L1.
    + intros k. rewrite F1, K1. apply L2.
Qed.

Lemma lk_w_fstep : forall s d x, nrb s -> lk_w s d -> lk_w (apply_fop true s x) (dstep d (match x with FOp _ o => o end)).
Proof.
  intros s d [force o] NRB L. destruct force; [|now apply lk_w_step].
  destruct o as [c v|c v|n v|id cs]; cbn [apply_fop]; try (now apply lk_w_step).
  - destruct L as (L1 & L2 & L3 & L4).
    assert (FL : forall x, @keepf _ _ ri_wep s_weps x (flush x)) by (intros x; apply keepf_flush; auto).
    assert (K : @keepf _ _ ri_wep s_weps s (on_node_forced true s n v)) by (apply keepf_on_node_forced; auto).
    destruct K as [K1 K2]. destruct (FL (on_node_forced true s n v)) as [F1 F2]. unfold lk_w. rewrite F2, K2. cbn [dstep d_weps].
    split; [exact L1|]. split; [exact L2|]. split; [exact L3|]. intros k. rewrite F1, K1. apply L4.
  - now apply lk_w_wep_forced.
Qed.
