(* C43 — bookkeeping invariants of the resolver: nodeRoutes reference counts cover every block / workload
   route; blockToRoutes agrees with the trie; the workload reference counts never underflow. *)
From Coq Require Import List NArith Arith Bool Lia Permutation.
From Verif.Common Require Import Prefix.
From Verif.C43 Require Import Model MgrProofs FlushPerm Spec Final FinalProofs Reflag Peer PoolUpd Chain Fresh FreshOps.
Import ListNotations.
Open Scope N_scope.

(* ---------------------------------------------------------------- generic association lists *)
Section GenAssoc.
  Context {K V : Type} (e : K -> K -> bool) (E : forall a b, e a b = true <-> a = b).
  Lemma e_refl : forall a, e a a = true. Proof. intros a. now apply E. Qed.
  Lemma gaget_aset : forall (m : list (K * V)) k v k', aget e (aset e m k v) k' = if e k k' then Some v else aget e m k'.
  Proof.
    induction m as [|[k0 v0] m IH]; intros k v k'; simpl; [reflexivity|].
    destruct (e k0 k) eqn:X; simpl.
    - apply E in X. subst k0. destruct (e k k'); reflexivity.
    - rewrite IH. destruct (e k0 k') eqn:X2; [|reflexivity]. apply E in X2. subst k0.
      destruct (e k k') eqn:X3; [|reflexivity]. apply E in X3. subst k'. rewrite e_refl in X. discriminate.
  Qed.
  Lemma gaget_aremove : forall (m : list (K * V)) k k', aget e (aremove e m k) k' = if e k k' then None else aget e m k'.
  Proof.
    induction m as [|[k0 v0] m IH]; intros k k'; simpl; [now destruct (e k k')|].
    destruct (e k0 k) eqn:X; simpl.
    - apply E in X. subst k0. rewrite IH. destruct (e k k'); reflexivity.
    - rewrite IH. destruct (e k0 k') eqn:X2; [|reflexivity]. apply E in X2. subst k0.
      destruct (e k k') eqn:X3; [|reflexivity]. apply E in X3. subst k'. rewrite e_refl in X. discriminate.
  Qed.
  Lemma gaget_In : forall (m : list (K * V)) k v, aget e m k = Some v -> In (k, v) m.
  Proof.
    induction m as [|[k0 v0] m IH]; simpl; intros k v H; [discriminate|].
    destruct (e k0 k) eqn:X; [apply E in X; inversion H; subst; now left|right; now apply IH].
  Qed.
End GenAssoc.

Lemma nroute_eqb_eq : forall a b : nroute, nroute_eqb a b = true <-> a = b.
Proof.
  intros [n k] [n' k']. unfold nroute_eqb. simpl. rewrite andb_true_iff, N.eqb_eq, prefix_eqb_eq.
  split; [intros [-> ->]; reflexivity|intros X; inversion X; auto].
Qed.

Lemma list_eqb_eq : forall {A} (e : A -> A -> bool), (forall a b, e a b = true -> a = b) -> forall l1 l2, list_eqb e l1 l2 = true -> l1 = l2.
Proof.
  intros A e E. induction l1 as [|x l1 IH]; intros [|y l2] H; simpl in H; try discriminate; [reflexivity|].
  apply andb_true_iff in H. destruct H as [H1 H2]. f_equal; [now apply E|now apply IH].
Qed.
Lemma rinfo_eqb_eq : forall a b, rinfo_eqb a b = true -> a = b.
Proof.
  intros [p b h w s] [p' b' h' w' s']. unfold rinfo_eqb. simpl. rewrite !andb_true_iff. intros ((((A & B) & C) & D) & F).
  assert (p = p').
  { destruct p as [[t c]|], p' as [[t' c']|]; simpl in A; try discriminate; [|reflexivity].
    unfold pinfo_eqb in A. simpl in A. apply andb_true_iff in A. destruct A as [A1 A2].
    apply N.eqb_eq in A1. apply eqb_prop in A2. now subst. }
  assert (b = b') by (destruct b, b'; simpl in B; try discriminate; [apply N.eqb_eq in B; now subst|reflexivity]).
  assert (h = h') by (apply (list_eqb_eq N.eqb); [intros x y X; now apply N.eqb_eq|exact C]).
  apply Nat.eqb_eq in D. apply eqb_prop in F. now subst.
Qed.

Lemma update_cidr_tget : forall s c f k,
  tget (s_trie (fst (update_cidr s c f))) k = if prefix_eqb c k then f (tget (s_trie s) c) else tget (s_trie s) k.
Proof.
  intros s c f k. unfold update_cidr. destruct (rinfo_eqb _ _) eqn:X; simpl.
  - apply rinfo_eqb_eq in X. destruct (prefix_eqb c k) eqn:Y; [|reflexivity]. apply prefix_eqb_eq in Y. subst k. now symmetry.
  - rewrite mark_dirty_trie. simpl. apply tget_aset.
Qed.

Lemma block_upd_tget : forall f s c b k,
  tget (s_trie (block_upd f s c b)) k = if prefix_eqb c k then with_block (tget (s_trie s) c) b else tget (s_trie s) k.
Proof.
  intros f s c b k. pose proof (update_cidr_tget s c (fun ri => with_block ri b) k) as X.
  unfold block_upd. destruct (update_cidr s c (fun ri => with_block ri b)) as [s1 ch]. simpl in X.
  destruct (f && ch && negb (Nat.eqb (plen c) 32)); [|exact X].
  destruct (mark_children_inv s1 c) as (MT & _). now rewrite MT.
Qed.
Lemma block_upd_nr : forall f s c b, s_nr (block_upd f s c b) = s_nr s.
Proof.
  intros f s c b. pose proof (update_cidr_nr s c (fun ri => with_block ri b)) as X.
  unfold block_upd. destruct (update_cidr s c (fun ri => with_block ri b)) as [s1 ch]. simpl in X.
  destruct (f && ch && negb (Nat.eqb (plen c) 32)); [|exact X].
  rewrite mark_children_fold. apply (fold_inv (fun x => s_nr x = s_nr s)); [|exact X].
  intros s0 x H. unfold mark_child. destruct (contains _ _ _); [now rewrite mark_dirty_nr|exact H].
Qed.

(* ---------------------------------------------------------------- reference counts *)
Definition cnt (s : st) (r : nroute) : nat := match aget nroute_eqb (s_nr s) r with Some c => c | None => O end.
Definition bb (s : st) (n : N) (k : prefix) : nat :=
  match ri_block (tget (s_trie s) k) with Some n' => if N.eqb n' n then 1%nat else O | None => O end.
Definition ww (s : st) (n : N) (k : prefix) : nat := if N.eqb n me then ri_wep (tget (s_trie s) k) else O.
Definition nrb (s : st) : Prop := forall n k, (bb s n k + ww s n k <= cnt s (n, k))%nat.

Lemma cnt_nr_add : forall s r r', cnt (nr_add s r) r' = if nroute_eqb r r' then S (cnt s r) else cnt s r'.
Proof.
  intros s r r'. unfold cnt, nr_add. simpl. rewrite (gaget_aset nroute_eqb nroute_eqb_eq).
  destruct (nroute_eqb r r'); reflexivity.
Qed.
Lemma cnt_nr_remove : forall s r r', cnt (nr_remove s r) r' = if nroute_eqb r r' then pred (cnt s r) else cnt s r'.
Proof.
  intros s r r'. unfold cnt, nr_remove.
  destruct (aget nroute_eqb (s_nr s) r) as [[|[|c]]|] eqn:A; simpl;
    rewrite ?(gaget_aset nroute_eqb nroute_eqb_eq), ?(gaget_aremove nroute_eqb nroute_eqb_eq); destruct (nroute_eqb r r'); reflexivity.
Qed.
Lemma nr_add_trie : forall s r, s_trie (nr_add s r) = s_trie s. Proof. reflexivity. Qed.
Lemma nr_remove_trie : forall s r, s_trie (nr_remove s r) = s_trie s.
Proof. intros s r. unfold nr_remove. destruct (aget _ _ _) as [[|[|n]]|]; reflexivity. Qed.

Lemma nrb_cov : forall s, nrb s -> nr_cov s.
Proof.
  intros s H n k C. specialize (H n k). unfold cnt in H.
  assert (P : (1 <= bb s n k + ww s n k)%nat).
  { unfold bb, ww. destruct C as [[B W]|[-> W]].
    - rewrite B, N.eqb_refl. lia.
    - rewrite N.eqb_refl. lia. }
  destruct (aget nroute_eqb (s_nr s) (n, k)) as [c|] eqn:A; [|lia].
  exists c. exact (gaget_In nroute_eqb nroute_eqb_eq _ _ _ A).
Qed.

Lemma nroute_eqb_pair : forall n k n' k', nroute_eqb (n, k) (n', k') = N.eqb n n' && prefix_eqb k k'.
Proof. reflexivity. Qed.

(* adding a block route *)
Lemma nrb_blk_add : forall f s r, nrb s -> nrb (blk_add f s r).
Proof.
  intros f s [n k] H n' k'. specialize (H n' k'). unfold blk_add, bb, ww, cnt in *.
  rewrite nr_add_trie. fold (cnt (nr_add (block_upd f s (snd (n, k)) (Some (fst (n, k)))) (n, k)) (n', k')).
  rewrite cnt_nr_add. unfold cnt. rewrite block_upd_nr. rewrite !block_upd_tget. simpl fst. simpl snd.
  rewrite nroute_eqb_pair.
  destruct (prefix_eqb k k') eqn:X.
  - apply prefix_eqb_eq in X. subst k'. destruct (tget (s_trie s) k) as [p b h w sn]. simpl in *.
    destruct (N.eqb n n') eqn:Y; simpl.
    + apply N.eqb_eq in Y. subst n'. destruct b as [b0|]; [destruct (N.eqb b0 n)|]; lia.
    + destruct b as [b0|]; [destruct (N.eqb b0 n')|]; lia.
  - rewrite andb_false_r. exact H.
Qed.

(* clearing a block route without touching the index (block deletion) *)
Lemma nrb_blk_clr : forall f s r, nrb s -> nrb (blk_clr f s r).
Proof.
  intros f s [n k] H n' k'. specialize (H n' k'). unfold blk_clr, bb, ww, cnt in *.
  rewrite block_upd_nr, !block_upd_tget. simpl snd.
  destruct (prefix_eqb k k') eqn:X; [|exact H].
  apply prefix_eqb_eq in X. subst k'. destruct (tget (s_trie s) k) as [p b h w sn]. simpl in *.
  destruct b as [b0|]; [destruct (N.eqb b0 n')|]; lia.
Qed.

(* withdrawing a block route that the trie holds *)
Lemma nrb_blk_del : forall f s r, nrb s -> ri_block (tget (s_trie s) (snd r)) = Some (fst r) -> nrb (blk_del f s r).
Proof.
  intros f s [n k] H HB n' k'. specialize (H n' k'). simpl in HB. unfold blk_del, bb, ww, cnt in *.
  rewrite nr_remove_trie. fold (cnt (nr_remove (block_upd f s (snd (n, k)) None) (n, k)) (n', k')).
  rewrite cnt_nr_remove. unfold cnt. rewrite block_upd_nr, !block_upd_tget. simpl snd.
  rewrite nroute_eqb_pair.
  destruct (prefix_eqb k k') eqn:X.
  - apply prefix_eqb_eq in X. subst k'. destruct (tget (s_trie s) k) as [p b h w sn]. simpl in *. subst b.
    destruct (N.eqb n n') eqn:Y; simpl.
    + apply N.eqb_eq in Y. subst n'. rewrite ?N.eqb_refl in H. lia.
    + rewrite ?Y in H. lia.
  - rewrite andb_false_r. exact H.
Qed.

Lemma nrb_wep_add : forall s c, nrb s -> nrb (wep_add s c).
Proof.
  intros s c H n' k'. specialize (H n' k'). unfold wep_add, bb, ww, cnt in *.
  rewrite nr_add_trie. fold (cnt (nr_add (fst (update_cidr s c (fun r => with_wep r (S (ri_wep r))))) (me, c)) (n', k')).
  rewrite cnt_nr_add. unfold cnt. rewrite update_cidr_nr, !update_cidr_tget. rewrite nroute_eqb_pair.
  destruct (prefix_eqb c k') eqn:X.
  - apply prefix_eqb_eq in X. subst k'. destruct (tget (s_trie s) c) as [p b h w sn]. cbn [ri_wep ri_block with_wep] in *.
    rewrite (N.eqb_sym me n'). destruct (N.eqb n' me) eqn:Z; [apply N.eqb_eq in Z; subst n'|]; cbn [andb];
      (destruct b as [b0|]; [destruct (N.eqb b0 _)|]); lia.
  - rewrite andb_false_r. exact H.
Qed.
Lemma nrb_wep_rem : forall s c, nrb s -> ri_wep (tget (s_trie s) c) <> O -> nrb (wep_rem s c).
Proof.
  intros s c H HW n' k'. specialize (H n' k'). unfold wep_rem, bb, ww, cnt in *.
  rewrite nr_remove_trie. fold (cnt (nr_remove (fst (update_cidr s c (fun r => with_wep r (pred (ri_wep r))))) (me, c)) (n', k')).
  rewrite cnt_nr_remove. unfold cnt. rewrite update_cidr_nr, !update_cidr_tget. rewrite nroute_eqb_pair.
  destruct (prefix_eqb c k') eqn:X.
  - apply prefix_eqb_eq in X. subst k'. destruct (tget (s_trie s) c) as [p b h w sn]. cbn [ri_wep ri_block with_wep] in *.
    rewrite (N.eqb_sym me n'). destruct (N.eqb n' me) eqn:Z; [apply N.eqb_eq in Z; subst n'|]; cbn [andb];
      (destruct b as [b0|]; [destruct (N.eqb b0 _)|]); lia.
  - rewrite andb_false_r. exact H.
Qed.

(* ---------------------------------------------------------------- blockToRoutes agrees with the trie *)
Lemma block_upd_cache : forall f s c b, s_cache (block_upd f s c b) = s_cache s.
Proof.
  intros f s c b. unfold block_upd, update_cidr. destruct (rinfo_eqb _ _); simpl.
  - rewrite andb_false_r. reflexivity.
  - destruct (f && true && negb (Nat.eqb (plen c) 32)).
    + rewrite mark_children_fold. apply (fold_inv (fun x => s_cache x = s_cache s)).
      * intros s0 x H. unfold mark_child. destruct (contains _ _ _); [|exact H]. unfold mark_dirty. destruct (existsb _ _); exact H.
      * unfold mark_dirty. destruct (existsb _ _); reflexivity.
    + unfold mark_dirty. destruct (existsb _ _); reflexivity.
Qed.
Lemma nr_remove_cache : forall s r, s_cache (nr_remove s r) = s_cache s.
Proof. intros s r. unfold nr_remove. destruct (aget _ _ _) as [[|[|n]]|]; reflexivity. Qed.

Lemma nr_add_cache : forall s r, s_cache (nr_add s r) = s_cache s.
Proof. reflexivity. Qed.

Definition has_dst (k : prefix) (l : list nroute) : bool := existsb (fun r => prefix_eqb (snd r) k) l.

Lemma fold_blk_del_tget : forall f l s k,
  tget (s_trie (fold_left (blk_del f) l s)) k = if has_dst k l then with_block (tget (s_trie s) k) None else tget (s_trie s) k.
Proof.
  intros f. induction l as [|x l IH]; intros s k; [reflexivity|]. cbn [fold_left has_dst existsb]. rewrite IH.
  unfold blk_del. rewrite nr_remove_trie, block_upd_tget. fold (has_dst k l).
  destruct (prefix_eqb (snd x) k) eqn:X; simpl.
  - apply prefix_eqb_eq in X. rewrite X. destruct (has_dst k l); [|reflexivity]. destruct (tget (s_trie s) k); reflexivity.
  - reflexivity.
Qed.
Lemma fold_blk_clr_tget : forall f l s k,
  tget (s_trie (fold_left (blk_clr f) l s)) k = if has_dst k l then with_block (tget (s_trie s) k) None else tget (s_trie s) k.
Proof.
  intros f. induction l as [|x l IH]; intros s k; [reflexivity|]. cbn [fold_left has_dst existsb]. rewrite IH.
  unfold blk_clr. rewrite block_upd_tget. fold (has_dst k l).
  destruct (prefix_eqb (snd x) k) eqn:X; simpl.
  - apply prefix_eqb_eq in X. rewrite X. destruct (has_dst k l); [|reflexivity]. destruct (tget (s_trie s) k); reflexivity.
  - reflexivity.
Qed.

Lemma has_dst_false : forall k l, has_dst k l = false -> forall r, In r l -> snd r <> k.
Proof.
  intros k l H r Hr E. unfold has_dst in H.
  assert (X : existsb (fun r => prefix_eqb (snd r) k) l = true) by (apply existsb_exists; exists r; split; [exact Hr|rewrite E; apply prefix_eqb_refl]).
  congruence.
Qed.
Lemma has_dst_true : forall k l, has_dst k l = true -> exists n, In (n, k) l.
Proof.
  intros k l H. apply existsb_exists in H. destruct H as ([n k'] & Hr & E). apply prefix_eqb_eq in E. simpl in E. subst k'. now exists n.
Qed.

Lemma fold_blk_add_tget : forall f l s k n, NoDup (map snd l) -> In (n, k) l ->
  ri_block (tget (s_trie (fold_left (blk_add f) l s)) k) = Some n.
Proof.
  intros f. induction l as [|x l IH]; intros s k n ND H; [destruct H|]. cbn [fold_left].
  inversion ND as [|? ? NI ND']; subst. destruct H as [->|H]; [|now apply IH].
  (* the rest of the list does not touch k *)
  assert (R : forall l0 s0, (forall r, In r l0 -> snd r <> k) -> tget (s_trie (fold_left (blk_add f) l0 s0)) k = tget (s_trie s0) k).
  { induction l0 as [|y l0 IH0]; intros s0 Hn; [reflexivity|]. cbn [fold_left]. rewrite IH0 by (intros r Hr; apply Hn; now right).
    unfold blk_add. rewrite nr_add_trie, block_upd_tget.
    destruct (prefix_eqb (snd y) k) eqn:X; [|reflexivity]. apply prefix_eqb_eq in X. exfalso. apply (Hn y); [now left|exact X]. }
  rewrite R.
  - unfold blk_add. rewrite nr_add_trie, block_upd_tget. simpl. rewrite prefix_eqb_refl. destruct (tget (s_trie s) k); reflexivity.
  - intros r Hr E. apply NI. simpl. rewrite <- E. now apply in_map.
Qed.
Lemma fold_blk_add_other : forall f l s k, has_dst k l = false ->
  tget (s_trie (fold_left (blk_add f) l s)) k = tget (s_trie s) k.
Proof.
  intros f. induction l as [|y l IH]; intros s k H; [reflexivity|]. cbn [fold_left]. cbn [has_dst existsb] in H.
  apply orb_false_iff in H. destruct H as [H1 H2]. rewrite IH by exact H2.
  unfold blk_add. rewrite nr_add_trie, block_upd_tget. now rewrite H1.
Qed.

Lemma fold_cache : forall f g, (g = blk_del f \/ g = blk_add f \/ g = blk_clr f) -> forall l s, s_cache (fold_left g l s) = s_cache s.
Proof.
  intros f g Hg. induction l as [|x l IH]; intros s; [reflexivity|]. cbn [fold_left]. rewrite IH.
  destruct Hg as [-> | [-> | ->]]; unfold blk_del, blk_add, blk_clr; rewrite ?nr_remove_cache, ?nr_add_cache, block_upd_cache; reflexivity.
Qed.

Lemma nodup_dst_unique : forall (l : list nroute) a b k, NoDup (map snd l) -> In (a, k) l -> In (b, k) l -> a = b.
Proof.
  induction l as [|[n k0] l IH]; intros a b k ND Ha Hb; [destruct Ha|]. simpl in ND. inversion ND as [|? ? NI ND']; subst.
  destruct Ha as [Ha|Ha], Hb as [Hb|Hb].
  - congruence.
  - inversion Ha; subst. exfalso. apply NI. change k with (snd (b, k)). now apply in_map.
  - inversion Hb; subst. exfalso. apply NI. change k with (snd (a, k)). now apply in_map.
  - eapply IH; eassumption.
Qed.
Lemma nodup_map_filter : forall {A B} (g : A -> B) (p : A -> bool) l, NoDup (map g l) -> NoDup (map g (filter p l)).
Proof.
  induction l as [|x l IH]; intros ND; [constructor|]. simpl in ND. inversion ND as [|? ? NI ND']; subst. simpl.
  destruct (p x); [|now apply IH]. simpl. constructor; [|now apply IH].
  intros X. apply NI. apply in_map_iff in X. destruct X as (y & E & Hy). apply filter_In in Hy. rewrite <- E. apply in_map. apply Hy.
Qed.

Lemma nodup_app : forall {A} (l1 l2 : list A), NoDup l1 -> NoDup l2 -> (forall x, In x l1 -> ~ In x l2) -> NoDup (l1 ++ l2).
Proof.
  induction l1 as [|a l1 IH]; intros l2 N1 N2 D; [exact N2|]. inversion N1; subst. simpl. constructor.
  - intros X. apply in_app_or in X. destruct X as [X|X]; [contradiction|]. apply (D a); [now left|exact X].
  - apply IH; auto. intros x Hx. apply D. now right.
Qed.
Lemma optN_dec : forall a b : option N, a = b \/ a <> b.
Proof. intros [a|] [b|]; try (right; discriminate); [|now left]. destruct (N.eq_dec a b); [left; now subst|right; congruence]. Qed.

Lemma nrb_fold_add : forall f l s, nrb s -> nrb (fold_left (blk_add f) l s).
Proof. intros f. induction l as [|x l IH]; intros s H; [exact H|]. cbn [fold_left]. apply IH. now apply nrb_blk_add. Qed.
Lemma nrb_fold_clr : forall f l s, nrb s -> nrb (fold_left (blk_clr f) l s).
Proof. intros f. induction l as [|x l IH]; intros s H; [exact H|]. cbn [fold_left]. apply IH. now apply nrb_blk_clr. Qed.
Lemma nrb_fold_del : forall f l s, NoDup (map snd l) ->
  (forall r, In r l -> ri_block (tget (s_trie s) (snd r)) = Some (fst r)) -> nrb s -> nrb (fold_left (blk_del f) l s).
Proof.
  intros f. induction l as [|x l IH]; intros s ND HF H; [exact H|]. cbn [fold_left]. simpl in ND. inversion ND as [|? ? NI ND']; subst.
  apply IH; [exact ND'| |apply nrb_blk_del; [exact H|apply HF; now left]].
  intros r Hr. unfold blk_del. rewrite nr_remove_trie, block_upd_tget.
  destruct (prefix_eqb (snd x) (snd r)) eqn:X; [|apply HF; now right].
  apply prefix_eqb_eq in X. exfalso. apply NI. rewrite X. now apply in_map.
Qed.

Section Sep.
  (* the block keys of the history; no address range belongs to two of them ("block keys never overlap") *)
  Variable BK : prefix -> Prop.
  Hypothesis sep : forall a b x, BK a -> BK b -> covers 32 a x = true -> covers 32 b x = true -> a = b.

  Definition cc (s : st) : Prop := forall key l, aget prefix_eqb (s_cache s) key = Some l ->
    BK key /\ NoDup (map snd l) /\
    forall r, In r l -> covers 32 key (snd r) = true /\ ri_block (tget (s_trie s) (snd r)) = Some (fst r).

  (* a block value whose routes have distinct destinations inside the block *)
  Definition blk_ok (c : prefix) (b : blockv) : Prop :=
    NoDup (map snd (routes_from_block c b)) /\ forall r, In r (routes_from_block c b) -> covers 32 c (snd r) = true.

  Lemma in_existsb_nroute : forall r l, existsb (nroute_eqb r) l = true <-> In r l.
  Proof.
    intros r l. rewrite existsb_exists. split.
    - intros (x & Hx & E). apply nroute_eqb_eq in E. now subst.
    - intros H. exists r. split; [exact H|now apply nroute_eqb_eq].
  Qed.

  Lemma notin_existsb_nroute : forall r l, existsb (nroute_eqb r) l = false <-> ~ In r l.
  Proof.
    intros r l. rewrite <- in_existsb_nroute. destruct (existsb (nroute_eqb r) l); split; intros H; try congruence; try reflexivity.
  Qed.

  Lemma on_block_some_inv : forall s c b, BK c -> blk_ok c b -> cc s -> nrb s ->
    cc (on_block true s c (Some b)) /\ nrb (on_block true s c (Some b)).
  Proof.
    intros s c b HBK [NDN COVN] CC NRB. rewrite on_block_eq. cbv zeta.
    set (new := routes_from_block c b) in *.
    set (cached := match aget prefix_eqb (s_cache s) c with Some l => l | None => [] end).
    set (keep := filter (fun r => existsb (nroute_eqb r) new) cached).
    set (dels := filter (fun r => negb (existsb (nroute_eqb r) new)) cached).
    set (adds := filter (fun r => negb (existsb (nroute_eqb r) keep)) new).
    set (s0 := set_cache s (aset prefix_eqb (s_cache s) c (keep ++ adds))).
    (* facts about the cached routes of this block *)
    assert (CA : NoDup (map snd cached) /\ forall r, In r cached -> covers 32 c (snd r) = true /\ ri_block (tget (s_trie s) (snd r)) = Some (fst r)).
    { unfold cached. destruct (aget prefix_eqb (s_cache s) c) as [l|] eqn:A; [|split; [constructor|intros r []]].
      destruct (CC c l A) as (_ & ND & Hl). split; assumption. }
    destruct CA as [NDC HC].
    assert (KEEP : forall r, In r keep <-> In r cached /\ In r new).
    { intros r. unfold keep. rewrite filter_In, in_existsb_nroute. reflexivity. }
    assert (DELS : forall r, In r dels <-> In r cached /\ ~ In r new).
    { intros r. unfold dels. rewrite filter_In, negb_true_iff, notin_existsb_nroute. reflexivity. }
    assert (ADDS : forall r, In r adds <-> In r new /\ ~ In r keep).
    { intros r. unfold adds. rewrite filter_In, negb_true_iff, notin_existsb_nroute. reflexivity. }
    assert (NDA : NoDup (map snd adds)) by (apply nodup_map_filter; exact NDN).
    assert (NDD : NoDup (map snd dels)) by (apply nodup_map_filter; exact NDC).
    (* the trie after the deletions and additions *)
    assert (TR : forall k, ri_block (tget (s_trie (fold_left (blk_add true) adds (fold_left (blk_del true) dels s0))) k)
                 = match find (fun r => prefix_eqb (snd r) k) adds with
                   | Some r => Some (fst r)
                   | None => if has_dst k dels then None else ri_block (tget (s_trie s) k) end).
    { intros k. destruct (find (fun r => prefix_eqb (snd r) k) adds) as [[n k']|] eqn:FA.
      - apply find_some in FA. destruct FA as [FI FE]. apply prefix_eqb_eq in FE. simpl in FE. subst k'.
        now apply fold_blk_add_tget.
      - rewrite fold_blk_add_other.
        + rewrite fold_blk_del_tget. destruct (has_dst k dels); [destruct (tget (s_trie s0) k); reflexivity|reflexivity].
        + unfold has_dst. destruct (existsb (fun r => prefix_eqb (snd r) k) adds) eqn:X; [|reflexivity].
          apply existsb_exists in X. destruct X as (r & Hr & E). pose proof (find_none _ _ FA r Hr) as Y. simpl in Y. congruence. }
    (* destinations touched lie inside c *)
    assert (TOUCH : forall k, ri_block (tget (s_trie (fold_left (blk_add true) adds (fold_left (blk_del true) dels s0))) k) <> ri_block (tget (s_trie s) k) ->
                    covers 32 c k = true).
    { intros k D. rewrite TR in D. destruct (find (fun r => prefix_eqb (snd r) k) adds) as [[n k']|] eqn:FA.
      - apply find_some in FA. destruct FA as [FI FE]. apply prefix_eqb_eq in FE. simpl in FE. subst k'.
        apply ADDS in FI. exact (COVN _ (proj1 FI)).
      - destruct (has_dst k dels) eqn:HD; [|contradiction]. apply has_dst_true in HD. destruct HD as (n & Hn).
        apply DELS in Hn. exact (proj1 (HC _ (proj1 Hn))). }
    split.
    - (* cc *)
      intros key l A. rewrite (fold_cache true _ (or_intror (or_introl eq_refl))), (fold_cache true _ (or_introl eq_refl)) in A.
      unfold s0 in A. simpl in A. rewrite aget_aset in A. destruct (prefix_eqb c key) eqn:X.
      + apply prefix_eqb_eq in X. subst key. inversion A; subst l.
        assert (DISJ : forall n k n', In (n, k) keep -> In (n', k) adds -> False).
        { intros n k n' Hk Ha. apply ADDS in Ha. destruct Ha as [Ha1 Ha2]. pose proof (proj2 (proj1 (KEEP _) Hk)) as Hk2.
          assert (n = n') by (eapply nodup_dst_unique; [exact NDN|exact Hk2|exact Ha1]). subst n'. contradiction. }
        split; [exact HBK|]. split.
        * rewrite map_app. apply nodup_app; [apply nodup_map_filter; exact NDC|exact NDA|].
          intros k Hk Ha. apply in_map_iff in Hk. destruct Hk as ([n k1] & E1 & H1). apply in_map_iff in Ha. destruct Ha as ([n' k2] & E2 & H2).
          simpl in E1, E2. subst k1 k2. exact (DISJ n k n' H1 H2).
        * intros [n k] Hr. simpl. apply in_app_or in Hr. rewrite TR. destruct Hr as [Hr|Hr].
          -- pose proof (proj1 (KEEP _) Hr) as [Hc Hn]. split; [exact (COVN _ Hn)|].
             destruct (find (fun r => prefix_eqb (snd r) k) adds) as [[n' k']|] eqn:FA.
             { apply find_some in FA. destruct FA as [FI FE]. apply prefix_eqb_eq in FE. simpl in FE. subst k'. exfalso. exact (DISJ n k n' Hr FI). }
             destruct (has_dst k dels) eqn:HD.
             { apply has_dst_true in HD. destruct HD as (n2 & H2). pose proof (proj1 (DELS _) H2) as [H2c H2n].
               assert (n = n2) by (eapply nodup_dst_unique; [exact NDC|exact Hc|exact H2c]). subst n2. contradiction. }
             exact (proj2 (HC _ Hc)).
          -- pose proof (proj1 (ADDS _) Hr) as [Hn _]. split; [exact (COVN _ Hn)|].
             destruct (find (fun r => prefix_eqb (snd r) k) adds) as [[n' k']|] eqn:FA.
             { apply find_some in FA. destruct FA as [FI FE]. apply prefix_eqb_eq in FE. simpl in FE. subst k'. simpl.
               f_equal. eapply nodup_dst_unique; [exact NDA|exact FI|exact Hr]. }
             pose proof (find_none _ _ FA _ Hr) as Y. simpl in Y. now rewrite prefix_eqb_refl in Y.
      + destruct (CC key l A) as (BKk & NDl & Hl). split; [exact BKk|]. split; [exact NDl|].
        intros r Hr. destruct (Hl r Hr) as [Cv Fd]. split; [exact Cv|].
        destruct (optN_dec (ri_block (tget (s_trie (fold_left (blk_add true) adds (fold_left (blk_del true) dels s0))) (snd r)))
                           (ri_block (tget (s_trie s) (snd r)))) as [E|D]; [now rewrite E|].
        exfalso. pose proof (sep c key (snd r) HBK BKk (TOUCH _ D) Cv) as Y. subst key. now rewrite prefix_eqb_refl in X.
    - apply nrb_fold_add. apply nrb_fold_del; [exact NDD| |exact NRB].
      intros r Hr. apply DELS in Hr. exact (proj2 (HC _ (proj1 Hr))).
  Qed.

  Lemma on_block_none_inv : forall s c, cc s -> nrb s -> cc (on_block true s c None) /\ nrb (on_block true s c None).
  Proof.
    intros s c CC NRB. rewrite on_block_eq. cbv zeta.
    set (cached := match aget prefix_eqb (s_cache s) c with Some l => l | None => [] end).
    split.
    - intros key l A. cbn [s_cache set_cache] in A. rewrite aget_aremove in A. destruct (prefix_eqb c key) eqn:X; [discriminate|].
      rewrite (fold_cache true _ (or_intror (or_intror eq_refl))) in A.
      destruct (CC key l A) as (BKk & NDl & Hl). split; [exact BKk|]. split; [exact NDl|].
      intros r Hr. destruct (Hl r Hr) as [Cv Fd]. split; [exact Cv|]. cbn [s_trie set_cache]. rewrite fold_blk_clr_tget.
      destruct (has_dst (snd r) cached) eqn:HD; [|exact Fd]. exfalso.
      apply has_dst_true in HD. destruct HD as (n & Hn). unfold cached in Hn.
      destruct (aget prefix_eqb (s_cache s) c) as [lc|] eqn:Ac; [|destruct Hn].
      destruct (CC c lc Ac) as (BKc & _ & Hlc). destruct (Hlc _ Hn) as [Cc _]. simpl in Cc.
      pose proof (sep c key (snd r) BKc BKk Cc Cv) as Y. subst key. now rewrite prefix_eqb_refl in X.
    - intros n k. pose proof (nrb_fold_clr true cached s NRB n k) as H. exact H.
  Qed.
End Sep.
