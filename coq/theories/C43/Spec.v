(* C43 — what the property says, over the DATASTORE STATE (the fold of the history), independent of the
   resolver's trie / dirty-set machinery and of the route managers' bookkeeping:

     for every remote address block or (remote) borrowed address, the kernel route is a direct route via
     the owning node's address exactly when the pool is unencapsulated, or cross-subnet with that node in
     the local subnet; otherwise it is a route over the pool's tunnel device; local blocks get blackhole
     routes, never one whose destination is a local workload's own address; and all of this is a function
     of the final state only (whatever order the updates arrived in).

   [ok_kernel] is the boolean oracle applied to the kernel routes the REAL managers asked for. *)
From Coq Require Import List NArith Arith Bool.
From Verif.Common Require Import Prefix.
From Verif.C43 Require Import Model.
Import ListNotations.
Open Scope N_scope.

(* ------------------------------------------------------------------ datastore state = fold of the history *)

Record dstate := mkD {
  d_pools : list (prefix * poolv);
  d_blocks : list (prefix * blockv);
  d_nodes : list (N * nodev);
  d_weps : list (N * list prefix) }.
Definition d0 : dstate := mkD [] [] [] [].

Definition upd {K V} (e : K -> K -> bool) (m : list (K * V)) (k : K) (v : option V) : list (K * V) :=
  match v with Some x => aset e m k x | None => aremove e m k end.

Definition dstep (d : dstate) (o : op) : dstate :=
  match o with
  | OpPool c v => mkD (upd prefix_eqb (d_pools d) c v) (d_blocks d) (d_nodes d) (d_weps d)
  | OpBlock c v => mkD (d_pools d) (upd prefix_eqb (d_blocks d) c v) (d_nodes d) (d_weps d)
  | OpNode n v => mkD (d_pools d) (d_blocks d) (upd N.eqb (d_nodes d) n v) (d_weps d)
  | OpWep i cs => mkD (d_pools d) (d_blocks d) (d_nodes d)
                      (upd N.eqb (d_weps d) i (match cs with [] => None | _ => Some cs end))
  end.
Definition state_of (ops : list op) : dstate := fold_left dstep ops d0.

(* ------------------------------------------------------------------ vocabulary of the property *)

Inductive encap := Unencapsulated | IPIP | VXLAN | NotRouted (* load-balancer-only pool *).
Definition encap_of (p : poolv) : encap :=
  if pv_lb p then NotRouted
  else match pv_vxlan p, pv_ipip p with
       | Never, Never => Unencapsulated
       | Never, _ => IPIP
       | _, _ => VXLAN
       end.
Definition cross_subnet (p : poolv) : bool :=
  match pv_vxlan p, pv_ipip p with Cross, _ | _, Cross => true | _, _ => false end.

(* IPv4 address of a node, if the node is known and has one *)
Definition node_addr (d : dstate) (n : N) : option N :=
  match aget N.eqb (d_nodes d) n with Some (Some (a, _)) => Some a | _ => None end.
(* the local node's subnet *)
Definition local_subnet (d : dstate) : option prefix :=
  match aget N.eqb (d_nodes d) me with Some (Some (_, c)) => Some c | _ => None end.
Definition in_local_subnet (d : dstate) (n : N) : bool :=
  match local_subnet d, node_addr d n with
  | Some c, Some a => contains 32 c a
  | _, _ => false
  end.

(* remote blocks and remote borrowed addresses, each with its owning node *)
Definition block_dsts (c : prefix) (b : blockv) : list (prefix * N) :=
  (match bv_aff b with Some h => [(c, h)] | None => [] end)
  ++ flat_map (fun ah => match snd ah with
                         | Some h => if opt_eqb N.eqb (bv_aff b) (Some h) then [] else [(host32 (fst ah), h)]
                         | None => [] end) (bv_allocs b).
Definition all_dsts (d : dstate) : list (prefix * N) := flat_map (fun e => block_dsts (fst e) (snd e)) (d_blocks d).
Definition remote_dsts (d : dstate) : list (prefix * N) := filter (fun e => negb (N.eqb (snd e) me)) (all_dsts d).
Definition local_blocks (d : dstate) : list prefix :=
  flat_map (fun e => match bv_aff (snd e) with Some h => if N.eqb h me then [fst e] else [] | None => [] end) (d_blocks d).
Definition wep_addrs (d : dstate) : list prefix := flat_map snd (d_weps d).

(* the pool a destination belongs to *)
Definition pool_of (d : dstate) (c : prefix) : option poolv :=
  match filter (fun e => covers 32 (fst e) c) (d_pools d) with
  | e :: _ => Some (snd e)
  | [] => None
  end.

(* the route the property demands for destination c owned by the remote node h *)
Inductive demand :=
| Direct (mgr : N) (gw : N)          (* via the owning node's address, on the parent device *)
| Tunnel (mgr : N) (gw : N)          (* over the pool's tunnel device *)
| NoRoute.
Definition mgr_of (e : encap) : N := match e with Unencapsulated => 1 | VXLAN => 2 | IPIP => 3 | NotRouted => 0 end.

Definition demanded (d : dstate) (c : prefix) (h : N) : demand :=
  match pool_of d c with
  | None => NoRoute
  | Some p =>
      let e := encap_of p in
      match e with
      | NotRouted => NoRoute
      | _ =>
          let direct := match e with Unencapsulated => true | _ => cross_subnet p && in_local_subnet d h end in
          match node_addr d h with
          | Some a =>
              if direct then Direct (mgr_of e) a
              else match e with
                   | VXLAN => Tunnel 2 (vtep_addr h)      (* the owner's VTEP *)
                   | IPIP => Tunnel 3 a                   (* on-link over the IPIP device to the owner *)
                   | _ => NoRoute
                   end
          | None => NoRoute        (* owner's address unknown: nothing can be programmed yet *)
          end
      end
  end.

Definition kroute_of (c : prefix) (dm : demand) : list kroute :=
  match dm with
  | Direct m g => [mkK m 1 1 c (Some g)]
  | Tunnel m g => [mkK m 0 (if N.eqb m 2 then 2 else 3) c (Some g)]
  | NoRoute => []
  end.

(* ------------------------------------------------------------------ the states the datastore admits *)

Fixpoint pairwise {A} (f : A -> A -> bool) (l : list A) : bool :=
  match l with
  | [] => true
  | x :: l' => forallb (f x) l' && pairwise f l'
  end.
Definition disjoint (p q : prefix) : bool := negb (overlaps 32 p q).

Definition valid_state (d : dstate) : bool :=
  forallb (wfpb 32) (map fst (d_pools d)) && forallb (wfpb 32) (map fst (d_blocks d))
  && forallb (fun e => wfpb 32 (fst e) && negb (prefix_eqb (fst e) (host32 0))) (all_dsts d)
  && pairwise (fun a b => negb (N.eqb (fst a) (fst b))) (d_nodes d)
  && pairwise disjoint (map fst (d_pools d))
  && pairwise disjoint (map fst (d_blocks d))
  && pairwise (fun a b => negb (prefix_eqb (fst a) (fst b))) (all_dsts d)
  (* a block lies inside a pool or apart from all of them; allocations lie inside their block *)
  && forallb (fun b => forallb (fun p => covers 32 p b || disjoint p b) (map fst (d_pools d))) (map fst (d_blocks d))
  && forallb (fun e => forallb (fun ah => covers 32 (fst e) (host32 (fst ah))) (bv_allocs (snd e))) (d_blocks d)
  (* node addresses are not pod addresses; subnets are real subnets *)
  && forallb (fun e => match snd e with
                       | Some (a, c) => negb (N.eqb a 0) && negb (Nat.eqb (plen c) 0)
                                        && forallb (fun b => negb (covers 32 b (host32 a))) (map fst (d_blocks d))
                       | None => true end) (d_nodes d)
  (* a local workload's address does not cover a remote destination *)
  && forallb (fun w => forallb (fun e => negb (covers 32 w (fst e))) (remote_dsts d)) (wep_addrs d).

(* ------------------------------------------------------------------ oracle on the kernel routes *)

Definition routes_for (k : list kroute) (c : prefix) : list kroute :=
  filter (fun r => prefix_eqb (k_dst r) c && negb (N.eqb (k_class r) 2)) k.
Definition blackholes (k : list kroute) : list kroute := filter (fun r => N.eqb (k_class r) 2) k.

Definition subset {A} (e : A -> A -> bool) (a b : list A) := forallb (fun x => existsb (e x) b) a.
Definition same_set {A} (e : A -> A -> bool) (a b : list A) := subset e a b && subset e b a.

(* local blocks that must be blackholed by manager T.  A block that a local workload's own "address" covers (equal to
   it, or a shorter prefix: a workload endpoint whose IPv4Nets/IPv6Nets entry is not a host address) is not demanded:
   the resolver flags every route under such an address LocalWorkload and routeIsLocalBlock leaves it alone
   (c43_local_blocks_blackholed has the same hypothesis). *)
Definition demanded_blackholes (d : dstate) : list kroute :=
  flat_map (fun b => match pool_of d b with
                     | Some p => match encap_of p with
                                 | NotRouted => []
                                 | e => if Nat.eqb (plen b) 32 || existsb (fun w => covers 32 w b) (wep_addrs d) then []
                                        else [mkK (mgr_of e) 2 4 b None]
                                 end
                     | None => [] end) (local_blocks d).

Definition ok_kernel (d : dstate) (k : list kroute) : bool :=
  (* never, in any state: a blackhole whose destination is a local workload's own address, or a host route *)
  forallb (fun r => negb (existsb (prefix_eqb (k_dst r)) (wep_addrs d)) && negb (Nat.eqb (plen (k_dst r)) 32)) (blackholes k)
  && (if valid_state d then
        forallb (fun e => list_eqb kroute_eqb (routes_for k (fst e)) (kroute_of (fst e) (demanded d (fst e) (snd e)))) (remote_dsts d)
        && same_set kroute_eqb (blackholes k) (demanded_blackholes d)
      else true).

(* ------------------------------------------------------------------ correspondence case *)

(* the single-family history a dual-stack history amounts to *)
Definition proj4 (o : op2) : option op :=
  match o with
  | P2 false c v => Some (OpPool c v) | P2 true _ _ => None
  | B2 false c v => Some (OpBlock c v) | B2 true _ _ => None
  | N2 n v => Some (OpNode n (option_map fst v))
  | W2 id cs4 _ => Some (OpWep id cs4)
  end.
Definition proj6 (o : op2) : option op :=
  match o with
  | P2 true c v => Some (OpPool c v) | P2 false _ _ => None
  | B2 true c v => Some (OpBlock c v) | B2 false _ _ => None
  | N2 n v => Some (OpNode n (option_map snd v))
  | W2 id _ cs6 => Some (OpWep id cs6)
  end.
Definition ops_of (p : op2 -> option op) (ops : list op2) : list op :=
  flat_map (fun o => match p o with Some x => [x] | None => [] end) ops.

(* a dual-stack history with, per family, the accumulated route set of the real resolver and the kernel routes of
   the real managers (IPv6 prefixes and addresses by their last 32 bits under the driver's /96) *)
Record case := mkCase { c_fixed : bool; c_ops : list op2;
                        c_routes : list (prefix * route); c_kernel : list kroute;
                        c_routes6 : list (prefix * route); c_kernel6 : list kroute }.

Definition routes_eqb (m i : list (prefix * route)) : bool :=
  Nat.eqb (length m) (length i)
  && forallb (fun e => match aget prefix_eqb m (fst e) with Some r => route_eqb r (snd e) | None => false end) i.

(* host metadata / VTEPs the driver hands to the managers: the nodes that have an address in the final state *)
Definition peers_of (d : dstate) : list (N * N) :=
  flat_map (fun e => match snd e with Some (a, _) => [(fst e, a)] | None => [] end) (d_nodes d).

Definition kernel_agrees (d : dstate) (routes : list (prefix * route)) (k : list kroute) : bool :=
  same_set kroute_eqb (kernel (peers_of d) routes) k && Nat.eqb (length (kernel (peers_of d) routes)) (length k).

Definition check_case (c : case) : bool * bool :=
  let d4 := state_of (ops_of proj4 (c_ops c)) in
  let d6 := state_of (ops_of proj6 (c_ops c)) in
  let ss := run2 (c_fixed c) (c_ops c) in
  (routes_eqb (s_out (fst ss)) (c_routes c) && kernel_agrees d4 (c_routes c) (c_kernel c)
   && routes_eqb (s_out (snd ss)) (c_routes6 c) && kernel_agrees d6 (c_routes6 c) (c_kernel6 c),
   ok_kernel d4 (c_kernel c) && ok_kernel d6 (c_kernel6 c)).
