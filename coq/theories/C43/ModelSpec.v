(* C43 — the specification oracle accepts the model's own runs (the part about remote destinations). *)
From Coq Require Import List NArith Arith Bool Lia Permutation.
From Verif.Common Require Import Prefix.
From Verif.C43 Require Import Model MgrProofs FlushPerm Spec Final FinalProofs Reflag Peer PoolUpd Chain Fresh FreshOps NR Inv Link Link2 Link3 Link4 Link5 Link6 EndToEnd.
Import ListNotations.
Open Scope N_scope.

(* ---------------------------------------------------------------- the accumulated route set has one entry per CIDR *)
Definition out_nodup (s : st) : Prop := NoDup (map fst (s_out s)).

Lemma flush_out_nodup : forall s, out_nodup s -> out_nodup (flush s).
Proof.
  intros s H. unfold flush, out_nodup. cbn [s_out set_dirty].
  apply (fold_inv (fun x => NoDup (map fst (s_out x)))); [|exact H].
  intros s0 c H0. unfold flush_one. destruct (ri_is_zero _); [exact H0|]. destruct (_ && _); cbn [s_out set_out set_trie].
  - now apply (g_nodup_aremove prefix_eqb).
  - destruct (prefix_eqb c (host32 0)); [exact H0|]. cbn [s_out set_out set_trie]. now apply (g_nodup_aset prefix_eqb prefix_eqb_eq).
Qed.

Lemma out_nodup_fstep : forall s x, out_nodup s -> out_nodup (apply_fop true s x).
Proof.
  intros s [force o] H.
  assert (K : forall mid, @keepf unit _ (fun _ => tt) s_out s mid -> out_nodup (flush mid)).
  { intros mid [_ E]. apply flush_out_nodup. unfold out_nodup. now rewrite E. }
  destruct o as [c v|c v|n v|id cs]; destruct force; cbn [apply_fop]; unfold apply_op; apply K.
  all: try (apply keepf_on_pool; auto); try (apply keepf_on_block; auto); try (apply keepf_on_node; auto);
       try (apply keepf_on_wep; auto); try (apply keepf_on_node_forced; auto); try (apply keepf_on_wep_forced; auto).
Qed.

Lemma out_nodup_run : forall ops, out_nodup (run true ops).
Proof.
  intros ops. unfold run.
  assert (G : forall s, out_nodup s -> out_nodup (fold_left (apply_op true) ops s)).
  { induction ops as [|o ops IH]; intros s H; [exact H|]. cbn [fold_left]. apply IH. exact (out_nodup_fstep s (FOp false o) H). }
  apply G. constructor.
Qed.

(* ---------------------------------------------------------------- kernel routes of one destination *)
Lemma mgr_target_dst : forall T peers c r k, In k (mgr_target T peers c r) -> k_dst k = c /\ k_class k <> 2.
Proof.
  intros T peers c r k H. unfold mgr_target in H.
  destruct (if N.eqb T 1 || r_same r then r_ip r else None).
  - destruct H as [<-|[]]. split; [reflexivity|discriminate].
  - destruct (N.eqb T 2).
    + destruct (r_node r) as [n|]; [|destruct H]. destruct (N.eqb n me); [destruct H|].
      destruct (aget N.eqb peers n); [|destruct H]. destruct H as [<-|[]]. split; [reflexivity|discriminate].
    + destruct (N.eqb T 3); [|destruct H]. destruct (peer_addr peers (r_node r)); [|destruct H].
      destruct H as [<-|[]]. split; [reflexivity|discriminate].
Qed.

Definition sel (c : prefix) (k : kroute) : bool := prefix_eqb (k_dst k) c && negb (N.eqb (k_class k) 2).

Lemma filter_all : forall {A} (p : A -> bool) l, (forall x, In x l -> p x = true) -> filter p l = l.
Proof. induction l as [|a l IH]; intros H; [reflexivity|]. simpl. rewrite (H a) by now left. f_equal. apply IH. intros x Hx. apply H. now right. Qed.
Lemma filter_none : forall {A} (p : A -> bool) l, (forall x, In x l -> p x = false) -> filter p l = [].
Proof. induction l as [|a l IH]; intros H; [reflexivity|]. simpl. rewrite (H a) by now left. apply IH. intros x Hx. apply H. now right. Qed.

Lemma filter_flat_map_key : forall (f : prefix * route -> list kroute) (out : list (prefix * route)) c,
  NoDup (map fst out) ->
  (forall e k, In k (f e) -> k_dst k = fst e /\ k_class k <> 2) ->
  filter (sel c) (flat_map f out) = match aget prefix_eqb out c with Some r => f (c, r) | None => [] end.
Proof.
  intros f out c ND Hf. induction out as [|[k0 r0] out IH]; [reflexivity|]. simpl in ND. inversion ND as [|? ? NI ND']; subst.
  cbn [flat_map aget]. rewrite filter_app, (IH ND'). destruct (prefix_eqb k0 c) eqn:E.
  - apply prefix_eqb_eq in E. subst k0.
    assert (A : aget prefix_eqb out c = None).
    { destruct (aget prefix_eqb out c) eqn:X; [|reflexivity]. exfalso. apply NI. apply aget_In in X. change c with (fst (c, r)). now apply in_map. }
    rewrite A, app_nil_r. apply filter_all. intros k Hk. destruct (Hf _ _ Hk) as [D C]. unfold sel. simpl in D. rewrite D, prefix_eqb_refl.
    simpl. apply negb_true_iff, N.eqb_neq. exact C.
  - rewrite filter_none; [reflexivity|]. intros k Hk. destruct (Hf _ _ Hk) as [D _]. unfold sel. simpl in D. rewrite D, E. reflexivity.
Qed.

Lemma routes_for_kernel : forall peers out c, NoDup (map fst out) ->
  routes_for (kernel peers out) c = programmed_from (aget prefix_eqb out c) peers c.
Proof.
  intros peers out c ND. unfold routes_for, kernel, mgr_routes. fold (sel c).
  assert (BH : forall T, filter (sel c) (flat_map (fun e => if mgr_local_block T (fst e) (snd e) then [mkK T 2 4 (fst e) None] else []) out) = []).
  { intros T. apply filter_none. intros k Hk. apply in_flat_map in Hk. destruct Hk as (e & _ & Hk).
    destruct (mgr_local_block T (fst e) (snd e)); [|destruct Hk]. destruct Hk as [<-|[]]. unfold sel. simpl. now rewrite andb_false_r. }
  assert (KP : forall T, filter (sel c) (flat_map (fun e => if mgr_keeps T (snd e) then mgr_target T peers (fst e) (snd e) else []) out)
               = match aget prefix_eqb out c with Some r => if mgr_keeps T r then mgr_target T peers c r else [] | None => [] end).
  { intros T. rewrite (filter_flat_map_key _ out c ND); [reflexivity|].
    intros e k Hk. destruct (mgr_keeps T (snd e)); [|destruct Hk]. exact (mgr_target_dst _ _ _ _ _ Hk). }
  rewrite !filter_app, !BH, !KP, !app_nil_r. unfold programmed_from. destruct (aget prefix_eqb out c); [|reflexivity].
  simpl. now rewrite app_nil_r.
Qed.

Lemma kroute_eqb_refl : forall k, kroute_eqb k k = true.
Proof.
  intros [m c t d g]. unfold kroute_eqb. simpl. rewrite !N.eqb_refl, prefix_eqb_refl. destruct g; simpl; [now rewrite N.eqb_refl|reflexivity].
Qed.
Lemma list_eqb_refl : forall l, list_eqb kroute_eqb l l = true.
Proof. induction l as [|k l IH]; [reflexivity|]. simpl. now rewrite kroute_eqb_refl, IH. Qed.

(* the oracle's clause about remote destinations holds of every model run *)
Theorem model_meets_spec_remote : forall (BK : prefix -> Prop),
  (forall a b x, BK a -> BK b -> covers 32 a x = true -> covers 32 b x = true -> a = b) ->
  forall ops, Forall (hop_ok BK) ops -> Forall dop_ok ops ->
  let d := state_of ops in
  valid_state d = true ->
  forallb (fun e => list_eqb kroute_eqb (routes_for (kernel (peers_of d) (s_out (run true ops))) (fst e))
                                        (kroute_of (fst e) (demanded d (fst e) (snd e)))) (remote_dsts d) = true.
Proof.
  intros BK sep ops H1 H2 d V. apply forallb_forall. intros [c h] Hc. cbn [fst snd].
  pose proof (history_meets_demand BK sep ops H1 H2 V c h Hc) as HM. fold d in HM.
  rewrite (routes_for_kernel _ _ c (out_nodup_run ops)).
  rewrite HM. apply list_eqb_refl.
Qed.
