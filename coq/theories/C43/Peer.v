(* C43 — re-flagging completeness when a PEER node changes (both variants): a remote route indexed in
   nodeRoutes that was up to date before an update of any non-local node is up to date after it. *)
From Coq Require Import List NArith Arith Bool Lia Permutation.
From Verif.Common Require Import Prefix.
From Verif.C43 Require Import Model MgrProofs FlushPerm Spec Final FinalProofs Reflag.
Import ListNotations.
Open Scope N_scope.

Record same_nr (s0 s : st) : Prop := { snr : s_nr s = s_nr s0 }.

Lemma mark_dirty_nr : forall s c, s_nr (mark_dirty s c) = s_nr s.
Proof. intros s c. unfold mark_dirty. now destruct (existsb _ _). Qed.
Lemma update_cidr_nr : forall s c f, s_nr (fst (update_cidr s c f)) = s_nr s.
Proof. intros s c f. unfold update_cidr. destruct (rinfo_eqb _ _); simpl; [reflexivity|]. now rewrite mark_dirty_nr. Qed.
Lemma st2_nr : forall s n old, s_nr (st2 s n old) = s_nr s.
Proof. intros. unfold st2. destruct old as [i|]; [|reflexivity]. cbv zeta. destruct (N.eqb (ni_addr i) 0); [reflexivity|]. now rewrite update_cidr_nr. Qed.
Lemma st3_nr : forall s n new, s_nr (st3 s n new) = s_nr s.
Proof. intros. unfold st3. destruct new as [i|]; [|reflexivity]. cbv zeta. destruct (N.eqb (ni_addr i) 0); [reflexivity|]. now rewrite update_cidr_nr. Qed.

(* markAllNodeRoutesDirty marks every indexed route of the node *)
Definition mark_node (n : N) (s : st) (e : nroute * nat) : st := if N.eqb (fst (fst e)) n then mark_dirty s (snd (fst e)) else s.
Lemma mark_node_stage : forall n s e, stage s (mark_node n s e).
Proof. intros. unfold mark_node. destruct (N.eqb _ _); [apply stage_mark|apply stage_refl]. Qed.
Lemma st4_fold : forall s n, st4 s n = fold_left (mark_node n) (s_nr s) s.
Proof. reflexivity. Qed.
Lemma st4_marks : forall n k (c : nat) (l : list (nroute * nat)) s, In ((n, k), c) l ->
  In k (s_dirty (fold_left (mark_node n) l s)).
Proof.
  intros n k c. induction l as [|x l IH]; intros s H; [destruct H|]. simpl. destruct H as [->|H]; [|now apply IH].
  apply (sg_mono _ _ (stage_fold (mark_node n) l (mark_node_stage n) _)).
  unfold mark_node. simpl. rewrite N.eqb_refl. apply mark_dirty_in.
Qed.

Lemma nios_ext : forall n1 n2 n, aget N.eqb n1 me = aget N.eqb n2 me -> aget N.eqb n1 n = aget N.eqb n2 n ->
  node_in_our_subnet n1 (Some n) = node_in_our_subnet n2 (Some n).
Proof. intros n1 n2 n A B. unfold node_in_our_subnet. now rewrite A, B. Qed.

Theorem peer_update_complete : forall f s m v k po n,
  s_dirty s = [] -> wfp 32 k -> k <> host32 0 -> m <> me ->
  tget (s_trie s) k = mkRI po (Some n) [] 0 true -> n <> me ->
  (m = n -> exists c, In ((n, k), c) (s_nr s)) ->
  aget prefix_eqb (s_out s) k = Some (compute (s_trie s) (s_nodes s) k) ->
  let s' := apply_op f s (OpNode m v) in
  aget prefix_eqb (s_out s') k = Some (compute (s_trie s') (s_nodes s') k).
Proof.
  intros f s m v k po n HD W NZ Hm T Hn HNR FR s'. unfold s', apply_op. rewrite on_node_eq. cbv zeta.
  set (old := aget N.eqb (s_nodes s) m). set (new := option_map ninfo_of v).
  destruct (opt_eqb ninfo_eqb old new) eqn:U.
  { unfold flush. rewrite HD. simpl. exact FR. }
  assert (Em : N.eqb m me = false) by now apply N.eqb_neq.
  assert (S1 : st1 f s m old new = s) by (unfold st1; now rewrite Em).
  rewrite S1.
  set (s2 := st2 s m old). set (s3 := st3 s2 m new). set (mid := st4 s3 m).
  assert (SG3 : stage s s3) by (eapply stage_trans; [apply st2_stage|apply st3_stage]).
  assert (SG : stage s mid) by (eapply stage_trans; [exact SG3|apply st4_stage]).
  assert (MN : forall x, aget N.eqb (s_nodes mid) x = if N.eqb m x then new else aget N.eqb (s_nodes s) x).
  { intros x. pose proof (mid_nodes f s m new x) as Q. cbv zeta in Q. fold old in Q. rewrite S1 in Q. exact Q. }
  assert (ND : NoDup (s_dirty mid)) by (apply (sg_nodup _ _ SG); rewrite HD; constructor).
  assert (F0 : flushed mid [] mid) by (split; [reflexivity|intros x; split; [intros []|intros _; split; reflexivity]]).
  pose proof (fold_flushed mid (s_dirty mid) [] mid ND (fun _ _ X => X) F0) as FL. rewrite app_nil_r in FL.
  pose proof (flushed_same_but_sent _ _ _ FL) as SB. destruct FL as [NN H].
  unfold flush. simpl.
  rewrite (compute_sent_irrel _ _ _ k SB), NN.
  assert (B : ri_block (tget (s_trie mid) k) = Some n) by (rewrite (sg_block _ _ SG k), T; reflexivity).
  assert (E32 : anc k (plen k) = k) by (apply anc_self; exact W).
  apply prefix_eqb_neq in NZ.
  destruct (in_dec prefix_eq_dec k (s_dirty mid)) as [I|I].
  - destruct (proj1 (H k) (proj1 (in_rev _ _) I)) as [_ O]. rewrite O. unfold out_after.
    rewrite (valid_of_block _ _ B). unfold ri_is_zero. rewrite (valid_of_block _ _ B). simpl. rewrite !andb_false_r, NZ. reflexivity.
  - assert (I' : ~ In k (rev (s_dirty mid))) by (intros X; apply I; now apply in_rev).
    destruct (proj2 (H k) I') as [_ O]. rewrite O, (sg_out _ _ SG), FR. f_equal.
    unfold compute.
    assert (WK : walk (s_trie mid) k = walk (s_trie s) k).
    { apply walk_ext. intros l Hl. destruct (Nat.eq_dec l (plen k)) as [->|NE].
      - rewrite E32. destruct (sg_rel _ _ SG k) as [X|X]; [exact X|contradiction].
      - apply (sg_short _ _ SG). simpl. destruct W as [L32 _]. lia. }
    rewrite WK. symmetry.
    assert (NR3 : s_nr s3 = s_nr s) by (unfold s3, s2; now rewrite st3_nr, st2_nr).
    assert (Mn : m <> n).
    { intros X. destruct (HNR X) as (c & Hc). apply I. unfold mid. rewrite st4_fold, NR3, X.
      exact (st4_marks n k c (s_nr s) s3 Hc). }
    assert (E1 : N.eqb m n = false) by now apply N.eqb_neq.
    assert (E2 : N.eqb m me = false) by exact Em.
    apply (finish_ext _ _ _ n (walk_node _ k po n true E32 T Hn)).
    + rewrite MN, E1. reflexivity.
    + apply nios_ext; rewrite MN; [now rewrite E2|now rewrite E1].
Qed.
