(* C43 — property theorems only. *)
From Coq Require Import List NArith Arith Bool.
From Verif.Common Require Import Prefix.
From Verif.C43 Require Import Model Spec Proofs.
Import ListNotations.
Open Scope N_scope.

(* routeManager.updateRoutes: a kept route goes to the parent device (direct, via the owner's address)
   exactly when the manager is the no-encap one or the route is flagged SameSubnet, and the owner's
   address is known; everything else it programs is on the tunnel device. *)
Theorem c43_mgr_direct_iff : forall T peers c r k,
  In k (mgr_target T peers c r) ->
  k_class k = 1 <-> ((T = 1 \/ r_same r = true) /\ exists g, r_ip r = Some g /\ k = mkK T 1 1 c (Some g)).
Proof. exact mgr_target_direct. Qed.
Print Assumptions c43_mgr_direct_iff.
