(* C43 — property theorems only.

   d ranges over datastore states (pools, blocks with affinity and allocations, nodes, local workloads);
   [valid_state d] says d is a state the datastore admits (Spec.v); [remote_dsts d] are the remote blocks
   and remote borrowed addresses with their owners; [desired d c] is the RouteUpdate the resolver's flush
   computes for CIDR c when its trie holds d (Final.v: the trie entry of every prefix as a function of d,
   then the same walk / finish as Model.flush); [programmed d c] are the kernel routes the vxlan / ipip /
   noencap managers derive from that RouteUpdate (Model.mgr_keeps, Model.mgr_target); [demanded d c h] is
   what the property text asks for (Spec.v). *)
From Coq Require Import List NArith Arith Bool.
From Verif.Common Require Import Prefix.
From Coq Require Import Permutation.
From Verif.C43 Require Import Model Spec Proofs Final FinalProofs Blackhole MgrProofs FlushPerm Reflag Peer PoolUpd Chain Fresh FreshOps NR Inv Link Link2 Link3 Link4 Link5 Link6 EndToEnd Dual ModelSpec Order.
Import ListNotations.
Open Scope N_scope.

(* For every admitted state and every remote block or borrowed address, the managers program exactly the
   route the property demands (direct / tunnel / nothing while the owner's address is unknown). *)
Theorem c43_remote_route_meets_demand : forall d c h, valid_state d = true -> In (c, h) (remote_dsts d) ->
  programmed d c = kroute_of c (demanded d c h).
Proof. exact remote_route_meets_demand. Qed.
Print Assumptions c43_remote_route_meets_demand.

(* Direct route via the owning node's address (on the parent device, by the pool's manager) EXACTLY WHEN
   the pool is unencapsulated, or cross-subnet with that node in the local subnet (and the owner's address
   is known, and the pool is not a load-balancer-only pool). *)
Theorem c43_direct_iff_noencap_or_same_subnet : forall d c h, valid_state d = true -> In (c, h) (remote_dsts d) ->
  forall m g,
  programmed d c = [mkK m 1 1 c (Some g)] <->
  exists p, pool_of d c = Some p /\ encap_of p <> NotRouted /\ m = mgr_of (encap_of p) /\ node_addr d h = Some g
            /\ (encap_of p = Unencapsulated \/ cross_subnet p && in_local_subnet d h = true).
Proof. exact direct_iff. Qed.
Print Assumptions c43_direct_iff_noencap_or_same_subnet.

(* Otherwise a route over the pool's tunnel device: via the owner's VTEP for VXLAN, on-link to the owner's
   address over the IPIP device for IPIP. *)
Theorem c43_tunnel_otherwise : forall d c h p a, valid_state d = true -> In (c, h) (remote_dsts d) ->
  pool_of d c = Some p -> node_addr d h = Some a ->
  cross_subnet p && in_local_subnet d h = false ->
  (encap_of p = VXLAN -> programmed d c = [mkK 2 0 2 c (Some (vtep_addr h))])
  /\ (encap_of p = IPIP -> programmed d c = [mkK 3 0 3 c (Some a)]).
Proof. exact tunnel_otherwise. Qed.
Print Assumptions c43_tunnel_otherwise.

(* In EVERY state (admitted or not): a CIDR whose route a manager turns into a blackhole is never a local
   workload's own address and never a /32. *)
Theorem c43_blackhole_excludes_local_wep : forall d c r T, wfp 32 c ->
  desired d c = Some r -> mgr_local_block T c r = true -> ~ In c (wep_addrs d) /\ plen c <> 32%nat.
Proof. exact blackhole_excludes_local_wep. Qed.
Print Assumptions c43_blackhole_excludes_local_wep.

(* Local blocks get blackhole routes: on every admitted state a local block that is not a /32, that no local
   workload address covers, inside a routed pool, is blackholed by that pool's manager. *)
Theorem c43_local_blocks_blackholed : forall d b p, valid_state d = true ->
  In b (local_blocks d) -> plen b <> 32%nat ->
  (forall w, In w (wep_addrs d) -> covers 32 w b = false) ->
  pool_of d b = Some p -> encap_of p <> NotRouted ->
  exists r, desired d b = Some r /\ mgr_local_block (mgr_of (encap_of p)) b r = true.
Proof. exact local_blocks_blackholed. Qed.
Print Assumptions c43_local_blocks_blackholed.

(* Order independence of the MANAGER stage: after ANY stream of RouteUpdate / RouteRemove messages (re-sent,
   reordered, withdrawn) routesByDest and localIPAMBlocks are exactly the kept routes of the route set the
   stream amounts to. *)
Theorem c43_mgr_state_function_of_route_set : forall T msgs,
  mgr_agrees T (fold_left (mgr_on_update T) msgs (mkM [] [])) (fold_left acc_msg msgs []).
Proof. exact mgr_state_function_of_route_set. Qed.
Print Assumptions c43_mgr_state_function_of_route_set.

(* flush() ranges over the Go set dirtyCIDRs in an unspecified order: for EVERY order of the (duplicate-free)
   dirty set the trie and the accumulated route set come out the same (each dirty CIDR's outcome is determined
   by the state before the flush). *)
Theorem c43_flush_order_independent : forall s l1 l2, NoDup l1 -> Permutation l1 l2 ->
  let s1 := fold_left flush_one l1 s in
  let s2 := fold_left flush_one l2 s in
  s_nodes s1 = s_nodes s2
  /\ (forall k, tget (s_trie s1) k = tget (s_trie s2) k)
  /\ (forall k, aget prefix_eqb (s_out s1) k = aget prefix_eqb (s_out s2) k).
Proof. exact flush_order_independent. Qed.
Print Assumptions c43_flush_order_independent.

(* routeManager.updateRoutes on any kept RouteUpdate: parent-device (direct) target exactly when the manager
   is the no-encap one or the update is flagged SameSubnet, and the owner's address is known. *)
Theorem c43_mgr_direct_iff : forall T peers c r k,
  In k (mgr_target T peers c r) ->
  k_class k = 1 <-> ((T = 1 \/ r_same r = true) /\ exists g, r_ip r = Some g /\ k = mkK T 1 1 c (Some g)).
Proof. exact mgr_target_direct. Qed.
Print Assumptions c43_mgr_direct_iff.

(* ORDER INDEPENDENCE — refuted for the pinned code (model variant fixed = false): two histories with the
   same admitted final state end with different kernel routes; the history in which the local node is first
   known without an IPv4 address keeps a tunnel route where the function of the state is the direct route.
   Replayed on the real code (driver case script:local-v6only-then-v4); known-findings.txt; repaired by
   fixes/C43-reflag-unset-local-subnet.patch. *)
Theorem c43_order_independent_refuted :
  exists ops c h, valid_state (state_of ops) = true /\ In (c, h) (remote_dsts (state_of ops))
    /\ routes_for (kernel_after false ops) c <> programmed (state_of ops) c.
Proof. exact order_refuted_vs_function_of_state. Qed.
Print Assumptions c43_order_independent_refuted.

Theorem c43_order_independent_refuted_two_histories :
  state_of hist_gain = state_of hist_plain /\ valid_state (state_of hist_gain) = true
  /\ kernel_after false hist_gain <> kernel_after false hist_plain.
Proof. exact order_refuted_two_histories. Qed.
Print Assumptions c43_order_independent_refuted_two_histories.

(* The mirror image: after the local node loses its IPv4 address the pinned code keeps the direct route. *)
Theorem c43_order_independent_refuted_stale_direct :
  valid_state (state_of hist_lose) = true /\ In (w_block, 1) (remote_dsts (state_of hist_lose))
  /\ routes_for (kernel_after false hist_lose) w_block = [mkK 2 1 1 w_block (Some 2886729995)]
  /\ programmed (state_of hist_lose) w_block = [mkK 2 0 2 w_block (Some (vtep_addr 1))].
Proof. exact order_refuted_stale_direct. Qed.
Print Assumptions c43_order_independent_refuted_stale_direct.

(* ORDER INDEPENDENCE, what IS proved of the incremental resolver (model of the event-driven code, every state s,
   not only reachable ones).  A route for CIDR k is "up to date" in s when the accumulated route set holds exactly
   what flush() would compute from the current trie and node table.  For a CIDR whose own trie entry is a block /
   borrowed-address entry of a remote node n (no host, no local workload on it) that has been sent:

   (1) an update of the LOCAL node (address, subnet, appearing, disappearing, IPv4 appearing / disappearing) keeps
       it up to date -- for the REPAIRED re-flagging walk (fixed = true); false for the pinned code, see the
       refutations above; *)
Theorem c43_reflag_complete_local_node : forall s v k po n,
  s_dirty s = [] -> wfp 32 k -> k <> host32 0 ->
  tget (s_trie s) k = mkRI po (Some n) [] 0 true -> n <> me ->
  aget prefix_eqb (s_out s) k = Some (compute (s_trie s) (s_nodes s) k) ->
  let s' := apply_op true s (OpNode me v) in
  aget prefix_eqb (s_out s') k = Some (compute (s_trie s') (s_nodes s') k).
Proof. exact reflag_complete. Qed.
Print Assumptions c43_reflag_complete_local_node.

(* (2) an update of any PEER node m keeps it up to date, provided the route is indexed in nodeRoutes when m is
       its owner (OnBlockUpdate adds that index entry together with the trie entry); both variants; *)
Theorem c43_reflag_complete_peer_node : forall f s m v k po n,
  s_dirty s = [] -> wfp 32 k -> k <> host32 0 -> m <> me ->
  tget (s_trie s) k = mkRI po (Some n) [] 0 true -> n <> me ->
  (m = n -> exists c, In ((n, k), c) (s_nr s)) ->
  aget prefix_eqb (s_out s) k = Some (compute (s_trie s) (s_nodes s) k) ->
  let s' := apply_op f s (OpNode m v) in
  aget prefix_eqb (s_out s') k = Some (compute (s_trie s') (s_nodes s') k).
Proof. exact peer_update_complete. Qed.
Print Assumptions c43_reflag_complete_peer_node.

(* (3) any IP pool update or deletion (mode flip, cross-subnet flip, pool appearing around or disappearing from
       around k) keeps it up to date; both variants. *)
Theorem c43_reflag_complete_pool : forall f s c v k po n,
  s_dirty s = [] -> wfp 32 k -> k <> host32 0 ->
  tget (s_trie s) k = mkRI po (Some n) [] 0 true ->
  aget prefix_eqb (s_out s) k = Some (compute (s_trie s) (s_nodes s) k) ->
  let s' := apply_op f s (OpPool c v) in
  aget prefix_eqb (s_out s') k = Some (compute (s_trie s') (s_nodes s') k).
Proof. exact pool_update_complete. Qed.
Print Assumptions c43_reflag_complete_pool.

(* (4) (superseded by (5)-(6), kept because it holds for EVERY start state, not only reachable ones) along EVERY history of node and pool updates -- any order, reverts,
       deletions, the local node gaining / losing its IPv4 subnet, peers moving between subnets, pool modes
       flipping -- a sent remote block / borrowed-address route stays exactly what flush() computes from the
       current trie and node table, i.e. the result does not depend on the order in which those updates arrived
       (repaired variant; [good] = dirty set empty, k's own entry is a sent block entry of remote node n indexed in
       nodeRoutes, and the route is up to date; [op_ok]: node or pool update, no node takes k as its address). *)
Theorem c43_node_pool_history_keeps_fresh : forall ops s k n, wfp 32 k -> k <> host32 0 -> n <> me ->
  good s k n -> Forall (op_ok k) ops -> good (fold_left (apply_op true) ops s) k n.
Proof. exact node_pool_history_keeps_fresh. Qed.
Print Assumptions c43_node_pool_history_keeps_fresh.

Example c43_good_reachable : good (run true hist_plain) w_block 1.
Proof.
  split; [vm_compute; reflexivity|]. split; [eexists; vm_compute; reflexivity|].
  split; [exists 1%nat; vm_compute; auto|vm_compute; reflexivity].
Qed.

(* (5) NO STALE ROUTES, every update kind: along EVERY history of pool, block, node and local-workload updates
       (current tree, fixed = true) the resolver keeps its invariant [inv] (Inv.v): the dirty set is empty
       between updates; nodeRoutes reference counts cover every block / workload route; blockToRoutes agrees with
       the trie; workload reference counts never underflow; and [out_ok]: a CIDR without route information has
       no route downstream, and every workload / block route (every CIDR that is not a node's own address)
       held downstream is exactly what flush() computes from the CURRENT trie and node table -- whatever order
       the updates arrived in.  Hypotheses on the history, stated explicitly: block keys never overlap ([sep]:
       no address range lies inside two different block keys of the history); each block value has distinct
       route destinations, all inside the block ([blk_ok]); workload addresses are /32. *)
Theorem c43_no_stale_routes : forall (BK : prefix -> Prop),
  (forall a b x, BK a -> BK b -> covers 32 a x = true -> covers 32 b x = true -> a = b) ->
  forall ops, Forall (hop_ok BK) ops -> inv BK (run true ops).
Proof. exact inv_history. Qed.
Print Assumptions c43_no_stale_routes.

(* (6) c43_order_independent — ORDER INDEPENDENCE at full strength for the current tree (fixed = true):
       after ANY history of pool, block, node and local-workload updates (any order, reverts, deletions,
       repeated and out-of-order arrival) the route set held downstream is the FUNCTION OF THE FINAL DATASTORE
       STATE [state_of ops] (Spec.v: the fold of the history): a CIDR about which the final state says nothing has
       no route, and every block / borrowed-address / workload route equals [desired (state_of ops) k] (Final.v),
       the RouteUpdate computed from the state alone -- the same function the theorems c43_remote_route_meets_demand,
       c43_direct_iff_noencap_or_same_subnet, c43_tunnel_otherwise and the blackhole theorems are about.
       Proof: the invariant [joint] (Link6.v) = [inv] of (5) + the trie, the node table, allPools, blockToRoutes and
       workloadIDToCIDRs are the images of the datastore state.
       Hypotheses on the history, all explicit:
         - [sep]: BLOCK KEYS NEVER OVERLAP - no address range lies inside two different block keys of the history;
         - [hop_ok]: every block update uses a key of BK and its routes have distinct destinations inside the block;
           workload addresses are /32;
         - [dop_ok]: the destinations of a block value (its CIDR and its non-affine allocations) are pairwise distinct.
       Scope of the conclusion: CIDRs that are not a node's own address in the final state ([hosts_at] = []) and that
       carry a block route or a local workload; these are the routes the route managers consume (a host's own /32
       keeps SameSubnet of its pool un-re-flagged when the local subnet changes; route managers ignore host routes),
       pure pool CIDR routes are covered by (5) only. *)
Theorem c43_order_independent : forall (BK : prefix -> Prop),
  (forall a b x, BK a -> BK b -> covers 32 a x = true -> covers 32 b x = true -> a = b) ->
  forall ops, Forall (hop_ok BK) ops -> Forall dop_ok ops ->
  forall k, wfp 32 k ->
    (ri_valid (entry (state_of ops) k) = false -> aget prefix_eqb (s_out (run true ops)) k = None)
    /\ (hosts_at (state_of ops) k = [] -> (block_at (state_of ops) k <> None \/ wep_at (state_of ops) k <> O) ->
        aget prefix_eqb (s_out (run true ops)) k = desired (state_of ops) k).
Proof. exact order_independent. Qed.
Print Assumptions c43_order_independent.

(* (7) END TO END, the property as stated: after ANY history (hypotheses of (6)) whose final datastore state is one
       the datastore admits, for every remote block or borrowed address the kernel routes the vxlan / ipip / noencap
       managers derive from the route the resolver holds downstream are exactly the demanded ones (direct via the owner
       iff the pool is unencapsulated or cross-subnet with the owner in the local subnet, else the pool's tunnel route),
       and every local non-/32 block in a routed pool is blackholed by that pool's manager -- whatever order the node,
       pool, block and workload updates arrived in. *)
Theorem c43_history_meets_demand : forall (BK : prefix -> Prop),
  (forall a b x, BK a -> BK b -> covers 32 a x = true -> covers 32 b x = true -> a = b) ->
  forall ops, Forall (hop_ok BK) ops -> Forall dop_ok ops ->
  let d := state_of ops in
  valid_state d = true -> forall c h, In (c, h) (remote_dsts d) ->
  programmed_from (aget prefix_eqb (s_out (run true ops)) c) (peers_of d) c = kroute_of c (demanded d c h).
Proof. exact history_meets_demand. Qed.
Print Assumptions c43_history_meets_demand.

Theorem c43_history_blackholes_local_blocks : forall (BK : prefix -> Prop),
  (forall a b x, BK a -> BK b -> covers 32 a x = true -> covers 32 b x = true -> a = b) ->
  forall ops, Forall (hop_ok BK) ops -> Forall dop_ok ops ->
  let d := state_of ops in
  valid_state d = true -> forall b p, In b (local_blocks d) -> plen b <> 32%nat ->
  (forall w, In w (wep_addrs d) -> covers 32 w b = false) ->
  pool_of d b = Some p -> encap_of p <> NotRouted ->
  exists r, aget prefix_eqb (s_out (run true ops)) b = Some r /\ mgr_local_block (mgr_of (encap_of p)) b r = true.
Proof. exact history_blackholes_local_blocks. Qed.
Print Assumptions c43_history_blackholes_local_blocks.

(* (8) DUAL STACK.  The resolver keeps one trie per IP family; a node carries an address + subnet of each family
       and a workload endpoint a list of each, and the "no change" tests of onNodeUpdate / OnWorkloadUpdate range
       over BOTH families, so a part that did not change is still re-processed when the other family's part did
       (Model.run2: the pair of two single-family instances with such updates forced through, Model.apply_fop).
       After ANY dual-stack history each family's downstream route set is the function of THAT family's final
       datastore state -- in particular a single local-node update that changes the IPv4 and the IPv6 subnet at
       once re-flags the routes of both families.  Hypotheses per family as in (6). *)
Theorem c43_order_independent_dual : forall (BK4 BK6 : prefix -> Prop),
  (forall a b x, BK4 a -> BK4 b -> covers 32 a x = true -> covers 32 b x = true -> a = b) ->
  (forall a b x, BK6 a -> BK6 b -> covers 32 a x = true -> covers 32 b x = true -> a = b) ->
  forall ops, family_ok BK4 (ops_of proj4 ops) -> family_ok BK6 (ops_of proj6 ops) ->
  is_function_of_state (fst (run2 true ops)) (state_of (ops_of proj4 ops))
  /\ is_function_of_state (snd (run2 true ops)) (state_of (ops_of proj6 ops)).
Proof. exact order_independent_dual. Qed.
Print Assumptions c43_order_independent_dual.

(* (9) MODEL MEETS SPEC, PARTIAL: the clause of the specification oracle [ok_kernel] about remote blocks / borrowed
       addresses (the kernel routes the managers program for each of them, read off the whole kernel-route list, are
       exactly the demanded ones) holds of EVERY run of the model whose final state the datastore admits.
       Missing for the full [ok_kernel (state_of ops) (kernel ... (s_out (run true ops))) = true]: the clause
       "the blackholes are exactly the demanded ones" needs (a) "no other CIDR of the route set carries LOCAL_WORKLOAD
       without a local workload", i.e. freshness of pure pool CIDR routes (outside [fset], see (5)/(6)), and (b) the
       converse direction of c43_history_blackholes_local_blocks on the list level.  The lemma that is missing is:
       forall k, ri_pool (entry d k) <> None -> block_at d k = None -> wep_at d k = 0 -> hosts_at d k = [] ->
       r_types of the held route of k = 0 (pool-only CIDRs never turn into block routes). *)
Theorem c43_model_meets_spec_partial : forall (BK : prefix -> Prop),
  (forall a b x, BK a -> BK b -> covers 32 a x = true -> covers 32 b x = true -> a = b) ->
  forall ops, Forall (hop_ok BK) ops -> Forall dop_ok ops ->
  let d := state_of ops in
  valid_state d = true ->
  forallb (fun e => list_eqb kroute_eqb (routes_for (kernel (peers_of d) (s_out (run true ops))) (fst e))
                                        (kroute_of (fst e) (demanded d (fst e) (snd e)))) (remote_dsts d) = true.
Proof. exact model_meets_spec_remote. Qed.
Print Assumptions c43_model_meets_spec_partial.

(* the hypotheses are satisfiable by a history with reverts, a borrowed address, a local workload and the local
   node losing and regaining its IPv4 subnet; and on it the theorem's conclusion is the direct route of (1) *)
Definition ex_hist : list op :=
  [w_me; w_peer; w_pl; OpBlock w_block (Some (mkBlock (Some 1) [(167837699, Some 2)])); OpWep 0 [mkP 167837701 32];
   OpNode 0 (Some None); OpPool w_pool (Some (mkPool Always Never false)); w_pl; w_me; OpBlock w_block (Some (mkBlock (Some 1) []))].
Example c43_order_independent_hyps :
  let BK := fun p => p = w_block in
  (forall a b x, BK a -> BK b -> covers 32 a x = true -> covers 32 b x = true -> a = b)
  /\ Forall (hop_ok BK) ex_hist /\ Forall dop_ok ex_hist
  /\ aget prefix_eqb (s_out (run true ex_hist)) w_block = desired (state_of ex_hist) w_block
  /\ desired (state_of ex_hist) w_block = Some (mkRoute 1 2 (Some 1) (Some 2886729995) true false false).
Proof.
  cbv zeta. split; [intros a b x -> ->; reflexivity|].
  split.
  { repeat constructor; simpl; auto; try (intros c [<-|[]]; reflexivity);
      try (intros r H; simpl in H; repeat (destruct H as [<-|H]; [vm_compute; reflexivity|]); destruct H);
      try (intros [X|X]; [discriminate X|destruct X]); try (intros []). }
  split.
  { repeat constructor; simpl; auto; try (intros [X|X]; [discriminate X|destruct X]); try (intros []). }
  split; vm_compute; reflexivity.
Qed.

(* on the refutation witnesses the current tree does reach the function of the state: *)
Example c43_order_witnesses_fixed :
  routes_for (kernel_after true hist_gain) w_block = programmed (state_of hist_gain) w_block
  /\ routes_for (kernel_after true hist_lose) w_block = programmed (state_of hist_lose) w_block
  /\ kernel_after true hist_gain = kernel_after true hist_plain.
Proof. exact order_witnesses_fixed. Qed.

(* Non-vacuity of the hypotheses of the first three theorems. *)
Example c43_example_state :
  valid_state ex_state = true
  /\ remote_dsts ex_state = [(w_block, 1); (mkP 167837765 32, 2)]
  /\ programmed ex_state w_block = [mkK 2 1 1 w_block (Some 2886729995)]
  /\ programmed ex_state (mkP 167837765 32) = [mkK 2 0 2 (mkP 167837765 32) (Some (vtep_addr 2))]
  /\ blackholes (kernel (peers_of ex_state) (resolve ex_state)) = [mkK 2 2 4 (mkP 167837760 26) None].
Proof. exact ex_state_ok. Qed.
