(* C43 — proofs about the function-of-state resolver (Final.v) on the states the datastore admits. *)
From Coq Require Import List NArith Arith Bool Lia.
From Verif.Common Require Import Prefix.
From Verif.C43 Require Import Model Spec.
From Verif.C43 Require Import Final.
Import ListNotations.
Open Scope N_scope.

(* ---- part Final2.v ---- *)

Lemma forallb_map : forall {A B} (f : A -> B) (g : B -> bool) (l : list A),
  forallb g (map f l) = forallb (fun x => g (f x)) l.
Proof. induction l as [|a l IH]; simpl; [reflexivity|now rewrite IH]. Qed.
Lemma pairwise_map : forall {A B} (f : A -> B) (R : B -> B -> bool) (l : list A),
  pairwise R (map f l) = pairwise (fun x y => R (f x) (f y)) l.
Proof.
  induction l as [|a l IH]; simpl; [reflexivity|]. now rewrite IH, forallb_map.
Qed.

Lemma aget_some_of_In : forall {V} (m : list (prefix * V)) k v, In (k, v) m -> exists v', aget prefix_eqb m k = Some v'.
Proof.
  induction m as [|[k' v'] m IH]; simpl; intros k v H; [destruct H|].
  destruct (prefix_eqb k' k) eqn:E; [eauto|].
  destruct H as [H|H]; [inversion H; subst; rewrite prefix_eqb_refl in E; discriminate|eauto].
Qed.

Record valid_facts (d : dstate) : Prop := mkVF {
  vf_pools_wf : forall e, In e (d_pools d) -> wfp 32 (fst e);
  vf_blocks_wf : forall e, In e (d_blocks d) -> wfp 32 (fst e);
  vf_dsts_wf : forall e, In e (all_dsts d) -> wfp 32 (fst e) /\ fst e <> host32 0;
  vf_nodes_uniq : pairwise (fun a b => negb (N.eqb (fst a) (fst b))) (d_nodes d) = true;
  vf_pools_disj : pairwise (fun x y => disjoint (fst x) (fst y)) (d_pools d) = true;
  vf_dsts_uniq : pairwise (fun a b => negb (prefix_eqb (fst a) (fst b))) (all_dsts d) = true;
  vf_allocs_in : forall e ah, In e (d_blocks d) -> In ah (bv_allocs (snd e)) -> covers 32 (fst e) (host32 (fst ah)) = true;
  vf_nodes : forall n a c, In (n, Some (a, c)) (d_nodes d) ->
             a <> 0 /\ plen c <> O /\ forall e, In e (d_blocks d) -> covers 32 (fst e) (host32 a) = false;
  vf_weps : forall w e, In w (wep_addrs d) -> In e (remote_dsts d) -> covers 32 w (fst e) = false }.

Lemma valid_state_facts : forall d, valid_state d = true -> valid_facts d.
Proof.
  intros d V. unfold valid_state in V.
  repeat (apply andb_true_iff in V; let H := fresh "V" in destruct V as [V H]).
  rewrite forallb_forall in *.
  constructor.
  - intros e He. apply wfpb_spec, V. now apply in_map.
  - intros e He. apply wfpb_spec, V9. now apply in_map.
  - intros e He. specialize (V8 e He). apply andb_true_iff in V8. destruct V8 as [A B].
    split; [now apply wfpb_spec|]. intros E. rewrite E, prefix_eqb_refl in B. discriminate.
  - exact V7.
  - now rewrite pairwise_map in V6.
  - exact V4.
  - intros e ah He Ha. specialize (V2 e He). rewrite forallb_forall in V2. now apply V2.
  - intros n a c Hn. specialize (V1 _ Hn). simpl in V1.
    apply andb_true_iff in V1. destruct V1 as [V1 C]. apply andb_true_iff in V1. destruct V1 as [A B].
    split; [|split].
    + intros E. subst a. discriminate.
    + intros E. rewrite E in B. discriminate.
    + intros e He. rewrite forallb_forall in C. specialize (C (fst e) (in_map fst _ _ He)).
      now apply negb_true_iff in C.
  - intros w e Hw He. specialize (V0 w Hw). rewrite forallb_forall in V0. specialize (V0 e He).
    now apply negb_true_iff in V0.
Qed.

(* ---- part Final3.v ---- *)

Lemma existsb_false : forall {A} (f : A -> bool) l, (forall x, In x l -> f x = false) -> existsb f l = false.
Proof.
  induction l as [|a l IH]; simpl; intros H; [reflexivity|].
  rewrite (H a) by now left. simpl. apply IH. intros x Hx. apply H. now right.
Qed.

Lemma has_type_lor1 : forall x y, N.eqb (N.land (N.lor x (N.lor y 1)) 1) 1 = true.
Proof.
  intros x y. apply N.eqb_eq. apply N.bits_inj. intros n.
  rewrite N.land_spec, !N.lor_spec. destruct n as [|p].
  - simpl. now rewrite !orb_true_r.
  - replace (N.testbit 1 (N.pos p)) with false by (destruct p; reflexivity). now rewrite andb_false_r.
Qed.

Lemma step_block_last : forall A po h, h <> me ->
  let a' := step true A (mkRI po (Some h) [] 0 false) in
  a_node a' = Some h /\ a_bseen a' = true /\ a_hashost a' = a_hashost A
  /\ a_btypes a' = N.lor (a_btypes A) 1 /\ a_types a' = a_types A.
Proof.
  intros A po h Hh. assert (E : N.eqb h me = false) by now apply N.eqb_neq.
  destruct po; unfold step; simpl; rewrite E; repeat split; reflexivity.
Qed.

Section Valid.
  Variable d : dstate.
  Hypothesis F : valid_facts d.

  Lemma pool_unique : forall c e1 e2, wfp 32 c -> In e1 (d_pools d) -> In e2 (d_pools d) ->
    covers 32 (fst e1) c = true -> covers 32 (fst e2) c = true -> e1 = e2.
  Proof.
    intros c e1 e2 Wc H1 H2 C1 C2.
    assert (W1 := vf_pools_wf d F e1 H1). assert (W2 := vf_pools_wf d F e2 H2).
    apply (pairwise_unique _ _ e1 e2 (vf_pools_disj d F) H1 H2); unfold disjoint, overlaps; apply negb_false_iff, orb_true_iff;
      destruct (Nat.le_ge_cases (plen (fst e1)) (plen (fst e2))) as [L|L].
    - left. exact (covers_chain 32 _ _ _ W1 W2 Wc C1 C2 L).
    - right. exact (covers_chain 32 _ _ _ W2 W1 Wc C2 C1 L).
    - right. exact (covers_chain 32 _ _ _ W1 W2 Wc C1 C2 L).
    - left. exact (covers_chain 32 _ _ _ W2 W1 Wc C2 C1 L).
  Qed.

  Lemma dst_in_block : forall c h, In (c, h) (all_dsts d) -> exists e, In e (d_blocks d) /\ covers 32 (fst e) c = true.
  Proof.
    intros c h H. unfold all_dsts in H. apply in_flat_map in H. destruct H as (e & He & H).
    exists e. split; [exact He|]. unfold block_dsts in H. apply in_app_or in H. destruct H as [H|H].
    - destruct (bv_aff (snd e)); [|destruct H]. destruct H as [H|[]]. inversion H; subst.
      apply covers_refl. exact (vf_blocks_wf d F e He).
    - apply in_flat_map in H. destruct H as (ah & Ha & H).
      destruct (snd ah) as [h0|]; [|destruct H].
      destruct (opt_eqb N.eqb (bv_aff (snd e)) (Some h0)); [destruct H|].
      destruct H as [H|[]]. inversion H; subst. exact (vf_allocs_in d F e ah He Ha).
  Qed.

  Lemma block_at_dst : forall c h, In (c, h) (all_dsts d) -> block_at d c = Some h.
  Proof.
    intros c h H. unfold block_at. destruct (filter (fun e => prefix_eqb (fst e) c) (all_dsts d)) as [|e r] eqn:E.
    - pose proof (filter_nil_In _ _ _ E H) as X. simpl in X. rewrite prefix_eqb_refl in X. discriminate.
    - destruct (filter_head_In _ _ _ _ E) as [I P].
      assert (e = (c, h)).
      { apply (pairwise_unique _ _ e (c, h) (vf_dsts_uniq d F) I H); simpl; apply negb_false_iff; [exact P|].
        now rewrite prefix_eqb_sym. }
      now subst e.
  Qed.

  Lemma hosts_at_in_block : forall c e, In e (d_blocks d) -> covers 32 (fst e) c = true -> hosts_at d c = [].
  Proof.
    intros c e He C. unfold hosts_at. rewrite flat_map_nil; [reflexivity|].
    intros [n [[a s]|]] Hn; simpl; [|reflexivity].
    destruct (negb (N.eqb a 0) && prefix_eqb (host32 a) c) eqn:X; [|reflexivity]. exfalso.
    apply andb_true_iff in X. destruct X as [_ X]. apply prefix_eqb_eq in X. subst c.
    destruct (vf_nodes d F n a s Hn) as (_ & _ & Hb). rewrite (Hb e He) in C. discriminate.
  Qed.

  Lemma hosts_at_short : forall k, plen k <> 32%nat -> hosts_at d k = [].
  Proof.
    intros k Hk. unfold hosts_at. rewrite flat_map_nil; [reflexivity|].
    intros [n [[a s]|]] Hn; simpl; [|reflexivity].
    replace (prefix_eqb (host32 a) k) with false; [now rewrite andb_false_r|].
    unfold prefix_eqb. change (plen (host32 a)) with 32%nat. symmetry. apply andb_false_iff. right. apply Nat.eqb_neq. lia.
  Qed.

  Lemma wep_at_remote : forall c h, wfp 32 c -> In (c, h) (remote_dsts d) -> wep_at d c = O.
  Proof.
    intros c h W H. unfold wep_at. destruct (filter (prefix_eqb c) (wep_addrs d)) as [|p r] eqn:E; [reflexivity|].
    destruct (filter_head_In _ _ _ _ E) as [I P]. apply prefix_eqb_eq in P. subst p.
    pose proof (vf_weps d F c (c, h) I H) as X. simpl in X. rewrite (covers_refl 32 c W) in X. discriminate.
  Qed.

  Lemma pool_of_some : forall c pv, pool_of d c = Some pv -> exists p, In (p, pv) (d_pools d) /\ covers 32 p c = true.
  Proof.
    intros c pv H. unfold pool_of in H.
    destruct (filter (fun e => covers 32 (fst e) c) (d_pools d)) as [|[p pv'] r] eqn:E; [discriminate|].
    destruct (filter_head_In _ _ _ _ E) as [I P]. inversion H; subst. exists p. split; assumption.
  Qed.
  Lemma pool_of_none : forall c, pool_of d c = None -> forall e, In e (d_pools d) -> covers 32 (fst e) c = false.
  Proof.
    intros c H e He. unfold pool_of in H.
    destruct (filter (fun e => covers 32 (fst e) c) (d_pools d)) as [|x r] eqn:E; [|discriminate].
    exact (filter_nil_In _ _ _ E He).
  Qed.

  Lemma path_pool_at : forall c l pi, (l <= plen c)%nat -> wfp 32 c -> pool_at d (anc c l) = Some pi ->
    exists pv, In (anc c l, pv) (d_pools d) /\ pi = pinfo_of pv /\ covers 32 (anc c l) c = true.
  Proof.
    intros c l pi L W H. unfold pool_at in H. destruct (aget prefix_eqb (d_pools d) (anc c l)) as [pv|] eqn:E; [|discriminate].
    simpl in H. inversion H; subst. exists pv. split; [now apply aget_In|]. split; [reflexivity|now apply anc_covers].
  Qed.

  Lemma walk_pool : forall c, wfp 32 c ->
    a_ptype (dwalk d c) = match pool_of d c with Some pv => pool_type pv | None => 0 end
    /\ a_cross (dwalk d c) = match pool_of d c with Some pv => pool_cross pv | None => false end.
  Proof.
    intros c W. rewrite dwalk_wfold. destruct (pool_of d c) as [pv|] eqn:PO.
    - destruct (pool_of_some _ _ PO) as (p & Hin & Hc).
      assert (Wp := vf_pools_wf d F _ Hin). simpl in Wp.
      destruct (wfold_ptype_cross (pinfo_of pv) (path_ents d c (seq 0 (S (plen c)))) acc0) as [A B].
      { intros e He. unfold path_ents in He. apply in_map_iff in He. destruct He as (l & <- & Hl). apply in_seq in Hl.
        simpl. change (pool_at d (anc c l) = None \/ pool_at d (anc c l) = Some (pinfo_of pv)).
        destruct (pool_at d (anc c l)) as [pi|] eqn:PA; [right|now left].
        destruct (path_pool_at c l pi ltac:(lia) W PA) as (pv' & Hin' & -> & Hc').
        assert (X : (anc c l, pv') = (p, pv)) by (apply (pool_unique c); auto).
        inversion X; subst. reflexivity. }
      rewrite A, B.
      assert (X : existsb (fun e => ri_has_pool (snd e)) (path_ents d c (seq 0 (S (plen c)))) = true).
      { apply existsb_exists. exists (Nat.eqb (plen p) (plen c), entry d (anc c (plen p))). split.
        - unfold path_ents. apply in_map_iff. exists (plen p). split; [reflexivity|]. apply in_seq.
          pose proof (covers_len 32 _ _ Hc). lia.
        - simpl. unfold ri_has_pool. simpl. rewrite (covers_anc p c Wp W Hc). unfold pool_at.
          destruct (aget_some_of_In _ _ _ Hin) as (v' & Hv). rewrite Hv. reflexivity. }
      rewrite X. simpl. split; [|reflexivity].
      destruct (N.eqb (pool_type pv) 0) eqn:Z; simpl; [|reflexivity]. apply N.eqb_eq in Z. now rewrite Z.
    - destruct (wfold_ptype_cross (mkPI 0 false) (path_ents d c (seq 0 (S (plen c)))) acc0) as [A B].
      { intros e He. unfold path_ents in He. apply in_map_iff in He. destruct He as (l & <- & Hl). apply in_seq in Hl.
        simpl. change (pool_at d (anc c l) = None \/ pool_at d (anc c l) = Some (mkPI 0 false)).
        destruct (pool_at d (anc c l)) as [pi|] eqn:PA; [exfalso|now left].
        destruct (path_pool_at c l pi ltac:(lia) W PA) as (pv' & Hin' & _ & Hc').
        pose proof (pool_of_none c PO _ Hin') as Y. simpl in Y. rewrite Y in Hc'. discriminate. }
      rewrite A, B. simpl. rewrite !andb_false_r. split; reflexivity.
  Qed.

  Lemma walk_no_host_above : forall c, (plen c <= 32)%nat ->
    a_hashost (wfold (path_ents d c (seq 0 (plen c))) acc0) = false.
  Proof.
    intros c L. rewrite wfold_hashost. simpl. apply existsb_false.
    intros e He. unfold path_ents in He. apply in_map_iff in He. destruct He as (l & <- & Hl). apply in_seq in Hl.
    simpl. unfold ri_has_host. simpl. rewrite hosts_at_short; [reflexivity|]. simpl. lia.
  Qed.

  Definition ip_of_node (h : N) : option N :=
    match aget N.eqb (dnodes d) h with
    | Some i => if N.eqb (ni_addr i) 0 then None else Some (ni_addr i)
    | None => None end.

  (* the route of a remote block / remote borrowed address, from the state *)
  Lemma remote_route : forall c h, In (c, h) (remote_dsts d) ->
    exists r, desired d c = Some r /\ has_type r T_REMOTE_WORKLOAD = true
      /\ r_pool r = match pool_of d c with Some pv => pool_type pv | None => 0 end
      /\ r_node r = Some h /\ r_ip r = ip_of_node h
      /\ r_same r = match pool_of d c with Some pv => pool_cross pv | None => false end && node_in_our_subnet (dnodes d) (Some h).
  Proof.
    intros c h H. unfold remote_dsts in H. pose proof H as HR. apply filter_In in H. destruct H as [HA Hh]. simpl in Hh.
    apply negb_true_iff, N.eqb_neq in Hh.
    destruct (vf_dsts_wf d F _ HA) as [W NZ]. simpl in W, NZ.
    destruct (dst_in_block c h HA) as (e & He & Ce).
    assert (EN : entry d c = mkRI (pool_at d c) (Some h) [] 0 false).
    { unfold entry. rewrite (block_at_dst c h HA), (hosts_at_in_block c e He Ce), (wep_at_remote c h W HR). reflexivity. }
    unfold desired. rewrite EN.
    assert (V : ri_valid (mkRI (pool_at d c) (Some h) [] 0 false) = true) by (unfold ri_valid; simpl; destruct (pool_at d c); reflexivity).
    rewrite V. apply prefix_eqb_neq in NZ. rewrite NZ. simpl. eexists. split; [reflexivity|].
    pose proof (dwalk_last d c W) as DL. rewrite EN in DL.
    destruct (step_block_last (wfold (path_ents d c (seq 0 (plen c))) acc0) (pool_at d c) h Hh) as (N1 & N2 & N3 & N4 & N5).
    rewrite <- DL in N1, N2, N3, N4, N5.
    rewrite (walk_no_host_above c) in N3 by (destruct W; lia).
    destruct (walk_pool c W) as [P1 P2].
    unfold finish, has_type. simpl. rewrite N1, N2, N3, N4, P1, P2. simpl.
    repeat split. apply has_type_lor1.
  Qed.

  Lemma dnodes_get : forall n, aget N.eqb (dnodes d) n = option_map ninfo_of (aget N.eqb (d_nodes d) n).
  Proof. intros n. unfold dnodes. apply agetN_map. Qed.

  Lemma ip_of_node_spec : forall h, ip_of_node h = node_addr d h.
  Proof.
    intros h. unfold ip_of_node, node_addr. rewrite dnodes_get.
    destruct (aget N.eqb (d_nodes d) h) as [[[a s]|]|] eqn:G; simpl; try reflexivity.
    apply agetN_In in G. destruct (vf_nodes d F h a s G) as (Ha & _). apply N.eqb_neq in Ha. now rewrite Ha.
  Qed.

  Lemma nios_spec : forall h a, node_addr d h = Some a ->
    node_in_our_subnet (dnodes d) (Some h) = in_local_subnet d h.
  Proof.
    intros h a NA. unfold node_in_our_subnet, in_local_subnet, local_subnet. rewrite NA. unfold node_addr in NA.
    rewrite !dnodes_get.
    destruct (aget N.eqb (d_nodes d) h) as [[[a1 s1]|]|] eqn:G1; try discriminate. inversion NA; subst a1.
    destruct (aget N.eqb (d_nodes d) me) as [[[a0 s0]|]|] eqn:G0; simpl; try reflexivity.
    apply agetN_In in G0. destruct (vf_nodes d F me a0 s0 G0) as (_ & Hs & _).
    replace (prefix_eqb s0 zero_cidr) with false; [reflexivity|].
    unfold prefix_eqb. change (plen zero_cidr) with O. symmetry. apply andb_false_iff. right. now apply Nat.eqb_neq.
  Qed.

  Lemma peers_notin : forall (m : list (N * nodev)) h, (forall e, In e m -> fst e <> h) ->
    aget N.eqb (flat_map (fun e => match snd e with Some (a, _) => [(fst e, a)] | None => [] end) m) h = None.
  Proof.
    induction m as [|[k v] m IH]; simpl; intros h H; [reflexivity|].
    assert (K : k <> h) by (apply (H (k, v)); now left).
    assert (R := IH h (fun e He => H e (or_intror He))).
    destruct v as [[a s]|]; simpl; [|exact R]. apply N.eqb_neq in K. now rewrite K.
  Qed.

  Lemma peers_get : forall (m : list (N * nodev)) h, pairwise (fun a b => negb (N.eqb (fst a) (fst b))) m = true ->
    aget N.eqb (flat_map (fun e => match snd e with Some (a, _) => [(fst e, a)] | None => [] end) m) h
    = match aget N.eqb m h with Some (Some (a, _)) => Some a | _ => None end.
  Proof.
    induction m as [|[k v] m IH]; simpl; intros h P; [reflexivity|].
    apply andb_true_iff in P. destruct P as [P1 P2]. rewrite forallb_forall in P1.
    destruct (N.eqb k h) eqn:K.
    - apply N.eqb_eq in K. subst k. destruct v as [[a s]|]; simpl.
      + now rewrite N.eqb_refl.
      + apply peers_notin. intros e He E. specialize (P1 e He). simpl in P1. rewrite E, N.eqb_refl in P1. discriminate.
    - destruct v as [[a s]|]; simpl; [rewrite K|]; now apply IH.
  Qed.

  Lemma peers_spec : forall h, aget N.eqb (peers_of d) h = node_addr d h.
  Proof. intros h. unfold peers_of, node_addr. apply peers_get. exact (vf_nodes_uniq d F). Qed.
End Valid.

(* ---- part Final4.v ---- *)

Opaque vtep_addr.

(* the kernel routes the three managers program for destination c in state d *)
Definition programmed (d : dstate) (c : prefix) : list kroute :=
  match desired d c with
  | Some r => flat_map (fun T => if mgr_keeps T r then mgr_target T (peers_of d) c r else []) [1; 2; 3]
  | None => []
  end.

Lemma mgr_target_eval : forall T peers c ty po h ipo sm bo lw, h <> me ->
  mgr_target T peers c (mkRoute ty po (Some h) ipo sm bo lw) =
  match (if N.eqb T 1 || sm then ipo else None) with
  | Some g => [mkK T 1 1 c (Some g)]
  | None => if N.eqb T 2 then match aget N.eqb peers h with Some _ => [mkK 2 0 2 c (Some (vtep_addr h))] | None => [] end
            else if N.eqb T 3 then match aget N.eqb peers h with Some a => [mkK 3 0 3 c (Some a)] | None => [] end
            else []
  end.
Proof.
  intros T peers c ty po h ipo sm bo lw Hh. apply N.eqb_neq in Hh. unfold mgr_target, peer_addr. simpl. rewrite Hh. reflexivity.
Qed.

Lemma pool_type_encap : forall pv, pool_type pv = mgr_of (encap_of pv).
Proof. intros [[] [] []]; reflexivity. Qed.
Lemma pool_cross_spec : forall pv, pool_cross pv = cross_subnet pv.
Proof. intros [[] [] []]; reflexivity. Qed.

Section Valid.
  Variable d : dstate.
  Hypothesis F : valid_facts d.

  Lemma kernel_remote : forall c h T, In (c, h) (remote_dsts d) -> T = 1 \/ T = 2 \/ T = 3 ->
    exists r, desired d c = Some r /\
      (if mgr_keeps T r then mgr_target T (peers_of d) c r else [])
      = filter (fun k => N.eqb (k_mgr k) T) (kroute_of c (demanded d c h)).
  Proof.
    intros c h T H HT.
    assert (Hh : h <> me).
    { unfold remote_dsts in H. apply filter_In in H. destruct H as [_ X]. simpl in X. now apply negb_true_iff, N.eqb_neq in X. }
    destruct (remote_route d F c h H) as (r & D & Hty & HP & HN & HI & HS).
    exists r. split; [exact D|].
    destruct r as [ty po nd ipo sm bo lw]. simpl in HP, HN, HI, HS. subst nd.
    unfold mgr_keeps. rewrite Hty. simpl r_pool. rewrite andb_true_l.
    rewrite (mgr_target_eval T (peers_of d) c ty po h ipo sm bo lw Hh).
    rewrite (peers_spec d F h). rewrite (ip_of_node_spec d F h) in HI. subst ipo po sm.
    unfold demanded.
    destruct (pool_of d c) as [pv|].
    - rewrite pool_type_encap, pool_cross_spec.
      destruct (node_addr d h) as [a|] eqn:NA.
      + rewrite (nios_spec d F h a NA).
        destruct pv as [[] [] []]; destruct (in_local_subnet d h); destruct HT as [-> | [-> | ->]]; reflexivity.
      + destruct pv as [[] [] []]; destruct (node_in_our_subnet (dnodes d) (Some h)); destruct HT as [-> | [-> | ->]]; reflexivity.
    - destruct HT as [-> | [-> | ->]]; reflexivity.
  Qed.

  Lemma demanded_mgr : forall c h,
    match demanded d c h with
    | Direct m _ | Tunnel m _ => m = 1 \/ m = 2 \/ m = 3
    | NoRoute => True
    end.
  Proof.
    intros c h. unfold demanded. destruct (pool_of d c) as [[[] [] []]|]; simpl; auto;
      destruct (node_addr d h); simpl; auto; destruct (in_local_subnet d h); simpl; auto.
  Qed.

  (* main: the routes programmed for a remote block / remote borrowed address are exactly the demanded ones *)
  Lemma remote_meets_demand : forall c h, In (c, h) (remote_dsts d) ->
    programmed d c = kroute_of c (demanded d c h).
  Proof.
    intros c h H. unfold programmed.
    destruct (kernel_remote c h 1 H (or_introl eq_refl)) as (r & D & K1).
    destruct (kernel_remote c h 2 H (or_intror (or_introl eq_refl))) as (r2 & D2 & K2).
    destruct (kernel_remote c h 3 H (or_intror (or_intror eq_refl))) as (r3 & D3 & K3).
    rewrite D in *. inversion D2; inversion D3; subst r2 r3. simpl. rewrite K1, K2, K3, app_nil_r.
    pose proof (demanded_mgr c h) as M. destruct (demanded d c h) as [m g|m g|]; simpl; [| |reflexivity];
      destruct M as [-> | [-> | ->]]; reflexivity.
  Qed.
End Valid.

(* ------------------------------------------------------------------ blackholes: every state *)

Lemma wep_at_pos : forall d c, In c (wep_addrs d) -> wep_at d c <> O.
Proof.
  intros d c H. unfold wep_at.
  assert (I : In c (filter (prefix_eqb c) (wep_addrs d))) by (apply filter_In; split; [exact H|apply prefix_eqb_refl]).
  destruct (filter (prefix_eqb c) (wep_addrs d)); [destruct I|simpl; discriminate].
Qed.

Lemma blackhole_excludes_local_wep : forall d c r T, wfp 32 c ->
  desired d c = Some r -> mgr_local_block T c r = true -> ~ In c (wep_addrs d) /\ plen c <> 32%nat.
Proof.
  intros d c r T W D B. unfold mgr_local_block in B.
  apply andb_true_iff in B. destruct B as [B B4]. apply andb_true_iff in B. destruct B as [B B3].
  apply negb_true_iff in B3. apply negb_true_iff, Nat.eqb_neq in B4. split; [|exact B4].
  intros Hin. unfold desired in D. destruct (ri_valid (entry d c) && negb (prefix_eqb c (host32 0))); [|discriminate].
  inversion D; subst r. unfold finish in B3. simpl in B3.
  rewrite (dwalk_last d c W), step_localw in B3. apply orb_false_iff in B3. destruct B3 as [_ B3].
  apply negb_false_iff, Nat.eqb_eq in B3. simpl in B3. exact (wep_at_pos d c Hin B3).
Qed.

(* ---- part Final5.v ---- *)

Lemma kroute_of_direct : forall c dm m g, kroute_of c dm = [mkK m 1 1 c (Some g)] <-> dm = Direct m g.
Proof.
  intros c dm m g. destruct dm as [m0 g0|m0 g0|]; simpl; split; intros X; try discriminate; inversion X; subst; reflexivity.
Qed.

Lemma demanded_direct : forall d c h m g,
  demanded d c h = Direct m g <->
  exists p, pool_of d c = Some p /\ encap_of p <> NotRouted /\ m = mgr_of (encap_of p) /\ node_addr d h = Some g
            /\ (encap_of p = Unencapsulated \/ cross_subnet p && in_local_subnet d h = true).
Proof.
  intros d c h m g. unfold demanded. destruct (pool_of d c) as [p|]; [|split; [discriminate|intros (p & E & _); discriminate]].
  cbv zeta.
  destruct (encap_of p) eqn:EE; simpl; destruct (node_addr d h) as [a|] eqn:NA;
    try destruct (cross_subnet p && in_local_subnet d h) eqn:CS; simpl;
    (split;
     [ intros X; try discriminate X; inversion X; subst; exists p; rewrite EE; repeat split; auto; try discriminate
     | intros (p' & E1 & NR & -> & E2 & Hd); inversion E1; subst p'; rewrite EE in *;
       try (exfalso; apply NR; reflexivity); try discriminate E2; inversion E2; subst;
       destruct Hd as [X|X]; try discriminate; try congruence; reflexivity ]).
Qed.

Theorem direct_iff : forall d c h, valid_state d = true -> In (c, h) (remote_dsts d) -> forall m g,
  programmed d c = [mkK m 1 1 c (Some g)] <->
  exists p, pool_of d c = Some p /\ encap_of p <> NotRouted /\ m = mgr_of (encap_of p) /\ node_addr d h = Some g
            /\ (encap_of p = Unencapsulated \/ cross_subnet p && in_local_subnet d h = true).
Proof.
  intros d c h V H m g. rewrite (remote_meets_demand d (valid_state_facts d V) c h H), kroute_of_direct. apply demanded_direct.
Qed.

Theorem tunnel_otherwise : forall d c h p a, valid_state d = true -> In (c, h) (remote_dsts d) ->
  pool_of d c = Some p -> node_addr d h = Some a ->
  cross_subnet p && in_local_subnet d h = false ->
  (encap_of p = VXLAN -> programmed d c = [mkK 2 0 2 c (Some (vtep_addr h))])
  /\ (encap_of p = IPIP -> programmed d c = [mkK 3 0 3 c (Some a)]).
Proof.
  intros d c h p a V H HP NA CS. rewrite (remote_meets_demand d (valid_state_facts d V) c h H).
  unfold demanded. rewrite HP. cbv zeta. split; intros E; rewrite E; simpl; rewrite NA, CS; reflexivity.
Qed.

Theorem remote_route_meets_demand : forall d c h, valid_state d = true -> In (c, h) (remote_dsts d) ->
  programmed d c = kroute_of c (demanded d c h).
Proof. intros d c h V H. exact (remote_meets_demand d (valid_state_facts d V) c h H). Qed.
