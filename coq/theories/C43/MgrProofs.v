(* C43 — the route manager's pending maps after ANY stream of RouteUpdate / RouteRemove messages are a
   function of the route set the stream amounts to (so re-sent, reordered and withdrawn routes leave nothing behind). *)
From Coq Require Import List NArith Arith Bool.
From Verif.Common Require Import Prefix.
From Verif.C43 Require Import Model.
Import ListNotations.
Open Scope N_scope.

Lemma aget_aset : forall {V} (m : list (prefix * V)) k v k',
  aget prefix_eqb (aset prefix_eqb m k v) k' = if prefix_eqb k k' then Some v else aget prefix_eqb m k'.
Proof.
  induction m as [|[k0 v0] m IH]; intros k v k'; simpl.
  - reflexivity.
  - destruct (prefix_eqb k0 k) eqn:E; simpl.
    + apply prefix_eqb_eq in E. subst k0. destruct (prefix_eqb k k'); reflexivity.
    + rewrite IH. destruct (prefix_eqb k0 k') eqn:E2; [|reflexivity].
      apply prefix_eqb_eq in E2. subst k0. rewrite prefix_eqb_sym in E. now rewrite E.
Qed.
Lemma aget_aremove : forall {V} (m : list (prefix * V)) k k',
  aget prefix_eqb (aremove prefix_eqb m k) k' = if prefix_eqb k k' then None else aget prefix_eqb m k'.
Proof.
  induction m as [|[k0 v0] m IH]; intros k k'; simpl.
  - now destruct (prefix_eqb k k').
  - destruct (prefix_eqb k0 k) eqn:E; simpl.
    + apply prefix_eqb_eq in E. subst k0. rewrite IH. destruct (prefix_eqb k k'); reflexivity.
    + rewrite IH. destruct (prefix_eqb k0 k') eqn:E2; [|reflexivity].
      apply prefix_eqb_eq in E2. subst k0. rewrite prefix_eqb_sym in E. now rewrite E.
Qed.

Definition mgr_agrees (T : N) (m : mst) (out : list (prefix * route)) : Prop :=
  forall c,
    aget prefix_eqb (m_rbd m) c = match aget prefix_eqb out c with Some r => if mgr_keeps T r then Some r else None | None => None end
    /\ aget prefix_eqb (m_lb m) c = match aget prefix_eqb out c with Some r => if mgr_local_block T c r then Some r else None | None => None end.

Lemma mgr_step_agrees : forall T m out x, mgr_agrees T m out -> mgr_agrees T (mgr_on_update T m x) (acc_msg out x).
Proof.
  intros T m out x H c. destruct (H c) as [H1 H2]. destruct x as [k r|k]; simpl.
  - rewrite aget_aset. destruct (prefix_eqb k c) eqn:E.
    + apply prefix_eqb_eq in E. subst k. split.
      * destruct (mgr_keeps T r); [now rewrite aget_aset, prefix_eqb_refl|now rewrite aget_aremove, prefix_eqb_refl].
      * destruct (mgr_local_block T c r); [now rewrite aget_aset, prefix_eqb_refl|now rewrite aget_aremove, prefix_eqb_refl].
    + split.
      * destruct (mgr_keeps T r); [rewrite aget_aset, E|]; rewrite aget_aremove, E; exact H1.
      * destruct (mgr_local_block T k r); [rewrite aget_aset, E|]; rewrite aget_aremove, E; exact H2.
  - rewrite !aget_aremove. destruct (prefix_eqb k c); [split; reflexivity|split; assumption].
Qed.

Theorem mgr_state_function_of_route_set : forall T msgs,
  mgr_agrees T (fold_left (mgr_on_update T) msgs (mkM [] [])) (fold_left acc_msg msgs []).
Proof.
  intros T msgs.
  assert (G : forall m out, mgr_agrees T m out ->
              mgr_agrees T (fold_left (mgr_on_update T) msgs m) (fold_left acc_msg msgs out)).
  { induction msgs as [|x msgs IH]; intros m out H; simpl; [exact H|]. apply IH. now apply mgr_step_agrees. }
  apply G. intros c. simpl. split; reflexivity.
Qed.
