From Coq Require Import List NArith Arith Bool Lia Permutation.
From Verif.Common Require Import Prefix.
From Verif.C43 Require Import Model MgrProofs FlushPerm Spec Final FinalProofs Reflag Peer PoolUpd Chain.
From Verif.C43 Require Import Fresh.
Import ListNotations.
Open Scope N_scope.

(* ---------------------------------------------------------------- the node table is only touched by node updates *)

Lemma block_upd_nodes : forall f s c b, s_nodes (block_upd f s c b) = s_nodes s.
Proof.
  intros f s c b. unfold block_upd. destruct (update_cidr s c (fun ri => with_block ri b)) as [s1 ch] eqn:U.
  assert (N1 : s_nodes s1 = s_nodes s) by (pose proof (update_cidr_nodes s c (fun ri => with_block ri b)) as X; now rewrite U in X).
  destruct (f && ch && negb (Nat.eqb (plen c) 32)); [|exact N1].
  destruct (mark_children_inv s1 c) as (_ & MN & _). now rewrite MN.
Qed.
Lemma nr_add_nodes : forall s r, s_nodes (nr_add s r) = s_nodes s.
Proof. reflexivity. Qed.
Lemma nr_remove_nodes : forall s r, s_nodes (nr_remove s r) = s_nodes s.
Proof. intros s r. unfold nr_remove. destruct (aget _ _ _) as [[|[|n]]|]; reflexivity. Qed.

Definition blk_del (f : bool) (s : st) (r : nroute) : st := nr_remove (block_upd f s (snd r) None) r.
Definition blk_add (f : bool) (s : st) (r : nroute) : st := nr_add (block_upd f s (snd r) (Some (fst r))) r.
Definition blk_clr (f : bool) (s : st) (r : nroute) : st := block_upd f s (snd r) None.
Lemma on_block_eq : forall f s c v,
  on_block f s c v =
  match v with
  | Some b =>
      let new := routes_from_block c b in
      let cached := match aget prefix_eqb (s_cache s) c with Some l => l | None => [] end in
      let keep := filter (fun r => existsb (nroute_eqb r) new) cached in
      let dels := filter (fun r => negb (existsb (nroute_eqb r) new)) cached in
      let adds := filter (fun r => negb (existsb (nroute_eqb r) keep)) new in
      fold_left (blk_add f) adds (fold_left (blk_del f) dels (set_cache s (aset prefix_eqb (s_cache s) c (keep ++ adds))))
  | None =>
      let cached := match aget prefix_eqb (s_cache s) c with Some l => l | None => [] end in
      let s1 := fold_left (blk_clr f) cached s in
      set_cache s1 (aremove prefix_eqb (s_cache s1) c)
  end.
Proof. intros f s c v. destruct v; reflexivity. Qed.
Lemma fold_blk_nodes : forall f g, (g = blk_del f \/ g = blk_add f \/ g = blk_clr f) -> forall l s, s_nodes (fold_left g l s) = s_nodes s.
Proof.
  intros f g Hg. induction l as [|x l IH]; intros s; [reflexivity|]. cbn [fold_left]. rewrite IH.
  destruct Hg as [-> | [-> | ->]]; unfold blk_del, blk_add, blk_clr; now rewrite ?nr_remove_nodes, ?nr_add_nodes, block_upd_nodes.
Qed.
Lemma on_block_nodes : forall f s c v, s_nodes (on_block f s c v) = s_nodes s.
Proof.
  intros f s c v. rewrite on_block_eq. destruct v as [b|]; cbv zeta.
  - rewrite (fold_blk_nodes f _ (or_intror (or_introl eq_refl))), (fold_blk_nodes f _ (or_introl eq_refl)). reflexivity.
  - cbn [s_nodes set_cache]. now rewrite (fold_blk_nodes f _ (or_intror (or_intror eq_refl))).
Qed.
Definition wep_add (s : st) (c : prefix) : st := nr_add (fst (update_cidr s c (fun r => with_wep r (S (ri_wep r))))) (me, c).
Definition wep_rem (s : st) (c : prefix) : st := nr_remove (fst (update_cidr s c (fun r => with_wep r (pred (ri_wep r))))) (me, c).
Lemma on_wep_eq : forall s id cs,
  on_wep s id cs =
  let old := match aget N.eqb (s_weps s) id with Some l => l | None => [] end in
  if list_eqb prefix_eqb old cs then s else
  let s1 := fold_left wep_rem old (fold_left wep_add cs s) in
  match cs with [] => set_weps s1 (aremove N.eqb (s_weps s1) id) | _ => set_weps s1 (aset N.eqb (s_weps s1) id cs) end.
Proof. reflexivity. Qed.
Lemma fold_add_nodes : forall l s, s_nodes (fold_left wep_add l s) = s_nodes s.
Proof.
  induction l as [|x l IH]; intros s; simpl; [reflexivity|]. rewrite IH. unfold wep_add. now rewrite nr_add_nodes, update_cidr_nodes.
Qed.
Lemma fold_rem_nodes : forall l s, s_nodes (fold_left wep_rem l s) = s_nodes s.
Proof.
  induction l as [|x l IH]; intros s; simpl; [reflexivity|]. rewrite IH. unfold wep_rem. now rewrite nr_remove_nodes, update_cidr_nodes.
Qed.
Lemma on_wep_forced_eq : forall s id cs,
  on_wep_forced s id cs =
  let old := match aget N.eqb (s_weps s) id with Some l => l | None => [] end in
  let s1 := fold_left wep_rem old (fold_left wep_add cs s) in
  match cs with [] => set_weps s1 (aremove N.eqb (s_weps s1) id) | _ => set_weps s1 (aset N.eqb (s_weps s1) id cs) end.
Proof. reflexivity. Qed.
Lemma on_wep_forced_nodes : forall s id cs, s_nodes (on_wep_forced s id cs) = s_nodes s.
Proof.
  intros s id cs. rewrite on_wep_forced_eq. cbv zeta.
  destruct cs; cbn [s_nodes set_weps]; now rewrite fold_rem_nodes, fold_add_nodes.
Qed.
Lemma on_wep_nodes : forall s id cs, s_nodes (on_wep s id cs) = s_nodes s.
Proof. intros s id cs. unfold on_wep. destruct (wep_unchanged s id cs); [reflexivity|apply on_wep_forced_nodes]. Qed.

(* ---------------------------------------------------------------- node updates *)

(* the nodeRoutes index covers every workload / block route *)
Definition nr_cov (s : st) : Prop := forall n k,
  (ri_block (tget (s_trie s) k) = Some n /\ ri_wep (tget (s_trie s) k) = O) \/ (n = me /\ ri_wep (tget (s_trie s) k) <> O) ->
  exists c : nat, In ((n, k), c) (s_nr s).

Definition owner (e : rinfo) : option N := match ri_wep e with O => ri_block e | S _ => Some me end.

Lemma step_owner : forall A e, ri_hosts e = [] -> owner e <> None -> a_node (step true A e) = owner e.
Proof.
  intros A [p b h w sn] H O. cbn [ri_hosts] in H. subst h.
  destruct p, b, w; unfold owner in *; cbn [ri_wep ri_block] in *; try contradiction; unfold step; cbn; reflexivity.
Qed.
Lemma walk_owner : forall t k, anc k (plen k) = k -> ri_hosts (tget t k) = [] -> owner (tget t k) <> None ->
  a_node (walk t k) = owner (tget t k).
Proof. intros t k E H O. rewrite (walk_last t k E). now apply step_owner. Qed.

Lemma node_m5_forced : forall s m v k, s_dirty s = [] -> nr_cov s -> wfp 32 k ->
  fset (s_trie (on_node_forced true s m v)) k -> ~ In k (s_dirty (on_node_forced true s m v)) ->
  finish (s_nodes (on_node_forced true s m v)) (walk (s_trie s) k) = finish (s_nodes s) (walk (s_trie s) k).
Proof.
  intros s m v k HD NR W FS I.
  assert (EQ : tget (s_trie (on_node_forced true s m v)) k = tget (s_trie s) k).
  { destruct (r_chg _ _ (rel_on_node_forced true s m v) k) as [X|X]; [exact X|contradiction]. }
  unfold fset in FS. rewrite EQ in FS. destruct FS as [HH HO].
  revert I. rewrite on_node_forced_eq. cbv zeta.
  set (old := aget N.eqb (s_nodes s) m). set (new := option_map ninfo_of v).
  set (s1 := st1 true s m old new). set (s2 := st2 s1 m old). set (s3 := st3 s2 m new). set (mid := st4 s3 m).
  intros I.
  assert (SG12 : stage s1 mid).
  { eapply stage_trans; [apply st2_stage|]. eapply stage_trans; [apply st3_stage|apply st4_stage]. }
  assert (MN : forall y, aget N.eqb (s_nodes mid) y = if N.eqb m y then new else aget N.eqb (s_nodes s) y).
  { intros y. unfold mid, s3, s2, s1, old. apply mid_nodes. }
  assert (NR3 : s_nr s3 = s_nr s) by (unfold s3, s2, s1; now rewrite st3_nr, st2_nr, st1_nr).
  assert (E32 : anc k (plen k) = k) by (apply anc_self; exact W).
  set (e := tget (s_trie s) k) in *.
  assert (ON : owner e <> None).
  { unfold owner. destruct (ri_wep e); [|discriminate]. destruct HO as [X|X]; [contradiction|exact X]. }
  destruct (owner e) as [x|] eqn:OW; [|contradiction].
  assert (AN : a_node (walk (s_trie s) k) = Some x) by (rewrite (walk_owner _ k E32 HH); fold e; [exact OW|now rewrite OW]).
  (* the owner's routes are indexed *)
  assert (COV : exists c : nat, In ((x, k), c) (s_nr s)).
  { apply NR. fold e. unfold owner in OW. destruct (ri_wep e) eqn:WE; [left; split; [exact OW|reflexivity]|right].
    inversion OW. split; [reflexivity|discriminate]. }
  assert (Mx : m <> x).
  { intros X. destruct COV as (c & Hc). apply I. unfold mid. rewrite st4_fold, NR3, X. exact (st4_marks x k c (s_nr s) s3 Hc). }
  assert (E1 : N.eqb m x = false) by now apply N.eqb_neq.
  apply (finish_ext _ _ _ x AN).
  - rewrite MN, E1. reflexivity.
  - destruct (N.eq_dec m me) as [Em|Em].
    + (* the local node changed; x is remote *)
      subst m. assert (Hx : x <> me) by (intros X; apply Mx; now symmetry).
      assert (BX : ri_block e = Some x /\ ri_wep e = O).
      { unfold owner in OW. destruct (ri_wep e); [split; [exact OW|reflexivity]|]. inversion OW. contradiction. }
      destruct (aget N.eqb (s_nodes s) x) as [i|] eqn:An.
      * assert (An' : aget N.eqb (s_nodes mid) x = Some i) by (rewrite MN, E1; exact An).
        rewrite (nios_subnet_has _ _ _ An), (nios_subnet_has _ _ _ An'). rewrite MN, N.eqb_refl. fold old.
        destruct (Bool.eqb (subnet_has true (is_some old) (cidr_of old) (ni_addr i))
                           (subnet_has true (is_some new) (cidr_of new) (ni_addr i))) eqn:FE; [symmetry; now apply eqb_prop|].
        exfalso. destruct (prefix_eqb (cidr_of old) (cidr_of new)) eqn:CE.
        { rewrite (subnet_has_same_cidr old new _ CE), eqb_reflx in FE. discriminate. }
        apply I. apply (sg_mono _ _ SG12). unfold s1, st1. rewrite N.eqb_refl. cbv zeta.
        change (match old with Some i0 => ni_cidr i0 | None => zero_cidr end) with (cidr_of old).
        change (match new with Some i0 => ni_cidr i0 | None => zero_cidr end) with (cidr_of new).
        rewrite CE, reflag_G.
        apply (reflag_marks (is_some old) (cidr_of old) (is_some new) (cidr_of new) k x i (stored s) s).
        -- apply stored_in. fold e. unfold ri_is_zero, ri_valid. destruct BX as [B1 _]. rewrite B1.
           destruct (ri_pool e); now rewrite andb_false_r.
        -- fold e. unfold visit_node. destruct BX as [B1 B2]. now rewrite B2.
        -- now apply N.eqb_neq.
        -- exact An.
        -- exact FE.
      * rewrite (nios_unknown _ _ An). apply nios_unknown. rewrite MN, E1. exact An.
    + apply nios_ext; rewrite MN; [|now rewrite E1]. assert (E2 : N.eqb m me = false) by now apply N.eqb_neq. now rewrite E2.
Qed.

(* ---------------------------------------------------------------- one update keeps the downstream route set up to date *)
Lemma node_m5 : forall s m v k, s_dirty s = [] -> nr_cov s -> wfp 32 k ->
  fset (s_trie (on_node true s m v)) k -> ~ In k (s_dirty (on_node true s m v)) ->
  finish (s_nodes (on_node true s m v)) (walk (s_trie s) k) = finish (s_nodes s) (walk (s_trie s) k).
Proof.
  intros s m v k HD NR W. unfold on_node. destruct (node_unchanged s m v); [reflexivity|]. now apply node_m5_forced.
Qed.

Definition op_wf (o : op) : Prop := match o with OpWep _ cs => forall c, In c cs -> plen c = 32%nat | _ => True end.

Theorem op_keeps_out_ok : forall s o, s_dirty s = [] -> out_ok s -> nr_cov s -> weps32 s -> op_wf o ->
  out_ok (apply_op true s o).
Proof.
  intros s o HD OK NR W32 OW. unfold apply_op. destruct o as [c v|c v|m v|id cs].
  - apply (flush_out_ok s); auto; [apply rel_on_pool|]. intros k _ _ _. now rewrite (pf_nodes _ _ _ (on_pool_facts s c v)).
  - apply (flush_out_ok s); auto; [apply rel_on_block|]. intros k _ _ _. now rewrite on_block_nodes.
  - apply (flush_out_ok s); auto; [apply rel_on_node|]. intros k W FS I. now apply node_m5.
  - apply (flush_out_ok s); auto; [now apply rel_on_wep|]. intros k _ _ _. now rewrite on_wep_nodes.
Qed.

Definition fop_wf (x : fop) : Prop := match x with FOp _ o => op_wf o end.

Theorem fop_keeps_out_ok : forall s x, s_dirty s = [] -> out_ok s -> nr_cov s -> weps32 s -> fop_wf x ->
  out_ok (apply_fop true s x).
Proof.
  intros s [force o] HD OK NR W32 OW. simpl in OW. destruct force; [|now apply op_keeps_out_ok].
  destruct o as [c v|c v|m v|id cs]; cbn [apply_fop]; try (now apply op_keeps_out_ok).
  - apply (flush_out_ok s); auto; [apply rel_on_node_forced|]. intros k W FS I. now apply node_m5_forced.
  - apply (flush_out_ok s); auto; [now apply rel_on_wep_forced|]. intros k _ _ _. now rewrite on_wep_forced_nodes.
Qed.
