(* C43 — order independence: concrete histories on which the model of the PINNED resolver ends with routes
   that differ from the function of the final state (both replayed on the real code by the driver's
   scripted cases "script:local-v6only-then-v4" and "script:local-v4-then-v6only"). *)
From Coq Require Import List NArith Arith Bool.
From Verif.Common Require Import Prefix.
From Verif.C43 Require Import Model Spec Final FinalProofs.
Import ListNotations.
Open Scope N_scope.

Definition w_pool : prefix := mkP 167837696 16.      (* 10.1.0.0/16 *)
Definition w_block : prefix := mkP 167837696 26.     (* 10.1.0.0/26 *)
Definition w_subnet : prefix := mkP 2886729984 24.   (* 172.16.1.0/24 *)
Definition w_me : op := OpNode 0 (Some (Some (2886729994, w_subnet))).     (* 172.16.1.10 *)
Definition w_me_v6only : op := OpNode 0 (Some None).
Definition w_peer : op := OpNode 1 (Some (Some (2886729995, w_subnet))).   (* 172.16.1.11 *)
Definition w_blk : op := OpBlock w_block (Some (mkBlock (Some 1) [])).
Definition w_pl : op := OpPool w_pool (Some (mkPool Never Cross false)).   (* VXLAN CrossSubnet *)

(* the local node is first known without an IPv4 address and gets one last *)
Definition hist_gain : list op := [w_me_v6only; w_peer; w_blk; w_pl; w_me].
(* the same final state, local node's address known from the start *)
Definition hist_plain : list op := [w_me; w_peer; w_blk; w_pl].
(* the local node loses its IPv4 address last *)
Definition hist_lose : list op := [w_me; w_peer; w_blk; w_pl; w_me_v6only].

Definition kernel_after (fixed : bool) (ops : list op) : list kroute :=
  kernel (peers_of (state_of ops)) (s_out (run fixed ops)).

Lemma order_refuted_two_histories :
  state_of hist_gain = state_of hist_plain /\ valid_state (state_of hist_gain) = true
  /\ kernel_after false hist_gain <> kernel_after false hist_plain.
Proof. split; [vm_compute; reflexivity|]. split; [vm_compute; reflexivity|]. vm_compute. discriminate. Qed.

Lemma order_refuted_vs_function_of_state :
  exists ops c h, valid_state (state_of ops) = true /\ In (c, h) (remote_dsts (state_of ops))
    /\ routes_for (kernel_after false ops) c <> programmed (state_of ops) c.
Proof.
  exists hist_gain, w_block, 1. split; [vm_compute; reflexivity|]. split; [vm_compute; auto|].
  vm_compute. discriminate.
Qed.

Lemma order_refuted_stale_direct :
  valid_state (state_of hist_lose) = true /\ In (w_block, 1) (remote_dsts (state_of hist_lose))
  /\ routes_for (kernel_after false hist_lose) w_block = [mkK 2 1 1 w_block (Some 2886729995)]
  /\ programmed (state_of hist_lose) w_block = [mkK 2 0 2 w_block (Some (vtep_addr 1))].
Proof. repeat split; vm_compute; auto. Qed.

(* with the repaired re-flagging walk the same histories end at the function of the state *)
Lemma order_witnesses_fixed :
  routes_for (kernel_after true hist_gain) w_block = programmed (state_of hist_gain) w_block
  /\ routes_for (kernel_after true hist_lose) w_block = programmed (state_of hist_lose) w_block
  /\ kernel_after true hist_gain = kernel_after true hist_plain.
Proof. repeat split; vm_compute; reflexivity. Qed.

(* non-vacuity of the function-of-state theorems: an admitted state with a remote block, a remote borrowed
   address, a local block and a local workload; one direct and one tunnel route *)
Definition ex_state : dstate :=
  state_of [w_me; w_peer; OpNode 2 (Some (Some (2886730251, mkP 2886730240 24)));    (* 172.16.2.11/24 *)
            w_pl; w_blk;
            OpBlock (mkP 167837760 26) (Some (mkBlock (Some 0) [(167837765, Some 2); (167837766, Some 0)]));
            OpWep 0 [mkP 167837766 32]].
Lemma ex_state_ok :
  valid_state ex_state = true
  /\ remote_dsts ex_state = [(w_block, 1); (mkP 167837765 32, 2)]
  /\ programmed ex_state w_block = [mkK 2 1 1 w_block (Some 2886729995)]
  /\ programmed ex_state (mkP 167837765 32) = [mkK 2 0 2 (mkP 167837765 32) (Some (vtep_addr 2))]
  /\ blackholes (kernel (peers_of ex_state) (resolve ex_state)) = [mkK 2 2 4 (mkP 167837760 26) None].
Proof. repeat split; vm_compute; reflexivity. Qed.
