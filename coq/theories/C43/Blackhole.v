(* C43 — local blocks get blackhole routes (positive direction), on admitted states. *)
From Coq Require Import List NArith Arith Bool Lia.
From Verif.Common Require Import Prefix.
From Verif.C43 Require Import Model Spec Final FinalProofs.
Import ListNotations.
Open Scope N_scope.

Lemma has_type_lor4 : forall x y, N.eqb (N.land (N.lor x (N.lor y 4)) 4) 4 = true.
Proof.
  intros x y. apply N.eqb_eq. apply N.bits_inj. intros n.
  rewrite N.land_spec, !N.lor_spec. change 4 with (2 ^ 2). rewrite N.pow2_bits_eqb.
  destruct (N.eqb 2 n); [now rewrite !orb_true_r|now rewrite andb_false_r].
Qed.

Lemma step_block_last_me : forall A po,
  let a' := step true A (mkRI po (Some me) [] 0 false) in
  a_bseen a' = true /\ a_hashost a' = a_hashost A /\ a_btypes a' = N.lor (a_btypes A) 4
  /\ a_types a' = a_types A /\ a_localw a' = a_localw A.
Proof. intros A po. destruct po; unfold step; simpl; repeat split; reflexivity. Qed.

Section Valid.
  Variable d : dstate.
  Hypothesis F : valid_facts d.

  Lemma local_block_dst : forall b, In b (local_blocks d) -> In (b, me) (all_dsts d).
  Proof.
    intros b H. unfold local_blocks in H. apply in_flat_map in H. destruct H as (e & He & H).
    destruct (bv_aff (snd e)) as [h|] eqn:A; [|destruct H].
    destruct (N.eqb h me) eqn:E; [|destruct H]. destruct H as [<-|[]]. apply N.eqb_eq in E. subst h.
    unfold all_dsts. apply in_flat_map. exists e. split; [exact He|]. unfold block_dsts. rewrite A. now left.
  Qed.

  Lemma walk_no_wep_above : forall b, wfp 32 b -> (forall w, In w (wep_addrs d) -> covers 32 w b = false) ->
    a_localw (wfold (path_ents d b (seq 0 (plen b))) acc0) = false.
  Proof.
    intros b W H. rewrite wfold_localw. simpl. apply existsb_false.
    intros e He. unfold path_ents in He. apply in_map_iff in He. destruct He as (l & <- & Hl). apply in_seq in Hl.
    simpl. apply negb_false_iff, Nat.eqb_eq. unfold wep_at.
    destruct (filter (prefix_eqb (anc b l)) (wep_addrs d)) as [|p r] eqn:E; [reflexivity|].
    destruct (filter_head_In _ _ _ _ E) as [I P]. apply prefix_eqb_eq in P. subst p.
    pose proof (H _ I) as X. rewrite (anc_covers b l ltac:(lia) W) in X. discriminate.
  Qed.

  (* a local block that is not a /32, that no local workload address covers, inside a routed pool, is
     blackholed by that pool's manager *)
  Lemma local_block_blackholed : forall b p, In b (local_blocks d) -> plen b <> 32%nat ->
    (forall w, In w (wep_addrs d) -> covers 32 w b = false) ->
    pool_of d b = Some p -> encap_of p <> NotRouted ->
    exists r, desired d b = Some r /\ mgr_local_block (mgr_of (encap_of p)) b r = true.
  Proof.
    intros b p Hb L32 HW HP NR.
    pose proof (local_block_dst b Hb) as HA.
    destruct (vf_dsts_wf d F _ HA) as [W NZ]. simpl in W, NZ.
    destruct (dst_in_block d F b me HA) as (e & He & Ce).
    assert (WZ : wep_at d b = O).
    { unfold wep_at. destruct (filter (prefix_eqb b) (wep_addrs d)) as [|q r] eqn:E; [reflexivity|].
      destruct (filter_head_In _ _ _ _ E) as [I P]. apply prefix_eqb_eq in P. subst q.
      pose proof (HW _ I) as X. rewrite (covers_refl 32 b W) in X. discriminate. }
    assert (EN : entry d b = mkRI (pool_at d b) (Some me) [] 0 false).
    { unfold entry. rewrite (block_at_dst d F b me HA), (hosts_at_in_block d F b e He Ce), WZ. reflexivity. }
    unfold desired. rewrite EN.
    assert (V : ri_valid (mkRI (pool_at d b) (Some me) [] 0 false) = true) by (unfold ri_valid; simpl; destruct (pool_at d b); reflexivity).
    rewrite V. apply prefix_eqb_neq in NZ. rewrite NZ. simpl. eexists. split; [reflexivity|].
    pose proof (dwalk_last d b W) as DL. rewrite EN in DL.
    destruct (step_block_last_me (wfold (path_ents d b (seq 0 (plen b))) acc0) (pool_at d b)) as (N2 & N3 & N4 & N5 & N6).
    rewrite <- DL in N2, N3, N4, N5, N6.
    rewrite (walk_no_host_above d b) in N3 by (destruct W; lia).
    rewrite (walk_no_wep_above b W HW) in N6.
    destruct (walk_pool d F b W) as [P1 _]. rewrite HP in P1.
    unfold mgr_local_block, finish, has_type. simpl. rewrite N2, N3, N4, N6, P1. simpl.
    rewrite has_type_lor4, pool_type_encap, N.eqb_refl. simpl. apply negb_true_iff, Nat.eqb_neq. exact L32.
  Qed.
End Valid.

Theorem local_blocks_blackholed : forall d b p, valid_state d = true ->
  In b (local_blocks d) -> plen b <> 32%nat ->
  (forall w, In w (wep_addrs d) -> covers 32 w b = false) ->
  pool_of d b = Some p -> encap_of p <> NotRouted ->
  exists r, desired d b = Some r /\ mgr_local_block (mgr_of (encap_of p)) b r = true.
Proof. intros d b p V. exact (local_block_blackholed d (valid_state_facts d V) b p). Qed.
