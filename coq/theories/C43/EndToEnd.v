(* C43 — end to end: after ANY history whose final datastore state is one the datastore admits, the kernel routes
   the route managers derive from what the resolver holds downstream are the ones the property demands. *)
From Coq Require Import List NArith Arith Bool Lia Permutation.
From Verif.Common Require Import Prefix.
From Verif.C43 Require Import Model MgrProofs FlushPerm Spec Final FinalProofs Blackhole Reflag Peer PoolUpd Chain Fresh FreshOps NR Inv Link Link2 Link3 Link4 Link5 Link6.
Import ListNotations.
Open Scope N_scope.

(* the kernel routes the three managers derive from the route the dataplane holds for c *)
Definition programmed_from (held : option route) (peers : list (N * N)) (c : prefix) : list kroute :=
  match held with
  | Some r => flat_map (fun T => if mgr_keeps T r then mgr_target T peers c r else []) [1; 2; 3]
  | None => []
  end.

Section Sep.
  Variable BK : prefix -> Prop.
  Hypothesis sep : forall a b x, BK a -> BK b -> covers 32 a x = true -> covers 32 b x = true -> a = b.

  Theorem history_meets_demand : forall ops, Forall (hop_ok BK) ops -> Forall dop_ok ops ->
    let d := state_of ops in
    valid_state d = true -> forall c h, In (c, h) (remote_dsts d) ->
    programmed_from (aget prefix_eqb (s_out (run true ops)) c) (peers_of d) c = kroute_of c (demanded d c h).
  Proof.
    intros ops H1 H2 d V c h Hc.
    pose proof (valid_state_facts d V) as F.
    assert (HA : In (c, h) (all_dsts d)) by (unfold remote_dsts in Hc; apply filter_In in Hc; apply Hc).
    destruct (vf_dsts_wf d F _ HA) as [W _]. simpl in W.
    destruct (dst_in_block d F c h HA) as (e & He & Ce).
    destruct (order_independent BK sep ops H1 H2 c W) as [_ OI]. fold d in OI.
    rewrite OI.
    - rewrite <- (remote_route_meets_demand d c h V Hc). reflexivity.
    - exact (hosts_at_in_block d F c e He Ce).
    - left. rewrite (block_at_dst d F c h HA). discriminate.
  Qed.

  Theorem history_blackholes_local_blocks : forall ops, Forall (hop_ok BK) ops -> Forall dop_ok ops ->
    let d := state_of ops in
    valid_state d = true -> forall b p, In b (local_blocks d) -> plen b <> 32%nat ->
    (forall w, In w (wep_addrs d) -> covers 32 w b = false) ->
    pool_of d b = Some p -> encap_of p <> NotRouted ->
    exists r, aget prefix_eqb (s_out (run true ops)) b = Some r /\ mgr_local_block (mgr_of (encap_of p)) b r = true.
  Proof.
    intros ops H1 H2 d V b p Hb L32 HW HP NR.
    pose proof (valid_state_facts d V) as F.
    pose proof (local_block_dst d b Hb) as HA.
    destruct (vf_dsts_wf d F _ HA) as [W _]. simpl in W.
    destruct (dst_in_block d F b me HA) as (e & He & Ce).
    destruct (order_independent BK sep ops H1 H2 b W) as [_ OI]. fold d in OI.
    destruct (local_blocks_blackholed d b p V Hb L32 HW HP NR) as (r & D & M).
    exists r. split; [|exact M]. rewrite OI; [exact D|exact (hosts_at_in_block d F b e He Ce)|].
    left. rewrite (block_at_dst d F b me HA). discriminate.
  Qed.
End Sep.
