(* C43 — host entries of the trie as a function of the node table. *)
From Coq Require Import List NArith Arith Bool Lia Permutation.
From Verif.Common Require Import Prefix.
From Verif.C43 Require Import Model MgrProofs FlushPerm Spec Final FinalProofs Reflag Peer PoolUpd Chain Fresh FreshOps NR Inv.
From Verif.C43 Require Import Link Link2 Link3.
Import ListNotations.
Open Scope N_scope.

Definition is_host_of (nodes : list (N * ninfo)) (n : N) (k : prefix) : Prop :=
  exists i, aget N.eqb nodes n = Some i /\ ni_addr i <> 0 /\ host32 (ni_addr i) = k.

Definition hs (s : st) : Prop := forall k n, In n (ri_hosts (tget (s_trie s) k)) <-> is_host_of (s_nodes s) n k.

Lemma in_insert_sorted : forall n l x, In x (insert_sorted n l) <-> x = n \/ In x l.
Proof.
  intros n. induction l as [|y l IH]; intros x; simpl; [intuition|].
  destruct (N.ltb n y); simpl; [intuition|]. rewrite IH. intuition.
Qed.

Lemma hs_kept : forall s s', @keepf _ _ ri_hosts s_nodes s s' -> hs s -> hs s'.
Proof. intros s s' [K1 K2] H k n. rewrite K1, K2. apply H. Qed.

Lemma hs_node_forced : forall s n v, hs s -> hs (on_node_forced true s n v).
Proof.
  intros s n v H. rewrite on_node_forced_eq. cbv zeta.
  set (old := aget N.eqb (s_nodes s) n). set (new := option_map ninfo_of v).
  set (s1 := st1 true s n old new). set (s2 := st2 s1 n old). set (s3 := st3 s2 n new).
  assert (MN : forall y, aget N.eqb (s_nodes (st4 s3 n)) y = if N.eqb n y then new else aget N.eqb (s_nodes s) y).
  { intros y. unfold s3, s2, s1, old. apply mid_nodes. }
  destruct (st1_inv true s n old new) as [T1 _]. fold s1 in T1.
  (* hosts after the removal stage *)
  assert (H2 : forall k, ri_hosts (tget (s_trie s2) k) =
               match old with
               | Some i => if negb (N.eqb (ni_addr i) 0) && prefix_eqb (host32 (ni_addr i)) k
                           then filter (fun x => negb (N.eqb x n)) (ri_hosts (tget (s_trie s) k)) else ri_hosts (tget (s_trie s) k)
               | None => ri_hosts (tget (s_trie s) k) end).
  { intros k. unfold s2, st2. destruct old as [i|]; [|now rewrite T1]. cbv zeta.
    destruct (N.eqb (ni_addr i) 0); simpl; [now rewrite T1|].
    rewrite update_cidr_tget. cbn [s_trie set_nodes]. rewrite T1. destruct (prefix_eqb (host32 (ni_addr i)) k) eqn:X; [|reflexivity].
    apply prefix_eqb_eq in X. rewrite X. destruct (tget (s_trie s) k); reflexivity. }
  assert (H3 : forall k, ri_hosts (tget (s_trie s3) k) =
               match new with
               | Some j => if negb (N.eqb (ni_addr j) 0) && prefix_eqb (host32 (ni_addr j)) k
                           then insert_sorted n (ri_hosts (tget (s_trie s2) k)) else ri_hosts (tget (s_trie s2) k)
               | None => ri_hosts (tget (s_trie s2) k) end).
  { intros k. unfold s3, st3. destruct new as [j|]; [|reflexivity]. cbv zeta.
    destruct (N.eqb (ni_addr j) 0); simpl; [reflexivity|].
    rewrite update_cidr_tget. cbn [s_trie set_nodes]. destruct (prefix_eqb (host32 (ni_addr j)) k) eqn:X; [|reflexivity].
    apply prefix_eqb_eq in X. rewrite X. destruct (tget (s_trie s2) k); reflexivity. }
  intros k x. rewrite st4_trie, H3. unfold is_host_of. rewrite MN.
  assert (OLDC : In n (ri_hosts (tget (s_trie s) k)) <-> exists i, old = Some i /\ ni_addr i <> 0 /\ host32 (ni_addr i) = k).
  { rewrite (H k n). unfold is_host_of. fold old. reflexivity. }
  (* membership after the removal stage *)
  assert (M2 : In x (ri_hosts (tget (s_trie s2) k)) <-> x <> n /\ In x (ri_hosts (tget (s_trie s) k))).
  { rewrite H2. destruct old as [i|] eqn:O.
    - destruct (negb (N.eqb (ni_addr i) 0) && prefix_eqb (host32 (ni_addr i)) k) eqn:C.
      + rewrite filter_In, negb_true_iff, N.eqb_neq. tauto.
      + split; [|tauto]. intros I. split; [|exact I]. intros ->. apply OLDC in I. destruct I as (i' & E & A1 & A2). inversion E; subst i'.
        apply andb_false_iff in C. destruct C as [C|C].
        * apply negb_false_iff, N.eqb_eq in C. contradiction.
        * rewrite A2, prefix_eqb_refl in C. discriminate.
    - split; [|tauto]. intros I. split; [|exact I]. intros ->. apply OLDC in I. destruct I as (i' & E & _). discriminate. }
  destruct (N.eqb n x) eqn:E.
  - apply N.eqb_eq in E. subst x. destruct new as [j|].
    + destruct (negb (N.eqb (ni_addr j) 0) && prefix_eqb (host32 (ni_addr j)) k) eqn:C.
      * rewrite in_insert_sorted. apply andb_true_iff in C. destruct C as [C1 C2]. apply negb_true_iff, N.eqb_neq in C1. apply prefix_eqb_eq in C2.
        split; [intros _; exists j; auto|intros _; now left].
      * rewrite M2. split; [intros [X _]; contradiction|]. intros (i & Ei & A1 & A2). inversion Ei; subst i. exfalso.
        apply andb_false_iff in C. destruct C as [C|C].
        -- apply negb_false_iff, N.eqb_eq in C. contradiction.
        -- rewrite A2, prefix_eqb_refl in C. discriminate.
    + rewrite M2. split; [intros [X _]; contradiction|intros (i & Ei & _); discriminate].
  - apply N.eqb_neq in E.
    assert (R : In x (ri_hosts (tget (s_trie s2) k)) <-> is_host_of (s_nodes s) x k).
    { rewrite M2, (H k x). split; [tauto|]. intros X. split; [congruence|exact X]. }
    unfold is_host_of in R. rewrite <- R. destruct new as [j|]; [|reflexivity].
    destruct (negb (N.eqb (ni_addr j) 0) && prefix_eqb (host32 (ni_addr j)) k); [|reflexivity].
    rewrite in_insert_sorted. split; [intros [X|X]; [congruence|exact X]|now right].
Qed.

Lemma hs_node : forall s n v, hs s -> hs (on_node true s n v).
Proof. intros s n v H. unfold on_node. destruct (node_unchanged s n v); [exact H|now apply hs_node_forced]. Qed.

Lemma hs_step : forall s o, hs s -> hs (apply_op true s o).
Proof.
  intros s o H. unfold apply_op.
  assert (FL : forall x, hs x -> hs (flush x)) by (intros x; apply hs_kept, keepf_flush; auto).
  apply FL. destruct o as [c v|c v|n v|id cs].
  - apply (hs_kept s); [apply keepf_on_pool; auto|exact H].
  - apply (hs_kept s); [apply keepf_on_block; auto|exact H].
  - now apply hs_node.
  - apply (hs_kept s); [apply keepf_on_wep; auto|exact H].
Qed.

Lemma hs_fstep : forall s x, hs s -> hs (apply_fop true s x).
Proof.
  intros s [force o] H. destruct force; [|now apply hs_step].
  assert (FL : forall y, hs y -> hs (flush y)) by (intros y; apply hs_kept, keepf_flush; auto).
  destruct o as [c v|c v|n v|id cs]; cbn [apply_fop]; try (now apply hs_step); apply FL.
  - now apply hs_node_forced.
  - apply (hs_kept s); [apply keepf_on_wep_forced; auto|exact H].
Qed.

(* ---------------------------------------------------------------- link to the datastore's node table *)
Lemma in_sorted_fold : forall l x, In x (fold_right insert_sorted [] l) <-> In x l.
Proof. induction l as [|y l IH]; intros x; simpl; [tauto|]. rewrite in_insert_sorted, IH. intuition. Qed.

Lemma aget_of_in_nodup : forall {V} (m : list (N * V)) k v, NoDup (map fst m) -> In (k, v) m -> aget N.eqb m k = Some v.
Proof.
  induction m as [|[k0 v0] m IH]; intros k v ND H; simpl in *; [destruct H|]. inversion ND as [|? ? NI ND']; subst.
  destruct H as [H|H].
  - inversion H; subst. now rewrite N.eqb_refl.
  - destruct (N.eqb k0 k) eqn:E; [|now apply IH]. apply N.eqb_eq in E. subst k0. exfalso. apply NI.
    change k with (fst (k, v)). now apply in_map.
Qed.

Lemma hosts_link : forall s d, hs s -> lk_n s d -> NoDup (map fst (d_nodes d)) ->
  (forall k, ri_hosts (tget (s_trie s) k) = [] <-> hosts_at d k = [])
  /\ (forall k, ri_hosts (tget (s_trie s) k) <> [] -> plen k = 32%nat).
Proof.
  intros s d H L ND.
  assert (EQV : forall k n, In n (ri_hosts (tget (s_trie s) k)) <-> In n (hosts_at d k)).
  { intros k n. rewrite (H k n). unfold hosts_at. rewrite in_sorted_fold, in_flat_map. unfold is_host_of. rewrite (L n), dnodes_aget. split.
    - intros (i & A & A1 & A2). destruct (aget N.eqb (d_nodes d) n) as [[[a c]|]|] eqn:G; simpl in A; inversion A; subst i; simpl in *; [|contradiction].
      exists (n, Some (a, c)). split; [now apply agetN_In|]. simpl.
      apply N.eqb_neq in A1. rewrite A1, A2, prefix_eqb_refl. simpl. now left.
    - intros ([n' [[a c]|]] & I & X); simpl in X; [|destruct X].
      destruct (negb (N.eqb a 0) && prefix_eqb (host32 a) k) eqn:C; [|destruct X]. destruct X as [X|[]]. subst n'.
      apply andb_true_iff in C. destruct C as [C1 C2]. apply negb_true_iff, N.eqb_neq in C1. apply prefix_eqb_eq in C2.
      rewrite (aget_of_in_nodup _ _ _ ND I). simpl. exists (mkNI a c). auto. }
  split.
  - intros k. split; intros E.
    + destruct (hosts_at d k) as [|x l] eqn:X; [reflexivity|]. exfalso. assert (I : In x (hosts_at d k)) by (rewrite X; now left).
      apply EQV in I. rewrite E in I. destruct I.
    + destruct (ri_hosts (tget (s_trie s) k)) as [|x l] eqn:X; [reflexivity|]. exfalso.
      assert (I : In x (ri_hosts (tget (s_trie s) k))) by (rewrite X; now left). apply EQV in I. rewrite E in I. destruct I.
  - intros k NE. destruct (ri_hosts (tget (s_trie s) k)) as [|x l] eqn:X; [contradiction|].
    assert (I : In x (ri_hosts (tget (s_trie s) k))) by (rewrite X; now left). apply (H k x) in I. destruct I as (i & _ & _ & E). now rewrite <- E.
Qed.
