(* C01 — a closed instance of the whole-graph theorem with a STATEFUL node: IP pool passthru + the (repaired) L3
   block/workload route slice of L3Reflag.v in front of C02's event sequencer.  No hypothesis about the graph is left:
   for every history of pool upserts/deletes, batches of route-trie entry changes, in-sync and flush requests, the
   dataplane described by what the sequencer emitted is the one a freshly started graph emits for the final state. *)
From stdpp Require Import gmap.
From Verif.Common Require Import Sync.
From Verif.C02 Require Import Model Spec Proofs.
From Verif.C01 Require Import Model Compose L3Reflag Spec Instances Passthru.
Local Open Scope N_scope.

Inductive gmsg := GPool (o : op N N) | GL3 (batch : list l3op) | GInSync | GFlush.

Definition gx_apply (s : gmap N N * inputs * bool) (m : gmsg) : gmap N N * inputs * bool :=
  match m with
  | GPool o => (apply_op s.1.1 o, s.1.2, s.2)
  | GL3 b => (s.1.1, foldl in_apply s.1.2 b, s.2)
  | GInSync => (s.1, true)
  | GFlush => s
  end.
Definition GX : stype := SType gmsg (gmap N N * inputs * bool) (∅, inputs0, false) gx_apply eq.

Definition enc_cidr (c : N + N) : N := match c with inl b => 2 * b | inr a => 2 * a + 1 end.
Global Instance enc_cidr_inj : Inj (=) (=) enc_cidr.
Proof. intros [a|a] [b|b]; unfold enc_cidr; intros E; [f_equal; lia|exfalso; lia|exfalso; lia|f_equal; lia]. Qed.
Definition route_cell (c : N + N) : cell := (KRoute, enc_cidr c).
Global Instance route_cell_inj : Inj (=) (=) route_cell.
Proof. intros a b [=]. by apply (inj enc_cidr). Qed.
Definition b2n (b : bool) : N := if b then 1 else 0.
Definition enc_route (r : route) : N :=
  16 * r_dst r + 8 * b2n (r_local r) + 4 * b2n (r_remote r) + 2 * b2n (r_localwl r) + b2n (r_borrowed r).
Definition rt_val (r : route) : value := V [] (enc_route r).
Definition rt_cb (m : rmsg) : sev :=
  match m with RUpd c r => SCb (CUpdate (route_cell c) (rt_val r)) | RRem c => SCb (CRemove (route_cell c)) end.

Section RP.
  Variable blk : N → N.

  Definition rp_step (s : l3st) (m : gmsg) : l3st * list sev :=
    match m with
    | GPool (Upsert k v) => (s, [SCb (CUpdate (pool_cell k) (V [] v))])
    | GPool (Delete k) => (s, [SCb (CRemove (pool_cell k))])
    | GL3 b => let '(s', ms) := l3_step blk true s b in (s', map rt_cb ms)
    | GInSync => (s, [])
    | GFlush => (s, [SFlush []])
    end.
  Definition rp_node : node gmsg sev := Node l3st l3st0 rp_step.

  (* the route table as a FUNCTION of the inputs *)
  Definition cands (i : inputs) : list (N + N) :=
    (inl <$> elements (dom (i_blk i))) ++ (inr <$> elements (dom (i_ablk i) ∪ dom (i_wep i))).
  Definition table_of (i : inputs) : gmap (N + N) route :=
    list_to_map (omap (λ c, pair c <$> route_of blk i c) (cands i)).

  Lemma cands_NoDup i : NoDup (cands i).
  Proof.
    unfold cands. apply NoDup_app. split; [|split].
    - apply NoDup_fmap; [apply _|apply NoDup_elements].
    - intros c H1 H2. apply elem_of_list_fmap in H1 as (b & -> & _). apply elem_of_list_fmap in H2 as (a & [=] & _).
    - apply NoDup_fmap; [apply _|apply NoDup_elements].
  Qed.

  Lemma omap_keys i : (omap (λ c, pair c <$> route_of blk i c) (cands i)).*1 = filter (λ c, is_Some (route_of blk i c)) (cands i).
  Proof.
    induction (cands i) as [|c r IH]; [done|].
    rewrite filter_cons. cbn [omap list_omap]. destruct (route_of blk i c) as [x|] eqn:E.
    - rewrite decide_True by eauto. cbn. by rewrite IH.
    - rewrite decide_False by (by intros [? ?]). cbn. exact IH.
  Qed.

  Lemma route_in_cands i c r : route_of blk i c = Some r → c ∈ cands i.
  Proof.
    unfold cands. destruct c as [b|a]; simpl; intros E; apply elem_of_app.
    - left. apply elem_of_list_fmap. exists b. split; [done|]. apply elem_of_elements, elem_of_dom.
      destruct (i_blk i !! b); [eauto|done].
    - right. apply elem_of_list_fmap. exists a. split; [done|]. apply elem_of_elements, elem_of_union.
      destruct (i_ablk i !! a) eqn:E1; [left; apply elem_of_dom; eauto|].
      destruct (i_wep i !! a) eqn:E2; [right; apply elem_of_dom; eauto|done].
  Qed.

  Lemma table_of_ok i : table_ok blk i (table_of i).
  Proof.
    intros c. unfold table_of. destruct (route_of blk i c) as [r|] eqn:E.
    - apply elem_of_list_to_map_1.
      + rewrite omap_keys. apply NoDup_filter, cands_NoDup.
      + apply elem_of_list_omap. exists c. split; [by eapply route_in_cands|]. by rewrite E.
    - apply not_elem_of_list_to_map_1. rewrite omap_keys. intros Hin.
      apply elem_of_list_filter in Hin as [Hs _]. rewrite E in Hs. by destruct Hs.
  Qed.

  Lemma table_unique i t : table_ok blk i t → t = table_of i.
  Proof. intros H. apply map_eq. intros c. by rewrite H, table_of_ok. Qed.

  (* the callback world: pools on one side, routes on the other *)
  Definition rp_world (p : gmap N N) (t : gmap (N + N) route) : world :=
    {| w_sets := ∅; w_kv := kmap pool_cell (V [] <$> p) ∪ kmap route_cell (rt_val <$> t) |}.
  Definition rp_F (s : gmap N N * inputs * bool) : world := rp_world s.1.1 (table_of s.1.2).

  Lemma pool_not_route p k : kmap (M2 := gmap cell) route_cell p !! pool_cell k = None (A := value).
  Proof. apply lookup_kmap_None; [apply _|]. intros c [=]. Qed.
  Lemma route_not_pool (p : gmap N value) c : kmap (M2 := gmap cell) pool_cell p !! route_cell c = None.
  Proof. apply lookup_kmap_None; [apply _|]. intros k [=]. Qed.

  Lemma rp_routes p t ms :
    foldl cb_apply (rp_world p t) (map rt_cb ms) = rp_world p (foldl rt_apply t ms).
  Proof.
    revert t. induction ms as [|m r IH]; intros t; simpl; [done|]. rewrite <-IH. f_equal.
    destruct m as [c x|c]; unfold rp_world; simpl; f_equal.
    - rewrite fmap_insert, kmap_insert; [|apply _]. rewrite insert_union_r; [done|apply route_not_pool].
    - rewrite fmap_delete, kmap_delete; [|apply _]. rewrite delete_union. f_equal.
      apply delete_notin, route_not_pool.
  Qed.

  Lemma rp_pool_ins p t k v :
    cb_apply (rp_world p t) (SCb (CUpdate (pool_cell k) (V [] v))) = rp_world (<[k := v]> p) t.
  Proof. unfold rp_world. simpl. f_equal. rewrite fmap_insert, kmap_insert; [|apply _]. by rewrite insert_union_l. Qed.
  Lemma rp_pool_del p t k :
    cb_apply (rp_world p t) (SCb (CRemove (pool_cell k))) = rp_world (delete k p) t.
  Proof.
    unfold rp_world. simpl. f_equal. rewrite fmap_delete, kmap_delete; [|apply _]. rewrite delete_union. f_equal.
    apply delete_notin, pool_not_route.
  Qed.

  (* every callback this front end makes is "flat": a non-IP-set object without references *)
  Definition flat_ev (e : sev) : Prop :=
    match e with
    | SCb (CUpdate c v) => c.1 ≠ KIPSet ∧ v_refs v = []
    | SCb (CRemove c) => c.1 ≠ KIPSet
    | SFlush _ => True
    | _ => False
    end.
  Lemma flat_apply w e : flat w → flat_ev e → flat (cb_apply w e).
  Proof.
    intros Hw He. destruct e as [[| | | |c v|c]|o]; simpl in *; try done.
    - intros c' v'. simpl. destruct (decide (c' = c)) as [->|Hn].
      + rewrite lookup_insert. intros [= <-]. tauto.
      + rewrite lookup_insert_ne by done. apply Hw.
    - intros c' v'. simpl. destruct (decide (c' = c)) as [->|Hn].
      + by rewrite lookup_delete.
      + rewrite lookup_delete_ne by done. apply Hw.
  Qed.
  Lemma flat_contract h w : flat w → Forall flat_ev h → contract w h.
  Proof.
    revert w. induction h as [|e r IH]; intros w Hw Hh; simpl; [done|].
    apply Forall_cons in Hh as [He Hr].
    pose proof (flat_apply w e Hw He) as Hw'.
    destruct e as [[| | | |c v|c]|o]; simpl in *; try done.
    - destruct He as [Hk Hrf]. split; [split; [done|by rewrite Hrf]|]. by apply IH.
    - split; [done|]. by apply IH.
    - split; [by apply flat_closed|]. by apply IH.
  Qed.

  Lemma rp_step_flat s m : Forall flat_ev (rp_step s m).2.
  Proof.
    destruct m as [[k v|k]|b| |]; simpl; repeat constructor; try done.
    destruct (l3_step blk true s b) as [s' ms]. simpl.
    induction ms as [|[c r|c] ms IH]; simpl; constructor; try done.
  Qed.

  (* one step, then the invariant of a run *)
  Lemma rp_step_inv s m p b0 :
    table_ok blk (l_in s) (l_sent s) →
    let g := gx_apply (p, l_in s, b0) m in
    l_in (rp_step s m).1 = g.1.2 ∧ table_ok blk (l_in (rp_step s m).1) (l_sent (rp_step s m).1) ∧
    foldl cb_apply (rp_world p (l_sent s)) (rp_step s m).2 = rp_world g.1.1 (l_sent (rp_step s m).1).
  Proof.
    intros Hok. destruct m as [[k v|k]|b| |].
    - split; [done|]. split; [done|]. apply rp_pool_ins.
    - split; [done|]. split; [done|]. apply rp_pool_del.
    - pose proof (l3_step_inv blk s b Hok) as H1. unfold rp_step.
      destruct (l3_step blk true s b) as [s1 ms]. destruct H1 as (Hi & Hok1 & Hm).
      split; [exact Hi|]. split; [exact Hok1|].
      change (foldl cb_apply (rp_world p (l_sent s)) (map rt_cb ms) = rp_world p (l_sent s1)).
      by rewrite rp_routes, (Hm _ eq_refl).
    - done.
    - done.
  Qed.

  Lemma rp_run_inv is s p b0 :
    table_ok blk (l_in s) (l_sent s) →
    let g := foldl gx_apply (p, l_in s, b0) is in
    l_in (n_run rp_node s is).1 = g.1.2 ∧ table_ok blk (l_in (n_run rp_node s is).1) (l_sent (n_run rp_node s is).1) ∧
    Forall flat_ev (n_run rp_node s is).2 ∧
    foldl cb_apply (rp_world p (l_sent s)) (n_run rp_node s is).2 = rp_world g.1.1 (l_sent (n_run rp_node s is).1).
  Proof.
    revert s p b0. induction is as [|m r IH]; intros s p b0 Hok; [simpl; split; [done|]; split; [exact Hok|]; split; [constructor|done]|].
    pose proof (rp_step_flat s m) as Hfl. pose proof (rp_step_inv s m p b0 Hok) as (A1 & B1 & D1).
    cbn [n_run]. change (n_step rp_node s m) with (rp_step s m).
    destruct (rp_step s m) as [s1 o1]. cbn [fst snd] in *.
    set (g1 := gx_apply (p, l_in s, b0) m) in *.
    specialize (IH s1 g1.1.1 g1.2 B1).
    destruct (n_run rp_node s1 r) as [s2 o2]. cbn [fst snd] in *.
    assert (Eg : (g1.1.1, l_in s1, g1.2) = g1) by (rewrite A1; by destruct g1 as [[? ?] ?]).
    rewrite Eg in IH. destruct IH as (A & B & C & D).
    change (foldl gx_apply (p, l_in s, b0) (m :: r)) with (foldl gx_apply g1 r).
    split; [exact A|]. split; [exact B|]. split; [by apply Forall_app|].
    by rewrite foldl_app, D1.
  Qed.

  Definition rp_admitted (h : list gmsg) : Prop := ∃ h', h = h' ++ [GFlush].

  Lemma rp_world0 : rp_world ∅ ∅ = world0.
  Proof. unfold rp_world, world0. rewrite !fmap_empty, !kmap_empty. by rewrite (left_id_L ∅ (∪)). Qed.

  Lemma rp_last_flush h' : ∃ os, n_outs rp_node (h' ++ [GFlush]) = os ++ [SFlush []].
  Proof.
    unfold n_outs. rewrite n_run_app. destruct (n_run rp_node (n_init rp_node) h') as [s1 o1]. simpl. by exists o1.
  Qed.

  (* the front end is history-free and inside the sequencer's contract: the hypothesis of the whole-graph theorem *)
  Lemma rp_hf : hf (X := GX) (Y := CB) rp_node rp_admitted (seq_admits true) rp_F.
  Proof.
    intros h [h' ->].
    pose proof (rp_run_inv (h' ++ [GFlush]) l3st0 ∅ false) as H.
    destruct (rp_last_flush h') as [os Hos].
    change (n_outs rp_node (h' ++ [GFlush])) with (n_run rp_node l3st0 (h' ++ [GFlush])).2 in Hos.
    destruct H as (A & B & C & D); [intros c; by destruct c|].
    change (seq_admits true (n_run rp_node l3st0 (h' ++ [GFlush])).2 ∧
            foldl cb_apply world0 (n_run rp_node l3st0 (h' ++ [GFlush])).2
            = rp_F (foldl gx_apply (∅, inputs0, false) (h' ++ [GFlush]))).
    change (l_sent l3st0) with (∅ : gmap (N + N) route) in D. change (l_in l3st0) with inputs0 in A, D.
    split.
    - exists os, []. split; [exact Hos|]. apply contract_gen_true. apply flat_contract; [|exact C].
      intros c v. unfold world0. simpl. by rewrite lookup_empty.
    - rewrite <-rp_world0 at 1. rewrite D. unfold rp_F. rewrite <-A. by rewrite (table_unique _ _ B).
  Qed.
End RP.

(* the instantiated whole-graph theorem: no hypothesis about the graph *)
Lemma rp_graph_history_independent blk h1 h2 :
  rp_admitted h1 → rp_admitted h2 → net GX h1 = net GX h2 →
  dp_of (n_outs (pipe_seq (rp_node blk) (seq_node true)) h1) = dp_of (n_outs (pipe_seq (rp_node blk) (seq_node true)) h2).
Proof.
  intros A1 A2 E.
  assert (G : hf (X := GX) (Y := DP) (pipe_seq (rp_node blk) (seq_node true)) rp_admitted (λ _, True) (rp_F blk)).
  { apply (hf_seq (X := GX) (Y := CB) (Z := DP) (rp_node blk) (seq_node true) rp_admitted (seq_admits true) (λ _, True) (rp_F blk) id).
    - intros a b c -> ->. done.
    - by intros a b ->.
    - apply rp_hf.
    - apply seq_node_hf. }
  destruct (G h1 A1) as [_ E1]. destruct (G h2 A2) as [_ E2]. simpl in E1, E2.
  change (net DP (n_outs (pipe_seq (rp_node blk) (seq_node true)) h1) = net DP (n_outs (pipe_seq (rp_node blk) (seq_node true)) h2)).
  by rewrite E1, E2, E.
Qed.
