(* C01 — the slices of Graph.v whose NODE is discharged by another property's theorem.  For each, the slice's
   history-freeness (the hypothesis of graph6_history_independent) is reduced to its FEEDER (what brings the node its
   inputs: dispatcher routing, type filters, other nodes' callbacks) and its EMITTER (how its outputs become sequencer
   callbacks), plus: the emitter's image must not depend on the slack the node theorem leaves ([E (inl real) = E (inr spec)]
   whenever real satisfies spec). *)
From stdpp Require Import gmap.
From Verif.C02 Require Import Model Spec.
From Verif.C01 Require Import Model Compose Spec Instances Fanin Refines Graph.
From Verif.C01 Require NodeC03 NodeC04 NodeC05 NodeC43.

Lemma rstype_proper {M T S W} t0 app (sat : T → S → Prop) (E : T + S → W) :
  (∀ t s, sat t s → E (inl t) = E (inr s)) →
  ∀ a b, s_eqv (rstype M T S t0 app sat) a b → E a = E b.
Proof. intros H [t|s] [t'|s']; simpl; intros Hab; [by subst|by apply H|done|by subst]. Qed.

(* generic: a node with a refinement lemma, between any feeder and emitter *)
Lemma slice_refining {X XI : stype} {M T S} t0 app (sat : T → S → Prop)
    (feed : node (s_msg X) (s_msg XI)) (n : node (s_msg XI) M) (emit : node M sev)
    (P : _ → Prop) (PI : _ → Prop) (QO : _ → Prop) G (g : s_net XI → S) (E : T + S → world) :
  (∀ a b, s_eqv XI a b → a = b) →
  refines t0 app sat n PI g →
  hf (X := X) (Y := XI) feed P PI G →
  hf (X := rstype M T S t0 app sat) (Y := CB) emit (λ _, True) QO E →
  (∀ t s, sat t s → E (inl t) = E (inr s)) →
  hf (X := X) (Y := CB) (slice feed n emit) P QO (λ x, E (inr (g (G x)))).
Proof.
  intros HX Hr Hf He Hp.
  apply (slice_hf (X := X) (XI := XI) (YI := rstype M T S t0 app sat) feed n emit P PI (λ _, True) QO G (λ x, inr (g x)) E);
    [exact HX|by apply rstype_proper|exact Hf|by apply refines_hf|exact He].
Qed.

(* PolicyResolver + PolicySorter (C03): the per-endpoint tier lists *)
Theorem slice_resolver_hf {X : stype} v (feed : node (s_msg X) (s_msg NodeC03.X3)) emit (P QO : _ → Prop) G E :
  Verif.C03.Model.v_fixed v = true →
  hf (X := X) (Y := NodeC03.X3) feed P (NodeC03.admitted3 v) G →
  hf (X := NodeC03.Y3) (Y := CB) emit (λ _, True) QO E →
  (∀ VW D, NodeC03.sat3 VW D → E (inl VW) = E (inr D)) →
  hf (X := X) (Y := CB) (slice feed (NodeC03.node3 v) emit) P QO (λ x, E (inr (G x))).
Proof.
  intros Hv Hf He Hp.
  apply (slice_refining (XI := NodeC03.X3) (λ _, None) Verif.C03.Dirty.upd_view NodeC03.sat3 feed (NodeC03.node3 v) emit
           P (NodeC03.admitted3 v) QO G (λ D, D) E); [by intros a b ->|by apply NodeC03.node3_refines|exact Hf|exact He|exact Hp].
Qed.

(* ValidationFilter + ActiveRulesCalculator (C05): active policies and profiles *)
Theorem slice_arc_hf {X : stype} validate (feed : node (s_msg X) (s_msg (NodeC05.X5 validate))) emit (P QO : _ → Prop) G E :
  hf (X := X) (Y := NodeC05.X5 validate) feed P (λ _, True) G →
  hf (X := NodeC05.Y5) (Y := CB) emit (λ _, True) QO E →
  (∀ vw d, NodeC05.sat5 vw d → E (inl vw) = E (inr d)) →
  hf (X := X) (Y := CB) (slice feed (NodeC05.node5 validate) emit) P QO (λ x, E (inr (G x))).
Proof.
  intros Hf He Hp.
  apply (slice_refining (XI := NodeC05.X5 validate) Verif.C05.Spec.view0 Verif.C05.Spec.view_apply NodeC05.sat5 feed
           (NodeC05.node5 validate) emit P (λ _, True) QO G (λ d, d) E);
    [by intros a b ->|apply NodeC05.node5_refines|exact Hf|exact He|exact Hp].
Qed.

(* L3RouteResolver (C43): block / borrowed-address / workload routes *)
Theorem slice_l3_hf {X : stype} (BK : Verif.Common.Prefix.prefix → Prop)
    (feed : node (s_msg X) (s_msg NodeC43.X43)) emit (P QO : _ → Prop) G E :
  (∀ a b x, BK a → BK b → Verif.Common.Prefix.covers 32 a x = true → Verif.Common.Prefix.covers 32 b x = true → a = b) →
  hf (X := X) (Y := NodeC43.X43) feed P (NodeC43.admitted43 BK) G →
  hf (X := NodeC43.Y43) (Y := CB) emit (λ _, True) QO E →
  (∀ out d, NodeC43.sat43 out d → E (inl out) = E (inr d)) →
  hf (X := X) (Y := CB) (slice feed NodeC43.node43 emit) P QO (λ x, E (inr (G x))).
Proof.
  intros Hs Hf He Hp.
  apply (slice_refining (XI := NodeC43.X43) (Verif.C43.Model.s_out Verif.C43.Model.st0) (λ _ t, t) NodeC43.sat43 feed
           NodeC43.node43 emit P (NodeC43.admitted43 BK) QO G (λ d, d) E);
    [by intros a b ->|by apply NodeC43.node43_refines|exact Hf|exact He|exact Hp].
Qed.

(* SelectorAndNamedPortIndex (C04): IP set members *)
Theorem slice_ipset_hf {X : stype} sel_of shuffle prune_ep prune_set
    (feed : node (s_msg X) (s_msg NodeC04.X4)) emit (P QO : _ → Prop) G E :
  Verif.C04.Main.oracles_ok shuffle prune_ep prune_set →
  hf (X := X) (Y := NodeC04.X4) feed P (NodeC04.admitted4 sel_of) G →
  hf (X := NodeC04.Y4) (Y := CB) emit (λ _, True) QO E →
  (∀ a b, NodeC04.same_members a b → E a = E b) →
  hf (X := X) (Y := CB) (slice feed (NodeC04.node4 shuffle prune_ep prune_set) emit) P QO (λ x, E (NodeC04.wanted (G x))).
Proof.
  intros Ho Hf He Hp.
  apply (slice_hf (X := X) (XI := NodeC04.X4) (YI := NodeC04.Y4) feed (NodeC04.node4 shuffle prune_ep prune_set) emit
           P (NodeC04.admitted4 sel_of) (λ _, True) QO G NodeC04.wanted E);
    [by intros a b ->|exact Hp|exact Hf|by apply NodeC04.node4_hf|exact He].
Qed.
