(* C01 — executable model of the SHAPE of Felix's calculation graph (felix/calc/calc_graph.go):
   a synchronous composition of state machines ("nodes") that consume a message stream and emit a
   message stream, ending in the event sequencer whose flushed output is the dataplane stream.

   Definitions only (the proofs are in Compose.v / Instances.v).

   What is modelled here, and at which level:
   * a node is [step : state -> input -> state * list output] (one Go callback = one step; the
     outputs are the callbacks the node makes synchronously into its consumers);
   * [pipe_seq]  = the producer calls the consumer synchronously for each of its outputs
     (ActiveRulesCalculator -> RuleScanner -> IP set member index -> EventSequencer ...);
   * [pipe_par]  = the dispatcher hands one update to several registered receivers in
     registration order, their outputs go (tagged) to whoever consumes them;
   * [pipe_map]  = a stateless filter/translation (ValidationFilter, the local-endpoint filter,
     the type dispatch of dispatcher.Dispatcher);
   * the real EventSequencer is the node [seq_node] built from Verif.C02.Model (its model, tied to
     event_sequencer.go by the C02 correspondence run).
   The concrete nodes of the graph that have their own Coq models elsewhere are NOT re-modelled
   here; Instances.v plugs their theorems into the generic composition theorem. *)
From Coq Require Import List.
Import ListNotations.

Record node (I O : Type) := Node {
  n_state : Type;
  n_init : n_state;
  n_step : n_state -> I -> n_state * list O
}.
Arguments Node {I O} _ _ _.
Arguments n_state {I O} _.
Arguments n_init {I O} _.
Arguments n_step {I O} _ _ _.

(* run a node over an input stream: final state and everything it emitted, in order *)
Fixpoint n_run {I O} (n : node I O) (s : n_state n) (is : list I) : n_state n * list O :=
  match is with
  | [] => (s, [])
  | i :: r => let '(s1, o1) := n_step n s i in
              let '(s2, o2) := n_run n s1 r in (s2, o1 ++ o2)
  end.
Definition n_outs {I O} (n : node I O) (is : list I) : list O := snd (n_run n (n_init n) is).
Definition n_final {I O} (n : node I O) (is : list I) : n_state n := fst (n_run n (n_init n) is).

(* producer calls consumer synchronously *)
Definition pipe_seq {A B C} (n1 : node A B) (n2 : node B C) : node A C :=
  Node (n_state n1 * n_state n2)%type (n_init n1, n_init n2)
       (fun s a => let '(s1, bs) := n_step n1 (fst s) a in
                   let '(s2, cs) := n_run n2 (snd s) bs in ((s1, s2), cs)).

(* one input handed to two receivers in registration order; outputs tagged by origin *)
Definition pipe_par {A B C} (n1 : node A B) (n2 : node A C) : node A (B + C) :=
  Node (n_state n1 * n_state n2)%type (n_init n1, n_init n2)
       (fun s a => let '(s1, bs) := n_step n1 (fst s) a in
                   let '(s2, cs) := n_step n2 (snd s) a in
                   ((s1, s2), map inl bs ++ map inr cs)).

(* stateless translation / filter *)
Definition pipe_map {A B} (f : A -> list B) : node A B :=
  Node unit tt (fun _ a => (tt, f a)).
