(* C01 — PolicyResolver + PolicySorter (model Verif.C03.Model, repaired OnPolicyMatchStopped) as a NODE of the
   abstract graph:
     input  stream: C03's operations (policy match started/stopped from the ActiveRulesCalculator, policy / tier /
                    local endpoint updates, in-sync, Flush); net state = C03's [net] (Spec.dstate);
     output stream: one message per operation = the list of OnEndpointTierUpdate calls it makes (only Flush makes any);
                    net state = the last update sent per endpoint (C03's [view_after]);
     node lemma:    at every history that ends with an in-sync Flush, the last update of EVERY local endpoint is
                    expected_tiers of the net state (up to the default action of tiers that do not exist), removed
                    endpoints have nothing or a "removed" update - from c03_no_stale_view + c03_flush_clears_dirty.
   Hypotheses inherited from C03 (explicit in [admitted3]): op_wf and order_ok (both vacuous for the name-proper
   tie-break, c03_hypotheses_name_tiebreak). *)
From Coq Require Import List NArith ZArith Bool.
From Verif.Common Require Import Labels.
From Verif.C03 Require Import Model Spec Resolver Refine Main Dirty.
From Verif.C01 Require Model Compose Refines.
Import ListNotations.

Module M := Verif.C01.Model.
Module Cp := Verif.C01.Compose.
Module Rf := Verif.C01.Refines.

Section N3.
  Variable v : variant.
  Hypothesis fixed : v_fixed v = true.

  Definition node3 : M.node op (list epout) :=
    M.Node st st0 (fun s o => let '(s', out) := step v s o in (s', [out])).

  Definition X3 : Cp.stype := Cp.SType op dstate D0 apply_op eq.

  (* the specification of the output: what every endpoint must have been told last *)
  Definition sat3 (VW : vview) (D : dstate) : Prop :=
    forall e,
      (In e (d_eps D) -> exists ts, VW e = Some (Some ts) /\ blank_missing D ts = expected_tiers D e)
      /\ (~ In e (d_eps D) -> VW e = None \/ VW e = Some None).

  Definition admitted3 (ops : list op) : Prop :=
    (exists ops' ord, ops = ops' ++ [Flush ord] /\ d_insync (net ops') = true)
    /\ Forall (op_wf v) ops /\ order_ok v (net ops).

  Lemma node3_view ops : forall s VW,
    stdpp.list.foldl upd_view VW (snd (M.n_run node3 s ops)) = view_from v s VW ops.
  Proof.
    induction ops as [|o r IH]; intros s VW; simpl; [reflexivity|].
    destruct (step v s o) as [s1 out] eqn:E. specialize (IH s1 (upd_view VW out)).
    destruct (M.n_run node3 s1 r) as [s2 os]. simpl in *. exact IH.
  Qed.

  Theorem node3_refines :
    Rf.refines (X := X3) (fun _ => None) upd_view sat3 node3 admitted3 (fun D => D).
  Proof.
    intros ops ((ops' & ord & -> & Hs) & Hw & Ho).
    unfold M.n_outs. change (M.n_init node3) with st0. rewrite node3_view.
    change (view_from v st0 (fun _ => None) (ops' ++ [Flush ord])) with (view_after v (ops' ++ [Flush ord])).
    assert (EN : Cp.net X3 (ops' ++ [Flush ord]) = net (ops' ++ [Flush ord])).
    { unfold Cp.net, net. apply Rf.foldl_fold_left. }
    rewrite EN. intros e.
    apply (no_stale_view v (ops' ++ [Flush ord]) e fixed Hw Ho).
    rewrite (flush_clears_dirty v ops' ord Hs). intros [].
  Qed.

  Definition Y3 : Cp.stype := Rf.rstype (list epout) vview dstate (fun _ => None) upd_view sat3.
  Theorem node3_hf : Cp.hf (X := X3) (Y := Y3) node3 admitted3 (fun _ => True) (fun D => inr D).
  Proof. apply Rf.refines_hf, node3_refines. Qed.
End N3.
