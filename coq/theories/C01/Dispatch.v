(* C01 — the cheap stateless parts, proved for every history:
   * dispatcher routing / type filters (dispatcher.Dispatcher hands a receiver only the keys it registered for; the
     local / remote endpoint filters drop endpoints of other hosts): the stream a receiver sees describes exactly the
     restriction of the datastore to its keys ([route_hf]);
   * a generic passthru slice (DataplanePassthru for IP pools, host metadata, Wireguard keys; ProfileDecoder for
     service accounts and namespaces once the decoding of the value is given): every upsert / delete of a key of the
     slice becomes the update / remove of one reference-free dataplane object ([passthru_hf]). *)
From stdpp Require Import gmap.
From Verif.Common Require Import Sync.
From Verif.C02 Require Import Model Spec Proofs.
From Verif.C01 Require Import Model Compose Spec Instances Fanin Refines Graph.
Local Open Scope N_scope.

Section Route.
  Context {K : Type} `{Countable K} {V : Type}.
  Variable want : K → bool.          (* the keys the receiver registered for / that pass the filter *)

  Definition dispatch (m : dmsg K V) : list (dmsg K V) :=
    match m with
    | DOp o => if want (op_key o) then [m] else []
    | _ => [m]                        (* status (in-sync) and flush reach every receiver *)
    end.
  Definition restrict (s : gmap K V * bool) : gmap K V * bool := (filter (λ kv, want kv.1 = true) s.1, s.2).

  Lemma route_hf : hf (X := DS K V) (Y := DS K V) (pipe_map dispatch) (λ _, True) (λ _, True) restrict.
  Proof.
    apply (hf_map_hom (X := DS K V) (Y := DS K V) dispatch restrict).
    - intros ?. reflexivity.
    - unfold restrict. simpl. by rewrite map_filter_empty.
    - intros [m b] [[k v|k]| |]; unfold dispatch, restrict; simpl; try done.
      + destruct (want k) eqn:E; simpl.
        * f_equal. by rewrite map_filter_insert_True.
        * f_equal. rewrite map_filter_insert_not'; [done|simpl; congruence|].
          intros y _. simpl. congruence.
      + destruct (want k) eqn:E; simpl.
        * f_equal. by rewrite map_filter_delete.
        * f_equal. rewrite map_filter_delete. symmetry. apply delete_notin.
          apply map_filter_lookup_None. right. intros x _. simpl. congruence.
  Qed.
End Route.

Section Passthru.
  Context {K : Type} `{Countable K} {Val : Type}.
  Variable kd : kind.
  Variable idof : K → N.
  Context `{!Inj (=) (=) idof}.
  Variable verof : Val → N.           (* digest of the payload *)
  Hypothesis kd_not_ipset : kd ≠ KIPSet.

  Definition pt_cell (k : K) : cell := (kd, idof k).
  Global Instance pt_cell_inj : Inj (=) (=) pt_cell.
  Proof. intros a b [=]. by apply (inj idof). Qed.

  Definition pt_tr (m : dmsg K Val) : list sev :=
    match m with
    | DOp (Upsert k v) => [SCb (CUpdate (pt_cell k) (V [] (verof v)))]
    | DOp (Delete k) => [SCb (CRemove (pt_cell k))]
    | _ => []
    end.
  Definition passthru : node (dmsg K Val) sev := pipe_map pt_tr.
  Definition pt_world (s : gmap K Val * bool) : world :=
    {| w_sets := ∅; w_kv := kmap pt_cell ((λ v, V [] (verof v)) <$> s.1) |}.

  Lemma pt_step s m : foldl cb_apply (pt_world s) (pt_tr m) = pt_world (ds_apply s m).
  Proof.
    destruct s as [mp b]. destruct m as [[k v|k]| |]; simpl; unfold pt_world; simpl; try done.
    - f_equal. rewrite fmap_insert, kmap_insert; [done|apply _].
    - f_equal. rewrite fmap_delete, kmap_delete; [done|apply _].
  Qed.

  Lemma pt_class m : Forall (in_class (kclass [kd])) (pt_tr m).
  Proof.
    destruct m as [[k v|k]| |]; simpl; repeat constructor; unfold in_class, kclass; simpl; apply elem_of_list_singleton; done.
  Qed.

  Theorem passthru_hf (P : list (dmsg K Val) → Prop) :
    hf (X := DS K Val) (Y := CB) passthru P (Forall (in_class (kclass [kd]))) pt_world.
  Proof.
    intros is _. unfold passthru. rewrite map_outs. split.
    - induction is as [|m r IH]; [constructor|]. rewrite bind_cons. apply Forall_app. split; [apply pt_class|exact IH].
    - change (foldl cb_apply world0 (is ≫= pt_tr) = pt_world (foldl ds_apply (∅, false) is)).
      assert (E0 : world0 = pt_world (∅, false)).
      { unfold pt_world, world0. simpl. by rewrite fmap_empty, kmap_empty. }
      rewrite E0. generalize (∅ : gmap K Val, false). induction is as [|m r IH]; intros s; [done|].
      rewrite bind_cons, foldl_app, pt_step. apply IH.
  Qed.
End Passthru.
