(* C01 — the generic composition theory.

   A stream type [stype] is a message type together with the NET STATE its streams describe
   ([s_net], a fold of [s_apply] from [s_net0]) and the notion of "same net state" ([s_eqv], plain
   equality for all concrete stream types below except member families given as functions).

   [hf n P Q F] ("history-free", the node_function_of_state shape of C02/C04/C07/C36):
       for every input stream [is] admitted by [P], the outputs of node [n] are admitted by [Q]
       and   net (everything n emitted)  ~  F (net is).
   [P] carries both the contract the producer must respect and the points at which the claim is
   made (for buffering nodes: "... and the stream ends with a flush").

   Theorems: history-free nodes compose (sequentially = producer calls consumer; in parallel =
   the dispatcher's fan-out; stateless maps), and a history-free pipeline's output net state is
   the same for any two admitted histories with the same input net state. *)
From stdpp Require Import gmap.
From Verif.C01 Require Import Model.

(* ------------------------------------------------------------------ run lemmas *)
Lemma n_run_app {I O} (n : node I O) s a b :
  n_run n s (a ++ b) =
  let '(s1, o1) := n_run n s a in let '(s2, o2) := n_run n s1 b in (s2, o1 ++ o2).
Proof.
  revert s; induction a as [|i a IH]; intros s; simpl.
  - destruct (n_run n s b); reflexivity.
  - destruct (n_step n s i) as [s1 o1]. rewrite IH.
    destruct (n_run n s1 a) as [s2 o2]. destruct (n_run n s2 b) as [s3 o3].
    now rewrite app_assoc.
Qed.

Lemma seq_run_gen {A B C} (n1 : node A B) (n2 : node B C) s1 s2 is :
  n_run (pipe_seq n1 n2) (s1, s2) is =
  let '(s1', bs) := n_run n1 s1 is in let '(s2', cs) := n_run n2 s2 bs in ((s1', s2'), cs).
Proof.
  revert s1 s2; induction is as [|i r IH]; intros s1 s2; simpl; [reflexivity|].
  destruct (n_step n1 s1 i) as [t1 bs] eqn:E1.
  destruct (n_run n2 s2 bs) as [t2 cs] eqn:E2.
  rewrite IH. destruct (n_run n1 t1 r) as [u1 bs'] eqn:E3.
  rewrite n_run_app, E2. destruct (n_run n2 t2 bs') as [u2 cs']; reflexivity.
Qed.

Lemma seq_outs {A B C} (n1 : node A B) (n2 : node B C) is :
  n_outs (pipe_seq n1 n2) is = n_outs n2 (n_outs n1 is).
Proof.
  unfold n_outs. change (n_init (pipe_seq n1 n2)) with (n_init n1, n_init n2).
  rewrite seq_run_gen. destruct (n_run n1 (n_init n1) is) as [s1 bs]; simpl.
  destruct (n_run n2 (n_init n2) bs); reflexivity.
Qed.

Definition lefts {B C} (l : list (B + C)) : list B := omap (λ x, match x with inl b => Some b | inr _ => None end) l.
Definition rights {B C} (l : list (B + C)) : list C := omap (λ x, match x with inr c => Some c | inl _ => None end) l.

Lemma lefts_app {B C} (a b : list (B + C)) : lefts (a ++ b) = lefts a ++ lefts b.
Proof. apply omap_app. Qed.
Lemma rights_app {B C} (a b : list (B + C)) : rights (a ++ b) = rights a ++ rights b.
Proof. apply omap_app. Qed.
Lemma lefts_inl {B C} (l : list B) : lefts (map (@inl B C) l) = l.
Proof. induction l; simpl; [done|]. unfold lefts in *. simpl. by f_equal. Qed.
Lemma lefts_inr {B C} (l : list C) : lefts (map (@inr B C) l) = [].
Proof. induction l; simpl; [done|]. unfold lefts in *. by simpl. Qed.
Lemma rights_inr {B C} (l : list C) : rights (map (@inr B C) l) = l.
Proof. induction l; simpl; [done|]. unfold rights in *. simpl. by f_equal. Qed.
Lemma rights_inl {B C} (l : list B) : rights (map (@inl B C) l) = [].
Proof. induction l; simpl; [done|]. unfold rights in *. by simpl. Qed.

Lemma par_run_gen {A B C} (n1 : node A B) (n2 : node A C) s1 s2 is :
  let '(s, os) := n_run (pipe_par n1 n2) (s1, s2) is in
  s = (fst (n_run n1 s1 is), fst (n_run n2 s2 is)) ∧
  lefts os = snd (n_run n1 s1 is) ∧ rights os = snd (n_run n2 s2 is).
Proof.
  revert s1 s2; induction is as [|i r IH]; intros s1 s2; simpl; [done|].
  destruct (n_step n1 s1 i) as [t1 bs]. destruct (n_step n2 s2 i) as [t2 cs].
  specialize (IH t1 t2).
  destruct (n_run (pipe_par n1 n2) (t1, t2) r) as [s os].
  destruct (n_run n1 t1 r) as [u1 bs']. destruct (n_run n2 t2 r) as [u2 cs'].
  simpl in *. destruct IH as (-> & IHl & IHr). split; [done|].
  rewrite !lefts_app, !rights_app, lefts_inl, lefts_inr, rights_inl, rights_inr, IHl, IHr.
  by rewrite app_nil_r.
Qed.

Lemma par_outs {A B C} (n1 : node A B) (n2 : node A C) is :
  lefts (n_outs (pipe_par n1 n2) is) = n_outs n1 is ∧
  rights (n_outs (pipe_par n1 n2) is) = n_outs n2 is.
Proof.
  unfold n_outs. change (n_init (pipe_par n1 n2)) with (n_init n1, n_init n2).
  pose proof (par_run_gen n1 n2 (n_init n1) (n_init n2) is) as H.
  destruct (n_run (pipe_par n1 n2) (n_init n1, n_init n2) is) as [s os]. simpl. tauto.
Qed.

Lemma map_outs {A B} (f : A → list B) is : n_outs (pipe_map f) is = is ≫= f.
Proof.
  unfold n_outs. simpl. generalize tt. induction is as [|i r IH]; intros u; simpl; [done|].
  destruct u. specialize (IH tt). destruct (n_run (pipe_map f) tt r) as [s os]. simpl in *. by rewrite IH.
Qed.

(* ------------------------------------------------------------------ stream types and history-freeness *)
Record stype := SType {
  s_msg : Type;
  s_net : Type;
  s_net0 : s_net;
  s_apply : s_net → s_msg → s_net;
  s_eqv : s_net → s_net → Prop
}.
Definition net (X : stype) (ms : list (s_msg X)) : s_net X := foldl (s_apply X) (s_net0 X) ms.

Definition hf {X Y : stype} (n : node (s_msg X) (s_msg Y))
    (P : list (s_msg X) → Prop) (Q : list (s_msg Y) → Prop) (F : s_net X → s_net Y) : Prop :=
  ∀ is, P is → Q (n_outs n is) ∧ s_eqv Y (net Y (n_outs n is)) (F (net X is)).

(* the same through an abstraction of the node's state: abs (state after any history) = f (current inputs),
   and what has been emitted is a function of abs *)
Definition node_function_of_state {X Y : stype} (n : node (s_msg X) (s_msg Y))
    (P : list (s_msg X) → Prop) (Q : list (s_msg Y) → Prop)
    {A} (abs : n_state n → A) (f : s_net X → A) (g : A → s_net Y) : Prop :=
  ∀ is, P is → Q (n_outs n is) ∧ abs (n_final n is) = f (net X is)
                ∧ s_eqv Y (net Y (n_outs n is)) (g (abs (n_final n is))).

Lemma fos_hf {X Y} (n : node (s_msg X) (s_msg Y)) P Q {A} (abs : n_state n → A) f g :
  node_function_of_state n P Q abs f g → hf n P Q (g ∘ f).
Proof. intros H is HP. destruct (H is HP) as (HQ & Ha & Ho). split; [exact HQ|]. unfold compose. rewrite <-Ha. exact Ho. Qed.

Lemma hf_weaken {X Y} (n : node (s_msg X) (s_msg Y)) (P P' : _ → Prop) (Q Q' : _ → Prop) F :
  (∀ is, P' is → P is) → (∀ os, Q os → Q' os) → hf n P Q F → hf n P' Q' F.
Proof. intros HP HQ H is Hi. destruct (H is (HP _ Hi)). eauto. Qed.

(* producer -> consumer *)
Lemma hf_seq {X Y Z} (n1 : node (s_msg X) (s_msg Y)) (n2 : node (s_msg Y) (s_msg Z)) P Q R F1 F2 :
  Transitive (s_eqv Z) →
  (∀ a b, s_eqv Y a b → s_eqv Z (F2 a) (F2 b)) →
  hf n1 P Q F1 → hf n2 Q R F2 → hf (pipe_seq n1 n2) P R (F2 ∘ F1).
Proof.
  intros HT HF H1 H2 is HP. rewrite seq_outs.
  destruct (H1 is HP) as [HQ E1]. destruct (H2 _ HQ) as [HR E2]. split; [done|].
  simpl. etrans; [exact E2|]. by apply HF.
Qed.

(* fan-out of one stream to two receivers: tagged union of the outputs, product of the net states *)
Definition ssum (Y1 Y2 : stype) : stype :=
  SType (s_msg Y1 + s_msg Y2) (s_net Y1 * s_net Y2) (s_net0 Y1, s_net0 Y2)
        (λ s m, match m with inl a => (s_apply Y1 s.1 a, s.2) | inr b => (s.1, s_apply Y2 s.2 b) end)
        (λ a b, s_eqv Y1 a.1 b.1 ∧ s_eqv Y2 a.2 b.2).

Lemma foldl_ssum Y1 Y2 (os : list (s_msg (ssum Y1 Y2))) s1 s2 :
  foldl (s_apply (ssum Y1 Y2)) (s1, s2) os =
  (foldl (s_apply Y1) s1 (lefts os), foldl (s_apply Y2) s2 (rights os)).
Proof.
  revert s1 s2. induction os as [|[a|b] r IH]; intros s1 s2; [done| |].
  - change (lefts (inl a :: r)) with (a :: lefts r). change (rights (inl a :: r)) with (rights r).
    simpl. apply IH.
  - change (lefts (inr b :: r)) with (lefts r). change (rights (inr b :: r)) with (b :: rights r).
    simpl. apply IH.
Qed.
Lemma net_ssum Y1 Y2 (os : list (s_msg (ssum Y1 Y2))) :
  net (ssum Y1 Y2) os = (net Y1 (lefts os), net Y2 (rights os)).
Proof. apply foldl_ssum. Qed.

Lemma hf_par {X Y1 Y2} (n1 : node (s_msg X) (s_msg Y1)) (n2 : node (s_msg X) (s_msg Y2)) P Q1 Q2 F1 F2 :
  hf n1 P Q1 F1 → hf n2 P Q2 F2 →
  hf (Y := ssum Y1 Y2) (pipe_par n1 n2) P (λ os, Q1 (lefts os) ∧ Q2 (rights os)) (λ s, (F1 s, F2 s)).
Proof.
  intros H1 H2 is HP.
  destruct (H1 is HP) as [HQ1 E1]. destruct (H2 is HP) as [HQ2 E2].
  pose proof (net_ssum Y1 Y2 (n_outs (pipe_par n1 n2) is)) as En.
  pose proof (par_outs n1 n2 is) as [El Er].
  split.
  - split.
    + change (Q1 (lefts (n_outs (pipe_par n1 n2) is))). by rewrite El.
    + change (Q2 (rights (n_outs (pipe_par n1 n2) is))). by rewrite Er.
  - change (s_eqv Y1 (net (ssum Y1 Y2) (n_outs (pipe_par n1 n2) is)).1 (F1 (net X is)) ∧
            s_eqv Y2 (net (ssum Y1 Y2) (n_outs (pipe_par n1 n2) is)).2 (F2 (net X is))).
    rewrite En. simpl.
    change (s_eqv Y1 (net Y1 (lefts (n_outs (pipe_par n1 n2) is))) (F1 (net X is)) ∧
            s_eqv Y2 (net Y2 (rights (n_outs (pipe_par n1 n2) is))) (F2 (net X is))).
    by rewrite El, Er.
Qed.

(* stateless translation whose image stream has a net state determined by the source's *)
Lemma hf_map {X Y : stype} (f : s_msg X → list (s_msg Y)) (P : _ → Prop) (Q : _ → Prop) G :
  (∀ is, P is → Q (is ≫= f) ∧ s_eqv Y (net Y (is ≫= f)) (G (net X is))) →
  hf (pipe_map f) P Q G.
Proof. intros H is HP. rewrite map_outs. auto. Qed.

(* ------------------------------------------------------------------ the consequence: no hysteresis *)
Theorem hf_history_independent {X Y} (n : node (s_msg X) (s_msg Y)) P Q F :
  Symmetric (s_eqv Y) → Transitive (s_eqv Y) →
  (∀ a b, s_eqv X a b → s_eqv Y (F a) (F b)) →
  hf n P Q F →
  ∀ h1 h2, P h1 → P h2 → s_eqv X (net X h1) (net X h2) →
  s_eqv Y (net Y (n_outs n h1)) (net Y (n_outs n h2)).
Proof.
  intros HS HT HF H h1 h2 P1 P2 E.
  destruct (H h1 P1) as [_ E1]. destruct (H h2 P2) as [_ E2].
  etrans; [exact E1|]. etrans; [apply HF, E|]. by symmetry.
Qed.
