(* C01 — generic composition lemmas over Model.v *)
From Coq Require Import List.
From Verif.C01 Require Import Model.
Import ListNotations.

Lemma n_run_app {I O} (n : node I O) s a b :
  n_run n s (a ++ b) =
  let '(s1, o1) := n_run n s a in let '(s2, o2) := n_run n s1 b in (s2, o1 ++ o2).
Proof.
  revert s; induction a as [|i a IH]; intros s; simpl.
  - destruct (n_run n s b); reflexivity.
  - destruct (n_step n s i) as [s1 o1]. rewrite IH.
    destruct (n_run n s1 a) as [s2 o2]. destruct (n_run n s2 b) as [s3 o3].
    now rewrite app_assoc.
Qed.

Lemma seq_run_gen {A B C} (n1 : node A B) (n2 : node B C) s1 s2 is :
  n_run (pipe_seq n1 n2) (s1, s2) is =
  let '(s1', bs) := n_run n1 s1 is in let '(s2', cs) := n_run n2 s2 bs in ((s1', s2'), cs).
Proof.
  revert s1 s2; induction is as [|i r IH]; intros s1 s2; simpl; [reflexivity|].
  destruct (n_step n1 s1 i) as [t1 bs] eqn:E1.
  destruct (n_run n2 s2 bs) as [t2 cs] eqn:E2.
  rewrite IH. destruct (n_run n1 t1 r) as [u1 bs'] eqn:E3.
  rewrite n_run_app, E2. destruct (n_run n2 t2 bs') as [u2 cs']; reflexivity.
Qed.

Lemma seq_outs {A B C} (n1 : node A B) (n2 : node B C) is :
  n_outs (pipe_seq n1 n2) is = n_outs n2 (n_outs n1 is).
Proof.
  unfold n_outs. change (n_init (pipe_seq n1 n2)) with (n_init n1, n_init n2).
  rewrite seq_run_gen. destruct (n_run n1 (n_init n1) is) as [s1 bs]; simpl.
  destruct (n_run n2 (n_init n2) bs); reflexivity.
Qed.
