(* C01 — the composition theorem instantiated.

   Stream types of the calculation graph:
     DS  datastore updates (Common/Sync.op upserts/deletes + in-sync + flush request); net state =
         (finite map key -> value, in-sync seen)  — "the current datastore state";
     CB  what the graph's nodes call on the EventSequencer (Verif.C02.Model.sev: callbacks + flush);
         net state = C02's upstream world;
     DP  what the EventSequencer hands to the dataplane (Verif.C02.Model.msg); net state = C02's
         dataplane world = Spec.dp_of.
   Nodes with a Coq model and a proved function-of-state theorem that are plugged in here:
     * the EventSequencer  (C02: c02_net_effect, c02_no_panic)                       -> [seq_node], [seq_node_hf]
     * the IP set member index  (C04: c04_members_exact_view)                         -> [ipset_index_history_free]
     * the label inheritance index  (C07: c07_index_exact)                            -> [label_index_history_free]
   Every other node enters [c01_graph_*] through the hypothesis that the part of the graph in front of the
   sequencer is history-free ([hf up ...]); see Props.v for the list. *)
From stdpp Require Import gmap.
From Verif.Common Require Import Sync.
From Verif.C02 Require Import Model Spec Proofs.
From Verif.C01 Require Import Model Spec Compose.

(* ------------------------------------------------------------------ DS: the datastore stream *)
Section DS.
  Context {K : Type} `{Countable K} {V : Type}.

  Inductive dmsg := DOp (o : op K V) | DInSync | DFlush.

  Definition ds_apply (s : gmap K V * bool) (m : dmsg) : gmap K V * bool :=
    match m with
    | DOp o => (apply_op s.1 o, s.2)
    | DInSync => (s.1, true)
    | DFlush => s
    end.
  Definition DS : stype := SType dmsg (gmap K V * bool) (∅, false) ds_apply eq.

  (* "the latest state has been delivered, in-sync has been signalled and Felix has flushed" *)
  Definition settled (h : list dmsg) : Prop := ∃ h', h = h' ++ [DFlush] ∧ DInSync ∈ h'.

  (* a freshly started Felix fed only the state: one upsert per key, in the order of the enumeration *)
  Definition fresh (e : list (K * V)) : list dmsg :=
    map (λ kv, DOp (Upsert kv.1 kv.2)) e ++ [DInSync; DFlush].

  Lemma foldl_ds_ops s (e : list (K * V)) :
    foldl ds_apply s (map (λ kv, DOp (Upsert kv.1 kv.2)) e) =
    (apply_ops s.1 (map (λ kv, Upsert kv.1 kv.2) e), s.2).
  Proof.
    revert s. induction e as [|[k v] r IH]; intros [m b]; simpl; [done|]. by rewrite IH.
  Qed.

  Lemma upsert_keys (e : list (K * V)) : map op_key (map (λ kv : K * V, Upsert kv.1 kv.2) e) = e.*1.
  Proof. induction e as [|[k v] r IH]; simpl; [done|]. by f_equal. Qed.

  Lemma apply_upserts (e : list (K * V)) :
    NoDup e.*1 → apply_ops ∅ (map (λ kv, Upsert kv.1 kv.2) e) = list_to_map e.
  Proof.
    intros ND. apply apply_ops_snapshot. intros k.
    destruct (list_to_map e !! k) as [v|] eqn:E.
    - apply elem_of_list_to_map_2 in E.
      apply (last_op_NoDup k _ (Upsert k v)); [by rewrite upsert_keys| |done].
      apply elem_of_list_fmap. by exists (k, v).
    - apply not_elem_of_list_to_map in E.
      rewrite decide_False; [|rewrite lookup_empty; by intros [? ?]].
      apply last_op_None. by rewrite upsert_keys.
  Qed.

  Lemma net_fresh (e : list (K * V)) :
    NoDup e.*1 → net DS (fresh e) = (list_to_map e, true).
  Proof.
    intros ND. unfold net, fresh.
    change (foldl ds_apply (∅, false) (map (λ kv : K * V, DOp (Upsert kv.1 kv.2)) e ++ [DInSync; DFlush])
            = (list_to_map e, true)).
    rewrite foldl_app, (foldl_ds_ops (∅, false)). simpl.
    by rewrite apply_upserts.
  Qed.

  Lemma net_settled h : settled h → (net DS h).2 = true.
  Proof.
    intros (h' & -> & Hin). unfold net. rewrite foldl_app. simpl.
    assert (G : ∀ l s, (s.2 = true ∨ DInSync ∈ l) → (foldl ds_apply s l).2 = true).
    { induction l as [|m r IH]; intros s [Hs|Hl]; simpl; [done|by apply elem_of_nil in Hl| |].
      - apply IH. left. destruct m; simpl; done.
      - apply elem_of_cons in Hl as [<-|Hl]; apply IH; [by left|by right]. }
    apply G. by right.
  Qed.

  Lemma fresh_settled e : settled (fresh e).
  Proof.
    exists (map (λ kv, DOp (Upsert kv.1 kv.2)) e ++ [DInSync]). split.
    - unfold fresh. by rewrite <-app_assoc.
    - apply elem_of_app. right. by apply elem_of_list_singleton.
  Qed.
End DS.
Arguments dmsg : clear implicits.
Arguments DS K {_ _} V.

(* ------------------------------------------------------------------ CB and DP: sequencer input / output *)
Definition cb_apply (w : world) (e : sev) : world :=
  match e with SCb c => apply_cb w c | SFlush _ => w end.
Definition CB : stype := SType sev world world0 cb_apply eq.
Definition DP : stype := SType msg world world0 apply_msg eq.

Lemma net_DP ms : net DP ms = dp_of ms.
Proof. reflexivity. Qed.

Lemma upstream_foldl w h : upstream w h = foldl cb_apply w h.
Proof. revert w. induction h as [|[c|o] r IH]; intros w; simpl; auto. Qed.
Lemma net_CB h : net CB h = upstream world0 h.
Proof. by rewrite upstream_foldl. Qed.

(* the EventSequencer as a node; [None] = the Go code panicked (log.Panic in OnIPSet...) and stays dead *)
Definition seq_node (late : bool) : node sev msg :=
  Node (option seqst) (Some seq0)
       (λ s e, match s with
               | Some st => match seq_step late st e with
                            | Some (st', ms) => (Some st', ms)
                            | None => (None, [])
                            end
               | None => (None, [])
               end).

Lemma seq_node_run late st h q ms :
  seq_run late st h = Some (q, ms) → n_run (seq_node late) (Some st) h = (Some q, ms).
Proof.
  revert st q ms. induction h as [|e r IH]; intros st q ms; simpl.
  - by intros [= -> ->].
  - destruct (seq_step late st e) as [[s1 m1]|] eqn:E1; simpl; [|done].
    destruct (seq_run late s1 r) as [[s2 m2]|] eqn:E2; simpl; [|done].
    intros [= -> <-]. by rewrite (IH _ _ _ E2).
Qed.

(* admitted sequencer inputs: inside C02's upstream contract, ending with a flush *)
Definition seq_admits (late : bool) (h : list sev) : Prop :=
  ∃ h' o, h = h' ++ [SFlush o] ∧ contract_gen late world0 world0 h.

(* c02_net_effect in the node_function_of_state shape: what the sequencer has emitted up to a flush describes
   exactly the net state of everything it was told (identity function on worlds) *)
Lemma seq_node_hf late : hf (X := CB) (Y := DP) (seq_node late) (seq_admits late) (λ _, True) id.
Proof.
  intros h (h' & o & -> & Hc). split; [done|]. simpl.
  destruct (no_panic late _ Hc) as [[q ms] Hr].
  unfold n_outs. simpl. rewrite (seq_node_run _ _ _ _ _ Hr). simpl.
  change (net DP ms = net CB (h' ++ [SFlush o])).
  rewrite net_CB, net_DP. unfold dp_of.
  rewrite (net_effect late h' o q ms Hc Hr).
  rewrite !upstream_foldl, foldl_app. done.
Qed.

(* ------------------------------------------------------------------ the whole graph *)
Section Graph.
  Context {K : Type} `{Countable K} {V : Type}.
  (* everything in front of the sequencer (ValidationFilter, dispatchers, ARC, rule scanner, IP set member index,
     policy resolver + sorter, route/VTEP resolvers, passthru, ...) as ONE pipeline from datastore updates to
     sequencer callbacks *)
  Variable up : node (dmsg K V) sev.
  Variable late : bool.
  Variable admitted : list (dmsg K V) → Prop.       (* the histories the claim is about *)
  Variable Fup : gmap K V * bool → world.           (* what the nodes compute from the current datastore state *)

  Definition graph : node (dmsg K V) msg := pipe_seq up (seq_node late).

  (* the hypothesis every node lemma has to add up to: for admitted histories the front part respects the
     sequencer's contract, flushes the sequencer last, and the net state of its callbacks is Fup (datastore) *)
  Hypothesis up_hf : hf (X := DS K V) (Y := CB) up admitted (seq_admits late) Fup.

  Lemma graph_hf : hf (X := DS K V) (Y := DP) graph admitted (λ _, True) Fup.
  Proof.
    apply (hf_seq (X := DS K V) (Y := CB) (Z := DP) up (seq_node late) admitted (seq_admits late) (λ _, True) Fup id).
    - intros a b c -> ->. done.
    - by intros a b ->.
    - exact up_hf.
    - apply seq_node_hf.
  Qed.

  (* the flushed dataplane is a function of the final datastore state ... *)
  Theorem graph_function_of_state h :
    admitted h → dp_of (n_outs graph h) = Fup (net (DS K V) h).
  Proof. intros Ha. destruct (graph_hf h Ha) as [_ E]. exact E. Qed.

  (* ... hence equal to what a freshly started Felix emits when fed only that state, in any order *)
  Theorem graph_history_independent h D e :
    admitted h → settled h → (net (DS K V) h).1 = D →
    NoDup e.*1 → list_to_map e = D → admitted (fresh e) →
    dp_of (n_outs graph h) = dp_of (n_outs graph (fresh e)).
  Proof.
    intros Ha Hs HD ND He Hf.
    rewrite (graph_function_of_state h Ha), (graph_function_of_state _ Hf). f_equal.
    rewrite (net_fresh e ND), He.
    destruct (net (DS K V) h) as [m b] eqn:E. simpl in HD. subst m.
    pose proof (net_settled h Hs) as Hb. rewrite E in Hb. simpl in Hb. by subst b.
  Qed.
End Graph.
