(* C01 — theorems (statements only; proofs in Compose.v / Instances.v). *)
From Coq Require Import List.
From Verif.C01 Require Import Model Spec Compose.
Import ListNotations.

(* running a synchronous producer->consumer composition = running the consumer on everything the producer emitted *)
Theorem c01_seq_outs : forall A B C (n1 : node A B) (n2 : node B C) is,
  n_outs (pipe_seq n1 n2) is = n_outs n2 (n_outs n1 is).
Proof. exact @seq_outs. Qed.
Print Assumptions c01_seq_outs.
