(* C01 — Felix's computed dataplane state depends only on the current datastore state.
   Theorems only (proofs: Compose.v generic theory, Instances.v sequencer + whole graph, Passthru.v a closed
   instance, InstC04.v / InstC07.v the index nodes).

   Vocabulary
     node I O            a calc-graph node: state machine  step : state -> I -> state * list O   (Model.v)
     pipe_seq / pipe_par / pipe_map     producer calls consumer / dispatcher fan-out / stateless filter
     stype, net X ms     a stream type with the NET STATE a stream describes (fold of its messages)
     hf n P Q F          node n is HISTORY-FREE on the input streams admitted by P: its outputs are admitted by Q and
                         net (everything n emitted) = F (net inputs)          [the node_function_of_state shape]
     DS K V              datastore update streams (upsert / delete / in-sync / flush); net = (current state, in-sync seen)
     CB, DP              sequencer input (callbacks + flush, C02's sev) and output (C02's msg); net DP = Spec.dp_of
     graph up late       the calculation graph:  up  (everything in front of the sequencer)  ;  EventSequencer model of C02

   STATUS OF THE MAIN THEOREM (c01_history_independent_partial, six slices, below): PARTIAL BY DESIGN.  The generic form
   c01_graph_history_independent is proved for an abstract
   graph whose front part `up` is history-free (hypothesis up_hf).  Nodes for which that hypothesis is DISCHARGED by a
   machine-checked theorem about a model tied to the Go code:
       EventSequencer (C02: net effect + no panic)            - built into `graph`, theorem c01_sequencer_net_effect
       IP set member index (C04: members exact, view form)    - c01_node_function_of_state_ipsetidx, and as a node of the
                                                                abstract graph with its hf lemma: c01_ipset_index_node_hf
       label inheritance index (C07: index exact)             - c01_node_function_of_state_inherit, and as a node of the
                                                                abstract graph with its hf lemma: c01_inherit_index_node_hf
       IP pool passthru (this directory, Passthru.v)          - c01_history_independent_pools: NO hypothesis left
   Nodes that enter ONLY through up_hf (no Coq model here; they are exercised by the correspondence run against the
   real graph): ValidationFilter, dispatchers and local/remote endpoint filters, ActiveRulesCalculator, RuleScanner,
   PolicyResolver + PolicySorter (C03; NOT history-free as found: stale-policy-sorter-entry, repaired in /repo by
   f345ed5, and deleted-tier-keeps-default-action, open), L3RouteResolver (C43 proves order independence for node and
   pool updates only; NOT history-free for block updates: known finding block-update-leaves-contained-routes-stale,
   modelled in L3Reflag.v with the repaired variant proved history-free),
   VXLANResolver, EncapsulationResolver, DataplanePassthru (host metadata, service accounts, namespaces, wireguard),
   ProfileDecoder, CIDR trie (C36 proves the trie = the set of stored prefixes).
   Excluded from the generated universe and from the claim: LiveMigrationCalculator, IstioCalculator,
   ActiveBGPPeerCalculator, ServiceIndex, ConfigBatcher (config updates restart Felix), lookup caches. *)
From stdpp Require Import gmap.
From Verif.Common Require Import Sync.
From Verif.C02 Require Import Model Spec.
From Verif.C01 Require Import Model Spec Compose Instances Passthru L3Reflag L3Meets RoutesPools Fanin Refines Graph Dispatch RuleScanner GraphExample Slices Vxlan VxlanSlice VtepPipe.
From Verif.C01 Require InstC04 InstC07 NodeC07 NodeC04 NodeC03 NodeC05 NodeC43.

(* --- the graph model: a synchronous producer->consumer composition runs the consumer on everything the producer emitted *)
Theorem c01_seq_outs : forall A B C (n1 : node A B) (n2 : node B C) is,
  n_outs (pipe_seq n1 n2) is = n_outs n2 (n_outs n1 is).
Proof. exact @seq_outs. Qed.
Print Assumptions c01_seq_outs.

(* --- generic composition: history-free nodes compose *)
Theorem c01_compose_seq : forall (X Y Z : stype) (n1 : node (s_msg X) (s_msg Y)) (n2 : node (s_msg Y) (s_msg Z)) P Q R F1 F2,
  Transitive (s_eqv Z) -> (forall a b, s_eqv Y a b -> s_eqv Z (F2 a) (F2 b)) ->
  hf n1 P Q F1 -> hf n2 Q R F2 -> hf (pipe_seq n1 n2) P R (F2 ∘ F1).
Proof. exact @hf_seq. Qed.
Print Assumptions c01_compose_seq.

Theorem c01_compose_par : forall (X Y1 Y2 : stype) (n1 : node (s_msg X) (s_msg Y1)) (n2 : node (s_msg X) (s_msg Y2)) P Q1 Q2 F1 F2,
  hf n1 P Q1 F1 -> hf n2 P Q2 F2 ->
  hf (Y := ssum Y1 Y2) (pipe_par n1 n2) P (fun os => Q1 (lefts os) /\ Q2 (rights os)) (fun s => (F1 s, F2 s)).
Proof. exact @hf_par. Qed.
Print Assumptions c01_compose_par.

Theorem c01_compose_map : forall (X Y : stype) (f : s_msg X -> list (s_msg Y)) (P : _ -> Prop) (Q : _ -> Prop) G,
  (forall is, P is -> Q (is ≫= f) /\ s_eqv Y (net Y (is ≫= f)) (G (net X is))) -> hf (pipe_map f) P Q G.
Proof. exact @hf_map. Qed.
Print Assumptions c01_compose_map.

(* the shape proved per node in C02/C04/C07/C36: abs (state after any history) = f (current inputs), and what was
   emitted is a function of abs  ==>  history-free *)
Theorem c01_node_function_of_state : forall (X Y : stype) (n : node (s_msg X) (s_msg Y)) P Q A (abs : n_state n -> A) f g,
  node_function_of_state n P Q abs f g -> hf n P Q (g ∘ f).
Proof. exact @fos_hf. Qed.
Print Assumptions c01_node_function_of_state.

(* --- the consequence for ANY history-free pipeline: no hysteresis *)
Theorem c01_no_hysteresis : forall (X Y : stype) (n : node (s_msg X) (s_msg Y)) P Q F,
  Symmetric (s_eqv Y) -> Transitive (s_eqv Y) -> (forall a b, s_eqv X a b -> s_eqv Y (F a) (F b)) ->
  hf n P Q F ->
  forall h1 h2, P h1 -> P h2 -> s_eqv X (net X h1) (net X h2) ->
  s_eqv Y (net Y (n_outs n h1)) (net Y (n_outs n h2)).
Proof. exact @hf_history_independent. Qed.
Print Assumptions c01_no_hysteresis.

(* --- a fresh Felix fed an enumeration of D (any order), then in-sync and flush, has net input state (D, in-sync) *)
Theorem c01_fresh_is_state : forall (K : Type) `{Countable K} (V : Type) (e : list (K * V)),
  NoDup e.*1 -> net (DS K V) (fresh e) = (list_to_map e, true) /\ settled (fresh e).
Proof. intros. split; [by apply net_fresh|apply fresh_settled]. Qed.
Print Assumptions c01_fresh_is_state.

(* --- the EventSequencer node (C02's model): inside the upstream contract, at every flush, what it has emitted
       describes exactly the net state of what it was told *)
Theorem c01_sequencer_net_effect : forall late,
  hf (X := CB) (Y := DP) (seq_node late) (seq_admits late) (fun _ => True) id.
Proof. exact seq_node_hf. Qed.
Print Assumptions c01_sequencer_net_effect.

(* --- the whole graph: flushed dataplane = function of the current datastore state *)
Theorem c01_graph_function_of_state : forall (K : Type) `{Countable K} (V : Type) (up : node (dmsg K V) sev) late
    (admitted : list (dmsg K V) -> Prop) (Fup : gmap K V * bool -> world),
  hf (X := DS K V) (Y := CB) up admitted (seq_admits late) Fup ->
  forall h, admitted h -> dp_of (n_outs (graph up late) h) = Fup (net (DS K V) h).
Proof. intros K ? ? V. exact (@graph_function_of_state K _ _ V). Qed.
Print Assumptions c01_graph_function_of_state.

(* GENERIC FORM (complete as a statement about the abstract graph; the property's theorem is c01_history_independent_partial
   below): for every history h that ends in state D with in-sync signalled and a final flush, the
   dataplane described by everything the graph emitted equals the dataplane described by what a freshly started
   graph emits when fed only D (any enumeration order e).
   Missing to make it unconditional: the node lemma  [up_hf]  "the calculation graph in front of the sequencer is
   history-free and respects the sequencer's contract" for the real `up`, i.e. (by c01_compose_seq/par/map) one
   [hf] lemma each for ActiveRulesCalculator, RuleScanner, PolicyResolver+PolicySorter, L3RouteResolver,
   VXLANResolver, EncapsulationResolver, DataplanePassthru and ProfileDecoder; three of them are FALSE of the pinned
   code (known findings), true after fixes/C03-*.patch and fixes/C01-*.patch as far as the correspondence run shows. *)
Theorem c01_graph_history_independent : forall (K : Type) `{Countable K} (V : Type) (up : node (dmsg K V) sev) late
    (admitted : list (dmsg K V) -> Prop) (Fup : gmap K V * bool -> world),
  hf (X := DS K V) (Y := CB) up admitted (seq_admits late) Fup ->
  forall h D e,
    admitted h -> settled h -> (net (DS K V) h).1 = D ->
    NoDup e.*1 -> list_to_map e = D -> admitted (fresh e) ->
    dp_of (n_outs (graph up late) h) = dp_of (n_outs (graph up late) (fresh e)).
Proof. intros K ? ? V. exact (@graph_history_independent K _ _ V). Qed.
Print Assumptions c01_graph_history_independent.

(* the same with NO hypothesis about the graph, for the IP pool slice (passthru node -> sequencer): every history *)
Theorem c01_history_independent_pools : forall h D e,
  ends_flushed h -> settled h -> (net (DS N N) h).1 = D -> NoDup e.*1 -> list_to_map e = D ->
  dp_of (n_outs (graph pool_passthru true) h) = dp_of (n_outs (graph pool_passthru true) (fresh e)).
Proof. exact pool_graph_history_independent. Qed.
Print Assumptions c01_history_independent_pools.

(* hypotheses satisfiable, non-trivially: overwrite, delete, spurious delete, revert, three flushes, in-sync in the
   middle; the two message streams differ, the dataplanes they describe are equal *)
Example c01_pools_example :
  let h := [DOp (Upsert 1 10); DOp (Upsert 2 20); DFlush; DInSync; DOp (Upsert 1 11); DOp (Delete 2);
            DOp (Delete 7); DFlush; DOp (Upsert 1 10); DOp (Upsert 3 30); DFlush]%N in
  same_dp (n_outs (graph pool_passthru true) h) (n_outs (graph pool_passthru true) (fresh [(3, 30); (1, 10)]%N)) = true
  /\ bool_decide (n_outs (graph pool_passthru true) h = n_outs (graph pool_passthru true) (fresh [(3, 30); (1, 10)]%N)) = false.
Proof. exact pool_example. Qed.

(* --- a node that is NOT history-free as pinned: the L3 route resolver's block / contained-address interplay
       (L3Reflag.v: block entries, per-address block entries, workload references, dirty marking, flush) *)
(* repaired code (a block-CIDR change re-flags the contained CIDRs): after ANY history of block / borrowed-address /
   workload updates the emitted route table is exactly the table computed from the current inputs *)
Theorem c01_l3_block_reflag_fixed_exact : forall (blk : N -> N) ops c,
  net RT (n_outs (l3_node blk true) ops) !! c = route_of blk (net L3IN ops) c.
Proof. intros blk ops c. exact (l3_fixed_table_exact blk ops c). Qed.
Print Assumptions c01_l3_block_reflag_fixed_exact.

Theorem c01_l3_block_reflag_fixed_history_free : forall (blk : N -> N) ops1 ops2,
  net L3IN ops1 = net L3IN ops2 ->
  net RT (n_outs (l3_node blk true) ops1) = net RT (n_outs (l3_node blk true) ops2).
Proof. exact l3_fixed_history_free. Qed.
Print Assumptions c01_l3_block_reflag_fixed_history_free.

(* pinned code: the statement is FALSE of the model - same final inputs, two orders, two route tables (and the repaired
   code agrees on them).  Replayed on the real L3RouteResolver: known finding block-update-leaves-contained-routes-stale. *)
Theorem c01_l3_block_reflag_refuted :
  net L3IN l3_witness_a = net L3IN l3_witness_b /\
  bool_decide (net RT (n_outs (l3_node (fun _ => 5%N) false) l3_witness_a) = net RT (n_outs (l3_node (fun _ => 5%N) false) l3_witness_b)) = false /\
  bool_decide (net RT (n_outs (l3_node (fun _ => 5%N) true) l3_witness_a) = net RT (n_outs (l3_node (fun _ => 5%N) true) l3_witness_b)) = true.
Proof. exact l3_pinned_refuted. Qed.
Print Assumptions c01_l3_block_reflag_refuted.

(* the oracle the correspondence run applies to the REAL resolver's route table (Spec.check_l3: model agreement and
   table = route_of (final inputs)) accepts every run of the repaired model, for every sequence of block values,
   block deletions and local workload updates *)
Theorem c01_l3_model_meets_spec : forall (ops : list gop),
  check_l3 (mkL3Case true ops
              (map_to_list (net RT (n_outs (l3_node blk8 true) (g_translate (∅, ∅) ops)) : gmap (N + N) route)) true)
  = (true, true).
Proof. exact l3_model_meets_spec. Qed.
Print Assumptions c01_l3_model_meets_spec.

(* a second closed instance of the whole-graph theorem, with a STATEFUL node: IP pool passthru + the repaired L3
   block/workload route slice in front of the sequencer.  No hypothesis about the graph: any two histories (pool
   upserts/deletes, batches of route-trie entry changes, in-sync, flushes) that end with a flush and describe the
   same final inputs yield the same dataplane *)
Theorem c01_history_independent_routes_pools : forall (blk : N -> N) h1 h2,
  rp_admitted h1 -> rp_admitted h2 -> net GX h1 = net GX h2 ->
  dp_of (n_outs (pipe_seq (rp_node blk) (seq_node true)) h1) = dp_of (n_outs (pipe_seq (rp_node blk) (seq_node true)) h2).
Proof. exact rp_graph_history_independent. Qed.
Print Assumptions c01_history_independent_routes_pools.

Example c01_routes_pools_example :
  let blk := fun _ : N => 5%N in
  let h1 := [GL3 [BlockSet 5 1]; GFlush; GPool (Upsert 1 10); GL3 [WepSet 7 0]; GPool (Upsert 2 3); GInSync; GFlush;
             GPool (Delete 2); GFlush]%N in
  let h2 := [GL3 [WepSet 7 0]; GPool (Upsert 1 10); GL3 [BlockSet 5 1]; GInSync; GFlush]%N in
  rp_admitted h1 /\ rp_admitted h2 /\ bool_decide (net GX h1 = net GX h2) = true /\
  same_dp (n_outs (pipe_seq (rp_node blk) (seq_node true)) h1) (n_outs (pipe_seq (rp_node blk) (seq_node true)) h2) = true.
Proof.
  split; [by eexists (_ :: _ :: _ :: _ :: _ :: _ :: _ :: [_])|]. split; [by eexists (_ :: _ :: _ :: [_])|].
  split; vm_compute; reflexivity.
Qed.


(* ==================================================================================================================
   THE GRAPH ASSEMBLED FROM SLICES (Graph.v, Fanin.v, Slices.v, Dispatch.v, RuleScanner.v)

   graph6 = ( policy slice | rules slice | IP set slice | route slice | other slice | flusher ) ; EventSequencer
   c01_history_independent_partial (below) is the whole-graph theorem for it.  What is STILL ASSUMED, exactly:
     (H1) contract6: the merged callback stream of an admitted history is inside C02's sequencer contract and ends
          with the flush (C02's per-message checker verifies this on the real graph in every correspondence case);
     (H2) one history-freeness statement per slice: ep_hf, rules_hf, ipset_hf, route_hf, other_hf.
   Each slice is  feeder ; node ; emitter  and (H2) reduces, by the slice theorems below, to the feeder and the emitter:
     policy slice  node = PolicyResolver+PolicySorter  PROVED (C03)        - c01_slice_resolver;  assumed: its feeder
                   (ActiveRulesCalculator match callbacks via the label index - C07 proves the index exact,
                   c01_inherit_index_node_hf, the plumbing through the ARC is not modelled - merged with the
                   policy/tier/local-endpoint updates) and its emitter (ModelWorkloadEndpointToProto / tierInfoToProtoTierInfo)
     rules slice   node = ValidationFilter+ARC          PROVED (C05)        - c01_slice_arc;       assumed: emitter = RuleScanner's
                   rule conversion to ParsedRules (the RuleScanner's IP set REFERENCE COUNTING is proved: c01_rulescanner_hf)
     IP set slice  node = SelectorAndNamedPortIndex     PROVED (C04)        - c01_slice_ipset;     assumed: feeder (datastore
                   endpoints/netsets/profile labels + the RuleScanner's active IP sets as C04 operations), emitter
     route slice   node = L3RouteResolver               PROVED (C43)        - c01_slice_l3;        assumed: feeder (abstraction of
                   pools/blocks/nodes/workloads to C43's operations inside C43's domain: sep/hop_ok/dop_ok), emitter;
                   C43's conclusion leaves pure pool-CIDR routes and nodes' own /32s unspecified: the emitter must not
                   depend on them (hypothesis of c01_slice_l3)
     other slice   = VTEP slice + rest (c01_other_slice_split).  VXLANResolver (IPv4+IPv6): node AND emitter PROVED
                   (Vxlan.v, VxlanSlice.v: c01_vxlan_table_exact, c01_slice_vxlan), its feeder is proved for the
                   slice's own datastore keys (VtepPipe.v: c01_history_independent_vteps, closed), and the model
                   is in the correspondence run (VX cases).  EncapsulationResolver: ASSUMED (no model; its Encapsulation
                   message is compared history-vs-fresh by the run).  DataplanePassthru (pools, host metadata, wireguard)
                   and ProfileDecoder (service accounts, namespaces): the generic passthru is PROVED (c01_passthru_hf)
                   given the decoding of key and value to an id and a digest
     MISSING LEMMAS, precisely (each is one [hf] statement; none needs a history argument beyond its own node):
       feed_ep / emit_ep, emit_rules, feed_ipset / emit_ipset, feed_route / emit_route, feed_vtep, the encapsulation node,
       and contract6
     dispatcher routing / local-remote endpoint filters: PROVED (c01_dispatch_routing_hf)
     flusher: PROVED (inside Graph.v)
   Every emitter hypothesis also asks that the emitter's image does not depend on the slack the node theorem leaves
   (e.g. C03: default action of tiers that do not exist; "removed" vs never-sent endpoints).
   ================================================================================================================== *)

(* fan-in: slices writing disjoint classes of dataplane objects, interleaved in ANY way, add up to the union *)
Theorem c01_fanin : forall (Cl1 Cl2 : cell -> Prop), (forall c, Cl1 c -> Cl2 c -> False) ->
  forall (X : stype) (s1 s2 : node (s_msg X) sev) (P : list (s_msg X) -> Prop) F1 F2,
  hf (Y := CB) s1 P (Forall (in_class Cl1)) F1 -> hf (Y := CB) s2 P (Forall (in_class Cl2)) F2 ->
  hf (Y := CB) (fanin s1 s2) P (Forall (in_class (fun c => Cl1 c \/ Cl2 c))) (fun x => wunion (F1 x) (F2 x)).
Proof. exact @hf_fanin. Qed.
Print Assumptions c01_fanin.

(* a slice = feeder ; node ; emitter *)
Theorem c01_slice : forall (X XI YI : stype) (feed : node (s_msg X) (s_msg XI)) (n : node (s_msg XI) (s_msg YI))
    (emit : node (s_msg YI) sev) (P : _ -> Prop) (PI : _ -> Prop) (QI : _ -> Prop) (QO : _ -> Prop) G F E,
  (forall a b, s_eqv XI a b -> a = b) -> (forall a b, s_eqv YI a b -> E a = E b) ->
  hf (X := X) (Y := XI) feed P PI G -> hf (X := XI) (Y := YI) n PI QI F -> hf (X := YI) (Y := CB) emit QI QO E ->
  hf (X := X) (Y := CB) (slice feed n emit) P QO (E ∘ F ∘ G).
Proof. exact @slice_hf. Qed.
Print Assumptions c01_slice.

(* MAIN THEOREM, restated with the smallest remaining hypothesis (see the box above): six slices + sequencer *)
Theorem c01_history_independent_partial : forall (K : Type) `{Countable K} (V : Type)
    (admitted : list (dmsg K V) -> Prop) late
    (s_ep s_rules s_ipset s_route s_other : node (dmsg K V) sev)
    (F_ep F_rules F_ipset F_route F_other : gmap K V * bool -> world),
  hf (X := DS K V) (Y := CB) s_ep admitted (Forall (in_class (kclass [KEp]))) F_ep ->
  hf (X := DS K V) (Y := CB) s_rules admitted (Forall (in_class (kclass [KPol; KProf]))) F_rules ->
  hf (X := DS K V) (Y := CB) s_ipset admitted (Forall (in_class (kclass [KIPSet]))) F_ipset ->
  hf (X := DS K V) (Y := CB) s_route admitted (Forall (in_class (kclass [KRoute]))) F_route ->
  hf (X := DS K V) (Y := CB) s_other admitted (Forall (in_class (kclass [KVtep; KHost; KPool; KSA; KNS; KSvc]))) F_other ->
  (forall h, admitted h -> seq_admits late (n_outs (front6 s_ep s_rules s_ipset s_route s_other) h)) ->
  forall h D e,
    admitted h -> settled h -> (net (DS K V) h).1 = D -> NoDup e.*1 -> list_to_map e = D -> admitted (fresh e) ->
    dp_of (n_outs (graph6 late s_ep s_rules s_ipset s_route s_other) h)
    = dp_of (n_outs (graph6 late s_ep s_rules s_ipset s_route s_other) (fresh e)).
Proof. intros K ? ? V. exact (@graph6_history_independent K _ _ V). Qed.
Print Assumptions c01_history_independent_partial.

(* its hypotheses are satisfiable, the contract included: a closed six-slice graph *)
Theorem c01_history_independent_closed_example : forall h D e,
  ends_flush h -> settled h -> (net (DS N N) h).1 = D -> NoDup e.*1 -> list_to_map e = D ->
  dp_of (n_outs (graph6 true silent silent silent silent pools) h)
  = dp_of (n_outs (graph6 true silent silent silent silent pools) (fresh e)).
Proof. exact ex_graph6_history_independent. Qed.
Print Assumptions c01_history_independent_closed_example.

(* --- slices whose node is discharged by another property's theorem *)
Theorem c01_slice_resolver : forall (X : stype) v (feed : node (s_msg X) (s_msg NodeC03.X3)) emit (P QO : _ -> Prop) G E,
  Verif.C03.Model.v_fixed v = true ->
  hf (X := X) (Y := NodeC03.X3) feed P (NodeC03.admitted3 v) G ->
  hf (X := NodeC03.Y3) (Y := CB) emit (fun _ => True) QO E ->
  (forall VW D, NodeC03.sat3 VW D -> E (inl VW) = E (inr D)) ->
  hf (X := X) (Y := CB) (slice feed (NodeC03.node3 v) emit) P QO (fun x => E (inr (G x))).
Proof. exact @slice_resolver_hf. Qed.
Print Assumptions c01_slice_resolver.

Theorem c01_slice_arc : forall (X : stype) validate (feed : node (s_msg X) (s_msg (NodeC05.X5 validate))) emit (P QO : _ -> Prop) G E,
  hf (X := X) (Y := NodeC05.X5 validate) feed P (fun _ => True) G ->
  hf (X := NodeC05.Y5) (Y := CB) emit (fun _ => True) QO E ->
  (forall vw d, NodeC05.sat5 vw d -> E (inl vw) = E (inr d)) ->
  hf (X := X) (Y := CB) (slice feed (NodeC05.node5 validate) emit) P QO (fun x => E (inr (G x))).
Proof. exact @slice_arc_hf. Qed.
Print Assumptions c01_slice_arc.

Theorem c01_slice_l3 : forall (X : stype) (BK : Verif.Common.Prefix.prefix -> Prop)
    (feed : node (s_msg X) (s_msg NodeC43.X43)) emit (P QO : _ -> Prop) G E,
  (forall a b x, BK a -> BK b -> Verif.Common.Prefix.covers 32 a x = true -> Verif.Common.Prefix.covers 32 b x = true -> a = b) ->
  hf (X := X) (Y := NodeC43.X43) feed P (NodeC43.admitted43 BK) G ->
  hf (X := NodeC43.Y43) (Y := CB) emit (fun _ => True) QO E ->
  (forall out d, NodeC43.sat43 out d -> E (inl out) = E (inr d)) ->
  hf (X := X) (Y := CB) (slice feed NodeC43.node43 emit) P QO (fun x => E (inr (G x))).
Proof. exact @slice_l3_hf. Qed.
Print Assumptions c01_slice_l3.

Theorem c01_slice_ipset : forall (X : stype) sel_of shuffle prune_ep prune_set
    (feed : node (s_msg X) (s_msg NodeC04.X4)) emit (P QO : _ -> Prop) G E,
  Verif.C04.Main.oracles_ok shuffle prune_ep prune_set ->
  hf (X := X) (Y := NodeC04.X4) feed P (NodeC04.admitted4 sel_of) G ->
  hf (X := NodeC04.Y4) (Y := CB) emit (fun _ => True) QO E ->
  (forall a b, NodeC04.same_members a b -> E a = E b) ->
  hf (X := X) (Y := CB) (slice feed (NodeC04.node4 shuffle prune_ep prune_set) emit) P QO (fun x => E (NodeC04.wanted (G x))).
Proof. exact @slice_ipset_hf. Qed.
Print Assumptions c01_slice_ipset.

(* --- the cheap parts, proved for every history *)
Theorem c01_dispatch_routing_hf : forall (K : Type) `{Countable K} (V : Type) (want : K -> bool),
  hf (X := DS K V) (Y := DS K V) (pipe_map (dispatch want)) (fun _ => True) (fun _ => True) (restrict want).
Proof. intros K ? ? V. exact (@route_hf K _ _ V). Qed.
Print Assumptions c01_dispatch_routing_hf.

Theorem c01_passthru_hf : forall (K : Type) `{Countable K} (Val : Type) (kd : kind) (idof : K -> N) `{!Inj (=) (=) idof}
    (verof : Val -> N) (P : list (dmsg K Val) -> Prop),
  hf (X := DS K Val) (Y := CB) (passthru kd idof verof) P (Forall (in_class (kclass [kd]))) (pt_world kd idof verof).
Proof. intros K ? ? Val kd idof ? verof. exact (@passthru_hf K _ _ Val kd idof _ verof). Qed.
Print Assumptions c01_passthru_hf.

(* RuleScanner reference counting: the IP sets declared active = the IP sets some active policy/profile uses *)
Theorem c01_rulescanner_hf : hf (X := RSIN) (Y := RSOUT) rs_node (fun _ => True) (fun _ => True) used.
Proof. exact rs_hf. Qed.
Print Assumptions c01_rulescanner_hf.

(* --- the VXLAN resolver (vxlan_resolver.go, IPv4 + IPv6): model node, emitter, slice *)
(* after ANY history of Node / tunnel address / tunnel MAC updates (both families) the VTEP table the resolver has
   emitted is exactly vtep_of the current inputs *)
Theorem c01_vxlan_table_exact : forall (gen : N -> bool -> N) ops n,
  net VT (n_outs (vx_nodeN gen) ops) !! n = vtep_of gen (net VXIN ops) n.
Proof. intros gen ops n. exact (vx_table_exact gen ops n). Qed.
Print Assumptions c01_vxlan_table_exact.

Theorem c01_vxlan_history_free : forall (gen : N -> bool -> N) ops1 ops2,
  net VXIN ops1 = net VXIN ops2 -> net VT (n_outs (vx_nodeN gen) ops1) = net VT (n_outs (vx_nodeN gen) ops2).
Proof. exact vx_history_free. Qed.
Print Assumptions c01_vxlan_history_free.

(* the oracle the correspondence run applies to the REAL VXLANResolver's table accepts every run of the model *)
Theorem c01_vxlan_model_meets_spec : forall (ops : list vxop) (g : list (N * (N * N))),
  check_vx (mkVXCase ops (map_to_list (net VT (n_outs (vx_nodeN (gen_of g)) ops) : gmap N vtep)) g true) = (true, true).
Proof. exact vx_model_meets_spec. Qed.
Print Assumptions c01_vxlan_model_meets_spec.

(* the VTEP slice with node and emitter proved: only the feeder is a hypothesis *)
Theorem c01_slice_vxlan : forall (gen : N -> bool -> N) (enc : vtep -> N) (X : stype) (feed : node (s_msg X) vxop) (P : _ -> Prop) G,
  hf (X := X) (Y := VXIN) feed P (fun _ => True) G ->
  hf (X := X) (Y := CB) (slice feed (vx_nodeN gen) (pipe_map (vx_emit enc))) P (Forall (in_class (kclass [KVtep])))
     (vt_world enc ∘ vt_table gen ∘ G).
Proof. exact vxlan_slice_hf. Qed.
Print Assumptions c01_slice_vxlan.

(* tunnel endpoints CLOSED end to end (VtepPipe.v): datastore (Node resources + VXLAN host config keys of both families)
   -> feeder (dispatch + abstraction, proved a message-by-message homomorphism) -> VXLAN resolver -> emitter -> sequencer,
   with the flusher; the contract is proved; no hypothesis about the graph is left *)
Theorem c01_history_independent_vteps : forall (gen : N -> bool -> N) (enc : vtep -> N) h D e,
  vadmitted h -> settled h -> (net (DS vkey vval) h).1 = D -> NoDup e.*1 -> list_to_map e = D ->
  dp_of (n_outs (vgraph gen enc) h) = dp_of (n_outs (vgraph gen enc) (fresh e)).
Proof. exact vtep_history_independent. Qed.
Print Assumptions c01_history_independent_vteps.

Theorem c01_other_slice_split : forall (X : stype) (s_vtep s_rest : node (s_msg X) sev) (P : _ -> Prop) F_vtep F_rest,
  hf (Y := CB) s_vtep P (Forall (in_class (kclass [KVtep]))) F_vtep ->
  hf (Y := CB) s_rest P (Forall (in_class (kclass [KHost; KPool; KSA; KNS; KSvc]))) F_rest ->
  hf (Y := CB) (fanin s_vtep s_rest) P (Forall (in_class (kclass [KVtep; KHost; KPool; KSA; KNS; KSvc])))
     (fun x => wunion (F_vtep x) (F_rest x)).
Proof. exact @other_slice_split. Qed.
Print Assumptions c01_other_slice_split.

(* --- node lemmas imported from the properties that own the node models *)
Module IPSetIndex.
  Import Coq.Lists.List Verif.C04.Model Verif.C04.Spec Verif.C04.Main Verif.C04.View.
  (* labelindex.SelectorAndNamedPortIndex: two histories with the same datastore view (last value written per
     endpoint / network set / profile / IP set) leave every IP set with the same accumulated members, whatever the
     iteration orders and prunings were. *)
  Theorem c01_node_function_of_state_ipsetidx :
    forall sel_of shuffle1 prune_ep1 prune_set1 shuffle2 prune_ep2 prune_set2 ops1 ops2 st1 evss1 st2 evss2,
    oracles_ok shuffle1 prune_ep1 prune_set1 -> oracles_ok shuffle2 prune_ep2 prune_set2 ->
    Forall op_wf ops1 -> Forall op_wf ops2 ->
    Forall (op_interned sel_of) ops1 -> Forall (op_interned sel_of) ops2 ->
    run false shuffle1 prune_ep1 prune_set1 empty_state ops1 = (st1, evss1) ->
    run false shuffle2 prune_ep2 prune_set2 empty_state ops2 = (st2, evss2) ->
    view_of ops1 = view_of ops2 ->
    exists F1 F2, replay_f (fun _ => nil) ops1 evss1 = Some F1 /\ replay_f (fun _ => nil) ops2 evss2 = Some F2 /\
      forall sid vs, alookup sid (v_sets (view_of ops1)) = Some vs -> forall m, In m (F1 sid) <-> In m (F2 sid).
  Proof. exact InstC04.ipset_index_history_free. Qed.
  Print Assumptions c01_node_function_of_state_ipsetidx.

  (* the same index AS A NODE of the abstract graph (NodeC04.v): inputs = C04's operations with net state view_of,
     outputs = per operation the member added/removed events it fires, net state = the member family accumulated by
     the consumer (None = an event that is illegal where it arrives).  History-free for every history inside the
     model's domain, every iteration order and sound pruning: every existing IP set holds exactly spec_members of the
     current view, nothing is held for IP sets that do not exist. *)
  Theorem c01_ipset_index_node_hf :
    forall sel_of shuffle prune_ep prune_set, oracles_ok shuffle prune_ep prune_set ->
    hf (X := NodeC04.X4) (Y := NodeC04.Y4) (NodeC04.node4 shuffle prune_ep prune_set) (NodeC04.admitted4 sel_of)
       (fun _ => True) NodeC04.wanted.
  Proof. exact NodeC04.node4_hf. Qed.
  Print Assumptions c01_ipset_index_node_hf.
End IPSetIndex.

Module InheritIndex.
  Import Coq.Lists.List Coq.Sorting.Permutation Verif.Common.Labels Verif.C07.Model Verif.C07.Spec.
  (* labelindex.InheritIndex: two histories describing the same labels / parents / selectors leave the same match
     maps, whatever the map iteration orders were. *)
  Theorem c01_node_function_of_state_inherit :
    forall (ord1 ord2 : nat -> list N -> list N) (sel_eqb : ast -> ast -> bool),
    (forall t l, Permutation (ord1 t l) l) -> (forall t l, Permutation (ord2 t l) l) ->
    (forall a b, sel_eqb a b = true -> forall L, eval a L = eval b L) ->
    forall ops1 ops2, sp_run ops1 = sp_run ops2 ->
    forall s i,
      rel_mem s i (by_sel (run ord1 sel_eqb ops1)) = rel_mem s i (by_sel (run ord2 sel_eqb ops2)) /\
      rel_mem i s (by_item (run ord1 sel_eqb ops1)) = rel_mem i s (by_item (run ord2 sel_eqb ops2)).
  Proof. exact InstC07.label_index_history_free. Qed.
  Print Assumptions c01_node_function_of_state_inherit.

  (* the same index AS A NODE of the abstract graph (NodeC07.v): inputs = C07's operations with net state sp_run,
     outputs = the OnMatchStarted/OnMatchStopped callbacks each operation fires with net state "pairs currently
     started" (None = an illegal callback).  It is history-free in the sense of the composition theorems, for every
     history and every map iteration order: the started pairs are exactly the pairs the specification wants. *)
  Theorem c01_inherit_index_node_hf :
    forall (ord : nat -> list N -> list N) (sel_eqb : ast -> ast -> bool),
    (forall t l, Permutation (ord t l) l) ->
    (forall a b, sel_eqb a b = true -> forall L, eval a L = eval b L) ->
    hf (X := NodeC07.X7) (Y := NodeC07.Y7) (NodeC07.node7 ord sel_eqb) (fun _ => True) (fun _ => True)
       (fun x => Some (expected x)).
  Proof. exact NodeC07.node7_hf. Qed.
  Print Assumptions c01_inherit_index_node_hf.
End InheritIndex.
