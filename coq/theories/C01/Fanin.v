(* C01 — the fan-in of the calculation graph: several sub-pipelines ("slices": the policy/endpoint slice, the IP set
   slice, the route slice, the passthru slices ...) all call the ONE event sequencer, their callbacks interleaved in
   whatever order the dispatcher and the nodes' nested calls produce.  If the slices write disjoint classes of
   dataplane objects, the net state of the interleaved callback stream is the union of the slices' net states -
   whatever the interleaving.  Hence history-free slices fan in to a history-free front end ([hf_fanin]). *)
From stdpp Require Import gmap.
From Verif.C02 Require Import Model Spec.
From Verif.C01 Require Import Model Compose Spec Instances.
Local Open Scope N_scope.

Definition ev_cell (e : sev) : option cell :=
  match e with
  | SCb (CIPSetAdded id _) | SCb (CIPSetRemoved id) | SCb (CMemberAdded id _) | SCb (CMemberRemoved id _) => Some (KIPSet, id)
  | SCb (CUpdate c _) | SCb (CRemove c) => Some c
  | SFlush _ => None
  end.
(* the callback concerns an object of class Cl (a flush concerns none) *)
Definition in_class (Cl : cell → Prop) (e : sev) : Prop :=
  match ev_cell e with Some c => Cl c | None => True end.
Definition lives (Cl : cell → Prop) (w : world) : Prop :=
  (∀ id, is_Some (w_sets w !! id) → Cl (KIPSet, id)) ∧ (∀ c, is_Some (w_kv w !! c) → Cl c).
Definition wunion (a b : world) : world :=
  {| w_sets := w_sets a ∪ w_sets b; w_kv := w_kv a ∪ w_kv b |}.

Definition either (x : sev + sev) : sev := match x with inl e | inr e => e end.
(* two slices registered one after the other, both calling the sequencer *)
Definition fanin {A} (s1 s2 : node A sev) : node A sev :=
  pipe_seq (pipe_par s1 s2) (pipe_map (λ x, [either x])).

Section gmap_lemmas.
  Context {K : Type} `{Countable K} {V : Type}.
  Lemma alter_union_l (f : V → V) (a b : gmap K V) k : b !! k = None → alter f k (a ∪ b) = alter f k a ∪ b.
  Proof.
    intros Hb. apply map_eq. intros i. destruct (decide (i = k)) as [->|Hn].
    - rewrite lookup_alter, !lookup_union, lookup_alter, Hb. destruct (a !! k); done.
    - rewrite lookup_alter_ne by done. rewrite !lookup_union. by rewrite lookup_alter_ne by done.
  Qed.
  Lemma alter_union_r (f : V → V) (a b : gmap K V) k : a !! k = None → alter f k (a ∪ b) = a ∪ alter f k b.
  Proof.
    intros Ha. apply map_eq. intros i. destruct (decide (i = k)) as [->|Hn].
    - rewrite lookup_alter, !lookup_union, lookup_alter, Ha. destruct (b !! k); done.
    - rewrite lookup_alter_ne by done. rewrite !lookup_union. by rewrite lookup_alter_ne by done.
  Qed.
  Lemma delete_union_l (a b : gmap K V) k : b !! k = None → delete k (a ∪ b) = delete k a ∪ b.
  Proof. intros Hb. rewrite delete_union. f_equal. by apply delete_notin. Qed.
  Lemma delete_union_r (a b : gmap K V) k : a !! k = None → delete k (a ∪ b) = a ∪ delete k b.
  Proof. intros Ha. rewrite delete_union. f_equal. by apply delete_notin. Qed.
End gmap_lemmas.

Section Fanin.
  Variables Cl1 Cl2 : cell → Prop.
  Hypothesis disjoint : ∀ c, Cl1 c → Cl2 c → False.

  Lemma not_in_other_sets a b id : lives Cl1 a → lives Cl2 b →
    (Cl1 (KIPSet, id) → w_sets b !! id = None) ∧ (Cl2 (KIPSet, id) → w_sets a !! id = None).
  Proof.
    intros [La _] [Lb _]. split; intros Hc; apply eq_None_not_Some; intros Hs.
    - exact (disjoint _ Hc (Lb _ Hs)).
    - exact (disjoint _ (La _ Hs) Hc).
  Qed.
  Lemma not_in_other_kv a b c : lives Cl1 a → lives Cl2 b →
    (Cl1 c → w_kv b !! c = None) ∧ (Cl2 c → w_kv a !! c = None).
  Proof.
    intros [_ La] [_ Lb]. split; intros Hc; apply eq_None_not_Some; intros Hs.
    - exact (disjoint _ Hc (Lb _ Hs)).
    - exact (disjoint _ (La _ Hs) Hc).
  Qed.

  Lemma lives_apply Cl w e : lives Cl w → in_class Cl e → lives Cl (cb_apply w e).
  Proof.
    intros [Ls Lk] Hc. destruct e as [[id ty|id|id m|id m|c v|c]|o]; simpl in *; unfold in_class in Hc; simpl in Hc;
      (split; [intros i Hi|intros i Hi]); simpl in *; auto.
    - destruct (decide (i = id)) as [->|Hn]; [done|]. rewrite lookup_insert_ne in Hi by done. auto.
    - destruct (decide (i = id)) as [->|Hn]; [done|]. rewrite lookup_delete_ne in Hi by done. auto.
    - destruct (decide (i = id)) as [->|Hn]; [done|]. rewrite lookup_alter_ne in Hi by done. auto.
    - destruct (decide (i = id)) as [->|Hn]; [done|]. rewrite lookup_alter_ne in Hi by done. auto.
    - destruct (decide (i = c)) as [->|Hn]; [done|]. rewrite lookup_insert_ne in Hi by done. auto.
    - destruct (decide (i = c)) as [->|Hn]; [done|]. rewrite lookup_delete_ne in Hi by done. auto.
  Qed.

  Lemma apply_left a b e : lives Cl1 a → lives Cl2 b → in_class Cl1 e →
    cb_apply (wunion a b) e = wunion (cb_apply a e) b.
  Proof.
    intros La Lb Hc. destruct e as [[id ty|id|id m|id m|c v|c]|o]; unfold in_class in Hc; simpl in Hc;
      unfold wunion; simpl; f_equal.
    - by rewrite insert_union_l.
    - apply delete_union_l. by apply (not_in_other_sets a b id La Lb).
    - apply alter_union_l. by apply (not_in_other_sets a b id La Lb).
    - apply alter_union_l. by apply (not_in_other_sets a b id La Lb).
    - by rewrite insert_union_l.
    - apply delete_union_l. by apply (not_in_other_kv a b c La Lb).
  Qed.
  Lemma apply_right a b e : lives Cl1 a → lives Cl2 b → in_class Cl2 e →
    cb_apply (wunion a b) e = wunion a (cb_apply b e).
  Proof.
    intros La Lb Hc. destruct e as [[id ty|id|id m|id m|c v|c]|o]; unfold in_class in Hc; simpl in Hc;
      unfold wunion; simpl; f_equal.
    - apply insert_union_r. by apply (not_in_other_sets a b id La Lb).
    - apply delete_union_r. by apply (not_in_other_sets a b id La Lb).
    - apply alter_union_r. by apply (not_in_other_sets a b id La Lb).
    - apply alter_union_r. by apply (not_in_other_sets a b id La Lb).
    - apply insert_union_r. by apply (not_in_other_kv a b c La Lb).
    - apply delete_union_r. by apply (not_in_other_kv a b c La Lb).
  Qed.

  (* ANY interleaving *)
  Lemma merge_net (os : list (sev + sev)) : ∀ a b, lives Cl1 a → lives Cl2 b →
    Forall (in_class Cl1) (lefts os) → Forall (in_class Cl2) (rights os) →
    foldl cb_apply (wunion a b) (either <$> os) = wunion (foldl cb_apply a (lefts os)) (foldl cb_apply b (rights os)).
  Proof.
    induction os as [|[e|e] r IH]; intros a b La Lb H1 H2; [done| |].
    - change (lefts (inl e :: r)) with (e :: lefts r) in *. change (rights (inl e :: r)) with (rights r) in *.
      apply Forall_cons in H1 as [He H1]. cbn [fmap list_fmap foldl either].
      rewrite (apply_left a b e La Lb He). apply IH; auto. by apply lives_apply.
    - change (lefts (inr e :: r)) with (lefts r) in *. change (rights (inr e :: r)) with (e :: rights r) in *.
      apply Forall_cons in H2 as [He H2]. cbn [fmap list_fmap foldl either].
      rewrite (apply_right a b e La Lb He). apply IH; auto. by apply lives_apply.
  Qed.

  Lemma lives_world0 Cl : lives Cl world0.
  Proof. split; intros i [x Hx]; unfold world0 in Hx; simpl in Hx; by rewrite lookup_empty in Hx. Qed.
  Lemma wunion_world0 : wunion world0 world0 = world0.
  Proof. unfold wunion, world0. simpl. by rewrite !(left_id_L ∅ (∪)). Qed.

  Lemma bind_singleton_fmap {B C} (f : B → C) (l : list B) : l ≫= (λ x, [f x]) = f <$> l.
  Proof. induction l as [|x r IH]; [done|]. rewrite bind_cons, fmap_cons, IH. done. Qed.

  Lemma fanin_outs {A} (s1 s2 : node A sev) is :
    n_outs (fanin s1 s2) is = either <$> n_outs (pipe_par s1 s2) is.
  Proof. unfold fanin. rewrite seq_outs, map_outs. apply bind_singleton_fmap. Qed.

  (* history-free slices writing disjoint object classes fan in to a history-free front end *)
  Theorem hf_fanin {X : stype} (s1 s2 : node (s_msg X) sev) (P : list (s_msg X) → Prop) F1 F2 :
    hf (Y := CB) s1 P (Forall (in_class Cl1)) F1 → hf (Y := CB) s2 P (Forall (in_class Cl2)) F2 →
    hf (Y := CB) (fanin s1 s2) P (Forall (in_class (λ c, Cl1 c ∨ Cl2 c))) (λ x, wunion (F1 x) (F2 x)).
  Proof.
    intros H1 H2 is HP. destruct (H1 is HP) as [Q1 E1]. destruct (H2 is HP) as [Q2 E2].
    destruct (par_outs s1 s2 is) as [El Er].
    change (Forall (in_class (λ c, Cl1 c ∨ Cl2 c)) (n_outs (fanin s1 s2) is) ∧
            foldl cb_apply world0 (n_outs (fanin s1 s2) is) = wunion (F1 (net X is)) (F2 (net X is))).
    rewrite fanin_outs. split.
    - apply Forall_fmap, Forall_forall. intros [e|e] Hin; unfold in_class; simpl.
      + assert (He : e ∈ lefts (n_outs (pipe_par s1 s2) is)) by (apply elem_of_list_omap; by exists (inl e)).
        rewrite El in He. pose proof (proj1 (Forall_forall _ _) Q1 e He) as Hc. unfold in_class in Hc.
        destruct (ev_cell e); [by left|done].
      + assert (He : e ∈ rights (n_outs (pipe_par s1 s2) is)) by (apply elem_of_list_omap; by exists (inr e)).
        rewrite Er in He. pose proof (proj1 (Forall_forall _ _) Q2 e He) as Hc. unfold in_class in Hc.
        destruct (ev_cell e); [by right|done].
    - rewrite <-wunion_world0 at 1.
      rewrite (merge_net _ world0 world0 (lives_world0 _) (lives_world0 _)); [|by rewrite El|by rewrite Er].
      rewrite El, Er. change (wunion (net CB (n_outs s1 is)) (net CB (n_outs s2 is)) = wunion (F1 (net X is)) (F2 (net X is))).
      simpl in E1, E2. by rewrite E1, E2.
  Qed.
End Fanin.
