(* C01 — the VXLAN resolver as a slice of the graph: model node (Vxlan.v) + its emitter (OnVTEPUpdate / OnVTEPRemove
   -> EventSequencer), both proved; what remains assumed of this slice is only its FEEDER (routing of Node resources and
   VXLAN host config keys to the resolver and their abstraction to Vxlan.vxop).  Also: the "other" slice of Graph.v
   split into the VTEP slice and the rest. *)
From stdpp Require Import gmap.
From Verif.C02 Require Import Model Spec Proofs.
From Verif.C01 Require Import Model Compose Spec Instances Fanin Refines Graph Vxlan.
Local Open Scope N_scope.

Section VS.
  Variable gen : N → bool → N.
  Variable enc : vtep → N.            (* digest of a VXLANTunnelEndpointUpdate's payload *)

  (* the VTEP table as a FUNCTION of the inputs *)
  Definition vt_table (i : vxin) : gmap N vtep :=
    map_imap (λ n (_ : unit), vtep_of gen i n) (gset_to_gmap () (dom (x_tun4 i) ∪ dom (x_tun6 i))).
  Lemma vt_table_ok i : vt_ok gen i (vt_table i).
  Proof.
    intros n. unfold vt_table. rewrite map_lookup_imap, lookup_gset_to_gmap.
    destruct (decide (n ∈ dom (x_tun4 i) ∪ dom (x_tun6 i))) as [Hin|Hni].
    - rewrite option_guard_True by done. done.
    - rewrite option_guard_False by done. simpl. symmetry. unfold vtep_of.
      apply not_elem_of_union in Hni as [H4 H6]. apply not_elem_of_dom in H4, H6. rewrite H4, H6.
      rewrite !bool_decide_false by (by intros [? ?]). done.
  Qed.
  Lemma vt_unique i t : vt_ok gen i t → t = vt_table i.
  Proof. intros Ht. apply map_eq. intros n. by rewrite Ht, vt_table_ok. Qed.

  Lemma vx_node_hf : hf (X := VXIN) (Y := VT) (vx_nodeN gen) (λ _, True) (λ _, True) vt_table.
  Proof. intros ops _. split; [done|]. simpl. apply vt_unique, vx_table_exact. Qed.

  (* emitter *)
  Definition vt_cell (n : N) : cell := (KVtep, n).
  Global Instance vt_cell_inj : Inj (=) (=) vt_cell.
  Proof. intros a b [=]. done. Qed.
  Definition vx_emit (m : vxmsg) : list sev :=
    match m with
    | VUpd n v => [SCb (CUpdate (vt_cell n) (V [] (enc v)))]
    | VRem n => [SCb (CRemove (vt_cell n))]
    end.
  Definition vt_world (t : gmap N vtep) : world :=
    {| w_sets := ∅; w_kv := kmap vt_cell ((λ v, V [] (enc v)) <$> t) |}.

  Lemma vx_emit_hf : hf (X := VT) (Y := CB) (pipe_map vx_emit) (λ _, True) (Forall (in_class (kclass [KVtep]))) vt_world.
  Proof.
    intros ms _. rewrite map_outs. split.
    - induction ms as [|m r IH]; [constructor|]. rewrite bind_cons. apply Forall_app. split; [|exact IH].
      destruct m; repeat constructor; unfold in_class, kclass; simpl; by apply elem_of_list_singleton.
    - change (foldl cb_apply world0 (ms ≫= vx_emit) = vt_world (foldl vt_apply ∅ ms)).
      assert (E0 : world0 = vt_world ∅) by (unfold vt_world, world0; simpl; by rewrite fmap_empty, kmap_empty).
      assert (St : ∀ t m, foldl cb_apply (vt_world t) (vx_emit m) = vt_world (vt_apply t m)).
      { intros t [n v|n]; unfold vt_world; simpl; f_equal.
        - rewrite fmap_insert, kmap_insert; [done|apply _].
        - rewrite fmap_delete, kmap_delete; [done|apply _]. }
      rewrite E0. generalize (∅ : gmap N vtep). induction ms as [|m r IH]; intros t; [done|].
      rewrite bind_cons, foldl_app, St. apply IH.
  Qed.

  (* the slice: only the feeder is left as a hypothesis *)
  Theorem vxlan_slice_hf {X : stype} (feed : node (s_msg X) vxop) (P : _ → Prop) G :
    hf (X := X) (Y := VXIN) feed P (λ _, True) G →
    hf (X := X) (Y := CB) (slice feed (vx_nodeN gen) (pipe_map vx_emit)) P (Forall (in_class (kclass [KVtep])))
       (vt_world ∘ vt_table ∘ G).
  Proof.
    intros Hf.
    apply (slice_hf (X := X) (XI := VXIN) (YI := VT) feed (vx_nodeN gen) (pipe_map vx_emit) P (λ _, True) (λ _, True)
             (Forall (in_class (kclass [KVtep]))) G vt_table vt_world);
      [by intros a b ->|by intros a b ->|exact Hf|exact vx_node_hf|exact vx_emit_hf].
  Qed.
End VS.

(* the "other" slice of Graph.v = VTEP slice + the rest (host metadata, pools, service accounts, namespaces, ...) *)
Lemma other_slice_split {X : stype} (s_vtep s_rest : node (s_msg X) sev) (P : _ → Prop) F_vtep F_rest :
  hf (Y := CB) s_vtep P (Forall (in_class (kclass [KVtep]))) F_vtep →
  hf (Y := CB) s_rest P (Forall (in_class (kclass [KHost; KPool; KSA; KNS; KSvc]))) F_rest →
  hf (Y := CB) (fanin s_vtep s_rest) P (Forall (in_class (kclass [KVtep; KHost; KPool; KSA; KNS; KSvc])))
     (λ x, wunion (F_vtep x) (F_rest x)).
Proof.
  intros H1 H2.
  apply (hf_fanin_k (X := X) s_vtep s_rest P [KVtep] [KHost; KPool; KSA; KNS; KSvc] F_vtep F_rest); [|exact H1|exact H2].
  intros k Ha Hb. set_unfold. naive_solver.
Qed.

(* the oracle applied to the real resolver's table (Spec.check_vx) accepts every run of the model *)
Lemma vx_model_meets_spec (ops : list vxop) (g : list (N * (N * N))) :
  check_vx (mkVXCase ops (map_to_list (net VT (n_outs (vx_nodeN (gen_of g)) ops) : gmap N vtep)) g true) = (true, true).
Proof.
  unfold check_vx. cbn [x_ops x_table x_gen x_nopanic]. rewrite list_to_map_to_list. f_equal.
  - by apply bool_decide_eq_true.
  - cbn [andb]. apply forallb_forall. intros n _. apply bool_decide_eq_true. apply (vx_table_exact (gen_of g) ops n).
Qed.
