(* C01 — the hypotheses of Graph.graph6_history_independent are satisfiable: a closed six-slice graph (IP pool
   passthru as the "other" slice, the remaining slices silent, flusher last) for which every hypothesis, the sequencer
   contract included, is proved; hence history-independence for every history ending with a flush request. *)
From stdpp Require Import gmap.
From Verif.Common Require Import Sync.
From Verif.C02 Require Import Model Spec Proofs.
From Verif.C01 Require Import Model Compose Spec Instances Passthru Fanin Refines Graph Dispatch RoutesPools.
Local Open Scope N_scope.

Definition silent : node (dmsg N N) sev := pipe_map (λ _, []).
Lemma silent_hf ks (P : list (dmsg N N) → Prop) :
  hf (X := DS N N) (Y := CB) silent P (Forall (in_class (kclass ks))) (λ _, world0).
Proof.
  intros is _.
  assert (E : n_outs silent is = []).
  { unfold silent. rewrite map_outs. induction is as [|m r IH]; [done|]. rewrite bind_cons. exact IH. }
  change (Forall (in_class (kclass ks)) (n_outs silent is) ∧ foldl cb_apply world0 (n_outs silent is) = world0).
  rewrite E. split; [constructor|done].
Qed.

Definition pools : node (dmsg N N) sev := passthru KPool id id.
Definition ex_front : node (dmsg N N) sev := front6 silent silent silent silent pools.
Definition ends_flush (h : list (dmsg N N)) : Prop := ∃ h', h = h' ++ [DFlush].

Definition flat_or_flush (e : sev) : Prop := flat_ev e.

(* every callback of this front end is reference-free, and a flush request ends in the sequencer's flush *)
Lemma ex_front_step s m : ∃ os, n_step ex_front s m = (s, os) ∧ Forall flat_ev os ∧ (m = DFlush → os = [SFlush []]).
Proof.
  destruct s as [[[[[[[[[[[] []] []] []] []] []] []] []] []] []] []].
  destruct m as [[k v|k]| |]; eexists; (split; [vm_compute; reflexivity|]); split; try (intros; discriminate); try done;
    repeat constructor; try done.
Qed.

Lemma ex_front_run is s : ∃ os, n_run ex_front s is = (s, os) ∧ Forall flat_ev os.
Proof.
  induction is as [|m r IH]; [by exists []|].
  destruct (ex_front_step s m) as (o1 & E1 & F1 & _). destruct IH as (o2 & E2 & F2).
  exists (o1 ++ o2). cbn [n_run]. rewrite E1, E2. split; [done|]. by apply Forall_app.
Qed.

Lemma ex_contract h : ends_flush h → seq_admits true (n_outs ex_front h).
Proof.
  intros [h' ->]. unfold n_outs. rewrite n_run_app.
  destruct (ex_front_run h' (n_init ex_front)) as (o1 & E1 & F1). rewrite E1.
  destruct (ex_front_step (n_init ex_front) DFlush) as (o2 & E2 & F2 & L2). specialize (L2 eq_refl). subst o2.
  cbn [n_run]. rewrite E2. cbn [snd].
  exists o1, []. split; [by rewrite app_nil_r|].
  apply contract_gen_true, flat_contract.
  - intros c v. unfold world0. simpl. by rewrite lookup_empty.
  - rewrite app_nil_r. apply Forall_app. split; [exact F1|repeat constructor].
Qed.

Theorem ex_graph6_history_independent h D e :
  ends_flush h → settled h → (net (DS N N) h).1 = D → NoDup e.*1 → list_to_map e = D →
  dp_of (n_outs (graph6 true silent silent silent silent pools) h)
  = dp_of (n_outs (graph6 true silent silent silent silent pools) (fresh e)).
Proof.
  intros Hf Hs HD ND He.
  apply (graph6_history_independent ends_flush true silent silent silent silent pools
           (λ _, world0) (λ _, world0) (λ _, world0) (λ _, world0) (pt_world KPool id id)
           (silent_hf _ _) (silent_hf _ _) (silent_hf _ _) (silent_hf _ _)) with (D := D); try done.
  - eapply hf_weaken; [by intros ?| |apply (passthru_hf KPool id id)].
    intros os Hos. eapply Forall_impl; [exact Hos|]. intros ev Hev. unfold in_class in *.
    destruct (ev_cell ev); [|done]. unfold kclass in *. set_unfold. naive_solver.
  - exact ex_contract.
  - exists (map (λ kv : N * N, DOp (Upsert kv.1 kv.2)) e ++ [DInSync]). unfold fresh. by rewrite <-app_assoc.
Qed.
