(* C01 — the L3 route resolver (model Verif.C43.Model, current tree: fixed = true) as a NODE of the abstract graph:
     input  stream: C43's operations (pool / block / node / local workload updates); net state = Spec.state_of = the
                    datastore state the history leaves;
     output:        C43's model accumulates what OnRouteUpdate / OnRouteRemove add up to in its state ([s_out], the route
                    set held downstream); the node's output message is that accumulated set after each operation, the
                    net state of the output stream is the last one;
     node lemma:    after ANY history inside C43's stated domain (block keys never overlap [sep]; hop_ok; dop_ok) a CIDR
                    about which the final state says nothing has no route, and every block / borrowed-address / workload
                    route on a CIDR that is not a node's own address equals [desired (state_of ops) k], the RouteUpdate
                    computed from the state alone - c43_order_independent.  (Pure pool CIDR routes and nodes' own /32s
                    are outside that conclusion; C43 says why.) *)
From Coq Require Import List NArith Arith Bool.
From Verif.Common Require Import Prefix.
From Verif.C43 Require Import Model Spec Final Inv Link5 Link6.
From Verif.C01 Require Model Compose Refines.
Import ListNotations.

Module M := Verif.C01.Model.
Module Cp := Verif.C01.Compose.
Module Rf := Verif.C01.Refines.

Section N43.
  Variable BK : prefix -> Prop.
  Hypothesis sep : forall a b x, BK a -> BK b -> covers 32 a x = true -> covers 32 b x = true -> a = b.

  Definition node43 : M.node op (list (prefix * route)) :=
    M.Node st st0 (fun s o => let s' := apply_op true s o in (s', [s_out s'])).

  Definition X43 : Cp.stype := Cp.SType op dstate d0 dstep eq.

  Definition sat43 (out : list (prefix * route)) (d : dstate) : Prop :=
    forall k, wfp 32 k ->
      (ri_valid (entry d k) = false -> aget prefix_eqb out k = None)
      /\ (hosts_at d k = [] -> (block_at d k <> None \/ wep_at d k <> O) -> aget prefix_eqb out k = desired d k).

  Definition admitted43 (ops : list op) : Prop := Forall (hop_ok BK) ops /\ Forall dop_ok ops.

  Lemma node43_last ops : forall s,
    stdpp.list.foldl (fun _ t => t) (s_out s) (snd (M.n_run node43 s ops)) = s_out (fold_left (apply_op true) ops s)
    /\ fst (M.n_run node43 s ops) = fold_left (apply_op true) ops s.
  Proof.
    induction ops as [|o r IH]; intros s; simpl; [split; reflexivity|].
    specialize (IH (apply_op true s o)). destruct (M.n_run node43 (apply_op true s o) r) as [s2 os]. simpl in *. exact IH.
  Qed.

  Theorem node43_refines :
    Rf.refines (X := X43) (s_out st0) (fun _ t => t) sat43 node43 admitted43 (fun d => d).
  Proof.
    intros ops [H1 H2]. unfold M.n_outs. change (M.n_init node43) with st0.
    assert (EN : Cp.net X43 ops = state_of ops) by (unfold Cp.net, state_of; apply Rf.foldl_fold_left).
    rewrite EN.
    assert (EO : stdpp.list.foldl (fun _ t : list (prefix * route) => t) (s_out st0) (snd (M.n_run node43 st0 ops))
                 = s_out (run true ops)) by (apply (proj1 (node43_last ops st0))).
    intros k W. pose proof (order_independent BK sep ops H1 H2 k W) as G. rewrite <-EO in G. exact G.
  Qed.

  Definition Y43 : Cp.stype :=
    Rf.rstype (list (prefix * route)) (list (prefix * route)) dstate (s_out st0) (fun _ t => t) sat43.
  Theorem node43_hf : Cp.hf (X := X43) (Y := Y43) node43 admitted43 (fun _ => True) (fun d => inr d).
  Proof. apply Rf.refines_hf, node43_refines. Qed.
End N43.
