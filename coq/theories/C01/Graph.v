(* C01 — the calculation graph assembled from slices.

       datastore updates (after the ValidationFilter; DS K V)
            |  dispatcher fan-out (registration order)
      +-----+---------+-----------+-----------+------------+---------+
      v               v           v           v            v         v
   policy slice   rules slice   IP set      route       other     flusher
   (-> KEp)       (-> KPol,     slice       slice       slice     (CalcGraph.Flush ->
                   KProf)       (-> KIPSet) (-> KRoute) (-> rest)  EventSequencer.Flush)
      +-----+---------+-----------+-----------+------------+---------+
            |  fan-in: every slice calls the one EventSequencer (Fanin.v)
            v
       EventSequencer (C02)  ->  dataplane

   A slice is  feeder ; node ; emitter  ([slice], [slice_hf]): the feeder is whatever brings the node its inputs
   (dispatcher routing, type filters, other nodes' callbacks), the emitter turns the node's outputs into sequencer
   callbacks.  [graph6_history_independent] is the whole-graph theorem over six slices writing disjoint object kinds;
   its hypotheses are one history-freeness statement per slice plus the sequencer contract of the merged stream. *)
From stdpp Require Import gmap.
From Verif.Common Require Import Sync.
From Verif.C02 Require Import Model Spec Proofs.
From Verif.C01 Require Import Model Compose Spec Instances Fanin Refines.
Local Open Scope N_scope.

Definition kclass (ks : list kind) : cell → Prop := λ c, c.1 ∈ ks.

(* ------------------------------------------------------------------ a slice = feeder ; node ; emitter *)
Definition slice {A B C} (feed : node A B) (n : node B C) (emit : node C sev) : node A sev :=
  pipe_seq feed (pipe_seq n emit).

Lemma slice_hf {X XI YI : stype} (feed : node (s_msg X) (s_msg XI)) (n : node (s_msg XI) (s_msg YI))
    (emit : node (s_msg YI) sev) (P : _ → Prop) (PI : _ → Prop) (QI : _ → Prop) (QO : _ → Prop) G F E :
  (∀ a b, s_eqv XI a b → a = b) →                       (* the node's input net states are compared by equality *)
  (∀ a b, s_eqv YI a b → E a = E b) →                   (* the emitter's image does not depend on the slack the node lemma leaves *)
  hf (X := X) (Y := XI) feed P PI G →
  hf (X := XI) (Y := YI) n PI QI F →
  hf (X := YI) (Y := CB) emit QI QO E →
  hf (X := X) (Y := CB) (slice feed n emit) P QO (E ∘ F ∘ G).
Proof.
  intros HX HE Hf Hn He. unfold slice.
  assert (Hne : hf (X := XI) (Y := CB) (pipe_seq n emit) PI QO (E ∘ F)).
  { apply (hf_seq (X := XI) (Y := YI) (Z := CB) n emit PI QI QO F E); [|exact HE|exact Hn|exact He].
    intros a b c -> ->. done. }
  apply (hf_seq (X := X) (Y := XI) (Z := CB) feed (pipe_seq n emit) P PI QO G (E ∘ F)); [|  |exact Hf|exact Hne].
  - intros a b c -> ->. done.
  - intros a b Hab. by rewrite (HX a b Hab).
Qed.

(* ------------------------------------------------------------------ fan-in specialised to object kinds *)
Lemma hf_fanin_k {X : stype} (s1 s2 : node (s_msg X) sev) (P : _ → Prop) ks1 ks2 F1 F2 :
  (∀ k, k ∈ ks1 → k ∈ ks2 → False) →
  hf (Y := CB) s1 P (Forall (in_class (kclass ks1))) F1 →
  hf (Y := CB) s2 P (Forall (in_class (kclass ks2))) F2 →
  hf (Y := CB) (fanin s1 s2) P (Forall (in_class (kclass (ks1 ++ ks2)))) (λ x, wunion (F1 x) (F2 x)).
Proof.
  intros Hd H1 H2.
  eapply hf_weaken; [by intros ?| |apply (hf_fanin (kclass ks1) (kclass ks2)); [|exact H1|exact H2]].
  - intros os Hos. eapply Forall_impl; [exact Hos|]. intros e He. unfold in_class in *.
    destruct (ev_cell e) as [c|]; [|done]. unfold kclass in *. apply elem_of_app. exact He.
  - intros c Hc1 Hc2. exact (Hd _ Hc1 Hc2).
Qed.

(* ------------------------------------------------------------------ the flusher slice *)
Section Flusher.
  Context {K : Type} `{Countable K} {V : Type}.
  Definition flusher : node (dmsg K V) sev :=
    pipe_map (λ m, match m with DFlush => [SFlush []] | _ => [] end).
  Lemma flusher_hf (P : list (dmsg K V) → Prop) :
    hf (X := DS K V) (Y := CB) flusher P (Forall (in_class (kclass []))) (λ _, world0).
  Proof.
    intros is _. unfold flusher. rewrite map_outs. split.
    - induction is as [|m r IH]; [constructor|]. rewrite bind_cons. apply Forall_app. split; [|exact IH].
      destruct m as [o| |]; repeat constructor.
    - change (foldl cb_apply world0 (is ≫= λ m : dmsg K V, match m with DFlush => [SFlush []] | _ => [] end) = world0).
      induction is as [|m r IH]; [done|]. rewrite bind_cons, foldl_app.
      destruct m as [o| |]; simpl; exact IH.
  Qed.
  (* when the input ends with a flush request, the flusher's SFlush is the last callback of the merged stream as
     long as it is registered last; that is part of the contract hypothesis below *)
End Flusher.

(* ------------------------------------------------------------------ six slices *)
Section Graph6.
  Context {K : Type} `{Countable K} {V : Type}.
  Variable admitted : list (dmsg K V) → Prop.
  Variable late : bool.
  (* the slices and what each computes from the current datastore state *)
  Variables s_ep s_rules s_ipset s_route s_other : node (dmsg K V) sev.
  Variables F_ep F_rules F_ipset F_route F_other : gmap K V * bool → world.

  Definition front6 : node (dmsg K V) sev :=
    fanin (fanin (fanin (fanin (fanin s_ep s_rules) s_ipset) s_route) s_other) flusher.
  Definition graph6 : node (dmsg K V) msg := pipe_seq front6 (seq_node late).
  Definition F6 (x : gmap K V * bool) : world :=
    wunion (wunion (wunion (wunion (wunion (F_ep x) (F_rules x)) (F_ipset x)) (F_route x)) (F_other x)) world0.

  Hypothesis ep_hf    : hf (X := DS K V) (Y := CB) s_ep admitted (Forall (in_class (kclass [KEp]))) F_ep.
  Hypothesis rules_hf : hf (X := DS K V) (Y := CB) s_rules admitted (Forall (in_class (kclass [KPol; KProf]))) F_rules.
  Hypothesis ipset_hf : hf (X := DS K V) (Y := CB) s_ipset admitted (Forall (in_class (kclass [KIPSet]))) F_ipset.
  Hypothesis route_hf : hf (X := DS K V) (Y := CB) s_route admitted (Forall (in_class (kclass [KRoute]))) F_route.
  Hypothesis other_hf : hf (X := DS K V) (Y := CB) s_other admitted
                           (Forall (in_class (kclass [KVtep; KHost; KPool; KSA; KNS; KSvc]))) F_other.
  (* the merged callback stream respects the sequencer's contract and ends with the flush (what C02's per-message
     checker verifies on the real graph in every correspondence case) *)
  Hypothesis contract6 : ∀ h, admitted h → seq_admits late (n_outs front6 h).

  Ltac kinds_disjoint := intros k H1 H2; set_unfold; naive_solver.

  Lemma front6_hf : hf (X := DS K V) (Y := CB) front6 admitted (seq_admits late) F6.
  Proof.
    assert (D1 : ∀ k : kind, k ∈ [KEp] → k ∈ [KPol; KProf] → False) by kinds_disjoint.
    pose proof (hf_fanin_k (X := DS K V) s_ep s_rules admitted _ _ F_ep F_rules D1 ep_hf rules_hf) as G1.
    assert (D2 : ∀ k : kind, k ∈ [KEp] ++ [KPol; KProf] → k ∈ [KIPSet] → False) by kinds_disjoint.
    pose proof (hf_fanin_k (X := DS K V) _ s_ipset admitted _ _ _ F_ipset D2 G1 ipset_hf) as G2.
    assert (D3 : ∀ k : kind, k ∈ ([KEp] ++ [KPol; KProf]) ++ [KIPSet] → k ∈ [KRoute] → False) by kinds_disjoint.
    pose proof (hf_fanin_k (X := DS K V) _ s_route admitted _ _ _ F_route D3 G2 route_hf) as G3.
    assert (D4 : ∀ k : kind, k ∈ (([KEp] ++ [KPol; KProf]) ++ [KIPSet]) ++ [KRoute] →
                            k ∈ [KVtep; KHost; KPool; KSA; KNS; KSvc] → False) by kinds_disjoint.
    pose proof (hf_fanin_k (X := DS K V) _ s_other admitted _ _ _ F_other D4 G3 other_hf) as G4.
    assert (D5 : ∀ k : kind, k ∈ ((([KEp] ++ [KPol; KProf]) ++ [KIPSet]) ++ [KRoute]) ++ [KVtep; KHost; KPool; KSA; KNS; KSvc] →
                            k ∈ (@nil kind) → False) by kinds_disjoint.
    pose proof (hf_fanin_k (X := DS K V) _ flusher admitted _ _ _ (λ _, world0) D5 G4 (flusher_hf admitted)) as G.
    intros h Ha. split; [by apply contract6|]. exact (proj2 (G h Ha)).
  Qed.

  Theorem graph6_function_of_state h : admitted h → dp_of (n_outs graph6 h) = F6 (net (DS K V) h).
  Proof. apply (graph_function_of_state front6 late admitted F6 front6_hf). Qed.

  Theorem graph6_history_independent h D e :
    admitted h → settled h → (net (DS K V) h).1 = D →
    NoDup e.*1 → list_to_map e = D → admitted (fresh e) →
    dp_of (n_outs graph6 h) = dp_of (n_outs graph6 (fresh e)).
  Proof. apply (graph_history_independent front6 late admitted F6 front6_hf). Qed.
End Graph6.
