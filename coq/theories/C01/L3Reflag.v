(* C01 — a node that is NOT history-free in the pinned code, as a model: the part of
   felix/calc/l3_route_resolver.go behind the known finding block-update-leaves-contained-routes-stale.

   Modelled (two-level universe: IPAM blocks [b : N] and single addresses [a : N] with [blk a] = the block whose
   CIDR contains a; pools, host routes, tunnel refs and node addresses left out):
     RouteTrie entries      block entry of a block CIDR (Blocks[0].NodeName), per-address block entry (a borrowed
                            address' own block route) and workload reference of an address CIDR (Refs[0], RefTypeWEP);
     RouteTrie.dirtyCIDRs   every handler marks the CIDR it touches (updateCIDR -> MarkCIDRDirty) and flushes at once
                            (defer c.flush()); [reflag = true] is the repaired code (fixes/C01-block-update-reflags-
                            contained-routes.patch): a block-CIDR change also marks the contained CIDRs that are in the trie;
     flush()                for a dirty CIDR: not a valid route any more -> OnRouteRemove if it was sent; otherwise walk the
                            lookup path (enclosing block entry, then the CIDR's own entries) computing DstNodeName, the
                            LOCAL/REMOTE_WORKLOAD type bits, LocalWorkload and Borrowed exactly as the Go loop does.
   One input message of the node is a BATCH of entry changes followed by one flush: OnBlockUpdate applies all the route
   changes of one block value (removals, then additions) and flushes once; OnWorkloadUpdate is a batch of one.
   Node 0 is the local node.

   Tied to the Go code by the correspondence run: the driver's L3 cases drive the REAL L3RouteResolver with block values
   and local workload endpoints and Spec.check_l3 compares the route table it emitted with this model and with
   [route_of] of the final inputs. *)
From stdpp Require Import gmap.
From Verif.C01 Require Import Model Compose.
Local Open Scope N_scope.

Inductive l3op :=
| BlockSet (b n : N) | BlockDel (b : N)          (* block route for the block's own CIDR: affinity node n *)
| AddrBlkSet (a n : N) | AddrBlkDel (a : N)      (* per-address block route (address allocated to another node) *)
| WepSet (a n : N) | WepDel (a : N).             (* workload endpoint reference on node n *)

Record route := { r_dst : N; r_local : bool; r_remote : bool; r_localwl : bool; r_borrowed : bool }.
Global Instance route_eq_dec : EqDecision route.
Proof. solve_decision. Defined.

Notation cidr := (N + N)%type.     (* inl b = a block's CIDR, inr a = a single address *)
Inductive rmsg := RUpd (c : cidr) (r : route) | RRem (c : cidr).

Record inputs := { i_blk : gmap N N; i_ablk : gmap N N; i_wep : gmap N N }.
Global Instance inputs_eq_dec : EqDecision inputs.
Proof. solve_decision. Defined.
Definition inputs0 : inputs := {| i_blk := ∅; i_ablk := ∅; i_wep := ∅ |}.

Section L3.
  Variable blk : N → N.

  Definition in_apply (i : inputs) (o : l3op) : inputs :=
    match o with
    | BlockSet b n => {| i_blk := <[b := n]> (i_blk i); i_ablk := i_ablk i; i_wep := i_wep i |}
    | BlockDel b => {| i_blk := delete b (i_blk i); i_ablk := i_ablk i; i_wep := i_wep i |}
    | AddrBlkSet a n => {| i_blk := i_blk i; i_ablk := <[a := n]> (i_ablk i); i_wep := i_wep i |}
    | AddrBlkDel a => {| i_blk := i_blk i; i_ablk := delete a (i_ablk i); i_wep := i_wep i |}
    | WepSet a n => {| i_blk := i_blk i; i_ablk := i_ablk i; i_wep := <[a := n]> (i_wep i) |}
    | WepDel a => {| i_blk := i_blk i; i_ablk := i_ablk i; i_wep := delete a (i_wep i) |}
    end.

  (* the body of flush()'s loop over the lookup path, as a fold over the entries met: (seen, name, route) *)
  Definition acc0 : bool * N * route :=
    (false, 0, {| r_dst := 0; r_local := false; r_remote := false; r_localwl := false; r_borrowed := false |}).
  Definition see_block (n : N) (x : bool * N * route) : bool * N * route :=
    let '(seen, name, r) := x in
    let borrowed := r_borrowed r || (seen && negb (name =? n)) in
    let '(seen', name') := if seen && negb (name =? n) then (seen, name) else (true, n) in
    (seen', name', {| r_dst := n; r_local := r_local r || (n =? 0); r_remote := r_remote r || negb (n =? 0);
                      r_localwl := r_localwl r; r_borrowed := borrowed |}).
  Definition see_wep (n : N) (x : bool * N * route) : bool * N * route :=
    let '(seen, name, r) := x in
    (seen, name, {| r_dst := n; r_local := r_local r || (n =? 0); r_remote := r_remote r || negb (n =? 0);
                    r_localwl := r_localwl r || (n =? 0); r_borrowed := r_borrowed r || (seen && negb (name =? n)) |}).
  Definition opt {A} (f : N → A → A) (o : option N) (x : A) : A := match o with Some n => f n x | None => x end.

  (* THE function of the current inputs: the route Felix should have programmed for a CIDR (None = no route) *)
  Definition route_of (i : inputs) (c : cidr) : option route :=
    match c with
    | inl b => (λ n, (see_block n acc0).2) <$> i_blk i !! b
    | inr a =>
        match i_ablk i !! a, i_wep i !! a with
        | None, None => None
        | own, ref => Some (opt see_wep ref (opt see_block own (opt see_block (i_blk i !! blk a) acc0))).2
        end
    end.

  Record l3st := { l_in : inputs; l_sent : gmap cidr route }.
  Definition l3st0 : l3st := {| l_in := inputs0; l_sent := ∅ |}.

  Definition touched (o : l3op) : cidr :=
    match o with
    | BlockSet b _ | BlockDel b => inl b
    | AddrBlkSet a _ | AddrBlkDel a | WepSet a _ | WepDel a => inr a
    end.
  (* the contained CIDRs that are in the trie: addresses of that block having an entry of their own *)
  Definition contained (i : inputs) (b : N) : list cidr :=
    inr <$> filter (λ a, blk a = b) (elements (dom (i_ablk i) ∪ dom (i_wep i))).
  Definition dirty (reflag : bool) (i : inputs) (o : l3op) : list cidr :=
    touched o :: match o with
                 | BlockSet b _ | BlockDel b => if reflag then contained i b else []
                 | _ => []
                 end.

  Definition flush1 (i : inputs) (x : gmap cidr route * list rmsg) (c : cidr) : gmap cidr route * list rmsg :=
    match route_of i c with
    | Some r => (<[c := r]> x.1, x.2 ++ [RUpd c r])
    | None => if decide (is_Some (x.1 !! c)) then (delete c x.1, x.2 ++ [RRem c]) else x
    end.

  (* apply a batch: final inputs and everything marked dirty on the way *)
  Fixpoint batch_apply (reflag : bool) (i : inputs) (os : list l3op) : inputs * list cidr :=
    match os with
    | [] => (i, [])
    | o :: r => let i1 := in_apply i o in
                let '(i2, d) := batch_apply reflag i1 r in (i2, dirty reflag i1 o ++ d)
    end.

  Definition l3_step (reflag : bool) (s : l3st) (os : list l3op) : l3st * list rmsg :=
    let '(i, d) := batch_apply reflag (l_in s) os in
    let '(sent, ms) := foldl (flush1 i) (l_sent s, []) d in
    ({| l_in := i; l_sent := sent |}, ms).

  Definition l3_node (reflag : bool) : node (list l3op) rmsg := Node l3st l3st0 (l3_step reflag).

  (* stream types *)
  Definition L3IN : stype := SType (list l3op) inputs inputs0 (foldl in_apply) eq.
  Definition rt_apply (t : gmap cidr route) (m : rmsg) : gmap cidr route :=
    match m with RUpd c r => <[c := r]> t | RRem c => delete c t end.
  Definition RT : stype := SType rmsg (gmap cidr route) ∅ rt_apply eq.

  (* the table a fresh resolver computes: exactly the CIDRs with a route *)
  Definition table_ok (i : inputs) (t : gmap cidr route) : Prop := ∀ c, t !! c = route_of i c.

  (* ---------------------------------------------------------------- proofs *)
  Lemma flush1_spec i x c c' :
    (flush1 i x c).1 !! c' = if decide (c' = c) then route_of i c else x.1 !! c'.
  Proof.
    unfold flush1. destruct (route_of i c) as [r|] eqn:E; simpl.
    - destruct (decide (c' = c)) as [->|Hn]; [by rewrite lookup_insert|by rewrite lookup_insert_ne].
    - destruct (decide (is_Some (x.1 !! c))) as [Hs|Hs]; simpl.
      + destruct (decide (c' = c)) as [->|Hn]; [by rewrite lookup_delete|by rewrite lookup_delete_ne].
      + destruct (decide (c' = c)) as [->|Hn]; [|done]. by apply eq_None_not_Some.
  Qed.

  Lemma flush_spec i l x c' :
    (foldl (flush1 i) x l).1 !! c' = if decide (c' ∈ l) then route_of i c' else x.1 !! c'.
  Proof.
    revert x. induction l as [|c r IH]; intros x.
    - simpl. destruct (decide (c' ∈ [])) as [Hin|_]; [by apply elem_of_nil in Hin|done].
    - change (foldl (flush1 i) x (c :: r)) with (foldl (flush1 i) (flush1 i x c) r).
      rewrite IH. destruct (decide (c' ∈ r)) as [Hin|Hni].
      + destruct (decide (c' ∈ c :: r)) as [_|Hn]; [done|]. exfalso. apply Hn. by right.
      + rewrite flush1_spec. destruct (decide (c' = c)) as [->|Hn].
        * destruct (decide (c ∈ c :: r)) as [_|Hn]; [done|]. exfalso. apply Hn. by left.
        * destruct (decide (c' ∈ c :: r)) as [Hc|_]; [|done].
          apply elem_of_cons in Hc as [?|?]; done.
  Qed.

  (* the messages emitted by a flush replay to the sent map *)
  Lemma flush1_msgs i x c t0 :
    foldl rt_apply t0 x.2 = x.1 → foldl rt_apply t0 (flush1 i x c).2 = (flush1 i x c).1.
  Proof.
    intros E. unfold flush1. destruct (route_of i c) as [r|]; simpl.
    - by rewrite foldl_app, E.
    - destruct (decide _); simpl; [by rewrite foldl_app, E|done].
  Qed.
  Lemma flush_msgs i l x t0 :
    foldl rt_apply t0 x.2 = x.1 → foldl rt_apply t0 (foldl (flush1 i) x l).2 = (foldl (flush1 i) x l).1.
  Proof. revert x. induction l as [|c r IH]; intros x E; simpl; [done|]. apply IH. by apply flush1_msgs. Qed.

  (* an operation changes the wanted route only of the CIDRs the REPAIRED code marks dirty *)
  Lemma route_of_frame i o c :
    c ∉ dirty true (in_apply i o) o → route_of (in_apply i o) c = route_of i c.
  Proof.
    intros Hn.
    assert (Ht : c ≠ touched o) by (intros ->; apply Hn; by left).
    destruct o as [b n|b|a n|a|a n|a]; simpl in *.
    1,2: destruct c as [b'|a']; simpl;
         [ (rewrite lookup_insert_ne || rewrite lookup_delete_ne); [done|congruence] | ];
         destruct (i_ablk i !! a') as [own|] eqn:Eo, (i_wep i !! a') as [ref|] eqn:Er; try done;
         (destruct (decide (blk a' = b)) as [Hb|Hb];
          [ exfalso; apply Hn; right; unfold contained; simpl; apply elem_of_list_fmap; exists a'; split; [done|];
            apply elem_of_list_filter; split; [done|]; apply elem_of_elements, elem_of_union;
            first [ left; apply elem_of_dom; by eexists | right; apply elem_of_dom; by eexists ]
          | (rewrite lookup_insert_ne || rewrite lookup_delete_ne); [done|congruence] ]).
    all: destruct c as [b'|a']; simpl; [done|];
         (rewrite lookup_insert_ne || rewrite lookup_delete_ne); [done|congruence].
  Qed.

  Lemma batch_apply_inputs reflag os i : (batch_apply reflag i os).1 = foldl in_apply i os.
  Proof.
    revert i. induction os as [|o r IH]; intros i; simpl; [done|].
    specialize (IH (in_apply i o)). destruct (batch_apply reflag (in_apply i o) r). simpl in *. done.
  Qed.

  Lemma batch_frame os i c :
    c ∉ (batch_apply true i os).2 → route_of (batch_apply true i os).1 c = route_of i c.
  Proof.
    revert i. induction os as [|o r IH]; intros i; [done|].
    cbn [batch_apply]. specialize (IH (in_apply i o)).
    destruct (batch_apply true (in_apply i o) r) as [i2 d]. cbn [fst snd] in *.
    intros Hn. apply not_elem_of_app in Hn as [H1 H2].
    rewrite (IH H2). by apply route_of_frame.
  Qed.

  Lemma l3_step_inv s os :
    table_ok (l_in s) (l_sent s) →
    let '(s', ms) := l3_step true s os in
    l_in s' = foldl in_apply (l_in s) os ∧ table_ok (l_in s') (l_sent s') ∧
    ∀ t0, t0 = l_sent s → foldl rt_apply t0 ms = l_sent s'.
  Proof.
    intros Hok. unfold l3_step.
    pose proof (batch_apply_inputs true os (l_in s)) as Hi. pose proof (batch_frame os (l_in s)) as Hfr.
    destruct (batch_apply true (l_in s) os) as [i d]. simpl in Hi, Hfr.
    destruct (foldl (flush1 i) (l_sent s, []) d) as [sent ms] eqn:E.
    simpl. split; [done|]. split.
    - intros c. pose proof (flush_spec i d (l_sent s, []) c) as Hs.
      rewrite E in Hs. simpl in Hs. rewrite Hs. destruct (decide _) as [|Hn]; [done|].
      rewrite Hok. symmetry. by apply Hfr.
    - intros t0 ->. pose proof (flush_msgs i d (l_sent s, []) (l_sent s) eq_refl) as Hm.
      by rewrite E in Hm.
  Qed.

  Lemma l3_run_inv ops s t0 :
    table_ok (l_in s) (l_sent s) →
    let '(s', ms) := n_run (l3_node true) s ops in
    l_in s' = foldl (foldl in_apply) (l_in s) ops ∧ table_ok (l_in s') (l_sent s') ∧
    (t0 = l_sent s → foldl rt_apply t0 ms = l_sent s').
  Proof.
    revert s t0. induction ops as [|o r IH]; intros s t0 Hok; simpl; [done|].
    pose proof (l3_step_inv s o Hok) as H1. change (n_step (l3_node true) s o) with (l3_step true s o).
    destruct (l3_step true s o) as [s1 m1]. destruct H1 as (Hi1 & Hok1 & Hm1).
    specialize (IH s1 (l_sent s1) Hok1). destruct (n_run (l3_node true) s1 r) as [s2 m2].
    destruct IH as (Hi2 & Hok2 & Hm2). split; [by rewrite Hi2, Hi1|]. split; [done|].
    intros ->. rewrite foldl_app, (Hm1 _ eq_refl). by apply Hm2.
  Qed.

  (* REPAIRED code: after ANY history the emitted route table is the table a fresh resolver computes from the
     current inputs (the node_function_of_state shape, pointwise form) *)
  Theorem l3_fixed_table_exact ops :
    table_ok (net L3IN ops) (net RT (n_outs (l3_node true) ops)).
  Proof.
    pose proof (l3_run_inv ops l3st0 ∅) as H. unfold n_outs, net. simpl in *.
    destruct (n_run (l3_node true) l3st0 ops) as [s' ms]. simpl.
    destruct H as (Hi & Hok & Hm); [intros c; by destruct c|].
    rewrite (Hm eq_refl), <-Hi. exact Hok.
  Qed.

  (* ... hence equal for any two histories with the same current inputs: no hysteresis *)
  Theorem l3_fixed_history_free ops1 ops2 :
    net L3IN ops1 = net L3IN ops2 →
    net RT (n_outs (l3_node true) ops1) = net RT (n_outs (l3_node true) ops2).
  Proof.
    intros E. pose proof (l3_fixed_table_exact ops1) as H1. pose proof (l3_fixed_table_exact ops2) as H2.
    rewrite E in H1.
    assert (G : ∀ t1 t2 : gmap cidr route, table_ok (net L3IN ops2) t1 → table_ok (net L3IN ops2) t2 → t1 = t2).
    { intros t1 t2 A B. apply map_eq. intros c. by rewrite A, B. }
    exact (G _ _ H1 H2).
  Qed.
End L3.

(* PINNED code (no re-flagging): the same final inputs reached in two orders give two different route tables.
   Block 5 belongs to remote node 1, address 7 lies in block 5 and carries a workload of the local node 0. *)
Definition l3_witness_a : list (list l3op) := [[BlockSet 5 1]; [WepSet 7 0]].
Definition l3_witness_b : list (list l3op) := [[WepSet 7 0]; [BlockSet 5 1]].
Lemma l3_pinned_refuted :
  net L3IN l3_witness_a = net L3IN l3_witness_b ∧
  bool_decide (net RT (n_outs (l3_node (λ _, 5) false) l3_witness_a) = net RT (n_outs (l3_node (λ _, 5) false) l3_witness_b)) = false ∧
  bool_decide (net RT (n_outs (l3_node (λ _, 5) true) l3_witness_a) = net RT (n_outs (l3_node (λ _, 5) true) l3_witness_b)) = true.
Proof. split; [|split]; vm_compute; reflexivity. Qed.
