(* C01 — the L3 slice's specification oracle (Spec.check_l3) accepts every run of the REPAIRED model: for every
   sequence of block values / workload updates, the route table the model emits passes the oracle the correspondence
   run applies to the real resolver's table. *)
From stdpp Require Import gmap.
From Verif.C02 Require Import Model Spec.
From Verif.C01 Require Import Model Compose L3Reflag Spec.
Local Open Scope N_scope.

Lemma l3_model_meets_spec (ops : list gop) :
  let batches := g_translate (∅, ∅) ops in
  let tbl : gmap (N + N) route := net RT (n_outs (l3_node blk8 true) batches) in
  check_l3 (mkL3Case true ops (map_to_list tbl) true) = (true, true).
Proof.
  intros batches tbl. unfold check_l3. cbn [l_reflag l_ops l_table l_plain].
  fold batches. rewrite list_to_map_to_list. fold tbl. f_equal.
  - by apply bool_decide_eq_true.
  - cbn [andb]. apply forallb_forall. intros c _. apply bool_decide_eq_true.
    apply (l3_fixed_table_exact blk8 batches c).
Qed.
