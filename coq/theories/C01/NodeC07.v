(* C01 — the label inheritance index (labelindex.InheritIndex; model Verif.C07.Model) as a NODE of the abstract graph
   and its history-freeness in the vocabulary of Compose.v:
     input  stream: C07's operations (labels / parent labels / selectors); net state = Spec.sp_run = the plain data the
                    history describes;
     output stream: the OnMatchStarted / OnMatchStopped callbacks each operation fires (the new part of the model's log);
                    net state = the set of (selector, item) pairs currently "started" (C07's oracle automaton alt_run;
                    None = an illegal callback: start while started / stop while stopped);
     hf:            after ANY history and under ANY map iteration order the started pairs are exactly the pairs the
                    specification wants ([expected (sp_run ops)]) - from c07's step_events (callbacks alternate and
                    end in the match map) and index_exact_perm (match map = direct evaluation). *)
From Coq Require Import List NArith Bool Permutation.
From Verif.Common Require Import Labels.
From Verif.C07 Require Import Model Spec MapLemmas SortLemmas AltProofs Proofs MeetsProofs.
From Verif.C01 Require Model Compose.
Import ListNotations.
Open Scope N_scope.

Module M := Verif.C01.Model.
Module Cp := Verif.C01.Compose.

Lemma foldl_fold_left {A B} (f : A -> B -> A) l : forall a, stdpp.list.foldl f a l = fold_left f l a.
Proof. induction l as [|x r IH]; intros a; simpl; [reflexivity|apply IH]. Qed.

Section N7.
  Variable ord : nat -> list N -> list N.
  Variable sel_eqb : ast -> ast -> bool.
  Hypothesis ord_perm : forall t l, Permutation (ord t l) l.
  Hypothesis sel_sound : forall a b, sel_eqb a b = true -> forall L, eval a L = eval b L.

  Definition node7 : M.node op ev :=
    M.Node st empty_st (fun x o => let y := step ord sel_eqb x o in (y, new_events x y)).

  Definition X7 : Cp.stype := Cp.SType op sp sp_empty sp_step eq.
  Definition y7_apply (a : option (list (N * N))) (e : ev) : option (list (N * N)) :=
    match a with Some A => alt_run A [e] | None => None end.
  Definition same_pairs (a b : option (list (N * N))) : Prop :=
    exists A B, a = Some A /\ b = Some B /\ forall p, In p A <-> In p B.
  Definition Y7 : Cp.stype := Cp.SType ev (option (list (N * N))) (Some []) y7_apply same_pairs.

  Lemma fold_y7 evs : forall a,
    fold_left y7_apply evs a = match a with Some A => alt_run A evs | None => None end.
  Proof.
    induction evs as [|e r IH]; intros a; simpl.
    - destruct a; reflexivity.
    - rewrite IH. destruct a as [A|]; simpl; [|reflexivity].
      destruct e as [s i|s i]; simpl; destruct (memP (s, i) A); reflexivity.
  Qed.

  Lemma node7_run ops : forall x A0,
    act_ok A0 (by_sel x) ->
    fst (M.n_run node7 x ops) = run_from ord sel_eqb x ops /\
    exists A, alt_run A0 (snd (M.n_run node7 x ops)) = Some A /\ act_ok A (by_sel (fst (M.n_run node7 x ops))).
  Proof.
    induction ops as [|o r IH]; intros x A0 H0; simpl.
    - split; [reflexivity|]. exists A0. split; [reflexivity|exact H0].
    - destruct (step_events ord sel_eqb x o A0 H0) as [A1 [Hr1 Ha1]].
      specialize (IH (step ord sel_eqb x o) A1 Ha1).
      destruct (M.n_run node7 (step ord sel_eqb x o) r) as [y evs] eqn:E. simpl in *.
      destruct IH as [Hy [A [Hr Ha]]]. split; [exact Hy|].
      exists A. split; [|exact Ha]. rewrite alt_run_app, Hr1. exact Hr.
  Qed.

  Lemma In_expected x s i : In (s, i) (expected x) <-> want x s i = true.
  Proof.
    unfold expected. rewrite In_psort, in_flat_map. split.
    - intros [s' [Hs Hin]]. apply in_flat_map in Hin as [i' [Hi Hin]].
      destruct (want x s' i') eqn:W; [|destruct Hin]. destruct Hin as [[= -> ->]|[]]. exact W.
    - intros W. unfold want in W.
      destruct (nlookup s (sp_sels x)) as [a|] eqn:Es; [|discriminate].
      destruct (nlookup i (sp_items x)) as [[L ps]|] eqn:Ei; [|discriminate].
      exists s. split; [eapply nlookup_In_fst; eauto|].
      apply in_flat_map. exists i. split; [eapply nlookup_In_fst; eauto|].
      unfold want. rewrite Es, Ei, W. left. reflexivity.
  Qed.

  (* THE node lemma: the index is history-free, for every history *)
  Theorem node7_hf :
    Cp.hf (X := X7) (Y := Y7) node7 (fun _ => True) (fun _ => True) (fun x => Some (expected x)).
  Proof.
    intros ops _. split; [exact I|].
    assert (H0 : act_ok [] (by_sel empty_st)).
    { split; [constructor|]. intros s i. simpl. split; [intros []|discriminate]. }
    destruct (node7_run ops empty_st [] H0) as [Hy [A [Hr [HN HA]]]].
    unfold Cp.net, M.n_outs. rewrite !foldl_fold_left.
    change (M.n_init node7) with empty_st.
    change (Cp.s_apply Y7) with y7_apply. change (Cp.s_net0 Y7) with (Some (@nil (N * N))).
    change (Cp.s_apply X7) with sp_step. change (Cp.s_net0 X7) with sp_empty.
    exists A, (expected (fold_left sp_step ops sp_empty)). split; [|split; [reflexivity|]].
    - rewrite fold_y7. exact Hr.
    - intros [s i]. rewrite HA, In_expected, Hy.
      destruct (index_exact_perm ord sel_eqb ord_perm sel_sound ops s i) as [E _].
      unfold run in E. cbv zeta in E. unfold run_from. rewrite E. unfold sp_run. tauto.
  Qed.
End N7.
