(* C01 — the VXLAN resolver (felix/calc/vxlan_resolver.go) as a node, IPv4 and IPv6, proved history-free.

   Modelled, per node name n (all identifiers, addresses and MACs are numbers; the driver interns the strings):
     nodeNameToIPv4Addr / nodeNameToIPv6Addr       [x_ip4 / x_ip6]   from the Node resource's spec.bgp addresses
                                                    (OnResourceUpdate -> onNodeIPUpdate; an empty / unparsable-as-nil
                                                    address deletes the entry; Node deleted or without BGP spec: both deleted)
     nodeNameToVXLANTunnelAddr / ...AddrV6         [x_tun4 / x_tun6] host config IPv4VXLANTunnelAddr / IPv6VXLANTunnelAddr
     nodeNameToVXLANMac / ...MacV6                 [x_mac4 / x_mac6] host config VXLANTunnelMACAddr / VXLANTunnelMACAddrV6
     nodeNameToSentVTEP                            [v_sent]
     hasVTEPInfo, sendVTEPUpdateOrRemove, vtepEqual (all seven fields), vtepMACForHost (configured MAC, else the
     deterministic one: SHA-1 of the node name [+ "-v6"], abstracted as the Section variable [gen]).
   Every handler ends in sendVTEPUpdateOrRemove(node): "changed VTEP = remove then update", "unchanged = nothing".
   Not modelled: nodeNameToNode (only stored), vxlanPools (unused).
   Tied to the Go code by the correspondence run: the driver's VX cases drive the REAL VXLANResolver and
   Spec.check_vx compares the VTEP table its callbacks add up to with this model and with [vtep_of] of the final inputs. *)
From stdpp Require Import gmap.
From Verif.C01 Require Import Model Compose.
Local Open Scope N_scope.

Record vtep := { t_mac4 : option N; t_tun4 : option N; t_par4 : option N;
                 t_mac6 : option N; t_tun6 : option N; t_par6 : option N }.
Global Instance vtep_eq_dec : EqDecision vtep.
Proof. solve_decision. Defined.

Inductive vxop :=
| VNode (n : N) (ip4 ip6 : option N)      (* Node resource with a BGP spec: its IPv4 / IPv6 address (None = empty) *)
| VNodeDel (n : N)                         (* Node deleted, or updated to have no BGP spec *)
| VTun4 (n : N) (a : option N) | VTun6 (n : N) (a : option N)
| VMac4 (n : N) (m : option N) | VMac6 (n : N) (m : option N).

Inductive vxmsg := VUpd (n : N) (v : vtep) | VRem (n : N).

Record vxin := { x_ip4 : gmap N N; x_ip6 : gmap N N; x_tun4 : gmap N N; x_tun6 : gmap N N;
                 x_mac4 : gmap N N; x_mac6 : gmap N N }.
Definition vxin0 : vxin := {| x_ip4 := ∅; x_ip6 := ∅; x_tun4 := ∅; x_tun6 := ∅; x_mac4 := ∅; x_mac6 := ∅ |}.

Definition oset (m : gmap N N) (k : N) (v : option N) : gmap N N :=
  match v with Some x => <[k := x]> m | None => delete k m end.

Definition vx_in_apply (i : vxin) (o : vxop) : vxin :=
  match o with
  | VNode n a b => {| x_ip4 := oset (x_ip4 i) n a; x_ip6 := oset (x_ip6 i) n b; x_tun4 := x_tun4 i; x_tun6 := x_tun6 i;
                      x_mac4 := x_mac4 i; x_mac6 := x_mac6 i |}
  | VNodeDel n => {| x_ip4 := delete n (x_ip4 i); x_ip6 := delete n (x_ip6 i); x_tun4 := x_tun4 i; x_tun6 := x_tun6 i;
                     x_mac4 := x_mac4 i; x_mac6 := x_mac6 i |}
  | VTun4 n a => {| x_ip4 := x_ip4 i; x_ip6 := x_ip6 i; x_tun4 := oset (x_tun4 i) n a; x_tun6 := x_tun6 i;
                    x_mac4 := x_mac4 i; x_mac6 := x_mac6 i |}
  | VTun6 n a => {| x_ip4 := x_ip4 i; x_ip6 := x_ip6 i; x_tun4 := x_tun4 i; x_tun6 := oset (x_tun6 i) n a;
                    x_mac4 := x_mac4 i; x_mac6 := x_mac6 i |}
  | VMac4 n m => {| x_ip4 := x_ip4 i; x_ip6 := x_ip6 i; x_tun4 := x_tun4 i; x_tun6 := x_tun6 i;
                    x_mac4 := oset (x_mac4 i) n m; x_mac6 := x_mac6 i |}
  | VMac6 n m => {| x_ip4 := x_ip4 i; x_ip6 := x_ip6 i; x_tun4 := x_tun4 i; x_tun6 := x_tun6 i;
                    x_mac4 := x_mac4 i; x_mac6 := oset (x_mac6 i) n m |}
  end.
Definition vx_node (o : vxop) : N :=
  match o with VNode n _ _ | VNodeDel n | VTun4 n _ | VTun6 n _ | VMac4 n _ | VMac6 n _ => n end.

Section Vx.
  Variable gen : N → bool → N.       (* the deterministic MAC of a node; true = the IPv6 one *)

  (* THE function of the current inputs: the VTEP Felix should have programmed for node n (None = no VTEP) *)
  Definition vtep_of (i : vxin) (n : N) : option vtep :=
    let has4 := bool_decide (is_Some (x_tun4 i !! n)) && bool_decide (is_Some (x_ip4 i !! n)) in
    let has6 := bool_decide (is_Some (x_tun6 i !! n)) && bool_decide (is_Some (x_ip6 i !! n)) in
    if negb has4 && negb has6 then None
    else Some {| t_mac4 := if has4 then Some (default (gen n false) (x_mac4 i !! n)) else None;
                 t_tun4 := if has4 then x_tun4 i !! n else None;
                 t_par4 := if has4 then x_ip4 i !! n else None;
                 t_mac6 := if has6 then Some (default (gen n true) (x_mac6 i !! n)) else None;
                 t_tun6 := if has6 then x_tun6 i !! n else None;
                 t_par6 := if has6 then x_ip6 i !! n else None |}.

  Record vxst := { v_in : vxin; v_sent : gmap N vtep }.
  Definition vxst0 : vxst := {| v_in := vxin0; v_sent := ∅ |}.

  (* sendVTEPUpdateOrRemove *)
  Definition vx_send (i : vxin) (sent : gmap N vtep) (n : N) : gmap N vtep * list vxmsg :=
    match vtep_of i n with
    | None => match sent !! n with Some _ => (delete n sent, [VRem n]) | None => (sent, []) end
    | Some v =>
        match sent !! n with
        | Some old => if decide (old = v) then (sent, []) else (<[n := v]> sent, [VRem n; VUpd n v])
        | None => (<[n := v]> sent, [VUpd n v])
        end
    end.

  Definition vx_step (s : vxst) (o : vxop) : vxst * list vxmsg :=
    let i := vx_in_apply (v_in s) o in
    let '(sent, ms) := vx_send i (v_sent s) (vx_node o) in
    ({| v_in := i; v_sent := sent |}, ms).
  Definition vx_nodeN : node vxop vxmsg := Node vxst vxst0 vx_step.

  Definition VXIN : stype := SType vxop vxin vxin0 vx_in_apply eq.
  Definition vt_apply (t : gmap N vtep) (m : vxmsg) : gmap N vtep :=
    match m with VUpd n v => <[n := v]> t | VRem n => delete n t end.
  Definition VT : stype := SType vxmsg (gmap N vtep) ∅ vt_apply eq.

  Definition vt_ok (i : vxin) (t : gmap N vtep) : Prop := ∀ n, t !! n = vtep_of i n.

  Lemma oset_ne m k v k' : k' ≠ k → oset m k v !! k' = m !! k'.
  Proof. intros Hn. destruct v; simpl; [by rewrite lookup_insert_ne|by rewrite lookup_delete_ne]. Qed.

  (* an operation changes the wanted VTEP of its own node only *)
  Lemma vtep_of_frame i o n : n ≠ vx_node o → vtep_of (vx_in_apply i o) n = vtep_of i n.
  Proof.
    intros Hn. unfold vtep_of. destruct o; simpl in *; rewrite ?oset_ne, ?lookup_delete_ne by congruence; reflexivity.
  Qed.

  Lemma vx_send_spec i sent n :
    (∀ n', n' ≠ n → sent !! n' = vtep_of i n') →
    let '(sent', ms) := vx_send i sent n in
    vt_ok i sent' ∧ foldl vt_apply sent ms = sent'.
  Proof.
    intros Hoth. unfold vx_send. destruct (vtep_of i n) as [v|] eqn:E.
    - destruct (sent !! n) as [old|] eqn:Es.
      + destruct (decide (old = v)) as [->|Hne].
        * split; [|done]. intros n'. destruct (decide (n' = n)) as [->|H']; [by rewrite Es, E|by apply Hoth].
        * split.
          -- intros n'. destruct (decide (n' = n)) as [->|H']; [by rewrite lookup_insert, E|]. rewrite lookup_insert_ne by done. by apply Hoth.
          -- simpl. by rewrite insert_delete_insert.
      + split; [|done]. intros n'. destruct (decide (n' = n)) as [->|H']; [by rewrite lookup_insert, E|].
        rewrite lookup_insert_ne by done. by apply Hoth.
    - destruct (sent !! n) as [old|] eqn:Es.
      + split; [|done]. intros n'. destruct (decide (n' = n)) as [->|H']; [by rewrite lookup_delete, E|].
        rewrite lookup_delete_ne by done. by apply Hoth.
      + split; [|done]. intros n'. destruct (decide (n' = n)) as [->|H']; [by rewrite Es, E|by apply Hoth].
  Qed.

  Lemma vx_step_inv s o :
    vt_ok (v_in s) (v_sent s) →
    let '(s', ms) := vx_step s o in
    v_in s' = vx_in_apply (v_in s) o ∧ vt_ok (v_in s') (v_sent s') ∧ foldl vt_apply (v_sent s) ms = v_sent s'.
  Proof.
    intros Hok. unfold vx_step.
    pose proof (vx_send_spec (vx_in_apply (v_in s) o) (v_sent s) (vx_node o)) as H.
    destruct (vx_send (vx_in_apply (v_in s) o) (v_sent s) (vx_node o)) as [sent ms]. simpl.
    destruct H as [H1 H2]; [|done]. intros n' Hn. rewrite Hok. symmetry. by apply vtep_of_frame.
  Qed.

  Lemma vx_run_inv ops : ∀ s, vt_ok (v_in s) (v_sent s) →
    let '(s', ms) := n_run vx_nodeN s ops in
    v_in s' = foldl vx_in_apply (v_in s) ops ∧ vt_ok (v_in s') (v_sent s') ∧ foldl vt_apply (v_sent s) ms = v_sent s'.
  Proof.
    induction ops as [|o r IH]; intros s Hok; simpl; [done|].
    pose proof (vx_step_inv s o Hok) as H1. change (n_step vx_nodeN s o) with (vx_step s o).
    destruct (vx_step s o) as [s1 m1]. destruct H1 as (Hi1 & Hok1 & Hm1).
    specialize (IH s1 Hok1). destruct (n_run vx_nodeN s1 r) as [s2 m2]. destruct IH as (Hi2 & Hok2 & Hm2).
    split; [by rewrite Hi2, Hi1|]. split; [done|]. by rewrite foldl_app, Hm1.
  Qed.

  (* after ANY history the VTEP table the resolver has emitted is exactly vtep_of the current inputs *)
  Theorem vx_table_exact ops : vt_ok (net VXIN ops) (net VT (n_outs vx_nodeN ops)).
  Proof.
    pose proof (vx_run_inv ops vxst0) as H. unfold n_outs, net. simpl in *.
    destruct (n_run vx_nodeN vxst0 ops) as [s' ms]. simpl.
    destruct H as (Hi & Hok & Hm); [intros n; unfold vtep_of; simpl; by rewrite !lookup_empty|].
    rewrite Hm, <-Hi. exact Hok.
  Qed.

  Theorem vx_history_free ops1 ops2 :
    net VXIN ops1 = net VXIN ops2 → net VT (n_outs vx_nodeN ops1) = net VT (n_outs vx_nodeN ops2).
  Proof.
    intros E. pose proof (vx_table_exact ops1) as H1. pose proof (vx_table_exact ops2) as H2. rewrite E in H1.
    assert (G : ∀ t1 t2 : gmap N vtep, vt_ok (net VXIN ops2) t1 → vt_ok (net VXIN ops2) t2 → t1 = t2).
    { intros t1 t2 A B. apply map_eq. intros n. by rewrite A, B. }
    exact (G _ _ H1 H2).
  Qed.
End Vx.
