(* C01 — the label inheritance index (labelindex.InheritIndex, model Verif.C07.Model) is history-free:
   node_function_of_state instance obtained from c07_index_exact.  abs = the two match maps, f = [want (sp_run ops)]
   where [sp_run ops] is the plain data the history describes (current labels, parents, selectors). *)
From Coq Require Import List NArith Bool Permutation.
From Verif.Common Require Import Labels.
From Verif.C07 Require Import Model Spec Proofs.
Import ListNotations.

Lemma label_index_history_free :
  forall (ord1 ord2 : nat -> list N -> list N) (sel_eqb : ast -> ast -> bool),
  (forall t l, Permutation (ord1 t l) l) -> (forall t l, Permutation (ord2 t l) l) ->
  (forall a b, sel_eqb a b = true -> forall L, eval a L = eval b L) ->
  forall ops1 ops2, sp_run ops1 = sp_run ops2 ->
  forall s i,
    rel_mem s i (by_sel (run ord1 sel_eqb ops1)) = rel_mem s i (by_sel (run ord2 sel_eqb ops2)) /\
    rel_mem i s (by_item (run ord1 sel_eqb ops1)) = rel_mem i s (by_item (run ord2 sel_eqb ops2)).
Proof.
  intros ord1 ord2 sel_eqb P1 P2 HS ops1 ops2 E s i.
  destruct (index_exact_perm ord1 sel_eqb P1 HS ops1 s i) as [A1 B1].
  destruct (index_exact_perm ord2 sel_eqb P2 HS ops2 s i) as [A2 B2].
  cbv zeta in *. rewrite A1, A2, B1, B2, E. auto.
Qed.
