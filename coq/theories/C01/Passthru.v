(* C01 — a fully proved instance of the whole-graph theorem: the IP pool passthru.
   felix/calc/dataplane_passthru.go forwards every IPPool upsert/delete straight to the sequencer
   (OnIPPoolUpdate / OnIPPoolRemove); CalcGraph.Flush / EventSequencer.Flush is the flush.  With this node as
   the part in front of the sequencer the hypothesis of Instances.graph_history_independent is PROVED, so the
   theorem is not vacuous: for the pool slice of the dataplane, history-independence holds for every history. *)
From stdpp Require Import gmap.
From Verif.Common Require Import Sync.
From Verif.C02 Require Import Model Spec Proofs.
From Verif.C01 Require Import Model Spec Compose Instances.
Local Open Scope N_scope.

Definition pool_cell (k : N) : cell := (KPool, k).
Global Instance pool_cell_inj : Inj (=) (=) pool_cell.
Proof. intros a b [=]. done. Qed.

Definition pool_tr (m : dmsg N N) : list sev :=
  match m with
  | DOp (Upsert k v) => [SCb (CUpdate (pool_cell k) (V [] v))]
  | DOp (Delete k) => [SCb (CRemove (pool_cell k))]
  | DInSync => []
  | DFlush => [SFlush []]
  end.
Definition pool_passthru : node (dmsg N N) sev := pipe_map pool_tr.

Definition pool_world (s : gmap N N * bool) : world :=
  {| w_sets := ∅; w_kv := kmap pool_cell (V [] <$> s.1) |}.

Definition ends_flushed (h : list (dmsg N N)) : Prop := ∃ h', h = h' ++ [DFlush].

Definition flat (w : world) : Prop := ∀ c v, w_kv w !! c = Some v → v_refs v = [].
Lemma flat_closed w : flat w → closed w.
Proof. intros Hf. unfold closed. apply map_Forall_lookup_2. intros c v Hv. rewrite (Hf c v Hv). constructor. Qed.

Lemma pool_step_net s m :
  foldl cb_apply (pool_world s) (pool_tr m) = pool_world (ds_apply s m).
Proof.
  destruct s as [mp b]. destruct m as [[k v|k]| |]; simpl; unfold pool_world; simpl; try done.
  - f_equal. rewrite fmap_insert, kmap_insert; [done|apply _].
  - f_equal. rewrite fmap_delete, kmap_delete; [done|apply _].
Qed.

Lemma pool_net_gen h s :
  foldl cb_apply (pool_world s) (h ≫= pool_tr) = pool_world (foldl ds_apply s h).
Proof.
  revert s. induction h as [|m r IH]; intros s; simpl; [done|].
  rewrite foldl_app, pool_step_net. apply IH.
Qed.

Lemma pool_world_flat s : flat (pool_world s).
Proof.
  intros c v. unfold pool_world. simpl. intros Hl.
  apply lookup_kmap_Some in Hl as (k & -> & Hl); [|apply _].
  apply lookup_fmap_Some in Hl as (x & <- & _). done.
Qed.

Lemma pool_contract_gen h s :
  contract (pool_world s) (h ≫= pool_tr).
Proof.
  revert s. induction h as [|m r IH]; intros s; simpl; [done|].
  pose proof (pool_step_net s m) as E.
  destruct m as [[k v|k]| |]; simpl in *.
  - split.
    + split; [done|constructor].
    + rewrite E. apply IH.
  - split.
    + done.
    + rewrite E. apply IH.
  - apply IH.
  - split.
    + apply flat_closed, pool_world_flat.
    + apply IH.
Qed.

Lemma pool_world0 : pool_world (∅, false) = world0.
Proof. unfold pool_world, world0. simpl. by rewrite fmap_empty, kmap_empty. Qed.

Lemma pool_passthru_hf :
  hf (X := DS N N) (Y := CB) pool_passthru ends_flushed (seq_admits true) pool_world.
Proof.
  unfold pool_passthru. apply (hf_map (X := DS N N) (Y := CB) pool_tr ends_flushed (seq_admits true) pool_world).
  intros h [h' ->]. split.
  - exists (h' ≫= pool_tr), []. split.
    + by rewrite bind_app.
    + apply contract_gen_true. rewrite <-pool_world0. apply pool_contract_gen.
  - simpl. unfold net. simpl. rewrite <-pool_world0 at 1. apply pool_net_gen.
Qed.

(* the instantiated theorem, no hypothesis left about the graph *)
Lemma pool_graph_history_independent h D e :
  ends_flushed h → settled h → (net (DS N N) h).1 = D → NoDup e.*1 → list_to_map e = D →
  dp_of (n_outs (graph pool_passthru true) h) = dp_of (n_outs (graph pool_passthru true) (fresh e)).
Proof.
  intros Hf Hs HD ND He.
  apply (graph_history_independent pool_passthru true ends_flushed pool_world pool_passthru_hf h D e); try done.
  exists (map (λ kv : N * N, DOp (Upsert kv.1 kv.2)) e ++ [DInSync]).
  unfold fresh. by rewrite <-app_assoc.
Qed.

(* and it computes: a history with an overwrite, a delete, a spurious delete and a revert vs the fresh run *)
Example pool_example :
  let h := [DOp (Upsert 1 10); DOp (Upsert 2 20); DFlush; DInSync; DOp (Upsert 1 11); DOp (Delete 2);
            DOp (Delete 7); DFlush; DOp (Upsert 1 10); DOp (Upsert 3 30); DFlush] in
  same_dp (n_outs (graph pool_passthru true) h) (n_outs (graph pool_passthru true) (fresh [(3, 30); (1, 10)])) = true
  ∧ bool_decide (n_outs (graph pool_passthru true) h = n_outs (graph pool_passthru true) (fresh [(3, 30); (1, 10)])) = false.
Proof. vm_compute. split; reflexivity. Qed.
