(* C01 — specification level.

   The property: after ANY update history ending in datastore state D (with in-sync signalled and
   a final flush) the dataplane state described by everything Felix emitted equals the dataplane
   state described by what a freshly started Felix emits when fed only D.

   "Dataplane state described by a message stream" is [dp_of]: every emitted message applied, in
   order, to the empty dataplane.  The message type, the dataplane record ([world]: IP sets with
   their members + every other object with its payload and the ordered list of objects it
   references) and [apply_msg] are those of Verif.C02 (the event sequencer property), so that
   C02's theorems about the sequencer speak about literally the same [dp_of].

   How the driver abstracts a felix/proto message (harness/C01/cmd/main.go, [abstract]):
     IPSetUpdate/IPSetDeltaUpdate/IPSetRemove   -> MIPSetUpdate / MIPSetDelta / MIPSetRemove
     Active{Policy,Profile}Update               -> MUpdate (KPol|KProf, id) (V [IP sets the rules use] digest(rules))
     {Workload,Host}EndpointUpdate              -> MUpdate (KEp, id) (V [policies of every tier list IN ORDER ++ profile ids IN ORDER]
                                                                        digest(whole endpoint incl. tier names))
     RouteUpdate, VXLANTunnelEndpointUpdate, HostMetadataUpdate, IPAMPoolUpdate, ServiceAccount/Namespace/
     Service updates, Encapsulation, GlobalBGPConfigUpdate, Wireguard endpoint updates
                                                -> MUpdate (kind, id) (V [] digest(message))
     the matching ...Remove                     -> MRemove (kind, id)
   Identifiers, IP set members and digests are numbered per case by one injective table shared by
   the three streams of the case (digest = the deterministic protobuf encoding of the payload). *)
From stdpp Require Import gmap.
From Verif.C02 Require Import Model Spec.
Local Open Scope N_scope.

Definition dp_of (ms : list msg) : world := apply_msgs world0 ms.

(* the oracle: history and fresh Felix describe the same dataplane *)
Definition same_dp (hist fresh : list msg) : bool := bool_decide (dp_of hist = dp_of fresh).

(* what the Go driver computed for the same streams (its own fold), as lists *)
Definition world_of (sets : list (N * list N)) (kvs : list (cell * value)) : world :=
  {| w_sets := list_to_map (map (λ p, (p.1, list_to_set p.2)) sets); w_kv := list_to_map kvs |}.

(* Two facts about the flushed dataplane of ANY run (they are part of what "the state a fresh Felix emits" means and
   catch an object leaked by history and fresh run alike):
   - an IP set exists exactly when some active policy / profile uses it (RuleScanner: active IP sets = those
     referenced by the rules of active policies and profiles);
   - a profile is active exactly when some local endpoint lists it (ActiveRulesCalculator). *)
Definition refs_of_kind (K R : kind) (w : world) : gset N :=
  list_to_set (map_to_list (w_kv w) ≫= λ cv,
    if decide (cv.1.1 = K) then omap (λ r : cell, if decide (r.1 = R) then Some r.2 else None) (v_refs cv.2) else []).
Definition cells_of_kind (K : kind) (w : world) : gset N :=
  list_to_set (omap (λ cv : cell * value, if decide (cv.1.1 = K) then Some cv.1.2 else None) (map_to_list (w_kv w))).
Definition exact_refs (w : world) : bool :=
  bool_decide (dom (w_sets w) = refs_of_kind KPol KIPSet w ∪ refs_of_kind KProf KIPSet w)
  && bool_decide (cells_of_kind KProf w = refs_of_kind KEp KProf w).

Record case := mkCase {
  c_hist : list msg;      (* everything the history run emitted *)
  c_fresh : list msg;     (* fresh Felix, final state fed in canonical key order *)
  c_fresh2 : list msg;    (* fresh Felix, final state fed in shuffled key order *)
  c_hsets : list (N * list N); c_hkv : list (cell * value);    (* driver's dp_of c_hist *)
  c_fsets : list (N * list N); c_fkv : list (cell * value);    (* driver's dp_of c_fresh *)
  c_panic : bool          (* some run of the real graph panicked *)
}.

Definition ok_case (c : case) : bool :=
  negb (c_panic c)
  && same_dp (c_hist c) (c_fresh c)                 (* C01: history-independence *)
  && same_dp (c_fresh2 c) (c_fresh c)               (* ... and independence of the order of the initial snapshot *)
  && ok_msgs world0 (c_hist c)                      (* C02's stream property on the WHOLE graph: every message *)
  && ok_msgs world0 (c_fresh c)                     (*   well-formed, dataplane reference-closed after each *)
  && exact_refs (dp_of (c_hist c))                  (* nothing leaked: IP sets / profiles exist exactly when used *)
  && exact_refs (dp_of (c_fresh c)).

(* (the Go driver's fold of the streams = the Coq fold, the specification accepts the implementation) *)
Definition check_case (c : case) : bool * bool :=
  (bool_decide (dp_of (c_hist c) = world_of (c_hsets c) (c_hkv c))
   && bool_decide (dp_of (c_fresh c) = world_of (c_fsets c) (c_fkv c)),
   ok_case c).
