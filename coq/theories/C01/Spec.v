(* C01 — specification level.

   The property: after ANY update history ending in datastore state D (with in-sync signalled and
   a final flush) the dataplane state described by everything Felix emitted equals the dataplane
   state described by what a freshly started Felix emits when fed only D.

   "Dataplane state described by a message stream" is [dp_of]: every emitted message applied, in
   order, to the empty dataplane.  The message type, the dataplane record ([world]: IP sets with
   their members + every other object with its payload and the ordered list of objects it
   references) and [apply_msg] are those of Verif.C02 (the event sequencer property), so that
   C02's theorems about the sequencer speak about literally the same [dp_of].

   How the driver abstracts a felix/proto message (harness/C01/cmd/main.go, [abstract]):
     IPSetUpdate/IPSetDeltaUpdate/IPSetRemove   -> MIPSetUpdate / MIPSetDelta / MIPSetRemove
     Active{Policy,Profile}Update               -> MUpdate (KPol|KProf, id) (V [IP sets the rules use] digest(rules))
     {Workload,Host}EndpointUpdate              -> MUpdate (KEp, id) (V [policies of every tier list IN ORDER ++ profile ids IN ORDER]
                                                                        digest(whole endpoint incl. tier names))
     RouteUpdate, VXLANTunnelEndpointUpdate, HostMetadataUpdate, IPAMPoolUpdate, ServiceAccount/Namespace/
     Service updates, Encapsulation, GlobalBGPConfigUpdate, Wireguard endpoint updates
                                                -> MUpdate (kind, id) (V [] digest(message))
     the matching ...Remove                     -> MRemove (kind, id)
   Identifiers, IP set members and digests are numbered per case by one injective table shared by
   the three streams of the case (digest = the deterministic protobuf encoding of the payload). *)
From stdpp Require Import gmap.
From Verif.C02 Require Import Model Spec.
From Verif.C01 Require Import Model Compose L3Reflag Vxlan.
Local Open Scope N_scope.

Definition dp_of (ms : list msg) : world := apply_msgs world0 ms.

(* the oracle: history and fresh Felix describe the same dataplane *)
Definition same_dp (hist fresh : list msg) : bool := bool_decide (dp_of hist = dp_of fresh).

(* what the Go driver computed for the same streams (its own fold), as lists *)
Definition world_of (sets : list (N * list N)) (kvs : list (cell * value)) : world :=
  {| w_sets := list_to_map (map (λ p, (p.1, list_to_set p.2)) sets); w_kv := list_to_map kvs |}.

(* Two facts about the flushed dataplane of ANY run (they are part of what "the state a fresh Felix emits" means and
   catch an object leaked by history and fresh run alike):
   - an IP set exists exactly when some active policy / profile uses it (RuleScanner: active IP sets = those
     referenced by the rules of active policies and profiles);
   - a profile is active exactly when some local endpoint lists it (ActiveRulesCalculator). *)
Definition refs_of_kind (K R : kind) (w : world) : gset N :=
  list_to_set (map_to_list (w_kv w) ≫= λ cv,
    if decide (cv.1.1 = K) then omap (λ r : cell, if decide (r.1 = R) then Some r.2 else None) (v_refs cv.2) else []).
Definition cells_of_kind (K : kind) (w : world) : gset N :=
  list_to_set (omap (λ cv : cell * value, if decide (cv.1.1 = K) then Some cv.1.2 else None) (map_to_list (w_kv w))).
Definition exact_refs (w : world) : bool :=
  bool_decide (dom (w_sets w) = refs_of_kind KPol KIPSet w ∪ refs_of_kind KProf KIPSet w)
  && bool_decide (cells_of_kind KProf w = refs_of_kind KEp KProf w).

Record gcase := mkGCase {
  c_hist : list msg;      (* everything the history run emitted *)
  c_fresh : list msg;     (* fresh Felix, final state fed in canonical key order *)
  c_fresh2 : list msg;    (* fresh Felix, final state fed in shuffled key order *)
  c_hsets : list (N * list N); c_hkv : list (cell * value);    (* driver's dp_of c_hist *)
  c_fsets : list (N * list N); c_fkv : list (cell * value);    (* driver's dp_of c_fresh *)
  c_panic : bool          (* some run of the real graph panicked *)
}.

Definition ok_case (c : gcase) : bool :=
  negb (c_panic c)
  && same_dp (c_hist c) (c_fresh c)                 (* C01: history-independence *)
  && same_dp (c_fresh2 c) (c_fresh c)               (* ... and independence of the order of the initial snapshot *)
  && ok_msgs world0 (c_hist c)                      (* C02's stream property on the WHOLE graph: every message *)
  && ok_msgs world0 (c_fresh c)                     (*   well-formed, dataplane reference-closed after each *)
  && exact_refs (dp_of (c_hist c))                  (* nothing leaked: IP sets / profiles exist exactly when used *)
  && exact_refs (dp_of (c_fresh c)).

(* (the Go driver's fold of the streams = the Coq fold, the specification accepts the implementation) *)
Definition check_graph (c : gcase) : bool * bool :=
  (bool_decide (dp_of (c_hist c) = world_of (c_hsets c) (c_hkv c))
   && bool_decide (dp_of (c_fresh c) = world_of (c_fsets c) (c_fkv c)),
   ok_case c).

(* ------------------------------------------------------------------ the L3 route resolver slice (L3Reflag.v)
   The driver feeds the REAL L3RouteResolver block values and local workload endpoints; [g_translate] turns each Go
   update into the batch of trie entry changes OnBlockUpdate / OnWorkloadUpdate make (routesFromBlock: one block route
   for the affine node, one per-address route for every allocation recorded for another node; removals first). *)
Inductive gop :=
| GBlock (b : N) (aff : option N) (allocs : list (N * N))     (* block b := affinity, [(address, node it is allocated to)] *)
| GBlockDel (b : N)
| GWep (a : N) | GWepDel (a : N).                              (* local workload endpoint holding address a *)

Definition blk8 (a : N) : N := a / 8.                           (* blocks are /29s *)
Definition an_mem (x : N * N) (l : list (N * N)) : bool := existsb (λ y, (x.1 =? y.1) && (x.2 =? y.2)) l.
Definition oN_eqb (x y : option N) : bool :=
  match x, y with Some a, Some b => a =? b | None, None => true | _, _ => false end.
Definition block_routes (aff : option N) (allocs : list (N * N)) : option N * list (N * N) :=
  (aff, List.filter (λ an, match aff with Some h => negb (an.2 =? h) | None => true end) allocs).

(* translation state: the routes each block contributed last time, and the addresses held by a workload endpoint
   (OnBlockUpdate only touches routes that changed; OnWorkloadUpdate ignores an update that leaves the CIDRs as they are) *)
Definition gstate := (gmap N (option N * list (N * N)) * gset N)%type.
Definition g_step (st : gstate) (g : gop) : gstate * list l3op :=
  let '(prev, weps) := st in
  match g with
  | GBlock b aff allocs =>
      let '(nb, na) := block_routes aff allocs in
      let '(ob, oa) := default (None, []) (prev !! b) in
      let dels := map (λ an, AddrBlkDel an.1) (List.filter (λ an, negb (an_mem an na)) oa)
                  ++ (if oN_eqb ob nb then [] else match ob with Some _ => [BlockDel b] | None => [] end) in
      let adds := map (λ an, AddrBlkSet an.1 an.2) (List.filter (λ an, negb (an_mem an oa)) na)
                  ++ (if oN_eqb ob nb then [] else match nb with Some n => [BlockSet b n] | None => [] end) in
      ((<[b := (nb, na)]> prev, weps), dels ++ adds)
  | GBlockDel b =>
      let '(ob, oa) := default (None, []) (prev !! b) in
      ((delete b prev, weps), map (λ an, AddrBlkDel an.1) oa ++ match ob with Some _ => [BlockDel b] | None => [] end)
  | GWep a => ((prev, {[a]} ∪ weps), if bool_decide (a ∈ weps) then [] else [WepSet a 0])
  | GWepDel a => ((prev, weps ∖ {[a]}), if bool_decide (a ∈ weps) then [WepDel a] else [])
  end.
Fixpoint g_translate (st : gstate) (gs : list gop) : list (list l3op) :=
  match gs with
  | [] => []
  | g :: r => let '(p, batch) := g_step st g in batch :: g_translate p r
  end.

Definition R (dst : N) (loc rem locwl borrowed : bool) : route :=
  {| r_dst := dst; r_local := loc; r_remote := rem; r_localwl := locwl; r_borrowed := borrowed |}.

Record l3case := mkL3Case {
  l_reflag : bool;                          (* does the tree re-flag contained routes on a block change (probed) *)
  l_ops : list gop;
  l_table : list ((N + N) * route);         (* the route table the real resolver's callbacks add up to *)
  l_plain : bool                            (* every other RouteUpdate field had its default value *)
}.

Definition check_l3 (c : l3case) : bool * bool :=
  let batches := g_translate (∅, ∅) (l_ops c) in
  let obs : gmap (N + N) route := list_to_map (l_table c) in
  let i := net L3IN batches in
  let cands := (l_table c).*1 ++ (inl <$> elements (dom (i_blk i))) ++ (inr <$> elements (dom (i_ablk i) ∪ dom (i_wep i))) in
  (bool_decide (net RT (n_outs (l3_node blk8 (l_reflag c)) batches) = obs),
   l_plain c && forallb (λ c0, bool_decide (obs !! c0 = route_of blk8 i c0)) cands).

(* ------------------------------------------------------------------ the VXLAN resolver slice (Vxlan.v), IPv4 + IPv6
   The driver feeds the REAL VXLANResolver Node resources and VXLAN host config of 3 nodes; the operations are already
   the model's (one Go handler call each). *)
Definition T (mac4 tun4 par4 mac6 tun6 par6 : option N) : vtep :=
  {| t_mac4 := mac4; t_tun4 := tun4; t_par4 := par4; t_mac6 := mac6; t_tun6 := tun6; t_par6 := par6 |}.

Record vxcase := mkVXCase {
  x_ops : list vxop;
  x_table : list (N * vtep);               (* the VTEP table the real resolver's callbacks add up to *)
  x_gen : list (N * (N * N));              (* node -> its deterministic IPv4 / IPv6 tunnel MAC (vtepMACForHost without config) *)
  x_nopanic : bool
}.
Definition gen_of (g : list (N * (N * N))) (n : N) (v6 : bool) : N :=
  match (list_to_map g : gmap N (N * N)) !! n with Some p => if v6 then p.2 else p.1 | None => 0 end.

Definition check_vx (c : vxcase) : bool * bool :=
  let gen := gen_of (x_gen c) in
  let obs : gmap N vtep := list_to_map (x_table c) in
  let i := net VXIN (x_ops c) in
  let cands := (x_table c).*1 ++ (x_gen c).*1 ++ map vx_node (x_ops c) in
  (bool_decide (net VT (n_outs (vx_nodeN gen) (x_ops c)) = obs),
   x_nopanic c && forallb (λ n, bool_decide (obs !! n = vtep_of gen i n)) cands).

Inductive case := mkCase (c : gcase) | mkL3 (c : l3case) | mkVX (c : vxcase).
Definition check_case (c : case) : bool * bool :=
  match c with mkCase g => check_graph g | mkL3 l => check_l3 l | mkVX x => check_vx x end.
