(* C01 — the IP set member index (labelindex.SelectorAndNamedPortIndex, model Verif.C04.Model) is history-free:
   node_function_of_state instance obtained from C04's view theorem.  abs = the accumulated emitted member
   family [F] (what the consumer holds), f = [spec_members (view_of ops)] (a function of the LAST value written for
   every endpoint / network set, profile and IP set: the node's current inputs). *)
From Coq Require Import List NArith Arith Bool.
From Verif.Common Require Import Labels Prefix.
From Verif.C04 Require Import Model Spec Main View ViewThms.
Import ListNotations.

Lemma ipset_index_history_free :
  forall sel_of shuffle1 prune_ep1 prune_set1 shuffle2 prune_ep2 prune_set2 ops1 ops2 st1 evss1 st2 evss2,
  oracles_ok shuffle1 prune_ep1 prune_set1 -> oracles_ok shuffle2 prune_ep2 prune_set2 ->
  Forall op_wf ops1 -> Forall op_wf ops2 ->
  Forall (op_interned sel_of) ops1 -> Forall (op_interned sel_of) ops2 ->
  run false shuffle1 prune_ep1 prune_set1 empty_state ops1 = (st1, evss1) ->
  run false shuffle2 prune_ep2 prune_set2 empty_state ops2 = (st2, evss2) ->
  view_of ops1 = view_of ops2 ->
  exists F1 F2, replay_f (fun _ => []) ops1 evss1 = Some F1 /\ replay_f (fun _ => []) ops2 evss2 = Some F2 /\
    forall sid vs, alookup sid (v_sets (view_of ops1)) = Some vs ->
      forall m, In m (F1 sid) <-> In m (F2 sid).
Proof.
  intros sel_of sh1 pe1 ps1 sh2 pe2 ps2 ops1 ops2 st1 evss1 st2 evss2 O1 O2 W1 W2 I1 I2 R1 R2 EV.
  destruct (c04_members_exact_view_proof sel_of sh1 pe1 ps1 ops1 st1 evss1 O1 W1 I1 R1) as (F1 & HF1 & H1).
  destruct (c04_members_exact_view_proof sel_of sh2 pe2 ps2 ops2 st2 evss2 O2 W2 I2 R2) as (F2 & HF2 & H2).
  exists F1, F2. split; [exact HF1|]. split; [exact HF2|].
  intros sid vs Hs m.
  destruct (H1 sid vs Hs) as [_ E1]. rewrite EV in Hs. destruct (H2 sid vs Hs) as [_ E2].
  rewrite E1, E2, EV. tauto.
Qed.
