(* C01 — the IP set member index (labelindex.SelectorAndNamedPortIndex without the overlap suppressor; model
   Verif.C04.Model) as a NODE of the abstract graph and its history-freeness in the vocabulary of Compose.v:
     input  stream: C04's operations (endpoints / network sets, profiles, active IP sets); net state = Spec.view_of =
                    the last value written per key;
     output stream: per operation, the member added / removed events it fires (tagged with the operation, because
                    deleting an IP set drops its members without events); net state = the member family the consumer
                    has accumulated (None = a member added while present / removed while absent);
     hf:            after ANY history inside the model's domain (well-formed operations, selectors interned), under ANY
                    iteration order and sound pruning, every IP set holds exactly [spec_members] of the current view,
                    and nothing is held for IP sets that do not exist - from c04's history_view / members_exact_view /
                    no_dup_events. *)
From Coq Require Import List NArith Arith Bool.
From Verif.Common Require Import Labels Prefix.
From Verif.C04 Require Import Model Spec State Main View ViewThms.
From Verif.C01 Require Model Compose.
Import ListNotations.

Module M := Verif.C01.Model.
Module Cp := Verif.C01.Compose.

Lemma foldl_fold_left {A B} (f : A -> B -> A) l : forall a, stdpp.list.foldl f a l = fold_left f l a.
Proof. induction l as [|x r IH]; intros a; simpl; [reflexivity|apply IH]. Qed.

Section N4.
  Variable sel_of : N -> ast.
  Variable shuffle : state -> forall A : Type, list A -> list A.
  Variable prune_ep : state -> N -> N -> bool.
  Variable prune_set : state -> epdata -> N -> bool.
  Hypothesis oracles : oracles_ok shuffle prune_ep prune_set.

  Definition node4 : M.node op (op * list event) :=
    M.Node state empty_state
           (fun st o => let '(st', evs) := step false shuffle prune_ep prune_set (tick st) o in (st', [(o, evs)])).

  Definition X4 : Cp.stype := Cp.SType op view empty_view view_step eq.
  Definition y4_apply (a : option fam_copy) (m : op * list event) : option fam_copy :=
    match a with
    | Some F => match apply_f F (snd m) with Some F1 => Some (after_op_f (fst m) F1) | None => None end
    | None => None
    end.
  Definition same_members (a b : option fam_copy) : Prop :=
    exists F1 F2, a = Some F1 /\ b = Some F2 /\ forall sid m, In m (F1 sid) <-> In m (F2 sid).
  Definition Y4 : Cp.stype := Cp.SType (op * list event) (option fam_copy) (Some (fun _ => [])) y4_apply same_members.

  Definition admitted4 (ops : list op) : Prop := Forall op_wf ops /\ Forall (op_interned sel_of) ops.

  (* what the index should hold, as a function of the current view *)
  Definition wanted (v : view) : option fam_copy :=
    Some (fun sid => match alookup sid (v_sets v) with Some vs => spec_members v vs | None => [] end).

  Lemma node4_run ops : forall st,
    M.n_run node4 st ops =
    (fst (run false shuffle prune_ep prune_set st ops), combine ops (snd (run false shuffle prune_ep prune_set st ops))).
  Proof.
    induction ops as [|o r IH]; intros st; simpl; [reflexivity|].
    destruct (step false shuffle prune_ep prune_set (tick st) o) as [st1 evs] eqn:E.
    rewrite IH. destruct (run false shuffle prune_ep prune_set st1 r) as [st2 rest]. reflexivity.
  Qed.

  Lemma fold_y4 ops : forall evss a,
    length evss = length ops ->
    fold_left y4_apply (combine ops evss) a = match a with Some F => replay_f F ops evss | None => None end.
  Proof.
    induction ops as [|o r IH]; intros evss a HL; destruct evss as [|evs rest]; simpl in *; try discriminate.
    - destruct a; reflexivity.
    - injection HL as HL. rewrite (IH rest _ HL). destruct a as [F|]; simpl; [|reflexivity].
      destruct (apply_f F evs); reflexivity.
  Qed.

  Lemma run_length ops : forall st, length (snd (run false shuffle prune_ep prune_set st ops)) = length ops.
  Proof.
    induction ops as [|o r IH]; intros st; simpl; [reflexivity|].
    destruct (step false shuffle prune_ep prune_set (tick st) o) as [st1 evs].
    specialize (IH st1). destruct (run false shuffle prune_ep prune_set st1 r). simpl in *. congruence.
  Qed.

  (* THE node lemma *)
  Theorem node4_hf : Cp.hf (X := X4) (Y := Y4) node4 admitted4 (fun _ => True) wanted.
  Proof.
    intros ops [W I]. split; [exact Logic.I|].
    destruct (run false shuffle prune_ep prune_set empty_state ops) as [st evss] eqn:ER.
    destruct (history_view sel_of false shuffle prune_ep prune_set ops st evss oracles W I ER) as (F & HF & _ & HR & _).
    destruct (c04_members_exact_view_proof sel_of shuffle prune_ep prune_set ops st evss oracles W I ER) as (F' & HF' & HM).
    destruct (c04_no_dup_events_proof false shuffle prune_ep prune_set ops st evss oracles W ER) as (F'' & HF'' & HE).
    rewrite HF in HF', HF''. injection HF' as <-. injection HF'' as <-.
    unfold Cp.net, M.n_outs. rewrite !foldl_fold_left.
    change (M.n_init node4) with empty_state.
    change (Cp.s_apply Y4) with y4_apply. change (Cp.s_net0 Y4) with (Some (fun _ : N => @nil member)).
    change (Cp.s_apply X4) with view_step. change (Cp.s_net0 X4) with empty_view.
    rewrite node4_run, ER. simpl snd.
    pose proof (run_length ops empty_state) as HL. rewrite ER in HL. simpl in HL.
    rewrite (fold_y4 ops evss _ HL), HF.
    exists F, (fun sid => match alookup sid (v_sets (view_of ops)) with Some vs => spec_members (view_of ops) vs | None => [] end).
    split; [reflexivity|]. split; [reflexivity|].
    intros sid m. destruct (alookup sid (v_sets (view_of ops))) as [vs|] eqn:Ev.
    - destruct (HM sid vs Ev) as [_ E]. apply E.
    - destruct HR as (_ & _ & RS). specialize (RS sid). rewrite Ev in RS.
      destruct (alookup sid (st_sets st)) eqn:Es; [destruct RS|].
      destruct (HE sid) as [_ H0]. rewrite (H0 Es). reflexivity.
  Qed.
End N4.
