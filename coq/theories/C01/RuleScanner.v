(* C01 — the RuleScanner's IP set reference counting (felix/calc/rule_scanner.go, updateRules) as a node, proved
   history-free: after ANY history of OnPolicyActive / OnProfileActive / On...Inactive calls the set of IP sets the
   scanner has declared active (OnIPSetActive minus OnIPSetInactive) is exactly the set of IP sets used by the rules
   of some currently active policy or profile.

   Modelled: rulesIDToUIDs (rules key -> uids of the IP sets its rules use) and uidsToRulesIDs (uid -> rules keys
   using it; [ContainsKey uid] = that set is non-empty); one input = updateRules(key, uids the new rules use)
   (an ...Inactive call is updateRules with no rules, i.e. the empty set).  The two loops over addedUids / removedUids
   treat every uid independently, so their effect is given per uid; the order in which Go visits the sets only
   permutes the emitted events, and added and removed uids are disjoint, so the accumulated active set does not
   depend on it.  Not modelled: how uids are derived from the rules (selector canonicalisation: C06), ParsedRules.
   Tied to the code by reading (the whole-graph correspondence run checks the same fact on the real graph:
   Spec.exact_refs, "an IP set exists iff an active policy/profile uses it"; mutation M3 is caught by it). *)
From stdpp Require Import gmap.
From Verif.C01 Require Import Model Compose.
Local Open Scope N_scope.

Record rsst := { r2u : gmap N (gset N); u2r : N → gset N }.
Definition rs0 : rsst := {| r2u := ∅; u2r := λ _, ∅ |}.
Definition getu (m : gmap N (gset N)) (k : N) : gset N := default ∅ (m !! k).

Inductive rsev := IPSetActive (uid : N) | IPSetInactive (uid : N).

Definition rs_step (s : rsst) (i : N * gset N) : rsst * list rsev :=
  let '(key, cur) := i in
  let old := getu (r2u s) key in
  let added := cur ∖ old in
  let removed := old ∖ cur in
  ({| r2u := <[key := cur]> (r2u s);
      u2r := λ uid, if decide (uid ∈ added) then {[key]} ∪ u2r s uid
                    else if decide (uid ∈ removed) then u2r s uid ∖ {[key]} else u2r s uid |},
   (IPSetActive <$> filter (λ a, u2r s a = ∅) (elements added))
   ++ (IPSetInactive <$> filter (λ r, u2r s r ∖ {[key]} = ∅) (elements removed))).

Definition rs_node : node (N * gset N) rsev := Node rsst rs0 rs_step.

Definition RSIN : stype := SType (N * gset N) (gmap N (gset N)) ∅ (λ m i, <[i.1 := i.2]> m) eq.
Definition rs_apply (A : gset N) (e : rsev) : gset N :=
  match e with IPSetActive u => {[u]} ∪ A | IPSetInactive u => A ∖ {[u]} end.
Definition RSOUT : stype := SType rsev (gset N) ∅ rs_apply eq.

(* the IP sets in use: those some active rules key refers to *)
Definition used (m : gmap N (gset N)) : gset N := ⋃ (map_to_list m).*2.
Lemma elem_of_used m u : u ∈ used m ↔ ∃ key, u ∈ getu m key.
Proof.
  unfold used. rewrite elem_of_union_list. split.
  - intros (S & HS & Hu). apply elem_of_list_fmap in HS as ([k S'] & -> & Hin). apply elem_of_map_to_list in Hin.
    exists k. unfold getu. by rewrite Hin.
  - intros (k & Hu). unfold getu in Hu. destruct (m !! k) as [S|] eqn:E; [|set_solver].
    exists S. split; [|done]. apply elem_of_list_fmap. exists (k, S). split; [done|]. by apply elem_of_map_to_list.
Qed.

Definition rs_inv (s : rsst) (m : gmap N (gset N)) (A : gset N) : Prop :=
  r2u s = m ∧ (∀ uid key, key ∈ u2r s uid ↔ uid ∈ getu m key) ∧ (∀ uid, uid ∈ A ↔ u2r s uid ≠ ∅).

Lemma fold_active A l : foldl rs_apply A (IPSetActive <$> l) = list_to_set l ∪ A.
Proof. revert A. induction l as [|a r IH]; intros A; simpl; [set_solver|]. rewrite IH. set_solver. Qed.
Lemma fold_inactive A l : foldl rs_apply A (IPSetInactive <$> l) = A ∖ list_to_set l.
Proof. revert A. induction l as [|a r IH]; intros A; simpl; [set_solver|]. rewrite IH. set_solver. Qed.

Lemma getu_insert m k S k' : getu (<[k := S]> m) k' = if decide (k' = k) then S else getu m k'.
Proof. unfold getu. destruct (decide (k' = k)) as [->|Hn]; [by rewrite lookup_insert|by rewrite lookup_insert_ne]. Qed.

Lemma rs_step_inv s m A i :
  rs_inv s m A →
  rs_inv (rs_step s i).1 (<[i.1 := i.2]> m) (foldl rs_apply A (rs_step s i).2).
Proof.
  destruct i as [key cur]. intros (Hr & Hu & HA). unfold rs_step. cbn [fst snd]. rewrite Hr.
  split; [done|]. split.
  - intros uid k. cbn [u2r]. rewrite getu_insert.
    destruct (decide (uid ∈ cur ∖ getu m key)) as [Ha|Ha]; [|destruct (decide (uid ∈ getu m key ∖ cur)) as [Hrm|Hrm]].
    + destruct (decide (k = key)) as [->|Hn]; [set_solver|]. rewrite elem_of_union, elem_of_singleton, Hu. naive_solver.
    + destruct (decide (k = key)) as [->|Hn]; [set_solver|]. rewrite elem_of_difference, elem_of_singleton, Hu. naive_solver.
    + destruct (decide (k = key)) as [->|Hn]; [|apply Hu]. rewrite Hu. rewrite elem_of_difference in Ha, Hrm.
      destruct (decide (uid ∈ cur)), (decide (uid ∈ getu m key)); tauto.
  - intros uid. cbn [u2r]. rewrite foldl_app, fold_active, fold_inactive.
    rewrite elem_of_difference, elem_of_union, !elem_of_list_to_set, !elem_of_list_filter, !elem_of_elements.
    destruct (decide (uid ∈ cur ∖ getu m key)) as [Ha|Ha]; [|destruct (decide (uid ∈ getu m key ∖ cur)) as [Hrm|Hrm]].
    + split; [intros _; set_solver|]. intros _. split.
      * destruct (decide (u2r s uid = ∅)) as [E|E]; [left; done|right; by apply HA].
      * intros [_ Hrm]. set_solver.
    + split.
      * intros [[[_ Hx]|Hx] Hn]; [done|]. intros E. apply Hn. done.
      * intros Hne. split; [|intros [E _]; done]. right. apply HA. intros E. apply Hne. rewrite E. set_solver.
    + rewrite HA. split; [intros [[[_ Hx]|Hx] _]; [done|done]|]. intros Hne. split; [by right|]. intros [_ Hx]. done.
Qed.

Lemma rs_run_inv is : ∀ s m A, rs_inv s m A →
  rs_inv (n_run rs_node s is).1 (foldl (λ m i, <[i.1 := i.2]> m) m is) (foldl rs_apply A (n_run rs_node s is).2).
Proof.
  induction is as [|i r IH]; intros s m A HI; [exact HI|].
  pose proof (rs_step_inv s m A i HI) as H1. cbn [n_run]. change (n_step rs_node s i) with (rs_step s i).
  destruct (rs_step s i) as [s1 o1]. cbn [fst snd] in *.
  specialize (IH s1 _ _ H1). destruct (n_run rs_node s1 r) as [s2 o2]. cbn [fst snd] in *.
  rewrite foldl_app. exact IH.
Qed.

(* THE node lemma *)
Theorem rs_hf : hf (X := RSIN) (Y := RSOUT) rs_node (λ _, True) (λ _, True) used.
Proof.
  intros is _. split; [done|].
  assert (H0 : rs_inv rs0 ∅ ∅).
  { split; [done|]. split; [intros uid key; unfold getu; rewrite lookup_empty; set_solver|]. intros uid. simpl. set_solver. }
  pose proof (rs_run_inv is rs0 ∅ ∅ H0) as (Hr & Hu & HA).
  change (foldl rs_apply ∅ (n_run rs_node rs0 is).2 = used (foldl (λ m i, <[i.1 := i.2]> m) ∅ is)).
  apply set_eq. intros uid. rewrite HA, elem_of_used. split.
  - intros Hne. apply set_choose_L in Hne as [k Hk]. exists k. by apply Hu.
  - intros [k Hk]. apply Hu in Hk. set_solver.
Qed.
