(* C01 — two small tools for plugging other properties' node theorems into the composition theory.

   [rstype]: an output stream type whose net state is EITHER what the node has really emitted (a fold, [inl]) OR a
   specification state ([inr]), with "same net state" = the refinement relation [sat] between the two.  A node
   theorem of the form "after any history, what was emitted satisfies the specification of the current inputs"
   is then literally [hf n P Q (fun x => inr (g x))]  ([refines]).

   [hf_map_hom]: a stateless translation (dispatcher routing, type filters, abstraction of values) is history-free
   as soon as it is a homomorphism MESSAGE BY MESSAGE - no history is involved in the obligation. *)
From stdpp Require Import gmap.
From Verif.C01 Require Import Model Compose.

Definition rstype (M T S : Type) (t0 : T) (app : T → M → T) (sat : T → S → Prop) : stype :=
  SType M (T + S) (inl t0)
        (λ a m, match a with inl t => inl (app t m) | inr s => inr s end)
        (λ a b, match a, b with
                | inl t, inr s => sat t s
                | inl t, inl t' => t = t'
                | inr s, inr s' => s = s'
                | inr _, inl _ => False
                end).

Lemma net_rstype M T S t0 app sat (ms : list M) :
  net (rstype M T S t0 app sat) ms = inl (foldl app t0 ms).
Proof.
  unfold net. simpl. generalize t0. induction ms as [|m r IH]; intros t; simpl; [done|]. apply IH.
Qed.

Definition refines {X : stype} {M T S} t0 app (sat : T → S → Prop) (n : node (s_msg X) M)
    (P : list (s_msg X) → Prop) (g : s_net X → S) : Prop :=
  ∀ is, P is → sat (foldl app t0 (n_outs n is)) (g (net X is)).

Lemma refines_hf {X : stype} {M T S} t0 app (sat : T → S → Prop) (n : node (s_msg X) M) P g :
  refines t0 app sat n P g → hf (Y := rstype M T S t0 app sat) n P (λ _, True) (λ x, inr (g x)).
Proof. intros H is HP. split; [done|]. rewrite net_rstype. simpl. by apply H. Qed.

(* two histories admitted by P with the same inputs: both outputs satisfy the same specification *)
Lemma refines_same_spec {X : stype} {M T S} t0 app (sat : T → S → Prop) (n : node (s_msg X) M) P g h1 h2 :
  refines t0 app sat n P g → P h1 → P h2 → net X h1 = net X h2 →
  ∃ s, sat (foldl app t0 (n_outs n h1)) s ∧ sat (foldl app t0 (n_outs n h2)) s.
Proof. intros H P1 P2 E. exists (g (net X h1)). split; [by apply H|]. rewrite E. by apply H. Qed.

Lemma hf_map_hom {X Y : stype} (f : s_msg X → list (s_msg Y)) (g : s_net X → s_net Y) :
  Reflexive (s_eqv Y) → g (s_net0 X) = s_net0 Y →
  (∀ s m, foldl (s_apply Y) (g s) (f m) = g (s_apply X s m)) →
  hf (pipe_map f) (λ _, True) (λ _, True) g.
Proof.
  intros HR H0 Hm. apply hf_map. intros is _. split; [done|].
  assert (G : ∀ s, foldl (s_apply Y) (g s) (is ≫= f) = g (foldl (s_apply X) s is)).
  { induction is as [|m r IH]; intros s; [done|]. rewrite bind_cons, foldl_app, Hm. apply IH. }
  unfold net. rewrite <-H0, G. reflexivity.
Qed.

Lemma foldl_fold_left {A B} (f : A → B → A) l : ∀ a, foldl f a l = fold_left f l a.
Proof. induction l as [|x r IH]; intros a; simpl; [done|apply IH]. Qed.
