(* C01 — the tunnel-endpoint part of the property closed end to end for the model: datastore (Node resources and VXLAN
   host config keys) -> dispatcher routing + abstraction (feeder, PROVED here) -> VXLAN resolver (Vxlan.v) -> emitter ->
   EventSequencer (C02), with the flusher.  No hypothesis left: for every history ending with a flush request the VTEP
   state of the dataplane is the one a fresh graph emits for the final state (IPv4 and IPv6). *)
From stdpp Require Import gmap.
From Verif.Common Require Import Sync.
From Verif.C02 Require Import Model Spec Proofs.
From Verif.C01 Require Import Model Compose Spec Instances Fanin Refines Graph Vxlan VxlanSlice RoutesPools.
Local Open Scope N_scope.

(* the datastore keys this slice registers for, and their values *)
Inductive vkey := KNodeRes (n : N) | KTun4 (n : N) | KTun6 (n : N) | KMac4 (n : N) | KMac6 (n : N).
Global Instance vkey_eq_dec : EqDecision vkey.
Proof. solve_decision. Defined.
Global Instance vkey_countable : Countable vkey.
Proof.
  apply (inj_countable' (λ k, match k with KNodeRes n => (0, n) | KTun4 n => (1, n) | KTun6 n => (2, n) | KMac4 n => (3, n) | KMac6 n => (4, n) end)
           (λ p : N * N, match p.1 with 0 => KNodeRes p.2 | 1 => KTun4 p.2 | 2 => KTun6 p.2 | 3 => KMac4 p.2 | _ => KMac6 p.2 end)).
  by intros [].
Defined.
Inductive vval :=
| NodeV (bgp : option (option N * option N))    (* Node resource: BGP spec absent, or its IPv4 / IPv6 address *)
| StrV (a : N).                                  (* a host config value *)

(* feeder: OnResourceUpdate / OnHostConfigUpdate as the model's operations *)
Definition vfeed (m : dmsg vkey vval) : list vxop :=
  match m with
  | DOp (Upsert (KNodeRes n) (NodeV (Some (a, b)))) => [VNode n a b]
  | DOp (Upsert (KNodeRes n) _) => [VNodeDel n]
  | DOp (Delete (KNodeRes n)) => [VNodeDel n]
  | DOp (Upsert (KTun4 n) (StrV a)) => [VTun4 n (Some a)]
  | DOp (Upsert (KTun4 n) _) | DOp (Delete (KTun4 n)) => [VTun4 n None]
  | DOp (Upsert (KTun6 n) (StrV a)) => [VTun6 n (Some a)]
  | DOp (Upsert (KTun6 n) _) | DOp (Delete (KTun6 n)) => [VTun6 n None]
  | DOp (Upsert (KMac4 n) (StrV a)) => [VMac4 n (Some a)]
  | DOp (Upsert (KMac4 n) _) | DOp (Delete (KMac4 n)) => [VMac4 n None]
  | DOp (Upsert (KMac6 n) (StrV a)) => [VMac6 n (Some a)]
  | DOp (Upsert (KMac6 n) _) | DOp (Delete (KMac6 n)) => [VMac6 n None]
  | DInSync | DFlush => []
  end.

(* projection of the datastore to one field of the resolver's inputs *)
Section Proj.
  Variable inj : N → vkey.
  Variable uninj : vkey → option N.
  Variable dec : vval → option N.
  Hypothesis uninj_inj : ∀ n, uninj (inj n) = Some n.
  Hypothesis uninj_some : ∀ k n, uninj k = Some n → k = inj n.

  Definition proj (m : gmap vkey vval) : gmap N N :=
    map_imap (λ n (_ : unit), m !! inj n ≫= dec) (gset_to_gmap () (list_to_set (omap uninj (elements (dom m))))).
  Lemma lookup_proj m n : proj m !! n = m !! inj n ≫= dec.
  Proof.
    unfold proj. rewrite map_lookup_imap, lookup_gset_to_gmap.
    destruct (decide (n ∈ (list_to_set (omap uninj (elements (dom m))) : gset N))) as [Hin|Hni].
    - by rewrite option_guard_True.
    - rewrite option_guard_False by done. simpl.
      destruct (m !! inj n) as [v|] eqn:E; [|done]. exfalso. apply Hni.
      apply elem_of_list_to_set, elem_of_list_omap. exists (inj n). split; [by apply elem_of_elements, elem_of_dom|apply uninj_inj].
  Qed.
End Proj.

Definition dec_str (v : vval) : option N := match v with StrV a => Some a | _ => None end.
Definition dec_ip4 (v : vval) : option N := match v with NodeV (Some (a, _)) => a | _ => None end.
Definition dec_ip6 (v : vval) : option N := match v with NodeV (Some (_, b)) => b | _ => None end.
Definition un (t : N) (k : vkey) : option N :=
  match t, k with
  | 0, KNodeRes n | 1, KTun4 n | 2, KTun6 n | 3, KMac4 n | 4, KMac6 n => Some n
  | _, _ => None
  end.

Definition vG (s : gmap vkey vval * bool) : vxin :=
  {| x_ip4 := proj KNodeRes (un 0) dec_ip4 s.1; x_ip6 := proj KNodeRes (un 0) dec_ip6 s.1;
     x_tun4 := proj KTun4 (un 1) dec_str s.1; x_tun6 := proj KTun6 (un 2) dec_str s.1;
     x_mac4 := proj KMac4 (un 3) dec_str s.1; x_mac6 := proj KMac6 (un 4) dec_str s.1 |}.

Ltac un_ok := first [ by intros ? | intros [?|?|?|?|?] ? ?; simpl in *; congruence ].
Lemma lp0 d m n : proj KNodeRes (un 0) d m !! n = m !! KNodeRes n ≫= d. Proof. apply lookup_proj; un_ok. Qed.
Lemma lp1 d m n : proj KTun4 (un 1) d m !! n = m !! KTun4 n ≫= d. Proof. apply lookup_proj; un_ok. Qed.
Lemma lp2 d m n : proj KTun6 (un 2) d m !! n = m !! KTun6 n ≫= d. Proof. apply lookup_proj; un_ok. Qed.
Lemma lp3 d m n : proj KMac4 (un 3) d m !! n = m !! KMac4 n ≫= d. Proof. apply lookup_proj; un_ok. Qed.
Lemma lp4 d m n : proj KMac6 (un 4) d m !! n = m !! KMac6 n ≫= d. Proof. apply lookup_proj; un_ok. Qed.

Lemma vxin_ext (a b : vxin) :
  (∀ n, x_ip4 a !! n = x_ip4 b !! n) → (∀ n, x_ip6 a !! n = x_ip6 b !! n) → (∀ n, x_tun4 a !! n = x_tun4 b !! n) →
  (∀ n, x_tun6 a !! n = x_tun6 b !! n) → (∀ n, x_mac4 a !! n = x_mac4 b !! n) → (∀ n, x_mac6 a !! n = x_mac6 b !! n) → a = b.
Proof. destruct a, b. simpl. intros. f_equal; by apply map_eq. Qed.

Lemma lookup_oset m k v n : oset m k v !! n = if decide (n = k) then v else m !! n.
Proof.
  destruct (decide (n = k)) as [->|Hn]; destruct v; simpl;
    rewrite ?lookup_insert, ?lookup_delete, ?lookup_insert_ne, ?lookup_delete_ne by done; done.
Qed.

Ltac hom_solve :=
  intros n'; simpl; rewrite ?lp0, ?lp1, ?lp2, ?lp3, ?lp4, ?lookup_oset, ?lookup_delete;
  repeat match goal with
         | |- context [decide (?a = ?b)] => destruct (decide (a = b)) as [->|?]
         end;
  rewrite ?lookup_insert, ?lookup_delete, ?lookup_insert_ne, ?lookup_delete_ne by congruence;
  rewrite ?lp0, ?lp1, ?lp2, ?lp3, ?lp4; try done;
  try (match goal with
       | n : N, n' : N |- _ =>
           destruct (decide (n' = n)) as [->|?];
           rewrite ?lookup_insert, ?lookup_delete, ?lookup_insert_ne, ?lookup_delete_ne by congruence;
           rewrite ?lp0, ?lp1, ?lp2, ?lp3, ?lp4; done
       end).

(* the feeder is a homomorphism message by message *)
Lemma vfeed_hom s m : foldl vx_in_apply (vG s) (vfeed m) = vG (ds_apply s m).
Proof.
  destruct s as [mp b].
  destruct m as [[k v|k]| |]; [| |done|done].
  - destruct k as [n|n|n|n|n]; destruct v as [[[a c]|]|a]; simpl; apply vxin_ext; hom_solve.
  - destruct k as [n|n|n|n|n]; simpl; apply vxin_ext; hom_solve.
Qed.

Lemma vG0 : vG (∅, false) = vxin0.
Proof.
  apply vxin_ext; intros n; simpl; rewrite ?lp0, ?lp1, ?lp2, ?lp3, ?lp4, !lookup_empty; done.
Qed.

Lemma vfeed_hf : hf (X := DS vkey vval) (Y := VXIN) (pipe_map vfeed) (λ _, True) (λ _, True) vG.
Proof.
  apply (hf_map_hom (X := DS vkey vval) (Y := VXIN) vfeed vG); [by intros ?|exact vG0|exact vfeed_hom].
Qed.

Section Pipe.
  Variable gen : N → bool → N.
  Variable enc : vtep → N.

  Definition vslice : node (dmsg vkey vval) sev := slice (pipe_map vfeed) (vx_nodeN gen) (pipe_map (vx_emit enc)).
  Definition vfront : node (dmsg vkey vval) sev := fanin vslice flusher.
  Definition vgraph : node (dmsg vkey vval) msg := pipe_seq vfront (seq_node true).
  Definition vF (s : gmap vkey vval * bool) : world := wunion (vt_world enc (vt_table gen (vG s))) world0.
  Definition vadmitted (h : list (dmsg vkey vval)) : Prop := ∃ h', h = h' ++ [DFlush].

  Lemma vslice_hf P : hf (X := DS vkey vval) (Y := CB) vslice P (Forall (in_class (kclass [KVtep])))
                         (vt_world enc ∘ vt_table gen ∘ vG).
  Proof.
    apply (vxlan_slice_hf gen enc (X := DS vkey vval) (pipe_map vfeed) P vG).
    eapply hf_weaken; [| |exact vfeed_hf]; done.
  Qed.

  Lemma vslice_flat is : Forall flat_ev (n_outs vslice is).
  Proof.
    unfold vslice, slice. rewrite !seq_outs, map_outs.
    induction (n_outs (vx_nodeN gen) (n_outs (pipe_map vfeed) is)) as [|m r IH]; [constructor|].
    rewrite bind_cons. apply Forall_app. split; [|exact IH]. destruct m; repeat constructor; done.
  Qed.

  Lemma n_outs_snoc {I O} (n : node I O) a m : n_outs n (a ++ [m]) = n_outs n a ++ (n_step n (n_final n a) m).2.
  Proof.
    unfold n_outs, n_final. rewrite n_run_app. destruct (n_run n (n_init n) a) as [s1 o1]. simpl.
    destruct (n_step n s1 m) as [s2 o2]. simpl. by rewrite app_nil_r.
  Qed.

  Lemma vfront_flush_step s : (n_step vfront s DFlush).2 = [SFlush []].
  Proof. destruct s as [[[[] [vs []]] []] []]. reflexivity. Qed.

  Lemma vfront_flat is : Forall flat_ev (n_outs vfront is).
  Proof.
    unfold vfront. rewrite fanin_outs. destruct (par_outs vslice (flusher (K := vkey) (V := vval)) is) as [El Er].
    apply Forall_fmap, Forall_forall. intros [e|e] Hin; simpl.
    - assert (He : e ∈ lefts (n_outs (pipe_par vslice flusher) is)) by (apply elem_of_list_omap; by exists (inl e)).
      rewrite El in He. exact (proj1 (Forall_forall _ _) (vslice_flat is) e He).
    - assert (He : e ∈ rights (n_outs (pipe_par vslice flusher) is)) by (apply elem_of_list_omap; by exists (inr e)).
      rewrite Er in He. unfold flusher in He. rewrite map_outs in He.
      apply elem_of_list_bind in He as (m & He & _). destruct m as [o| |]; simpl in He; set_solver.
  Qed.

  Lemma vcontract h : vadmitted h → seq_admits true (n_outs vfront h).
  Proof.
    intros [h' ->]. rewrite n_outs_snoc, vfront_flush_step.
    exists (n_outs vfront h'), []. split; [done|]. apply contract_gen_true, flat_contract.
    - intros c v. unfold world0. simpl. by rewrite lookup_empty.
    - rewrite <-vfront_flush_step with (s := n_final vfront h'), <-n_outs_snoc. apply vfront_flat.
  Qed.

  Lemma vfront_hf : hf (X := DS vkey vval) (Y := CB) vfront vadmitted (seq_admits true) vF.
  Proof.
    assert (D : ∀ k : kind, k ∈ [KVtep] → k ∈ (@nil kind) → False) by (intros k _ Hk; by apply elem_of_nil in Hk).
    pose proof (hf_fanin_k (X := DS vkey vval) vslice flusher vadmitted [KVtep] [] _ (λ _, world0) D
                  (vslice_hf vadmitted) (flusher_hf vadmitted)) as G.
    intros h Ha. split; [by apply vcontract|]. exact (proj2 (G h Ha)).
  Qed.

  (* tunnel endpoints, end to end, no hypothesis *)
  Theorem vtep_history_independent h D e :
    vadmitted h → settled h → (net (DS vkey vval) h).1 = D → NoDup e.*1 → list_to_map e = D →
    dp_of (n_outs vgraph h) = dp_of (n_outs vgraph (fresh e)).
  Proof.
    intros Ha Hs HD ND He.
    apply (graph_history_independent vfront true vadmitted vF vfront_hf h D e); try done.
    exists (map (λ kv : vkey * vval, DOp (Upsert kv.1 kv.2)) e ++ [DInSync]). unfold fresh. by rewrite <-app_assoc.
  Qed.
End Pipe.
