(* C01 — ValidationFilter + ActiveRulesCalculator (model Verif.C05.Model) as a NODE of the abstract graph:
     input  stream: C05's inputs (one datastore write each: key, value or nil, plus the arbitrary schedules standing
                    for the label index's callback order); net state = the FILTERED datastore [ds_of validate]
                    (an invalid value counts as absent);
     output stream: the events the calculator emits (profile / policy active / inactive, match callbacks ...);
                    net state = the dataplane's view of active profiles and policies (fold [view_apply]);
     node lemma:    after ANY history, every validator and every callback order: the view holds policy k exactly when
                    the filtered datastore has k and k selects an endpoint or is force-programmed, with its current
                    version (c05_policies_exact), and every profile named by an endpoint is present with the datastore's
                    rules or the deny stand-in (c05_profiles_fail_closed). *)
From Coq Require Import List NArith Bool.
From Verif.Common Require Import Packet PolicyRef Labels.
From Verif.C05 Require Import Model Spec ProofsMain ProofsPolMain.
From Verif.C01 Require Model Compose Refines.
Import ListNotations.

Module M := Verif.C01.Model.
Module Cp := Verif.C01.Compose.
Module Rf := Verif.C01.Refines.

Section N5.
  Variable validate : value -> bool.

  Definition node5 : M.node input ev := M.Node st st0 (step validate).

  Definition X5 : Cp.stype :=
    Cp.SType input ds ds0 (fun d i => ds_apply d (i_key i) (vf_filter validate (i_val i))) eq.

  Definition sat5 (vw : view) (d : ds) : Prop :=
    (forall k, aget k (v_pols vw) = match aget k (d_pols d) with
                                    | Some q => if selects q d then Some q else None
                                    | None => None
                                    end)
    /\ (forall e ep p, aget e (d_eps d) = Some ep -> In p (ep_profiles ep) ->
                       aget p (v_profs vw) = Some (expected_profile d p)).

  Lemma node5_outs h : forall s, snd (M.n_run node5 s h) = concat (run validate s h).
  Proof.
    induction h as [|i r IH]; intros s; simpl; [reflexivity|].
    destruct (step validate s i) as [s1 evs]. specialize (IH s1).
    destruct (M.n_run node5 s1 r) as [s2 os]. simpl in *. rewrite IH. reflexivity.
  Qed.

  Lemma net_X5 h : forall d, stdpp.list.foldl (Cp.s_apply X5) d h = ds_of validate d h.
  Proof. induction h as [|i r IH]; intros d; simpl; [reflexivity|apply IH]. Qed.

  Theorem node5_refines :
    Rf.refines (X := X5) view0 view_apply sat5 node5 (fun _ => True) (fun d => d).
  Proof.
    intros h _. unfold M.n_outs. change (M.n_init node5) with st0. rewrite node5_outs.
    rewrite Rf.foldl_fold_left.
    change (fold_left view_apply (concat (run validate st0 h)) view0) with (view_of (run validate st0 h)).
    unfold Cp.net. change (Cp.s_net0 X5) with ds0. rewrite net_X5. split.
    - intros k. apply (policies_exact validate h k).
    - intros e ep p He Hp. apply (profiles_fail_closed validate h e ep p He Hp).
  Qed.

  Definition Y5 : Cp.stype := Rf.rstype ev view ds view0 view_apply sat5.
  Theorem node5_hf : Cp.hf (X := X5) (Y := Y5) node5 (fun _ => True) (fun _ => True) (fun d => inr d).
  Proof. apply Rf.refines_hf, node5_refines. Qed.
End N5.
