(* C33 — byte order: with a fixed byte order in hashFromString the table does not depend on the CPU;
   with binary.NativeEndian it does (concrete witness). *)
From Coq Require Import List NArith Bool.
From Verif.C33 Require Import Model Spec.
Import ListNotations.
Open Scope N_scope.

Lemma resolve_fixed bo c1 c2 : bo <> BONative -> resolve bo c1 = resolve bo c2.
Proof. destruct bo; intros H; try reflexivity. contradiction. Qed.

Lemma byte_order_independent_fixed : forall bo, bo <> BONative ->
  forall cpu1 cpu2 h1 h2 m names,
    maglev bo cpu1 h1 h2 m names = maglev bo cpu2 h1 h2 m names.
Proof.
  intros bo Hbo cpu1 cpu2 h1 h2 m names.
  unfold maglev, add_all, add_backend, offset_and_skip, hash_from_string.
  rewrite (resolve_fixed bo cpu1 cpu2 Hbo). reflexivity.
Qed.

(* three pod addresses, table size 7 *)
Definition witness_m : N := 7.
Definition witness_names : list bytes :=
  [ [49;48;46;48;46;48;46;49;58;56;48];     (* "10.0.0.1:80" *)
    [49;48;46;48;46;48;46;50;58;56;48];     (* "10.0.0.2:80" *)
    [49;48;46;48;46;48;46;51;58;56;48] ].   (* "10.0.0.3:80" *)

Lemma byte_order_native_refuted :
  exists m names, Spec.is_prime m = true /\
    maglev BONative LE fnv32 fnv32 m names <> maglev BONative BE fnv32 fnv32 m names.
Proof.
  exists witness_m, witness_names. split; [vm_compute; reflexivity|].
  vm_compute. discriminate.
Qed.
