(* C33 — the specification oracle accepts every run of the model: for every prime table size, all hash functions
   whose sums have at least four bytes, every byte order and every list of AddBackend calls, the model's table
   is complete, balanced (every distinct backend between floor(m/D) and ceil(m/D) slots), the same for every
   insertion order, and (fixed byte order) the same on every CPU. *)
From Coq Require Import List NArith ZArith Arith Bool Lia Znumtheory Permutation.
From Coq Require Import ZifyN ZifyNat ZifyBool.
From Verif.C33 Require Import Model Spec Arith Fill Order Indep ByteOrder.
Import ListNotations.
Open Scope N_scope.

(* ---------- generic list helpers ---------- *)
Lemma filter_ext_len {A} (f g : A -> bool) (u : list A) :
  (forall x, In x u -> f x = g x) -> length (filter f u) = length (filter g u).
Proof.
  induction u as [|a u IH]; intros H; simpl; auto.
  rewrite (H a) by (simpl; auto). destruct (g a); simpl; rewrite IH; auto; intros; apply H; simpl; auto.
Qed.

Lemma NoDup_map_inj_in {A B} (f : A -> B) (l : list A) :
  (forall a b, In a l -> In b l -> f a = f b -> a = b) -> NoDup l -> NoDup (map f l).
Proof.
  induction l as [|x l IH]; intros Hinj ND; simpl; constructor.
  - inversion ND; subst. intros HI. apply in_map_iff in HI. destruct HI as [y [Ey Hy]].
    assert (y = x) by (apply Hinj; simpl; auto). subst. contradiction.
  - inversion ND; subst. apply IH; auto. intros; apply Hinj; simpl; auto.
Qed.

Lemma existsb_bytes x seen : existsb (bytes_eqb x) seen = true <-> In x seen.
Proof.
  rewrite existsb_exists. split.
  - intros [y [Hy E]]. apply bytes_eqb_eq in E. now subst.
  - intros H. exists x. split; auto. now apply bytes_eqb_eq.
Qed.

(* ---------- first_index ---------- *)
Lemma first_index_le canon nm : first_index canon nm <= len canon.
Proof.
  unfold len. induction canon as [|x r IH]; simpl; [lia|].
  destruct (bytes_eqb x nm); lia.
Qed.

Lemma first_index_nth canon nm :
  first_index canon nm < len canon -> nth_error canon (N.to_nat (first_index canon nm)) = Some nm.
Proof.
  unfold len. induction canon as [|x r IH]; simpl; intros H; [lia|].
  destruct (bytes_eqb x nm) eqn:E.
  - apply bytes_eqb_eq in E. now subst.
  - rewrite N2Nat.inj_succ. simpl. apply IH. lia.
Qed.

Lemma first_index_in canon nm : In nm canon -> first_index canon nm < len canon.
Proof.
  unfold len. induction canon as [|x r IH]; simpl; intros H; [destruct H|].
  destruct (bytes_eqb x nm) eqn:E; [lia|].
  destruct H as [->|H].
  - assert (bytes_eqb nm nm = true) by now apply bytes_eqb_eq. congruence.
  - apply IH in H. lia.
Qed.

Lemma first_index_inj canon a b :
  In a canon -> In b canon -> first_index canon a = first_index canon b -> a = b.
Proof.
  intros Ha Hb E. pose proof (first_index_nth canon a (first_index_in _ _ Ha)) as Na.
  pose proof (first_index_nth canon b (first_index_in _ _ Hb)) as Nb.
  rewrite E in Na. congruence.
Qed.

(* ---------- the distinct backends ---------- *)
Fixpoint dn (seen names : list bytes) : list bytes :=
  match names with
  | [] => []
  | x :: r => if existsb (bytes_eqb x) seen then dn seen r else x :: dn (x :: seen) r
  end.

Lemma dn_in names : forall seen nm, In nm (dn seen names) <-> In nm names /\ ~ In nm seen.
Proof.
  induction names as [|x r IH]; intros seen nm; simpl; [tauto|].
  destruct (existsb (bytes_eqb x) seen) eqn:E.
  - apply existsb_bytes in E. rewrite IH. split.
    + intros [H1 H2]. auto.
    + intros [[->|H1] H2]; [contradiction|auto].
  - assert (Hx : ~ In x seen) by (intros H; apply existsb_bytes in H; congruence).
    simpl. rewrite IH. simpl. split.
    + intros [->|[H1 H2]]; auto.
    + intros [[->|H1] H2]; auto.
      destruct (list_eq_dec N.eq_dec x nm) as [->|Hne]; auto.
      right. split; auto. intros [H|H]; auto.
Qed.

Lemma dn_NoDup names : forall seen, NoDup (dn seen names).
Proof.
  induction names as [|x r IH]; intros seen; simpl; [constructor|].
  destruct (existsb (bytes_eqb x) seen); auto.
  constructor; auto. rewrite dn_in. simpl. intros [_ H]. apply H. auto.
Qed.

Lemma distinct_from_dn names : forall seen i,
  distinct_from seen i names = map (fun nm => i + first_index names nm) (dn seen names).
Proof.
  induction names as [|x r IH]; intros seen i; simpl; auto.
  destruct (existsb (bytes_eqb x) seen) eqn:E.
  - rewrite IH. apply map_ext_in. intros nm Hnm. apply dn_in in Hnm. destruct Hnm as [_ Hn].
    apply existsb_bytes in E.
    destruct (bytes_eqb x nm) eqn:E2; [apply bytes_eqb_eq in E2; subst; contradiction|].
    now rewrite N.add_succ_l, N.add_succ_r.
  - simpl. assert (bytes_eqb x x = true) by now apply bytes_eqb_eq. rewrite H.
    f_equal; [lia|]. rewrite IH. apply map_ext_in. intros nm Hnm. apply dn_in in Hnm. destruct Hnm as [_ Hn].
    destruct (bytes_eqb x nm) eqn:E2; [apply bytes_eqb_eq in E2; subst; exfalso; apply Hn; simpl; auto|].
    now rewrite N.add_succ_l, N.add_succ_r.
Qed.

Lemma distinct_idx_dn canon : distinct_idx canon = map (first_index canon) (dn [] canon).
Proof. unfold distinct_idx. rewrite distinct_from_dn. apply map_ext. intros; lia. Qed.

Lemma dn_nil_in canon nm : In nm (dn [] canon) <-> In nm canon.
Proof. rewrite dn_in. simpl. tauto. Qed.

Lemma distinct_idx_NoDup canon : NoDup (distinct_idx canon).
Proof.
  rewrite distinct_idx_dn. apply NoDup_map_inj_in; [|apply dn_NoDup].
  intros a b Ha Hb. apply first_index_inj; now apply dn_nil_in.
Qed.

(* ---------- count ---------- *)
Lemma count_filter x l : count x l = N.of_nat (length (filter (N.eqb x) l)).
Proof.
  induction l as [|y l IH]; [reflexivity|]. cbn [count filter]. rewrite IH.
  destruct (x =? y); cbn [length]; lia.
Qed.

(* ---------- the model's table satisfies ok_table ---------- *)
Lemma decode32_total e bs : (4 <= length bs)%nat -> exists v, decode32 e bs = Some v.
Proof.
  destruct bs as [|b0 [|b1 [|b2 [|b3 r]]]]; simpl; intros H; try lia. eexists; reflexivity.
Qed.

Lemma balance_bounds m K b :
  0 < K ->
  let c := m / K + (if b <? m mod K then 1 else 0) in
  (m / K <=? c) && (c <=? (m + K - 1) / K) = true.
Proof.
  intros HK c. subst c. apply andb_true_iff. split; apply N.leb_le.
  - destruct (b <? m mod K); lia.
  - pose proof (N.div_mod m K ltac:(lia)) as E. pose proof (N.mod_lt m K ltac:(lia)) as L.
    set (q := m / K) in *. set (r := m mod K) in *.
    destruct (b <? r) eqn:Eb.
    + apply N.ltb_lt in Eb.
      assert (q + 1 <= (m + K - 1) / K); [|lia].
      apply N.div_le_lower_bound; [lia|]. nia.
    + assert (q <= (m + K - 1) / K); [|lia].
      apply N.div_le_lower_bound; [lia|]. nia.
Qed.

Section MeetsSpec.
  Variables (h1 h2 : hash_fn).
  Hypothesis Hh1 : forall bs, (4 <= length (h1 bs))%nat.
  Hypothesis Hh2 : forall bs, (4 <= length (h2 bs))%nat.

  Lemma offset_and_skip_total bo cpu m nm : exists os, offset_and_skip bo cpu h1 h2 m nm = Some os.
  Proof.
    unfold offset_and_skip, hash_from_string.
    destruct (decode32_total (resolve bo cpu) (h1 ([0] ++ nm)) (Hh1 _)) as [o ->].
    destruct (decode32_total (resolve bo cpu) (h2 ([10] ++ nm)) (Hh2 _)) as [k ->].
    eexists; reflexivity.
  Qed.

  Lemma sorted_names bo cpu m names :
    let S := sort_bks (add_all bo cpu h1 h2 m names) in
    NoDup (map fst S) /\ forall nm, In nm (map fst S) <-> In nm names.
  Proof.
    intros S. destruct (add_all_spec bo cpu h1 h2 m names) as [[ND _] M].
    assert (P : Permutation (map fst S) (map fst (add_all bo cpu h1 h2 m names)))
      by (apply Permutation_map, sort_bks_perm).
    split.
    - eapply Permutation_NoDup; [apply Permutation_sym; exact P|exact ND].
    - intros nm. split.
      + intros H. eapply Permutation_in in H; [|exact P]. apply in_map_iff in H.
        destruct H as [[nm' os] [E H]]. simpl in E. subst nm'. apply M in H. tauto.
      + intros H. destruct (offset_and_skip_total bo cpu m nm) as [os Hos].
        eapply Permutation_in; [apply Permutation_sym; exact P|].
        apply in_map_iff. exists (nm, os). split; auto. apply M. auto.
  Qed.

  Lemma model_meets_table bo cpu m canon names :
    Nprime m -> (forall x, In x names <-> In x canon) ->
    ok_table m canon (model_obs_h h1 h2 bo cpu m canon names) = true.
  Proof.
    intros Hp Hset. pose proof (Nprime_ge_2 _ Hp) as Hm2.
    unfold model_obs_h.
    set (S := sort_bks (add_all bo cpu h1 h2 m names)).
    destruct (sorted_names bo cpu m names) as [NDS HS]. fold S in NDS, HS.
    destruct S as [|b0 rest] eqn:ES.
    - (* no backend: the reference list has no name either *)
      simpl. destruct canon as [|x r]; [reflexivity|].
      exfalso. assert (In x names) by (apply Hset; simpl; auto). apply HS in H. destruct H.
    - rewrite <- ES in *.
      assert (Hsk : Forall (fun b : bk => 1 <= snd (snd b) < m) S).
      { eapply Permutation_Forall; [apply Permutation_sym, sort_bks_perm|]. now apply add_all_skips. }
      destruct (generate_sorted_ok m S Hp ltac:(rewrite ES; discriminate) Hsk) as [lst [Eg [Hlen [Hent Hsh]]]].
      rewrite Eg.
      set (K := len S) in *.
      assert (HK0 : 0 < K) by (unfold K, len; rewrite ES; simpl; lia).
      set (im := map (fun b : bk => first_index canon (fst b)) S).
      set (dflt := N.succ (len canon)).
      set (conv := fun e : option N => match e with None => len canon | Some i => nth (N.to_nat i) im dflt end).
      set (d := distinct_idx canon).
      (* im is a permutation of the distinct indices *)
      assert (Pn : Permutation (map fst S) (dn [] canon)).
      { apply NoDup_Permutation; auto; [apply dn_NoDup|]. intros nm. rewrite HS, Hset, dn_nil_in. tauto. }
      assert (Pim : Permutation im d).
      { replace im with (map (first_index canon) (map fst S)) by (unfold im; now rewrite map_map).
        unfold d. rewrite distinct_idx_dn. now apply Permutation_map. }
      assert (NDim : NoDup im) by (eapply Permutation_NoDup; [apply Permutation_sym; exact Pim|apply distinct_idx_NoDup]).
      assert (Lim : length im = N.to_nat K) by (unfold im, K, len; rewrite map_length; lia).
      assert (Ld : len d = K) by (unfold len; rewrite <- (Permutation_length Pim), Lim; lia).
      cbn [ok_table]. fold d. fold conv.
      apply andb_true_iff. split; [apply andb_true_iff; split|].
      + rewrite Ld. apply negb_true_iff. apply N.eqb_neq. lia.
      + unfold complete. apply andb_true_iff. split.
        * apply N.eqb_eq. unfold len. rewrite map_length, Hlen. lia.
        * apply forallb_forall. intros e' He'. apply in_map_iff in He'. destruct He' as [e [Ee He]].
          destruct (Hent e He) as [v [-> Hv]]. subst e'. simpl.
          apply existsb_exists. exists (nth (N.to_nat v) im dflt). split; [|apply N.eqb_refl].
          eapply Permutation_in; [exact Pim|]. apply nth_In. fold K in Hv. lia.
      + unfold balanced. rewrite Ld. apply forallb_forall. intros b Hb.
        assert (Hbim : In b im) by (eapply Permutation_in; [apply Permutation_sym; exact Pim|exact Hb]).
        destruct (In_nth im b dflt Hbim) as [v [Hv Env]].
        assert (Ec : count b (map conv lst) = N.of_nat (cnt_list (N.of_nat v) lst)).
        { rewrite count_filter, filter_map_length. f_equal. unfold cnt_list.
          apply filter_ext_len. intros e He. destruct (Hent e He) as [v' [-> Hv']]. simpl.
          fold K in Hv'. rewrite <- Env.
          destruct (N.eq_dec v' (N.of_nat v)) as [->|Hne].
          - rewrite Nat2N.id. rewrite !N.eqb_refl. reflexivity.
          - replace (v' =? N.of_nat v) with false by (symmetry; apply N.eqb_neq; auto).
            apply N.eqb_neq. intros E. apply Hne.
            apply (proj1 (NoDup_nth im dflt) NDim) in E; lia. }
        change ((m / K <=? count b (map conv lst)) && (count b (map conv lst) <=? (m + K - 1) / K) = true).
        rewrite Ec.
        rewrite (shares_closed_form m K lst Hsh (N.of_nat v)) by lia.
        rewrite N2Nat.id. apply balance_bounds. auto.
  Qed.
End MeetsSpec.

(* ---------- the whole case-level oracle on a model run ---------- *)
Lemma fnv32_sum_len bs : (4 <= length (fnv32 bs))%nat.
Proof. unfold fnv32, be_bytes32. cbn [length]. lia. Qed.

Lemma model_obs_order_indep h1 h2 bo cpu m canon names1 names2 :
  (forall x, In x names1 <-> In x names2) ->
  model_obs_h h1 h2 bo cpu m canon names1 = model_obs_h h1 h2 bo cpu m canon names2.
Proof.
  intros H. unfold model_obs_h. now rewrite (sorted_backends_independent bo cpu h1 h2 m names1 names2 H).
Qed.

Lemma model_obs_cpu_indep h1 h2 bo cpu1 cpu2 m canon names :
  bo <> BONative ->
  model_obs_h h1 h2 bo cpu1 m canon names = model_obs_h h1 h2 bo cpu2 m canon names.
Proof.
  intros Hbo. unfold model_obs_h, add_all, add_backend, offset_and_skip, hash_from_string.
  rewrite (resolve_fixed bo cpu1 cpu2 Hbo). reflexivity.
Qed.

Lemma list_N_eqb_refl l : list_N_eqb l l = true.
Proof. induction l; simpl; auto. now rewrite N.eqb_refl. Qed.

Lemma obs_eqb_refl o : obs_eqb o o = true.
Proof. destruct o; simpl; auto. apply list_N_eqb_refl. Qed.

Lemma obs_list_eqb_refl l : obs_list_eqb l l = true.
Proof. induction l; simpl; auto. now rewrite obs_eqb_refl. Qed.

(* A case whose recorded outputs are the model's own tables: any table size, any reference name list, any
   insertion orders that cover the same set of names, fixed byte order in the source.  Both halves of
   check_case are true: in particular the specification oracle (complete, balanced, order-independent,
   CPU-independent) accepts the model's run. *)
Lemma model_meets_spec_case : forall env c,
  c_bo c <> BONative ->
  (forall ord, In ord (c_orders c) -> forall x, In x (apply_order (c_names c) ord) <-> In x (c_names c)) ->
  c_obs c = model_tables c ->
  (forall o, In o (c_obs_be c) -> o = model_other_cpu c) ->
  check_case env (CLut c) = (true, true).
Proof.
  intros env c Hbo Hord Hobs Hbe.
  set (X := model_obs (c_bo c) (c_cpu c) (c_m c) (c_names c) (c_names c)).
  assert (HX : forall o, In o (model_tables c) -> o = X).
  { intros o Ho. unfold model_tables in Ho. apply in_map_iff in Ho. destruct Ho as [ord [<- Hin]].
    unfold X, model_obs. apply model_obs_order_indep. now apply Hord. }
  assert (Hmo : model_other_cpu c = X).
  { unfold model_other_cpu, X, model_obs. now apply model_obs_cpu_indep. }
  unfold check_case, check_case_with. cbv zeta. f_equal.
  - unfold lut_agree_with. rewrite Hobs, obs_list_eqb_refl. simpl.
    apply forallb_forall. intros o Ho. rewrite (Hbe o Ho). apply obs_eqb_refl.
  - destruct (is_prime (c_m c)) eqn:Ep; auto.
    apply is_prime_correct in Ep.
    apply andb_true_iff. split.
    + unfold ok_lut_same_cpu. rewrite Hobs. apply andb_true_iff. split.
      * apply forallb_forall. intros o Ho. unfold model_tables in Ho. apply in_map_iff in Ho.
        destruct Ho as [ord [<- Hin]]. unfold model_obs.
        apply model_meets_table; auto using fnv32_sum_len.
      * destruct (model_tables c) as [|o0 r] eqn:Em; [reflexivity|]. simpl.
        apply forallb_forall. intros o Ho.
        rewrite (HX o0) by (simpl; auto). rewrite (HX o) by (simpl; auto). apply obs_eqb_refl.
    + simpl. unfold cross_cpu_ok. apply andb_true_iff. split.
      * destruct (model_tables c) as [|o0 r] eqn:Em; [reflexivity|].
        rewrite (HX o0) by (simpl; auto). rewrite Hmo. apply obs_eqb_refl.
      * rewrite Hobs. destruct (model_tables c) as [|o0 r] eqn:Em; [reflexivity|].
        apply forallb_forall. intros o Ho. rewrite (Hbe o Ho), Hmo, (HX o0) by (simpl; auto). apply obs_eqb_refl.
Qed.
