(* C33 — the integer arithmetic of hashFromString / offsetAndSKip / permutation with the Go TYPES the source really
   uses (extracted by the translator into Gen.source_arith): width and signedness of the type in which
   (offset + j*skip) % m is computed, and whether offsetAndSKip reduces offset mod m and skip mod (m-1).
   Definitions only (wrap is the two's-complement wrap of Wrap.v). *)
From Coq Require Import List NArith ZArith Bool.
From Verif.C33 Require Import Model Wrap.
Import ListNotations.
Local Open Scope Z_scope.

Record arith := {
  a_bits : Z;                 (* width of the integer type of offset, skip, j *)
  a_signed : bool;            (* int / int32 / int64: two's complement; uint32 / uint64 / uint: modulo 2^bits *)
  a_offset_reduced : bool;    (* offsetAndSKip returns offset % m *)
  a_skip_reduced : bool       (* offsetAndSKip returns skip % (m-1) + 1 *)
}.

(* conversion of a mathematical value to the type, and the result of an operation of that type *)
Definition conv (a : arith) (z : Z) : Z := if a_signed a then wrap (a_bits a) z else z mod 2 ^ (a_bits a).

(* r1, r2: the two uint32 hashes *)
Definition offset_and_skip_a (a : arith) (m r1 r2 : Z) : Z * Z :=
  let o := conv a r1 in
  let k := conv a r2 in
  ((if a_offset_reduced a then Z.rem o m else o),
   (if a_skip_reduced a then conv a (Z.rem k (conv a (m - 1)) + 1) else k)).

(* permutation[j] = (offset + (j * skip)) % m, every operation in the type *)
Definition perm_at_a (a : arith) (m off skip j : Z) : Z := Z.rem (conv a (off + conv a (j * skip))) m.

(* the preference list of one backend name, as the code with these types computes it *)
Definition permutation_a (a : arith) (bo : byte_order) (cpu : endian) (h1 h2 : hash_fn) (m : N) (name : bytes)
  : option (list Z) :=
  match hash_from_string bo cpu h1 [0%N] name, hash_from_string bo cpu h2 [10%N] name with
  | Some r1, Some r2 =>
      let '(off, skip) := offset_and_skip_a a (Z.of_N m) (Z.of_N r1) (Z.of_N r2) in
      Some (map (fun j => perm_at_a a (Z.of_N m) off skip (Z.of_N j)) (nseq 0 (N.to_nat m)))
  | _, _ => None
  end.

(* capacity of the type for non-negative values *)
Definition cap (a : arith) : Z := if a_signed a then 2 ^ (a_bits a - 1) else 2 ^ (a_bits a).

(* sufficient condition, decidable, for the typed arithmetic to coincide with the model's for every table size
   2 <= m <= mmax: both reductions present, a uint32 hash fits, and m*m fits. *)
Definition arith_ok_b (a : arith) (mmax : Z) : bool :=
  a_offset_reduced a && a_skip_reduced a && (0 <? a_bits a) && (2 ^ 32 <=? cap a) && (mmax * mmax <=? cap a).
