(* C33 — reflection lemmas for the translated prime table and size range: a finite, complete enumeration
   evaluated by vm_compute is turned into the quantified statement. *)
From Coq Require Import List NArith ZArith Arith Bool Lia Znumtheory.
From Verif.C33 Require Import Model Spec Arith.
Import ListNotations.
Open Scope N_scope.

Definition cfg_range (env : size_env) : list N := nseq (e_min env) (N.to_nat (e_max env + 1 - e_min env)).

Definition sizes_check (env : size_env) : bool :=
  let sz := lut_size (e_table env) (e_limit env) (e_factor env) in
  forallb (fun n => ok_size env n (sz n)) (cfg_range env).

Definition table_check (tbl : list N) : bool := forallb is_prime tbl.

Lemma sizes_check_sound env :
  sizes_check env = true ->
  forall n, e_min env <= n <= e_max env ->
  exists p, lut_size (e_table env) (e_limit env) (e_factor env) n = Sz p /\
            prime (Z.of_N p) /\ n * e_factor env <= p /\ p < 65536.
Proof.
  unfold sizes_check. cbv zeta. rewrite forallb_forall. intros H n Hn.
  assert (Hin : In n (cfg_range env)) by (apply in_nseq; lia).
  apply H in Hin. unfold ok_size in Hin.
  replace ((e_min env <=? n) && (n <=? e_max env)) with true in Hin
    by (symmetry; apply andb_true_iff; split; apply N.leb_le; lia).
  destruct (lut_size _ _ _ n) as [|p]; [discriminate|].
  apply andb_true_iff in Hin. destruct Hin as [Hin H3].
  apply andb_true_iff in Hin. destruct Hin as [H1 H2].
  exists p. split; auto. split; [now apply is_prime_correct|].
  apply N.leb_le in H2. apply N.ltb_lt in H3. lia.
Qed.

Lemma table_check_sound tbl :
  table_check tbl = true -> Forall (fun p => prime (Z.of_N p)) tbl.
Proof.
  unfold table_check. rewrite forallb_forall. intros H. apply Forall_forall.
  intros p Hp. apply is_prime_correct. auto.
Qed.
