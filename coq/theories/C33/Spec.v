(* C33 — specification level.  What the property text says about a generated lookup table, written
   without reference to how Generate fills it:
     complete   : the table has exactly m entries and every entry is one of the backends;
     balanced   : every backend owns between floor(m/D) and ceil(m/D) entries (D = number of distinct
                  backends), i.e. shares differ by at most one entry (the Maglev bound for this
                  round-robin fill);
     node-independent : the table (as a list of backend names) is the same whatever order the backends
                  were added in, and whatever the CPU's byte order is;
     sizes      : every configurable table size is a prime >= factor * maxEndpoints.
   The boolean oracle ok_case is applied to the implementation's own output. *)
From Coq Require Import List NArith ZArith Arith Bool FMapPositive.
From Verif.C33 Require Import Model Wrap ArithModel.
Import ListNotations.
Open Scope N_scope.

(* ---------- primality by trial division up to the square root ---------- *)
Definition is_prime (n : N) : bool :=
  (2 <=? n) && forallb (fun d => negb (n mod d =? 0)) (nseq 2 (N.to_nat (N.sqrt n - 1))).

(* ---------- observations ---------- *)
(* A table entry is reported as the index in the case's reference name list `c_names` of the first
   occurrence of the entry's name; `length c_names` stands for a nil entry, anything larger for a
   name that is not in the list. *)
Inductive obs :=
| ONil                      (* Generate returned nil *)
| OPanic                    (* Generate / AddBackend panicked *)
| OLut (l : list N).

Definition len {A} (l : list A) : N := N.of_nat (length l).

Fixpoint first_index (names : list bytes) (nm : bytes) : N :=
  match names with
  | [] => 0
  | x :: names' => if bytes_eqb x nm then 0 else N.succ (first_index names' nm)
  end.

(* indices of first occurrences = the distinct backends *)
Fixpoint distinct_from (seen : list bytes) (i : N) (names : list bytes) : list N :=
  match names with
  | [] => []
  | x :: names' =>
      if existsb (bytes_eqb x) seen then distinct_from seen (N.succ i) names'
      else i :: distinct_from (x :: seen) (N.succ i) names'
  end.
Definition distinct_idx (names : list bytes) : list N := distinct_from [] 0 names.

Fixpoint count (x : N) (l : list N) : N :=
  match l with
  | [] => 0
  | y :: l' => (if x =? y then 1 else 0) + count x l'
  end.

Definition complete (m : N) (d : list N) (l : list N) : bool :=
  (len l =? m) && forallb (fun e => existsb (N.eqb e) d) l.

Definition balanced (m : N) (d : list N) (l : list N) : bool :=
  let D := len d in
  forallb (fun b => let c := count b l in (m / D <=? c) && (c <=? (m + D - 1) / D)) d.

Definition ok_table (m : N) (names : list bytes) (o : obs) : bool :=
  let d := distinct_idx names in
  match o with
  | ONil => match d with [] => true | _ => false end
  | OPanic => false
  | OLut l => negb (len d =? 0) && complete m d l && balanced m d l
  end.

Fixpoint list_N_eqb (a b : list N) : bool :=
  match a, b with
  | [], [] => true
  | x :: a', y :: b' => N.eqb x y && list_N_eqb a' b'
  | _, _ => false
  end.

Definition obs_eqb (a b : obs) : bool :=
  match a, b with
  | ONil, ONil => true
  | OPanic, OPanic => true
  | OLut x, OLut y => list_N_eqb x y
  | _, _ => false
  end.

Fixpoint obs_list_eqb (a b : list obs) : bool :=
  match a, b with
  | [], [] => true
  | x :: a', y :: b' => obs_eqb x y && obs_list_eqb a' b'
  | _, _ => false
  end.

Definition all_equal (l : list obs) : bool :=
  match l with
  | [] => true
  | x :: l' => forallb (obs_eqb x) l'
  end.

(* ---------- the model's answer in the observation format ---------- *)
Definition model_obs_h (h1 h2 : hash_fn) (bo : byte_order) (cpu : endian) (m : N) (canon names : list bytes) : obs :=
  let sorted := sort_bks (add_all bo cpu h1 h2 m names) in
  match generate_sorted m sorted with
  | GNil => ONil
  | GPanic => OPanic
  | GLut l =>
      let im := map (fun b => first_index canon (fst b)) sorted in
      OLut (map (fun e => match e with
                          | None => len canon
                          | Some i => nth (N.to_nat i) im (N.succ (len canon))
                          end) l)
  end.

(* with the hash functions Felix configures (felix/bpf/proxy/syncer.go newConsistentHash) *)
Definition model_obs := model_obs_h fnv32 fnv32.

Definition other (e : endian) : endian := match e with LE => BE | BE => LE end.

(* ---------- correspondence cases ---------- *)
Record lut_case := {
  c_m : N;                       (* table size handed to New *)
  c_bo : byte_order;             (* byte-order identifier found in hashFromString's source by the translator *)
  c_cpu : endian;                (* byte order of the CPU the driver ran on *)
  c_names : list bytes;          (* reference list of backend names (may repeat) *)
  c_orders : list (list nat);    (* insertion orders tried: indices into c_names, each covering the same set *)
  c_obs : list obs;              (* implementation output for each order *)
  c_obs_be : list obs            (* implementation output when built against a big-endian binary.NativeEndian, if the harness could *)
}.

Definition apply_order (names : list bytes) (ord : list nat) : list bytes :=
  map (fun i => nth i names []) ord.

(* the model's tables: one per insertion order on this CPU, and the one for a CPU of the other byte order *)
Definition model_tables (c : lut_case) : list obs :=
  map (fun ord => model_obs (c_bo c) (c_cpu c) (c_m c) (c_names c) (apply_order (c_names c) ord)) (c_orders c).
Definition model_other_cpu (c : lut_case) : obs :=
  model_obs (c_bo c) (other (c_cpu c)) (c_m c) (c_names c) (c_names c).

Definition lut_agree_with (ms : list obs) (mo : obs) (c : lut_case) : bool :=
  obs_list_eqb ms (c_obs c) && forallb (obs_eqb mo) (c_obs_be c).
Definition lut_agree (c : lut_case) : bool := lut_agree_with (model_tables c) (model_other_cpu c) c.

(* The oracle.  Domain: prime table sizes (the only ones Felix configures; see c33_sizes_prime).
   complete + balanced + order-independent are judged on the implementation's own output (c_obs).
   The cross-CPU clause: the output of the same code on a CPU of the other byte order cannot be observed on this
   host unless the harness managed a big-endian build (c_obs_be, compared with the real output when present); it is
   otherwise predicted by the model with the byte-order identifier the source really names: the model's table for
   this CPU (first insertion order) must equal the model's table for the other CPU.  (The model is tied to the
   code on this host's byte order by the agreement half of check_case.) *)
Definition cross_cpu_ok (ms : list obs) (mo : obs) (c : lut_case) : bool :=
  match ms with [] => true | m0 :: _ => obs_eqb m0 mo end
  && match c_obs c with [] => true | o :: _ => forallb (obs_eqb o) (c_obs_be c) end.

Definition ok_lut_same_cpu (c : lut_case) : bool :=
  forallb (ok_table (c_m c) (c_names c)) (c_obs c) && all_equal (c_obs c).

Definition ok_lut_case (cross_cpu : bool) (c : lut_case) : bool :=
  if is_prime (c_m c) then
    ok_lut_same_cpu c && (negb cross_cpu || cross_cpu_ok (model_tables c) (model_other_cpu c) c)
  else true.

(* table sizes: pairs (BPFMaglevMaxEndpointsPerService, observed BPFLUTSizeMaglev()) *)
Record size_env := { e_table : list N; e_limit : N; e_factor : N; e_min : N; e_max : N }.

Definition size_eqb (a b : size_result) : bool :=
  match a, b with
  | SzPanic, SzPanic => true
  | Sz x, Sz y => x =? y
  | _, _ => false
  end.

Definition ok_size (env : size_env) (n : N) (r : size_result) : bool :=
  if (e_min env <=? n) && (n <=? e_max env) then
    match r with
    | SzPanic => false
    | Sz p => is_prime p && (n * e_factor env <=? p) && (p <? 65536)
    end
  else true.

(* one backend's preference list, observed through ConsistentHash.permutation *)
Inductive perm_obs :=
| PErr                      (* permutation returned an error *)
| PPanic
| PList (l : list Z).

Record perm_case := {
  p_m : N; p_bo : byte_order; p_cpu : endian;
  p_arith : arith;            (* integer types of the arithmetic, as found in the source by the translator *)
  p_name : bytes;
  p_obs : perm_obs
}.

(* Maglev's requirement on a preference list: it lists every slot 0..m-1 exactly once *)
Fixpoint mark_all (l : list Z) (seen : PositiveMap.t unit) (m : Z) : bool :=
  match l with
  | [] => true
  | z :: r =>
      if (0 <=? z)%Z && (z <? m)%Z then
        let k := key (Z.to_N z) in
        match PositiveMap.find k seen with
        | Some _ => false
        | None => mark_all r (PositiveMap.add k tt seen) m
        end
      else false
  end.
Definition is_perm_of_range (m : N) (l : list Z) : bool :=
  (len l =? m) && mark_all l (PositiveMap.empty unit) (Z.of_N m).

Fixpoint list_Z_eqb (a b : list Z) : bool :=
  match a, b with
  | [], [] => true
  | x :: a', y :: b' => Z.eqb x y && list_Z_eqb a' b'
  | _, _ => false
  end.

Definition perm_agree (p : perm_case) : bool :=
  match permutation_a (p_arith p) (p_bo p) (p_cpu p) fnv32 fnv32 (p_m p) (p_name p), p_obs p with
  | None, PErr => true
  | Some l, PList l' => list_Z_eqb l l'
  | _, _ => false
  end.

Definition ok_perm_case (p : perm_case) : bool :=
  if is_prime (p_m p) then
    match p_obs p with
    | PList l => is_perm_of_range (p_m p) l
    | _ => false
    end
  else true.

Inductive case :=
| CLut (c : lut_case)
| CSizes (l : list (N * size_result))
| CPerm (p : perm_case).

(* cross_cpu = false leaves out the byte-order clause; used only to classify a failing case *)
Definition check_case_with (cross_cpu : bool) (env : size_env) (c : case) : bool * bool :=
  match c with
  | CLut c =>
      (* the model tables are computed once and shared by both halves *)
      let ms := model_tables c in
      let mo := model_other_cpu c in
      (lut_agree_with ms mo c,
       if is_prime (c_m c) then ok_lut_same_cpu c && (negb cross_cpu || cross_cpu_ok ms mo c) else true)
  | CPerm p => (perm_agree p, ok_perm_case p)
  | CSizes l =>
      (let sz := lut_size (e_table env) (e_limit env) (e_factor env) in
       forallb (fun p => size_eqb (sz (fst p)) (snd p)) l,
       (* the effective value Felix ends up with is inside the configured range, and its size is fine *)
       forallb (fun p => (e_min env <=? fst p) && (fst p <=? e_max env) && ok_size env (fst p) (snd p)) l)
  end.

Definition check_case := check_case_with true.
(* oracle only (no model run), without the cross-CPU clause *)
Definition check_case_same_cpu (env : size_env) (c : case) : bool * bool :=
  match c with
  | CLut c => (true, ok_lut_case false c)
  | CSizes _ => (true, snd (check_case_with false env c))
  | CPerm p => (true, ok_perm_case p)
  end.
