(* C33 — when arith_ok_b holds, the typed arithmetic is exactly the model's (so every theorem over the model holds
   of the code with those types). *)
From Coq Require Import List NArith ZArith Bool Lia.
From Verif.C33 Require Import Model Wrap ArithModel.
Import ListNotations.
Local Open Scope Z_scope.

Lemma conv_id a z : 0 < a_bits a -> 0 <= z < cap a -> conv a z = z.
Proof.
  intros Hb Hz. unfold conv, cap in *. destruct (a_signed a).
  - apply wrap_id; auto. lia.
  - apply Z.mod_small. lia.
Qed.

Lemma arith_ok_sound a mmax :
  arith_ok_b a mmax = true ->
  forall m r1 r2 j : N, (2 <= m)%N -> Z.of_N m <= mmax -> (r1 < 2 ^ 32)%N -> (r2 < 2 ^ 32)%N -> (j < m)%N ->
    offset_and_skip_a a (Z.of_N m) (Z.of_N r1) (Z.of_N r2) = (Z.of_N (r1 mod m), Z.of_N (r2 mod (m - 1) + 1)) /\
    perm_at_a a (Z.of_N m) (Z.of_N (r1 mod m)) (Z.of_N (r2 mod (m - 1) + 1)) (Z.of_N j)
    = Z.of_N (perm_at m (r1 mod m) (r2 mod (m - 1) + 1) j).
Proof.
  unfold arith_ok_b. intros H m r1 r2 j Hm2 Hmax Hr1 Hr2 Hj.
  apply andb_true_iff in H. destruct H as [H H5]. apply andb_true_iff in H. destruct H as [H H4].
  apply andb_true_iff in H. destruct H as [H H3]. apply andb_true_iff in H. destruct H as [H1 H2].
  apply Z.ltb_lt in H3. apply Z.leb_le in H4. apply Z.leb_le in H5.
  assert (P32 : Z.of_N (2 ^ 32) = 2 ^ 32) by reflexivity.
  assert (Hmm : Z.of_N m * Z.of_N m <= cap a) by nia.
  assert (Hmc : Z.of_N m < cap a) by nia.
  split.
  - unfold offset_and_skip_a. rewrite H1, H2.
    rewrite (conv_id a (Z.of_N r1)) by lia. rewrite (conv_id a (Z.of_N r2)) by lia.
    rewrite (conv_id a (Z.of_N m - 1)) by lia.
    rewrite !Z.rem_mod_nonneg by lia.
    assert (Hk : 0 <= Z.of_N r2 mod (Z.of_N m - 1) < Z.of_N m - 1) by (apply Z.mod_pos_bound; lia).
    rewrite conv_id by lia.
    f_equal.
    + now rewrite N2Z.inj_mod.
    + rewrite N2Z.inj_add, N2Z.inj_mod, N2Z.inj_sub by lia. reflexivity.
  - unfold perm_at_a, perm_at.
    set (off := (r1 mod m)%N). set (skip := (r2 mod (m - 1) + 1)%N).
    assert (Ho : (off < m)%N) by (apply N.mod_lt; lia).
    assert (Hs : (skip < m)%N) by (unfold skip; pose proof (N.mod_lt r2 (m - 1)); lia).
    assert (B1 : 0 <= Z.of_N j * Z.of_N skip < cap a) by nia.
    rewrite (conv_id a (Z.of_N j * Z.of_N skip)) by lia.
    assert (B2 : 0 <= Z.of_N off + Z.of_N j * Z.of_N skip < cap a) by nia.
    rewrite conv_id by lia.
    rewrite Z.rem_mod_nonneg by lia.
    rewrite N2Z.inj_mod, N2Z.inj_add, N2Z.inj_mul. reflexivity.
Qed.

From Coq Require Import Znumtheory FinFun.
From Verif.C33 Require Import Spec Arith.
Local Open Scope Z_scope.

(* the whole preference list computed in the typed arithmetic is the model's permutation, hence (prime m) a
   duplicate-free listing of all slots *)
Lemma arith_ok_permutation a mmax :
  arith_ok_b a mmax = true ->
  forall m r1 r2 : N, prime (Z.of_N m) -> Z.of_N m <= mmax -> (r1 < 2 ^ 32)%N -> (r2 < 2 ^ 32)%N ->
    let '(off, skip) := offset_and_skip_a a (Z.of_N m) (Z.of_N r1) (Z.of_N r2) in
    map (fun j => perm_at_a a (Z.of_N m) off skip (Z.of_N j)) (nseq 0 (N.to_nat m))
    = map Z.of_N (permutation m (r1 mod m) (r2 mod (m - 1) + 1)) /\
    NoDup (map Z.of_N (permutation m (r1 mod m) (r2 mod (m - 1) + 1))).
Proof.
  intros Hok m r1 r2 Hp Hmax Hr1 Hr2.
  pose proof (Nprime_ge_2 _ Hp) as Hm2.
  destruct (arith_ok_sound a mmax Hok m r1 r2 0%N Hm2 Hmax Hr1 Hr2 ltac:(lia)) as [E _].
  rewrite E. split.
  - unfold permutation. rewrite map_map. apply map_ext_in. intros j Hj. apply in_nseq in Hj.
    apply (arith_ok_sound a mmax Hok m r1 r2 j); auto. lia.
  - apply Injective_map_NoDup; [intros x y; apply N2Z.inj|].
    apply permutation_NoDup; auto. pose proof (N.mod_lt r2 (m - 1)). lia.
Qed.
