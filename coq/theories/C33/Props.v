(* C33 — property theorems over the hand-written model (the theorems over the translated tables are in
   coq/gen/C33/*.v, re-checked against a Gen.v regenerated from the Go source on every run). *)
From Coq Require Import List NArith ZArith Arith Bool Znumtheory.
From Verif.C33 Require Import Model Spec Arith.
Import ListNotations.
Open Scope N_scope.

(* For a prime table size and 1 <= skip < m the preference list j -> (offset + j*skip) mod m is a bijection on [0,m). *)
Theorem c33_perm_bijective : forall m off skip,
  prime (Z.of_N m) -> 1 <= skip < m ->
  (forall j, perm_at m off skip j < m) /\
  (forall i j, i < m -> j < m -> perm_at m off skip i = perm_at m off skip j -> i = j) /\
  (forall s, s < m -> exists j, j < m /\ perm_at m off skip j = s) /\
  NoDup (permutation m off skip).
Proof. exact perm_bijective. Qed.
Print Assumptions c33_perm_bijective.

From Verif.C33 Require Import Fill Order Indep ByteOrder MeetsSpec Wrap ArithModel ArithProofs PermSpec.

(* For every prime table size, all hash functions, byte orders and lists of AddBackend calls: Generate neither
   runs off a preference list (no index panic) nor out of the modelled fuel; with no backend it returns nil,
   otherwise a table of exactly m entries each of which is one of the backends (no nil slot). *)
Theorem c33_terminates_full : forall bo cpu h1 h2 m names,
  prime (Z.of_N m) ->
  let bks := add_all bo cpu h1 h2 m names in
  match bks with
  | [] => generate m bks = GNil
  | _ => exists lst, generate m bks = GLut lst /\ length lst = N.to_nat m /\
                     forall e, In e lst -> exists v, e = Some v /\ v < len bks
  end.
Proof. exact terminates_full. Qed.
Print Assumptions c33_terminates_full.

(* Balance: with K distinct backends, backend number b (in sorted order) owns exactly
   floor(m/K) + (1 if b < m mod K) slots; hence any two shares differ by at most one slot, and every backend
   owns at least one slot whenever K <= m. *)
Theorem c33_balanced : forall bo cpu h1 h2 m names lst,
  prime (Z.of_N m) ->
  let bks := add_all bo cpu h1 h2 m names in
  let K := len bks in
  generate m bks = GLut lst ->
  (forall b, b < K -> cnt_list b lst = N.to_nat (m / K + (if b <? m mod K then 1 else 0))) /\
  (forall a b, a < K -> b < K -> (cnt_list a lst <= cnt_list b lst + 1)%nat) /\
  (K <= m -> forall b, b < K -> (1 <= cnt_list b lst)%nat).
Proof. exact balanced_shares. Qed.
Print Assumptions c33_balanced.

(* Node independence, order part: the table, as a list of backend names, depends only on the SET of backend names
   that were added (any order, any repetition), for every table size (prime or not) and all hash functions. *)
Theorem c33_order_independent : forall bo cpu h1 h2 m names1 names2,
  (forall x, In x names1 <-> In x names2) ->
  maglev bo cpu h1 h2 m names1 = maglev bo cpu h1 h2 m names2.
Proof. exact order_independent. Qed.
Print Assumptions c33_order_independent.

(* hypotheses are satisfiable: 7 is prime, and three pod addresses give a full, balanced table *)
Example c33_example :
  prime 7 /\ maglev BOLittle LE fnv32 fnv32 7 witness_names
             = TLut (map (fun i => nth_error witness_names i) [2; 1; 0; 0; 2; 0; 1]%nat).
Proof. split; [apply (is_prime_correct 7); vm_compute; reflexivity | vm_compute; reflexivity]. Qed.

(* The specification's table oracle accepts every table the model produces: for every prime size, all hash functions
   whose sums have at least four bytes (shorter sums make hashFromString fail and AddBackend ignore the backend),
   every byte order / CPU, every reference list `canon` and every list of AddBackend calls naming the same set:
   exactly m entries, every entry one of the distinct backends, every distinct backend between floor(m/D) and
   ceil(m/D) entries. *)
Theorem c33_model_meets_table : forall h1 h2,
  (forall bs, (4 <= length (h1 bs))%nat) -> (forall bs, (4 <= length (h2 bs))%nat) ->
  forall bo cpu m canon names,
    prime (Z.of_N m) -> (forall x, In x names <-> In x canon) ->
    ok_table m canon (model_obs_h h1 h2 bo cpu m canon names) = true.
Proof. exact model_meets_table. Qed.
Print Assumptions c33_model_meets_table.

(* The whole case-level oracle (complete, balanced, equal for all insertion orders, equal on both CPU byte orders)
   accepts every run of the model with a fixed byte order in the source, for every table size, name list and
   insertion orders covering the same names; both halves of check_case are true. *)
Theorem c33_model_meets_spec : forall env c,
  c_bo c <> BONative ->
  (forall ord, In ord (c_orders c) -> forall x, In x (apply_order (c_names c) ord) <-> In x (c_names c)) ->
  c_obs c = model_tables c ->
  (forall o, In o (c_obs_be c) -> o = model_other_cpu c) ->
  check_case env (CLut c) = (true, true).
Proof. exact model_meets_spec_case. Qed.
Print Assumptions c33_model_meets_spec.

(* Go's integer arithmetic: with a 64-bit two's-complement int and Go's truncated %, int(uint32 hash) % m,
   skip % (m-1) + 1 and (offset + j*skip) % m are exactly the model's N expressions for every table size
   2 <= m < 2^31 (general bounds: 2^32 <= 2^(bits-1) and m*m <= 2^(bits-1), lemmas go_offset_and_skip_exact and
   go_perm_at_exact), so every theorem above holds of the wrapped arithmetic for every size Felix configures
   (< 2^16 by c33_sizes_prime). *)
Theorem c33_go_int64_exact : forall m off skip j r1 r2 : N,
  2 <= m < 2 ^ 31 -> off < m -> skip < m -> j < m -> r1 < 2 ^ 32 -> r2 < 2 ^ 32 ->
  go_perm_at 64 (Z.of_N m) (Z.of_N off) (Z.of_N skip) (Z.of_N j) = Z.of_N (perm_at m off skip j) /\
  go_offset_and_skip 64 (Z.of_N r1) (Z.of_N r2) (Z.of_N m) = (Z.of_N (r1 mod m), Z.of_N (r2 mod (m - 1) + 1)).
Proof. exact go64_exact. Qed.
Print Assumptions c33_go_int64_exact.

(* ... and the bound is needed: with a 32-bit int a hash with the top bit set becomes a negative offset. *)
Theorem c33_go_int32_refuted :
  exists r1 r2 m, r1 < 2 ^ 32 /\ (fst (go_offset_and_skip 32 (Z.of_N r1) (Z.of_N r2) (Z.of_N m)) < 0)%Z.
Proof. exact go32_refuted. Qed.
Print Assumptions c33_go_int32_refuted.

(* Integer types as data: for ANY width/signedness/reduction description of the arithmetic in hashFromString /
   offsetAndSKip / permutation that passes the decidable test arith_ok_b (both reductions present, a uint32 fits,
   mmax*mmax fits), the typed computation equals the model's for every table size 2 <= m <= mmax.  The translator
   extracts the description from the Go source on every run; coq/gen/C33/PropsGenArith.v instantiates this with it
   (c33_source_arith_exact, c33_source_permutation_bijective) and stops compiling when the source's types allow
   wrap-around. *)
Theorem c33_typed_arith_exact : forall a mmax,
  arith_ok_b a mmax = true ->
  forall m r1 r2 j : N, 2 <= m -> (Z.of_N m <= mmax)%Z -> r1 < 2 ^ 32 -> r2 < 2 ^ 32 -> j < m ->
    offset_and_skip_a a (Z.of_N m) (Z.of_N r1) (Z.of_N r2) = (Z.of_N (r1 mod m), Z.of_N (r2 mod (m - 1) + 1)) /\
    perm_at_a a (Z.of_N m) (Z.of_N (r1 mod m)) (Z.of_N (r2 mod (m - 1) + 1)) (Z.of_N j)
    = Z.of_N (perm_at m (r1 mod m) (r2 mod (m - 1) + 1) j).
Proof. exact arith_ok_sound. Qed.
Print Assumptions c33_typed_arith_exact.

(* The preference-list oracle (every slot 0..m-1 exactly once) accepts the list the typed model computes, for every
   prime size up to 65535, every backend name and byte order, whenever the types pass arith_ok_b; both halves of
   check_case are true on such a case. *)
Theorem c33_perm_model_meets_spec : forall env p,
  arith_ok_b (p_arith p) 65535 = true -> p_m p <= 65535 ->
  p_obs p = match permutation_a (p_arith p) (p_bo p) (p_cpu p) fnv32 fnv32 (p_m p) (p_name p) with
            | Some l => PList l | None => PErr end ->
  check_case env (CPerm p) = (true, true).
Proof. exact perm_model_meets_spec. Qed.
Print Assumptions c33_perm_model_meets_spec.

(* ... and the test is not vacuous: uint32 arithmetic with an unreduced offset yields a preference list that is not
   a permutation (the seeded change uint32-permutation-wrap; found concretely by the directed generator). *)
Theorem c33_uint32_unreduced_refuted :
  exists (m r1 r2 : N), is_prime m = true /\ r1 < 2 ^ 32 /\ r2 < 2 ^ 32 /\
    let '(off, skip) := offset_and_skip_a uint32_unreduced (Z.of_N m) (Z.of_N r1) (Z.of_N r2) in
    is_perm_of_range m (map (fun j => perm_at_a uint32_unreduced (Z.of_N m) off skip (Z.of_N j)) (nseq 0 (N.to_nat m))) = false.
Proof. exact uint32_unreduced_refuted. Qed.
Print Assumptions c33_uint32_unreduced_refuted.
