(* C33 — property theorems over the hand-written model (the theorems over the translated tables are in
   coq/gen/C33/*.v, re-checked against a Gen.v regenerated from the Go source on every run). *)
From Coq Require Import List NArith ZArith Arith Bool Znumtheory.
From Verif.C33 Require Import Model Spec Arith.
Import ListNotations.
Open Scope N_scope.

(* For a prime table size and 1 <= skip < m the preference list j -> (offset + j*skip) mod m is a bijection on [0,m). *)
Theorem c33_perm_bijective : forall m off skip,
  prime (Z.of_N m) -> 1 <= skip < m ->
  (forall j, perm_at m off skip j < m) /\
  (forall i j, i < m -> j < m -> perm_at m off skip i = perm_at m off skip j -> i = j) /\
  (forall s, s < m -> exists j, j < m /\ perm_at m off skip j = s) /\
  NoDup (permutation m off skip).
Proof. exact perm_bijective. Qed.
Print Assumptions c33_perm_bijective.

From Verif.C33 Require Import Fill Order Indep ByteOrder.

(* For every prime table size, all hash functions, byte orders and lists of AddBackend calls: Generate neither
   runs off a preference list (no index panic) nor out of the modelled fuel; with no backend it returns nil,
   otherwise a table of exactly m entries each of which is one of the backends (no nil slot). *)
Theorem c33_terminates_full : forall bo cpu h1 h2 m names,
  prime (Z.of_N m) ->
  let bks := add_all bo cpu h1 h2 m names in
  match bks with
  | [] => generate m bks = GNil
  | _ => exists lst, generate m bks = GLut lst /\ length lst = N.to_nat m /\
                     forall e, In e lst -> exists v, e = Some v /\ v < len bks
  end.
Proof. exact terminates_full. Qed.
Print Assumptions c33_terminates_full.

(* Balance: with K distinct backends, backend number b (in sorted order) owns exactly
   floor(m/K) + (1 if b < m mod K) slots; hence any two shares differ by at most one slot, and every backend
   owns at least one slot whenever K <= m. *)
Theorem c33_balanced : forall bo cpu h1 h2 m names lst,
  prime (Z.of_N m) ->
  let bks := add_all bo cpu h1 h2 m names in
  let K := len bks in
  generate m bks = GLut lst ->
  (forall b, b < K -> cnt_list b lst = N.to_nat (m / K + (if b <? m mod K then 1 else 0))) /\
  (forall a b, a < K -> b < K -> (cnt_list a lst <= cnt_list b lst + 1)%nat) /\
  (K <= m -> forall b, b < K -> (1 <= cnt_list b lst)%nat).
Proof. exact balanced_shares. Qed.
Print Assumptions c33_balanced.

(* Node independence, order part: the table, as a list of backend names, depends only on the SET of backend names
   that were added (any order, any repetition), for every table size (prime or not) and all hash functions. *)
Theorem c33_order_independent : forall bo cpu h1 h2 m names1 names2,
  (forall x, In x names1 <-> In x names2) ->
  maglev bo cpu h1 h2 m names1 = maglev bo cpu h1 h2 m names2.
Proof. exact order_independent. Qed.
Print Assumptions c33_order_independent.

(* hypotheses are satisfiable: 7 is prime, and three pod addresses give a full, balanced table *)
Example c33_example :
  prime 7 /\ maglev BOLittle LE fnv32 fnv32 7 witness_names
             = TLut (map (fun i => nth_error witness_names i) [2; 1; 0; 0; 2; 0; 1]%nat).
Proof. split; [apply (is_prime_correct 7); vm_compute; reflexivity | vm_compute; reflexivity]. Qed.
