(* C33 — property theorems over the hand-written model (the theorems over the translated tables are in
   coq/gen/C33/*.v, re-checked against a Gen.v regenerated from the Go source on every run). *)
From Coq Require Import List NArith ZArith Arith Bool Znumtheory.
From Verif.C33 Require Import Model Spec Arith.
Import ListNotations.
Open Scope N_scope.

(* For a prime table size and 1 <= skip < m the preference list j -> (offset + j*skip) mod m is a bijection on [0,m). *)
Theorem c33_perm_bijective : forall m off skip,
  prime (Z.of_N m) -> 1 <= skip < m ->
  (forall j, perm_at m off skip j < m) /\
  (forall i j, i < m -> j < m -> perm_at m off skip i = perm_at m off skip j -> i = j) /\
  (forall s, s < m -> exists j, j < m /\ perm_at m off skip j = s) /\
  NoDup (permutation m off skip).
Proof. exact perm_bijective. Qed.
Print Assumptions c33_perm_bijective.
