(* C33 — AddBackend / slices.Sort bookkeeping: skips are in range, sorting is a permutation; the table does not
   depend on the order in which the backends were added. *)
From Coq Require Import List NArith ZArith Arith Bool Lia Znumtheory Permutation.
From Coq Require Import ZifyN ZifyNat ZifyBool.
From Verif.C33 Require Import Model Spec Arith Fill.
Import ListNotations.
Open Scope N_scope.

Lemma offset_and_skip_range bo cpu h1 h2 m s o k :
  2 <= m -> offset_and_skip bo cpu h1 h2 m s = Some (o, k) -> 1 <= k < m.
Proof.
  unfold offset_and_skip. intros Hm H.
  destruct (hash_from_string bo cpu h1 [0] s); [|discriminate].
  destruct (hash_from_string bo cpu h2 [10] s) as [x|]; [|discriminate].
  inversion H; subst. pose proof (N.mod_lt x (m - 1)). lia.
Qed.

Lemma add_all_skips bo cpu h1 h2 m names :
  2 <= m -> Forall (fun b : bk => 1 <= snd (snd b) < m) (add_all bo cpu h1 h2 m names).
Proof.
  intros Hm. unfold add_all.
  assert (G : forall acc, Forall (fun b : bk => 1 <= snd (snd b) < m) acc ->
              Forall (fun b : bk => 1 <= snd (snd b) < m) (fold_left (add_backend bo cpu h1 h2 m) names acc)).
  { induction names as [|nm names IH]; intros acc Hacc; simpl; auto.
    apply IH. unfold add_backend. destruct (has_name acc nm); auto.
    destruct (offset_and_skip bo cpu h1 h2 m nm) as [[o k]|] eqn:E; auto.
    apply Forall_app. split; auto. constructor; auto. simpl.
    eapply offset_and_skip_range; eauto. }
  apply G. constructor.
Qed.

Lemma insert_bk_perm x l : Permutation (insert_bk x l) (x :: l).
Proof.
  induction l as [|y l IH]; simpl; auto.
  destruct (bytes_leb (fst x) (fst y)); auto.
  eapply perm_trans; [apply perm_skip; exact IH|apply perm_swap].
Qed.

Lemma sort_bks_perm l : Permutation (sort_bks l) l.
Proof.
  induction l as [|x l IH]; simpl; auto.
  eapply perm_trans; [apply insert_bk_perm|]. now apply perm_skip.
Qed.

Lemma sort_bks_len l : len (sort_bks l) = len l.
Proof. unfold len. now rewrite (Permutation_length (sort_bks_perm l)). Qed.

(* Generate (sort + fill) on whatever AddBackend accumulated *)
Lemma generate_ok bo cpu h1 h2 m names :
  Nprime m ->
  let bks := add_all bo cpu h1 h2 m names in
  match bks with
  | [] => generate m bks = GNil
  | _ => exists lst, generate m bks = GLut lst /\ length lst = N.to_nat m /\
                     (forall e, In e lst -> exists v, e = Some v /\ v < len bks) /\
                     shares_ok m (len bks) lst
  end.
Proof.
  intros Hp bks. pose proof (Nprime_ge_2 _ Hp) as H2.
  destruct bks as [|b0 rest] eqn:Eb; [reflexivity|]. rewrite <- Eb.
  unfold generate. rewrite <- (sort_bks_len bks).
  apply generate_sorted_ok; auto.
  - intros E. pose proof (Permutation_length (sort_bks_perm bks)) as HL.
    rewrite E, Eb in HL. simpl in HL. lia.
  - eapply Permutation_Forall; [apply Permutation_sym, sort_bks_perm|].
    unfold bks. now apply add_all_skips.
Qed.

(* shares differ by at most one, nobody is left out when there are at most m backends *)
Lemma shares_differ_by_one m K lst :
  shares_ok m K lst ->
  forall a b, a < K -> b < K -> (cnt_list a lst <= cnt_list b lst + 1)%nat.
Proof.
  intros [q [i [Hm [Hi H]]]] a b Ha Hb. rewrite (H a Ha), (H b Hb).
  destruct (a <? i); destruct (b <? i); lia.
Qed.

Lemma shares_positive m K lst :
  shares_ok m K lst -> K <= m -> forall b, b < K -> (1 <= cnt_list b lst)%nat.
Proof.
  intros [q [i [Hm [Hi H]]]] HK b Hb. rewrite (H b Hb).
  destruct (b <? i) eqn:E; [lia|]. apply N.ltb_ge in E.
  assert (q <> 0) by (intros ->; lia). lia.
Qed.

(* the closed form: floor(m/K) slots each, the first (m mod K) backends in sorted order one more *)
Lemma shares_closed_form m K lst :
  shares_ok m K lst -> forall b, b < K ->
  cnt_list b lst = N.to_nat (m / K + (if b <? m mod K then 1 else 0)).
Proof.
  intros [q [i [Hm [Hi H]]]] b Hb. rewrite (H b Hb). f_equal.
  destruct (N.eq_dec i K) as [->|Hne].
  - assert (E1 : m / K = q + 1) by (symmetry; apply (N.div_unique m K (q + 1) 0); lia).
    assert (E2 : m mod K = 0) by (symmetry; apply (N.mod_unique m K (q + 1) 0); lia).
    rewrite E1, E2.
    replace (b <? K) with true by (symmetry; apply N.ltb_lt; lia).
    replace (b <? 0) with false by (symmetry; apply N.ltb_ge; lia). lia.
  - assert (E1 : m / K = q) by (symmetry; apply (N.div_unique m K q i); lia).
    assert (E2 : m mod K = i) by (symmetry; apply (N.mod_unique m K q i); lia).
    now rewrite E1, E2.
Qed.

(* ---------- the statements used in Props.v ---------- *)

(* For every prime table size, every hash functions, byte order and list of AddBackend calls: Generate neither
   runs off a preference list (no index panic) nor out of the modelled fuel; with no backend it returns nil,
   otherwise a table of exactly m entries each of which is one of the backends (no nil slot). *)
Lemma terminates_full : forall bo cpu h1 h2 m names,
  prime (Z.of_N m) ->
  let bks := add_all bo cpu h1 h2 m names in
  match bks with
  | [] => generate m bks = GNil
  | _ => exists lst, generate m bks = GLut lst /\ length lst = N.to_nat m /\
                     forall e, In e lst -> exists v, e = Some v /\ v < len bks
  end.
Proof.
  intros bo cpu h1 h2 m names Hp. pose proof (generate_ok bo cpu h1 h2 m names Hp) as H.
  cbv zeta in *. destruct (add_all bo cpu h1 h2 m names); auto.
  destruct H as [lst [H1 [H2 [H3 _]]]]. exists lst. auto.
Qed.

(* Balance: with K distinct backends, backend number b (in sorted order) owns exactly
   floor(m/K) + (1 if b < m mod K) slots; hence any two shares differ by at most one slot, and every backend
   owns at least one slot whenever K <= m. *)
Lemma balanced_shares : forall bo cpu h1 h2 m names lst,
  prime (Z.of_N m) ->
  let bks := add_all bo cpu h1 h2 m names in
  let K := len bks in
  generate m bks = GLut lst ->
  (forall b, b < K -> cnt_list b lst = N.to_nat (m / K + (if b <? m mod K then 1 else 0))) /\
  (forall a b, a < K -> b < K -> (cnt_list a lst <= cnt_list b lst + 1)%nat) /\
  (K <= m -> forall b, b < K -> (1 <= cnt_list b lst)%nat).
Proof.
  intros bo cpu h1 h2 m names lst Hp bks K Hg.
  pose proof (generate_ok bo cpu h1 h2 m names Hp) as H. cbv zeta in H. fold bks in H.
  destruct bks as [|b0 rest] eqn:Eb.
  - rewrite Hg in H. discriminate.
  - destruct H as [lst' [H1 [_ [_ H4]]]]. rewrite Hg in H1. inversion H1; subst lst'.
    split; [|split].
    + now apply shares_closed_form.
    + now apply (shares_differ_by_one m K).
    + now apply (shares_positive m K).
Qed.
