(* C33 — the generated table does not depend on the order (or multiplicity) in which backends were added. *)
From Coq Require Import List NArith ZArith Arith Bool Lia Permutation Sorted.
From Coq Require Import ZifyN ZifyNat ZifyBool.
From Verif.C33 Require Import Model Spec Arith Fill Order.
Import ListNotations.
Open Scope N_scope.

(* ---------- Go's string order ---------- *)
Lemma bytes_eqb_eq a b : bytes_eqb a b = true <-> a = b.
Proof.
  revert b; induction a as [|x a IH]; destruct b as [|y b]; simpl; split; intros H; try discriminate; auto.
  - apply andb_true_iff in H. destruct H as [H1 H2]. apply N.eqb_eq in H1. apply IH in H2. congruence.
  - inversion H; subst. rewrite N.eqb_refl. simpl. now apply IH.
Qed.

Lemma bytes_leb_total a b : bytes_leb a b = false -> bytes_leb b a = true.
Proof.
  revert b; induction a as [|x a IH]; destruct b as [|y b]; simpl; intros H; auto; try discriminate.
  destruct (x <? y) eqn:E1; [discriminate|]. destruct (y <? x) eqn:E2; auto.
Qed.

Lemma bytes_leb_antisym a b : bytes_leb a b = true -> bytes_leb b a = true -> a = b.
Proof.
  revert b; induction a as [|x a IH]; destruct b as [|y b]; simpl; intros H1 H2; auto; try discriminate.
  destruct (x <? y) eqn:E1; destruct (y <? x) eqn:E2; try discriminate; try lia.
  assert (x = y) by lia. subst. f_equal. auto.
Qed.

Lemma bytes_leb_trans a b c : bytes_leb a b = true -> bytes_leb b c = true -> bytes_leb a c = true.
Proof.
  revert b c; induction a as [|x a IH]; destruct b as [|y b]; destruct c as [|z c]; simpl; intros H1 H2; auto; try discriminate.
  destruct (x <? y) eqn:E1; destruct (y <? z) eqn:E2; destruct (x <? z) eqn:E3; auto; try lia.
  - destruct (z <? y) eqn:E4; [discriminate|]. lia.
  - destruct (y <? x) eqn:E4; [discriminate|]. lia.
  - destruct (y <? x) eqn:E4; [discriminate|]. destruct (z <? y) eqn:E5; [discriminate|].
    assert (x = y) by lia. assert (y = z) by lia. subst.
    rewrite N.ltb_irrefl. eauto.
Qed.

(* ---------- sorting ---------- *)
Definition kle (a b : bk) : Prop := bytes_leb (fst a) (fst b) = true.

Lemma insert_bk_sorted x l : StronglySorted kle l -> StronglySorted kle (insert_bk x l).
Proof.
  induction l as [|y l IH]; intros S; simpl.
  - constructor; constructor.
  - inversion S as [|? ? S' F]; subst.
    destruct (bytes_leb (fst x) (fst y)) eqn:E.
    + constructor; auto. constructor; auto.
      eapply Forall_impl; [|exact F]. intros z Hz. unfold kle in *. eapply bytes_leb_trans; eauto.
    + constructor; auto.
      eapply Permutation_Forall; [apply Permutation_sym, insert_bk_perm|].
      constructor; auto. unfold kle. now apply bytes_leb_total.
Qed.

Lemma sort_bks_sorted l : StronglySorted kle (sort_bks l).
Proof. induction l; simpl; [constructor|]. now apply insert_bk_sorted. Qed.

Lemma sorted_perm_unique (l1 l2 : list bk) :
  StronglySorted kle l1 -> StronglySorted kle l2 -> Permutation l1 l2 -> NoDup (map fst l1) -> l1 = l2.
Proof.
  revert l2; induction l1 as [|a l1 IH]; intros l2 S1 S2 P ND.
  - apply Permutation_nil in P. auto.
  - destruct l2 as [|b l2]; [apply Permutation_sym, Permutation_nil in P; discriminate|].
    inversion S1 as [|? ? S1' F1]; subst. inversion S2 as [|? ? S2' F2]; subst.
    assert (Hab : a = b).
    { assert (Ia : In a (b :: l2)) by (eapply Permutation_in; eauto; simpl; auto).
      assert (Ib : In b (a :: l1)) by (eapply Permutation_in; [apply Permutation_sym; eauto|simpl; auto]).
      destruct Ia as [->|Ia]; auto. destruct Ib as [->|Ib]; auto.
      rewrite Forall_forall in F1, F2.
      pose proof (F1 b Ib) as L1. pose proof (F2 a Ia) as L2.
      assert (Ek : fst a = fst b) by (apply bytes_leb_antisym; auto).
      simpl in ND. inversion ND as [|? ? Hn _]; subst. exfalso. apply Hn.
      rewrite Ek. now apply in_map. }
    subst b. f_equal. apply IH; auto.
    + eapply Permutation_cons_inv; eauto.
    + simpl in ND. now inversion ND.
Qed.

Lemma sort_bks_unique l1 l2 :
  Permutation l1 l2 -> NoDup (map fst l1) -> sort_bks l1 = sort_bks l2.
Proof.
  intros P ND. apply sorted_perm_unique; try apply sort_bks_sorted.
  - eapply perm_trans; [apply sort_bks_perm|]. eapply perm_trans; [exact P|]. apply Permutation_sym, sort_bks_perm.
  - eapply Permutation_NoDup; [|exact ND]. apply Permutation_map. apply Permutation_sym, sort_bks_perm.
Qed.

(* ---------- what AddBackend accumulates ---------- *)
Lemma has_name_in acc nm : has_name acc nm = true <-> In nm (map fst acc).
Proof.
  unfold has_name. rewrite existsb_exists. split.
  - intros [b [Hb E]]. apply bytes_eqb_eq in E. subst. now apply in_map.
  - intros H. apply in_map_iff in H. destruct H as [b [E Hb]]. exists b. split; auto. apply bytes_eqb_eq. auto.
Qed.

Section Acc.
  Variables (bo : byte_order) (cpu : endian) (h1 h2 : hash_fn) (m : N).
  Let f := offset_and_skip bo cpu h1 h2 m.

  Definition acc_ok (acc : list bk) : Prop :=
    NoDup (map fst acc) /\ forall nm os, In (nm, os) acc -> f nm = Some os.

  Lemma add_backend_spec acc nm0 :
    acc_ok acc ->
    acc_ok (add_backend bo cpu h1 h2 m acc nm0) /\
    forall nm os, In (nm, os) (add_backend bo cpu h1 h2 m acc nm0) <-> In (nm, os) acc \/ (nm = nm0 /\ f nm0 = Some os).
  Proof.
    intros [ND Hf]. unfold add_backend. fold f.
    destruct (has_name acc nm0) eqn:Eh.
    - split; [split; auto|]. intros nm os. split; auto.
      intros [H|[-> H]]; auto.
      apply has_name_in in Eh. apply in_map_iff in Eh. destruct Eh as [[nm' os'] [E Hin]]. simpl in E. subst nm'.
      pose proof (Hf _ _ Hin) as H'. rewrite H in H'. inversion H'; subst. auto.
    - assert (Hnot : ~ In nm0 (map fst acc)) by (intros H; apply has_name_in in H; congruence).
      destruct (f nm0) as [os0|] eqn:Ef.
      + split; [split|].
        * eapply Permutation_NoDup; [apply Permutation_map, Permutation_cons_append|].
          simpl. constructor; auto.
        * intros nm os H. apply in_app_iff in H. destruct H as [H|[H|[]]]; auto. inversion H; subst. auto.
        * intros nm os. rewrite in_app_iff. simpl. split.
          -- intros [H|[H|[]]]; auto. inversion H; subst. auto.
          -- intros [H|[-> H]]; auto. inversion H; subst. auto.
      + split; [split; auto|]. intros nm os. split; auto. intros [H|[-> H]]; auto. discriminate.
  Qed.

  Lemma fold_add_spec names : forall acc,
    acc_ok acc ->
    acc_ok (fold_left (add_backend bo cpu h1 h2 m) names acc) /\
    forall nm os, In (nm, os) (fold_left (add_backend bo cpu h1 h2 m) names acc)
                  <-> In (nm, os) acc \/ (In nm names /\ f nm = Some os).
  Proof.
    induction names as [|nm0 names IH]; intros acc Hacc; simpl.
    - split; auto. intros nm os. split; auto. intros [H|[[] _]]; auto.
    - destruct (add_backend_spec acc nm0 Hacc) as [H1 H2].
      destruct (IH _ H1) as [H3 H4]. split; auto.
      intros nm os. rewrite H4, H2. split.
      + intros [[H|[-> H]]|[H H']]; auto.
      + intros [H|[[->|H] H']]; auto.
  Qed.

  Lemma add_all_spec names :
    acc_ok (add_all bo cpu h1 h2 m names) /\
    forall nm os, In (nm, os) (add_all bo cpu h1 h2 m names) <-> (In nm names /\ f nm = Some os).
  Proof.
    unfold add_all. destruct (fold_add_spec names []) as [H1 H2].
    - split; [constructor|]. intros ? ? [].
    - split; auto. intros nm os. rewrite H2. split; [intros [[]|H]; auto|auto].
  Qed.

  (* The sorted backend list depends only on the SET of names that were added. *)
  Lemma sorted_backends_independent names1 names2 :
    (forall x, In x names1 <-> In x names2) ->
    sort_bks (add_all bo cpu h1 h2 m names1) = sort_bks (add_all bo cpu h1 h2 m names2).
  Proof.
    intros Hset.
    destruct (add_all_spec names1) as [[ND1 _] M1]. destruct (add_all_spec names2) as [[ND2 _] M2].
    apply sort_bks_unique; auto.
    apply NoDup_Permutation.
    - eapply NoDup_map_inv; eauto.
    - eapply NoDup_map_inv; eauto.
    - intros [nm os]. rewrite M1, M2, Hset. tauto.
  Qed.

  (* The table (as backend names) depends only on the SET of names that were added. *)
  Lemma order_independent names1 names2 :
    (forall x, In x names1 <-> In x names2) ->
    maglev bo cpu h1 h2 m names1 = maglev bo cpu h1 h2 m names2.
  Proof.
    intros Hset. unfold maglev. now rewrite (sorted_backends_independent names1 names2 Hset).
  Qed.
End Acc.
