(* C33 — number theory: the Maglev permutation j -> (off + j*skip) mod m is a bijection on [0,m) for prime m,
   and correctness of the trial-division primality test used by the oracle and by the translated prime table. *)
From Coq Require Import List NArith ZArith Arith Bool Lia Znumtheory.
From Coq Require Import ZifyN ZifyNat ZifyBool.
From Verif.C33 Require Import Model Spec.
Import ListNotations.
Open Scope N_scope.

Definition Nprime (m : N) : Prop := prime (Z.of_N m).

Lemma Nprime_ge_2 m : Nprime m -> 2 <= m.
Proof. intros H. destruct H as [H _]. lia. Qed.

(* ---------- nseq ---------- *)
Lemma nseq_length s n : length (nseq s n) = n.
Proof. revert s; induction n; intros; simpl; auto. Qed.

Lemma in_nseq x s n : In x (nseq s n) <-> s <= x < s + N.of_nat n.
Proof.
  revert s; induction n; intros s; simpl.
  - lia.
  - rewrite IHn. lia.
Qed.

Lemma nseq_NoDup s n : NoDup (nseq s n).
Proof.
  revert s; induction n; intros s; simpl; constructor; auto.
  rewrite in_nseq. lia.
Qed.

Lemma nth_nseq d s n i : (i < n)%nat -> nth i (nseq s n) d = s + N.of_nat i.
Proof.
  revert s i; induction n; intros s i Hi; [lia|].
  destruct i; simpl.
  - lia.
  - rewrite IHn by lia. lia.
Qed.

(* ---------- the permutation ---------- *)
Lemma perm_at_lt m off skip j : 0 < m -> perm_at m off skip j < m.
Proof. intros. unfold perm_at. apply N.mod_lt. lia. Qed.

Lemma perm_at_inj m off skip i j :
  Nprime m -> 1 <= skip < m -> i < m -> j < m ->
  perm_at m off skip i = perm_at m off skip j -> i = j.
Proof.
  intros Hp Hs Hi Hj E. unfold perm_at in E.
  assert (Hm : (0 < Z.of_N m)%Z) by (pose proof (Nprime_ge_2 _ Hp); lia).
  assert (E' : ((Z.of_N off + Z.of_N i * Z.of_N skip) mod Z.of_N m
                = (Z.of_N off + Z.of_N j * Z.of_N skip) mod Z.of_N m)%Z).
  { rewrite <- !N2Z.inj_mul, <- !N2Z.inj_add, <- !N2Z.inj_mod. now rewrite E. }
  (* m | (i - j) * skip *)
  assert (D : (Z.of_N m | (Z.of_N i - Z.of_N j) * Z.of_N skip)%Z).
  { apply Z.mod_divide; [lia|].
    replace ((Z.of_N i - Z.of_N j) * Z.of_N skip)%Z
      with ((Z.of_N off + Z.of_N i * Z.of_N skip) - (Z.of_N off + Z.of_N j * Z.of_N skip))%Z by ring.
    rewrite Zminus_mod, E', Z.sub_diag. apply Z.mod_0_l. lia. }
  assert (R : rel_prime (Z.of_N m) (Z.of_N skip)).
  { apply rel_prime_sym. apply rel_prime_le_prime; auto. lia. }
  rewrite Z.mul_comm in D.
  apply Gauss in D; auto.
  destruct D as [k Hk].
  assert (k = 0%Z) by nia.
  subst k. lia.
Qed.

Lemma permutation_length m off skip : length (permutation m off skip) = N.to_nat m.
Proof. unfold permutation. now rewrite map_length, nseq_length. Qed.

Lemma permutation_nth m off skip j d :
  j < m -> nth (N.to_nat j) (permutation m off skip) d = perm_at m off skip j.
Proof.
  intros Hj. unfold permutation.
  rewrite (nth_indep _ d (perm_at m off skip 0)) by (rewrite map_length, nseq_length; lia).
  rewrite map_nth, nth_nseq by lia. f_equal. lia.
Qed.

Lemma permutation_NoDup m off skip :
  Nprime m -> 1 <= skip < m -> NoDup (permutation m off skip).
Proof.
  intros Hp Hs. unfold permutation.
  assert (G : forall l, NoDup l -> (forall x, In x l -> x < m) -> NoDup (map (perm_at m off skip) l)).
  { induction l as [|a l IH]; intros ND Hl; simpl; constructor.
    - intros HI. apply in_map_iff in HI. destruct HI as [b [Eb Hb]].
      inversion ND; subst.
      assert (b = a) by (eapply perm_at_inj; eauto; apply Hl; simpl; auto).
      subst; contradiction.
    - inversion ND; subst. apply IH; auto. intros; apply Hl; simpl; auto. }
  apply G. apply nseq_NoDup. intros x Hx. apply in_nseq in Hx. lia.
Qed.

Lemma perm_at_surj m off skip s :
  Nprime m -> 1 <= skip < m -> s < m -> exists j, j < m /\ perm_at m off skip j = s.
Proof.
  intros Hp Hs Hlt.
  pose proof (Nprime_ge_2 _ Hp) as H2.
  assert (I : incl (nseq 0 (N.to_nat m)) (permutation m off skip)).
  { apply NoDup_length_incl.
    - now apply permutation_NoDup.
    - rewrite permutation_length, nseq_length. lia.
    - intros x Hx. unfold permutation in Hx. apply in_map_iff in Hx.
      destruct Hx as [j [Ej _]]. subst x. apply in_nseq.
      pose proof (perm_at_lt m off skip j). lia. }
  assert (Hin : In s (nseq 0 (N.to_nat m))) by (apply in_nseq; lia).
  apply I in Hin. unfold permutation in Hin. apply in_map_iff in Hin.
  destruct Hin as [j [Ej Hj]]. exists j. apply in_nseq in Hj. split; [lia|auto].
Qed.

(* ---------- trial division ---------- *)
Lemma is_prime_correct n : is_prime n = true -> Nprime n.
Proof.
  unfold is_prime. intros H. apply andb_true_iff in H. destruct H as [H2 Hall].
  apply N.leb_le in H2.
  rewrite forallb_forall in Hall.
  apply prime_alt. split; [lia|].
  intros d Hd [k Hk].
  (* n = k * d with 1 < d < n, so 1 < k < n too; the smaller of the two is <= sqrt n *)
  assert (Hk1 : (1 < k < Z.of_N n)%Z) by nia.
  pose proof (N.sqrt_spec n ltac:(lia)) as [Hs1 Hs2].
  set (s := N.sqrt n) in *.
  assert (Hsmall : exists a b, (Z.of_N n = a * b /\ 1 < a /\ a <= Z.of_N s)%Z).
  { destruct (Z.le_gt_cases d k).
    - exists d, k. split; [lia|]. split; [lia|]. nia.
    - exists k, d. split; [lia|]. split; [lia|]. nia. }
  destruct Hsmall as [a [b [Eab [Ha1 Ha2]]]].
  assert (Hin : In (Z.to_N a) (nseq 2 (N.to_nat (s - 1)))) by (apply in_nseq; lia).
  apply Hall in Hin. apply negb_true_iff in Hin. apply N.eqb_neq in Hin.
  apply Hin.
  assert (Ea : Z.of_N (n mod Z.to_N a) = 0%Z).
  { rewrite N2Z.inj_mod, Z2N.id by lia. rewrite Eab, Z.mul_comm. apply Z_mod_mult. }
  lia.
Qed.

Lemma perm_bijective : forall m off skip,
  prime (Z.of_N m) -> 1 <= skip < m ->
  (forall j, perm_at m off skip j < m) /\
  (forall i j, i < m -> j < m -> perm_at m off skip i = perm_at m off skip j -> i = j) /\
  (forall s, s < m -> exists j, j < m /\ perm_at m off skip j = s) /\
  NoDup (permutation m off skip).
Proof.
  intros m off skip Hp Hs. pose proof (Nprime_ge_2 _ Hp).
  split; [intros; apply perm_at_lt; lia|].
  split; [intros; eapply perm_at_inj; eauto|].
  split; [intros; apply perm_at_surj; auto|].
  now apply permutation_NoDup.
Qed.
