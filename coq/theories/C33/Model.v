(* C33 — executable model of felix/bpf/consistenthash/consistenthash.go (ConsistentHash:
   New / AddBackend / Generate / permutation / offsetAndSKip / hashFromString), of hash/fnv New32 as
   configured by felix/bpf/proxy/syncer.go newConsistentHash, and of
   libcalico-go/lib/consistenthash NextPrimeUint16 + felix/config BPFLUTSizeMaglev.
   Hand-written; tied to the Go code by the correspondence run (harness/C33).  Definitions only.

   Go `int` is 64 bit; every quantity here is < 2^32 * 2^16 so no wrap-around is modelled.
   Strings are lists of bytes (N < 256).  The hash functions are parameters (hash_fn); the byte order
   named in the source (binary.NativeEndian / LittleEndian / BigEndian) and the CPU's byte order are
   explicit parameters. *)
From Coq Require Import List NArith Arith Bool FMapPositive.
Import ListNotations.
Open Scope N_scope.

Definition bytes := list N.

(* ---------- byte order ---------- *)
Inductive endian := LE | BE.
Inductive byte_order := BOLittle | BOBig | BONative.   (* identifier used in hashFromString *)

Definition resolve (bo : byte_order) (cpu : endian) : endian :=
  match bo with BOLittle => LE | BOBig => BE | BONative => cpu end.

(* binary.Read(reader, order, &uint32): first four bytes; error (None) when fewer are available *)
Definition decode32 (e : endian) (bs : bytes) : option N :=
  match bs with
  | b0 :: b1 :: b2 :: b3 :: _ =>
      Some (match e with
            | LE => b0 + 256 * (b1 + 256 * (b2 + 256 * b3))
            | BE => b3 + 256 * (b2 + 256 * (b1 + 256 * b0))
            end)
  | _ => None
  end.

(* ---------- hashes ---------- *)
(* a hash.Hash after Reset; Write(seed); Write(s); Sum(nil)  is a function of seed ++ s *)
Definition hash_fn := bytes -> bytes.

(* hash/fnv New32 (FNV-1: multiply, then xor); Sum appends the 32-bit state big-endian *)
Definition fnv32_state (bs : bytes) : N :=
  fold_left (fun h b => N.lxor ((h * 16777619) mod 4294967296) b) bs 2166136261.
Definition be_bytes32 (x : N) : bytes :=
  [ (x / 16777216) mod 256; (x / 65536) mod 256; (x / 256) mod 256; x mod 256 ].
Definition fnv32 : hash_fn := fun bs => be_bytes32 (fnv32_state bs).

(* hashFromString(s, h, seed) *)
Definition hash_from_string (bo : byte_order) (cpu : endian) (h : hash_fn) (seed s : bytes) : option N :=
  decode32 (resolve bo cpu) (h (seed ++ s)).

(* offsetAndSKip *)
Definition offset_and_skip (bo : byte_order) (cpu : endian) (h1 h2 : hash_fn) (m : N) (s : bytes) : option (N * N) :=
  match hash_from_string bo cpu h1 [0] s with
  | None => None
  | Some o =>
      match hash_from_string bo cpu h2 [10] s with
      | None => None
      | Some k => Some (o mod m, k mod (m - 1) + 1)
      end
  end.

(* permutation: permutation[j] = (offset + j*skip) % m *)
Definition perm_at (m off skip j : N) : N := (off + j * skip) mod m.

Fixpoint nseq (start : N) (len : nat) : list N :=
  match len with
  | O => []
  | S len' => start :: nseq (N.succ start) len'
  end.

Definition permutation (m off skip : N) : list N := map (perm_at m off skip) (nseq 0 (N.to_nat m)).

(* ---------- backend bookkeeping ---------- *)
Fixpoint bytes_eqb (a b : bytes) : bool :=
  match a, b with
  | [], [] => true
  | x :: a', y :: b' => N.eqb x y && bytes_eqb a' b'
  | _, _ => false
  end.

(* Go's < on strings: bytewise lexicographic, a proper prefix is smaller *)
Fixpoint bytes_leb (a b : bytes) : bool :=
  match a, b with
  | [], _ => true
  | _ :: _, [] => false
  | x :: a', y :: b' => if x <? y then true else if y <? x then false else bytes_leb a' b'
  end.

(* a stored backend: its name and the (offset, skip) of its permutation *)
Definition bk := (bytes * (N * N))%type.

Definition has_name (bs : list bk) (name : bytes) : bool := existsb (fun b => bytes_eqb (fst b) name) bs.

(* AddBackend: ignored when the name is already known or the permutation cannot be generated *)
Definition add_backend (bo : byte_order) (cpu : endian) (h1 h2 : hash_fn) (m : N) (bs : list bk) (name : bytes) : list bk :=
  if has_name bs name then bs
  else match offset_and_skip bo cpu h1 h2 m name with
       | None => bs
       | Some os => bs ++ [(name, os)]
       end.

Definition add_all bo cpu h1 h2 m (names : list bytes) : list bk :=
  fold_left (add_backend bo cpu h1 h2 m) names [].

(* slices.Sort(backendNames) *)
Fixpoint insert_bk (x : bk) (l : list bk) : list bk :=
  match l with
  | [] => [x]
  | y :: l' => if bytes_leb (fst x) (fst y) then x :: l else y :: insert_bk x l'
  end.
Definition sort_bks (l : list bk) : list bk := fold_right insert_bk [] l.

(* ---------- Generate ---------- *)
(* lut []k8sp.Endpoint of length m, nil = absent key.  Values: index of the backend in sorted order. *)
Definition lut_t := PositiveMap.t N.
Definition key (s : N) : positive := N.succ_pos s.
Definition lget (l : lut_t) (s : N) : option N := PositiveMap.find (key s) l.
Definition lset (l : lut_t) (s v : N) : lut_t := PositiveMap.add (key s) v l.

(* for lut[choice] != nil { next[i]++; choice = prefs[next[i]] } ; prefs[j] with j >= m is an
   index-out-of-range panic (None).  `fuel` only makes the recursion structural. *)
Fixpoint find_free (fuel : nat) (m off skip : N) (l : lut_t) (j : N) : option N :=
  match fuel with
  | O => None
  | S f =>
      if j <? m then
        match lget l (perm_at m off skip j) with
        | Some _ => find_free f m off skip l (N.succ j)
        | None => Some j
        end
      else None
  end.

Inductive status := Running | Done | Panicked.

(* one pass of `for i, backend := range ch.backendNames`; i = index of the head of bs *)
Fixpoint round (fm : nat) (m i : N) (bs : list (N * N)) (nx : list N) (l : lut_t) (n : N)
  : status * list N * lut_t * N :=
  match bs, nx with
  | (off, skip) :: bs', x :: nx' =>
      match find_free fm m off skip l x with
      | None => (Panicked, nx, l, n)
      | Some j =>
          let l' := lset l (perm_at m off skip j) i in
          let n' := N.succ n in
          if n' =? m then (Done, N.succ j :: nx', l', n')
          else
            let '(s, nx'', l'', n'') := round fm m (N.succ i) bs' nx' l' n' in
            (s, N.succ j :: nx'', l'', n'')
      end
  | _, _ => (Running, nx, l, n)
  end.

(* the outer `for { ... }` *)
Fixpoint rounds (fuel fm : nat) (m : N) (bs : list (N * N)) (nx : list N) (l : lut_t) (n : N) : option lut_t :=
  match fuel with
  | O => None
  | S f =>
      match round fm m 0 bs nx l n with
      | (Done, _, l', _) => Some l'
      | (Panicked, _, _, _) => None
      | (Running, nx', l', n') => rounds f fm m bs nx' l' n'
      end
  end.

Inductive gen_result :=
| GNil                               (* Generate returned nil (no backends) *)
| GPanic                             (* index out of range / out of fuel *)
| GLut (l : list (option N)).        (* the table; entries = index into the sorted backend list *)

Definition lut_list (m : N) (l : lut_t) : list (option N) := map (lget l) (nseq 0 (N.to_nat m)).

Definition generate_sorted (m : N) (sorted : list bk) : gen_result :=
  match sorted with
  | [] => GNil
  | _ =>
      let fm := S (N.to_nat m) in
      match rounds fm fm m (map snd sorted) (map (fun _ => 0) sorted) (PositiveMap.empty N) 0 with
      | None => GPanic
      | Some l => GLut (lut_list m l)
      end
  end.

Definition generate (m : N) (bs : list bk) : gen_result := generate_sorted m (sort_bks bs).

(* ---------- the whole object as the callers use it: New; AddBackend*; Generate ---------- *)
(* the table with every entry replaced by the backend's name *)
Inductive table :=
| TNil
| TPanic
| TLut (l : list (option bytes)).

Definition name_table (sorted : list bk) (r : gen_result) : table :=
  match r with
  | GNil => TNil
  | GPanic => TPanic
  | GLut l => TLut (map (fun e => match e with
                                  | None => None
                                  | Some i => option_map fst (nth_error sorted (N.to_nat i))
                                  end) l)
  end.

Definition maglev (bo : byte_order) (cpu : endian) (h1 h2 : hash_fn) (m : N) (names : list bytes) : table :=
  let sorted := sort_bks (add_all bo cpu h1 h2 m names) in
  name_table sorted (generate_sorted m sorted).

(* ---------- table size: NextPrimeUint16 and BPFLUTSizeMaglev ---------- *)
(* sort.Search(n, f): smallest index in [0,n) with f true assuming monotone f, by bisection *)
Fixpoint bsearch (fuel : nat) (f : N -> bool) (i j : N) : N :=
  match fuel with
  | O => i
  | S fu =>
      if i <? j then
        let h := (i + j) / 2 in
        if f h then bsearch fu f i h else bsearch fu f (h + 1) j
      else i
  end.

(* the slice `pr` as an array: index -> element (absent = out of range) *)
Fixpoint arr_of_list (i : N) (tbl : list N) (a : PositiveMap.t N) : PositiveMap.t N :=
  match tbl with
  | [] => a
  | x :: tbl' => arr_of_list (N.succ i) tbl' (PositiveMap.add (key i) x a)
  end.
Definition arr_get (a : PositiveMap.t N) (i : N) : N :=
  match PositiveMap.find (key i) a with Some x => x | None => 0 end.

Inductive size_result := SzPanic | Sz (p : N).

(* NextPrimeUint16(i) over the table `pr`; `limit` is the literal 65521 in the code.
   (The array is built once per table: next_prime tbl limit is a closure.) *)
Definition next_prime (tbl : list N) (limit : N) : N -> size_result :=
  let arr := arr_of_list 0 tbl (PositiveMap.empty N) in
  let len := N.of_nat (length tbl) in
  fun i =>
    if limit <? i then SzPanic
    else
      let idx := bsearch 64 (fun x => i <=? arr_get arr x) 0 len in
      if idx =? len then Sz (arr_get arr (len - 1)) else Sz (arr_get arr idx).

(* Config.BPFLUTSizeMaglev for BPFMaglevMaxEndpointsPerService = n *)
Definition lut_size (tbl : list N) (limit factor : N) : N -> size_result :=
  let np := next_prime tbl limit in
  fun n => np (n * factor).
