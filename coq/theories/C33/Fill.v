(* C33 — the fill loop of Generate: for a prime table size it never runs off a preference list, fills every
   slot, and hands the slots out round-robin (shares differ by at most one). *)
From Coq Require Import List NArith ZArith Arith Bool Lia Znumtheory FMapPositive.
From Coq Require Import ZifyN ZifyNat ZifyBool.
From Verif.C33 Require Import Model Spec Arith.
Import ListNotations.
Open Scope N_scope.

(* ---------- the table as a finite map ---------- *)
Lemma key_inj a b : key a = key b -> a = b.
Proof. unfold key. intros H. apply (f_equal Pos.pred_N) in H. now rewrite !N.pos_pred_succ in H. Qed.

Lemma lget_lset_same l s v : lget (lset l s v) s = Some v.
Proof. unfold lget, lset. apply PositiveMap.gss. Qed.

Lemma lget_lset_other l s s' v : s <> s' -> lget (lset l s v) s' = lget l s'.
Proof. unfold lget, lset. intros H. apply PositiveMap.gso. intros E. apply H. symmetry. now apply key_inj. Qed.

Lemma lget_empty s : lget (PositiveMap.empty N) s = None.
Proof. unfold lget. apply PositiveMap.gempty. Qed.

Definition is_some {A} (o : option A) : bool := match o with Some _ => true | None => false end.
Definition has_val (b : N) (o : option N) : bool := match o with Some v => v =? b | None => false end.

Definition slots (m : N) : list N := nseq 0 (N.to_nat m).
Definition nfilled (m : N) (l : lut_t) : nat := length (filter (fun s => is_some (lget l s)) (slots m)).
Definition cnt (m : N) (l : lut_t) (b : N) : nat := length (filter (fun s => has_val b (lget l s)) (slots m)).

Lemma in_slots m s : In s (slots m) <-> s < m.
Proof. unfold slots. rewrite in_nseq. lia. Qed.

Lemma filter_same (f g : N -> bool) (u : list N) :
  (forall x, In x u -> g x = f x) -> filter g u = filter f u.
Proof.
  induction u as [|a u IH]; intros H; simpl; auto.
  rewrite (H a) by (simpl; auto). rewrite IH; auto. intros; apply H; simpl; auto.
Qed.

(* changing a predicate from false to true at exactly one element of a duplicate-free list *)
Lemma filter_flip_one (f g : N -> bool) (u : list N) (s : N) :
  NoDup u -> In s u -> f s = false -> g s = true -> (forall x, x <> s -> g x = f x) ->
  length (filter g u) = S (length (filter f u)).
Proof.
  induction u as [|a u IH]; intros ND HI Hf Hg Hsame; [destruct HI|].
  inversion ND as [|? ? Hna ND']; subst. simpl.
  destruct (N.eq_dec a s) as [->|Hne].
  - rewrite Hf, Hg. simpl. f_equal. f_equal. apply filter_same.
    intros x Hx. apply Hsame. intros ->. contradiction.
  - destruct HI as [->|HI]; [contradiction|].
    rewrite (Hsame a) by auto. destruct (f a); simpl; [f_equal|]; apply IH; auto.
Qed.

Lemma filter_short_witness (f : N -> bool) (u : list N) :
  (length (filter f u) < length u)%nat -> exists s, In s u /\ f s = false.
Proof.
  induction u as [|a u IH]; simpl; intros H; [lia|].
  destruct (f a) eqn:E.
  - simpl in H. destruct IH as [s [Hs Hf]]; [lia|]. exists s; auto.
  - exists a; auto.
Qed.

Lemma filter_full_all (f : N -> bool) (u : list N) :
  length (filter f u) = length u -> forall s, In s u -> f s = true.
Proof.
  induction u as [|a u IH]; simpl; intros H s Hs; [destruct Hs|].
  assert (Hle : forall l, (length (filter f l) <= length l)%nat).
  { induction l as [|b l IHl]; simpl; auto. destruct (f b); simpl; lia. }
  destruct (f a) eqn:E.
  - simpl in H. destruct Hs as [Hs|Hs]; [subst; auto|]. apply IH; auto.
  - pose proof (Hle u). lia.
Qed.

Lemma slots_NoDup m : NoDup (slots m).
Proof. apply nseq_NoDup. Qed.

Lemma slots_length m : length (slots m) = N.to_nat m.
Proof. apply nseq_length. Qed.

(* filling an empty slot s < m with value v *)
Lemma nfilled_lset m l s v : s < m -> lget l s = None -> nfilled m (lset l s v) = S (nfilled m l).
Proof.
  intros Hs Hn. unfold nfilled.
  apply filter_flip_one with (s := s).
  - apply slots_NoDup.
  - now apply in_slots.
  - now rewrite Hn.
  - now rewrite lget_lset_same.
  - intros x Hx. rewrite lget_lset_other; auto.
Qed.

Lemma cnt_lset_same m l s v : s < m -> lget l s = None -> cnt m (lset l s v) v = S (cnt m l v).
Proof.
  intros Hs Hn. unfold cnt.
  apply filter_flip_one with (s := s).
  - apply slots_NoDup.
  - now apply in_slots.
  - now rewrite Hn.
  - rewrite lget_lset_same. simpl. apply N.eqb_refl.
  - intros x Hx. rewrite lget_lset_other; auto.
Qed.

Lemma cnt_lset_other m l s v b : b <> v -> lget l s = None -> cnt m (lset l s v) b = cnt m l b.
Proof.
  intros Hb Hn. unfold cnt. f_equal. apply filter_same.
  intros x _. destruct (N.eq_dec x s) as [->|Hx].
  - rewrite lget_lset_same, Hn. simpl. apply N.eqb_neq. auto.
  - rewrite lget_lset_other; auto.
Qed.

(* ---------- cursors ---------- *)
Definition cursor_ok (m : N) (l : lut_t) (os : N * N) (x : N) : Prop :=
  forall j, j < x -> lget l (perm_at m (fst os) (snd os) j) <> None.

Definition lut_le (l l' : lut_t) : Prop := forall s, lget l s <> None -> lget l' s <> None.

Lemma lut_le_refl l : lut_le l l.
Proof. intros s H; auto. Qed.

Lemma lut_le_trans a b c : lut_le a b -> lut_le b c -> lut_le a c.
Proof. intros H1 H2 s H. auto. Qed.

Lemma lut_le_lset l s v : lut_le l (lset l s v).
Proof.
  intros s' H. destruct (N.eq_dec s s') as [->|Hne].
  - rewrite lget_lset_same. discriminate.
  - rewrite lget_lset_other; auto.
Qed.

Lemma cursor_ok_mono m l l' os x : lut_le l l' -> cursor_ok m l os x -> cursor_ok m l' os x.
Proof. intros H C j Hj. apply H. now apply C. Qed.

Lemma cursors_mono m l l' bs nx :
  lut_le l l' -> Forall2 (cursor_ok m l) bs nx -> Forall2 (cursor_ok m l') bs nx.
Proof. intros H F. induction F; constructor; auto. eapply cursor_ok_mono; eauto. Qed.

(* ---------- the inner scan ---------- *)
Lemma find_free_spec m off skip l :
  Nprime m -> 1 <= skip < m -> (nfilled m l < N.to_nat m)%nat ->
  forall fuel x, cursor_ok m l (off, skip) x -> (N.to_nat m < fuel)%nat ->
  exists j, find_free fuel m off skip l x = Some j /\ x <= j < m /\
            lget l (perm_at m off skip j) = None /\ cursor_ok m l (off, skip) j.
Proof.
  intros Hp Hs Hfill.
  (* an empty slot exists and is some preference j0 of this backend *)
  destruct (filter_short_witness (fun s => is_some (lget l s)) (slots m)) as [s0 [Hs0 Hf0]].
  { unfold nfilled in Hfill. rewrite slots_length. exact Hfill. }
  apply in_slots in Hs0.
  destruct (perm_at_surj m off skip s0 Hp Hs Hs0) as [j0 [Hj0 Ej0]].
  assert (Hnone : lget l (perm_at m off skip j0) = None).
  { rewrite Ej0. destruct (lget l s0); [discriminate|reflexivity]. }
  assert (G : forall fuel x, x <= j0 -> cursor_ok m l (off, skip) x -> (N.to_nat (j0 - x) < fuel)%nat ->
              exists j, find_free fuel m off skip l x = Some j /\ x <= j < m /\
                        lget l (perm_at m off skip j) = None /\ cursor_ok m l (off, skip) j).
  { induction fuel as [|f IH]; intros x Hx C Hfu; [lia|].
    simpl. replace (x <? m) with true by (symmetry; apply N.ltb_lt; lia).
    destruct (lget l (perm_at m off skip x)) eqn:E.
    - assert (x <> j0) by (intros ->; congruence).
      destruct (IH (N.succ x)) as [j [Hj1 [Hj2 [Hj3 Hj4]]]].
      + lia.
      + intros j Hj. destruct (N.eq_dec j x) as [->|Hne].
        * simpl. rewrite E. discriminate.
        * apply C. lia.
      + lia.
      + exists j. repeat split; auto; lia.
    - exists x. repeat split; auto; lia. }
  intros fuel x C Hfu.
  assert (x <= j0).
  { destruct (N.le_gt_cases x j0); auto. exfalso. apply (C j0); auto. }
  apply G; auto. lia.
Qed.

(* ---------- one pass over the backends ---------- *)
(* q full passes done, i backends served in the current pass *)
Definition Inv (m K : N) (l : lut_t) (q i : N) : Prop :=
  nfilled m l = N.to_nat (q * K + i) /\
  (forall b, b < K -> cnt m l b = N.to_nat (q + (if b <? i then 1 else 0))) /\
  (forall s v, lget l s = Some v -> v < K).

Lemma cursor_ok_after_fill m l off skip j v :
  cursor_ok m l (off, skip) j ->
  cursor_ok m (lset l (perm_at m off skip j) v) (off, skip) (N.succ j).
Proof.
  intros C j' Hj'. destruct (N.eq_dec j' j) as [->|Hne].
  - simpl. rewrite lget_lset_same. discriminate.
  - apply lut_le_lset. apply C. lia.
Qed.

Lemma Inv_fill m K l q i s :
  i < K -> s < m -> lget l s = None -> Inv m K l q i -> Inv m K (lset l s i) q (N.succ i).
Proof.
  intros Hi Hs Hn [I1 [I2 I3]]. split; [|split].
  - rewrite nfilled_lset, I1 by auto. lia.
  - intros b Hb. destruct (N.eq_dec b i) as [->|Hne].
    + rewrite cnt_lset_same, I2 by auto.
      replace (i <? i) with false by (symmetry; apply N.ltb_ge; lia).
      replace (i <? N.succ i) with true by (symmetry; apply N.ltb_lt; lia). lia.
    + rewrite cnt_lset_other, I2 by auto.
      replace (b <? N.succ i) with (b <? i); auto.
      destruct (b <? i) eqn:E1; destruct (b <? N.succ i) eqn:E2; auto; lia.
  - intros s' v Hv. destruct (N.eq_dec s s') as [->|Hne].
    + rewrite lget_lset_same in Hv. inversion Hv; subst; auto.
    + rewrite lget_lset_other in Hv; eauto.
Qed.

Lemma round_spec m K fm :
  Nprime m -> (N.to_nat m < fm)%nat ->
  forall bs nx i l q n st nx' l' n',
    i + len bs = K -> n = q * K + i -> n < m ->
    Forall (fun os => 1 <= snd os < m) bs ->
    Forall2 (cursor_ok m l) bs nx ->
    Inv m K l q i ->
    round fm m i bs nx l n = (st, nx', l', n') ->
    Forall2 (cursor_ok m l') bs nx' /\ lut_le l l' /\
    ((st = Done /\ n' = m /\ exists i', m = q * K + i' /\ 0 < i' <= K /\ Inv m K l' q i')
     \/ (st = Running /\ n' = q * K + K /\ n' < m /\ Inv m K l' q K)).
Proof.
  intros Hp Hfm. induction bs as [|[off skip] bs IH]; intros nx i l q n st nx' l' n' HK Hn Hlt Hsk Hcur HI Hr.
  - change (len (@nil (N * N))) with 0 in HK. rewrite N.add_0_r in HK. subst i.
    inversion Hcur; subst. simpl in Hr. inversion Hr; subst.
    split; [constructor|]. split; [apply lut_le_refl|].
    right. repeat split; auto; apply HI.
  - revert HK Hn. inversion Hcur as [|? x ? nxt Hc Hcs]; subst.
    inversion Hsk as [|? ? Hs1 Hsk']; subst. simpl in Hs1. intros HK Hn. subst n.
    assert (Hi : i < K) by (unfold len in HK; simpl in HK; lia).
    destruct HI as [I1 [I2 I3]].
    destruct (find_free_spec m off skip l Hp Hs1 ltac:(rewrite I1; lia) fm x Hc Hfm)
      as [j [Ej [Hj [Hnone Hcj]]]].
    simpl in Hr. rewrite Ej in Hr.
    set (s := perm_at m off skip j) in *.
    assert (Hs : s < m) by (apply perm_at_lt; lia).
    assert (HI1 : Inv m K (lset l s i) q (N.succ i)) by (apply Inv_fill; auto; repeat split; auto).
    assert (Hc1 : cursor_ok m (lset l s i) (off, skip) (N.succ j)) by (apply cursor_ok_after_fill; auto).
    destruct (N.succ (q * K + i) =? m) eqn:Em.
    + apply N.eqb_eq in Em. inversion Hr; subst st nx' l' n'.
      split; [constructor; auto; eapply cursors_mono; eauto; apply lut_le_lset|].
      split; [apply lut_le_lset|].
      left. split; auto. split; auto. exists (N.succ i). repeat split; try lia; apply HI1.
    + apply N.eqb_neq in Em.
      destruct (round fm m (N.succ i) bs nxt (lset l s i) (N.succ (q * K + i))) as [[[s2 nx2] l2] n2] eqn:Er.
      inversion Hr; subst st nx' l' n'.
      assert (Hcs1 : Forall2 (cursor_ok m (lset l s i)) bs nxt) by (eapply cursors_mono; eauto; apply lut_le_lset).
      destruct (IH nxt (N.succ i) (lset l s i) q (N.succ (q * K + i)) s2 nx2 l2 n2) as [F [L R]]; auto.
      * unfold len in *. simpl in HK. lia.
      * lia.
      * lia.
      * split; [|split].
        -- constructor; auto. eapply cursor_ok_mono; eauto.
        -- eapply lut_le_trans; [apply lut_le_lset|eauto].
        -- exact R.
Qed.

(* ---------- the outer loop ---------- *)
Lemma Inv_next_pass m K l q : Inv m K l q K -> Inv m K l (q + 1) 0.
Proof.
  intros [I1 [I2 I3]]. split; [|split]; auto.
  - rewrite I1. lia.
  - intros b Hb. rewrite I2 by auto.
    replace (b <? K) with true by (symmetry; apply N.ltb_lt; lia).
    replace (b <? 0) with false by (symmetry; apply N.ltb_ge; lia). lia.
Qed.

Lemma rounds_spec m K fm bs :
  Nprime m -> (N.to_nat m < fm)%nat -> len bs = K -> 0 < K ->
  Forall (fun os => 1 <= snd os < m) bs ->
  forall fuel nx l q n, n = q * K -> (N.to_nat (m - n) < fuel)%nat -> n < m ->
    Forall2 (cursor_ok m l) bs nx -> Inv m K l q 0 ->
    exists l' q' i', rounds fuel fm m bs nx l n = Some l' /\
                     m = q' * K + i' /\ 0 < i' <= K /\ Inv m K l' q' i'.
Proof.
  intros Hp Hfm HK HK0 Hsk. induction fuel as [|f IH]; intros nx l q n Hn Hfu Hlt Hcur HI; [lia|].
  simpl. destruct (round fm m 0 bs nx l n) as [[[st nx'] l'] n'] eqn:Er.
  destruct (round_spec m K fm Hp Hfm bs nx 0 l q n st nx' l' n') as [F [L R]]; auto; try lia.
  destruct R as [[-> [-> [i' [Hm [Hi' HI']]]]] | [-> [Hn' [Hlt' HI']]]].
  - exists l', q, i'. auto.
  - apply (IH nx' l' (q + 1) n'); auto; try lia. now apply Inv_next_pass.
Qed.

(* ---------- Generate on the sorted backend list ---------- *)
Definition cnt_list (b : N) (lst : list (option N)) : nat := length (filter (has_val b) lst).

Lemma filter_map_length {A B} (f : B -> bool) (g : A -> B) (u : list A) :
  length (filter f (map g u)) = length (filter (fun x => f (g x)) u).
Proof. induction u as [|a u IH]; simpl; auto. destruct (f (g a)); simpl; auto. Qed.

Lemma filter_none {A} (f : A -> bool) (u : list A) : (forall x, In x u -> f x = false) -> filter f u = [].
Proof.
  induction u as [|a u IH]; intros H; simpl; auto.
  rewrite (H a) by (simpl; auto). apply IH. intros; apply H; simpl; auto.
Qed.

Lemma Inv_empty m K : Inv m K (PositiveMap.empty N) 0 0.
Proof.
  split; [|split].
  - unfold nfilled. rewrite filter_none; [reflexivity|]. intros x _. now rewrite lget_empty.
  - intros b _. unfold cnt. rewrite filter_none; [destruct (b <? 0) eqn:E; [apply N.ltb_lt in E; lia|reflexivity]|]. intros x _. now rewrite lget_empty.
  - intros s v H. rewrite lget_empty in H. discriminate.
Qed.

(* share of backend b (index in sorted order) when m = q*K + i slots are dealt round-robin to K backends *)
Definition shares_ok (m K : N) (lst : list (option N)) : Prop :=
  exists q i, m = q * K + i /\ 0 < i <= K /\
              forall b, b < K -> cnt_list b lst = N.to_nat (q + (if b <? i then 1 else 0)).

Lemma generate_sorted_ok m (sorted : list bk) :
  Nprime m -> sorted <> [] -> Forall (fun b => 1 <= snd (snd b) < m) sorted ->
  exists lst, generate_sorted m sorted = GLut lst /\
              length lst = N.to_nat m /\
              (forall e, In e lst -> exists v, e = Some v /\ v < len sorted) /\
              shares_ok m (len sorted) lst.
Proof.
  intros Hp Hne Hsk. pose proof (Nprime_ge_2 _ Hp) as H2.
  unfold generate_sorted. destruct sorted as [|b0 rest] eqn:Es; [congruence|]. rewrite <- Es in *.
  set (K := len sorted).
  assert (HK0 : 0 < K) by (unfold K, len; rewrite Es; simpl; lia).
  destruct (rounds_spec m K (S (N.to_nat m)) (map snd sorted) Hp ltac:(lia)) with
    (fuel := S (N.to_nat m)) (nx := map (fun _ : bk => 0) sorted) (l := PositiveMap.empty N) (q := 0) (n := 0)
    as [l' [q' [i' [Er [Hm [Hi' [I1 [I2 I3]]]]]]]]; auto; try lia.
  - unfold K, len. now rewrite map_length.
  - clear -Hsk. induction Hsk; simpl; constructor; auto.
  - clear. induction sorted; simpl; constructor; auto. intros j Hj. lia.
  - apply Inv_empty.
  - rewrite Er. exists (lut_list m l'). split; auto.
    assert (Hall : forall s, s < m -> is_some (lget l' s) = true).
    { intros s Hs. apply (filter_full_all (fun s => is_some (lget l' s)) (slots m)).
      - unfold nfilled in I1. rewrite I1, slots_length. lia.
      - now apply in_slots. }
    split; [|split].
    + unfold lut_list. now rewrite map_length, nseq_length.
    + intros e He. unfold lut_list in He. apply in_map_iff in He. destruct He as [s [Es' Hs]].
      apply in_slots in Hs. specialize (Hall s Hs). rewrite Es' in Hall.
      destruct e as [v|]; [|discriminate]. exists v. split; auto. eapply I3; eauto.
    + exists q', i'. split; auto. split; auto. intros b Hb.
      unfold cnt_list, lut_list. rewrite filter_map_length. apply I2. auto.
Qed.
