(* C33 — the preference-list oracle (is_perm_of_range) accepts the list the typed model computes whenever the
   source's integer types pass arith_ok_b: oracle-accepts-model for the CPerm cases. *)
From Coq Require Import List NArith ZArith Bool Lia Znumtheory FMapPositive.
From Coq Require Import ZifyN ZifyNat ZifyBool.
From Verif.C33 Require Import Model Wrap ArithModel Spec Arith Fill ArithProofs.
Import ListNotations.
Local Open Scope Z_scope.

Lemma mark_all_complete m : forall l seen,
  (forall z, In z l -> 0 <= z < m) -> NoDup l ->
  (forall z, In z l -> PositiveMap.find (key (Z.to_N z)) seen = None) ->
  mark_all l seen m = true.
Proof.
  induction l as [|z r IH]; intros seen Hr ND Hs; simpl; auto.
  assert (Hz : 0 <= z < m) by (apply Hr; simpl; auto).
  replace ((0 <=? z) && (z <? m)) with true by (symmetry; apply andb_true_iff; split; [apply Z.leb_le|apply Z.ltb_lt]; lia).
  rewrite (Hs z) by (simpl; auto).
  inversion ND as [|? ? Hn ND']; subst.
  apply IH; auto.
  - intros; apply Hr; simpl; auto.
  - intros z' Hz'. rewrite PositiveMap.gso.
    + apply Hs. simpl; auto.
    + intros E. apply key_inj in E.
      assert (0 <= z' < m) by (apply Hr; simpl; auto).
      assert (z' = z) by lia. subst. contradiction.
Qed.

Lemma is_perm_of_range_complete (m : N) (l : list Z) :
  length l = N.to_nat m -> (forall z, In z l -> 0 <= z < Z.of_N m) -> NoDup l -> is_perm_of_range m l = true.
Proof.
  intros HL Hr ND. unfold is_perm_of_range. apply andb_true_iff. split.
  - apply N.eqb_eq. unfold len. rewrite HL. lia.
  - apply mark_all_complete; auto. intros. apply PositiveMap.gempty.
Qed.

(* uint32: what hashFromString decodes from an FNV-32 sum is below 2^32 *)
Lemma fnv32_hash_bound bo cpu seed s r :
  hash_from_string bo cpu fnv32 seed s = Some r -> (r < 2 ^ 32)%N.
Proof.
  unfold hash_from_string, fnv32, be_bytes32, decode32. intros H.
  set (x := fnv32_state (seed ++ s)) in *.
  assert (N256 : (256 <> 0)%N) by discriminate.
  pose proof (N.mod_lt (x / 16777216)%N 256%N N256).
  pose proof (N.mod_lt (x / 65536)%N 256%N N256).
  pose proof (N.mod_lt (x / 256)%N 256%N N256).
  pose proof (N.mod_lt x 256%N N256).
  assert (E : (2 ^ 32 = 4294967296)%N) by reflexivity. rewrite E.
  set (b0 := ((x / 16777216) mod 256)%N) in *. set (b1 := ((x / 65536) mod 256)%N) in *.
  set (b2 := ((x / 256) mod 256)%N) in *. set (b3 := (x mod 256)%N) in *.
  clearbody b0 b1 b2 b3. destruct (resolve bo cpu).
  - assert (Hr : r = (b0 + 256 * (b1 + 256 * (b2 + 256 * b3)))%N) by congruence. rewrite Hr. lia.
  - assert (Hr : r = (b3 + 256 * (b2 + 256 * (b1 + 256 * b0)))%N) by congruence. rewrite Hr. lia.
Qed.

Lemma perm_model_meets_spec : forall env p,
  arith_ok_b (p_arith p) 65535 = true -> (p_m p <= 65535)%N ->
  p_obs p = match permutation_a (p_arith p) (p_bo p) (p_cpu p) fnv32 fnv32 (p_m p) (p_name p) with
            | Some l => PList l | None => PErr end ->
  check_case env (CPerm p) = (true, true).
Proof.
  intros env p Hok Hm Hobs. unfold check_case, check_case_with, perm_agree, ok_perm_case.
  rewrite Hobs. unfold permutation_a.
  destruct (hash_from_string (p_bo p) (p_cpu p) fnv32 [0%N] (p_name p)) as [r1|] eqn:E1.
  2: { exfalso. unfold hash_from_string, fnv32, be_bytes32, decode32 in E1. discriminate. }
  destruct (hash_from_string (p_bo p) (p_cpu p) fnv32 [10%N] (p_name p)) as [r2|] eqn:E2.
  2: { exfalso. unfold hash_from_string, fnv32, be_bytes32, decode32 in E2. discriminate. }
  apply fnv32_hash_bound in E1. apply fnv32_hash_bound in E2.
  destruct (offset_and_skip_a (p_arith p) (Z.of_N (p_m p)) (Z.of_N r1) (Z.of_N r2)) as [off skip] eqn:Eo.
  f_equal.
  - clear. generalize (map (fun j : N => perm_at_a (p_arith p) (Z.of_N (p_m p)) off skip (Z.of_N j)) (nseq 0 (N.to_nat (p_m p)))).
    induction l; simpl; auto. now rewrite Z.eqb_refl.
  - destruct (is_prime (p_m p)) eqn:Ep; auto. apply is_prime_correct in Ep.
    pose proof (arith_ok_permutation (p_arith p) 65535 Hok (p_m p) r1 r2 Ep ltac:(lia) E1 E2) as H.
    rewrite Eo in H. destruct H as [EL ND]. rewrite EL.
    apply is_perm_of_range_complete; auto.
    + now rewrite map_length, permutation_length.
    + intros z Hz. apply in_map_iff in Hz. destruct Hz as [x [<- Hx]].
      unfold permutation in Hx. apply in_map_iff in Hx. destruct Hx as [j [<- _]].
      pose proof (perm_at_lt (p_m p) (r1 mod p_m p)%N (r2 mod (p_m p - 1) + 1)%N j). pose proof (Nprime_ge_2 _ Ep). lia.
Qed.

(* Why the types matter: with uint32 arithmetic and an offset that is NOT reduced mod m, the preference list of a
   backend whose first hash is close to 2^32 is not a permutation (m = 7, hash1 = 2^32 - 1, hash2 = 0: slot 3 twice). *)
Definition uint32_unreduced : arith :=
  {| a_bits := 32; a_signed := false; a_offset_reduced := false; a_skip_reduced := true |}.

Lemma uint32_unreduced_refuted :
  exists (m r1 r2 : N), is_prime m = true /\ (r1 < 2 ^ 32)%N /\ (r2 < 2 ^ 32)%N /\
    let '(off, skip) := offset_and_skip_a uint32_unreduced (Z.of_N m) (Z.of_N r1) (Z.of_N r2) in
    is_perm_of_range m (map (fun j => perm_at_a uint32_unreduced (Z.of_N m) off skip (Z.of_N j)) (nseq 0 (N.to_nat m))) = false.
Proof. exists 7%N, 4294967295%N, 0%N. vm_compute. repeat split; reflexivity. Qed.
