(* C33 — Go's fixed-width integer arithmetic made explicit.  The model computes in N (no wrap-around); here the
   same expressions are written with a two's-complement `int` of a given width and Go's truncated `%`, and shown
   to coincide with the model under a stated bound:
     int(uint32 hash)            needs 2^32 <= 2^(bits-1)            (int of 64 bits; FALSE for a 32-bit int)
     (offset + j*skip) % m       needs m*m <= 2^(bits-1)             (m <= 3037000499 for 64 bits)
   Every size Felix configures is < 2^16 (c33_sizes_prime), far inside both bounds for the 64-bit platforms
   Calico ships (amd64, arm64, ppc64le, s390x). *)
From Coq Require Import List NArith ZArith Lia.
From Verif.C33 Require Import Model.
Import ListNotations.
Local Open Scope Z_scope.

Definition wrap (bits z : Z) : Z := (z + 2 ^ (bits - 1)) mod 2 ^ bits - 2 ^ (bits - 1).
Definition go_add (bits a b : Z) : Z := wrap bits (a + b).
Definition go_sub (bits a b : Z) : Z := wrap bits (a - b).
Definition go_mul (bits a b : Z) : Z := wrap bits (a * b).
Definition go_rem (a b : Z) : Z := Z.rem a b.          (* Go's % truncates toward zero *)

(* int(result) for result uint32, then offset % m and skip % (m-1) + 1 *)
Definition go_offset_and_skip (bits r1 r2 m : Z) : Z * Z :=
  (go_rem (wrap bits r1) m, go_add bits (go_rem (wrap bits r2) (go_sub bits m 1)) 1).

(* permutation[j] = (offset + (j * skip)) % ch.m *)
Definition go_perm_at (bits m off skip j : Z) : Z := go_rem (go_add bits off (go_mul bits j skip)) m.

Lemma wrap_id bits z : 0 < bits -> - 2 ^ (bits - 1) <= z < 2 ^ (bits - 1) -> wrap bits z = z.
Proof.
  intros Hb Hz. unfold wrap.
  assert (E : 2 ^ bits = 2 * 2 ^ (bits - 1)).
  { replace bits with (Z.succ (bits - 1)) at 1 by lia. rewrite Z.pow_succ_r by lia. reflexivity. }
  rewrite E. rewrite Z.mod_small by lia. lia.
Qed.

Lemma go_perm_at_exact bits (m off skip j : N) :
  0 < bits -> Z.of_N m * Z.of_N m <= 2 ^ (bits - 1) ->
  (off < m)%N -> (skip < m)%N -> (j < m)%N ->
  go_perm_at bits (Z.of_N m) (Z.of_N off) (Z.of_N skip) (Z.of_N j) = Z.of_N (perm_at m off skip j).
Proof.
  intros Hb Hm Ho Hs Hj. unfold go_perm_at, go_add, go_mul, go_rem, perm_at.
  assert (H1 : 0 <= Z.of_N j * Z.of_N skip < 2 ^ (bits - 1)) by nia.
  rewrite (wrap_id bits (Z.of_N j * Z.of_N skip)) by lia.
  assert (H2 : 0 <= Z.of_N off + Z.of_N j * Z.of_N skip < 2 ^ (bits - 1)) by nia.
  rewrite wrap_id by lia.
  rewrite Z.rem_mod_nonneg by lia.
  rewrite N2Z.inj_mod, N2Z.inj_add, N2Z.inj_mul. reflexivity.
Qed.

Lemma go_offset_and_skip_exact bits (r1 r2 m : N) :
  0 < bits -> 2 ^ 32 <= 2 ^ (bits - 1) ->
  (r1 < 2 ^ 32)%N -> (r2 < 2 ^ 32)%N -> (2 <= m)%N -> Z.of_N m < 2 ^ (bits - 1) ->
  go_offset_and_skip bits (Z.of_N r1) (Z.of_N r2) (Z.of_N m)
  = (Z.of_N (r1 mod m), Z.of_N (r2 mod (m - 1) + 1)).
Proof.
  intros Hb H32 Hr1 Hr2 Hm2 Hm. unfold go_offset_and_skip, go_add, go_sub, go_rem.
  assert (P32 : Z.of_N (2 ^ 32) = 2 ^ 32) by reflexivity.
  rewrite (wrap_id bits (Z.of_N r1)) by lia.
  rewrite (wrap_id bits (Z.of_N r2)) by lia.
  rewrite (wrap_id bits (Z.of_N m - 1)) by lia.
  rewrite !Z.rem_mod_nonneg by lia.
  assert (Hk : 0 <= Z.of_N r2 mod (Z.of_N m - 1) < Z.of_N m - 1) by (apply Z.mod_pos_bound; lia).
  rewrite wrap_id by lia.
  f_equal.
  - now rewrite N2Z.inj_mod.
  - rewrite N2Z.inj_add, N2Z.inj_mod, N2Z.inj_sub by lia. reflexivity.
Qed.

(* 64-bit int: exact for every table size below 2^31 *)
Lemma go64_exact (m off skip j r1 r2 : N) :
  (2 <= m < 2 ^ 31)%N -> (off < m)%N -> (skip < m)%N -> (j < m)%N -> (r1 < 2 ^ 32)%N -> (r2 < 2 ^ 32)%N ->
  go_perm_at 64 (Z.of_N m) (Z.of_N off) (Z.of_N skip) (Z.of_N j) = Z.of_N (perm_at m off skip j) /\
  go_offset_and_skip 64 (Z.of_N r1) (Z.of_N r2) (Z.of_N m) = (Z.of_N (r1 mod m), Z.of_N (r2 mod (m - 1) + 1)).
Proof.
  intros Hm Ho Hs Hj Hr1 Hr2.
  assert (P31 : Z.of_N (2 ^ 31) = 2 ^ 31) by reflexivity.
  assert (P63 : 2 ^ (64 - 1) = 9223372036854775808) by reflexivity.
  split.
  - apply go_perm_at_exact; try lia. rewrite P63. nia.
  - assert (2 ^ 32 <= 2 ^ (64 - 1)) by (vm_compute; discriminate).
    apply go_offset_and_skip_exact; try lia.
Qed.

(* a 32-bit int is NOT enough: a hash with the top bit set becomes a negative offset (an index panic in Go) *)
Lemma go32_refuted : exists r1 r2 m, (r1 < 2 ^ 32)%N /\ fst (go_offset_and_skip 32 (Z.of_N r1) (Z.of_N r2) (Z.of_N m)) < 0.
Proof. exists (2 ^ 31 + 1)%N, 0%N, 7%N. split; vm_compute; reflexivity. Qed.
