(* C32 — conservation: the invariant tying every bucket's statistics (and, below, key set and diachronic windows) to
   the log of accepted flows, and what List / Statistics / emitted collections therefore contain. *)
From Coq Require Import List ZArith NArith Arith Bool Lia.
From Verif.C32 Require Import Model Spec Proofs Walk.
Import ListNotations.
Open Scope Z_scope.

(* ---- sums over the log of accepted flows ---- *)
Definition sumf (P : flow -> bool) (log : list flow) : cnt :=
  fold_right (fun f acc => if P f then cadd (f_cnt f) acc else acc) czero log.
(* "the sum, if there is anything to sum" - how every map in the code presents a total *)
Definition sem (P : flow -> bool) (log : list flow) : option cnt :=
  if existsb P log then Some (sumf P log) else None.

Lemma cadd_zero_r : forall a, cadd a czero = a.
Proof. intros [a1 a2]. unfold cadd, czero. simpl. f_equal; lia. Qed.

Lemma sumf_app : forall P l1 l2, sumf P (l1 ++ l2) = cadd (sumf P l1) (sumf P l2).
Proof.
  induction l1; intros; simpl; [rewrite cadd_zero_l; reflexivity|].
  destruct (P a); rewrite IHl1; [rewrite cadd_assoc|]; reflexivity.
Qed.

Lemma sumf_ext : forall P Q l, (forall f, In f l -> P f = Q f) -> sumf P l = sumf Q l.
Proof.
  induction l; intros H; simpl; [reflexivity|]. rewrite (H a) by (left; reflexivity).
  rewrite IHl by (intros; apply H; right; assumption). reflexivity.
Qed.

Lemma existsb_ext_in : forall (P Q : flow -> bool) l, (forall f, In f l -> P f = Q f) -> existsb P l = existsb Q l.
Proof.
  induction l; intros H; simpl; [reflexivity|]. rewrite (H a) by (left; reflexivity).
  rewrite IHl by (intros; apply H; right; assumption). reflexivity.
Qed.

Lemma sem_ext : forall P Q l, (forall f, In f l -> P f = Q f) -> sem P l = sem Q l.
Proof. intros. unfold sem. rewrite (existsb_ext_in P Q l), (sumf_ext P Q l) by assumption. reflexivity. Qed.

Lemma sumf_none : forall P l, existsb P l = false -> sumf P l = czero.
Proof.
  induction l; simpl; intros H; [reflexivity|]. apply orb_false_iff in H. destruct H as [-> H]. auto.
Qed.

Lemma sumf_or : forall P Q l, (forall f, In f l -> P f = true -> Q f = true -> False) ->
  sumf (fun f => P f || Q f) l = cadd (sumf P l) (sumf Q l).
Proof.
  induction l; intros H; simpl; [reflexivity|].
  rewrite IHl by (intros; eapply H; eauto; right; assumption).
  destruct (P a) eqn:EP; destruct (Q a) eqn:EQ; simpl.
  - exfalso. eapply H; eauto. left; reflexivity.
  - rewrite cadd_assoc. reflexivity.
  - rewrite <- !cadd_assoc. f_equal. apply cadd_comm.
  - reflexivity.
Qed.

Lemma existsb_or : forall (P Q : flow -> bool) l, existsb (fun f => P f || Q f) l = existsb P l || existsb Q l.
Proof.
  induction l; simpl; [reflexivity|]. rewrite IHl.
  destruct (P a), (Q a), (existsb P l), (existsb Q l); reflexivity.
Qed.

Definition oplus (a : option cnt) (v : option cnt) : option cnt :=
  match v with None => a | Some v => Some (match a with Some a => cadd a v | None => v end) end.

Lemma sem_or : forall P Q l, (forall f, In f l -> P f = true -> Q f = true -> False) ->
  sem (fun f => P f || Q f) l = oplus (sem P l) (sem Q l).
Proof.
  intros P Q l H. unfold sem. rewrite existsb_or, sumf_or by assumption.
  destruct (existsb P l) eqn:EP; destruct (existsb Q l) eqn:EQ; simpl; try reflexivity.
  - rewrite (sumf_none Q) by assumption. rewrite cadd_zero_r. reflexivity.
  - rewrite (sumf_none P) by assumption. rewrite cadd_zero_l. reflexivity.
Qed.

Lemma sem_snoc : forall P l f, sem P (l ++ [f]) =
  if P f then Some (match sem P l with Some a => cadd a (f_cnt f) | None => f_cnt f end) else sem P l.
Proof.
  intros. unfold sem. rewrite existsb_app, sumf_app. simpl. rewrite orb_false_r.
  destruct (P f); simpl.
  - rewrite orb_true_r. rewrite cadd_zero_r.
    destruct (existsb P l) eqn:E; [reflexivity|]. rewrite (sumf_none P l E), cadd_zero_l. reflexivity.
  - rewrite orb_false_r. rewrite cadd_zero_r. reflexivity.
Qed.

(* ---- association lists ---- *)
Lemma alookup_aupdate : forall A k k' (f : option A -> A) l,
  alookup k' (aupdate k f l) = if N.eqb k' k then Some (f (alookup k l)) else alookup k' l.
Proof.
  induction l as [|[k0 v] tl IH]; simpl.
  - destruct (N.eqb k' k); reflexivity.
  - destruct (N.eqb_spec k k0) as [->|Hne]; simpl.
    + destruct (N.eqb_spec k' k0); reflexivity.
    + rewrite IH. destruct (N.eqb_spec k' k0) as [->|]; [|reflexivity].
      destruct (N.eqb_spec k0 k); [congruence|reflexivity].
Qed.

Lemma aupdate_keys : forall A k (f : option A -> A) l,
  map fst (aupdate k f l) = if existsb (N.eqb k) (map fst l) then map fst l else map fst l ++ [k].
Proof.
  induction l as [|[k0 v] tl IH]; simpl; [reflexivity|].
  destruct (N.eqb_spec k k0) as [->|Hne]; simpl; [reflexivity|].
  rewrite IH. destruct (existsb (N.eqb k) (map fst tl)); reflexivity.
Qed.

Lemma NoDup_snoc : forall (l : list N) k, NoDup l -> ~ In k l -> NoDup (l ++ [k]).
Proof.
  induction l; intros k H Hk; simpl; [constructor; [tauto|constructor]|].
  inversion H; subst. constructor.
  - intro X. apply in_app_or in X. destruct X as [X|[X|[]]]; [tauto|subst; apply Hk; left; reflexivity].
  - apply IHl; auto. intro X. apply Hk. right. assumption.
Qed.

Lemma aupdate_nodup : forall A k (f : option A -> A) l, NoDup (map fst l) -> NoDup (map fst (aupdate k f l)).
Proof.
  intros. rewrite aupdate_keys. destruct (existsb (N.eqb k) (map fst l)) eqn:E; [assumption|].
  apply NoDup_snoc; auto. intro Hin.
  assert (existsb (N.eqb k) (map fst l) = true) by (apply existsb_exists; exists k; split; [assumption|apply N.eqb_refl]).
  congruence.
Qed.

Lemma alookup_notin : forall A k (l : list (N * A)), ~ In k (map fst l) -> alookup k l = None.
Proof.
  induction l as [|[k0 v] tl IH]; simpl; intros H; [reflexivity|].
  destruct (N.eqb_spec k k0) as [->|]; [tauto|]. apply IH. tauto.
Qed.

(* stats_merge acc st, for st with distinct keys *)
Lemma alookup_stats_merge : forall st acc p, NoDup (map fst st) ->
  alookup p (stats_merge acc st) = oplus (alookup p acc) (alookup p st).
Proof.
  unfold stats_merge. induction st as [|[k v] tl IH]; intros acc p Hnd; simpl; [reflexivity|].
  inversion Hnd; subst. rewrite IH by assumption. unfold stats_add. rewrite alookup_aupdate.
  destruct (N.eqb_spec p k) as [->|Hne].
  - rewrite (alookup_notin _ k tl) by assumption. simpl. reflexivity.
  - reflexivity.
Qed.

Lemma alookup_insert_by : forall A p (x : N * A) l,
  alookup p (insert_by fst x l) = if N.eqb p (fst x) then Some (snd x) else alookup p l.
Proof.
  intros A p [k v] l. simpl. induction l as [|[k0 v0] tl IH]; simpl; [reflexivity|].
  destruct (N.leb_spec k k0); simpl.
  - reflexivity.
  - rewrite IH. destruct (N.eqb_spec p k0) as [->|]; [|reflexivity].
    destruct (N.eqb_spec k0 k); [lia|reflexivity].
Qed.

Lemma alookup_sort : forall A p (l : list (N * A)), alookup p (sort_by fst l) = alookup p l.
Proof.
  induction l as [|[k v] tl IH]; simpl; [reflexivity|]. rewrite alookup_insert_by, IH. reflexivity.
Qed.

(* ---- slots ---- *)
Definition inb (r : ring) (j : nat) (f : flow) : bool := in_bucket (bk r j) (f_start f).

Lemma slot_unique : forall r j1 j2 t, ring_ok r -> (j1 < nb r)%nat -> (j2 < nb r)%nat ->
  in_bucket (bk r j1) t = true -> in_bucket (bk r j2) t = true -> j1 = j2.
Proof.
  intros r j1 j2 t Hok H1 H2 A B. apply in_bucket_iff in A. apply in_bucket_iff in B.
  pose proof (ring_ok_boh r Hok) as Hboh. pose proof Hok as (Hn & Hh & Hi & Hc).
  destruct (slot_is_sub r j1 Hok H1) as (y1 & Hy1 & <-). destruct (slot_is_sub r j2 Hok H2) as (y2 & Hy2 & <-).
  destruct (slot_times r y1 Hok Hy1) as [S1 E1]. destruct (slot_times r y2 Hok Hy2) as [S2 E2].
  rewrite S1, E1 in A. rewrite S2, E2 in B. assert (y1 = y2) by nia. subst. reflexivity.
Qed.

(* ---- the statistics part of the invariant ---- *)
Definition qstat (r : ring) (j : nat) (p : N) (f : flow) : bool := inb r j f && N.eqb (pol_of (f_key f)) p.

Definition sinv (r : ring) (log : list flow) : Prop :=
  Forall (fun f => f_start f < eoh r) log
  /\ forall j, (j < nb r)%nat ->
       NoDup (map fst (b_stats (bk r j)))
       /\ forall p, alookup p (b_stats (bk r j)) = sem (qstat r j p) log.

Lemma existsb_false_forall : forall (P : flow -> bool) l, (forall f, In f l -> P f = false) -> existsb P l = false.
Proof. induction l; simpl; intros H; [reflexivity|]. rewrite (H a) by (left; reflexivity). apply IHl. intros; apply H; right; assumption. Qed.

Lemma sinv_same_buckets : forall r r' log, sinv r log -> nb r' = nb r -> eoh r' = eoh r ->
  (forall j, (j < nb r)%nat -> b_stats (bk r' j) = b_stats (bk r j) /\ b_start (bk r' j) = b_start (bk r j) /\ b_end (bk r' j) = b_end (bk r j)) ->
  sinv r' log.
Proof.
  intros r r' log (C & B) Hnb Heoh Hsame. split; [rewrite Heoh; assumption|].
  intros j Hj. rewrite Hnb in Hj. destruct (Hsame j Hj) as (E1 & E2 & E3). destruct (B j Hj) as [N1 L1].
  rewrite E1. split; [assumption|]. intros p. rewrite L1. apply sem_ext. intros f _.
  unfold qstat, inb, in_bucket. rewrite E2, E3. reflexivity.
Qed.

Lemma rollover_sinv : forall r log, ring_ok r -> sinv r log -> sinv (rollover_core r) log.
Proof.
  intros r log Hok (C & B). pose proof Hok as (Hn & Hh & Hi & _).
  split.
  - rewrite rollover_eoh by assumption. eapply Forall_impl; [|exact C]. simpl. intros; lia.
  - intros j Hj. rewrite rollover_core_nb in Hj. 
    assert (Hq : forall p f, qstat (rollover_core r) j p f =
              if Nat.eqb j (next_idx r (r_head r)) then in_bucket (empty_bucket (eoh r) (eoh r + r_interval r)) (f_start f) && N.eqb (pol_of (f_key f)) p
              else qstat r j p f).
    { intros. unfold qstat, inb. rewrite rollover_bk by assumption. destruct (Nat.eqb j _); reflexivity. }
    rewrite rollover_bk by assumption.
    destruct (Nat.eqb_spec j (next_idx r (r_head r))) as [E|E].
    + cbn [empty_bucket b_stats map]. split; [constructor|]. intros p. simpl.
      unfold sem. rewrite existsb_false_forall; [reflexivity|].
      intros f Hf. rewrite Hq.
      rewrite Forall_forall in C. specialize (C f Hf). unfold in_bucket. cbn [empty_bucket b_start b_end].
      destruct (Z.leb_spec (eoh r) (f_start f)); [lia|reflexivity].
    + destruct (B j Hj) as [N1 L1]. split; [assumption|]. intros p. rewrite L1. apply sem_ext.
      intros f _. rewrite Hq. reflexivity.
Qed.

Lemma add_flow_sinv : forall r f log, ring_ok r -> sinv r log ->
  sinv (fst (add_flow r f)) (match snd (add_flow r f) with Some _ => log ++ [f] | None => log end).
Proof.
  intros r f log Hok (C & B). destruct (add_flow r f) as [r' ob] eqn:E.
  pose proof (add_flow_counted_once r f r' ob Hok E) as H. cbn [fst snd].
  destruct ob as [b|]; [|destruct H as [_ ->]; split; assumption].
  destruct H as (Hr & idx & Hidx & Hb & Hrange & Huniq & Hbk1 & Hbk2 & _).
  pose proof (add_flow_frame r f) as F. rewrite E in F. cbn [fst] in F. destruct F as (Fnb & Fhd & Fiv & Fse).
  assert (Heoh : eoh r' = eoh r) by (unfold eoh; rewrite Fhd; apply Fse).
  assert (Hinb : forall j g, inb r' j g = inb r j g).
  { intros. unfold inb, in_bucket. rewrite (proj1 (Fse j)), (proj2 (Fse j)). reflexivity. }
  split.
  - rewrite Heoh. apply Forall_app. split; [assumption|]. constructor; [lia|constructor].
  - intros j Hj. rewrite Fnb in Hj. destruct (B j Hj) as [N1 L1].
    assert (Hq : forall p g, qstat r' j p g = qstat r j p g) by (intros; unfold qstat; rewrite Hinb; reflexivity).
    destruct (Nat.eq_dec j idx) as [->|Hne].
    + rewrite Hbk1. cbn [bucket_add b_stats]. split; [apply aupdate_nodup; assumption|].
      intros p. unfold stats_add. rewrite alookup_aupdate, (sem_ext _ (qstat r idx p)) by (intros; apply Hq).
      rewrite sem_snoc. unfold qstat at 1, inb.
      assert (Hin : in_bucket (bk r idx) (f_start f) = true).
      { apply in_bucket_iff. pose proof Hok as (_ & _ & _ & Hc).
        destruct (find_bucket_spec r (f_start f) Hok) as [Hfb _]. destruct (Hfb Hr) as (idx' & _ & Hl' & _ & Hr' & _ & _ & _).
        assert (idx' = idx) by (apply Huniq; assumption). subst. assumption. }
      rewrite Hin. cbn [andb]. rewrite N.eqb_sym. destruct (N.eqb_spec (pol_of (f_key f)) p) as [<-|]; [|apply L1].
      rewrite L1. reflexivity.
    + rewrite Hbk2 by assumption. split; [assumption|]. intros p.
      rewrite (sem_ext _ (qstat r j p)) by (intros; apply Hq). rewrite sem_snoc.
      assert (Hout : qstat r j p f = false).
      { unfold qstat, inb. destruct (in_bucket (bk r j) (f_start f)) eqn:X; [|reflexivity].
        exfalso. apply Hne. apply Huniq; [assumption|]. apply in_bucket_iff. assumption. }
      rewrite Hout. apply L1.
Qed.

Lemma emit_sinv : forall r r' sent log, ring_ok r -> cfg_ok r -> sinv r log -> emit r = Some (r', sent) -> sinv r' log.
Proof.
  intros r r' sent log Hok Hcfg Hs E.
  destruct (emit_spec r Hok Hcfg) as (m & r'' & sent' & E' & _ & _ & Hnb & Hhd & _ & _ & _ & _ & _ & _ & Hbk).
  rewrite E in E'. injection E' as <- <-. pose proof Hok as (Hn & Hh & _).
  apply (sinv_same_buckets r); auto.
  - unfold eoh. rewrite Hhd, Hbk by lia. destruct (existsb _ sent); reflexivity.
  - intros j Hj. rewrite Hbk by assumption. destruct (existsb _ sent); repeat split; reflexivity.
Qed.

(* ---- Statistics ---- *)
Definition qslots (r : ring) (J : list nat) (p : N) (f : flow) : bool :=
  existsb (fun j => inb r j f) J && N.eqb (pol_of (f_key f)) p.

Lemma fold_slots : forall r log, ring_ok r -> sinv r log ->
  forall J S acc, NoDup (S ++ J) -> (forall j, In j (S ++ J) -> (j < nb r)%nat) ->
  (forall p, alookup p acc = sem (qslots r S p) log) ->
  forall p, alookup p (fold_left (fun acc i => stats_merge acc (b_stats (bk r i))) J acc) = sem (qslots r (S ++ J) p) log.
Proof.
  intros r log Hok (C & B). induction J as [|j J IH]; intros S acc Hnd Hlt Hacc p; simpl.
  - rewrite app_nil_r. apply Hacc.
  - replace (S ++ j :: J) with ((S ++ [j]) ++ J) in * by (rewrite <- app_assoc; reflexivity).
    apply IH; auto. intros q.
    assert (Hj : (j < nb r)%nat) by (apply Hlt; apply in_or_app; left; apply in_or_app; right; left; reflexivity).
    destruct (B j Hj) as [N1 L1]. rewrite alookup_stats_merge by assumption. rewrite Hacc, L1.
    rewrite <- sem_or.
    + apply sem_ext. intros f _. unfold qslots, qstat. rewrite existsb_app. simpl. rewrite orb_false_r.
      destruct (existsb _ S), (inb r j f), (N.eqb _ q); reflexivity.
    + intros f _ H1 H2. unfold qslots in H1. unfold qstat in H2.
      apply andb_true_iff in H1. destruct H1 as [H1 _]. apply andb_true_iff in H2. destruct H2 as [H2 _].
      apply existsb_exists in H1. destruct H1 as (j' & Hj' & H1).
      assert (j' = j).
      { apply (slot_unique r j' j (f_start f)); auto. apply Hlt. apply in_or_app. left. apply in_or_app. left. assumption. }
      subst j'. rewrite <- app_assoc in Hnd. simpl in Hnd. apply NoDup_remove_2 in Hnd. apply Hnd. apply in_or_app. left. assumption.
Qed.

Lemma backs_nodup : forall x k, NoDup (backs x k).
Proof.
  induction k; simpl; constructor; auto. rewrite in_backs. lia.
Qed.

Lemma map_sub_nodup : forall r l, ring_ok r -> (forall y, In y l -> (y < nb r)%nat) -> NoDup l -> NoDup (map (sub r) l).
Proof.
  intros r l Hok. induction l; intros Hlt Hnd; simpl; constructor; inversion Hnd; subst.
  - intro X. apply in_map_iff in X. destruct X as (y & E & Hy). apply sub_inj in E; auto.
    + subst. tauto.
    + apply Hlt. right. assumption.
    + apply Hlt. left. reflexivity.
  - apply IHl; auto. intros; apply Hlt; right; assumption.
Qed.

(* the slots from `ys` steps behind the head up to (not including) `ye` steps behind it hold exactly the log
   entries whose start lies between the two slot starts *)
Lemma slots_range : forall r ye k f, ring_ok r -> (ye + k < nb r)%nat -> f_start f < eoh r ->
  existsb (fun j => inb r j f) (map (sub r) (backs ye k))
  = (b_start (bk r (sub r (ye + k))) <=? f_start f) && (f_start f <? b_start (bk r (sub r ye))).
Proof.
  intros r ye k f Hok Hk Hf. pose proof Hok as (Hn & Hh & Hi & _). pose proof (ring_ok_boh r Hok) as Hboh.
  destruct (slot_times r (ye + k) Hok Hk) as [S1 _]. destruct (slot_times r ye Hok ltac:(lia)) as [S2 _].
  rewrite S1, S2. apply eq_true_iff_eq. rewrite existsb_exists, andb_true_iff, Z.leb_le, Z.ltb_lt. split.
  - intros (j & Hj & Hin). apply in_map_iff in Hj. destruct Hj as (y & <- & Hy). apply in_backs in Hy.
    unfold inb in Hin. apply in_bucket_iff in Hin.
    destruct (slot_times r y Hok ltac:(lia)) as [S3 E3]. rewrite S3, E3 in Hin. nia.
  - intros [A B]. destruct (find_bucket_spec r (f_start f) Hok) as [Hfb _].
    assert (Hr : boh r <= f_start f < eoh r) by (rewrite Hboh; nia).
    destruct (Hfb Hr) as (idx & _ & Hlt & Hidx & Hin & _).
    set (q := (eoh r - 1 - f_start f) / r_interval r) in *.
    assert (Hq : 0 <= q) by (apply Z.div_pos; lia).
    pose proof (Z.mul_div_le (eoh r - 1 - f_start f) (r_interval r) Hi) as Hq1. fold q in Hq1.
    pose proof (Z.mul_succ_div_gt (eoh r - 1 - f_start f) (r_interval r) Hi) as Hq2. fold q in Hq2.
    exists idx. split.
    + apply in_map_iff. exists (Z.to_nat q). split; [symmetry; exact Hidx|]. apply in_backs. nia.
    + unfold inb. apply in_bucket_iff. assumption.
Qed.

Lemma find_bucket_some : forall r t idx, ring_ok r -> find_bucket r t = Some idx ->
  exists y, (y < nb r)%nat /\ idx = sub r y /\ b_start (bk r idx) <= t < b_end (bk r idx).
Proof.
  intros r t idx Hok E. destruct (find_bucket_spec r t Hok) as [Hin Hout].
  destruct (Z_le_dec (boh r) t) as [A|A]; [destruct (Z_lt_dec t (eoh r)) as [B|B]|].
  - destruct (Hin (conj A B)) as (idx' & E' & Hlt & Hidx & Hr & _). rewrite E in E'. injection E' as <-.
    pose proof Hok as (Hn & Hh & Hi & _). pose proof (ring_ok_boh r Hok) as Hboh.
    set (q := (eoh r - 1 - t) / r_interval r) in *.
    assert (Hq : 0 <= q) by (apply Z.div_pos; lia).
    pose proof (Z.mul_div_le (eoh r - 1 - t) (r_interval r) Hi) as Hq1. fold q in Hq1.
    exists (Z.to_nat q). split; [nia|]. split; [exact Hidx|exact Hr].
  - rewrite Hout in E by lia. discriminate.
  - rewrite Hout in E by lia. discriminate.
Qed.

(* Statistics over [gte, lt): per policy, the sum of the accepted flows whose start lies in [lo, hi), where lo is the
   start of the bucket containing gte (the beginning of history when gte = 0) and hi is the start of the bucket
   containing lt (the start of the head bucket, eoh - interval, when lt = 0): both bounds are rounded DOWN to a bucket
   boundary, so a bucket-aligned range is answered exactly.  Flows older than the history are not in [lo, hi). *)
Lemma statistics_sums : forall r log gte lt res, ring_ok r -> sinv r log -> statistics r gte lt = Some res ->
  exists ys ye, (ys < nb r)%nat /\ (ye < nb r)%nat
    /\ (if gte =? 0 then ys = (nb r - 1)%nat else b_start (bk r (sub r ys)) <= gte < b_end (bk r (sub r ys)))
    /\ (if lt =? 0 then ye = 0%nat else b_start (bk r (sub r ye)) <= lt < b_end (bk r (sub r ye)))
    /\ ((ye <= ys)%nat -> forall p,
          alookup p res = sem (fun f => (b_start (bk r (sub r ys)) <=? f_start f) && (f_start f <? b_start (bk r (sub r ye)))
                                        && N.eqb (pol_of (f_key f)) p) log).
Proof.
  intros r log gte lt res Hok Hs E. pose proof Hok as (Hn & Hh & Hi & _). unfold statistics in E.
  assert (Hsi : exists ys, (ys < nb r)%nat /\ (if gte =? 0 then Some (idx_add (nb r) (r_head r) 1) else find_bucket r gte) = Some (sub r ys)
            /\ (if gte =? 0 then ys = (nb r - 1)%nat else b_start (bk r (sub r ys)) <= gte < b_end (bk r (sub r ys)))).
  { destruct (gte =? 0).
    - exists (nb r - 1)%nat. split; [lia|]. split; [|reflexivity]. f_equal. unfold sub.
      rewrite idx_add1_spec, idx_sub_spec by lia. nbash.
    - destruct (find_bucket r gte) as [idx|] eqn:F; [|discriminate].
      destruct (find_bucket_some r gte idx Hok F) as (y & Hy & -> & Hr). exists y. auto. }
  assert (Hei : exists ye, (ye < nb r)%nat /\ (if lt =? 0 then Some (r_head r) else find_bucket r lt) = Some (sub r ye)
            /\ (if lt =? 0 then ye = 0%nat else b_start (bk r (sub r ye)) <= lt < b_end (bk r (sub r ye)))).
  { destruct (lt =? 0).
    - exists 0%nat. split; [lia|]. split; [|reflexivity]. f_equal. unfold sub. rewrite sub_zero by lia. reflexivity.
    - destruct (find_bucket r lt) as [idx|] eqn:F.
      + destruct (find_bucket_some r lt idx Hok F) as (y & Hy & -> & Hr). exists y. auto.
      + destruct (if gte =? 0 then _ else _); discriminate. }
  destruct Hsi as (ys & Hys & Esi & Hgs). destruct Hei as (ye & Hye & Eei & Hge).
  rewrite Esi, Eei in E. injection E as <-.
  exists ys, ye. repeat (split; [assumption|]). intros Hle p.
  replace ys with (ye + (ys - ye))%nat at 1 by lia.
  rewrite iter_idx_backs by (auto; lia). rewrite alookup_sort.
  rewrite (fold_slots r log Hok Hs (map (sub r) (backs ye (ys - ye))) [] []).
  - simpl. apply sem_ext. intros f Hf. unfold qslots.
    destruct Hs as [C _]. rewrite Forall_forall in C. specialize (C f Hf).
    rewrite slots_range by (auto; lia). replace (ye + (ys - ye))%nat with ys by lia. reflexivity.
  - simpl. apply map_sub_nodup; auto; [|apply backs_nodup]. intros y Hy. apply in_backs in Hy. lia.
  - simpl. intros j Hj. apply in_map_iff in Hj. destruct Hj as (y & <- & _). apply sub_lt. assumption.
  - intros q. simpl. unfold sem. rewrite existsb_false_forall; [reflexivity|]. intros; reflexivity.
Qed.

(* ---- all histories ---- *)
Definition log_step (r : ring) (log : list flow) (o : op) : list flow :=
  match o with
  | OpAdd f => match snd (add_flow r f) with Some _ => log ++ [f] | None => log end
  | _ => log
  end.
(* the log of accepted flows of a history *)
Fixpoint run_log (r : ring) (log : list flow) (ops : list op) : list flow :=
  match ops with [] => log | o :: tl => run_log (fst (step r o)) (log_step r log o) tl end.

Lemma step_sinv : forall r em log o, winv r em -> sinv r log -> sinv (fst (step r o)) (log_step r log o).
Proof.
  intros r em log o (Hok & Hcfg & Hp) Hs. destruct o as [f|[|]| |gte lt|gte lt]; cbn [log_step].
  - assert (E1 : fst (step r (OpAdd f)) = fst (add_flow r f)) by (simpl; destruct (add_flow r f); reflexivity).
    rewrite E1. apply add_flow_sinv; assumption.
  - pose proof (rollover_sinv r log Hok Hs) as H1.
    destruct (emit_winv _ _ (rollover_winv r em (conj Hok (conj Hcfg Hp)))) as (r2 & sent & E & _).
    cbn [step]. rewrite E. cbn [fst].
    apply (emit_sinv (rollover_core r) r2 sent log);
      [apply rollover_ok; assumption | apply (cfg_ok_same r); auto; apply rollover_core_nb | assumption | assumption].
  - simpl. apply rollover_sinv; assumption.
  - destruct (emit_winv _ _ (conj Hok (conj Hcfg Hp))) as (r2 & sent & E & _).
    cbn [step]. rewrite E. cbn [fst]. apply (emit_sinv r r2 sent log); assumption.
  - assumption.
  - assumption.
Qed.

Lemma run_sinv : forall ops r em log, winv r em -> sinv r log -> sinv (run_state r ops) (run_log r log ops).
Proof.
  induction ops as [|o ops IH]; intros r em log Hw Hs; simpl; [assumption|].
  eapply IH; [apply (step_winv r em o Hw)|eapply step_sinv; eauto].
Qed.

Lemma new_ring_sinv : forall n interval now p k fw fa, (2 <= n)%nat -> 0 < interval ->
  sinv (new_ring n interval now p k fw fa) [].
Proof.
  intros n interval now p k fw fa Hn Hi. unfold new_ring. set (r0 := {| r_buckets := _ |}).
  assert (Hnb : nb r0 = n).
  { unfold nb, r0. simpl. destruct n as [|n']; [lia|]. simpl. rewrite repeat_length. reflexivity. }
  assert (G : forall m, (forall j, b_stats (bk (Nat.iter m rollover_core r0) j) = [])
                        /\ nb (Nat.iter m rollover_core r0) = n /\ (r_head (Nat.iter m rollover_core r0) < n)%nat).
  { induction m.
    - simpl. split; [|split; [assumption|simpl; lia]].
      intros j. unfold bk, r0. cbn [r_buckets]. destruct n as [|n']; [lia|]. simpl.
      destruct j; [reflexivity|]. destruct (Nat.lt_ge_cases j (length (repeat (empty_bucket 0 0) n'))).
      + assert (X : In (nth j (repeat (empty_bucket 0 0) n') (empty_bucket 0 0)) (repeat (empty_bucket 0 0) n')) by (apply nth_In; assumption).
        apply repeat_spec in X. rewrite X. reflexivity.
      + rewrite nth_overflow by assumption. reflexivity.
    - destruct IHm as (A & B & C).
      change (Nat.iter (S m) rollover_core r0) with (rollover_core (Nat.iter m rollover_core r0)).
      split; [|split].
      + intros j. rewrite rollover_bk by lia. destruct (Nat.eqb j _); [reflexivity|apply A].
      + rewrite rollover_core_nb. assumption.
      + rewrite rollover_core_head. unfold next_idx, idx_add. rewrite B. apply Nat.mod_upper_bound. lia. }
  destruct (G n) as (A & _ & _). split; [constructor|].
  intros j _. rewrite A. split; [constructor|]. intros q. reflexivity.
Qed.

(* Statistics, for every valid configuration and every history *)
Lemma statistics_all_histories : forall n interval now p k fa ops gte lt res,
  (1 <= k)%nat -> (p + k + 2 <= n)%nat -> 0 < interval ->
  let r0 := new_ring n interval now p k true fa in
  let r := run_state r0 ops in
  let log := run_log r0 [] ops in
  statistics r gte lt = Some res ->
  exists ys ye, (ys < nb r)%nat /\ (ye < nb r)%nat
    /\ (if gte =? 0 then ys = (nb r - 1)%nat else b_start (bk r (sub r ys)) <= gte < b_end (bk r (sub r ys)))
    /\ (if lt =? 0 then ye = 0%nat else b_start (bk r (sub r ye)) <= lt < b_end (bk r (sub r ye)))
    /\ ((ye <= ys)%nat -> forall q,
          alookup q res = sem (fun f => (b_start (bk r (sub r ys)) <=? f_start f) && (f_start f <? b_start (bk r (sub r ye)))
                                        && N.eqb (pol_of (f_key f)) q) log).
Proof.
  intros n interval now p k fa ops gte lt res Hk Hc Hi r0 r log E.
  apply (statistics_sums r log gte lt res); auto.
  - apply reachable_ok; lia.
  - apply (run_sinv ops r0 []); [apply new_ring_winv; assumption|apply new_ring_sinv; lia].
Qed.

(* ---- the key sets of the buckets (AggregationBucket.Flows) ---- *)
Definition kin (r : ring) (k : N) (j : nat) (f : flow) : bool := N.eqb (f_key f) k && inb r j f.

Definition kinv (r : ring) (log : list flow) : Prop :=
  forall j, (j < nb r)%nat -> forall k, In k (b_keys (bk r j)) <-> existsb (kin r k j) log = true.

Lemma set_add_in : forall k k' l, In k (set_add k' l) <-> k = k' \/ In k l.
Proof.
  intros. unfold set_add. destruct (existsb (N.eqb k') l) eqn:E.
  - apply existsb_exists in E. destruct E as (x & Hx & E). apply N.eqb_eq in E. subst x. split; [tauto|intros [->|]; assumption].
  - rewrite in_app_iff. simpl. split; [intros [|[|[]]]; auto|intros [|]; auto].
Qed.

Lemma set_union_in : forall b a k, In k (set_union a b) <-> In k a \/ In k b.
Proof.
  unfold set_union. induction b; intros a0 k; simpl; [tauto|]. rewrite IHb, set_add_in. split; intros; intuition.
Qed.

Lemma add_flow_kinv : forall r f log, ring_ok r -> kinv r log ->
  kinv (fst (add_flow r f)) (match snd (add_flow r f) with Some _ => log ++ [f] | None => log end).
Proof.
  intros r f log Hok K. destruct (add_flow r f) as [r' ob] eqn:E.
  pose proof (add_flow_counted_once r f r' ob Hok E) as H. cbn [fst snd].
  destruct ob as [b|]; [|destruct H as [_ ->]; assumption].
  destruct H as (Hr & idx & Hidx & Hb & Hrange & Huniq & Hbk1 & Hbk2 & _).
  pose proof (add_flow_frame r f) as F. rewrite E in F. cbn [fst] in F. destruct F as (Fnb & Fhd & Fiv & Fse).
  assert (Hinb : forall j g, inb r' j g = inb r j g).
  { intros. unfold inb, in_bucket. rewrite (proj1 (Fse j)), (proj2 (Fse j)). reflexivity. }
  intros j Hj k. rewrite Fnb in Hj.
  rewrite (existsb_ext_in (kin r' k j) (kin r k j)) by (intros; unfold kin; rewrite Hinb; reflexivity).
  rewrite existsb_app. simpl. rewrite orb_false_r, orb_true_iff, <- (K j Hj k).
  destruct (Nat.eq_dec j idx) as [->|Hne].
  - rewrite Hbk1. cbn [bucket_add b_keys]. rewrite set_add_in. unfold kin, inb.
    assert (Hin : in_bucket (bk r idx) (f_start f) = true).
    { apply in_bucket_iff. destruct (find_bucket_spec r (f_start f) Hok) as [Hfb _].
      destruct (Hfb Hr) as (idx' & _ & Hl' & _ & Hr' & _ & _ & _).
      assert (idx' = idx) by (apply Huniq; assumption). subst. assumption. }
    rewrite Hin, andb_true_r, N.eqb_eq. split; intros [A|A]; auto.
  - rewrite Hbk2 by assumption. unfold kin, inb.
    destruct (in_bucket (bk r j) (f_start f)) eqn:X.
    + exfalso. apply Hne. apply Huniq; [assumption|]. apply in_bucket_iff. assumption.
    + rewrite andb_false_r. split; [auto|intros [|]; [assumption|discriminate]].
Qed.

Lemma rollover_kinv : forall r log, ring_ok r -> Forall (fun f => f_start f < eoh r) log -> kinv r log ->
  kinv (rollover_core r) log.
Proof.
  intros r log Hok C K j Hj k. pose proof Hok as (Hn & Hh & Hi & _). rewrite rollover_core_nb in Hj.
  assert (Hq : forall f, kin (rollover_core r) k j f =
            if Nat.eqb j (next_idx r (r_head r)) then N.eqb (f_key f) k && in_bucket (empty_bucket (eoh r) (eoh r + r_interval r)) (f_start f)
            else kin r k j f).
  { intros. unfold kin, inb. rewrite rollover_bk by assumption. destruct (Nat.eqb j _); reflexivity. }
  rewrite rollover_bk by assumption.
  destruct (Nat.eqb_spec j (next_idx r (r_head r))) as [E|E].
  - cbn [empty_bucket b_keys]. rewrite existsb_false_forall; [split; [intros []|discriminate]|].
    intros f Hf. rewrite Hq. rewrite Forall_forall in C. specialize (C f Hf). unfold in_bucket. cbn [empty_bucket b_start b_end].
    destruct (Z.leb_spec (eoh r) (f_start f)); [lia|]. cbn [andb]. apply andb_false_r.
  - rewrite (existsb_ext_in _ (kin r k j)) by (intros; apply Hq). apply K. assumption.
Qed.

Lemma emit_kinv : forall r r' sent log, ring_ok r -> cfg_ok r -> kinv r log -> emit r = Some (r', sent) -> kinv r' log.
Proof.
  intros r r' sent log Hok Hcfg K E.
  destruct (emit_spec r Hok Hcfg) as (m & r'' & sent' & E' & _ & _ & Hnb & Hhd & _ & _ & _ & _ & _ & _ & Hbk).
  rewrite E in E'. injection E' as <- <-.
  intros j Hj k. rewrite Hnb in Hj.
  assert (X : b_keys (bk r' j) = b_keys (bk r j) /\ forall f, kin r' k j f = kin r k j f).
  { rewrite Hbk by assumption. unfold kin, inb. rewrite Hbk by assumption. destruct (existsb _ sent); split; reflexivity. }
  destruct X as [-> X]. rewrite (existsb_ext_in _ (kin r k j)) by (intros; apply X). apply K. assumption.
Qed.

(* the gathering step of maybeBuildFlowCollection: the keys collected for the window W x are exactly the keys of the
   accepted flows whose start time lies in the window's interval *)
Lemma fold_union_in : forall r idxs acc k,
  In k (fold_left (fun acc i => set_union acc (b_keys (bk r i))) idxs acc) <-> In k acc \/ exists i, In i idxs /\ In k (b_keys (bk r i)).
Proof.
  induction idxs; intros acc k; simpl.
  - split; [auto|intros [|(i & [] & _)]; assumption].
  - rewrite IHidxs, set_union_in. split.
    + intros [[|]|(i & Hi & Hk)]; eauto.
    + intros [|(i & [<-|Hi] & Hk)]; eauto.
Qed.

Lemma window_keys_complete : forall r log x k, ring_ok r -> kinv r log -> Forall (fun f => f_start f < eoh r) log ->
  (x + r_agg r < nb r)%nat ->
  (In k (fold_left (fun acc i => set_union acc (b_keys (bk r i))) (c_buckets (W r x)) [])
   <-> existsb (fun f => N.eqb (f_key f) k && ((c_start (W r x) <=? f_start f) && (f_start f <? c_end (W r x)))) log = true).
Proof.
  intros r log x k Hok K C Hx. rewrite fold_union_in. rewrite buckets_W by assumption.
  assert (Hs : c_start (W r x) = b_start (bk r (sub r (x + r_agg r))) /\ c_end (W r x) = b_start (bk r (sub r x))) by (split; reflexivity).
  destruct Hs as [-> ->]. rewrite Forall_forall in C. split.
  - intros [[]|(i & Hi & Hk)]. apply in_map_iff in Hi. destruct Hi as (y & <- & Hy).
    apply (K (sub r y) (sub_lt r y Hok)) in Hk. apply existsb_exists in Hk. destruct Hk as (f & Hf & Hk).
    apply existsb_exists. exists f. split; [assumption|]. unfold kin in Hk. apply andb_true_iff in Hk. destruct Hk as [A B].
    rewrite A. cbn [andb]. rewrite <- (slots_range r x (r_agg r) f Hok Hx (C f Hf)).
    apply existsb_exists. exists (sub r y). split; [apply in_map; assumption|assumption].
  - intros H. right. apply existsb_exists in H. destruct H as (f & Hf & H). apply andb_true_iff in H. destruct H as [A B].
    rewrite <- (slots_range r x (r_agg r) f Hok Hx (C f Hf)) in B. apply existsb_exists in B. destruct B as (j & Hj & B).
    exists j. split; [assumption|]. apply in_map_iff in Hj. destruct Hj as (y & <- & Hy).
    apply (K (sub r y) (sub_lt r y Hok)). apply existsb_exists. exists f. split; [assumption|]. unfold kin. rewrite A, B. reflexivity.
Qed.

Lemma step_kinv : forall r em log o, winv r em -> sinv r log -> kinv r log -> kinv (fst (step r o)) (log_step r log o).
Proof.
  intros r em log o (Hok & Hcfg & Hp) Hs K. destruct o as [f|[|]| |gte lt|gte lt]; cbn [log_step].
  - assert (E1 : fst (step r (OpAdd f)) = fst (add_flow r f)) by (simpl; destruct (add_flow r f); reflexivity).
    rewrite E1. apply add_flow_kinv; assumption.
  - pose proof (rollover_kinv r log Hok (proj1 Hs) K) as H1.
    destruct (emit_winv _ _ (rollover_winv r em (conj Hok (conj Hcfg Hp)))) as (r2 & sent & E & _).
    cbn [step]. rewrite E. cbn [fst].
    apply (emit_kinv (rollover_core r) r2 sent log);
      [apply rollover_ok; assumption | apply (cfg_ok_same r); auto; apply rollover_core_nb | assumption | assumption].
  - simpl. apply rollover_kinv; [assumption|apply Hs|assumption].
  - destruct (emit_winv _ _ (conj Hok (conj Hcfg Hp))) as (r2 & sent & E & _).
    cbn [step]. rewrite E. cbn [fst]. apply (emit_kinv r r2 sent log); assumption.
  - assumption.
  - assumption.
Qed.

Lemma run_kinv : forall ops r em log, winv r em -> sinv r log -> kinv r log ->
  kinv (run_state r ops) (run_log r log ops).
Proof.
  induction ops as [|o ops IH]; intros r em log Hw Hs K; simpl; [assumption|].
  eapply IH; [apply (step_winv r em o Hw)|eapply step_sinv; eauto|eapply step_kinv; eauto].
Qed.

Lemma new_ring_kinv : forall n interval now p k fw fa, (2 <= n)%nat -> kinv (new_ring n interval now p k fw fa) [].
Proof.
  intros n interval now p k fw fa Hn. unfold new_ring. set (r0 := {| r_buckets := _ |}).
  assert (Hnb : nb r0 = n).
  { unfold nb, r0. simpl. destruct n as [|n']; [lia|]. simpl. rewrite repeat_length. reflexivity. }
  assert (G : forall m, (forall j, b_keys (bk (Nat.iter m rollover_core r0) j) = [])
                        /\ nb (Nat.iter m rollover_core r0) = n /\ (r_head (Nat.iter m rollover_core r0) < n)%nat).
  { induction m.
    - simpl. split; [|split; [assumption|simpl; lia]].
      intros j. unfold bk, r0. cbn [r_buckets]. destruct n as [|n']; [lia|]. simpl.
      destruct j; [reflexivity|]. destruct (Nat.lt_ge_cases j (length (repeat (empty_bucket 0 0) n'))).
      + assert (X : In (nth j (repeat (empty_bucket 0 0) n') (empty_bucket 0 0)) (repeat (empty_bucket 0 0) n')) by (apply nth_In; assumption).
        apply repeat_spec in X. rewrite X. reflexivity.
      + rewrite nth_overflow by assumption. reflexivity.
    - destruct IHm as (A & B & C).
      change (Nat.iter (S m) rollover_core r0) with (rollover_core (Nat.iter m rollover_core r0)).
      split; [|split].
      + intros j. rewrite rollover_bk by lia. destruct (Nat.eqb j _); [reflexivity|apply A].
      + rewrite rollover_core_nb. assumption.
      + rewrite rollover_core_head. unfold next_idx, idx_add. rewrite B. apply Nat.mod_upper_bound. lia. }
  destruct (G n) as (A & _ & _). intros j _ q. rewrite A. simpl. split; [intros []|discriminate].
Qed.

(* every window the walk builds, in every reachable state: the gathered keys are exactly the keys of the accepted
   flows that start inside the window *)
Lemma window_keys_all_histories : forall n interval now p k fa ops x key,
  (1 <= k)%nat -> (p + k + 2 <= n)%nat -> 0 < interval ->
  let r0 := new_ring n interval now p k true fa in
  let r := run_state r0 ops in
  let log := run_log r0 [] ops in
  (x + r_agg r < nb r)%nat ->
  (In key (fold_left (fun acc i => set_union acc (b_keys (bk r i))) (c_buckets (W r x)) [])
   <-> existsb (fun f => N.eqb (f_key f) key && ((c_start (W r x) <=? f_start f) && (f_start f <? c_end (W r x)))) log = true).
Proof.
  intros n interval now p k fa ops x key Hk Hc Hi r0 r log Hx.
  assert (Hw : winv r0 []) by (apply new_ring_winv; assumption).
  assert (Hs : sinv r0 []) by (apply new_ring_sinv; lia).
  apply window_keys_complete; auto.
  - apply reachable_ok; lia.
  - apply (run_kinv ops r0 []); auto. apply new_ring_kinv. lia.
  - apply (run_sinv ops r0 [] [] Hw Hs).
Qed.
