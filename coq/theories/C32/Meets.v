(* C32 — ingredients for c32_model_meets_spec (exact acceptance of the model's outputs by the oracle of Spec.v). *)
From Coq Require Import List ZArith NArith Arith Bool Lia Sorting.Sorted.
From Verif.C32 Require Import Model Spec Proofs Walk Conserve Dia.
Import ListNotations.
Open Scope Z_scope.

Definition klt {A} (a b : N * A) : Prop := (fst a < fst b)%N.

(* two key-sorted (hence duplicate-free) association lists with the same lookup are equal *)
Lemma sorted_lookup_ext : forall A (l1 l2 : list (N * A)),
  StronglySorted klt l1 -> StronglySorted klt l2 -> (forall k, alookup k l1 = alookup k l2) -> l1 = l2.
Proof.
  intros A. induction l1 as [|[k1 v1] t1 IH]; intros l2 S1 S2 H.
  - destruct l2 as [|[k2 v2] t2]; [reflexivity|]. specialize (H k2). simpl in H. rewrite N.eqb_refl in H. discriminate.
  - destruct l2 as [|[k2 v2] t2]; [specialize (H k1); simpl in H; rewrite N.eqb_refl in H; discriminate|].
    inversion S1; subst. inversion S2; subst. rewrite Forall_forall in H3, H5.
    assert (Hnone : forall (t : list (N * A)) k, (forall x, In x t -> (k < fst x)%N) -> alookup k t = None).
    { induction t as [|[k0 v0] tl IHt]; intros k Hk; simpl; [reflexivity|].
      destruct (N.eqb_spec k k0) as [->|]; [specialize (Hk (k0, v0) (or_introl eq_refl)); simpl in Hk; lia|].
      apply IHt. intros; apply Hk; right; assumption. }
    assert (Ek : k1 = k2).
    { destruct (N.lt_trichotomy k1 k2) as [Hlt|[E|Hgt]]; [exfalso|assumption|exfalso].
      - specialize (H k1). simpl in H. rewrite N.eqb_refl in H. destruct (N.eqb_spec k1 k2); [lia|].
        rewrite (Hnone t2 k1) in H; [discriminate|]. intros x Hx. specialize (H5 x Hx). unfold klt in H5. simpl in H5. lia.
      - specialize (H k2). simpl in H. rewrite N.eqb_refl in H. destruct (N.eqb_spec k2 k1); [lia|].
        rewrite (Hnone t1 k2) in H; [discriminate|]. intros x Hx. specialize (H3 x Hx). unfold klt in H3. simpl in H3. lia. }
    subst k2. pose proof (H k1) as H1. simpl in H1. rewrite N.eqb_refl in H1. injection H1 as ->.
    f_equal. apply IH; auto. intros k. specialize (H k). simpl in H.
    destruct (N.eqb_spec k k1) as [E|]; [|assumption]. subst k.
    rewrite (Hnone t1 k1), (Hnone t2 k1); [reflexivity| |].
    + intros x Hx. specialize (H5 x Hx). unfold klt in H5. simpl in H5. lia.
    + intros x Hx. specialize (H3 x Hx). unfold klt in H3. simpl in H3. lia.
Qed.

(* insertion sort by key of a list with distinct keys is strictly sorted *)
Lemma insert_by_sorted : forall A (x : N * A) l, StronglySorted klt l -> ~ In (fst x) (map fst l) ->
  StronglySorted klt (insert_by fst x l).
Proof.
  intros A x. induction l as [|y tl IH]; intros S Hn; simpl; [constructor; constructor|].
  inversion S; subst. destruct (N.leb_spec (fst x) (fst y)).
  - constructor; [assumption|]. constructor.
    + unfold klt. simpl in Hn. assert (fst y <> fst x) by tauto. lia.
    + rewrite Forall_forall in *. intros z Hz. specialize (H2 z Hz). unfold klt in *.
      simpl in Hn. assert (fst y <> fst x) by tauto. lia.
  - constructor; [apply IH; [assumption|simpl in Hn; tauto]|].
    rewrite Forall_forall in *. intros z Hz. apply insert_by_in in Hz. destruct Hz as [->|Hz]; [unfold klt; lia|apply H2; assumption].
Qed.

Lemma sort_by_keys : forall A (l : list (N * A)) k, In k (map fst (sort_by fst l)) <-> In k (map fst l).
Proof.
  intros A l k. rewrite !in_map_iff. split; intros (x & E & Hx); exists x; split; auto; apply sort_by_in in Hx || apply sort_by_in; assumption.
Qed.

Lemma sort_by_sorted : forall A (l : list (N * A)), NoDup (map fst l) -> StronglySorted klt (sort_by fst l).
Proof.
  induction l as [|x tl IH]; simpl; intros Hnd; [constructor|]. inversion Hnd; subst.
  apply insert_by_sorted; [apply IH; assumption|]. rewrite sort_by_keys. assumption.
Qed.

(* Spec.group: the specification's own grouping of a list of flows has distinct keys and, per group key, the sum of
   the counts of the flows of that group (None when there is none) *)
Definition cntof (o : option (cnt * Z * Z)) : option cnt := option_map (fun x => fst (fst x)) o.

Lemma group_fold_cnt : forall interval (s : sstate) (kf : N -> N) fs acc, NoDup (map fst acc) ->
  NoDup (map fst (fold_left (group_step interval s kf) fs acc))
  /\ forall k, cntof (alookup k (fold_left (group_step interval s kf) fs acc))
               = oplus (cntof (alookup k acc)) (sem (fun f => N.eqb (kf (f_key f)) k) fs).
Proof.
  intros interval s kf. induction fs as [|f fs IH]; intros acc Hnd; simpl.
  - split; [assumption|]. intros k. reflexivity.
  - assert (Hnd' : NoDup (map fst (group_step interval s kf acc f))) by (unfold group_step; apply aupdate_nodup; assumption).
    destruct (IH _ Hnd') as [N1 L1]. split; [assumption|]. intros k. rewrite L1.
    unfold group_step at 1. rewrite alookup_aupdate. unfold sem. simpl.
    rewrite (N.eqb_sym (kf (f_key f)) k).
    destruct (N.eqb_spec k (kf (f_key f))) as [->|Hne]; simpl.
    + destruct (alookup (kf (f_key f)) acc) as [[[c0 s0] e0]|]; simpl;
        destruct (existsb (fun f0 => N.eqb (kf (f_key f0)) (kf (f_key f))) fs) eqn:Ex; simpl.
      * rewrite !cadd_assoc. reflexivity.
      * rewrite (sumf_none _ fs Ex), cadd_zero_r. reflexivity.
      * reflexivity.
      * rewrite (sumf_none _ fs Ex), cadd_zero_r. reflexivity.
    + reflexivity.
Qed.

Lemma group_sums : forall interval (s : sstate) (kf : N -> N) fs,
  StronglySorted klt (group interval s kf fs)
  /\ forall k, cntof (alookup k (group interval s kf fs)) = sem (fun f => N.eqb (kf (f_key f)) k) fs.
Proof.
  intros interval s kf fs. unfold group.
  destruct (group_fold_cnt interval s kf fs [] (NoDup_nil _)) as [N1 L1].
  split; [apply sort_by_sorted; assumption|]. intros k. rewrite alookup_sort, L1. simpl.
  destruct (sem _ fs); reflexivity.
Qed.
