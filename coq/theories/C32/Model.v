(* C32 — executable model of goldmane/pkg/storage: BucketRing (bucket_ring.go), AggregationBucket (bucket.go),
   DiachronicFlow (diachronic_flow.go) and the default time index (ring_index.go), as the code is.
   Definitions only, no proofs.

   Time is Z (unix seconds).  Ring positions are nat indices into the bucket slice.  A flow is (key, start, counts);
   counts are (PacketsIn, BytesIn) - every other summable counter of types.Flow is handled by the same `+=` lines.
   A flow key carries one enforced policy hit; `pol_of` maps the key to that policy (the driver uses the same map).

   Go maps / sets appear here as duplicate-free lists; every observable produced from one is sorted by key before it
   is compared (the driver sorts the implementation's output the same way), so Go map iteration order never matters. *)
From Coq Require Import List ZArith NArith Arith Bool Lia.
Import ListNotations.
Open Scope Z_scope.

Definition cnt := (Z * Z)%type.
Definition cadd (a b : cnt) : cnt := (fst a + fst b, snd a + snd b).
Definition czero : cnt := (0, 0).
Definition cnt_eqb (a b : cnt) : bool := Z.eqb (fst a) (fst b) && Z.eqb (snd a) (snd b).

Record flow := { f_key : N; f_start : Z; f_cnt : cnt }.

(* diachronic_flow.go: Window *)
Record window := { w_start : Z; w_end : Z; w_cnt : cnt }.

(* bucket.go: AggregationBucket.  b_keys = Flows (set of DiachronicFlow, identified by key);
   b_stats = the statistics index restricted to what the driver queries: per policy (PacketsIn, BytesIn). *)
Record bucket := { b_start : Z; b_end : Z; b_pushed : bool; b_keys : list N; b_stats : list (N * cnt) }.

Record ring := {
  r_buckets : list bucket;
  r_head : nat;
  r_interval : Z;
  r_push_after : nat;
  r_agg : nat;                      (* bucketsToAggregate *)
  r_dia : list (N * list window);   (* diachronics: key -> Windows (oldest first) *)
  (* which of the two repairs under /verif/fixes/C32-*.patch the tree under test carries; the driver probes the
     real code for both and records the answer in every case (false, false = the pinned tree) *)
  r_fix_walk : bool;                (* EmitFlowCollections also stops when the next window would START at the head *)
  r_fix_agg : bool                  (* Aggregate returns nil when no window lies wholly inside the range *)
}.

Definition pol_of (k : N) : N := N.modulo k 3.

Definition empty_bucket (s e : Z) : bucket :=
  {| b_start := s; b_end := e; b_pushed := false; b_keys := []; b_stats := [] |}.

Definition nb (r : ring) : nat := length (r_buckets r).
Definition bk (r : ring) (i : nat) : bucket := nth i (r_buckets r) (empty_bucket 0 0).

(* indexAdd / indexSubtract / nextBucketIndex.  Go: (idx - n + len) % len; equal to this for n <= idx + len,
   which the configuration guard `valid_cfg` ensures. *)
Definition idx_add (len i m : nat) : nat := Nat.modulo (i + m) len.
Definition idx_sub (len i m : nat) : nat := Nat.modulo (i + len - m) len.
Definition next_idx (r : ring) (i : nat) : nat := idx_add (nb r) i 1.

Definition boh (r : ring) : Z := b_start (bk r (next_idx r (r_head r))).   (* BeginningOfHistory *)
Definition eoh (r : ring) : Z := b_end (bk r (r_head r)).                  (* EndOfHistory *)

Definition in_bucket (b : bucket) (t : Z) : bool := (b_start b <=? t) && (t <? b_end b).

(* findBucket's fallback linear scan: from the head backwards, at most one lap. *)
Fixpoint scan_back (r : ring) (fuel : nat) (i : nat) (t : Z) : option nat :=
  match fuel with
  | O => None
  | S fuel' =>
      if in_bucket (bk r i) t then Some i
      else let i' := idx_sub (nb r) i 1 in
           if Nat.eqb i' (r_head r) then None else scan_back r fuel' i' t
  end.

Definition find_bucket (r : ring) (t : Z) : option nat :=
  let hd := bk r (r_head r) in
  if (b_end hd <=? t) || (t <? boh r) then None
  else
    let back := Z.to_nat (Z.quot (b_end hd - 1 - t) (r_interval r)) in
    let idx := idx_sub (nb r) (r_head r) back in
    if in_bucket (bk r idx) t then Some idx
    else scan_back r (nb r) (r_head r) t.

(* ---- DiachronicFlow ---- *)

(* AddFlow: sort.Search for the first window with start >= s (windows are kept sorted by start), then
   append / insert / add to it. *)
Fixpoint win_add (ws : list window) (s e : Z) (c : cnt) : list window :=
  match ws with
  | [] => [ {| w_start := s; w_end := e; w_cnt := c |} ]
  | w :: ws' =>
      if s <=? w_start w then
        if w_start w =? s then {| w_start := w_start w; w_end := w_end w; w_cnt := cadd (w_cnt w) c |} :: ws'
        else {| w_start := s; w_end := e; w_cnt := c |} :: w :: ws'
      else w :: win_add ws' s e c
  end.

(* Rollover(limiter): drop the leading windows with end <= limiter *)
Fixpoint win_roll (ws : list window) (limiter : Z) : list window :=
  match ws with
  | [] => []
  | w :: ws' => if limiter <? w_end w then ws else win_roll ws' limiter
  end.

Definition t_ge (bound t : Z) : bool := (bound =? 0) || (bound <=? t).    (* startGte == 0 || t >= startGte *)
Definition t_lt (bound t : Z) : bool := (bound =? 0) || (t <? bound).
Definition t_le (bound t : Z) : bool := (bound =? 0) || (t <=? bound).

(* Within *)
Definition dia_within (ws : list window) (gte lt : Z) : bool :=
  existsb (fun w => t_ge gte (w_start w) && t_lt lt (w_start w)) ws.
(* GetWindows *)
Definition get_windows (ws : list window) (gte lt : Z) : list window :=
  filter (fun w => t_ge gte (w_start w) && t_le lt (w_end w)) ws.

(* an aggregated flow as observed: key, counts, StartTime, EndTime *)
Record aflow := { a_key : N; a_cnt : cnt; a_start : Z; a_end : Z }.

(* AggregateWindows *)
Definition agg_step (a : aflow) (w : window) : aflow :=
  {| a_key := a_key a; a_cnt := cadd (a_cnt a) (w_cnt w);
     a_start := if (a_start a =? 0) || (w_start w <? a_start a) then w_start w else a_start a;
     a_end := if (a_end a =? 0) || (a_end a <? w_end w) then w_end w else a_end a |}.
Definition aggregate_windows (k : N) (ws : list window) : aflow :=
  fold_left agg_step ws {| a_key := k; a_cnt := czero; a_start := 0; a_end := 0 |}.
(* Aggregate *)
Definition dia_aggregate (fix_agg : bool) (k : N) (ws : list window) (gte lt : Z) : option aflow :=
  if dia_within ws gte lt then
    match get_windows ws gte lt with
    | [] => if fix_agg then None else Some (aggregate_windows k [])
    | wl => Some (aggregate_windows k wl)
    end
  else None.

(* ---- association lists ---- *)
Fixpoint alookup {A} (k : N) (l : list (N * A)) : option A :=
  match l with
  | [] => None
  | (k', v) :: l' => if N.eqb k k' then Some v else alookup k l'
  end.
Fixpoint aupdate {A} (k : N) (f : option A -> A) (l : list (N * A)) : list (N * A) :=
  match l with
  | [] => [(k, f None)]
  | (k', v) :: l' => if N.eqb k k' then (k', f (Some v)) :: l' else (k', v) :: aupdate k f l'
  end.
Fixpoint aremove {A} (k : N) (l : list (N * A)) : list (N * A) :=
  match l with
  | [] => []
  | (k', v) :: l' => if N.eqb k k' then l' else (k', v) :: aremove k l'
  end.
Definition set_add (k : N) (l : list N) : list N := if existsb (N.eqb k) l then l else l ++ [k].
Definition set_union (a b : list N) : list N := fold_left (fun acc k => set_add k acc) b a.

Fixpoint insert_by {A} (key : A -> N) (x : A) (l : list A) : list A :=
  match l with
  | [] => [x]
  | y :: l' => if N.leb (key x) (key y) then x :: l else y :: insert_by key x l'
  end.
Definition sort_by {A} (key : A -> N) (l : list A) : list A := fold_right (insert_by key) [] l.

Definition stats_add (p : N) (c : cnt) (st : list (N * cnt)) : list (N * cnt) :=
  aupdate p (fun o => match o with Some v => cadd v c | None => c end) st.

Fixpoint update_nth {A} (i : nat) (f : A -> A) (l : list A) : list A :=
  match l, i with
  | [], _ => []
  | x :: l', O => f x :: l'
  | x :: l', S i' => x :: update_nth i' f l'
  end.

Definition with_buckets (r : ring) (bs : list bucket) : ring :=
  {| r_buckets := bs; r_head := r_head r; r_interval := r_interval r; r_push_after := r_push_after r;
     r_agg := r_agg r; r_dia := r_dia r; r_fix_walk := r_fix_walk r; r_fix_agg := r_fix_agg r |}.
Definition with_dia (r : ring) (d : list (N * list window)) : ring :=
  {| r_buckets := r_buckets r; r_head := r_head r; r_interval := r_interval r; r_push_after := r_push_after r;
     r_agg := r_agg r; r_dia := d; r_fix_walk := r_fix_walk r; r_fix_agg := r_fix_agg r |}.
Definition with_head (r : ring) (h : nat) : ring :=
  {| r_buckets := r_buckets r; r_head := h; r_interval := r_interval r; r_push_after := r_push_after r;
     r_agg := r_agg r; r_dia := r_dia r; r_fix_walk := r_fix_walk r; r_fix_agg := r_fix_agg r |}.

(* ---- AddFlow ---- *)
Definition bucket_add (f : flow) (b : bucket) : bucket :=
  {| b_start := b_start b; b_end := b_end b; b_pushed := b_pushed b;
     b_keys := set_add (f_key f) (b_keys b);
     b_stats := stats_add (pol_of (f_key f)) (f_cnt f) (b_stats b) |}.

Definition add_flow (r : ring) (f : flow) : ring * option Z :=
  match find_bucket r (f_start f) with
  | None => (r, None)
  | Some idx =>
      let b := bk r idx in
      let d := aupdate (f_key f)
                 (fun o => win_add (match o with Some ws => ws | None => [] end) (b_start b) (b_end b) (f_cnt f))
                 (r_dia r) in
      (with_buckets (with_dia r d) (update_nth idx (bucket_add f) (r_buckets r)), Some (b_start b))
  end.

(* ---- Rollover (without the emission at its end) ---- *)
Definition roll_key (limiter : Z) (d : list (N * list window)) (k : N) : list (N * list window) :=
  match alookup k d with
  | None => d
  | Some ws =>
      let ws' := win_roll ws limiter in
      match ws' with
      | [] => aremove k d
      | _ => aupdate k (fun _ => ws') d
      end
  end.

Definition rollover_core (r : ring) : ring :=
  let st := b_end (bk r (r_head r)) in
  let en := st + r_interval r in
  let h' := next_idx r (r_head r) in
  let old := b_keys (bk r h') in
  let r1 := with_head (with_buckets r (update_nth h' (fun _ => empty_bucket st en) (r_buckets r))) h' in
  with_dia r1 (fold_left (roll_key (boh r1)) old (r_dia r1)).

(* ---- EmitFlowCollections ---- *)
Record collection := { c_start : Z; c_end : Z; c_flows : list aflow; c_buckets : list nat }.

(* iterBuckets: indices from s up to (not including) e, wrapping; s = e gives nothing *)
Fixpoint iter_idx (len fuel s e : nat) : list nat :=
  match fuel with
  | O => []
  | S fuel' => if Nat.eqb s e then [] else s :: iter_idx len fuel' (idx_add len s 1) e
  end.

Definition index_between (s e t : nat) : bool :=
  if Nat.eqb s e then false
  else if Nat.ltb s e then Nat.ltb s t && Nat.ltb t e
  else Nat.ltb s t || Nat.ltb t e.

Definition build_collection (r : ring) (s e : nat) : collection :=
  let st := b_start (bk r s) in
  let en := b_start (bk r e) in
  let idxs := iter_idx (nb r) (nb r) s e in
  let keys := fold_left (fun acc i => set_union acc (b_keys (bk r i))) idxs [] in
  let fl := flat_map (fun k => match alookup k (r_dia r) with
                               | Some ws => match dia_aggregate (r_fix_agg r) k ws st en with Some a => [a] | None => [] end
                               | None => [] end) keys in
  {| c_start := st; c_end := en; c_flows := sort_by a_key fl; c_buckets := idxs |}.

(* the backward walk; result: collections newest first, or None when the fuel ran out (the Go loop does not
   terminate / has not terminated after `fuel` windows) *)
Fixpoint emit_walk (r : ring) (fuel : nat) (s e : nat) (acc : list collection) : option (list collection) :=
  match fuel with
  | O => None
  | S fuel' =>
      if b_pushed (bk r s) then Some acc
      else
        let acc' := acc ++ [build_collection r s e] in
        let e' := s in
        let s' := idx_sub (nb r) s (r_agg r) in
        if (r_fix_walk r && Nat.eqb s' (r_head r)) || index_between s' e' (r_head r) then Some acc'
        else emit_walk r fuel' s' e' acc'
  end.

Definition mark_pushed (bs : list bucket) (idxs : list nat) : list bucket :=
  fold_left (fun bs i => update_nth i (fun b => {| b_start := b_start b; b_end := b_end b; b_pushed := true;
                                                    b_keys := b_keys b; b_stats := b_stats b |}) bs) idxs bs.

Definition emit_fuel (r : ring) : nat := 2 * nb r + 4.

(* returns the new ring and the collections handed to the sink, oldest first *)
Definition emit (r : ring) : option (ring * list collection) :=
  let n := nb r in
  let e0 := idx_sub n (idx_sub n (r_head r) 1) (r_push_after r) in
  let s0 := idx_sub n e0 (r_agg r) in
  match emit_walk r (emit_fuel r) s0 e0 [] with
  | None => None
  | Some cols =>
      let sent := filter (fun c => negb (Nat.eqb (length (c_flows c)) 0)) (rev cols) in
      Some (with_buckets r (fold_left (fun bs c => mark_pushed bs (c_buckets c)) sent (r_buckets r)), sent)
  end.

(* ---- queries ---- *)
(* FlowSet + RingIndex.List (no filter, no pagination) *)
Definition flow_set (r : ring) (gte lt : Z) : list N :=
  fold_left (fun acc b => if t_ge gte (b_start b) && t_le lt (b_start b) then set_union acc (b_keys b) else acc)
            (r_buckets r) [].

Definition list_flows (r : ring) (gte lt : Z) : list aflow :=
  sort_by a_key
    (flat_map (fun k => match alookup k (r_dia r) with
                        | Some ws => match dia_aggregate (r_fix_agg r) k ws gte lt with Some a => [a] | None => [] end
                        | None => [] end) (flow_set r gte lt)).

(* iterBucketsTime + Statistics (GroupBy policy, no time series, no policy match) *)
Definition stats_merge (acc st : list (N * cnt)) : list (N * cnt) :=
  fold_left (fun acc pc => stats_add (fst pc) (snd pc) acc) st acc.

Definition statistics (r : ring) (gte lt : Z) : option (list (N * cnt)) :=
  let si := if gte =? 0 then Some (idx_add (nb r) (r_head r) 1) else find_bucket r gte in
  let ei := if lt =? 0 then Some (r_head r) else find_bucket r lt in
  match si, ei with
  | Some s, Some e =>
      Some (sort_by fst (fold_left (fun acc i => stats_merge acc (b_stats (bk r i))) (iter_idx (nb r) (nb r) s e) []))
  | _, _ => None
  end.

(* ---- NewBucketRing ---- *)
Definition new_ring (n : nat) (interval now : Z) (push_after agg : nat) (fix_walk fix_agg : bool) : ring :=
  let newest := now + interval in
  let oldest := newest - interval * Z.of_nat n in
  let bs := match repeat (empty_bucket 0 0) n with
            | [] => []
            | _ :: tl => empty_bucket oldest (oldest + interval) :: tl
            end in
  let r0 := {| r_buckets := bs; r_head := 0%nat; r_interval := interval; r_push_after := push_after;
               r_agg := agg; r_dia := []; r_fix_walk := fix_walk; r_fix_agg := fix_agg |} in
  Nat.iter n rollover_core r0.

(* ---- operations and observable outputs ---- *)
Inductive op :=
| OpAdd (f : flow)
| OpRollover (sink : bool)      (* Rollover(sink) ; sink = false is Rollover(nil) *)
| OpEmit                        (* EmitFlowCollections(sink), as goldmane does when a sink is attached *)
| OpList (gte lt : Z)
| OpStats (gte lt : Z).

Definition ocoll := (Z * Z * list aflow)%type.     (* StartTime, EndTime, flows sorted by key *)

Inductive out :=
| OAdd (bucket_start : option Z)   (* None: rejected *)
| OEmitted (cs : list ocoll)       (* what the sink received during this call, in order *)
| ODiverge                         (* the emission walk does not terminate *)
| OList (l : list aflow)
| OStats (s : option (list (N * cnt))).

Definition obs_coll (c : collection) : ocoll := (c_start c, c_end c, c_flows c).

Definition step (r : ring) (o : op) : ring * out :=
  match o with
  | OpAdd f => let '(r', b) := add_flow r f in (r', OAdd b)
  | OpRollover false => (rollover_core r, OEmitted [])
  | OpRollover true =>
      let r1 := rollover_core r in
      match emit r1 with
      | Some (r2, sent) => (r2, OEmitted (map obs_coll sent))
      | None => (r1, ODiverge)
      end
  | OpEmit =>
      match emit r with
      | Some (r2, sent) => (r2, OEmitted (map obs_coll sent))
      | None => (r, ODiverge)
      end
  | OpList gte lt => (r, OList (list_flows r gte lt))
  | OpStats gte lt => (r, OStats (statistics r gte lt))
  end.

Fixpoint run (r : ring) (ops : list op) : list out :=
  match ops with
  | [] => []
  | o :: ops' => let '(r', x) := step r o in x :: run r' ops'
  end.

Fixpoint run_state (r : ring) (ops : list op) : ring :=
  match ops with
  | [] => r
  | o :: ops' => run_state (fst (step r o)) ops'
  end.

(* configuration guard: what NewBucketRing is ever given by goldmane (interval > 0, at least 3 buckets) and
   index arithmetic that does not go negative in Go *)
Definition valid_cfg (n : nat) (interval : Z) (push_after agg : nat) : bool :=
  (3 <=? n)%nat && (0 <? interval) && (1 <=? agg)%nat && (push_after + agg + 2 <=? n)%nat.

(* ---- equality of observables ---- *)
Definition aflow_eqb (a b : aflow) : bool :=
  N.eqb (a_key a) (a_key b) && cnt_eqb (a_cnt a) (a_cnt b) && Z.eqb (a_start a) (a_start b) && Z.eqb (a_end a) (a_end b).
Fixpoint list_eqb {A} (eqb : A -> A -> bool) (a b : list A) : bool :=
  match a, b with
  | [], [] => true
  | x :: a', y :: b' => eqb x y && list_eqb eqb a' b'
  | _, _ => false
  end.
Definition ocoll_eqb (a b : ocoll) : bool :=
  let '(s1, e1, f1) := a in let '(s2, e2, f2) := b in Z.eqb s1 s2 && Z.eqb e1 e2 && list_eqb aflow_eqb f1 f2.
Definition pc_eqb (a b : N * cnt) : bool := N.eqb (fst a) (fst b) && cnt_eqb (snd a) (snd b).
Definition out_eqb (a b : out) : bool :=
  match a, b with
  | OAdd None, OAdd None => true
  | OAdd (Some x), OAdd (Some y) => Z.eqb x y
  | OEmitted x, OEmitted y => list_eqb ocoll_eqb x y
  | ODiverge, ODiverge => true
  | OList x, OList y => list_eqb aflow_eqb x y
  | OStats None, OStats None => true
  | OStats (Some x), OStats (Some y) => list_eqb pc_eqb x y
  | _, _ => false
  end.
