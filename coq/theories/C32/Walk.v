(* C32 — the emission walk of the repaired EmitFlowCollections: termination (distance-from-head measure), the shape
   of its result, and "every bucket interval goes to the sink at most once" (pushed flags + walk). *)
From Coq Require Import List ZArith NArith Arith Bool Lia.
From Verif.C32 Require Import Model Spec Proofs.
Import ListNotations.
Open Scope Z_scope.

Ltac nbash :=
  repeat match goal with
  | |- context [(?a <=? ?b)%nat] => destruct (Nat.leb_spec a b)
  | |- context [(?a <? ?b)%nat] => destruct (Nat.ltb_spec a b)
  | |- context [(?a =? ?b)%nat] => destruct (Nat.eqb_spec a b)
  | H : context [(?a <=? ?b)%nat] |- _ => destruct (Nat.leb_spec a b)
  | H : context [(?a <? ?b)%nat] |- _ => destruct (Nat.ltb_spec a b)
  | H : context [(?a =? ?b)%nat] |- _ => destruct (Nat.eqb_spec a b)
  end; simpl in *; try lia; try congruence.

(* ---- index arithmetic in terms of the distance `d` behind the head ---- *)
Lemma sub_sub : forall n h d k, (0 < n)%nat -> (h < n)%nat -> (d < n)%nat -> (k <= n)%nat -> (d + k <= n)%nat ->
  idx_sub n (idx_sub n h d) k = idx_sub n h (d + k).
Proof.
  intros. rewrite (idx_sub_spec n h d) by lia.
  destruct (Nat.leb_spec d h); rewrite !idx_sub_spec by lia; nbash.
Qed.

Lemma sub_full : forall n h, (0 < n)%nat -> (h < n)%nat -> idx_sub n h n = h.
Proof. intros. rewrite idx_sub_spec by lia. nbash. Qed.

Lemma sub_zero : forall n h, (0 < n)%nat -> (h < n)%nat -> idx_sub n h 0 = h.
Proof. intros. rewrite idx_sub_spec by lia. nbash. Qed.

Lemma sub_ne_head : forall n h d, (0 < n)%nat -> (h < n)%nat -> (1 <= d)%nat -> (d < n)%nat -> idx_sub n h d <> h.
Proof. intros. rewrite idx_sub_spec by lia. nbash. Qed.

Lemma between_false : forall n h d k, (0 < n)%nat -> (h < n)%nat -> (1 <= d)%nat -> (1 <= k)%nat -> (d + k < n)%nat ->
  index_between (idx_sub n h (d + k)) (idx_sub n h d) h = false.
Proof. intros. rewrite !idx_sub_spec by lia. unfold index_between. nbash. Qed.

Lemma add1_sub : forall n h d, (0 < n)%nat -> (h < n)%nat -> (1 <= d)%nat -> (d <= n)%nat ->
  idx_add n (idx_sub n h d) 1 = idx_sub n h (d - 1).
Proof.
  intros. rewrite (idx_sub_spec n h d) by lia.
  destruct (Nat.leb_spec d h); rewrite idx_add1_spec by lia; rewrite idx_sub_spec by lia; nbash.
Qed.

Lemma walk_stops : forall n h e k, (0 < n)%nat -> (h < n)%nat -> (1 <= e)%nat -> (e < n)%nat -> (1 <= k)%nat -> (k < n)%nat ->
  (n <= e + k)%nat ->
  (idx_sub n (idx_sub n h e) k =? h)%nat || index_between (idx_sub n (idx_sub n h e) k) (idx_sub n h e) h = true.
Proof.
  intros. rewrite (idx_sub_spec n h e) by lia.
  destruct (Nat.leb_spec e h); rewrite idx_sub_spec by lia; unfold index_between; nbash.
Qed.

Definition sub (r : ring) (d : nat) : nat := idx_sub (nb r) (r_head r) d.

Definition cfg_ok (r : ring) : Prop :=
  (1 <= r_agg r)%nat /\ (r_push_after r + r_agg r + 2 <= nb r)%nat /\ r_fix_walk r = true.

(* ---- termination and shape of the walk ---- *)
Fixpoint seqk (k d m : nat) : list nat :=
  match m with O => [] | S m' => d :: seqk k (d + k) m' end.

Definition W (r : ring) (x : nat) : collection := build_collection r (sub r (x + r_agg r)) (sub r x).

(* From a window whose end is d >= 1 steps behind the head and whose start d+k < n steps behind it, with fuel + d > n,
   the walk stops, and what it appends is W d, W (d+k), ..., each start slot unpushed and short of the head. *)
Lemma emit_walk_shape : forall r, ring_ok r -> cfg_ok r ->
  forall fuel d acc, (1 <= d)%nat -> (d + r_agg r < nb r)%nat -> (nb r < fuel + d)%nat ->
  exists m, emit_walk r fuel (sub r (d + r_agg r)) (sub r d) acc = Some (acc ++ map (W r) (seqk (r_agg r) d m))
    /\ forall x, In x (seqk (r_agg r) d m) ->
         (d <= x)%nat /\ (x + r_agg r < nb r)%nat /\ b_pushed (bk r (sub r (x + r_agg r))) = false
         /\ (x = d \/ exists x', In x' (seqk (r_agg r) d m) /\ x = (x' + r_agg r)%nat).
Proof.
  intros r (Hn & Hh & Hi & _) (Hk & Hcfg & Hfix).
  induction fuel as [|fuel IH]; intros d acc Hd Hdk Hf; [lia|].
  simpl. destruct (b_pushed (bk r (sub r (d + r_agg r)))) eqn:Ep.
  - exists 0%nat. simpl. rewrite app_nil_r. split; [reflexivity|]. intros x [].
  - rewrite Hfix. cbn [andb].
    destruct (Nat.le_gt_cases (nb r) (d + r_agg r + r_agg r)) as [Hge|Hlt].
    + (* the next window would reach or pass the head: stop *)
      assert (E1 : (idx_sub (nb r) (sub r (d + r_agg r)) (r_agg r) =? r_head r)%nat
                   || index_between (idx_sub (nb r) (sub r (d + r_agg r)) (r_agg r)) (sub r (d + r_agg r)) (r_head r) = true)
        by (unfold sub; apply walk_stops; lia).
      rewrite E1.
      exists 1%nat. simpl. split; [reflexivity|].
      intros x [<-|[]]. repeat split; auto.
    + assert (E1 : idx_sub (nb r) (sub r (d + r_agg r)) (r_agg r) = sub r (d + r_agg r + r_agg r))
        by (unfold sub; apply sub_sub; lia).
      rewrite E1.
      assert (E2 : (sub r (d + r_agg r + r_agg r) =? r_head r)%nat = false)
        by (apply Nat.eqb_neq; unfold sub; apply sub_ne_head; lia).
      assert (E3 : index_between (sub r (d + r_agg r + r_agg r)) (sub r (d + r_agg r)) (r_head r) = false)
        by (unfold sub; apply between_false; lia).
      rewrite E2, E3. cbn [orb].
      destruct (IH (d + r_agg r)%nat (acc ++ [build_collection r (sub r (d + r_agg r)) (sub r d)])) as (m & Em & Hm); try lia.
      exists (S m). simpl. rewrite Em, <- app_assoc. split; [reflexivity|].
      intros x [<-|Hx].
      * repeat split; auto.
      * destruct (Hm x Hx) as (A & B & C & D). repeat split; auto; try lia.
        right. destruct D as [->|(x' & Hx' & ->)].
        -- exists d. split; [left; reflexivity|reflexivity].
        -- exists x'. split; [right; assumption|reflexivity].
Qed.

(* ---- slots by distance ---- *)
Lemma sub_lt : forall r d, ring_ok r -> (sub r d < nb r)%nat.
Proof. intros r d (Hn & _). unfold sub. apply idx_sub_lt. lia. Qed.

Lemma slot_times : forall r y, ring_ok r -> (y < nb r)%nat ->
  b_start (bk r (sub r y)) = eoh r - (Z.of_nat y + 1) * r_interval r /\
  b_end (bk r (sub r y)) = eoh r - Z.of_nat y * r_interval r.
Proof. intros r y (Hn & Hh & Hi & Hc) Hy. apply Hc; assumption. Qed.

Lemma slot_is_sub : forall r j, ring_ok r -> (j < nb r)%nat -> exists y, (y < nb r)%nat /\ sub r y = j.
Proof. intros r j (Hn & Hh & _) Hj. unfold sub. apply idx_is_back; lia. Qed.

Lemma sub_inj : forall r y1 y2, ring_ok r -> (y1 < nb r)%nat -> (y2 < nb r)%nat -> sub r y1 = sub r y2 -> y1 = y2.
Proof. intros r y1 y2 (Hn & Hh & _) H1 H2. unfold sub. apply idx_sub_inj; lia. Qed.

(* iterBuckets from the slot x+k behind the head up to the slot x behind it visits the slots x+k, x+k-1, ..., x+1 *)
Fixpoint backs (x k : nat) : list nat :=
  match k with O => [] | S k' => (x + S k')%nat :: backs x k' end.

Lemma in_backs : forall x k y, In y (backs x k) <-> (x + 1 <= y <= x + k)%nat.
Proof. induction k; simpl; intros; [lia|]. rewrite IHk. lia. Qed.

Lemma iter_idx_backs : forall r, ring_ok r -> forall k x fuel, (x + k < nb r)%nat -> (k <= fuel)%nat ->
  iter_idx (nb r) fuel (sub r (x + k)) (sub r x) = map (sub r) (backs x k).
Proof.
  intros r Hok. pose proof Hok as (Hn & Hh & _).
  induction k; intros x fuel Hx Hf.
  - rewrite Nat.add_0_r. destruct fuel; simpl; [reflexivity|]. rewrite Nat.eqb_refl. reflexivity.
  - destruct fuel; [lia|]. simpl.
    destruct (Nat.eqb_spec (sub r (x + S k)) (sub r x)) as [E|E].
    + apply sub_inj in E; try assumption; lia.
    + f_equal. unfold sub at 1. rewrite add1_sub by lia.
      replace (x + S k - 1)%nat with (x + k)%nat by lia. apply IHk; lia.
Qed.

(* the time interval of W x *)
Definition ivalW (r : ring) (x : nat) : Z * Z :=
  (eoh r - (Z.of_nat (x + r_agg r) + 1) * r_interval r, eoh r - (Z.of_nat x + 1) * r_interval r).
Definition ival (c : collection) : Z * Z := (c_start c, c_end c).

Lemma ival_W : forall r x, ring_ok r -> (x + r_agg r < nb r)%nat -> ival (W r x) = ivalW r x.
Proof.
  intros r x Hok Hx. unfold ival, W, build_collection, ivalW. cbn [c_start c_end].
  rewrite (proj1 (slot_times r (x + r_agg r) Hok Hx)), (proj1 (slot_times r x Hok ltac:(lia))). reflexivity.
Qed.

Lemma buckets_W : forall r x, ring_ok r -> (x + r_agg r < nb r)%nat ->
  c_buckets (W r x) = map (sub r) (backs x (r_agg r)).
Proof. intros r x Hok Hx. unfold W, build_collection. cbn [c_buckets]. apply iter_idx_backs; auto; lia. Qed.

(* a slot lies in W x's bucket list iff its start time lies in W x's interval *)
Lemma in_buckets_W_iff : forall r x j, ring_ok r -> (x + r_agg r < nb r)%nat -> (j < nb r)%nat ->
  (In j (c_buckets (W r x)) <-> fst (ivalW r x) <= b_start (bk r j) < snd (ivalW r x)).
Proof.
  intros r x j Hok Hx Hj. rewrite buckets_W by assumption. rewrite in_map_iff.
  destruct (slot_is_sub r j Hok Hj) as (y & Hy & <-).
  rewrite (proj1 (slot_times r y Hok Hy)). unfold ivalW. cbn [fst snd].
  assert (Hi : 0 < r_interval r) by (destruct Hok as (_ & _ & Hi & _); exact Hi).
  split.
  - intros (y' & E & Hin). apply in_backs in Hin.
    assert (y' < nb r)%nat by lia. apply sub_inj in E; auto. subst y'. nia.
  - intros H. exists y. split; [reflexivity|]. apply in_backs. nia.
Qed.

(* ---- what emission does to the slots ---- *)
Lemma set_pushed_idem : forall b, set_pushed (set_pushed b) = set_pushed b.
Proof. reflexivity. Qed.

Lemma mark_pushed_length : forall idxs bs, length (mark_pushed bs idxs) = length bs.
Proof.
  unfold mark_pushed. induction idxs; intros bs; simpl; [reflexivity|]. rewrite IHidxs. apply update_nth_length.
Qed.

Lemma mark_pushed_nth : forall idxs bs j d, (j < length bs)%nat ->
  nth j (mark_pushed bs idxs) d = if existsb (Nat.eqb j) idxs then set_pushed (nth j bs d) else nth j bs d.
Proof.
  unfold mark_pushed. induction idxs as [|i tl IH]; intros bs j d Hj; simpl; [reflexivity|].
  rewrite IH by (rewrite update_nth_length; assumption).
  destruct (Nat.eqb_spec j i) as [->|Hne]; simpl.
  - change (fun b => {| b_start := b_start b; b_end := b_end b; b_pushed := true; b_keys := b_keys b; b_stats := b_stats b |}) with set_pushed.
    rewrite nth_update_nth_same by assumption. destruct (existsb (Nat.eqb i) tl); reflexivity.
  - rewrite nth_update_nth_other by congruence. reflexivity.
Qed.

Lemma mark_all_nth : forall (sent : list collection) bs j d, (j < length bs)%nat ->
  nth j (fold_left (fun bs c => mark_pushed bs (c_buckets c)) sent bs) d
  = if existsb (fun c => existsb (Nat.eqb j) (c_buckets c)) sent then set_pushed (nth j bs d) else nth j bs d.
Proof.
  induction sent as [|c tl IH]; intros bs j d Hj; simpl; [reflexivity|].
  rewrite IH by (rewrite mark_pushed_length; assumption).
  rewrite mark_pushed_nth by assumption.
  destruct (existsb (Nat.eqb j) (c_buckets c)); simpl; destruct (existsb _ tl); reflexivity.
Qed.

Lemma mark_all_length : forall (sent : list collection) bs,
  length (fold_left (fun bs c => mark_pushed bs (c_buckets c)) sent bs) = length bs.
Proof. induction sent; intros; simpl; [reflexivity|]. rewrite IHsent. apply mark_pushed_length. Qed.

(* Termination of the repaired walk, and the full description of an emission:
   the walk visits W x for x = p+1, p+1+k, ... (newest first) while the start slot is unpushed and the window stays
   short of the head; the non-empty ones are handed over oldest first and exactly their slots become pushed. *)
Lemma emit_spec : forall r, ring_ok r -> cfg_ok r ->
  exists m r' sent,
    let xs := seqk (r_agg r) (S (r_push_after r)) m in
    emit r = Some (r', sent)
    /\ sent = filter (fun c => negb (Nat.eqb (length (c_flows c)) 0)) (rev (map (W r) xs))
    /\ (forall x, In x xs -> (S (r_push_after r) <= x)%nat /\ (x + r_agg r < nb r)%nat
          /\ b_pushed (bk r (sub r (x + r_agg r))) = false
          /\ (x = S (r_push_after r) \/ exists x', In x' xs /\ x = (x' + r_agg r)%nat))
    /\ nb r' = nb r /\ r_head r' = r_head r /\ r_interval r' = r_interval r /\ r_dia r' = r_dia r
    /\ r_agg r' = r_agg r /\ r_push_after r' = r_push_after r /\ r_fix_walk r' = r_fix_walk r /\ r_fix_agg r' = r_fix_agg r
    /\ forall j, (j < nb r)%nat ->
         bk r' j = if existsb (fun c => existsb (Nat.eqb j) (c_buckets c)) sent then set_pushed (bk r j) else bk r j.
Proof.
  intros r Hok Hcfg. pose proof Hok as (Hn & Hh & Hi & _). pose proof Hcfg as (Hk & Hc & Hfix).
  destruct (emit_walk_shape r Hok Hcfg (emit_fuel r) (S (r_push_after r)) []) as (m & Em & Hm);
    try (unfold emit_fuel; lia).
  exists m. unfold emit.
  assert (E0 : idx_sub (nb r) (idx_sub (nb r) (r_head r) 1) (r_push_after r) = sub r (S (r_push_after r))).
  { unfold sub. rewrite sub_sub by lia. reflexivity. }
  rewrite E0.
  assert (E1 : idx_sub (nb r) (sub r (S (r_push_after r))) (r_agg r) = sub r (S (r_push_after r) + r_agg r)).
  { unfold sub. rewrite sub_sub by lia. reflexivity. }
  rewrite E1, Em. cbn [app].
  eexists. eexists. cbv zeta. split; [reflexivity|]. split; [reflexivity|]. split; [exact Hm|].
  split; [unfold nb; cbn [r_buckets with_buckets]; apply mark_all_length|].
  repeat (split; [reflexivity|]).
  intros j Hj. unfold bk. cbn [r_buckets with_buckets]. apply mark_all_nth. exact Hj.
Qed.

Lemma emit_terminates : forall r, ring_ok r -> cfg_ok r -> emit r <> None.
Proof. intros r Hok Hcfg. destruct (emit_spec r Hok Hcfg) as (m & r' & sent & E & _). congruence. Qed.

(* ---- each bucket interval is handed to the sink at most once ---- *)
Definition disj (x y : Z * Z) : Prop := snd x <= fst y \/ snd y <= fst x.
Fixpoint pdisj (l : list (Z * Z)) : Prop :=
  match l with [] => True | x :: tl => Forall (disj x) tl /\ pdisj tl end.

Lemma disj_sym : forall x y, disj x y -> disj y x.
Proof. unfold disj. tauto. Qed.

Lemma pdisj_app : forall l1 l2, pdisj (l1 ++ l2) <-> pdisj l1 /\ pdisj l2 /\ forall x y, In x l1 -> In y l2 -> disj x y.
Proof.
  induction l1; intros l2; simpl.
  - split; [intros H; split; [exact I|split; [exact H|intros x y []]]|tauto].
  - rewrite Forall_app, IHl1. rewrite !Forall_forall. split.
    + intros ((A & B) & C & D & E). repeat split; auto. intros x y [<-|Hx] Hy; auto.
    + intros ((A & B) & C & D). repeat split; auto.
Qed.

Lemma pdisj_rev : forall l, pdisj l -> pdisj (rev l).
Proof.
  induction l; simpl; intros H; [exact I|]. destruct H as [A B]. apply pdisj_app.
  split; [apply IHl; assumption|]. split; [simpl; auto|].
  intros x y Hx [<-|[]]. apply disj_sym. rewrite Forall_forall in A. apply A. apply in_rev. assumption.
Qed.

Lemma pdisj_filter_map : forall (f : collection -> bool) l, pdisj (map ival l) -> pdisj (map ival (filter f l)).
Proof.
  induction l; simpl; intros H; [exact I|]. destruct H as [A B].
  destruct (f a); simpl; auto. split; auto.
  rewrite Forall_forall in *. intros x Hx. apply A. apply in_map_iff in Hx. destruct Hx as (c & <- & Hc).
  apply filter_In in Hc. apply in_map. tauto.
Qed.

Lemma seqk_ge : forall k m d x, In x (seqk k d m) -> (d <= x)%nat.
Proof.
  induction m; simpl; intros d x H; [tauto|]. destruct H as [<-|H]; [lia|]. apply IHm in H. lia.
Qed.

Lemma pdisj_seqk : forall r k m d, 0 < r_interval r -> (1 <= k)%nat -> k = r_agg r ->
  pdisj (map (ivalW r) (seqk k d m)).
Proof.
  intros r k m. induction m; intros d Hi Hk Ek; simpl; [exact I|]. split; [|apply IHm; auto].
  rewrite Forall_forall. intros y Hy. apply in_map_iff in Hy. destruct Hy as (x & <- & Hx).
  apply seqk_ge in Hx. unfold disj, ivalW. cbn [fst snd]. right. subst k. nia.
Qed.

(* the ghost list `em` of intervals handed over so far, tied to the pushed flags *)
Definition hz (r : ring) : Z := eoh r - (Z.of_nat (r_push_after r) + 2) * r_interval r.

Definition pinv (r : ring) (em : list (Z * Z)) : Prop :=
  pdisj em
  /\ (forall ab, In ab em -> snd ab = fst ab + Z.of_nat (r_agg r) * r_interval r /\ snd ab <= hz r)
  /\ (forall j, (j < nb r)%nat ->
        (b_pushed (bk r j) = true <-> exists ab, In ab em /\ fst ab <= b_start (bk r j) < snd ab)).

Lemma existsb_sent_iff : forall (sent : list collection) j,
  existsb (fun c => existsb (Nat.eqb j) (c_buckets c)) sent = true <-> exists c, In c sent /\ In j (c_buckets c).
Proof.
  intros. rewrite existsb_exists. split; intros (c & Hc & H); exists c; split; auto.
  - apply existsb_exists in H. destruct H as (j' & Hj' & E). apply Nat.eqb_eq in E. subst. assumption.
  - apply existsb_exists. exists j. split; auto. apply Nat.eqb_refl.
Qed.

Lemma emit_pinv : forall r em r' sent, ring_ok r -> cfg_ok r -> pinv r em -> emit r = Some (r', sent) ->
  pinv r' (em ++ map ival sent).
Proof.
  intros r em r' sent Hok Hcfg (P0 & P1 & P2) E.
  destruct (emit_spec r Hok Hcfg) as (m & r'' & sent' & E' & Hsent & Hxs & Hnb & Hhd & Hiv & _ & Hagg & Hpa & _ & _ & Hbk).
  rewrite E in E'. injection E' as <- <-.
  pose proof Hok as (Hn & Hh & Hi & _). pose proof Hcfg as (Hk & Hcf & _).
  set (xs := seqk (r_agg r) (S (r_push_after r)) m) in *.
  assert (Heoh : eoh r' = eoh r).
  { unfold eoh. rewrite Hhd, Hbk by lia. destruct (existsb _ sent); reflexivity. }
  assert (Hstart : forall j, (j < nb r)%nat -> b_start (bk r' j) = b_start (bk r j)).
  { intros j Hj. rewrite Hbk by assumption. destruct (existsb _ sent); reflexivity. }
  (* every sent collection is some W x, x in xs *)
  assert (HsentW : forall c, In c sent -> exists x, In x xs /\ c = W r x).
  { intros c Hc. rewrite Hsent in Hc. apply filter_In in Hc. destruct Hc as [Hc _].
    apply in_rev in Hc. apply in_map_iff in Hc. destruct Hc as (x & <- & Hx). eauto. }
  (* W x is disjoint from everything handed over before *)
  assert (Hnew : forall x ab, In x xs -> In ab em -> disj ab (ivalW r x)).
  { intros x ab Hx Hab. destruct (Hxs x Hx) as (Hx1 & Hx2 & Hunp & Hprev).
    destruct (P1 ab Hab) as [Hlen Hhz].
    pose proof (slot_times r (x + r_agg r) Hok Hx2) as [Ts _].
    assert (Hnot : ~ (fst ab <= b_start (bk r (sub r (x + r_agg r))) < snd ab)).
    { intro Hcov. assert (b_pushed (bk r (sub r (x + r_agg r))) = true).
      { apply P2; [apply sub_lt; assumption|]. exists ab. auto. }
      congruence. }
    unfold disj, ivalW. cbn [fst snd]. rewrite Ts in Hnot.
    destruct (Z_le_gt_dec (snd ab) (eoh r - (Z.of_nat (x + r_agg r) + 1) * r_interval r)) as [|Hgt]; [left; assumption|].
    right.
    (* then the interval starts after W x's start; if it also started before W x's end, the slot at W x's end
       (the start slot of the next newer window, or the horizon) would be covered *)
    destruct (Z_le_gt_dec (eoh r - (Z.of_nat x + 1) * r_interval r) (fst ab)) as [|Hlt]; [assumption|exfalso].
    assert (Ha : eoh r - (Z.of_nat (x + r_agg r) + 1) * r_interval r < fst ab) by lia.
    destruct Hprev as [->|(x' & Hx' & ->)].
    - unfold hz in Hhz. nia.
    - destruct (Hxs x' Hx') as (_ & Hx'2 & Hunp' & _).
      pose proof (slot_times r (x' + r_agg r) Hok Hx'2) as [Ts' _].
      assert (b_pushed (bk r (sub r (x' + r_agg r))) = true).
      { apply P2; [apply sub_lt; assumption|]. exists ab. split; [assumption|]. rewrite Ts'. nia. }
      congruence. }
  assert (HivalS : forall c, In c sent -> exists x, In x xs /\ ival c = ivalW r x).
  { intros c Hc. destruct (HsentW c Hc) as (x & Hx & ->). exists x. split; auto. apply ival_W; auto. apply Hxs; auto. }
  split; [|split].
  - apply pdisj_app. split; [assumption|]. split.
    + rewrite Hsent. apply pdisj_filter_map.
      assert (X : map ival (map (W r) xs) = map (ivalW r) xs).
      { rewrite map_map. apply map_ext_in. intros x Hx. apply ival_W; auto. apply Hxs; auto. }
      rewrite map_rev, X. apply pdisj_rev. apply pdisj_seqk; auto.
    + intros x y Hx Hy. apply in_map_iff in Hy. destruct Hy as (c & <- & Hc).
      destruct (HivalS c Hc) as (x' & Hx' & ->). apply Hnew; assumption.
  - intros ab Hab. unfold hz. rewrite Hagg, !Hiv, Heoh, Hpa. fold (hz r). apply in_app_or in Hab. destruct Hab as [Hab|Hab].
    + apply P1. assumption.
    + apply in_map_iff in Hab. destruct Hab as (c & <- & Hc). destruct (HivalS c Hc) as (x & Hx & ->).
      destruct (Hxs x Hx) as (Hx1 & _). unfold ivalW, hz. cbn [fst snd]. split; nia.
  - intros j Hj. rewrite Hnb in Hj. rewrite Hstart by assumption. rewrite Hbk by assumption.
    destruct (existsb (fun c => existsb (Nat.eqb j) (c_buckets c)) sent) eqn:Ex.
    + split; [intros _|reflexivity].
      apply existsb_sent_iff in Ex. destruct Ex as (c & Hc & Hjc).
      destruct (HsentW c Hc) as (x & Hx & ->).
      exists (ivalW r x). split.
      * apply in_or_app. right. apply in_map_iff. exists (W r x). split; [apply ival_W; auto; apply Hxs; auto|assumption].
      * apply in_buckets_W_iff; auto. apply Hxs; auto.
    + rewrite P2 by assumption. split.
      * intros (ab & Hab & Hcov). exists ab. split; [apply in_or_app; left; assumption|assumption].
      * intros (ab & Hab & Hcov). apply in_app_or in Hab. destruct Hab as [Hab|Hab]; [eauto|exfalso].
        apply in_map_iff in Hab. destruct Hab as (c & <- & Hc). destruct (HsentW c Hc) as (x & Hx & ->).
        rewrite ival_W in Hcov by (auto; apply Hxs; auto).
        apply in_buckets_W_iff in Hcov; auto; [|apply Hxs; auto].
        assert (existsb (fun c => existsb (Nat.eqb j) (c_buckets c)) sent = true)
          by (apply existsb_sent_iff; eauto).
        congruence.
Qed.

(* ---- the other operations ---- *)
Lemma rollover_bk : forall r j, (2 <= nb r)%nat -> (r_head r < nb r)%nat ->
  bk (rollover_core r) j = if Nat.eqb j (next_idx r (r_head r)) then empty_bucket (eoh r) (eoh r + r_interval r) else bk r j.
Proof.
  intros r j Hn Hh. unfold bk. rewrite rollover_core_buckets.
  destruct (Nat.eqb_spec j (next_idx r (r_head r))) as [->|Hne].
  - rewrite nth_update_nth_same; [reflexivity|]. unfold next_idx, idx_add. apply Nat.mod_upper_bound. fold (nb r). lia.
  - apply nth_update_nth_other. congruence.
Qed.

Lemma rollover_eoh : forall r, (2 <= nb r)%nat -> (r_head r < nb r)%nat -> eoh (rollover_core r) = eoh r + r_interval r.
Proof. intros r Hn Hh. unfold eoh at 1. rewrite rollover_core_head, rollover_bk, Nat.eqb_refl by assumption. reflexivity. Qed.

Lemma rollover_pinv : forall r em, ring_ok r -> pinv r em -> pinv (rollover_core r) em.
Proof.
  intros r em Hok (P0 & P1 & P2). pose proof Hok as (Hn & Hh & Hi & _).
  split; [assumption|]. split.
  - intros ab Hab. destruct (P1 ab Hab) as [A B]. split; [exact A|].
    unfold hz in *. rewrite rollover_eoh by assumption.
    change (r_push_after (rollover_core r)) with (r_push_after r). change (r_interval (rollover_core r)) with (r_interval r). lia.
  - intros j Hj. rewrite rollover_core_nb in Hj. rewrite rollover_bk by assumption.
    destruct (Nat.eqb_spec j (next_idx r (r_head r))) as [->|Hne]; [|apply P2; assumption].
    cbn [empty_bucket b_pushed b_start]. split; [discriminate|].
    intros (ab & Hab & Hcov). destruct (P1 ab Hab) as [_ B]. unfold hz in B. nia.
Qed.

Lemma add_flow_bk : forall r f j,
  b_pushed (bk (fst (add_flow r f)) j) = b_pushed (bk r j) /\ b_start (bk (fst (add_flow r f)) j) = b_start (bk r j).
Proof.
  intros r f j. unfold add_flow. destruct (find_bucket r (f_start f)) as [idx|]; [|split; reflexivity].
  cbv zeta. unfold bk. cbn [fst r_buckets with_buckets with_dia].
  destruct (Nat.eq_dec idx j) as [->|Hne].
  - destruct (Nat.lt_ge_cases j (length (r_buckets r))).
    + rewrite nth_update_nth_same by assumption. split; reflexivity.
    + rewrite !nth_overflow; [split; reflexivity|assumption|rewrite update_nth_length; assumption].
  - rewrite nth_update_nth_other by assumption. split; reflexivity.
Qed.

Lemma add_flow_fields : forall r f,
  let r' := fst (add_flow r f) in
  nb r' = nb r /\ r_head r' = r_head r /\ r_interval r' = r_interval r /\ r_agg r' = r_agg r
  /\ r_push_after r' = r_push_after r /\ r_fix_walk r' = r_fix_walk r /\ r_fix_agg r' = r_fix_agg r.
Proof.
  intros r f. unfold add_flow. destruct (find_bucket r (f_start f)); cbv zeta; cbn [fst]; [|repeat split; reflexivity].
  unfold nb. cbn [r_buckets with_buckets with_dia]. rewrite update_nth_length. repeat split; reflexivity.
Qed.

Lemma add_flow_pinv : forall r f em, pinv r em -> pinv (fst (add_flow r f)) em.
Proof.
  intros r f em (P0 & P1 & P2). destruct (add_flow_fields r f) as (A1 & A2 & A3 & A4 & A5 & _).
  assert (Heoh : eoh (fst (add_flow r f)) = eoh r).
  { pose proof (add_flow_frame r f) as (_ & B2 & _ & B4). unfold eoh. rewrite B2. apply B4. }
  split; [assumption|]. split.
  - intros ab Hab. unfold hz. rewrite A4, A3, A5, Heoh. apply P1. assumption.
  - intros j Hj. rewrite A1 in Hj. destruct (add_flow_bk r f j) as [-> ->]. apply P2. assumption.
Qed.

Definition winv (r : ring) (em : list (Z * Z)) : Prop := ring_ok r /\ cfg_ok r /\ pinv r em.

Definition out_intervals (o : out) : list (Z * Z) :=
  match o with OEmitted cs => map (fun c : ocoll => (fst (fst c), snd (fst c))) cs | _ => [] end.

Lemma out_intervals_sent : forall sent, out_intervals (OEmitted (map obs_coll sent)) = map ival sent.
Proof. intros. simpl. rewrite map_map. reflexivity. Qed.

Lemma cfg_ok_same : forall r r', nb r' = nb r -> r_agg r' = r_agg r -> r_push_after r' = r_push_after r ->
  r_fix_walk r' = r_fix_walk r -> cfg_ok r -> cfg_ok r'.
Proof. intros r r' A B C D (H1 & H2 & H3). unfold cfg_ok. rewrite A, B, C, D. auto. Qed.

Lemma rollover_winv : forall r em, winv r em -> winv (rollover_core r) em.
Proof.
  intros r em (Hok & Hcfg & Hp). split; [apply rollover_ok; assumption|]. split; [|apply rollover_pinv; assumption].
  apply (cfg_ok_same r); auto. apply rollover_core_nb.
Qed.

Lemma emit_winv : forall r em, winv r em ->
  exists r' sent, emit r = Some (r', sent) /\ winv r' (em ++ map ival sent).
Proof.
  intros r em (Hok & Hcfg & Hp).
  destruct (emit_spec r Hok Hcfg) as (m & r' & sent & E & _ & _ & Hnb & _ & _ & _ & Hagg & Hpa & Hfw & _).
  exists r', sent. split; [assumption|]. split.
  - pose proof (emit_frame _ _ _ E) as F. unfold ring_ok. rewrite (proj1 F). eapply same_frame_cons; eauto.
  - split; [apply (cfg_ok_same r); auto|]. eapply emit_pinv; eauto.
Qed.

Lemma step_winv : forall r em o, winv r em -> winv (fst (step r o)) (em ++ out_intervals (snd (step r o))).
Proof.
  intros r em o H. destruct o as [f|[|]| |gte lt|gte lt].
  - assert (E1 : fst (step r (OpAdd f)) = fst (add_flow r f)) by (simpl; destruct (add_flow r f); reflexivity).
    assert (E2 : out_intervals (snd (step r (OpAdd f))) = []) by (simpl; destruct (add_flow r f); reflexivity).
    rewrite E2, app_nil_r. destruct H as (Hok & Hcfg & Hp).
    split; [apply step_ok; assumption|]. rewrite E1.
    destruct (add_flow_fields r f) as (A1 & _ & _ & A4 & A5 & A6 & _).
    split; [apply (cfg_ok_same r); auto|apply add_flow_pinv; assumption].
  - apply rollover_winv in H. destruct (emit_winv _ _ H) as (r2 & sent & E & H2).
    cbn [step]. rewrite E. cbn [fst snd]. rewrite out_intervals_sent. exact H2.
  - simpl. rewrite app_nil_r. apply rollover_winv. assumption.
  - destruct (emit_winv _ _ H) as (r2 & sent & E & H2).
    cbn [step]. rewrite E. cbn [fst snd]. rewrite out_intervals_sent. exact H2.
  - simpl. rewrite app_nil_r. assumption.
  - simpl. rewrite app_nil_r. assumption.
Qed.

Fixpoint emitted_intervals (outs : list out) : list (Z * Z) :=
  match outs with [] => [] | o :: tl => out_intervals o ++ emitted_intervals tl end.

Lemma run_cons : forall r o ops, run r (o :: ops) = snd (step r o) :: run (fst (step r o)) ops.
Proof. intros. simpl. destruct (step r o). reflexivity. Qed.

Lemma run_winv : forall ops r em, winv r em -> pdisj (em ++ emitted_intervals (run r ops)) /\ ~ In ODiverge (run r ops).
Proof.
  induction ops as [|o ops IH]; intros r em H.
  - simpl. rewrite app_nil_r. split; [apply H|tauto].
  - rewrite run_cons. cbn [emitted_intervals]. rewrite app_assoc.
    pose proof (step_winv r em o H) as H'. destruct (IH _ _ H') as [A B]. split; [exact A|].
    intros [E|E]; [|tauto].
    destruct o as [f|[|]| |gte lt|gte lt]; simpl in E.
    + destruct (add_flow r f); discriminate.
    + destruct (emit_winv _ _ (rollover_winv _ _ H)) as (r2 & sent & E2 & _). rewrite E2 in E. discriminate.
    + discriminate.
    + destruct (emit_winv _ _ H) as (r2 & sent & E2 & _). rewrite E2 in E. discriminate.
    + discriminate.
    + discriminate.
Qed.

(* the freshly built ring: nothing pushed, nothing handed over *)
Lemma iter_rollover_unpushed : forall k r, (2 <= nb r)%nat -> (r_head r < nb r)%nat ->
  (forall j, b_pushed (bk r j) = false) ->
  let r' := Nat.iter k rollover_core r in
  (forall j, b_pushed (bk r' j) = false) /\ nb r' = nb r /\ (r_head r' < nb r')%nat
  /\ r_agg r' = r_agg r /\ r_push_after r' = r_push_after r /\ r_fix_walk r' = r_fix_walk r.
Proof.
  induction k; intros r Hn Hh Hu; [simpl; repeat split; auto|].
  destruct (IHk r Hn Hh Hu) as (A & B & C & D & E & F).
  change (Nat.iter (S k) rollover_core r) with (rollover_core (Nat.iter k rollover_core r)). cbv zeta.
  split. { intros j. rewrite rollover_bk by lia. destruct (Nat.eqb j _); [reflexivity|apply A]. }
  split. { rewrite rollover_core_nb. exact B. }
  split. { rewrite rollover_core_nb, rollover_core_head. unfold next_idx, idx_add. apply Nat.mod_upper_bound. lia. }
  split; [exact D|]. split; [exact E|exact F].
Qed.

Lemma new_ring_winv : forall n interval now p k fa,
  (1 <= k)%nat -> (p + k + 2 <= n)%nat -> 0 < interval -> winv (new_ring n interval now p k true fa) [].
Proof.
  intros n interval now p k fa Hk Hc Hi.
  assert (Hok : ring_ok (new_ring n interval now p k true fa)) by (apply new_ring_ok; lia).
  unfold new_ring in *. set (r0 := {| r_buckets := _ |}) in *.
  assert (Hnb : nb r0 = n).
  { unfold nb, r0. simpl. destruct n as [|n']; [lia|]. simpl. rewrite repeat_length. reflexivity. }
  assert (Hu : forall j, b_pushed (bk r0 j) = false).
  { intros j. unfold bk, r0. cbn [r_buckets]. destruct n as [|n']; [lia|]. simpl.
    destruct j; [reflexivity|]. destruct (Nat.lt_ge_cases j (length (repeat (empty_bucket 0 0) n'))).
    - assert (X : In (nth j (repeat (empty_bucket 0 0) n') (empty_bucket 0 0)) (repeat (empty_bucket 0 0) n')) by (apply nth_In; assumption).
      apply repeat_spec in X. rewrite X. reflexivity.
    - rewrite nth_overflow by assumption. reflexivity. }
  destruct (iter_rollover_unpushed n r0 ltac:(lia) ltac:(simpl; lia) Hu) as (A & B & C & D & E & F).
  split; [assumption|]. split.
  - unfold cfg_ok. rewrite B, D, E, F, Hnb. simpl. auto.
  - split; [exact I|]. split; [intros ab []|].
    intros j Hj. rewrite A. split; [discriminate|]. intros (ab & [] & _).
Qed.

Lemma at_most_once_all_histories : forall n interval now p k fa ops,
  (1 <= k)%nat -> (p + k + 2 <= n)%nat -> 0 < interval ->
  pdisj (emitted_intervals (run (new_ring n interval now p k true fa) ops))
  /\ ~ In ODiverge (run (new_ring n interval now p k true fa) ops).
Proof.
  intros n interval now p k fa ops Hk Hc Hi.
  exact (run_winv ops _ [] (new_ring_winv n interval now p k fa Hk Hc Hi)).
Qed.
